(* Proofs/SerdeRTLeaf.v — C07, leaves: chars, floats, integers, date-times read back what was written. *)
From TV Require Import Base.Prelude Base.Utf8 Model.Datetime Model.DatetimeStd Model.WriteFloat Model.SerNum
  Spec.DatetimeSpec Spec.SerdeData Model.Ser Model.De
  Proofs.LexEquivBase Proofs.NumbersRT_Widen Proofs.NumbersRT_Ser Proofs.DatetimeEq Proofs.SerdeRTBase.
Require Import Lia ZifyBool ZifyN ZifyNat.
Ltac Zify.zify_post_hook ::= Z.div_mod_to_equations.
Local Open Scope N_scope.

(* ---- char: CharVisitor::visit_str (encode_utf8 c) = c ---- *)
Lemma de_char_encode c : is_scalar c = true -> de_char (utf8_encode c) = Ok (SChar c).
Proof.
  unfold is_scalar. intro H. unfold de_char, utf8_encode.
  destruct (c <? 128) eqn:E1.
  - unfold utf8_decode1. rewrite b2n_n2b by lia. rewrite E1. reflexivity.
  - destruct (c <? 2048) eqn:E2.
    + unfold utf8_decode1. rewrite !b2n_n2b by lia.
      replace (192 + c / 64 <? 128) with false by lia.
      replace (192 + c / 64 <? 224) with true by lia.
      do 3 f_equal. lia.
    + destruct (c <? 65536) eqn:E3.
      * unfold utf8_decode1. rewrite !b2n_n2b by lia.
        replace (224 + c / 4096 <? 128) with false by lia.
        replace (224 + c / 4096 <? 224) with false by lia.
        replace (224 + c / 4096 <? 240) with true by lia.
        do 3 f_equal. lia.
      * unfold utf8_decode1. rewrite !b2n_n2b by lia.
        replace (240 + c / 262144 <? 128) with false by lia.
        replace (240 + c / 262144 <? 224) with false by lia.
        replace (240 + c / 262144 <? 240) with false by lia.
        do 3 f_equal. lia.
Qed.

(* ---- floats ---- *)
Lemma is_nan64_fields B : is_nan64 B = (ex64 B =? 2047) && negb (mant64 B =? 0).
Proof. reflexivity. Qed.
Lemma is_nan32_fields b : is_nan32 b = (ex32 b =? 255) && negb (mant32 b =? 0).
Proof. reflexivity. Qed.

Lemma narrow32_fields s e m : s < 2 -> e < 2048 -> m < p52 ->
  narrow32 (s * p63 + e * p52 + m) = s * p31 + narrow_mag e m.
Proof.
  intros Hs He Hm. destruct (assemble_fields s e m Hs He Hm) as (F1 & F2 & F3).
  unfold narrow32. change (2 ^ 52) with p52. change (2 ^ 63) with p63. change (2 ^ 11) with 2048. change (2 ^ 31) with p31.
  rewrite F1, F2, F3. reflexivity.
Qed.

Lemma log2_52 M : p52 <= M -> M < 2 * p52 -> N.log2 M = 52.
Proof.
  intros H1 H2. apply N.log2_unique; [lia|]. change (2 ^ 52) with p52. change (2 ^ N.succ 52) with (2 * p52).
  split; assumption.
Qed.

(* the magnitude narrow32 computes from the fields widen32 assembled, for a non-NaN f32 *)
Lemma narrow_mag_wide b : is_nan32 b = false ->
  narrow_mag (fst (wide_fields b)) (snd (wide_fields b)) = ex32 b * p23 + mant32 b.
Proof.
  rewrite is_nan32_fields. intro Hn.
  pose proof (mant32_lt b) as Hm. pose proof (ex32_lt b) as He.
  unfold wide_fields.
  destruct (ex32 b =? 255) eqn:E1; cbn [fst snd].
  - (* infinity *)
    assert (mant32 b = 0) as -> by lia. assert (ex32 b = 255) as -> by lia. reflexivity.
  - destruct (ex32 b =? 0) eqn:E2; cbn [fst snd].
    + destruct (mant32 b =? 0) eqn:E3; cbn [fst snd].
      * assert (mant32 b = 0) as -> by lia. assert (ex32 b = 0) as -> by lia. reflexivity.
      * (* subnormal f32 *)
        assert (ex32 b = 0) as -> by lia.
        set (mt := mant32 b) in *. assert (H0 : 0 < mt) by lia.
        destruct (subnormal_fields mt H0 Hm) as [K1 K2].
        destruct (N.log2_spec mt H0) as [L1 L2]. set (k := N.log2 mt) in *.
        assert (Epow : p52 = 2 ^ k * 2 ^ (52 - k)).
        { rewrite <- N.pow_add_r. replace (k + (52 - k)) with 52 by lia. reflexivity. }
        assert (EM : 2 ^ 52 + (mt - 2 ^ k) * 2 ^ (52 - k) = mt * 2 ^ (52 - k)).
        { change (2 ^ 52) with p52. rewrite Epow at 1. rewrite N.mul_sub_distr_r. 
          assert (2 ^ k * 2 ^ (52 - k) <= mt * 2 ^ (52 - k)) by (apply N.mul_le_mono_r; exact L1). lia. }
        assert (Hpos : 2 ^ (52 - k) <> 0) by (apply N.pow_nonzero; discriminate).
        assert (HM1 : p52 <= mt * 2 ^ (52 - k)).
        { rewrite Epow. apply N.mul_le_mono_r; exact L1. }
        assert (HM2 : mt * 2 ^ (52 - k) < 2 * p52).
        { rewrite Epow. rewrite N.pow_succ_r' in L2. 
          replace (2 * (2 ^ k * 2 ^ (52 - k))) with ((2 * 2 ^ k) * 2 ^ (52 - k)) by lia.
          apply N.mul_lt_mono_pos_r; lia. }
        unfold narrow_mag.
        replace (k + 874 =? 2047) with false by lia.
        replace (k + 874 =? 0) with false by lia.
        rewrite EM.
        replace (mt * 2 ^ (52 - k) =? 0) with false by (unfold p52 in *; lia).
        rewrite (log2_52 _ HM1 HM2).
        replace (1075 + 127 <? 52 + (k + 874)) with false by lia.
        replace (52 + (k + 874) <? 1075 - 126 + 1) with true by lia.
        replace (1 + 925 - (k + 874)) with (52 - k) by lia.
        rewrite N.div_mul by exact Hpos. rewrite N.mod_mul by exact Hpos.
        assert (Hhalf : 2 ^ (52 - k - 1) <> 0) by (apply N.pow_nonzero; discriminate).
        replace (2 ^ (52 - k - 1) <? 0) with false by lia.
        replace (2 ^ (52 - k - 1) =? 0) with false by lia.
        cbn [orb andb]. unfold p23. lia.
    + (* normal f32 *)
      set (mt := mant32 b) in *. set (ex := ex32 b) in *.
      assert (HM1 : p52 <= 2 ^ 52 + mt * p29) by (unfold p52; lia).
      assert (HM2 : 2 ^ 52 + mt * p29 < 2 * p52) by (unfold p52, p29, p23 in *; lia).
      unfold narrow_mag.
      replace (ex + 896 =? 2047) with false by lia.
      replace (ex + 896 =? 0) with false by lia.
      replace (2 ^ 52 + mt * p29 =? 0) with false by (unfold p52 in *; lia).
      rewrite (log2_52 _ HM1 HM2).
      replace (1075 + 127 <? 52 + (ex + 896)) with false by lia.
      assert (Heb : (if 52 + (ex + 896) <? 1075 - 126 + 1 then 1 else 52 + (ex + 896) - (1075 - 127)) = ex).
      { destruct (52 + (ex + 896) <? 1075 - 126 + 1) eqn:E; lia. }
      rewrite Heb.
      replace (ex + 925 - (ex + 896)) with 29 by lia.
      change (2 ^ 29) with p29. change (2 ^ (29 - 1)) with 268435456.
      assert (Hq : (2 ^ 52 + mt * p29) / p29 = p23 + mt).
      { change (2 ^ 52) with (p23 * p29). rewrite <- N.mul_add_distr_r. apply N.div_mul. discriminate. }
      assert (Hr : (2 ^ 52 + mt * p29) mod p29 = 0).
      { change (2 ^ 52) with (p23 * p29). rewrite <- N.mul_add_distr_r. apply N.mod_mul. discriminate. }
      rewrite Hq, Hr. cbn [N.ltb N.eqb N.compare orb andb]. 
      replace (268435456 <? 0) with false by lia. replace (268435456 =? 0) with false by lia.
      cbn [orb andb]. unfold p23. lia.
Qed.

Lemma canon_nan_not_nan B : is_nan64 B = false -> canon_nan B = B.
Proof. unfold canon_nan. intros ->. reflexivity. Qed.

Lemma widen32_is_nan b : is_nan64 (widen32 b) = is_nan32 b.
Proof. pose proof (widen32_nan b) as H. rewrite classify64_nan, classify32_nan in H. exact H. Qed.

(* serialize_f32 then f32's visitor (`v as f32`) *)
Theorem f32_roundtrip b : b < 2 ^ 32 -> f32_eq b (narrow32 (canon_nan (widen32 b))).
Proof.
  intro Hb. destruct (is_nan32 b) eqn:En.
  - (* NaN: the result is a NaN *)
    right. split; [exact En|].
    assert (Hn64 : is_nan64 (widen32 b) = true) by (rewrite widen32_is_nan; exact En).
    unfold canon_nan. rewrite Hn64.
    rewrite widen32_eq. destruct (wide_fields_bounds b) as [B1 B2].
    rewrite is_nan64_fields in Hn64. destruct (widen32_fields b) as (F1 & F2 & _). rewrite F1, F2 in Hn64.
    pose proof (sign32_lt b) as Hs.
    set (e := fst (wide_fields b)) in *. set (m := snd (wide_fields b)) in *.
    assert (Hmod : (sign32 b * p63 + e * p52 + m) mod 2 ^ 63 = 0 * p63 + e * p52 + m).
    { change (2 ^ 63) with p63. unfold p63, p52 in *. lia. }
    rewrite Hmod. rewrite narrow32_fields by (try exact B1; try exact B2; lia).
    unfold narrow_mag. assert (e = 2047) as -> by lia. cbn [N.eqb].
    replace (2047 =? 2047) with true by lia. replace (m =? 0) with false by lia.
    rewrite is_nan32_fields. unfold ex32, mant32, p23, p31.
    assert (Hx : (m / 2 ^ 29) mod 2 ^ 22 < 4194304) by (change (2 ^ 22) with 4194304; lia).
    set (x := (m / 2 ^ 29) mod 2 ^ 22) in *. change (2 ^ 22) with 4194304. change (2 ^ 23) with 8388608.
    lia.
  - left. rewrite canon_nan_not_nan by (rewrite widen32_is_nan; exact En).
    rewrite widen32_eq. destruct (wide_fields_bounds b) as [B1 B2].
    rewrite narrow32_fields by (try exact B1; try exact B2; apply sign32_lt).
    rewrite narrow_mag_wide by exact En.
    rewrite (decompose32 b) at 1 by exact Hb. lia.
Qed.

Theorem f64_roundtrip b : f64_eq b (canon_nan b).
Proof.
  unfold canon_nan. destruct (is_nan64 b) eqn:E; [|left; reflexivity].
  right. split; [exact E|]. unfold is_nan64 in *. lia.
Qed.

(* ---- integers ---- *)
Lemma ser_int_value_ok w z x : in_ty w z = true -> ser_int_value w z = Ok x ->
  x = VInt z /\ de_int w z = Some z.
Proof.
  unfold ser_int_value. intros Hin H. destruct (ser_int w z) as [i|] eqn:E; [|discriminate].
  injection H as <-. destruct (ser_exact w z i Hin E) as [-> _]. split; [reflexivity|].
  apply de_in_range_ok; [|exact Hin]. destruct w; try reflexivity; discriminate.
Qed.

(* ---- date-times ---- *)
Lemma ser_datetime_ok d x : in_range d = true -> ser_datetime d = Ok x -> x = VDatetime d.
Proof.
  intros Hr. unfold ser_datetime, dt_field_str. rewrite (print_parse_std d Hr). simpl. congruence.
Qed.
Lemma de_datetime_ok d : in_range d = true -> de_datetime (VDatetime d) = Ok d.
Proof. intro Hr. unfold de_datetime, de_dt_str. rewrite (print_parse_std d Hr). reflexivity. Qed.
