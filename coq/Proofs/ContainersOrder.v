(* Proofs/ContainersOrder.v — order facts used by Proofs/ContainersRefine.v (property C16):
   the key order is a strict total order; a stable sort by a total preorder yields a sorted
   permutation and commutes with dropping entries. *)
From TV Require Import Base.Prelude Spec.Ordered Model.Containers.
Require Import Lia ZifyBool ZifyN ZifyNat.
From Coq Require Import Permutation.

(* ==================================================================================== *)
(** * A. key order *)

Lemma b2n_inj x y : b2n x = b2n y -> x = y.
Proof.
  unfold b2n. intro H.
  pose proof (Byte.of_to_N x) as Hx. pose proof (Byte.of_to_N y) as Hy.
  rewrite H in Hx. congruence.
Qed.

Lemma key_compare_refl a : key_compare a a = Eq.
Proof. induction a as [|x a IH]; simpl; [reflexivity|]. rewrite N.compare_refl. exact IH. Qed.

Lemma key_compare_eq a : forall b, key_compare a b = Eq -> a = b.
Proof.
  induction a as [|x a IH]; intros [|y b]; simpl; try congruence.
  destruct (N.compare (b2n x) (b2n y)) eqn:E; try congruence.
  intro H. apply N.compare_eq_iff in E. apply b2n_inj in E. f_equal; auto.
Qed.

Lemma key_compare_antisym a : forall b, key_compare b a = CompOpp (key_compare a b).
Proof.
  induction a as [|x a IH]; intros [|y b]; simpl; try reflexivity.
  rewrite (N.compare_antisym (b2n x) (b2n y)).
  destruct (N.compare (b2n x) (b2n y)); simpl; auto.
Qed.

Lemma key_compare_lt_trans a : forall b d,
  key_compare a b = Lt -> key_compare b d = Lt -> key_compare a d = Lt.
Proof.
  induction a as [|x a IH]; intros [|y b] [|z d]; simpl; try congruence.
  destruct (N.compare (b2n x) (b2n y)) eqn:E1; destruct (N.compare (b2n y) (b2n z)) eqn:E2;
    try congruence; intros H1 H2.
  - apply N.compare_eq_iff in E1. apply N.compare_eq_iff in E2. rewrite E1, E2, N.compare_refl. eauto.
  - apply N.compare_eq_iff in E1. rewrite E1, E2. reflexivity.
  - apply N.compare_eq_iff in E2. rewrite <- E2, E1. reflexivity.
  - rewrite N.compare_lt_iff in E1, E2.
    assert (H : (b2n x < b2n z)%N) by lia. apply N.compare_lt_iff in H. rewrite H. reflexivity.
Qed.

Lemma bytes_eqb_compare a b : bytes_eqb a b = true <-> key_compare a b = Eq.
Proof.
  rewrite bytes_eqb_eq. split; [intros ->; apply key_compare_refl | apply key_compare_eq].
Qed.

Lemma bytes_eqb_false a b : bytes_eqb a b = false <-> a <> b.
Proof.
  split.
  - intros H E. subst. rewrite bytes_eqb_refl in H. discriminate.
  - intro H. destruct (bytes_eqb a b) eqn:E; [|reflexivity]. apply bytes_eqb_eq in E. contradiction.
Qed.

Lemma bytes_eqb_sym a b : bytes_eqb a b = bytes_eqb b a.
Proof.
  destruct (bytes_eqb a b) eqn:E; symmetry.
  - apply bytes_eqb_eq in E. subst. apply bytes_eqb_refl.
  - apply bytes_eqb_false. apply bytes_eqb_false in E. congruence.
Qed.

Lemma key_ltb_irrefl a : key_ltb a a = false.
Proof. unfold key_ltb. rewrite key_compare_refl. reflexivity. Qed.

Lemma key_ltb_trans a b c : key_ltb a b = true -> key_ltb b c = true -> key_ltb a c = true.
Proof.
  unfold key_ltb. destruct (key_compare a b) eqn:E1; try discriminate.
  destruct (key_compare b c) eqn:E2; try discriminate. intros _ _.
  rewrite (key_compare_lt_trans a b c E1 E2). reflexivity.
Qed.

Lemma key_ltb_asym a b : key_ltb a b = true -> key_ltb b a = false.
Proof.
  intro H. destruct (key_ltb b a) eqn:E; [|reflexivity].
  pose proof (key_ltb_trans _ _ _ H E) as H2. rewrite key_ltb_irrefl in H2. discriminate.
Qed.

Lemma key_leb_total a b : key_leb a b = false -> key_leb b a = true.
Proof.
  unfold key_leb. rewrite (key_compare_antisym a b). destruct (key_compare a b); simpl; congruence.
Qed.

Lemma key_leb_trans a b c : key_leb a b = true -> key_leb b c = true -> key_leb a c = true.
Proof.
  unfold key_leb.
  destruct (key_compare a b) eqn:E1; try discriminate; intros _.
  - apply key_compare_eq in E1. subst. auto.
  - destruct (key_compare b c) eqn:E2; try discriminate; intros _.
    + apply key_compare_eq in E2. subst. rewrite E1. reflexivity.
    + rewrite (key_compare_lt_trans a b c E1 E2). reflexivity.
Qed.

(* ==================================================================================== *)
(** * B. stable sort: sortedness, and commutation with dropping entries *)

Fixpoint sorted_by {A} (R : A -> A -> Prop) (l : list A) : Prop :=
  match l with
  | [] => True
  | x :: l' => Forall (R x) l' /\ sorted_by R l'
  end.

Section SortFacts.
  Context {A B : Type} (le : A -> A -> bool) (le' : B -> B -> bool) (f : A -> option B) (Q : A -> Prop).
  Hypothesis le_trans : forall a b c, le a b = true -> le b c = true -> le a c = true.
  Hypothesis le_total : forall a b, le a b = false -> le b a = true.
  Hypothesis compat : forall a b y z, Q a -> Q b -> f a = Some y -> f b = Some z -> le' y z = le a b.

  Let R := fun a b => le a b = true.

  Fixpoint pmap (l : list A) : list B :=
    match l with
    | [] => []
    | a :: l' => match f a with Some y => y :: pmap l' | None => pmap l' end
    end.

  Lemma sorted_insert_Forall (P : A -> Prop) x l : P x -> Forall P l -> Forall P (sorted_insert le x l).
  Proof.
    intros Hx Hl. induction l as [|a l IH]; simpl; [constructor; auto|].
    inversion Hl; subst. destruct (le x a); constructor; auto.
  Qed.

  Lemma stable_sort_Forall (P : A -> Prop) l : Forall P l -> Forall P (stable_sort le l).
  Proof.
    induction l as [|a l IH]; simpl; intro H; [constructor|].
    inversion H; subst. apply sorted_insert_Forall; auto.
  Qed.

  Lemma sorted_insert_sorted x l : sorted_by R l -> sorted_by R (sorted_insert le x l).
  Proof.
    induction l as [|a l IH]; simpl; intro H; [split; [constructor|exact I]|].
    destruct H as [Ha Hl]. destruct (le x a) eqn:E; simpl.
    - split; [|split; assumption]. constructor; [exact E|].
      eapply Forall_impl; [|exact Ha]. intros b Hb. unfold R in *. eapply le_trans; eauto.
    - split; [|apply IH; exact Hl]. apply sorted_insert_Forall; [apply le_total; exact E|exact Ha].
  Qed.

  Lemma stable_sort_sorted l : sorted_by R (stable_sort le l).
  Proof. induction l as [|a l IH]; simpl; [exact I|]. apply sorted_insert_sorted. exact IH. Qed.

  Lemma sorted_insert_head y l :
    Forall (fun z => le' y z = true) l -> sorted_insert le' y l = y :: l.
  Proof. destruct l as [|z l]; simpl; [reflexivity|]. intro H. inversion H; subst. rewrite H2. reflexivity. Qed.

  Lemma pmap_Forall (P : B -> Prop) l :
    Forall (fun a => forall y, f a = Some y -> P y) l -> Forall P (pmap l).
  Proof.
    induction l as [|a l IH]; simpl; intro H; [constructor|].
    inversion H; subst. destruct (f a) eqn:E; [constructor|]; auto.
  Qed.

  Lemma pmap_sorted_insert x l :
    Q x -> Forall Q l -> sorted_by R l ->
    pmap (sorted_insert le x l) =
    match f x with Some y => sorted_insert le' y (pmap l) | None => pmap l end.
  Proof.
    intros Qx. induction l as [|a l IH]; intros Ql Hs; simpl.
    - destruct (f x); reflexivity.
    - inversion Ql as [|? ? Qa Ql']; subst. destruct Hs as [Ha Hl].
      destruct (le x a) eqn:E.
      + (* x goes first *)
        simpl. destruct (f x) as [y|] eqn:Fx; [|reflexivity].
        symmetry. apply (sorted_insert_head y).
        change (Forall (fun z => le' y z = true) (pmap (a :: l))).
        apply pmap_Forall. constructor.
        * intros z Fz. rewrite (compat x a y z Qx Qa Fx Fz). exact E.
        * rewrite Forall_forall in *. intros b Hb z Fz.
          rewrite (compat x b y z Qx (Ql' b Hb) Fx Fz). eapply le_trans; [exact E|]. apply Ha; exact Hb.
      + simpl. rewrite (IH Ql' Hl).
        destruct (f x) as [y|] eqn:Fx; destruct (f a) as [z|] eqn:Fa; try reflexivity.
        simpl. rewrite (compat x a y z Qx Qa Fx Fa), E. reflexivity.
  Qed.

  Lemma pmap_stable_sort l :
    Forall Q l -> pmap (stable_sort le l) = stable_sort le' (pmap l).
  Proof.
    induction l as [|a l IH]; intro Ql; simpl; [reflexivity|].
    inversion Ql; subst.
    rewrite pmap_sorted_insert; auto using stable_sort_Forall, stable_sort_sorted.
    rewrite IH by assumption. destruct (f a); reflexivity.
  Qed.

  Lemma sorted_insert_perm x l : Permutation (sorted_insert le x l) (x :: l).
  Proof.
    induction l as [|a l IH]; simpl; [reflexivity|].
    destruct (le x a); [reflexivity|]. rewrite IH. apply perm_swap.
  Qed.
  Lemma stable_sort_perm l : Permutation (stable_sort le l) l.
  Proof.
    induction l as [|a l IH]; simpl; [reflexivity|].
    rewrite sorted_insert_perm. constructor. exact IH.
  Qed.
End SortFacts.

(* the model's sort is the same stable sort *)
Lemma im_ins_sorted_eq {V} le (x : bytes * V) m : im_ins_sorted le x m = sorted_insert le x m.
Proof. induction m as [|y m IH]; simpl; [reflexivity|]. rewrite IH. reflexivity. Qed.
Lemma im_sort_by_eq {V} le (m : imap V) : im_sort_by le m = stable_sort le m.
Proof. induction m as [|x m IH]; simpl; [reflexivity|]. rewrite im_ins_sorted_eq, IH. reflexivity. Qed.
