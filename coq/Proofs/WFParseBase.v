(* Proofs/WFParseBase.v — parsed documents are well-formed (Spec/WF.v), part 1: what a recorded span holds after
   despanning (Proofs/PrintBackBase.v total despan `traw` / `tkey` / `tvalue`: the partial despan of Model/Encode.v
   equals it whenever it succeeds), key/value list operations, and key paths (key.rs `key`). *)
From TV Require Import Base.Prelude Base.Utf8 Base.Winnow Gen.Consts Spec.Abnf Spec.Lex Spec.Defs Spec.DatetimeSpec Spec.Syntax Spec.WF.
From TV Require Import Model.Trivia Model.Strings Model.Datetime Model.Numbers Model.Tree Model.Parse Model.Document Model.Write Model.Encode.
From TV Require Import Proofs.LexEquivBase Proofs.LexEquivTrivia Proofs.LexEquivStrings Proofs.LexEquivKey Proofs.GrammarSep
                       Proofs.TilingDefs Proofs.PrintBackBase Proofs.PrintBackEnc Proofs.PrintBackKey Proofs.TilingCmt.
From TV Require Import Proofs.WFTok Proofs.WFPrintKey Proofs.WFPrintValue Proofs.WFTree.
Require Import Lia NArith.

(* ---- key/value lists -------------------------------------------------------------------------------------------------- *)
Lemma kv_get_none m k : kv_get m k = None <-> ~ In k (kkeys m).
Proof.
  induction m as [|[k' v] m IH]; cbn [kv_get kkeys map In fst]; [tauto|]. destruct (bytes_eqb (k_key k') k) eqn:E.
  - apply bytes_eqb_eq in E. split; [discriminate|]. intro H. exfalso. apply H. left. exact E.
  - fold (kkeys m). rewrite IH. split; [|tauto]. intros H [H1|H1]; [|exact (H H1)]. rewrite H1, bytes_eqb_refl in E. discriminate.
Qed.
Lemma kv_get_some m k k' it : kv_get m k = Some (k', it) -> In (k', it) m /\ k_key k' = k.
Proof.
  induction m as [|[k0 v] m IH]; cbn [kv_get]; [discriminate|]. destruct (bytes_eqb (k_key k0) k) eqn:E.
  - intro H. inversion H; subst. apply bytes_eqb_eq in E. split; [left; reflexivity|exact E].
  - intro H. destruct (IH H). split; [right; assumption|assumption].
Qed.
Lemma kkeys_push m k v : kkeys (kv_push m k v) = kkeys m ++ [k_key k].
Proof. unfold kkeys, kv_push. rewrite map_app. reflexivity. Qed.
Lemma kkeys_set m k v : kkeys (kv_set m k v) = kkeys m.
Proof.
  induction m as [|[k' v'] m IH]; [reflexivity|]. cbn [kv_set]. destruct (bytes_eqb (k_key k') k); [reflexivity|].
  unfold kkeys in *. cbn [map fst]. rewrite IH. reflexivity.
Qed.
Lemma nodup_snoc {A} (l : list A) x : NoDup l -> ~ In x l -> NoDup (l ++ [x]).
Proof.
  induction l as [|y l IH]; intros Hn Hx; [constructor; [exact (fun H => H)|constructor]|]. inversion Hn; subst. cbn [app]. constructor.
  - intro H. apply in_app_or in H as [H|[H|[]]]; [contradiction|]. apply Hx. left. symmetry. exact H.
  - apply IH; [assumption|]. intro H. apply Hx. right. exact H.
Qed.
Lemma nodup_push m k v : NoDup (kkeys m) -> kv_get m (k_key k) = None -> NoDup (kkeys (kv_push m k v)).
Proof. intros Hn Hg. rewrite kkeys_push. apply nodup_snoc; [exact Hn|apply kv_get_none, Hg]. Qed.

Lemma all_P_app {A} (P : A -> Prop) a b : all_P P (a ++ b) <-> all_P P a /\ all_P P b.
Proof. induction a as [|x a IH]; cbn [app all_P]; [tauto|]. rewrite IH. tauto. Qed.
Lemma all_P_push (P : key * item -> Prop) m k v : all_P P m -> P (k, v) -> all_P P (kv_push m k v).
Proof. intros H1 H2. unfold kv_push. apply all_P_app. split; [exact H1|split; [exact H2|exact I]]. Qed.
Lemma all_P_set (P : key * item -> Prop) m k k' it0 v :
  all_P P m -> kv_get m k = Some (k', it0) -> P (k', v) -> all_P P (kv_set m k v).
Proof.
  induction m as [|[k0 v0] m IH]; cbn [kv_get kv_set all_P]; [auto|]. destruct (bytes_eqb (k_key k0) k).
  - intros [_ H] E Hv. inversion E; subst. cbn [all_P]. auto.
  - intros [H0 H] E Hv. cbn [all_P]. split; [exact H0|apply IH; assumption].
Qed.
Lemma all_P_get (P : key * item -> Prop) m k k' it : all_P P m -> kv_get m k = Some (k', it) -> P (k', it).
Proof. intros H E. apply kv_get_some in E as [E _]. exact (all_P_In _ _ _ H E). Qed.
Lemma all_P_impl {A} (P Q : A -> Prop) l : (forall x, P x -> Q x) -> all_P P l -> all_P Q l.
Proof. intro H. induction l as [|x l IH]; cbn [all_P]; [auto|]. intros [H1 H2]. auto. Qed.
Lemma all_P_map {A B} (f : A -> B) (P : B -> Prop) l : all_P P (map f l) <-> all_P (fun x => P (f x)) l.
Proof. induction l as [|x l IH]; cbn [map all_P]; [tauto|]. rewrite IH. tauto. Qed.

(* ---- despanning --------------------------------------------------------------------------------------------------------- *)
Section Src.
  Variable s : bytes.

  Definition tkv (kv : key * item) : key * item := (tkey s (fst kv), titem s (snd kv)).
  Lemma tvalue_array vals tr c d sp : tvalue s (VArray vals tr c d sp) = VArray (map (titem s) vals) (traw s tr) c (tdecor s d) None.
  Proof. cbn [tvalue]. f_equal; try (induction vals as [|it tl IH]; [reflexivity|cbn [map]; rewrite <- IH; reflexivity]). Qed.
  Lemma tvalue_inline items pre im dt d sp :
    tvalue s (VInline items pre im dt d sp) = VInline (map tkv items) (traw s pre) im dt (tdecor s d) None.
  Proof.
    cbn [tvalue]. f_equal; try (induction items as [|[k it] tl IH]; [reflexivity|cbn [map tkv fst snd]; rewrite <- IH; reflexivity]).
  Qed.
  Lemma ttbl_eq items d im dt p sp : ttbl s (Tbl items d im dt p sp) = Tbl (map tkv items) (tdecor s d) im dt p None.
  Proof.
    cbn [ttbl]. f_equal; try (induction items as [|[k it] tl IH]; [reflexivity|cbn [map tkv fst snd]; rewrite <- IH; reflexivity]).
  Qed.
  Lemma titem_aot ts sp : titem s (IAot ts sp) = IAot (map (ttbl s) ts) None.
  Proof. cbn [titem]. f_equal; try (induction ts as [|t tl IH]; [reflexivity|cbn [map]; rewrite <- IH; reflexivity]). Qed.
  Lemma tvalue_decorate v p q : tvalue s (value_decorate v p q) = value_decorate (tvalue s v) (traw s p) (traw s q).
  Proof. destruct v; cbn [value_decorate]; rewrite ?tvalue_array, ?tvalue_inline; reflexivity. Qed.
  Lemma kkeys_tkv m : kkeys (map tkv m) = kkeys m.
  Proof. unfold kkeys. rewrite map_map. reflexivity. Qed.
  Lemma value_depth_t : forall v, value_depth (tvalue s v) = value_depth v.
  Proof.
    refine (proj1 (SpansDefs.tree_ind3 (fun v => value_depth (tvalue s v) = value_depth v)
                     (fun it => match it with IValue e => value_depth (tvalue s e) = value_depth e | _ => True end)
                     (fun _ => True) _ _ _ _ _ _ _ _)); auto.
    - intros vals tr c d sp IH. rewrite tvalue_array. cbn [value_depth]. f_equal. induction IH as [|it l Hit _ IHl]; [reflexivity|].
      cbn [map fold_right]. rewrite IHl. destruct it as [|e| |]; try reflexivity. change (titem s (IValue e)) with (IValue (tvalue s e)). cbv beta iota. rewrite Hit. reflexivity.
    - intros items pre im dt d sp IH. rewrite tvalue_inline. cbn [value_depth]. f_equal. induction IH as [|[k it] l Hit _ IHl]; [reflexivity|].
      cbn [map fold_right tkv fst snd] in *. rewrite IHl. destruct it as [|e| |]; try reflexivity. change (titem s (IValue e)) with (IValue (tvalue s e)). cbv beta iota. rewrite Hit. reflexivity.
  Qed.

  (* a span of consumed text, despanned, holds that text: as decor it prints it with the CRs dropped *)
  Lemma traw_not_spanned r : match traw s r with RSpanned _ _ => False | _ => True end.
  Proof. destruct r as [|t|a b]; cbn [traw]; auto. unfold raw_of_bytes. destruct (slice s a b); exact I. Qed.
  Lemma span_raw_ok sl i t i' : isrc s i -> splits i t i' -> slot_ok sl (ncr t) -> raw_ok sl (traw s (raw_with_span (pos i, pos i'))).
  Proof.
    intros Hi S Ht. pose proof (span_prints s i t i' [] Hi S) as E. pose proof (traw_not_spanned (raw_with_span (pos i, pos i'))) as N.
    unfold raw_ok. destruct (traw s (raw_with_span (pos i, pos i'))); [rewrite E; exact Ht|rewrite E; exact Ht|contradiction].
  Qed.
  Lemma span_ws_ok sl i w i' : isrc s i -> splits i w i' -> ws_tok w -> raw_ok sl (traw s (raw_with_span (pos i, pos i'))).
  Proof. intros Hi S Hw. apply (span_raw_ok sl i w i' Hi S). rewrite (ncr_ws w Hw). apply ws_slot, Hw. Qed.
  Lemma empty_raw_ok sl : raw_ok sl REmpty.
  Proof. unfold raw_ok. cbn. apply ws_slot. reflexivity. Qed.
  Lemma span_explicit i t i' : isrc s i -> splits i t i' -> t <> [] -> traw s (raw_with_span (pos i, pos i')) = RExplicit t.
  Proof.
    intros Hi S Hne. destruct (isrc_splits s i t i' Hi S) as [_ Hs]. pose proof (splits_empty_iff i t i' S) as Hab.
    unfold raw_with_span. cbn [fst snd]. destruct (pos i =? pos i')%N eqn:E.
    - apply N.eqb_eq in E. exfalso. apply Hne, Hab, E.
    - cbn [traw]. rewrite Hs. destruct t; [congruence|reflexivity].
  Qed.

  (* ---- keys ------------------------------------------------------------------------------------------------------------ *)
  (* a key as `key` stores it: repr spelling the key, blanks as decor *)
  Definition kgood (k : key) : Prop := key_wf false (tkey s k).

  Lemma key_part_good i a i1 : isrc s i -> key_part i = Ok a i1 -> isrc s i1 /\ kgood a.
  Proof.
    unfold key_part. intros Hi H.
    apply bind_inv in H as (pre & j1 & H1 & H). pose proof H1 as H1'. apply span_inv in H1' as (w0 & E1 & Epre).
    apply ws_sound in E1 as (Hw0 & S1 & _). destruct (isrc_splits s i _ j1 Hi S1) as [Hj1 _].
    apply bind_inv in H as ([rw k] & j2 & H2 & H). apply simple_key_sound in H2 as (t & Ht & S2 & Erw).
    destruct (isrc_splits s j1 _ j2 Hj1 S2) as [Hj2 _].
    apply bind_inv in H as (suf & j3 & H3 & H). pose proof H3 as H3'. apply span_inv in H3' as (w & E3 & Esuf).
    apply ws_sound in E3 as (Hw & S3 & _). destruct (isrc_splits s j2 _ j3 Hj2 S3) as [Hj3 _].
    apply ret_inv in H as [-> ->]. split; [exact Hj3|]. unfold kgood, key_wf, key_repr_ok. cbn [tkey k_repr k_key k_dotted k_leaf toraw].
    assert (Hne : t <> []) by (destruct (simple_key_tok_head t k Ht) as (b & t' & -> & _); discriminate).
    subst rw pre suf. rewrite (span_explicit j1 t j2 Hj1 S2 Hne). split; [exact Ht|]. split.
    - split; cbn [tdecor decor_new d_prefix d_suffix toraw oraw_ok]; [apply (span_ws_ok SWs i w0 j1 Hi S1 Hw0)|apply (span_ws_ok SWs j2 w j3 Hj2 S3 Hw)].
    - split; exact I.
  Qed.

  Lemma key_seps_good i l i' : isrc s i -> seps key_part dot_sep i l i' -> isrc s i' /\ Forall kgood l.
  Proof.
    intros Hi R. induction R as [i F|i x i1 E Hlt F|i x i1 a i2 l i3 E Hlt E2 Hle R IH]; [auto|auto|].
    apply byte_inv in E as [_ S1]. destruct (isrc_splits s i _ i1 Hi S1) as [Hi1 _].
    destruct (key_part_good i1 a i2 Hi1 E2) as [Hi2 Ha]. destruct (IH Hi2) as [Hi3 Hl]. auto.
  Qed.

  Lemma kgood_set_dotted_prefix k : kgood k -> kgood (set_dotted_prefix k REmpty).
  Proof.
    intros (H1 & [H2 H3] & H4). unfold kgood, key_wf, key_repr_ok in *. cbn [tkey set_dotted_prefix k_repr k_key k_dotted k_leaf] in *.
    split; [exact H1|]. split; [|exact H4]. split; cbn [tdecor d_prefix d_suffix toraw oraw_ok traw] in *; [apply empty_raw_ok|exact H3].
  Qed.
  Lemma kgood_set_dotted_suffix k : kgood k -> kgood (set_dotted_suffix k REmpty).
  Proof.
    intros (H1 & [H2 H3] & H4). unfold kgood, key_wf, key_repr_ok in *. cbn [tkey set_dotted_suffix k_repr k_key k_dotted k_leaf] in *.
    split; [exact H1|]. split; [|exact H4]. split; cbn [tdecor d_prefix d_suffix toraw oraw_ok traw] in *; [exact H2|apply empty_raw_ok].
  Qed.
  Lemma kgood_set_leaf k p q : kgood k -> raw_ok SWs (traw s p) -> raw_ok SWs (traw s q) -> kgood (set_leaf k (decor_new p q)).
  Proof.
    intros (H1 & H2 & _) Hp Hq. unfold kgood, key_wf, key_repr_ok in *. cbn [tkey set_leaf k_repr k_key k_dotted k_leaf] in *.
    split; [exact H1|]. split; [exact H2|]. split; assumption.
  Qed.
  Lemma kgood_dotted_prefix k : kgood k -> raw_ok SWs (traw s (match d_prefix (k_dotted k) with Some p => p | None => REmpty end)).
  Proof.
    intros (_ & [H2 _] & _). cbn [tkey k_dotted tdecor d_prefix] in H2. destruct (d_prefix (k_dotted k)); [exact H2|apply empty_raw_ok].
  Qed.
  Lemma kgood_dotted_suffix k : kgood k -> raw_ok SWs (traw s (match d_suffix (k_dotted k) with Some p => p | None => REmpty end)).
  Proof.
    intros (_ & [_ H3] & _). cbn [tkey k_dotted tdecor d_suffix] in H3. destruct (d_suffix (k_dotted k)); [exact H3|apply empty_raw_ok].
  Qed.

  Lemma fix_key_path_good path p : Forall kgood path -> fix_key_path path = Some p -> Forall kgood p /\ length p = length path.
  Proof.
    unfold fix_key_path. destruct path as [|first tl]; [discriminate|]. intros Hall.
    inversion Hall as [|? ? Hf Htl]; subst.
    set (first' := match d_prefix (k_dotted first) with Some _ => set_dotted_prefix first REmpty | None => first end).
    assert (Hf' : kgood first') by (unfold first'; destruct (d_prefix (k_dotted first)); [apply kgood_set_dotted_prefix, Hf|exact Hf]).
    assert (Hall' : Forall kgood (first' :: tl)) by (constructor; assumption).
    destruct (rev (first' :: tl)) as [|last rinit] eqn:Er; [discriminate|]. intro H. injection H as <-.
    assert (Hr : Forall kgood (last :: rinit)) by (rewrite <- Er; apply Forall_rev, Hall').
    inversion Hr as [|? ? Hl Hri]; subst.
    split.
    - cbn [rev]. apply Forall_app. split; [apply Forall_rev, Hri|]. constructor; [|constructor].
      apply kgood_set_leaf; [|apply kgood_dotted_prefix, Hf|apply kgood_dotted_suffix, Hl].
      destruct (d_suffix (k_dotted last)); [apply kgood_set_dotted_suffix, Hl|exact Hl].
    - cbn [rev]. rewrite app_length, rev_length. cbn [length]. apply (f_equal (@length key)) in Er. rewrite rev_length in Er. cbn [length] in Er. lia.
  Qed.

  (* key.rs `key`: a non-empty path of fewer than LIMIT good keys *)
  Lemma key_good i kp i' : isrc s i -> key_ i = Ok kp i' -> isrc s i' /\ Forall kgood kp /\ kp <> [] /\ length kp < LIMIT.
  Proof.
    unfold key_. intros Hi H. apply bind_inv in H as (path & j & H1 & H).
    apply try_map_inv in H1 as (path0 & H1 & Htm). apply context_inv in H1.
    apply (separated1_inv _ _ _ _ _ key_part_shrinking dot_sep_shrinking) in H1 as (a & i1 & l & -> & Ea & R).
    destruct (key_part_good i a i1 Hi Ea) as [Hi1 Ha]. destruct (key_seps_good i1 l j Hi1 R) as [Hj Hl].
    unfold check_depth in Htm. destruct (Nat.leb LIMIT (length (a :: l))) eqn:El; [discriminate|]. injection Htm as <-.
    apply Nat.leb_gt in El.
    destruct (fix_key_path (a :: l)) as [p|] eqn:Ef; [|discriminate]. apply ret_inv in H as [-> ->].
    destruct (fix_key_path_good (a :: l) p (Forall_cons _ Ha Hl) Ef) as [Hp Hlen].
    split; [exact Hj|]. split; [exact Hp|]. split; [destruct p; [discriminate|discriminate]|lia].
  Qed.

  Lemma pop_key_good kp path k : Forall kgood kp -> pop_key kp = Some (path, k) -> Forall kgood path /\ kgood k /\ kp = path ++ [k].
  Proof.
    unfold pop_key. intros Hall H. destruct (rev kp) as [|last rinit] eqn:Er; [discriminate|]. injection H as <- <-.
    assert (E : kp = rev rinit ++ [last]) by (rewrite <- (rev_involutive kp), Er; reflexivity).
    rewrite E in Hall. apply Forall_app in Hall as [H1 H2]. inversion H2; subst. auto.
  Qed.
End Src.
