(* Proofs/LexEquivTrivia.v — L1 for the tokens without structure: ws, newline, comment,
   unquoted-key, boolean.  For each: the parser returns Ok exactly on the texts of the grammar
   rule (maximal munch), and fails without commitment otherwise. *)
From TV Require Import Base.Prelude Base.Utf8 Base.Winnow Gen.Consts Spec.Abnf Spec.Lex.
From TV Require Import Model.Trivia Model.Strings Model.Numbers Model.Parse.
From TV Require Import Proofs.ConstsOk Proofs.LexEquivBase.
Require Import Lia ZifyBool ZifyN ZifyNat.

Lemma forallb_impl {A} (f g : A -> bool) l :
  (forall x, f x = true -> g x = true) -> forallb f l = true -> forallb g l = true.
Proof.
  intro H. induction l as [|x l IH]; [reflexivity|]. cbn [forallb]. intro E.
  apply andb_true_iff in E as [E1 E2]. rewrite (H _ E1), (IH E2). reflexivity.
Qed.

(* ---- ws = *wschar --------------------------------------------------------------------------- *)
Lemma wschar_ascii b : wschar b = true -> ascii b = true.
Proof. unfold ascii. cls. lia. Qed.

Lemma ws_complete i t r :
  rest i = t ++ r -> ws_tok t -> stops wschar r -> ws i = Ok t (adv t i).
Proof.
  intros H Ht Hr. unfold ws. apply unchecked_ok.
  - unfold take_while0. rewrite (take_while_ext _ _ _ _ _ WSCHAR_ok).
    apply (take_while_ok 0 wschar i t r H Ht Hr). lia.
  - apply utf8_ascii. apply (forallb_impl wschar); [apply wschar_ascii|exact Ht].
Qed.

Lemma ws_sound i t i' :
  ws i = Ok t i' -> ws_tok t /\ splits i t i' /\ stops wschar (rest i').
Proof.
  unfold ws. intro H. apply unchecked_inv in H as [H _].
  unfold take_while0 in H. rewrite (take_while_ext _ _ _ _ _ WSCHAR_ok) in H.
  apply take_while_inv in H as (S & Ha & Hs & _). auto.
Qed.

(* ws never fails: it reads the maximal run of wschar *)
Lemma ws_spec i : exists t,
  ws i = Ok t (adv t i) /\ ws_tok t /\ rest i = t ++ rest (adv t i) /\ stops wschar (rest (adv t i)).
Proof.
  destruct (span_while_split wschar (rest i)) as (a & r & E & Ha & Hr & _).
  exists a. rewrite (rest_adv a r i E). split; [|auto]. apply (ws_complete i a r E Ha Hr).
Qed.

(* ---- newline = %x0A / %x0D.0A ------------------------------------------------------------------ *)
Lemma newline_complete i t r : rest i = t ++ r -> newline_tok t -> newline i = Ok tt (adv t i).
Proof.
  intros H [-> | ->]; unfold newline.
  - rewrite (bind_ok _ _ _ _ _ (any_ok i x0a r H)). reflexivity.
  - rewrite (bind_ok _ _ _ _ _ (any_ok i x0d (x0a :: r) H)). cbn [byte_eqb Byte.eqb].
    change (byte_eqb x0d x0a) with false. change (byte_eqb x0d x0d) with true. cbv iota.
    assert (R : rest (adv [x0d] i) = x0a :: r) by (apply rest_adv; exact H).
    rewrite (pvoid_ok _ _ _ _ (byte_ok LF _ r R)). rewrite adv_adv. reflexivity.
Qed.

Lemma newline_sound i u i' : newline i = Ok u i' -> exists t, newline_tok t /\ splits i t i'.
Proof.
  unfold newline. intro H. apply bind_inv in H as (b & i1 & H1 & H). apply any_inv in H1.
  destruct (byte_eqb b x0a) eqn:E1.
  - apply byte_eqb_eq in E1. subst b. apply ret_inv in H as [_ ->]. exists [x0a]. split; [left; reflexivity|exact H1].
  - destruct (byte_eqb b x0d) eqn:E2; [|discriminate].
    apply byte_eqb_eq in E2. subst b. apply pvoid_inv in H as (c & H). apply byte_inv in H as [_ S2].
    exists [x0d; x0a]. split; [right; reflexivity|]. apply (splits_trans _ _ _ _ _ H1 S2).
Qed.

(* newline either reads a newline or fails without commitment: never Cut, never Panic *)
Lemma newline_fails i : ~ starts_with_newline (rest i) -> fails newline i.
Proof.
  intro H. unfold newline. destruct (rest i) as [|b r] eqn:E.
  { apply bind_fails. apply any_fails. exact E. }
  unfold fails. rewrite (bind_ok _ _ _ _ _ (any_ok i b r E)).
  destruct (byte_eqb b x0a) eqn:E1.
  { apply byte_eqb_eq in E1. subst b. destruct H. exists [x0a], r. split; [left; reflexivity|reflexivity]. }
  destruct (byte_eqb b x0d) eqn:E2; [|unfold fail; eauto].
  apply byte_eqb_eq in E2. subst b.
  apply pvoid_fails. apply byte_fails. rewrite (rest_adv [x0d] r i E).
  destruct r as [|c r']; [exact I|]. cbn [stops]. destruct (byte_eqb LF c) eqn:E3; [|reflexivity].
  apply byte_eqb_eq in E3. subst c. destruct H. exists [x0d; x0a], r'. split; [right; reflexivity|reflexivity].
Qed.

Lemma newline_cases i :
  (exists t r, newline_tok t /\ rest i = t ++ r /\ newline i = Ok tt (adv t i))
  \/ (~ starts_with_newline (rest i) /\ fails newline i).
Proof.
  destruct (rest i) as [|b r] eqn:E.
  { right. assert (N : ~ starts_with_newline (rest i)).
    { rewrite E. intros (nl & t' & [-> | ->] & Q); discriminate. }
    split; [rewrite <- E; exact N|apply newline_fails; exact N]. }
  destruct (byte_eqb b x0a) eqn:E1.
  { apply byte_eqb_eq in E1. subst b. left. exists [x0a], r. split; [left; reflexivity|].
    split; [reflexivity|]. apply (newline_complete i [x0a] r E). left; reflexivity. }
  destruct (byte_eqb b x0d) eqn:E2.
  - apply byte_eqb_eq in E2. subst b. destruct r as [|c r'].
    + right. assert (N : ~ starts_with_newline (rest i)).
      { rewrite E. intros (nl & t' & [-> | ->] & Q); discriminate. }
      split; [rewrite <- E; exact N|apply newline_fails; exact N].
    + destruct (byte_eqb c x0a) eqn:E3.
      * apply byte_eqb_eq in E3. subst c. left. exists [x0d; x0a], r'. split; [right; reflexivity|].
        split; [reflexivity|]. apply (newline_complete i [x0d; x0a] r' E). right; reflexivity.
      * right. assert (N : ~ starts_with_newline (rest i)).
        { rewrite E. intros (nl & t' & [-> | ->] & Q); [discriminate|]. injection Q as ->.
          rewrite byte_eqb_refl in E3. discriminate. }
        split; [rewrite <- E; exact N|apply newline_fails; exact N].
  - right. assert (N : ~ starts_with_newline (rest i)).
    { rewrite E. intros (nl & t' & [-> | ->] & Q); injection Q as -> _.
      - rewrite byte_eqb_refl in E1. discriminate.
      - rewrite byte_eqb_refl in E2. discriminate. }
    split; [rewrite <- E; exact N|apply newline_fails; exact N].
Qed.

(* ---- comment = comment-start-symbol *non-eol -------------------------------------------------------- *)
Lemma comment_complete i t r :
  rest i = t ++ r -> comment_tok t -> stops non_eol r -> comment i = Ok tt (adv t i).
Proof.
  intros H (u & -> & Hu) Hr. unfold comment. change COMMENT_START_SYMBOL with x23.
  rewrite (bind_ok _ _ _ _ _ (byte_ok x23 i (u ++ r) H)).
  assert (R : rest (adv [x23] i) = u ++ r) by (apply rest_adv; exact H).
  unfold take_while0. rewrite (bind_ok _ _ (adv [x23] i) u (adv u (adv [x23] i))).
  - rewrite adv_adv. reflexivity.
  - rewrite (take_while_ext _ _ _ _ _ NON_EOL_ok). apply (take_while_ok 0 non_eol _ u r R Hu Hr). lia.
Qed.

Lemma comment_sound i u i' :
  comment i = Ok u i' -> exists t, comment_tok t /\ splits i t i' /\ stops non_eol (rest i').
Proof.
  unfold comment. intro H. apply bind_inv in H as (b & i1 & H1 & H). apply byte_inv in H1 as [_ S1].
  apply bind_inv in H as (c & i2 & H2 & H). apply ret_inv in H as [_ ->].
  unfold take_while0 in H2. rewrite (take_while_ext _ _ _ _ _ NON_EOL_ok) in H2.
  apply take_while_inv in H2 as (S2 & Hc & Hs & _).
  exists (x23 :: c). split; [exists c; auto|]. split; [|exact Hs].
  apply (splits_trans _ _ _ _ _ S1 S2).
Qed.

(* comment never commits: it fails exactly when the input does not start with # *)
Lemma comment_fails i : stops (byte_eqb x23) (rest i) -> fails comment i.
Proof. intro H. unfold comment. apply bind_fails. apply byte_fails. exact H. Qed.

(* ---- unquoted-key = 1*( ALPHA / DIGIT / %x2D / %x5F ) ------------------------------------------------ *)
Lemma unquoted_ascii b : unquoted_key_char b = true -> ascii b = true.
Proof. unfold ascii. cls. lia. Qed.

Lemma unquoted_key_complete i t r :
  rest i = t ++ r -> unquoted_key_tok t -> stops unquoted_key_char r -> unquoted_key i = Ok t (adv t i).
Proof.
  intros H [Hne Ht] Hr. unfold unquoted_key. apply unchecked_ok.
  - unfold take_while1. rewrite (take_while_ext _ _ _ _ _ UNQUOTED_CHAR_ok).
    apply (take_while_ok 1 unquoted_key_char i t r H Ht Hr). destruct t; [congruence|simpl; lia].
  - apply utf8_ascii. apply (forallb_impl unquoted_key_char); [apply unquoted_ascii|exact Ht].
Qed.

Lemma unquoted_key_sound i t i' :
  unquoted_key i = Ok t i' -> unquoted_key_tok t /\ splits i t i' /\ stops unquoted_key_char (rest i').
Proof.
  unfold unquoted_key. intro H. apply unchecked_inv in H as [H _].
  unfold take_while1 in H. rewrite (take_while_ext _ _ _ _ _ UNQUOTED_CHAR_ok) in H.
  apply take_while_inv in H as (S & Ha & Hs & Hl). split; [|auto].
  split; [|exact Ha]. destruct t; [simpl in Hl; lia|discriminate].
Qed.

Lemma unquoted_key_fails i : stops unquoted_key_char (rest i) -> fails unquoted_key i.
Proof.
  intro H. unfold unquoted_key. apply unchecked_fails. apply take_while1_fails.
  unfold stops in *. destruct (rest i); [exact I|]. rewrite UNQUOTED_CHAR_ok. exact H.
Qed.

(* ---- boolean = true / false ----------------------------------------------------------------------------- *)
Lemma bool_lit_complete c l v i r :
  rest i = (c :: l) ++ r -> bool_lit (c :: l) v i = Ok v (adv (c :: l) i).
Proof.
  intro H. unfold bool_lit.
  rewrite (bind_ok _ _ _ _ _ (peek_ok _ _ _ _ (byte_ok c i (l ++ r) H))).
  rewrite (bind_ok _ _ _ _ _ (cut_err_ok _ _ _ _ (lit_ok (c :: l) i r H))). reflexivity.
Qed.

Lemma bool_lit_sound c l v i b i' :
  bool_lit (c :: l) v i = Ok b i' -> b = v /\ splits i (c :: l) i'.
Proof.
  unfold bool_lit. intro H. apply bind_inv in H as (x & i1 & H1 & H). apply peek_inv in H1 as [-> _].
  apply bind_inv in H as (y & i2 & H2 & H). apply cut_err_inv in H2. apply lit_inv in H2 as [_ S].
  apply ret_inv in H as [-> ->]. auto.
Qed.

(* the committed failure of a boolean: the first byte matches, the spelling does not *)
Lemma bool_lit_cut c l v i e j :
  bool_lit (c :: l) v i = Cut e j -> forall r, rest i <> (c :: l) ++ r.
Proof.
  intros H r E. rewrite (bool_lit_complete c l v i r E) in H. discriminate.
Qed.

Lemma true_complete i r : rest i = t_true ++ r -> true_ i = Ok true (adv t_true i).
Proof. apply bool_lit_complete. Qed.
Lemma false_complete i r : rest i = t_false ++ r -> false_ i = Ok false (adv t_false i).
Proof. apply bool_lit_complete. Qed.
Lemma true_sound i b i' : true_ i = Ok b i' -> b = true /\ splits i t_true i'.
Proof. apply bool_lit_sound. Qed.
Lemma false_sound i b i' : false_ i = Ok b i' -> b = false /\ splits i t_false i'.
Proof. apply bool_lit_sound. Qed.

Lemma boolean_complete i t b r :
  rest i = t ++ r -> boolean_tok t b -> (true_ <|> false_) i = Ok b (adv t i).
Proof.
  intros H [[-> ->] | [-> ->]].
  - apply alt_ok. apply (true_complete i r H).
  - rewrite alt_fails_l; [apply (false_complete i r H)|].
    unfold true_, bool_lit, TRUE. apply bind_fails. apply peek_fails. apply byte_fails.
    rewrite H. reflexivity.
Qed.

Lemma boolean_sound i b i' :
  (true_ <|> false_) i = Ok b i' -> exists t, boolean_tok t b /\ splits i t i'.
Proof.
  intro H. apply alt_inv in H as [H | [_ H]].
  - apply true_sound in H as [-> S]. exists t_true. split; [left; auto|exact S].
  - apply false_sound in H as [-> S]. exists t_false. split; [right; auto|exact S].
Qed.
