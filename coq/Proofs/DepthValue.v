(* Proofs/DepthValue.v — lemmas behind Props/C05.v, part 3: values.
   1. `loop_d_agrees`     the loop of table_from_pairs with the per-pair depth check equals the
                          unchecked loop whenever every check passes (and conversely, when the
                          checked loop succeeds every check passed);
   2. `inline_depth_bound` an inline table built by table_from_pairs is less than LIMIT deep
                          (<= LIMIT - 1: the table itself + at most LIMIT - 2 levels below it);
   3. `value_depth_bound`  a value parsed with the recursion counter at d has at most
                          2 * LIMIT - 3 - d levels: arrays cost one counter unit per level, and
                          the innermost inline table brings up to LIMIT - 1 levels of its own
                          (its dotted keys are not seen by the counter, only by check_depth). *)
From Coq Require Import List Bool Arith NArith ZArith Lia.
From Coq.Strings Require Import Byte.
From TV Require Import Base.Prelude Base.Utf8 Base.Winnow Gen.Consts.
From TV Require Import Model.Trivia Model.Strings Model.Datetime Model.Numbers Model.Tree Model.Parse.
From TV Require Import Proofs.DepthBase Proofs.DepthLex.
Import ListNotations.

(* ---- inversion of successful combinator runs -------------------------------------------- *)
Lemma bind_ok {A B} (p : parser A) (f : A -> parser B) i b i' :
  bind p f i = Ok b i' -> exists a i1, p i = Ok a i1 /\ f a i1 = Ok b i'.
Proof. unfold bind. destruct (p i) as [a i1|e i1|e i1|s]; try discriminate. eauto. Qed.

Lemma pmap_ok {A B} (f : A -> B) p i b i' :
  pmap f p i = Ok b i' -> exists a, p i = Ok a i' /\ b = f a.
Proof.
  unfold pmap. destruct (p i) as [a i1|e i1|e i1|s]; try discriminate.
  intro H; inversion H; subst. eauto.
Qed.

Lemma cut_err_ok {A} (p : parser A) i a i' : cut_err p i = Ok a i' -> p i = Ok a i'.
Proof. unfold cut_err. destruct (p i); try discriminate. auto. Qed.

Lemma context_ok {A} (p : parser A) i a i' : context p i = Ok a i' -> p i = Ok a i'.
Proof. unfold context. destruct (p i); try discriminate. auto. Qed.

Lemma try_map_ok {A B} (f : A -> tm B) p i b i' :
  try_map f p i = Ok b i' -> exists a, p i = Ok a i' /\ f a = TmOk b.
Proof.
  unfold try_map. destruct (p i) as [a i1|e i1|e i1|s]; try discriminate.
  destruct (f a) eqn:E; try discriminate. intro H; inversion H; subst. eauto.
Qed.

Lemma with_span_ok {A} (p : parser A) i x i' :
  with_span p i = Ok x i' -> exists a, p i = Ok a i' /\ x = (a, (pos i, pos i')).
Proof.
  unfold with_span. destruct (p i) as [a i1|e i1|e i1|s]; try discriminate.
  intro H; inversion H; subst. eauto.
Qed.

Lemma alt_ok {A} (p q : parser A) i a i' : alt p q i = Ok a i' -> p i = Ok a i' \/ q i = Ok a i'.
Proof. unfold alt. destruct (p i); try discriminate; auto. Qed.

Lemma check_recursion_ok {A} (p : parser A) i a i' :
  check_recursion p i = Ok a i' ->
  S (depth i) < LIMIT /\ exists i2, p (set_depth (S (depth i)) i) = Ok a i2.
Proof.
  unfold check_recursion. cbn [set_depth depth].
  destruct (Nat.leb LIMIT (S (depth i))) eqn:E; [discriminate|]. apply Nat.leb_gt in E.
  destruct (p _) as [x i2|e i2|e i2|s] eqn:Ep; try discriminate.
  destruct (depth i2); [discriminate|]. intro H; inversion H; subst. split; [exact E|eauto].
Qed.

(* every element produced by separated0 satisfies what each run of the element parser ensures
   at the recursion depth the list was started at *)
Lemma separated_loop_all {A Sp} (p : parser A) (sep : parser Sp) (P : A -> Prop) d :
  dp p -> dp sep ->
  (forall i a i', depth i = d -> p i = Ok a i' -> P a) ->
  forall fuel acc i l i', depth i = d -> Forall P acc ->
    separated_loop fuel p sep acc i = Ok l i' -> Forall P l.
Proof.
  intros Hp Hs HP fuel. induction fuel as [|f IH]; intros acc i l i' Hd Hacc H;
    cbn [separated_loop] in H; [discriminate|].
  destruct (sep i) as [x i1|e i1|e i1|s] eqn:E; try discriminate.
  - destruct (Nat.eqb _ _); [discriminate|].
    pose proof (Hs _ _ _ E) as H1.
    destruct (p i1) as [y i2|e i2|e i2|s] eqn:E2; try discriminate.
    + pose proof (Hp _ _ _ E2) as H2.
      apply (IH (y :: acc) i2 l i'); [congruence| |exact H].
      constructor; [|exact Hacc]. apply (HP i1 y i2); [congruence|exact E2].
    + inversion H; subst. apply Forall_rev. exact Hacc.
  - inversion H; subst. apply Forall_rev. exact Hacc.
Qed.

Lemma separated0_all {A Sp} (p : parser A) (sep : parser Sp) (P : A -> Prop) d :
  dp p -> dp sep ->
  (forall i a i', depth i = d -> p i = Ok a i' -> P a) ->
  forall i l i', depth i = d -> separated0 p sep i = Ok l i' -> Forall P l.
Proof.
  intros Hp Hs HP i l i' Hd H. unfold separated0 in H.
  destruct (p i) as [x i1|e i1|e i1|s] eqn:E; try discriminate.
  - eapply (separated_loop_all p sep P d Hp Hs HP); [| |exact H].
    + rewrite (Hp _ _ _ E). exact Hd.
    + constructor; [|constructor]. apply (HP i x i1 Hd E).
  - inversion H; subst. constructor.
Qed.

(* ---- 1. the checked and the unchecked loop ---------------------------------------------- *)
Lemma loop_d_agrees : forall pairs m,
  (forall p k v, In (p, (k, v)) pairs -> check_depth (length p + 1 + item_depth v) = false) ->
  table_from_pairs_loop_d m pairs = table_from_pairs_loop m pairs.
Proof.
  induction pairs as [|[path [k v]] tl IH]; intros m H; [reflexivity|].
  cbn [table_from_pairs_loop_d table_from_pairs_loop].
  rewrite (H path k v) by (left; reflexivity).
  destruct (inline_insert m false path _ k v) as [m'| |]; try reflexivity.
  apply IH. intros p k' v' Hin. apply (H p k' v'). right. exact Hin.
Qed.

Lemma loop_d_ok_checks : forall pairs m m',
  table_from_pairs_loop_d m pairs = COk m' ->
  forall p k v, In (p, (k, v)) pairs -> check_depth (length p + 1 + item_depth v) = false.
Proof.
  induction pairs as [|[path [k v]] tl IH]; intros m m' H p k' v' Hin; [destruct Hin|].
  cbn [table_from_pairs_loop_d] in H.
  destruct (check_depth (length path + 1 + item_depth v)) eqn:E; [discriminate|].
  destruct Hin as [Heq|Hin]; [inversion Heq; subst; exact E|].
  destruct (inline_insert m false path _ k v) as [m1| |]; try discriminate.
  exact (IH _ _ H _ _ _ Hin).
Qed.

Lemma loop_d_ok_agrees pairs m m' :
  table_from_pairs_loop_d m pairs = COk m' -> table_from_pairs_loop m pairs = COk m'.
Proof.
  intro H. rewrite <- (loop_d_agrees pairs m); [exact H|]. exact (loop_d_ok_checks _ _ _ H).
Qed.

(* the check is the only way the checked loop reports RecursionLimit earlier than the unchecked one *)
Lemma loop_d_limit : forall pairs m,
  (exists p k v, In (p, (k, v)) pairs /\ LIMIT <= length p + 1 + item_depth v) ->
  exists e, table_from_pairs_loop_d m pairs = e /\ (forall m', e <> COk m').
Proof.
  intros pairs m (p & k & v & Hin & Hl). eexists; split; [reflexivity|].
  intros m' H. pose proof (loop_d_ok_checks _ _ _ H _ _ _ Hin) as Hc.
  apply check_depth_false in Hc. lia.
Qed.

(* ---- 2. inline tables ------------------------------------------------------------------- *)
Lemma kvs_depth_push m k it : kvs_depth (kv_push m k it) = Nat.max (kvs_depth m) (item_depth it).
Proof.
  unfold kvs_depth, kv_push. rewrite lmax_app, lmax_cons, lmax_nil. cbn [snd]. lia.
Qed.

Lemma kvs_depth_get m k k' it : kv_get m k = Some (k', it) -> item_depth it <= kvs_depth m.
Proof.
  unfold kvs_depth. induction m as [|[k0 it0] m IH]; intro H; cbn [kv_get] in H; [discriminate|].
  rewrite lmax_cons. cbn [snd]. destruct (bytes_eqb (k_key k0) k).
  - inversion H; subst. lia.
  - specialize (IH H). lia.
Qed.

Lemma kvs_depth_set m k it : kvs_depth (kv_set m k it) <= Nat.max (kvs_depth m) (item_depth it).
Proof.
  unfold kvs_depth. induction m as [|[k0 it0] m IH]; cbn [kv_set]; [rewrite lmax_nil; lia|].
  destruct (bytes_eqb (k_key k0) k); rewrite !lmax_cons; cbn [snd]; lia.
Qed.

(* inline_insert nests the value below `length path` dotted tables and touches nothing else *)
Lemma inline_insert_depth : forall path m dh pe k v m',
  inline_insert m dh path pe k v = COk m' ->
  kvs_depth m' <= Nat.max (kvs_depth m) (length path + item_depth v).
Proof.
  induction path as [|pk ptl IH]; intros m dh pe k v m' H; cbn [inline_insert] in H.
  - destruct (Bool.eqb dh pe); [discriminate|].
    destruct (kv_get m (k_key k)); [discriminate|]. inversion H; subst.
    rewrite kvs_depth_push. cbn [length]. lia.
  - cbn [length]. destruct (kv_get m (k_key pk)) as [[k0 it0]|] eqn:G.
    + destruct it0 as [|v0|t0|ts0 sp0]; try discriminate.
      destruct v0 as [s0 r0 d0|l0 t0 c0 d0 sp0|sub pre imp dt dec sp]; try discriminate.
      destruct (negb imp); [discriminate|].
      destruct (inline_insert sub dt ptl pe k v) as [sub'| |] eqn:E; try discriminate.
      inversion H; subst. apply IH in E. apply kvs_depth_get in G.
      cbn [item_depth] in G. rewrite value_depth_inline in G.
      eapply Nat.le_trans; [apply kvs_depth_set|].
      cbn [item_depth]. rewrite value_depth_inline. lia.
    + destruct (inline_insert [] true ptl pe k v) as [sub| |] eqn:E; try discriminate.
      inversion H; subst. apply IH in E.
      rewrite kvs_depth_push. cbn [item_depth]. rewrite value_depth_inline.
      change (kvs_depth []) with 0 in E. lia.
Qed.

Lemma loop_d_depth : forall pairs m m',
  table_from_pairs_loop_d m pairs = COk m' ->
  kvs_depth m' <= Nat.max (kvs_depth m) (LIMIT - 2).
Proof.
  induction pairs as [|[path [k v]] tl IH]; intros m m' H; cbn [table_from_pairs_loop_d] in H.
  - inversion H; subst. lia.
  - destruct (check_depth (length path + 1 + item_depth v)) eqn:C; [discriminate|].
    apply check_depth_false in C.
    destruct (inline_insert m false path _ k v) as [m1| |] eqn:E; try discriminate.
    apply inline_insert_depth in E. apply IH in H. lia.
Qed.

(* the span bookkeeping of dotted tables rebuilds the same items with other spans *)
Lemma inline_set_spans_depth : forall path m e, kvs_depth (inline_set_spans m path e) <= kvs_depth m.
Proof.
  induction path as [|k ptl IH]; intros m e; cbn [inline_set_spans]; [lia|].
  destruct (kv_get m (k_key k)) as [[k0 it0]|] eqn:G; [|lia].
  destruct it0 as [|v0|t0|ts0 sp0]; try lia.
  destruct v0 as [s0 r0 d0|l0 t0 c0 d0 sp0|sub pre imp dt dec sp]; try lia.
  apply kvs_depth_get in G. cbn [item_depth] in G. rewrite value_depth_inline in G.
  eapply Nat.le_trans; [apply kvs_depth_set|].
  cbn [item_depth]. rewrite value_depth_inline. specialize (IH sub e). lia.
Qed.

Lemma inline_spans_pass_depth : forall pairs m, kvs_depth (inline_spans_pass m pairs) <= kvs_depth m.
Proof.
  unfold inline_spans_pass.
  induction pairs as [|[path [k v]] tl IH]; intros m; cbn [fold_left]; [lia|].
  eapply Nat.le_trans; [apply IH|]. apply inline_set_spans_depth.
Qed.

Lemma inline_depth_bound pairs pre v :
  table_from_pairs pairs pre = TmOk v -> value_depth v <= LIMIT - 1.
Proof.
  unfold table_from_pairs. destruct (table_from_pairs_loop_d [] pairs) as [m| |] eqn:E; try discriminate.
  intro H; inversion H; subst. rewrite value_depth_inline.
  apply loop_d_depth in E. change (kvs_depth []) with 0 in E. pose proof LIMIT_ge2.
  pose proof (inline_spans_pass_depth pairs m). lia.
Qed.

(* ---- 3. values -------------------------------------------------------------------------- *)
(* levels available to a value parsed while RecursionCheck.current = d *)
Definition VB (d : nat) : nat := 2 * LIMIT - 3 - d.

Section Step.
  Variable value_rec : parser value.
  Hypothesis Hdp : dp value_rec.
  Hypothesis Hrec : forall i v i', value_rec i = Ok v i' -> value_depth v <= VB (depth i).

  Lemma dp_array_value : dp (array_value value_rec).
  Proof. unfold array_value. dp_auto. Qed.

  Lemma array_value_depth i it i' :
    array_value value_rec i = Ok it i' -> item_depth it <= VB (depth i).
  Proof.
    unfold array_value. intro H.
    apply bind_ok in H as (pre & i1 & H1 & H).
    apply bind_ok in H as (v & i2 & H2 & H).
    apply bind_ok in H as (suf & i3 & H3 & H).
    inversion H; subst. cbn [item_depth]. rewrite value_depth_decorate.
    apply Hrec in H2.
    assert (Hd : depth i1 = depth i) by (revert H1; apply (dp_span ws_comment_newline); auto with dp).
    rewrite <- Hd. exact H2.
  Qed.

  Lemma dp_array_values : dp (array_values value_rec).
  Proof. pose proof dp_array_value. unfold array_values. dp_auto. Qed.

  Lemma array_values_depth i v i' :
    array_values value_rec i = Ok v i' -> value_depth v <= S (VB (depth i)).
  Proof.
    unfold array_values. intro H.
    apply bind_ok in H as (c & i1 & H1 & H).
    assert (Hd1 : depth i1 = depth i) by (revert H1; apply dp_peek).
    destruct c as [c|].
    - inversion H; subst. rewrite value_depth_array. change (items_depth []) with 0. lia.
    - apply bind_ok in H as (vals & i2 & H2 & H).
      apply bind_ok in H as (comma & i3 & H3 & H).
      apply bind_ok in H as (tr & i4 & H4 & H).
      inversion H; subst. rewrite value_depth_array. apply le_n_S.
      assert (Hall : Forall (fun it => item_depth it <= VB (depth i)) vals).
      { apply (separated0_all (array_value value_rec) (byte_ ARRAY_SEP) _ (depth i)
                 dp_array_value (dp_byte _)) with (i := i1) (i' := i2); [|exact Hd1|exact H2].
        intros j a j' Hj Ha. rewrite <- Hj. exact (array_value_depth _ _ _ Ha). }
      unfold items_depth. apply lmax_le. rewrite Forall_forall in Hall. exact Hall.
  Qed.

  Lemma dp_array : dp (array value_rec).
  Proof. pose proof dp_array_values. unfold array. dp_auto. Qed.

  Lemma array_depth i v i' : array value_rec i = Ok v i' -> value_depth v <= S (VB (depth i)).
  Proof.
    unfold array. intro H.
    apply bind_ok in H as (c & i1 & H1 & H).
    apply bind_ok in H as (a & i2 & H2 & H).
    apply bind_ok in H as (c2 & i3 & H3 & H).
    inversion H; subst. apply cut_err_ok in H2.
    assert (Hd1 : depth i1 = depth i) by (revert H1; apply dp_byte).
    rewrite <- Hd1. exact (array_values_depth _ _ _ H2).
  Qed.

  Lemma dp_inline_keyval : dp (inline_keyval value_rec).
  Proof. unfold inline_keyval. dp_auto. Qed.

  Lemma dp_inline_table : dp (inline_table value_rec).
  Proof. pose proof dp_inline_keyval. unfold inline_table. dp_auto. Qed.

  Lemma inline_table_depth i v i' : inline_table value_rec i = Ok v i' -> value_depth v <= LIMIT - 1.
  Proof.
    unfold inline_table. intro H.
    apply bind_ok in H as (c & i1 & H1 & H).
    apply bind_ok in H as (t & i2 & H2 & H).
    apply bind_ok in H as (c2 & i3 & H3 & H).
    inversion H; subst. apply cut_err_ok in H2.
    apply try_map_ok in H2 as ([kv p] & _ & H2).
    exact (inline_depth_bound _ _ _ H2).
  Qed.

  Lemma dp_value_body : dp (value_body value_rec).
  Proof. pose proof dp_array. pose proof dp_inline_table. unfold value_body. dp_auto. Qed.

  (* parsers that can only produce scalars *)
  Definition sc (p : parser value) : Prop := forall i v i', p i = Ok v i' -> value_depth v = 0.
  Lemma sc_pmap {A} (f : A -> value) p : (forall a, value_depth (f a) = 0) -> sc (pmap f p).
  Proof. intros Hf i v i' H. apply pmap_ok in H as (a & _ & ->). apply Hf. Qed.
  Lemma sc_alt p q : sc p -> sc q -> sc (alt p q).
  Proof. intros Hp Hq i v i' H. apply alt_ok in H as [H|H]; [exact (Hp _ _ _ H)|exact (Hq _ _ _ H)]. Qed.
  Lemma sc_context p : sc p -> sc (context p).
  Proof. intros Hp i v i' H. apply context_ok in H. exact (Hp _ _ _ H). Qed.
  Lemma sc_fail : sc fail.
  Proof. intros i v i' H. discriminate. Qed.

  Lemma value_body_depth i v i' : value_body value_rec i = Ok v i' -> value_depth v <= VB (depth i).
  Proof.
    unfold value_body. intro H. pose proof LIMIT_ge2 as HL.
    apply bind_ok in H as (b & i1 & H1 & H).
    assert (Hd1 : depth i1 = depth i) by (revert H1; apply dp_context; apply dp_peek).
    assert (Hsc : forall p, sc p -> p i1 = Ok v i' -> value_depth v <= VB (depth i)).
    { intros p Hp Hv. rewrite (Hp _ _ _ Hv). lia. }
    destruct (byte_eqb b QUOTATION_MARK || byte_eqb b APOSTROPHE).
    { revert H. apply Hsc. apply sc_pmap. reflexivity. }
    destruct (byte_eqb b ARRAY_OPEN).
    { apply check_recursion_ok in H as (Hlt & i2 & H).
      apply array_depth in H. cbn [set_depth depth] in H. rewrite Hd1 in *. unfold VB in *. lia. }
    destruct (byte_eqb b INLINE_TABLE_OPEN).
    { apply check_recursion_ok in H as (Hlt & i2 & H).
      apply inline_table_depth in H. rewrite Hd1 in *. unfold VB. lia. }
    destruct (in_class VALUE_NUMBER_START b).
    { revert H. apply Hsc. repeat apply sc_alt; apply sc_pmap; reflexivity. }
    repeat (match goal with H : (if ?c then _ else _) _ = Ok _ _ |- _ => destruct c end;
            [revert H; apply Hsc; apply sc_context; apply sc_pmap; reflexivity|]).
    revert H. apply Hsc. apply sc_context. apply sc_fail.
  Qed.

  Lemma dp_value_step : dp (value_step value_rec).
  Proof. pose proof dp_value_body. unfold value_step. dp_auto. Qed.

  Lemma value_step_depth i v i' : value_step value_rec i = Ok v i' -> value_depth v <= VB (depth i).
  Proof.
    unfold value_step. intro H.
    apply pmap_ok in H as ([v0 sp] & H & ->).
    apply with_span_ok in H as (v1 & H & E). inversion E; subst.
    rewrite value_depth_apply_raw. exact (value_body_depth _ _ _ H).
  Qed.
End Step.

Lemma value_f_depth : forall fuel,
  dp (value_f fuel) /\ (forall i v i', value_f fuel i = Ok v i' -> value_depth v <= VB (depth i)).
Proof.
  induction fuel as [|f [IH1 IH2]]; cbn [value_f].
  - split; [apply dp_panic|]. intros i v i' H. discriminate.
  - split.
    + apply dp_eta. apply dp_value_step. exact IH1.
    + intros i v i' H. exact (value_step_depth _ IH1 IH2 _ _ _ H).
Qed.

Lemma dp_value_f fuel : dp (value_f fuel).
Proof. apply value_f_depth. Qed.

Lemma dp_value : dp value_.
Proof. intros i v i' H. unfold value_ in H. exact (dp_value_f _ _ _ _ H). Qed.
#[export] Hint Resolve dp_value : dp.

(* the bound, relative to the recursion counter at the start of the value *)
Lemma value_depth_bound_rel fuel i v i' :
  value_f fuel i = Ok v i' -> value_depth v <= 2 * LIMIT - 3 - depth i.
Proof. intro H. exact (proj2 (value_f_depth fuel) _ _ _ H). Qed.

Lemma value_depth_bound fuel i v i' :
  value_f fuel i = Ok v i' -> value_depth v <= 2 * LIMIT - 3.
Proof. intro H. apply value_depth_bound_rel in H. lia. Qed.

Lemma value_depth_bound_top i v i' : value_ i = Ok v i' -> value_depth v <= 2 * LIMIT - 3.
Proof. unfold value_. apply value_depth_bound. Qed.
