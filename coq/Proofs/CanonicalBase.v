(* Proofs/CanonicalBase.v — induction principles for the nested trees of Model/TomlValue.v and
   Spec/Canonical.v, the local `fix`es restated with map / filter / flat_map, and small list facts. *)
From TV Require Import Base.Prelude Spec.Ordered Model.TomlValue Spec.Canonical.
From TV Require Import Proofs.ContainersOrder.
From Coq Require Import Permutation.

(* ------------------------------------------------------------------------------------------ *)
(** * induction principles *)

Section TvInd.
  Variable P : tv -> Prop.
  Hypothesis Hleaf : forall t, P (TLeaf t).
  Hypothesis Harr : forall l, Forall P l -> P (TArr l).
  Hypothesis Htab : forall m, Forall (fun kv => P (snd kv)) m -> P (TTab m).
  Fixpoint tv_ind' (v : tv) : P v :=
    match v with
    | TLeaf t => Hleaf t
    | TArr l => Harr l ((fix go (l : list tv) : Forall P l :=
                           match l with [] => Forall_nil _ | x :: r => Forall_cons x (tv_ind' x) (go r) end) l)
    | TTab m => Htab m ((fix go (m : list (bytes * tv)) : Forall (fun kv => P (snd kv)) m :=
                           match m with
                           | [] => Forall_nil _
                           | kv :: r => Forall_cons kv (tv_ind' (snd kv)) (go r)
                           end) m)
    end.
End TvInd.

Section EvInd.
  Variable P : ev -> Prop.
  Hypothesis Hleaf : forall t, P (ELeaf t).
  Hypothesis Harr : forall l, Forall P l -> P (EArr l).
  Hypothesis Hinl : forall m, Forall (fun kv => P (snd kv)) m -> P (EInl m).
  Fixpoint ev_ind' (v : ev) : P v :=
    match v with
    | ELeaf t => Hleaf t
    | EArr l => Harr l ((fix go (l : list ev) : Forall P l :=
                           match l with [] => Forall_nil _ | x :: r => Forall_cons x (ev_ind' x) (go r) end) l)
    | EInl m => Hinl m ((fix go (m : list (bytes * ev)) : Forall (fun kv => P (snd kv)) m :=
                           match m with
                           | [] => Forall_nil _
                           | kv :: r => Forall_cons kv (ev_ind' (snd kv)) (go r)
                           end) m)
    end.
End EvInd.

Section IvInd.
  Variable P : iv -> Prop.
  Hypothesis Hleaf : forall t, P (VLeaf t).
  Hypothesis Harr : forall ml l, Forall P l -> P (VArr ml l).
  Hypothesis Hinl : forall m, Forall (fun kv => P (snd kv)) m -> P (VInl m).
  Fixpoint iv_ind' (v : iv) : P v :=
    match v with
    | VLeaf t => Hleaf t
    | VArr ml l => Harr ml l ((fix go (l : list iv) : Forall P l :=
                           match l with [] => Forall_nil _ | x :: r => Forall_cons x (iv_ind' x) (go r) end) l)
    | VInl m => Hinl m ((fix go (m : list (bytes * iv)) : Forall (fun kv => P (snd kv)) m :=
                           match m with
                           | [] => Forall_nil _
                           | kv :: r => Forall_cons kv (iv_ind' (snd kv)) (go r)
                           end) m)
    end.
End IvInd.

(* ------------------------------------------------------------------------------------------ *)
(** * small list facts *)

Lemma Forall_map_ext {A B} (f g : A -> B) l : Forall (fun x => f x = g x) l -> map f l = map g l.
Proof. induction 1; simpl; congruence. Qed.

Lemma Forall_filter {A} (P : A -> Prop) f l : Forall P l -> Forall P (filter f l).
Proof. induction 1; simpl; [constructor|]. destruct (f x); [constructor|]; assumption. Qed.

Lemma Forall_app_iff {A} (P : A -> Prop) l l' : Forall P (l ++ l') <-> Forall P l /\ Forall P l'.
Proof. apply Forall_app. Qed.

Lemma forallb_map {A B} (f : A -> B) (p : B -> bool) l : forallb p (map f l) = forallb (fun x => p (f x)) l.
Proof. induction l as [|x r IH]; simpl; [reflexivity|]. rewrite IH. reflexivity. Qed.

Lemma existsb_map {A B} (f : A -> B) (p : B -> bool) l : existsb p (map f l) = existsb (fun x => p (f x)) l.
Proof. induction l as [|x r IH]; simpl; [reflexivity|]. rewrite IH. reflexivity. Qed.

Lemma nonempty_map {A B} (f : A -> B) l : nonempty (map f l) = nonempty l.
Proof. destruct l; reflexivity. Qed.

Lemma nonempty_app {A} (l l' : list A) : nonempty (l ++ l') = nonempty l || nonempty l'.
Proof. destruct l; reflexivity. Qed.

(* ------------------------------------------------------------------------------------------ *)
(** * the local fixes, restated *)

Definition ser_kv (kv : bytes * tv) : bytes * ev := (fst kv, ser_value (snd kv)).
Definition order3 (m : list (bytes * tv)) : list (bytes * tv) :=
  filter (fun kv => pass1 (snd kv)) m ++ filter (fun kv => pass2 (snd kv)) m ++ filter (fun kv => pass3 (snd kv)) m.

Lemma ser_value_tab m : ser_value (TTab m) = EInl (map ser_kv (order3 m)).
Proof.
  cbn [ser_value].
  set (ent := (fix go (m : list (bytes * tv)) : list (bytes * tv * ev) :=
                 match m with [] => [] | (k, x) :: r => (k, x, ser_value x) :: go r end) m).
  assert (Hent : ent = map (fun kv => (fst kv, snd kv, ser_value (snd kv))) m).
  { subst ent. induction m as [|[k x] r IH]; simpl; [reflexivity|]. rewrite IH. reflexivity. }
  assert (Hpick : forall p, pick p ent = map ser_kv (filter (fun kv => p (snd kv)) m)).
  { intro p. rewrite Hent. unfold pick. clear. induction m as [|[k x] r IH]; simpl; [reflexivity|].
    destruct (p x); simpl; rewrite IH; reflexivity. }
  rewrite !Hpick. unfold order3. rewrite !map_app. reflexivity.
Qed.

Lemma ser_root_value_eq m : ser_root_value m = map ser_kv (order3 m).
Proof. unfold ser_root_value. rewrite ser_value_tab. reflexivity. Qed.

Lemma ser_plain_tab m : ser_plain (TTab m) = EInl (map (fun kv => (fst kv, ser_plain (snd kv))) m).
Proof.
  cbn [ser_plain]. f_equal. induction m as [|[k x] r IH]; simpl; [reflexivity|]. rewrite IH. reflexivity.
Qed.

(* the serializer of either kind: tn = true `impl Serialize for Value`, tn = false an impl that keeps
   its own order (ser_plain) *)
Definition ser_g (tn : bool) (v : tv) : ev := if tn then ser_value v else ser_plain v.
Definition ser_kv_g (tn : bool) (kv : bytes * tv) : bytes * ev := (fst kv, ser_g tn (snd kv)).
Definition ordn (tn : bool) (m : list (bytes * tv)) : list (bytes * tv) := if tn then order3 m else m.

Lemma ser_g_leaf tn t : ser_g tn (TLeaf t) = ELeaf t.
Proof. destruct tn; reflexivity. Qed.
Lemma ser_g_arr tn l : ser_g tn (TArr l) = EArr (map (ser_g tn) l).
Proof. destruct tn; reflexivity. Qed.
Lemma ser_g_tab tn m : ser_g tn (TTab m) = EInl (map (ser_kv_g tn) (ordn tn m)).
Proof. destruct tn; unfold ser_g, ordn; [apply ser_value_tab|apply ser_plain_tab]. Qed.

Lemma fmt_value_inl ml m :
  fmt_value ml (EInl m) = VInl (map (fun kv => (fst kv, fmt_value ml (snd kv))) m).
Proof.
  cbn [fmt_value]. f_equal. induction m as [|[k x] r IH]; simpl; [reflexivity|]. rewrite IH. reflexivity.
Qed.

Lemma value_of_inl m :
  value_of (VInl m) = TTab (map (fun kv => (fst kv, value_of (snd kv))) m).
Proof.
  cbn [value_of]. f_equal. induction m as [|[k x] r IH]; simpl; [reflexivity|]. rewrite IH. reflexivity.
Qed.

(* the value a key/value line holds does not depend on the array layout (plain or pretty) *)
Lemma value_of_fmt_value ml e : value_of (fmt_value ml e) = value_of (fmt_value false e).
Proof.
  induction e as [t|l IH|m IH] using ev_ind'.
  - reflexivity.
  - cbn [fmt_value value_of]. f_equal. rewrite !map_map. apply Forall_map_ext. exact IH.
  - rewrite !fmt_value_inl, !value_of_inl. f_equal. rewrite !map_map. apply Forall_map_ext.
    eapply Forall_impl; [|exact IH]. intros [k x] H; simpl in *. congruence.
Qed.

(* induction where a table also knows the hypothesis for the elements of its array entries
   (arrays of tables are handled at the table that holds them) *)
Lemma tv_ind2 (P : tv -> Prop) :
  (forall t, P (TLeaf t)) ->
  (forall l, Forall P l -> P (TArr l)) ->
  (forall m, Forall (fun kv => P (snd kv) /\ forall l, snd kv = TArr l -> Forall P l) m -> P (TTab m)) ->
  forall v, P v.
Proof.
  intros Hleaf Harr Htab v.
  enough (H : P v /\ forall l, v = TArr l -> Forall P l) by exact (proj1 H).
  induction v as [t|l IH|m IH] using tv_ind'.
  - split; [apply Hleaf|]. intros l E. discriminate.
  - assert (A : Forall P l) by (eapply Forall_impl; [|exact IH]; intros a [H _]; exact H).
    split; [apply Harr; exact A|]. intros l' E. injection E as <-. exact A.
  - split; [apply Htab; exact IH|]. intros l E. discriminate.
Qed.

Lemma map_flat_map {A B C} (f : B -> C) (g : A -> list B) l :
  map f (flat_map g l) = flat_map (fun x => map f (g x)) l.
Proof. induction l as [|x r IH]; [reflexivity|]. cbn [flat_map]. rewrite map_app, IH. reflexivity. Qed.
