(* Proofs/LexEquivString.v — L1 for `string` = ml-basic-string / basic-string / ml-literal-string /
   literal-string: the ordered choice of the parser picks the alternative of the grammar, provided
   the token is not followed by a further quote character (maximal munch). *)
From TV Require Import Base.Prelude Base.Utf8 Base.Winnow Gen.Consts Spec.Abnf Spec.Lex.
From TV Require Import Model.Datetime Model.Trivia Model.Strings Model.Numbers.
From TV Require Import Proofs.ConstsOk Proofs.LexEquivBase Proofs.LexEquivTrivia Proofs.LexEquivInt
  Proofs.LexEquivStrings Proofs.LexEquivMlLit Proofs.LexEquivMlBasic.
Require Import Lia ZifyBool ZifyN ZifyNat.

Theorem string_sound i v i' : string_ i = Ok v i' -> exists t, string_tok t v /\ splits i t i'.
Proof.
  unfold string_. intro H. apply alt_inv in H as [H | [_ H]].
  { apply ml_basic_string_sound in H as (t & Ht & S). exists t. split; [left; exact Ht|exact S]. }
  apply alt_inv in H as [H | [_ H]].
  { apply basic_string_sound in H as (t & Ht & S). exists t. split; [right; left; exact Ht|exact S]. }
  apply alt_inv in H as [H | [_ H]].
  { apply ml_literal_string_sound in H as (t & Ht & S). exists t. split; [right; right; left; exact Ht|exact S]. }
  apply literal_string_sound in H as (t & Ht & S). exists t. split; [right; right; right; exact Ht|exact S].
Qed.

(* neither kind of quote follows the token *)
Definition no_quote_follows (r : bytes) : Prop := stops (byte_eqb x22) r /\ stops (byte_eqb x27) r.

Lemma basic_body_head body v : star basic_char body v ->
  body = [] \/ exists b t, body = b :: t /\ byte_eqb x22 b = false.
Proof.
  intros [|t1 v1 t2 v2 [(b & Hb & -> & ->) | He] _]; [auto| |]; right.
  - exists b, t2. split; [reflexivity|]. revert Hb. cls. lia.
  - destruct (escaped_ascii t1 v1 He) as (_ & t' & ->). exists x5c, (t' ++ t2). auto.
Qed.

Lemma literal_body_head body : all literal_char body ->
  body = [] \/ exists b t, body = b :: t /\ byte_eqb x27 b = false.
Proof.
  destruct body as [|b t]; [auto|]. intro H. right. exists b, t. split; [reflexivity|].
  unfold all in H. cbn [forallb] in H. apply andb_true_iff in H as [Hb _]. revert Hb. cls. lia.
Qed.

Lemma basic_not_ml i t v r : basic_string_tok t v -> rest i = t ++ r -> stops (byte_eqb x22) r ->
  fails ml_basic_string i.
Proof.
  intros (_ & body & -> & St) H Hr. apply ml_basic_string_fails. intros s E. rewrite H in E.
  destruct (basic_body_head body v St) as [-> | (b & t' & -> & Nb)]; cbn [app] in E.
  - injection E as E. subst r. cbn [stops] in Hr. discriminate.
  - injection E as -> _. discriminate.
Qed.

Lemma literal_not_ml i t v r : literal_string_tok t v -> rest i = t ++ r -> stops (byte_eqb x27) r ->
  fails ml_literal_string i.
Proof.
  intros (_ & body & -> & St) H Hr. apply star_one_inv in St as [_ Hb].
  apply ml_literal_string_fails. intros s E. rewrite H in E.
  destruct (literal_body_head body Hb) as [-> | (b & t' & -> & Nb)]; cbn [app] in E.
  - injection E as E. subst r. cbn [stops] in Hr. discriminate.
  - injection E as -> _. discriminate.
Qed.

Theorem string_complete i t v r : string_tok t v -> rest i = t ++ r -> no_quote_follows r ->
  string_ i = Ok v (adv t i).
Proof.
  intros Ht H [Hr1 Hr2]. unfold string_. destruct Ht as [Ht | [Ht | [Ht | Ht]]].
  - apply alt_ok. apply (ml_basic_string_complete i t v r Ht H Hr1).
  - rewrite (alt_fails_l _ _ _ (basic_not_ml i t v r Ht H Hr1)).
    apply alt_ok. apply (basic_string_complete i t v r Ht H).
  - pose proof Ht as (_ & nl & body & E & _).
    assert (H' : rest i = x27 :: ([x27; x27] ++ nl ++ body ++ [x27; x27; x27]) ++ r) by (rewrite H, E; reflexivity).
    rewrite alt_fails_l by (apply ml_basic_string_fails; intros s Es; rewrite H' in Es; discriminate).
    rewrite alt_fails_l by (apply basic_string_fails; rewrite H'; reflexivity).
    apply alt_ok. apply (ml_literal_string_complete i t v r Ht H Hr2).
  - pose proof Ht as (_ & body & E & _).
    assert (H' : rest i = x27 :: (body ++ [x27]) ++ r) by (rewrite H, E; reflexivity).
    rewrite alt_fails_l by (apply ml_basic_string_fails; intros s Es; rewrite H' in Es; discriminate).
    rewrite alt_fails_l by (apply basic_string_fails; rewrite H'; reflexivity).
    rewrite (alt_fails_l _ _ _ (literal_not_ml i t v r Ht H Hr2)).
    apply (literal_string_complete i t v r Ht H).
Qed.

Corollary string_cut_only i e j : string_ i = Cut e j ->
  forall t v r, rest i = t ++ r -> no_quote_follows r -> ~ string_tok t v.
Proof. intros H t v r E Hr Ht. rewrite (string_complete i t v r Ht E Hr) in H. discriminate. Qed.
