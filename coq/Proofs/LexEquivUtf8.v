(* Proofs/LexEquivUtf8.v — (1) the reading of `non-ascii` used by Spec/Abnf.v and Spec/Lex.v is the
   ABNF's: a byte string is well-formed UTF-8 exactly when it is a sequence of ASCII bytes and
   encodings of scalar values in %x80-D7FF / %xE000-10FFFF (`non_ascii_bytes_ok`);
   (2) every decoded string value is well-formed UTF-8 (the Rust `String` invariant). *)
From TV Require Import Base.Prelude Base.Utf8 Base.Winnow Gen.Consts Spec.Abnf Spec.Lex.
From TV Require Import Model.Datetime Model.Trivia Model.Strings Model.Numbers.
From TV Require Import Proofs.ConstsOk Proofs.LexEquivBase Proofs.LexEquivTrivia Proofs.LexEquivInt
  Proofs.LexEquivStrings Proofs.LexEquivMlLit Proofs.LexEquivMlBasic.
Require Import Lia ZifyBool ZifyN ZifyNat.
Ltac Zify.zify_post_hook ::= Z.div_mod_to_equations.

Local Open Scope N_scope.

(* ---- well-formed sequences, one scalar at a time ------------------------------------------------------------ *)
Lemma utf8_seq2 b0 b1 s : inr 194 223 b0 = true -> is_cont b1 = true ->
  utf8_valid_b (b0 :: b1 :: s) = utf8_valid_b s.
Proof.
  intros H0 H1. cbn [utf8_valid_b]. rewrite H0, H1.
  replace (b2n b0 <=? 127) with false by (unfold inr in H0; lia). reflexivity.
Qed.

Definition second3 (b0 b1 : byte) : bool :=
  if b2n b0 =? 224 then inr 160 191 b1 else if b2n b0 =? 237 then inr 128 159 b1 else is_cont b1.
Definition second4 (b0 b1 : byte) : bool :=
  if b2n b0 =? 240 then inr 144 191 b1 else if b2n b0 =? 244 then inr 128 143 b1 else is_cont b1.

Lemma utf8_seq3 b0 b1 b2 s : inr 224 239 b0 = true -> second3 b0 b1 = true -> is_cont b2 = true ->
  utf8_valid_b (b0 :: b1 :: b2 :: s) = utf8_valid_b s.
Proof.
  intros H0 H1 H2. cbn [utf8_valid_b]. unfold second3 in H1. rewrite H0, H1, H2.
  replace (b2n b0 <=? 127) with false by (unfold inr in H0; lia).
  replace (inr 194 223 b0) with false by (unfold inr in *; lia). reflexivity.
Qed.

Lemma utf8_seq4 b0 b1 b2 b3 s : inr 240 244 b0 = true -> second4 b0 b1 = true ->
  is_cont b2 = true -> is_cont b3 = true ->
  utf8_valid_b (b0 :: b1 :: b2 :: b3 :: s) = utf8_valid_b s.
Proof.
  intros H0 H1 H2 H3. cbn [utf8_valid_b]. unfold second4 in H1. rewrite H0, H1, H2, H3.
  replace (b2n b0 <=? 127) with false by (unfold inr in H0; lia).
  replace (inr 194 223 b0) with false by (unfold inr in *; lia).
  replace (inr 224 239 b0) with false by (unfold inr in *; lia). reflexivity.
Qed.

(* the shape of a well-formed text: its first scalar, then a well-formed text *)
Lemma utf8_valid_cases s : utf8_valid_b s = true ->
  s = []
  \/ (exists b s', s = b :: s' /\ ascii b = true /\ utf8_valid_b s' = true)
  \/ (exists b0 b1 s', s = b0 :: b1 :: s' /\ inr 194 223 b0 = true /\ is_cont b1 = true /\ utf8_valid_b s' = true)
  \/ (exists b0 b1 b2 s', s = b0 :: b1 :: b2 :: s' /\ inr 224 239 b0 = true /\ second3 b0 b1 = true
                          /\ is_cont b2 = true /\ utf8_valid_b s' = true)
  \/ (exists b0 b1 b2 b3 s', s = b0 :: b1 :: b2 :: b3 :: s' /\ inr 240 244 b0 = true /\ second4 b0 b1 = true
                             /\ is_cont b2 = true /\ is_cont b3 = true /\ utf8_valid_b s' = true).
Proof.
  destruct s as [|b0 s1]; [auto|]. cbn [utf8_valid_b]. intro H. right.
  destruct (b2n b0 <=? 127) eqn:E0; [left; exists b0, s1; auto|]. right.
  destruct (inr 194 223 b0) eqn:E1.
  { left. destruct s1 as [|b1 s2]; [discriminate|]. apply andb_true_iff in H as [H1 H2]. exists b0, b1, s2. auto. }
  right. destruct (inr 224 239 b0) eqn:E2.
  { left. destruct s1 as [|b1 [|b2 s3]]; try discriminate.
    apply andb_true_iff in H as [H H3]. apply andb_true_iff in H as [H1 H2].
    exists b0, b1, b2, s3. unfold second3. auto 6. }
  right. destruct (inr 240 244 b0) eqn:E3; [|discriminate].
  destruct s1 as [|b1 [|b2 [|b3 s4]]]; try discriminate.
  apply andb_true_iff in H as [H H4]. apply andb_true_iff in H as [H H3]. apply andb_true_iff in H as [H1 H2].
  exists b0, b1, b2, b3, s4. unfold second4. auto 8.
Qed.

(* ---- encoding a scalar value ------------------------------------------------------------------------------------- *)
Lemma utf8_encode_valid n s : is_scalar n = true -> utf8_valid_b (utf8_encode n ++ s) = utf8_valid_b s.
Proof.
  intro Hs. unfold is_scalar in Hs. unfold utf8_encode.
  destruct (n <? 128) eqn:E1.
  { cbn [app]. apply utf8_cons_ascii. unfold ascii. rewrite b2n_n2b by lia. lia. }
  destruct (n <? 2048) eqn:E2.
  { cbn [app]. apply utf8_seq2; unfold inr, is_cont; rewrite b2n_n2b by lia; lia. }
  destruct (n <? 65536) eqn:E3.
  { cbn [app]. apply utf8_seq3; unfold second3, inr, is_cont; rewrite ?b2n_n2b by lia; try lia.
    destruct (224 + n / 4096 =? 224) eqn:Q1; [lia|]. destruct (224 + n / 4096 =? 237) eqn:Q2; lia. }
  cbn [app]. apply utf8_seq4; unfold second4, inr, is_cont; rewrite ?b2n_n2b by lia; try lia.
  destruct (240 + n / 262144 =? 240) eqn:Q1; [lia|]. destruct (240 + n / 262144 =? 244) eqn:Q2; lia.
Qed.

Lemma utf8_encode_valid0 n : is_scalar n = true -> utf8_valid_b (utf8_encode n) = true.
Proof. intro H. rewrite <- (app_nil_r (utf8_encode n)). rewrite utf8_encode_valid by exact H. reflexivity. Qed.

(* the bytes of the encoding of a non-ASCII scalar are all >= 0x80 *)
Lemma utf8_encode_high n : 128 <= n -> is_scalar n = true -> forallb non_ascii (utf8_encode n) = true.
Proof.
  intros Hn Hs. unfold is_scalar in Hs. unfold utf8_encode, non_ascii, rng.
  destruct (n <? 128) eqn:E1; [lia|].
  destruct (n <? 2048) eqn:E2; [cbn [forallb]; rewrite !b2n_n2b by lia; lia|].
  destruct (n <? 65536) eqn:E3; cbn [forallb]; rewrite !b2n_n2b by lia; lia.
Qed.

(* ---- decoding: every well-formed multi-byte sequence is the encoding of a scalar in range -------------------------- *)
Lemma decode2 b0 b1 : inr 194 223 b0 = true -> is_cont b1 = true ->
  exists n, 128 <= n /\ is_scalar n = true /\ utf8_encode n = [b0; b1].
Proof.
  unfold inr, is_cont. intros H0 H1. exists ((b2n b0 - 192) * 64 + (b2n b1 - 128)).
  set (n := (b2n b0 - 192) * 64 + (b2n b1 - 128)).
  assert (Hn : 128 <= n < 2048) by (unfold n; lia).
  split; [lia|]. split; [unfold is_scalar; lia|]. unfold utf8_encode.
  replace (n <? 128) with false by lia. replace (n <? 2048) with true by lia.
  replace (192 + n / 64) with (b2n b0) by (unfold n; lia).
  replace (128 + n mod 64) with (b2n b1) by (unfold n; lia). rewrite !n2b_b2n. reflexivity.
Qed.

Lemma decode3 b0 b1 b2 : inr 224 239 b0 = true -> second3 b0 b1 = true -> is_cont b2 = true ->
  exists n, 128 <= n /\ is_scalar n = true /\ utf8_encode n = [b0; b1; b2].
Proof.
  unfold second3, inr, is_cont. intros H0 H1 H2.
  exists ((b2n b0 - 224) * 4096 + (b2n b1 - 128) * 64 + (b2n b2 - 128)).
  set (n := (b2n b0 - 224) * 4096 + (b2n b1 - 128) * 64 + (b2n b2 - 128)).
  assert (Hb1 : 128 <= b2n b1 <= 191 /\ (b2n b0 = 224 -> 160 <= b2n b1) /\ (b2n b0 = 237 -> b2n b1 <= 159)).
  { destruct (b2n b0 =? 224) eqn:Q1; [lia|]. destruct (b2n b0 =? 237) eqn:Q2; lia. }
  assert (Hn : 2048 <= n < 65536 /\ ~ (55296 <= n <= 57343)) by (unfold n; lia).
  split; [lia|]. split; [unfold is_scalar; lia|]. unfold utf8_encode.
  replace (n <? 128) with false by lia. replace (n <? 2048) with false by lia.
  replace (n <? 65536) with true by lia.
  replace (224 + n / 4096) with (b2n b0) by (unfold n; lia).
  replace (128 + (n / 64) mod 64) with (b2n b1) by (unfold n; lia).
  replace (128 + n mod 64) with (b2n b2) by (unfold n; lia). rewrite !n2b_b2n. reflexivity.
Qed.

Lemma decode4 b0 b1 b2 b3 : inr 240 244 b0 = true -> second4 b0 b1 = true -> is_cont b2 = true -> is_cont b3 = true ->
  exists n, 128 <= n /\ is_scalar n = true /\ utf8_encode n = [b0; b1; b2; b3].
Proof.
  unfold second4, inr, is_cont. intros H0 H1 H2 H3.
  exists ((b2n b0 - 240) * 262144 + (b2n b1 - 128) * 4096 + (b2n b2 - 128) * 64 + (b2n b3 - 128)).
  set (n := (b2n b0 - 240) * 262144 + (b2n b1 - 128) * 4096 + (b2n b2 - 128) * 64 + (b2n b3 - 128)).
  assert (Hb1 : 128 <= b2n b1 <= 191 /\ (b2n b0 = 240 -> 144 <= b2n b1) /\ (b2n b0 = 244 -> b2n b1 <= 143)).
  { destruct (b2n b0 =? 240) eqn:Q1; [lia|]. destruct (b2n b0 =? 244) eqn:Q2; lia. }
  assert (Hn : 65536 <= n <= 1114111) by (unfold n; lia).
  split; [lia|]. split; [unfold is_scalar; lia|]. unfold utf8_encode.
  replace (n <? 128) with false by lia. replace (n <? 2048) with false by lia.
  replace (n <? 65536) with false by lia.
  replace (240 + n / 262144) with (b2n b0) by (unfold n; lia).
  replace (128 + (n / 4096) mod 64) with (b2n b1) by (unfold n; lia).
  replace (128 + (n / 64) mod 64) with (b2n b2) by (unfold n; lia).
  replace (128 + n mod 64) with (b2n b3) by (unfold n; lia). rewrite !n2b_b2n. reflexivity.
Qed.

(* ---- the reading of non-ascii -------------------------------------------------------------------------------------- *)
(* a sequence of ASCII bytes and of UTF-8 encodings of scalar values in %x80-D7FF / %xE000-10FFFF *)
Inductive utf8_chars : bytes -> Prop :=
| uc_nil : utf8_chars []
| uc_ascii b s : ascii b = true -> utf8_chars s -> utf8_chars (b :: s)
| uc_non_ascii n s : 128 <= n -> is_scalar n = true -> utf8_chars s -> utf8_chars (utf8_encode n ++ s).

Lemma utf8_chars_valid s : utf8_chars s -> utf8_valid_b s = true.
Proof.
  induction 1 as [|b s Hb _ IH|n s Hn Hs _ IH]; [reflexivity| |].
  - rewrite utf8_cons_ascii by exact Hb. exact IH.
  - rewrite utf8_encode_valid by exact Hs. exact IH.
Qed.

Lemma utf8_valid_chars_n k : forall s, (length s <= k)%nat -> utf8_valid_b s = true -> utf8_chars s.
Proof.
  induction k as [|k IH]; intros s Hk V.
  - destruct s; [apply uc_nil|simpl in Hk; lia].
  - destruct (utf8_valid_cases s V) as [-> | [(b & s' & -> & Hb & V') | [(b0 & b1 & s' & -> & H0 & H1 & V')
      | [(b0 & b1 & b2 & s' & -> & H0 & H1 & H2 & V') | (b0 & b1 & b2 & b3 & s' & -> & H0 & H1 & H2 & H3 & V')]]]].
    + apply uc_nil.
    + apply uc_ascii; [exact Hb|]. apply IH; [simpl in Hk; lia|exact V'].
    + destruct (decode2 b0 b1 H0 H1) as (n & Hn & Hs & E). change (b0 :: b1 :: s') with ([b0; b1] ++ s').
      rewrite <- E. apply uc_non_ascii; [exact Hn|exact Hs|]. apply IH; [simpl in Hk; lia|exact V'].
    + destruct (decode3 b0 b1 b2 H0 H1 H2) as (n & Hn & Hs & E). change (b0 :: b1 :: b2 :: s') with ([b0; b1; b2] ++ s').
      rewrite <- E. apply uc_non_ascii; [exact Hn|exact Hs|]. apply IH; [simpl in Hk; lia|exact V'].
    + destruct (decode4 b0 b1 b2 b3 H0 H1 H2 H3) as (n & Hn & Hs & E).
      change (b0 :: b1 :: b2 :: b3 :: s') with ([b0; b1; b2; b3] ++ s').
      rewrite <- E. apply uc_non_ascii; [exact Hn|exact Hs|]. apply IH; [simpl in Hk; lia|exact V'].
Qed.

Theorem non_ascii_bytes_ok s : utf8_valid_b s = true <-> utf8_chars s.
Proof. split; [apply (utf8_valid_chars_n (length s)); lia|apply utf8_chars_valid]. Qed.

(* on well-formed text, "every byte is in class c, where c contains all bytes >= 0x80" says: every
   character is an ASCII character of c or a non-ASCII scalar value -- the ABNF's
   `c-ascii / non-ascii` *)
Inductive chars_of (c : byte -> bool) : bytes -> Prop :=
| co_nil : chars_of c []
| co_ascii b s : ascii b = true -> c b = true -> chars_of c s -> chars_of c (b :: s)
| co_non_ascii n s : 128 <= n -> is_scalar n = true -> chars_of c s -> chars_of c (utf8_encode n ++ s).

Theorem class_chars_ok c s : (forall b, non_ascii b = true -> c b = true) ->
  (utf8_valid_b s = true /\ all c s) <-> chars_of c s.
Proof.
  intro Hc. split.
  - intros [V Ha]. apply non_ascii_bytes_ok in V. induction V as [|b s Hb _ IH|n s Hn Hs _ IH].
    + apply co_nil.
    + unfold all in Ha. cbn [forallb] in Ha. apply andb_true_iff in Ha as [Hcb Ha].
      apply co_ascii; [exact Hb|exact Hcb|apply IH; exact Ha].
    + unfold all in Ha. rewrite forallb_app in Ha. apply andb_true_iff in Ha as [_ Ha].
      apply co_non_ascii; [exact Hn|exact Hs|apply IH; exact Ha].
  - induction 1 as [|b s Hb Hcb _ [V Ha]|n s Hn Hs _ [V Ha]].
    + split; reflexivity.
    + split; [rewrite utf8_cons_ascii by exact Hb; exact V|]. unfold all in *. cbn [forallb]. rewrite Hcb. exact Ha.
    + split; [rewrite utf8_encode_valid by exact Hs; exact V|]. unfold all in *. rewrite forallb_app, Ha.
      rewrite (forallb_impl non_ascii c _ Hc (utf8_encode_high n Hn Hs)). reflexivity.
Qed.

(* ---- every decoded string is well-formed UTF-8 ---------------------------------------------------------------------- *)
Lemma escape_simple_scalar b n : escape_simple b = Some n -> is_scalar n = true.
Proof. destruct b; try discriminate; intro H; injection H as <-; reflexivity. Qed.

Lemma escaped_value_valid e s : escaped_tok e s -> utf8_valid_b s = true.
Proof.
  intros [b n Hb | b k h Hb Hl Hh Hsc]; apply utf8_encode_valid0; [apply (escape_simple_scalar b n Hb)|exact Hsc].
Qed.

Lemma chunked_value_valid body v : chunked body v -> utf8_valid_b body = true -> utf8_valid_b v = true.
Proof.
  induction 1 as [|a t v Hne Ha Hs _ IH|e s t v He _ IH]; intro V; [reflexivity| |].
  - destruct (utf8_cut a t (stops_ascii_head _ _ basic_unescaped_nonascii Hs) V) as [Va Vt].
    apply utf8_join; [exact Va|apply IH; exact Vt].
  - destruct (escaped_ascii e s He) as (Ae & _). rewrite (utf8_app_ascii e t Ae) in V.
    apply utf8_join; [apply (escaped_value_valid e s He)|apply IH; exact V].
Qed.

Theorem basic_string_value_valid t v : basic_string_tok t v -> utf8_valid_b v = true.
Proof.
  intros (V & body & -> & St). cbn [app] in V. rewrite utf8_cons_ascii in V by reflexivity.
  destruct (utf8_split body x22 [] eq_refl V) as [Vb _].
  apply (chunked_value_valid body v (star_chunked _ _ St) Vb).
Qed.

Theorem literal_string_value_valid t v : literal_string_tok t v -> utf8_valid_b v = true.
Proof.
  intros (V & body & -> & St). apply star_one_inv in St as [-> _].
  cbn [app] in V. rewrite utf8_cons_ascii in V by reflexivity.
  apply (utf8_split body x27 [] eq_refl V).
Qed.

Lemma high_not_cr lo hi b : inr lo hi b = true -> 128 <= lo -> byte_eqb b x0d = false.
Proof. unfold inr. rewrite byte_eqb_n. cbn [b2n Byte.to_N]. lia. Qed.
Lemma cont_not_cr b : is_cont b = true -> byte_eqb b x0d = false.
Proof. unfold is_cont. rewrite byte_eqb_n. cbn [b2n Byte.to_N]. lia. Qed.
Lemma second3_not_cr b0 b1 : second3 b0 b1 = true -> byte_eqb b1 x0d = false.
Proof.
  unfold second3. destruct (b2n b0 =? 224); [intro H; apply (high_not_cr _ _ _ H); lia|].
  destruct (b2n b0 =? 237); [intro H; apply (high_not_cr _ _ _ H); lia|apply cont_not_cr].
Qed.
Lemma second4_not_cr b0 b1 : second4 b0 b1 = true -> byte_eqb b1 x0d = false.
Proof.
  unfold second4. destruct (b2n b0 =? 240); [intro H; apply (high_not_cr _ _ _ H); lia|].
  destruct (b2n b0 =? 244); [intro H; apply (high_not_cr _ _ _ H); lia|apply cont_not_cr].
Qed.

Lemma replace_crlf_2 a b r :
  replace_crlf (a :: b :: r)
  = if byte_eqb a x0d && byte_eqb b x0a then x0a :: replace_crlf r else a :: replace_crlf (b :: r).
Proof. reflexivity. Qed.

Lemma replace_crlf_valid_n k : forall s, (length s <= k)%nat -> utf8_valid_b s = true ->
  utf8_valid_b (replace_crlf s) = true.
Proof.
  induction k as [|k IH]; intros s Hk V.
  - destruct s; [reflexivity|simpl in Hk; lia].
  - destruct (utf8_valid_cases s V) as [-> | [(b & s' & -> & Hb & V') | [(b0 & b1 & s' & -> & H0 & H1 & V')
      | [(b0 & b1 & b2 & s' & -> & H0 & H1 & H2 & V') | (b0 & b1 & b2 & b3 & s' & -> & H0 & H1 & H2 & H3 & V')]]]].
    + reflexivity.
    + destruct s' as [|c r]; [cbn [replace_crlf]; rewrite utf8_cons_ascii by exact Hb; reflexivity|].
      rewrite replace_crlf_2. destruct (byte_eqb b x0d && byte_eqb c x0a) eqn:Q.
      * apply andb_true_iff in Q as [_ Qc]. apply byte_eqb_eq in Qc. subst c.
        rewrite utf8_cons_ascii in V' by reflexivity. rewrite utf8_cons_ascii by reflexivity.
        apply IH; [simpl in *; lia|exact V'].
      * rewrite utf8_cons_ascii by exact Hb. apply IH; [simpl in *; lia|exact V'].
    + rewrite (replace_crlf_cons b0) by (apply (high_not_cr _ _ _ H0); lia).
      rewrite (replace_crlf_cons b1) by (apply cont_not_cr; exact H1).
      rewrite utf8_seq2 by assumption. apply IH; [simpl in *; lia|exact V'].
    + rewrite (replace_crlf_cons b0) by (apply (high_not_cr _ _ _ H0); lia).
      rewrite (replace_crlf_cons b1) by (apply (second3_not_cr b0); exact H1).
      rewrite (replace_crlf_cons b2) by (apply cont_not_cr; exact H2).
      rewrite utf8_seq3 by assumption. apply IH; [simpl in *; lia|exact V'].
    + rewrite (replace_crlf_cons b0) by (apply (high_not_cr _ _ _ H0); lia).
      rewrite (replace_crlf_cons b1) by (apply (second4_not_cr b0); exact H1).
      rewrite (replace_crlf_cons b2) by (apply cont_not_cr; exact H2).
      rewrite (replace_crlf_cons b3) by (apply cont_not_cr; exact H3).
      rewrite utf8_seq4 by assumption. apply IH; [simpl in *; lia|exact V'].
Qed.

Theorem ml_literal_string_value_valid t v : ml_literal_string_tok t v -> utf8_valid_b v = true.
Proof.
  intros (V & nl & body & -> & Hnl & Hb).
  assert (An : forallb ascii nl = true) by (destruct Hnl as [Hn | [-> _]]; [apply newline_tok_ascii; exact Hn|reflexivity]).
  rewrite utf8_app_ascii in V by reflexivity. rewrite (utf8_app_ascii nl _ An) in V.
  destruct (utf8_split body x27 _ eq_refl V) as [Vb _].
  rewrite (mll_body_value body v Hb). apply (replace_crlf_valid_n (length body)); [lia|exact Vb].
Qed.

Lemma mchunked_value_valid t v : mchunked t v -> utf8_valid_b t = true -> utf8_valid_b v = true.
Proof.
  induction 1 as [|a t v Hne Ha Hs _ IH|e s t v He _ IH|nl t v Hnl _ IH|es t v Hes N1 N2 _ IH]; intro V.
  - reflexivity.
  - destruct (utf8_cut a t (stops_ascii_head _ _ mlb_unescaped_nonascii Hs) V) as [Va Vt].
    apply utf8_join; [exact Va|apply IH; exact Vt].
  - destruct (escaped_ascii e s He) as (Ae & _). rewrite (utf8_app_ascii e t Ae) in V.
    apply utf8_join; [apply (escaped_value_valid e s He)|apply IH; exact V].
  - rewrite (utf8_app_ascii nl t (newline_tok_ascii nl Hnl)) in V.
    rewrite utf8_cons_ascii by reflexivity. apply IH; exact V.
  - rewrite (utf8_app_ascii es t (trims_ascii es Hes)) in V. apply IH; exact V.
Qed.

Lemma qgroups_value_valid t w : star qgroup t w -> utf8_valid_b t = true -> utf8_valid_b w = true.
Proof.
  induction 1 as [|t1 v1 t2 v2 (q & vq & c & vc & -> & -> & Hq & [_ Hc]) St IH]; intro V; [reflexivity|].
  apply mlb_quotes_cases in Hq as [Hq ->].
  assert (Aq : forallb ascii q = true) by (destruct Hq as [-> | ->]; reflexivity).
  rewrite <- app_assoc in V. rewrite (utf8_app_ascii q _ Aq) in V.
  assert (Ah : ascii_head t2).
  { destruct St as [|ta va tb vb (q' & vq' & c'' & vc'' & -> & -> & Hq' & _) _]; [exact I|].
    apply mlb_quotes_cases in Hq' as [[-> | ->] _]; reflexivity. }
  destruct (utf8_cut c t2 Ah V) as [Vc V2].
  rewrite <- app_assoc. rewrite (utf8_app_ascii q _ Aq).
  apply utf8_join; [apply (mchunked_value_valid c vc (contents_mchunked _ _ Hc) Vc)|apply IH; exact V2].
Qed.

Theorem ml_basic_string_value_valid t v : ml_basic_string_tok t v -> utf8_valid_b v = true.
Proof.
  intros (V & nl & body & -> & Hnl & Hb).
  assert (An : forallb ascii nl = true) by (destruct Hnl as [Hn | [-> _]]; [apply newline_tok_ascii; exact Hn|reflexivity]).
  rewrite utf8_app_ascii in V by reflexivity. rewrite (utf8_app_ascii nl _ An) in V.
  destruct (utf8_split body x22 _ eq_refl V) as [Vb _]. clear V.
  destruct Hb as (t1 & v1 & t23 & v23 & -> & -> & A & (t2 & v2 & t3 & v3 & -> & -> & B & C)).
  apply maybe_mlb_quotes_cases in C as [C ->].
  assert (A3 : forallb ascii t3 = true) by (destruct C as [-> | [-> | ->]]; reflexivity).
  assert (Ah3 : ascii_head t3) by (destruct C as [-> | [-> | ->]]; exact I || reflexivity).
  assert (Ah2 : ascii_head (t2 ++ t3)).
  { destruct B as [|ta va tb vb (q' & vq' & c'' & vc'' & -> & -> & Hq' & _) _]; [exact Ah3|].
    apply mlb_quotes_cases in Hq' as [[-> | ->] _]; reflexivity. }
  destruct (utf8_cut t1 _ Ah2 Vb) as [V1 V23]. destruct (utf8_cut t2 _ Ah3 V23) as [V2 _].
  apply utf8_join; [apply (mchunked_value_valid t1 v1 (contents_mchunked _ _ A) V1)|].
  apply utf8_join; [apply (qgroups_value_valid t2 v2 B V2)|apply utf8_ascii; exact A3].
Qed.

Theorem string_value_valid t v : string_tok t v -> utf8_valid_b v = true.
Proof.
  intros [H | [H | [H | H]]];
    [apply (ml_basic_string_value_valid t v H)|apply (basic_string_value_valid t v H)
    |apply (ml_literal_string_value_valid t v H)|apply (literal_string_value_valid t v H)].
Qed.
