(* Proofs/StringsRTMlLit.v — multi-line literal strings are read back exactly. *)
From TV Require Import Base.Prelude Base.Utf8 Base.Winnow Gen.Consts.
From TV Require Import Model.Trivia Model.Strings Model.Write.
From TV Require Import Proofs.StringsRTDefs Proofs.StringsRTBase Proofs.StringsRTWrite Proofs.StringsRTEsc Proofs.StringsRTQuotes.
Require Import Lia ZifyBool ZifyN ZifyNat.

Local Notation q := x27 (only parsing).
Lemma apos_ascii : (b2n x27 <= 127)%N.
Proof. vm_compute. discriminate. Qed.

(* a content byte of a multi-line literal string *)
Definition cb (b : byte) : bool := in_class MLL_CHAR b || byte_eqb b x0a.
(* a byte a multi-line literal string may hold *)
Definition okb (b : byte) : bool := cb b || byte_eqb b x27.
Definition mll_stop (X : bytes) : Prop :=
  match X with [] => True | b :: _ => byte_eqb b x27 = true end.

Lemma newline_lf X p d : newline (mkIn (x0a :: X) p d) = Ok tt (mkIn X (p + 1)%N d).
Proof. reflexivity. Qed.

Lemma mll_content_yes b X p d : cb b = true ->
  exists a, mll_content (mkIn (b :: X) p d) = Ok a (mkIn X (p + 1)%N d).
Proof.
  intro H. unfold mll_content, alt. rewrite one_of_cons.
  destruct (in_class MLL_CHAR b) eqn:E; [eauto|].
  unfold cb in H. rewrite E in H. cbn in H. apply byte_eqb_eq in H. subst b.
  exists x0a. reflexivity.
Qed.

Lemma mll_content_no X p d : mll_stop X -> exists e i', mll_content (mkIn X p d) = Bt e i'.
Proof.
  intro H. destruct X as [|b X]; [do 2 eexists; reflexivity|].
  cbn in H. apply byte_eqb_eq in H. subst b. do 2 eexists. reflexivity.
Qed.

Lemma mll_run : forall c acc X p d fuel, forallb cb c = true -> mll_stop X ->
  length (c ++ X) < fuel ->
  exists l, repeat0_f fuel mll_content acc (mkIn (c ++ X) p d) = Ok l (after c X p d).
Proof.
  induction c as [|b c IH]; intros acc X p d fuel Hc HX Hf.
  - destruct fuel as [|f]; [lia|]. cbn [repeat0_f app].
    destruct (mll_content_no X p d HX) as [e [i' He]]. rewrite He. rewrite after_nil. eauto.
  - destruct fuel as [|f]; [cbn in Hf; lia|]. cbn [forallb] in Hc. apply andb_true_iff in Hc as [Hb Hc].
    cbn [repeat0_f app]. destruct (mll_content_yes b (c ++ X) p d Hb) as [a Ha]. rewrite Ha.
    cbn [rest length]. rewrite eqb_lt by lia.
    destruct (IH (a :: acc) X (p + 1)%N d f Hc HX) as [l Hl]; [cbn [app length] in Hf; lia|].
    rewrite Hl. exists l. apply ok_inp; [reflexivity|]. unfold after. apply mkIn_eq; [reflexivity|]. cbn [length]. lia.
Qed.

(* ---- the body after its first content run ---------------------------------------------------- *)
Definition Qp : parser (list byte) := quotes2 x27 (t_other x27) ;;; repeat1 mll_content.
Definition Cp : parser (option bytes) := opt (quotes2 x27 (t_delim x27)).
Definition DL (r : bytes) : bytes := x27 :: x27 :: x27 :: r.

Lemma Qp_qqq Z p d : exists e i', Qp (mkIn (x27 :: x27 :: x27 :: Z) p d) = Bt e i'.
Proof.
  unfold Qp. destruct (quotes2_other_qqq x27 Z p d) as [e [i' H]].
  rewrite (bind_bt _ _ _ _ _ H). eauto.
Qed.

Lemma mll_end s acc fuel r p d : s = [] \/ s = [x27] \/ s = [x27; x27] -> not_head x27 r -> 0 < fuel ->
  exists o, (repeat0_f fuel Qp acc ;;; Cp) (mkIn (s ++ DL r) p d) = Ok o (after s (DL r) p d).
Proof.
  intros Hs Hr Hf. destruct fuel as [|f]; [lia|]. unfold bind. cbn [repeat0_f].
  assert (HQ : exists e i', Qp (mkIn (s ++ DL r) p d) = Bt e i').
  { destruct Hs as [-> | [-> | ->]]; apply Qp_qqq. }
  destruct HQ as [e [i' HQ]]. rewrite HQ. unfold Cp.
  destruct Hs as [-> | [-> | ->]]; cbn [app]; unfold DL.
  - destruct (quotes2_delim_0 x27 r p d Hr) as [e1 [i1 H1]].
    rewrite (opt_bt _ _ _ _ H1). rewrite after_nil. eauto.
  - rewrite (opt_ok _ _ _ _ (quotes2_delim_1 x27 apos_ascii r p d Hr)). eauto.
  - rewrite (opt_ok _ _ _ _ (quotes2_delim_2 x27 apos_ascii r p d)). eauto.
Qed.

Lemma okb_cb b : okb b = true -> byte_eqb b x27 = false -> cb b = true.
Proof. unfold okb. intros H E. rewrite E in H. rewrite orb_false_r in H. exact H. Qed.

(* one or two apostrophes, then a content run up to the next apostrophe or the delimiter *)
Lemma Qp_mid qs b s2 r p d : qs = [x27] \/ qs = [x27; x27] -> byte_eqb b x27 = false ->
  forallb okb (b :: s2) = true ->
  exists l c s3, s2 = c ++ s3 /\ forallb (fun x => negb (byte_eqb x x27)) c = true /\ mll_stop s3 /\
    Qp (mkIn (qs ++ b :: s2 ++ DL r) p d) = Ok l (after (qs ++ b :: c) (s3 ++ DL r) p d).
Proof.
  intros Hqs Eb Hok.
  destruct (span_while_split (fun x => negb (byte_eqb x x27)) s2) as [c [s3 [Hs2 [Hc Hs3]]]].
  assert (Hstop3 : mll_stop s3).
  { destruct s3 as [|x s3]; [exact I|]. cbn in Hs3. cbn. destruct (byte_eqb x x27); [reflexivity|discriminate]. }
  assert (Hstop : mll_stop (s3 ++ DL r)).
  { destruct s3 as [|x s3]; [reflexivity|exact Hstop3]. }
  cbn [forallb] in Hok. apply andb_true_iff in Hok as [Hokb Hok2].
  assert (Hcb : forallb cb c = true).
  { rewrite Hs2, forallb_app in Hok2. apply andb_true_iff in Hok2 as [Hokc _].
    clear - Hokc Hc. induction c as [|x c IH]; [reflexivity|].
    cbn [forallb] in *. apply andb_true_iff in Hokc as [H1 H2]. apply andb_true_iff in Hc as [H3 H4].
    rewrite (IH H2 H4), andb_true_r. apply okb_cb; [exact H1|]. destruct (byte_eqb x x27); [discriminate|reflexivity]. }
  assert (Eb' : byte_eqb x27 b = false) by (rewrite byte_eqb_sym; exact Eb).
  assert (Hq : exists p1, p1 = (p + N.of_nat (length qs))%N /\
            quotes2 x27 (t_other x27) (mkIn (qs ++ b :: s2 ++ DL r) p d) = Ok qs (mkIn (b :: s2 ++ DL r) p1 d)).
  { eexists. split; [reflexivity|]. destruct Hqs as [-> | ->]; cbn [app].
    - apply (quotes2_other_1 x27 apos_ascii b _ p d Eb').
    - apply (quotes2_other_2 x27 apos_ascii b _ p d Eb'). }
  destruct Hq as [p1 [Hp1 Hq]].
  destruct (mll_content_yes b (s2 ++ DL r) p1 d (okb_cb b Hokb Eb)) as [a Ha].
  destruct (mll_run c [a] (s3 ++ DL r) (p1 + 1)%N d (S (length (c ++ s3 ++ DL r))) Hcb Hstop) as [l Hl]; [lia|].
  exists l, c, s3. split; [exact Hs2|]. split; [exact Hc|]. split; [exact Hstop3|].
  unfold Qp. rewrite (bind_ok _ _ _ _ _ Hq).
  unfold repeat1. rewrite Ha. cbn [rest].
  rewrite Hs2, <- app_assoc. rewrite Hl.
  apply ok_inp; [reflexivity|]. unfold after. apply mkIn_eq; [reflexivity|].
  subst p1. rewrite app_length. cbn [length]. lia.
Qed.

Lemma mll_tail : forall n s acc fuel r p d,
  length s <= n -> mll_stop s -> forallb okb s = true -> no3 x27 0 s = true -> not_head x27 r ->
  length (s ++ DL r) < fuel ->
  exists o, (repeat0_f fuel Qp acc ;;; Cp) (mkIn (s ++ DL r) p d) = Ok o (after s (DL r) p d).
Proof.
  induction n as [|n IH]; intros s acc fuel r p d Hn Hstop Hok Hno Hr Hf.
  - destruct s; [|cbn in Hn; lia]. apply mll_end; [auto|exact Hr|lia].
  - destruct (no3_cases x27 s Hno Hstop) as [E | [E | [E | E]]];
      try solve [apply mll_end; [auto|exact Hr|lia]].
    assert (Hmid : exists qs b s2, s = qs ++ b :: s2 /\ (qs = [x27] \/ qs = [x27; x27]) /\
                     byte_eqb b x27 = false /\ no3 x27 0 (b :: s2) = true).
    { destruct E as [[b [s2 [E1 [E2 E3]]]] | [b [s2 [E1 [E2 E3]]]]].
      - exists [x27], b, s2. auto.
      - exists [x27; x27], b, s2. auto. }
    clear E. destruct Hmid as [qs [b [s2 [Es [Hqs [Eb Hno2]]]]]].
    assert (Hok2 : forallb okb (b :: s2) = true).
    { rewrite Es, forallb_app in Hok. apply andb_true_iff in Hok. tauto. }
    destruct (Qp_mid qs b s2 r p d Hqs Eb Hok2) as [l [c [s3 [Hs2 [Hc [Hstop3 HQ]]]]]].
    destruct fuel as [|f]; [lia|]. unfold bind. cbn [repeat0_f].
    rewrite Es, <- app_assoc. cbn [app]. rewrite HQ. unfold after at 1. cbn [rest].
    assert (Hlen : length (s3 ++ DL r) < length (qs ++ b :: s2 ++ DL r)).
    { rewrite Hs2. rewrite !app_length. cbn [length]. rewrite !app_length. lia. }
    rewrite eqb_lt by exact Hlen.
    assert (Hok3 : forallb okb s3 = true).
    { cbn [forallb] in Hok2. apply andb_true_iff in Hok2 as [_ Hok2]. rewrite Hs2, forallb_app in Hok2.
      apply andb_true_iff in Hok2. tauto. }
    assert (Hno3 : no3 x27 0 s3 = true).
    { rewrite Hs2 in Hno2. change (b :: c ++ s3) with ((b :: c) ++ s3) in Hno2.
      rewrite no3_app_other in Hno2; [exact Hno2| |discriminate].
      cbn [forallb]. rewrite Eb, Hc. reflexivity. }
    destruct (IH s3 (l :: acc) f r (p + N.of_nat (length (qs ++ b :: c)))%N d) as [o Ho]; auto.
    + rewrite Es, Hs2 in Hn. rewrite !app_length in Hn. cbn [length] in Hn. rewrite app_length in Hn.
      destruct Hqs as [-> | ->]; cbn [length] in Hn; lia.
    + rewrite Es, <- app_assoc in Hf. cbn [app] in Hf. lia.
    + unfold bind in Ho. exists o. unfold after in *. rewrite Ho. apply ok_inp; [reflexivity|].
      apply mkIn_eq; [reflexivity|]. rewrite Hs2. rewrite !app_length. cbn [length]. rewrite !app_length. lia.
Qed.

(* ---- ml_literal_body / ml_literal_string -------------------------------------------------------- *)
Lemma ml_literal_body_rt s r p d :
  forallb okb s = true -> no3 x27 0 s = true -> utf8_valid_b s = true -> not_head x27 r ->
  ml_literal_body (mkIn (s ++ DL r) p d) = Ok s (after s (DL r) p d).
Proof.
  intros Hok Hno Hu Hr.
  destruct (span_while_split (fun x => negb (byte_eqb x x27)) s) as [c [s1 [Hs [Hc Hs1]]]].
  assert (Hstop1 : mll_stop s1).
  { destruct s1 as [|x s1]; [exact I|]. cbn in Hs1. cbn. destruct (byte_eqb x x27); [reflexivity|discriminate]. }
  assert (Hstop : mll_stop (s1 ++ DL r)).
  { destruct s1 as [|x s1]; [reflexivity|exact Hstop1]. }
  assert (Hcb : forallb cb c = true).
  { rewrite Hs, forallb_app in Hok. apply andb_true_iff in Hok as [Hokc _].
    clear - Hokc Hc. induction c as [|x c IH]; [reflexivity|].
    cbn [forallb] in *. apply andb_true_iff in Hokc as [H1 H2]. apply andb_true_iff in Hc as [H3 H4].
    rewrite (IH H2 H4), andb_true_r. apply okb_cb; [exact H1|]. destruct (byte_eqb x x27); [discriminate|reflexivity]. }
  assert (Hok1 : forallb okb s1 = true).
  { rewrite Hs, forallb_app in Hok. apply andb_true_iff in Hok. tauto. }
  assert (Hno1 : no3 x27 0 s1 = true).
  { destruct c as [|x c]; [cbn [app] in Hs; subst s1; exact Hno|].
    rewrite Hs in Hno. rewrite no3_app_other in Hno; [exact Hno|exact Hc|discriminate]. }
  unfold ml_literal_body, from_utf8, try_map, taken.
  change (pvoid (none_of (byte_eqb APOSTROPHE))) with (t_other x27).
  change (pvoid (lit ML_LITERAL_STRING_DELIM)) with (t_delim x27).
  fold Qp. fold Cp.
  destruct (mll_run c [] (s1 ++ DL r) p d (S (length (c ++ s1 ++ DL r))) Hcb Hstop) as [l Hl]; [lia|].
  assert (HA : repeat0 mll_content (mkIn (s ++ DL r) p d) = Ok l (after c (s1 ++ DL r) p d)).
  { unfold repeat0. cbn [rest]. rewrite Hs, <- app_assoc. exact Hl. }
  rewrite (bind_ok _ _ _ _ _ HA). unfold after at 1. unfold repeat0 at 1. cbn [rest].
  destruct (mll_tail (length s1) s1 [] (S (length (s1 ++ DL r))) r (p + N.of_nat (length c))%N d) as [o Ho]; auto.
  unfold bind in Ho |- *. cbv beta. cbn [rest]. rewrite Ho. unfold after. cbn [pos rest].
  assert (Hpos : N.to_nat (p + N.of_nat (length c) + N.of_nat (length s1) - p) = length s).
  { rewrite Hs, app_length. lia. }
  rewrite Hpos. rewrite firstn_app_len. rewrite Hu.
  apply ok_inp; [reflexivity|]. apply mkIn_eq; [reflexivity|]. rewrite Hs, app_length. lia.
Qed.

Definition ml_literal_token (nl : bool) (s : bytes) : bytes :=
  [x27; x27; x27] ++ (if nl then [x0a] else []) ++ s ++ [x27; x27; x27].

Lemma replace_crlf_cons a b r : replace_crlf (a :: b :: r) =
  if byte_eqb a x0d && byte_eqb b x0a then x0a :: replace_crlf r else a :: replace_crlf (b :: r).
Proof. reflexivity. Qed.

Lemma replace_crlf_id s : forallb (fun b => negb (byte_eqb b x0d)) s = true -> replace_crlf s = s.
Proof.
  induction s as [|a s IH]; [reflexivity|]. intro H. cbn [forallb] in H. apply andb_true_iff in H as [Ha Hs].
  destruct s as [|b r]; [reflexivity|].
  rewrite replace_crlf_cons. destruct (byte_eqb a x0d); [discriminate|]. cbn [andb]. rewrite (IH Hs). reflexivity.
Qed.

Lemma okb_no_cr s : forallb okb s = true -> forallb (fun b => negb (byte_eqb b x0d)) s = true.
Proof.
  apply forallb_impl. intros b H. unfold okb, cb in H. pose proof (b2n_lt b). byten. lia.
Qed.

(* the first byte of the body is not taken for the newline that may follow the opening delimiter *)
Lemma opt_newline_none X p d :
  match X with [] => True | b :: _ => byte_eqb b x0a = false /\ byte_eqb b x0d = false end ->
  opt newline (mkIn X p d) = Ok None (mkIn X p d).
Proof.
  intro H. destruct X as [|b X]; [reflexivity|]. destruct H as [H1 H2].
  unfold opt, newline. rewrite (bind_ok _ _ _ _ _ (any_cons b X p d)). rewrite H1, H2. reflexivity.
Qed.

Lemma ml_literal_string_rt nl s r p d :
  forallb okb s = true -> no3 x27 0 s = true -> utf8_valid_b s = true -> not_head x27 r ->
  (nl = false -> forallb (fun b => negb (byte_eqb b x0a)) s = true) ->
  ml_literal_string (mkIn (ml_literal_token nl s ++ r) p d) = Ok s (after (ml_literal_token nl s) r p d).
Proof.
  intros Hok Hno Hu Hr Hnl. unfold ml_literal_token. rewrite <- !app_assoc.
  unfold ml_literal_string.
  assert (Hopen : exists p1, p1 = (p + 3 + (if nl then 1 else 0))%N /\
            (lit ML_LITERAL_STRING_DELIM ;;; opt newline)
              (mkIn ([x27; x27; x27] ++ (if nl then [x0a] else []) ++ s ++ [x27; x27; x27] ++ r) p d)
            = Ok (if nl then Some tt else None) (mkIn (s ++ DL r) p1 d)).
  { eexists. split; [reflexivity|].
    rewrite (bind_ok _ _ _ _ _ (lit_yes [x27; x27; x27] _ p d)). unfold after. cbn [length N.of_nat Pos.of_succ_nat Pos.succ].
    destruct nl; cbn [app].
    - erewrite opt_ok; [|apply newline_lf]. reflexivity.
    - rewrite opt_newline_none; [apply ok_inp; [reflexivity|apply mkIn_eq; [reflexivity|lia]]|].
      specialize (Hnl eq_refl). destruct s as [|b s]; [cbn; split; reflexivity|].
      cbn [forallb] in Hnl, Hok. apply andb_true_iff in Hnl as [Hb _]. apply andb_true_iff in Hok as [Hb2 _].
      cbn [app]. split; [destruct (byte_eqb b x0a); [discriminate|reflexivity]|].
      unfold okb, cb in Hb2. pose proof (b2n_lt b). byten. lia. }
  destruct Hopen as [p1 [Hp1 Hopen]]. rewrite (bind_ok _ _ _ _ _ Hopen).
  assert (Hbody : context (cut_err (pmap replace_crlf ml_literal_body)) (mkIn (s ++ DL r) p1 d)
                  = Ok s (after s (DL r) p1 d)).
  { apply context_ok, cut_err_ok. erewrite pmap_ok; [|apply ml_literal_body_rt; assumption].
    rewrite replace_crlf_id; [reflexivity|apply okb_no_cr; exact Hok]. }
  rewrite (bind_ok _ _ _ _ _ Hbody). unfold after at 1. unfold DL.
  rewrite (bind_ok _ _ _ _ _ (context_ok _ _ _ _ (cut_err_ok _ _ _ _ (lit_yes [x27; x27; x27] r _ d)))).
  unfold ret. apply ok_inp; [reflexivity|]. unfold after. apply mkIn_eq; [reflexivity|].
  subst p1. rewrite !app_length. cbn [length]. destruct nl; cbn [length]; lia.
Qed.
