(* Proofs/BuiltRTBase.v — C06: keys, and small parser facts shared by the BuiltRT* files. *)
From TV Require Import Base.Prelude Base.Utf8 Base.Winnow Gen.Consts.
From TV Require Import Model.Trivia Model.Strings Model.Datetime Model.Numbers Model.Tree Model.Parse Model.Document.
From TV Require Import Model.Write Model.Encode Model.Build.
From TV Require Import Proofs.StringsRTDefs Proofs.StringsRTBase Proofs.StringsRTBasic Proofs.StringsRTTop Proofs.StringsRTDoc.
Require Import Lia ZifyBool ZifyN ZifyNat.

(* ---- Key::new(k).to_string() parsed by Key::from_str ------------------------------------------------ *)
Lemma key_display_new k : exists t, write_key KDefault k = Some t /\ key_display_repr (key_new k) = t.
Proof.
  unfold key_display_repr, key_new. cbn [k_repr repr_str k_key].
  destruct (write_key KDefault k) as [t|] eqn:E.
  - exists t. auto.
  - exfalso. exact (proj2 (default_total k) E).
Qed.

Theorem key_roundtrip k :
  utf8_valid_b k = true ->
  exists r, parse_key (key_display_repr (key_new k)) = POk (r, k).
Proof.
  intro Hu. destruct (key_display_new k) as (t & Hw & ->).
  destruct (key_styles_parse k KDefault t Hu Hw) as [_ H]. rewrite H. unfold key_result. eauto.
Qed.
