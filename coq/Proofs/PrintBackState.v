(* Proofs/PrintBackState.v — C03, class (c): what finalize_table / start_table / start_array_table
   (Model/Document.v, state.rs) do to the sections of the tree. *)
From TV Require Import Base.Prelude Base.Utf8 Base.Winnow Gen.Consts.
From TV Require Import Model.Datetime Model.Numbers Model.Tree Model.Parse Model.Document Model.Write Model.Encode.
From TV Require Import Proofs.SpansDefs Proofs.DefsEquivSim Proofs.PrintBackBase Proofs.PrintBackValue Proofs.PrintBackDoc Proofs.PrintBackSort
                       Proofs.PrintBackEnts Proofs.PrintBackDisplay Proofs.PrintBackSecs.
Require Import Lia ZifyBool ZifyN ZifyNat Sorting.Sorted Sorting.Permutation.

Definition Proot (r : tbl) : list psec := sec_of r false :: PI (t_items r).

Lemma frame_Proot r r' D1 D2 : frame r r' -> Permutation (PI (t_items r') ++ D1) (PI (t_items r) ++ D2) ->
  Permutation (Proot r' ++ D1) (Proot r ++ D2).
Proof.
  intros (H1 & H2 & H3 & H4 & H5 & H6) Hp. unfold Proot, sec_of. rewrite H1, H4, H5, H6. cbn [app]. apply perm_skip, Hp.
Qed.

Section State.
  Variable K : key -> Prop.

  (* ---- finalize_table below the root ------------------------------------------------------------------------- *)
  Lemma finalize_secs st st' ppath k :
    pop_key (st_path st) = Some (ppath, k) -> finalize_table st = COk st' ->
    uk K (st_root st) -> uk K (st_current st) -> K k -> Forall K ppath ->
    (st_is_array st = false -> exists par, reach (st_root st) ppath = Some par /\ kv_get (t_items par) (k_key k) = None) ->
    st' = finalized st (st_root st') /\ frame (st_root st) (st_root st') /\ uk K (st_root st')
    /\ Permutation (Proot (st_root st')) (Proot (st_root st) ++ P (st_current st) (st_is_array st)).
  Proof.
    intros Ep Hf Hur Huc Hk Hpp Habs. rewrite finalize_table_eq, Ep in Hf.
    destruct (with_table_at (st_root st) ppath false ((if st_is_array st then faf else ftf) k (st_current st))) as [[root' u]| |] eqn:E; try discriminate.
    injection Hf as <-. cbn [finalized st_root]. split; [reflexivity|].
    destruct (wta_ctx _ _ _ _ _ E) as (par & par' & Hfp & Hc).
    destruct (ctx_uk K _ _ _ _ _ Hc Hpp Hur) as [Hupar Hup']. pose proof Hupar as Hupar0. apply uk_eq in Hupar as (Hn & Him & Hs).
    destruct (st_is_array st) eqn:Ea.
    - (* an element of an array of tables *)
      unfold faf in Hfp. destruct (kv_get (t_items par) (k_key k)) as [[k0 it]|] eqn:G.
      + destruct it as [|v|sub|ts sp]; try discriminate. injection Hfp as <-.
        assert (Hfr : frame par (t_set_items par (kv_set (t_items par) (k_key k) (IAot (ts ++ [st_current st])
                        match ts ++ [st_current st] with first :: _ => union_span (t_span first) (t_span (st_current st)) | [] => None end))))
          by (apply frame_set_items, (vals_set _ _ _ _ _ G); reflexivity).
        split; [apply (ctx_frame _ _ _ _ _ Hc Hfr)|]. split.
        * apply Hup'. destruct (uks_get K _ _ _ _ Hs G) as [Hk0 Hts]. apply uki_aot in Hts.
          apply uk_set_items; [rewrite keys_set; exact Hn|apply (vals_set _ _ _ _ _ G); reflexivity|exact Hupar0|].
          apply (uks_set K _ _ _ _ _ Hs G); [exact Hk0|]. apply uki_aot. apply Forall_app. split; [exact Hts|constructor; [exact Huc|constructor]].
        * rewrite <- (app_nil_r (Proot root')). apply frame_Proot; [apply (ctx_frame _ _ _ _ _ Hc Hfr)|].
          apply (ctx_perm _ _ _ _ _ _ _ Hc Hfr). rewrite t_items_set. apply (PI_set _ _ _ _ _ _ _ G).
          rewrite !PIt_aot, flat_map_app. cbn [flat_map]. rewrite !app_nil_r. reflexivity.
      + injection Hfp as <-.
        assert (Hfr : frame par (t_set_items par (kv_push (t_items par) k (IAot [st_current st] (union_span (t_span (st_current st)) (t_span (st_current st)))))))
          by (apply frame_set_items, vals_push_tab; reflexivity).
        split; [apply (ctx_frame _ _ _ _ _ Hc Hfr)|]. split.
        * apply Hup'. apply uk_set_items; [apply nodup_push; assumption|apply vals_push_tab; reflexivity|exact Hupar0|].
          apply uks_push; [exact Hs|intros _; exact Hk|]. apply uki_aot. constructor; [exact Huc|constructor].
        * rewrite <- (app_nil_r (Proot root')). apply frame_Proot; [apply (ctx_frame _ _ _ _ _ Hc Hfr)|].
          apply (ctx_perm _ _ _ _ _ _ _ Hc Hfr). rewrite t_items_set. unfold kv_push. rewrite PI_app, app_nil_r.
          apply Permutation_app_head. change (PI [(k, IAot [st_current st] (union_span (t_span (st_current st)) (t_span (st_current st))))])
            with (PIt (IAot [st_current st] (union_span (t_span (st_current st)) (t_span (st_current st)))) ++ []).
          rewrite PIt_aot. cbn [flat_map]. rewrite !app_nil_r. reflexivity.
    - (* a table: its name is free in the parent *)
      destruct (Habs eq_refl) as (par0 & Hr & Hg). destruct (ctx_reach _ _ _ _ _ Hc) as [_ Hpar]. rewrite (Hpar par0 Hr) in Hg.
      unfold ftf in Hfp. rewrite Hg in Hfp. injection Hfp as <-.
      assert (Hfr : frame par (t_set_items par (kv_push (t_items par) k (ITable (st_current st)))))
        by (apply frame_set_items, vals_push_tab; reflexivity).
      split; [apply (ctx_frame _ _ _ _ _ Hc Hfr)|]. split.
      + apply Hup'. apply uk_set_items; [apply nodup_push; assumption|apply vals_push_tab; reflexivity|exact Hupar0|].
        apply uks_push; [exact Hs|intros _; exact Hk|exact Huc].
      + rewrite <- (app_nil_r (Proot root')). apply frame_Proot; [apply (ctx_frame _ _ _ _ _ Hc Hfr)|].
        apply (ctx_perm _ _ _ _ _ _ _ Hc Hfr). rewrite t_items_set. unfold kv_push. rewrite PI_app, app_nil_r.
        apply Permutation_app_head. change (PI [(k, ITable (st_current st))]) with (P (st_current st) false ++ []). rewrite app_nil_r. reflexivity.
  Qed.

  (* ---- start_table: the name is free afterwards; a super-table of that name gives its content to the new table ---- *)
  Lemma start_table_secs st path dec sp st' ppath k :
    start_table st path dec sp = COk st' -> pop_key path = Some (ppath, k) -> uk K (st_root st) -> Forall K ppath -> t_items (st_current st) = [] ->
    exists T0,
      st' = open_table st (st_root st') (Tbl T0 decor_default false false None None) path dec sp false
      /\ vals T0 = [] /\ uks K T0 /\ NoDup (map kk T0)
      /\ frame (st_root st) (st_root st') /\ uk K (st_root st')
      /\ Permutation (Proot (st_root st') ++ PI T0) (Proot (st_root st))
      /\ exists par, reach (st_root st') ppath = Some par /\ kv_get (t_items par) (k_key k) = None.
  Proof.
    intros H Ep Hur Hpp Hcur. unfold start_table in H. destruct (negb (tbl_is_empty (st_current st))); [discriminate|].
    destruct (st_path st); [|discriminate]. rewrite Ep in H.
    match type of H with match with_table_at _ _ _ ?f with _ => _ end = _ => set (F := f) in * end.
    destruct (with_table_at (st_root st) ppath false F) as [[root' taken_]| |] eqn:E; try discriminate. injection H as <-.
    destruct (wta_ctx _ _ _ _ _ E) as (par & par' & Hfp & Hc).
    destruct (ctx_uk K _ _ _ _ _ Hc Hpp Hur) as [Hupar Hup']. pose proof Hupar as Hupar0. apply uk_eq in Hupar as (Hn & Him & Hs).
    destruct (ctx_reach _ _ _ _ _ Hc) as [Hreach _]. unfold F in Hfp.
    destruct (kv_get (t_items par) (k_key k)) as [[k0 it]|] eqn:G.
    - destruct it as [|v|t|ts asp]; try discriminate. destruct (t_implicit t && negb (t_dotted t)) eqn:Et; [|discriminate].
      injection Hfp as <- <-. apply andb_true_iff in Et as [Eim Edt].
      destruct (uks_get K _ _ _ _ Hs G) as [_ Hut]. cbn [uki] in Hut. pose proof Hut as Hut0. apply uk_eq in Hut as (Hnt & Himt & Hst).
      destruct (nodup_remove _ _ _ _ Hn G) as [Hn' Hg'].
      assert (Hfr : frame par (t_set_items par (kv_remove (t_items par) (k_key k))))
        by (apply frame_set_items, (vals_remove_tab _ _ _ _ G); reflexivity).
      exists (t_items t). cbn [open_table st_root]. split; [destruct t; reflexivity|].
      split; [apply Himt, Eim|]. split; [exact Hst|]. split; [exact Hnt|]. split; [apply (ctx_frame _ _ _ _ _ Hc Hfr)|]. split.
      + apply Hup'. apply uk_set_items; [exact Hn'|apply (vals_remove_tab _ _ _ _ G); reflexivity|exact Hupar0|apply uks_remove, Hs].
      + split.
        * rewrite <- (app_nil_r (Proot (st_root st))). apply frame_Proot; [apply (ctx_frame _ _ _ _ _ Hc Hfr)|].
          apply (ctx_perm _ _ _ _ _ _ _ Hc Hfr). rewrite t_items_set, app_nil_r.
          destruct (kv_get_split _ _ _ _ G) as (A & B & EA & _ & _ & ER). rewrite ER, EA, !PI_app.
          change (PI ((k0, ITable t) :: B)) with (P t false ++ PI B). rewrite P_eq.
          assert (Hown : own t false = []).
          { unfold own. rewrite Eim. unfold no_vals. rewrite (Himt Eim). reflexivity. }
          rewrite Hown. cbn [app]. rewrite <- !app_assoc. apply Permutation_app_head, Permutation_app_comm.
        * exists (t_set_items par (kv_remove (t_items par) (k_key k))). split; [exact Hreach|]. rewrite t_items_set. exact Hg'.
    - injection Hfp as <- <-. exists []. cbn [st_root].
      split; [unfold open_table; rewrite Hcur; reflexivity|]. split; [reflexivity|]. split; [constructor|]. split; [constructor|].
      split; [apply (ctx_frame _ _ _ _ _ Hc (frame_refl par))|]. split; [apply Hup', Hupar0|]. split.
      + cbn [PI flat_map]. rewrite <- (app_nil_r (Proot (st_root st))).
        apply frame_Proot; [apply (ctx_frame _ _ _ _ _ Hc (frame_refl par))|]. apply (ctx_perm _ _ _ _ _ _ _ Hc (frame_refl par)). reflexivity.
      + exists par. split; [exact Hreach|exact G].
  Qed.

  (* ---- start_array_table --------------------------------------------------------------------------------------- *)
  Lemma start_array_secs st path dec sp st' ppath k :
    start_array_table st path dec sp = COk st' -> pop_key path = Some (ppath, k) -> uk K (st_root st) -> Forall K ppath -> K k ->
    st' = open_table st (st_root st') (st_current st) path dec sp true
    /\ frame (st_root st) (st_root st') /\ uk K (st_root st')
    /\ Permutation (Proot (st_root st')) (Proot (st_root st)).
  Proof.
    intros H Ep Hur Hpp Hk. unfold start_array_table in H. destruct (negb (tbl_is_empty (st_current st))); [discriminate|].
    destruct (st_path st); [|discriminate]. rewrite Ep in H.
    match type of H with match with_table_at _ _ _ ?f with _ => _ end = _ => set (F := f) in * end.
    destruct (with_table_at (st_root st) ppath false F) as [[root' u]| |] eqn:E; try discriminate. injection H as <-.
    destruct (wta_ctx _ _ _ _ _ E) as (par & par' & Hfp & Hc).
    destruct (ctx_uk K _ _ _ _ _ Hc Hpp Hur) as [Hupar Hup']. pose proof Hupar as Hupar0. apply uk_eq in Hupar as (Hn & Him & Hs).
    unfold F in Hfp. cbn [open_table st_root]. split; [reflexivity|].
    destruct (kv_get (t_items par) (k_key k)) as [[k0 it]|] eqn:G.
    - destruct it as [|v|t|ts asp]; try discriminate. injection Hfp as <-.
      split; [apply (ctx_frame _ _ _ _ _ Hc (frame_refl par))|]. split; [apply Hup', Hupar0|].
      rewrite <- (app_nil_r (Proot root')), <- (app_nil_r (Proot (st_root st))).
      apply frame_Proot; [apply (ctx_frame _ _ _ _ _ Hc (frame_refl par))|]. apply (ctx_perm _ _ _ _ _ _ _ Hc (frame_refl par)). reflexivity.
    - injection Hfp as <-.
      assert (Hfr : frame par (t_set_items par (kv_push (t_items par) k (IAot [] None)))) by (apply frame_set_items, vals_push_tab; reflexivity).
      split; [apply (ctx_frame _ _ _ _ _ Hc Hfr)|]. split.
      + apply Hup'. apply uk_set_items; [apply nodup_push; assumption|apply vals_push_tab; reflexivity|exact Hupar0|].
        apply uks_push; [exact Hs|intros _; exact Hk|]. apply uki_aot. constructor.
      + rewrite <- (app_nil_r (Proot root')), <- (app_nil_r (Proot (st_root st))).
        apply frame_Proot; [apply (ctx_frame _ _ _ _ _ Hc Hfr)|]. apply (ctx_perm _ _ _ _ _ _ _ Hc Hfr).
        rewrite t_items_set. unfold kv_push. rewrite PI_app. cbn [PI flat_map snd PIt app]. rewrite !app_nil_r. reflexivity.
  Qed.
End State.
