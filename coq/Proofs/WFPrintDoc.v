(* Proofs/WFPrintDoc.v — WF backbone: the sections Display writes, one after the other in the order of the walk
   (Model/Encode.v nested_tables), are a TOML text whose statements, as data, are the statements of the tree
   (Proofs/WFSemDoc.v body_stmts of Proofs/WFTree.v sb_tbl), every one of them valid and within the limits. *)
From TV Require Import Base.Prelude Base.Utf8 Base.Winnow Gen.Consts Spec.Abnf Spec.Lex Spec.Defs Spec.DatetimeSpec Spec.Syntax Spec.WF.
From TV Require Import Model.Datetime Model.Numbers Model.Tree Model.Parse Model.Write Model.Encode.
From TV Require Import Proofs.GrammarBase Proofs.SpansDefs Proofs.SpansBase.
From TV Require Import Proofs.WFSem Proofs.WFSemDoc Proofs.WFTok Proofs.WFPrintKey Proofs.WFPrintFlat Proofs.WFPrintValue
                       Proofs.WFTree Proofs.WFPrintLine.
Require Import Lia.

Local Notation section := (tbl * list key * bool)%type.

(* ---- what visit_table writes ------------------------------------------------------------------------------------------ *)
Definition no_lines (t : tbl) : bool := match tflat [] t with [] => true | _ => false end.
Definition hdr_printed (t : tbl) (path : list key) (arr : bool) : bool :=
  match path with [] => false | _ => arr || negb (t_implicit t && no_lines t) end.
Definition sec_text (t : tbl) (path : list key) (arr first : bool) : bytes :=
  (if hdr_printed t path arr then header_text path (t_decor t) arr first else [])
  ++ flat_map (fun pv => entry_text (fst pv) (snd pv)) (tflat [] t).

Lemma visit_table_text t path arr first : fst (visit_table t path arr first) = sec_text t path arr first.
Proof.
  unfold visit_table, sec_text, hdr_printed, no_lines, header_text, entry_text. rewrite section_lines_eq.
  assert (E : forall l : list (list key * value),
             flat_map (fun '(kp, v) => encode_key_path kp DEFAULT_KEY_DECOR ++ [x3d]
                                       ++ encode_value (S (value_size v)) v DEFAULT_VALUE_DECOR ++ [x0a]) l
             = flat_map (fun x => encode_key_path (fst x) DEFAULT_KEY_DECOR ++ [x3d]
                                  ++ encode_value (S (value_size (snd x))) (snd x) DEFAULT_VALUE_DECOR ++ [x0a]) l).
  { intro l. apply flat_map_ext. intros [kp v]. reflexivity. }
  rewrite E. clear E. generalize (tflat [] t). intro ch.
  destruct path as [|k0 path]; [destruct ch; reflexivity|].
  destruct arr; [reflexivity|].
  destruct (t_implicit t); destruct ch; reflexivity.
Qed.

(* the sections of a list, one after the other; the `first_table` flag is threaded *)
Fixpoint vts (l : list section) (first : bool) : bytes :=
  match l with
  | [] => []
  | (t, p, a) :: tl => fst (visit_table t p a first) ++ vts tl (snd (visit_table t p a first))
  end.
Fixpoint nfs (l : list section) (first : bool) : bool :=
  match l with
  | [] => first
  | (t, p, a) :: tl => nfs tl (snd (visit_table t p a first))
  end.
Lemma vts_app l1 l2 first : vts (l1 ++ l2) first = vts l1 first ++ vts l2 (nfs l1 first).
Proof.
  revert first. induction l1 as [|[[t p] a] l1 IH]; intro first; [reflexivity|]. cbn [app vts nfs]. rewrite IH, <- app_assoc. reflexivity.
Qed.
Lemma visit_tables_vts (l : list (N * section)) first : visit_tables l first = vts (map snd l) first.
Proof.
  revert first. induction l as [|[pos [[t p] a]] l IH]; intro first; [reflexivity|]. cbn [visit_tables map snd vts].
  destruct (visit_table t p a first) as [txt f'] eqn:E. cbn [fst snd]. rewrite IH. reflexivity.
Qed.

(* ---- derivations --------------------------------------------------------------------------------------------------------- *)
(* the sections L print, in front of any text that may follow a line break, as a text making statements whose data are G *)
Definition derives (L : list section) (G : list (stmt dval)) : Prop :=
  forall first rest l', tail_tok rest l' ->
    exists ls, tail_tok (vts L first ++ rest) (ls ++ l')
               /\ map stmt_den ls = G /\ forallb stmt_ok ls = true /\ within_limits ls = true.

Lemma derives_nil : derives [] [].
Proof. intros first rest l' H. exists []. repeat split; auto. Qed.
Lemma derives_app L1 L2 G1 G2 : derives L1 G1 -> derives L2 G2 -> derives (L1 ++ L2) (G1 ++ G2).
Proof.
  intros H1 H2 first rest l' Hrest. destruct (H2 (nfs L1 first) rest l' Hrest) as (ls2 & T2 & E2 & O2 & W2).
  destruct (H1 first _ _ T2) as (ls1 & T1 & E1 & O1 & W1). exists (ls1 ++ ls2).
  rewrite vts_app, <- !app_assoc. split; [exact T1|]. split; [rewrite map_app, E1, E2; reflexivity|].
  unfold within_limits in *. rewrite !forallb_app, O1, O2, W1, W2. auto.
Qed.
Lemma derives_flat {A} (f : A -> list section) (g : A -> list (stmt dval)) items :
  (forall x, In x items -> derives (f x) (g x)) -> derives (flat_map f items) (flat_map g items).
Proof.
  induction items as [|x items IH]; intro H; [apply derives_nil|]. cbn [flat_map]. apply derives_app; [apply H; left; reflexivity|].
  apply IH. intros y Hy. apply H. right. exact Hy.
Qed.

(* ---- the lines of a well-formed section are fit to print ----------------------------------------------------------- *)
Lemma iflat_item_line_lim : forall it parent k,
  line_lim (S (length parent)) it ->
  Forall (fun pv => match snd pv with VInline _ _ _ true _ _ => True
                                 | _ => length (fst pv) < LIMIT /\ value_lim 0 (snd pv) end)
         (iflat_item parent k it).
Proof.
  induction it as [it IH] using item_dotted_ind. intros parent k Hl. destruct it as [|v|t|ts sp]; try constructor.
  assert (Len : length (parent ++ [k]) = S (length parent)) by (rewrite app_length; cbn; lia).
  destruct v as [x r d0|vals tr c d0 sp|sub pre im dt d0 sp].
  - cbn [iflat_item]. constructor; [|constructor]. cbn [fst snd]. rewrite Len. exact Hl.
  - cbn [iflat_item]. constructor; [|constructor]. cbn [fst snd]. rewrite Len. exact Hl.
  - destruct dt.
    + cbn [iflat_item]. specialize (IH sub pre im d0 sp eq_refl). cbn [line_lim] in Hl.
      clear -IH Hl Len. induction sub as [|[k1 i1] sub IHs]; [constructor|]. cbn [flat_map fst snd].
      inversion IH as [|? ? H1 H2]; subst. cbn [all_P snd] in Hl. destruct Hl as [Hl1 Hl].
      apply Forall_app. split; [apply H1; rewrite Len; exact Hl1|apply IHs; assumption].
    + cbn [iflat_item]. constructor; [|constructor]. cbn [fst snd]. rewrite Len. exact Hl.
Qed.

Lemma value_line_ok parent k v :
  Forall (key_wf true) parent -> key_wf true k -> pair_wf true (IValue v) -> line_lim (S (length parent)) (IValue v) ->
  Forall (fun pv => line_ok (fst pv) (snd pv)) (iflat_item parent k (IValue v)).
Proof.
  intros Hp Hk Hw Hl.
  pose proof (iflat_item_forall true
                (fun p w => p <> [] /\ Forall (key_wf true) p /\ value_wf CLine w /\ match w with VInline _ _ _ true _ _ => False | _ => True end)
                (IValue v) parent k Hp Hk Hw) as A.
  cbv beta in A. specialize (A (fun p w H1 H2 H3 H4 => conj H1 (conj H2 (conj H3 H4)))).
  pose proof (iflat_item_line_lim (IValue v) parent k Hl) as B.
  rewrite Forall_forall in *. intros pv Hin. specialize (A pv Hin). specialize (B pv Hin). destruct A as (A1 & A2 & A3 & A4).
  unfold line_ok. destruct (snd pv) as [x r d0|vals tr c d0 sp|sub pre im dt d0 sp]; try (destruct B; auto).
  destruct dt; [contradiction|]. destruct B; auto.
Qed.

Lemma tbl_lim_items h n t :
  tbl_lim h n t ->
  forall k it, In (k, it) (t_items t) ->
    match it with
    | IValue _ => line_lim (S n) it
    | ITable sub => if t_dotted sub then tbl_lim (S h) (S n) sub else S h < LIMIT /\ tbl_lim (S h) 0 sub
    | IAot ts _ => S h < LIMIT /\ forall e, In e ts -> tbl_lim (S h) 0 e
    | INone => True
    end.
Proof.
  destruct t as [items d im dt p sp]. cbn [tbl_lim t_items]. intros Hall k it Hin. pose proof (all_P_In _ _ _ Hall Hin) as H. cbn [snd] in H.
  destruct it as [|v|sub|ts asp]; auto. destruct H as [H1 H2]. split; [exact H1|]. intros e He. exact (all_P_In _ _ _ H2 He).
Qed.

Lemma tflat_line_ok : forall t parent top h,
  tbl_wf top t -> tbl_lim h (length parent) t -> Forall (key_wf true) parent ->
  Forall (fun pv => line_ok (fst pv) (snd pv)) (tflat parent t).
Proof.
  induction t as [items d im dt p sp IH] using tbl_sub_ind. intros parent top h Hw Hl Hp.
  destruct (tbl_wf_items top _ Hw) as [_ Hit]. pose proof (tbl_lim_items _ _ _ Hl) as Hli. cbn [t_items] in *.
  rewrite tflat_eq. cbn [t_items]. apply Forall_forall. intros pv Hin. apply in_flat_map in Hin as ([k it] & Hin1 & Hin2). cbn [fst snd] in Hin2.
  destruct (Hit k it Hin1) as [Hk Hi]. specialize (Hli k it Hin1). rewrite Forall_forall in IH. specialize (IH _ Hin1). cbn [snd] in IH.
  destruct it as [|v|sub|ts asp]; cbn [tflat_item] in Hin2; try contradiction.
  - pose proof (value_line_ok parent k v Hp Hk Hi Hli) as F. rewrite Forall_forall in F. exact (F pv Hin2).
  - destruct Hi as [Hs _]. destruct (t_dotted sub); [|contradiction].
    assert (Len : length (parent ++ [k]) = S (length parent)) by (rewrite app_length; cbn; lia).
    assert (F : Forall (fun pv => line_ok (fst pv) (snd pv)) (tflat (parent ++ [k]) sub)).
    { apply (IH (parent ++ [k]) false (S h)); [exact Hs|rewrite Len; exact Hli|]. apply Forall_app. split; [exact Hp|]. constructor; [exact Hk|constructor]. }
    rewrite Forall_forall in F. exact (F pv Hin2).
Qed.

(* a table without lines of its own: `shown` is what visit_table tests *)
Lemma no_lines_has_line top t : tbl_wf top t -> no_lines t = negb (has_line t).
Proof.
  intro Hw. unfold no_lines. pose proof (tflat_lines t) as E. pose proof (has_line_dpart top t Hw) as [H1 H2].
  destruct (has_line t) eqn:Eh; cbn [negb].
  - assert (Hd : dpart dval (sb_tbl t) <> []) by (intro Hd; specialize (H2 Hd); discriminate).
    pose proof (dflat_nonempty dval _ Hd (proj2 (dpart_wf dval _ (tbl_swf t top Hw)))) as Hf.
    destruct (tflat [] t); [|reflexivity]. cbn [map] in E. congruence.
  - rewrite (H1 eq_refl) in E. cbn in E. apply map_eq_nil in E. rewrite E. reflexivity.
Qed.
Lemma hdr_printed_shown top t path arr : tbl_wf top t -> path <> [] -> hdr_printed t path arr = arr || shown t.
Proof. intros Hw Hp. unfold hdr_printed, shown. rewrite (no_lines_has_line top t Hw). destruct path; [congruence|reflexivity]. Qed.

(* ---- one section --------------------------------------------------------------------------------------------------------- *)
Definition own_hdr (t : tbl) (path : list key) (arr : bool) : list (stmt dval) :=
  if hdr_printed t path arr then [if arr then SArrHeader (ktexts path) else SHeader (ktexts path)] else [].

Lemma own_derives t path arr top :
  tbl_wf top t -> tbl_lim (length path) 0 t ->
  (path <> [] -> top = false /\ Forall (key_wf true) path /\ length path < LIMIT) ->
  derives [(t, path, arr)] (own_hdr t path arr ++ line_stmts dval (sb_tbl t)).
Proof.
  intros Hw Hl Hp first rest l' Hrest. cbn [vts]. rewrite app_nil_r, visit_table_text. unfold sec_text. rewrite <- app_assoc.
  destruct (entries_tail (tflat [] t) rest l' (tflat_line_ok t [] top (length path) Hw Hl (Forall_nil _)) Hrest) as (ls & T & E & O & W).
  assert (EL : map stmt_den ls = line_stmts dval (sb_tbl t)).
  { rewrite E. unfold line_stmts. rewrite <- tflat_lines, map_map. reflexivity. }
  unfold own_hdr. destruct (hdr_printed t path arr) eqn:Eh.
  - assert (Hne : path <> []) by (unfold hdr_printed in Eh; destruct path; [discriminate|discriminate]).
    destruct (Hp Hne) as (-> & Hks & Hlen).
    assert (Hd : decor_ok SLines SLineTrail (t_decor t)) by (destruct t; exact (proj1 Hw)).
    pose proof (header_tail path (t_decor t) arr first _ _ Hne Hks Hd Hlen T) as TH.
    exists ((if arr then SArrHeader (ktexts path) else SHeader (ktexts path)) :: ls). split; [exact TH|].
    split; [cbn [map app]; rewrite EL; destruct arr; reflexivity|]. unfold within_limits in *. cbn [forallb].
    rewrite O, W. unfold ktexts. apply Nat.ltb_lt in Hlen. destruct arr; cbn [stmt_ok stmt_within]; rewrite map_length, Hlen; auto.
  - exists ls. cbn [app]. auto.
Qed.

(* ---- all sections of a table ------------------------------------------------------------------------------------------------ *)
Definition stm (t : tbl) (path : list key) (arr : bool) : list (stmt dval) :=
  if t_dotted t then secs dval (ktexts path) (sb_tbl t)
  else own_hdr t path arr ++ body_stmts dval (ktexts path) (sb_tbl t).

Definition sub_sections (path : list key) (kv : key * item) : list section :=
  match snd kv with
  | ITable sub => sections sub (path ++ [fst kv]) false
  | IAot ts _ => flat_map (fun sub => sections sub (path ++ [fst kv]) true) ts
  | _ => []
  end.
Lemma sections_eq t path arr :
  sections t path arr = (if t_dotted t then [] else [(t, path, arr)]) ++ flat_map (sub_sections path) (t_items t).
Proof. destruct t; reflexivity. Qed.

Definition derives_tbl (t : tbl) : Prop :=
  forall path arr n, tbl_wf false t -> tbl_lim (length path) n t -> Forall (key_wf true) path -> path <> [] ->
                     (t_dotted t = false -> length path < LIMIT /\ tbl_lim (length path) 0 t) -> (arr = true -> t_dotted t = false) ->
                     derives (sections t path arr) (stm t path arr).

Lemma ktexts_snoc path k : ktexts (path ++ [k]) = ktexts path ++ [k_key k].
Proof. unfold ktexts. rewrite map_app. reflexivity. Qed.

(* the sub-sections of a table, given those of its sub-tables *)
Lemma subs_derive t top path h n :
  Forall (fun kv : key * item => match snd kv with ITable sub => derives_tbl sub | IAot ts _ => Forall derives_tbl ts | _ => True end) (t_items t) ->
  tbl_wf top t -> tbl_lim h n t -> h = length path -> Forall (key_wf true) path ->
  derives (flat_map (sub_sections path) (t_items t)) (secs dval (ktexts path) (sb_tbl t)).
Proof.
  intros IH Hw Hl -> Hp. rewrite secs_sb_tbl. destruct (tbl_wf_items top _ Hw) as [_ Hit]. pose proof (tbl_lim_items _ _ _ Hl) as Hli.
  apply derives_flat. intros [k it] Hin. rewrite Forall_forall in IH. specialize (IH _ Hin). cbn [snd fst] in *.
  destruct (Hit k it Hin) as [Hk Hi]. specialize (Hli k it Hin).
  assert (Len : length (path ++ [k]) = S (length path)) by (rewrite app_length; cbn; lia).
  assert (Hpk : Forall (key_wf true) (path ++ [k])) by (apply Forall_app; split; [exact Hp|constructor; [exact Hk|constructor]]).
  assert (Hne : path ++ [k] <> []) by (destruct path; discriminate).
  unfold sub_sections. cbn [snd fst]. rewrite <- ktexts_snoc. destruct it as [|v|sub|ts asp]; cbn [sn_item].
  - contradiction.
  - rewrite node_secs_sn_dn. apply derives_nil.
  - destruct Hi as [Hs Hf]. specialize (IH (path ++ [k]) false).
    destruct (t_dotted sub) eqn:Ed.
    + specialize (IH (S n) Hs). rewrite Len in IH. specialize (IH Hli Hpk Hne). unfold stm in IH. rewrite Ed in IH.
      destruct (has_line sub) eqn:Hln.
      * rewrite node_secs_SD. apply IH; [discriminate|discriminate].
      * (* no line left: the table is only mentioned by the headers below it *)
        assert (El : line_stmts dval (sb_tbl sub) = []) by (unfold line_stmts; rewrite (proj1 (has_line_dpart false sub Hs) Hln); reflexivity).
        rewrite node_secs_ST. unfold body_stmts. rewrite El. cbn [app]. apply IH; [discriminate|discriminate].
    + rewrite node_secs_ST. destruct Hli as [Hh Hls]. specialize (IH 0 Hs). rewrite Len in IH. specialize (IH Hls Hpk Hne).
      unfold stm in IH. rewrite Ed in IH. unfold own_hdr in IH. rewrite (hdr_printed_shown false sub _ false Hs Hne) in IH. cbn [orb] in IH.
      destruct (shown sub); cbn [negb]; apply IH; auto; discriminate.
  - destruct Hi as [_ Hts]. destruct Hli as [Hh Hls]. rewrite node_secs_SA.
    assert (E : flat_map (fun l => SArrHeader (ktexts (path ++ [k])) :: body_stmts dval (ktexts (path ++ [k])) l) (map sb_tbl ts)
                = flat_map (fun e => SArrHeader (ktexts (path ++ [k])) :: body_stmts dval (ktexts (path ++ [k])) (sb_tbl e)) ts).
    { clear. induction ts as [|e ts IHt]; [reflexivity|]. cbn [map flat_map]. rewrite IHt. reflexivity. }
    rewrite E. apply derives_flat. intros e He. rewrite Forall_forall in IH. specialize (IH e He (path ++ [k]) true 0).
    destruct (Hts e He) as [Ed Hwe]. rewrite Len in IH. specialize (IH Hwe (Hls e He) Hpk Hne).
    unfold stm in IH. rewrite Ed in IH. unfold own_hdr in IH. rewrite (hdr_printed_shown false e _ true Hwe Hne) in IH. cbn [orb app] in IH.
    apply IH; auto.
Qed.

Theorem tbl_derives : forall t, derives_tbl t.
Proof.
  induction t as [items d im dt p sp IH] using tbl_sub_ind. intros path arr n Hw Hl Hp Hne Hnd Harr.
  rewrite sections_eq. unfold stm. cbn [t_dotted t_items] in *.
  pose proof (subs_derive (Tbl items d im dt p sp) false path (length path) n IH Hw Hl eq_refl Hp) as Hsub. cbn [t_items] in Hsub.
  destruct dt.
  - cbn [app]. exact Hsub.
  - destruct (Hnd eq_refl) as [Hlen Hl0]. unfold body_stmts. rewrite app_assoc. apply derives_app; [|exact Hsub].
    apply (own_derives _ path arr false Hw Hl0). intros _. auto.
Qed.

(* the whole document *)
Theorem root_derives root :
  t_dotted root = false -> tbl_wf true root -> tbl_lim 0 0 root ->
  derives (sections root [] false) (body_stmts dval [] (sb_tbl root)).
Proof.
  intros Hd Hw Hl. rewrite sections_eq, Hd. unfold body_stmts.
  assert (IH : Forall (fun kv : key * item => match snd kv with ITable sub => derives_tbl sub | IAot ts _ => Forall derives_tbl ts | _ => True end) (t_items root)).
  { apply Forall_forall. intros [k it] _. cbn [snd]. destruct it; auto; [apply tbl_derives|]. apply Forall_forall. intros e _. apply tbl_derives. }
  pose proof (subs_derive root true [] 0 0 IH Hw Hl eq_refl (Forall_nil _)) as Hsub.
  apply (derives_app [(root, [], false)] _ (line_stmts dval (sb_tbl root))); [|exact Hsub].
  apply (own_derives root [] false true Hw Hl). intro H. congruence.
Qed.
