(* Proofs/PrintBackValue.v — C03 tiling for values (value.rs / array.rs / inline_table.rs): the
   reprs and decor recorded in a parsed value, printed by Model/Encode.v `encode_value` after
   despanning, give the consumed text with the CRs of its trivia removed (`vtext`), for values
   whose inline tables use plain (not dotted) keys. *)
From TV Require Import Base.Prelude Base.Utf8 Base.Winnow Gen.Consts Spec.Abnf Spec.Lex Spec.Defs Spec.Syntax.
From TV Require Import Model.Trivia Model.Strings Model.Datetime Model.Numbers Model.Tree Model.Parse Model.Document Model.Write Model.Encode.
From TV Require Import Proofs.ConstsOk Proofs.NoPanicBase Proofs.NoPanicLex Proofs.NoPanicValue Proofs.NumbersRT_Value.
From TV Require Import Proofs.LexEquivBase Proofs.LexEquivTrivia Proofs.LexEquivInt Proofs.LexEquivFloat
                       Proofs.LexEquivStrings Proofs.LexEquivString Proofs.LexEquivBool Proofs.LexEquivDatetime
                       Proofs.LexEquivKey Proofs.GrammarSep Proofs.GrammarBase Proofs.GrammarValueBase
                       Proofs.GrammarValueTok Proofs.GrammarValueSound
                       Proofs.TilingDefs Proofs.PrintBackBase Proofs.PrintBackEnc Proofs.PrintBackKey.
From TV Require Proofs.DefsEquivSim.
Require Import Lia ZifyBool ZifyN ZifyNat.

(* values whose inline tables were written with plain keys only, hereditarily: no inline table
   that exists because of a dotted key (implicit / dotted flags) *)
Fixpoint vplain (v : value) : bool :=
  match v with
  | VScalar _ _ _ => true
  | VArray vals _ _ _ _ =>
    (fix go (l : list item) : bool := match l with [] => true | it :: tl => iplain it && go tl end) vals
  | VInline items _ im dt _ _ =>
    negb im && negb dt &&
    (fix go (l : list (key * item)) : bool := match l with [] => true | (_, it) :: tl => iplain it && go tl end) items
  end
with iplain (it : item) : bool := match it with IValue v => vplain v | _ => false end.

Definition items_plain (m : kvs) : bool := forallb (fun kv => iplain (snd kv)) m.

Lemma vplain_array vals tr c d sp : vplain (VArray vals tr c d sp) = forallb iplain vals.
Proof. cbn [vplain]. induction vals as [|it tl IH]; [reflexivity|]. cbn [forallb]. rewrite <- IH. reflexivity. Qed.
Lemma vplain_inline items pre im dt d sp : vplain (VInline items pre im dt d sp) = negb im && negb dt && items_plain items.
Proof.
  cbn [vplain]. f_equal. unfold items_plain. induction items as [|[k it] tl IH]; [reflexivity|]. cbn [forallb snd]. rewrite <- IH. reflexivity.
Qed.
Lemma vplain_decorate v p q : vplain (value_decorate v p q) = vplain v.
Proof. destruct v; reflexivity. Qed.
Lemma vplain_apply_raw v sp : vplain (apply_raw v sp) = vplain v.
Proof. unfold apply_raw. rewrite vplain_decorate. destruct v; reflexivity. Qed.

Definition nonscalar (v : value) : Prop := match v with VScalar _ _ _ => False | _ => True end.
Definition undot (v : value) : bool := match v with VInline _ _ _ dt _ _ => negb dt | _ => true end.

Lemma vplain_undot v : vplain v = true -> undot v = true.
Proof.
  destruct v as [x r d|vals tr c d sp|items pre im dt d sp]; try reflexivity. rewrite vplain_inline. cbn [undot].
  intro H. apply andb_true_iff in H as [H _]. apply andb_true_iff in H as [_ H]. exact H.
Qed.

(* ---- tvalue: the nested maps ---------------------------------------------------------------------------- *)
Definition tkv (s : bytes) (kv : key * item) : key * item := (tkey s (fst kv), titem s (snd kv)).

Lemma tvalue_array s vals tr c d sp :
  tvalue s (VArray vals tr c d sp) = VArray (map (titem s) vals) (traw s tr) c (tdecor s d) None.
Proof.
  cbn [tvalue]. f_equal; try (induction vals as [|it tl IH]; [reflexivity|cbn [map]; rewrite <- IH; reflexivity]).
Qed.

Lemma tvalue_inline s items pre im dt d sp :
  tvalue s (VInline items pre im dt d sp) = VInline (map (tkv s) items) (traw s pre) im dt (tdecor s d) None.
Proof.
  cbn [tvalue]. f_equal; try (induction items as [|[k it] tl IH]; [reflexivity|cbn [map tkv fst snd]; rewrite <- IH; reflexivity]).
Qed.

Lemma tvalue_scalar s x r d : tvalue s (VScalar x r d) = VScalar x (toraw s r) (tdecor s d).
Proof. reflexivity. Qed.

Definition core (s : bytes) (v : value) : value := tvalue s (value_decorate v REmpty REmpty).

Lemma decorate_decorate v a b p q : value_decorate (value_decorate v a b) p q = value_decorate v p q.
Proof. destruct v; reflexivity. Qed.

Lemma raw_encode_empty dflt : raw_encode REmpty dflt = [].
Proof. reflexivity. Qed.

Lemma value_size_decorated s v p q : value_size (tvalue s (value_decorate v p q)) = value_size (core s v).
Proof.
  unfold core. destruct v as [x r d|vals tr c d sp|items pre im dt d sp]; cbn [value_decorate];
    rewrite ?tvalue_array, ?tvalue_inline; reflexivity.
Qed.

(* a decorated value prints its decor around its core *)
Lemma enc_decorated s v p q fuel dflt dflt' :
  encode_value (S fuel) (tvalue s (value_decorate v p q)) dflt =
  raw_encode (traw s p) (fst dflt) ++ encode_value (S fuel) (core s v) dflt' ++ raw_encode (traw s q) (snd dflt).
Proof.
  unfold core. destruct v as [x r d|vals tr c d sp|items pre im dt d sp]; cbn [value_decorate].
  - rewrite !tvalue_scalar, !enc_scalar. unfold decor_prefix, decor_suffix. cbn [tdecor decor_new d_prefix d_suffix toraw traw].
    rewrite !raw_encode_empty. cbn [app]. rewrite ?app_nil_r, <- ?app_assoc. reflexivity.
  - rewrite !tvalue_array, !enc_array. unfold decor_prefix, decor_suffix. cbn [tdecor decor_new d_prefix d_suffix toraw traw].
    rewrite !raw_encode_empty. cbn [app]. rewrite <- ?app_assoc. cbn [app]. rewrite ?app_nil_r. reflexivity.
  - rewrite !tvalue_inline, !enc_inline. cbv zeta. unfold decor_prefix, decor_suffix. cbn [tdecor decor_new d_prefix d_suffix toraw traw].
    rewrite !raw_encode_empty. cbn [app]. rewrite <- ?app_assoc. cbn [app]. rewrite ?app_nil_r. reflexivity.
Qed.

(* what is known of a parsed value: if it is plain, its core prints as o *)
Definition vrend (s : bytes) (v : value) (o : bytes) : Prop :=
  vplain v = true -> forall fuel dflt, value_size (core s v) < fuel -> encode_value fuel (core s v) dflt = o.

Definition vrender_at (s : bytes) (p : parser value) : Prop :=
  forall i v i', isrc s i -> p i = Ok v i' ->
    exists t a o, vtext t a o /\ splits i t i' /\ isrc s i' /\ vrend s v o.

(* a value with decor pre / suf recorded from the spans of the trivia w1 / w2 *)
Lemma vrend_decorated s v o i1 w1 j1 i2 w2 j2 :
  vrend s v o -> isrc s i1 -> splits i1 w1 j1 -> isrc s i2 -> splits i2 w2 j2 ->
  vplain v = true -> forall fuel dflt,
  value_size (tvalue s (value_decorate v (raw_with_span (pos i1, pos j1)) (raw_with_span (pos i2, pos j2)))) < fuel ->
  encode_value fuel (tvalue s (value_decorate v (raw_with_span (pos i1, pos j1)) (raw_with_span (pos i2, pos j2)))) dflt
  = ncr w1 ++ o ++ ncr w2.
Proof.
  intros Hv H1 S1 H2 S2 Hs fuel dflt Hf. destruct fuel as [|f]; [lia|].
  rewrite (enc_decorated s v _ _ f dflt ([], [])). rewrite (span_prints s i1 w1 j1 _ H1 S1), (span_prints s i2 w2 j2 _ H2 S2).
  rewrite value_size_decorated in Hf. rewrite (Hv Hs (S f) ([], []) Hf). reflexivity.
Qed.

Lemma item_size_in (l : list item) it : In it l -> item_size it <= fold_right (fun x acc => item_size x + acc) 0 l.
Proof. induction l as [|x l IH]; [intros []|]. intros [-> | H]; cbn [fold_right]; [lia|]. specialize (IH H). lia. Qed.

Lemma titem_value s v : titem s (IValue v) = IValue (tvalue s v).
Proof. reflexivity. Qed.

Lemma enc_elems_value f first e tl :
  enc_elems f first (IValue e :: tl) =
  ((if first then [] else [x2c]) ++ encode_value f e (if first then DEFAULT_LEADING_VALUE_DECOR else DEFAULT_VALUE_DECOR))
  ++ enc_elems f false tl.
Proof. reflexivity. Qed.

(* ---- inline tables whose pairs have plain keys --------------------------------------------------------- *)
Definition plain_pair (kv : key * value) : list key * (key * item) := ([], (fst kv, IValue (snd kv))).
Definition mk_item (kv : key * value) : key * item := (fst kv, IValue (snd kv)).

Lemma loop_d_plain : forall kvl m m',
  table_from_pairs_loop_d m (map plain_pair kvl) = COk m' -> m' = m ++ map mk_item kvl.
Proof.
  induction kvl as [|[k v] tl IH]; intros m m' H; cbn [map plain_pair table_from_pairs_loop_d fst snd] in H.
  - injection H as <-. rewrite app_nil_r. reflexivity.
  - destruct (check_depth _); [discriminate|]. cbn [inline_insert] in H. cbn [Bool.eqb] in H.
    destruct (kv_get m (k_key k)); [discriminate|]. apply IH in H. rewrite H. unfold kv_push. rewrite <- app_assoc. reflexivity.
Qed.

Lemma spans_pass_plain kvl m : inline_spans_pass m (map plain_pair kvl) = m.
Proof.
  unfold inline_spans_pass. revert m. induction kvl as [|[k v] tl IH]; intro m; [reflexivity|].
  cbn [map plain_pair fold_left fst snd inline_set_spans]. apply IH.
Qed.

Lemma undot_tvalue s v : undot (tvalue s v) = undot v.
Proof. destruct v as [x r d|vals tr c d sp|items pre im dt d sp]; rewrite ?tvalue_array, ?tvalue_inline; reflexivity. Qed.

Lemma inline_values_plain s f kvl : Forall (fun kv : key * value => undot (snd kv) = true) kvl ->
  inline_values (S f) [] (map (tkv s) (map mk_item kvl))
  = map (fun kv => ([tkey s (fst kv)], tvalue s (snd kv))) kvl.
Proof.
  induction 1 as [|[k v] tl Hu _ IH]; [reflexivity|]. cbn [snd] in Hu. cbn [map]. unfold mk_item at 1. cbn [fst snd].
  change (inline_values (S f) [] (tkv s (k, IValue v) :: map (tkv s) (map mk_item tl)))
    with ((let path := [] ++ [fst (tkv s (k, IValue v))] in
           match snd (tkv s (k, IValue v)) with
           | IValue (VInline sub _ _ true _ _) => inline_values f path sub
           | IValue v0 => [(path, v0)]
           | _ => []
           end) ++ inline_values (S f) [] (map (tkv s) (map mk_item tl))).
  rewrite IH. unfold tkv. cbn [fst snd app]. rewrite titem_value. rewrite <- (undot_tvalue s v) in Hu.
  destruct (tvalue s v) as [x r d|vals tr c d sp|items pre im dt d sp]; try reflexivity.
  cbn [undot] in Hu. destruct dt; [discriminate|reflexivity].
Qed.

Lemma kv_size_in (m : list (key * item)) k it : In (k, it) m ->
  item_size it <= fold_right (fun kv acc => match kv with (_, i0) => item_size i0 + acc end) 0 m.
Proof. induction m as [|[k0 x] m IH]; [intros []|]. intros [E | H]; cbn [fold_right]; [injection E as -> ->; lia|]. specialize (IH H). lia. Qed.

(* ---- a dotted key leaves an implicit inline table among the items: the result is not plain ---------------- *)
Definition ibad (it : item) : bool := match it with IValue (VInline _ _ true _ _ _) => true | _ => false end.
Definition has_bad (m : kvs) : bool := existsb (fun kv => ibad (snd kv)) m.

Lemma ibad_not_plain it : ibad it = true -> iplain it = false.
Proof.
  destruct it as [|v| |]; try discriminate. destruct v as [x r d|vals tr c d sp|items pre im dt d sp]; try discriminate.
  cbn [ibad iplain]. rewrite vplain_inline. destruct im; [reflexivity|discriminate].
Qed.

Lemma has_bad_not_plain m : has_bad m = true -> items_plain m = false.
Proof.
  unfold has_bad, items_plain. induction m as [|[k it] m IH]; [discriminate|]. cbn [existsb forallb snd]. intro H.
  apply orb_true_iff in H as [H | H]; [rewrite (ibad_not_plain it H); reflexivity|rewrite (IH H); apply andb_false_r].
Qed.

Lemma has_bad_push m k it : has_bad m = true \/ ibad it = true -> has_bad (kv_push m k it) = true.
Proof. unfold has_bad, kv_push. rewrite existsb_app. cbn [existsb snd]. intros [-> | ->]; [reflexivity|]. cbn [orb]. apply orb_true_r. Qed.

Lemma has_bad_set m k k' it0 it : kv_get m k = Some (k', it0) -> ibad it = true -> has_bad (kv_set m k it) = true.
Proof.
  unfold has_bad. induction m as [|[k1 v1] m IH]; cbn [kv_get kv_set]; [discriminate|].
  destruct (bytes_eqb (k_key k1) k); intros E Hb; cbn [existsb snd]; [rewrite Hb; reflexivity|].
  rewrite (IH E Hb). apply orb_true_r.
Qed.

Lemma kv_set_same_bad m k k' it0 it : kv_get m k = Some (k', it0) -> ibad it = ibad it0 -> has_bad (kv_set m k it) = has_bad m.
Proof.
  unfold has_bad. induction m as [|[k1 v1] m IH]; cbn [kv_get kv_set]; [discriminate|].
  destruct (bytes_eqb (k_key k1) k); intros E Hb; cbn [existsb snd].
  - injection E as _ <-. rewrite Hb. reflexivity.
  - rewrite (IH E Hb). reflexivity.
Qed.

Lemma inline_insert_bad m dh path pe k v m' :
  inline_insert m dh path pe k v = COk m' -> has_bad m = true \/ path <> [] -> has_bad m' = true.
Proof.
  destruct path as [|pk ptl]; cbn [inline_insert].
  - destruct (Bool.eqb dh pe); [discriminate|]. destruct (kv_get m (k_key k)); [discriminate|].
    intros E [Hb | Hn]; [|congruence]. injection E as <-. apply has_bad_push. left. exact Hb.
  - intros E _. destruct (kv_get m (k_key pk)) as [[k' it]|] eqn:G.
    + destruct it as [|val| |]; try discriminate. destruct val as [x r d|vals tr c d sp|sub pre imp dt dec sp]; try discriminate.
      destruct imp; cbn [negb] in E; [|discriminate].
      destruct (inline_insert sub dt ptl pe k v) as [sub'| |]; try discriminate. injection E as <-.
      apply (has_bad_set m _ _ _ _ G). reflexivity.
    + destruct (inline_insert [] true ptl pe k v) as [sub'| |]; try discriminate. injection E as <-.
      apply has_bad_push. right. reflexivity.
Qed.

Lemma loop_d_bad : forall pairs m m', table_from_pairs_loop_d m pairs = COk m' ->
  has_bad m = true \/ Exists (fun x => fst x <> []) pairs -> has_bad m' = true.
Proof.
  induction pairs as [|[path [k v]] tl IH]; intros m m' H Hb; cbn [table_from_pairs_loop_d] in H.
  - injection H as <-. destruct Hb as [Hb | Hb]; [exact Hb|inversion Hb].
  - destruct (check_depth _); [discriminate|].
    destruct (inline_insert m false path _ k v) as [m1| |] eqn:E; try discriminate.
    apply (IH m1 m' H). destruct Hb as [Hb | Hb].
    + left. apply (inline_insert_bad _ _ _ _ _ _ _ E). left. exact Hb.
    + inversion Hb as [? ? Hx|? ? Hx]; subst; [left; apply (inline_insert_bad _ _ _ _ _ _ _ E); right; exact Hx|right; exact Hx].
Qed.

Lemma set_spans_bad : forall path m e, has_bad (inline_set_spans m path e) = has_bad m.
Proof.
  induction path as [|k ptl IH]; intros m e; cbn [inline_set_spans]; [reflexivity|].
  destruct (kv_get m (k_key k)) as [[k' it]|] eqn:G; [|reflexivity].
  destruct it as [|val| |]; try reflexivity. destruct val as [x r d|vals tr c d sp|sub pre imp dt dec sp]; try reflexivity.
  apply (kv_set_same_bad m _ _ _ _ G). reflexivity.
Qed.

Lemma spans_pass_bad : forall pairs m, has_bad (inline_spans_pass m pairs) = has_bad m.
Proof.
  unfold inline_spans_pass. induction pairs as [|[path [k v]] tl IH]; intro m; cbn [fold_left]; [reflexivity|].
  rewrite IH. apply set_spans_bad.
Qed.

(* a plain inline table was built from pairs with plain keys *)
Lemma plain_pairs pairs m : table_from_pairs_loop_d [] pairs = COk m ->
  items_plain (inline_spans_pass m pairs) = true -> Forall (fun x => fst x = []) pairs.
Proof.
  intros H Hp. apply Forall_forall. intros x Hin. destruct (fst x) as [|pk ptl] eqn:E; [reflexivity|]. exfalso.
  assert (Hb : has_bad m = true).
  { apply (loop_d_bad pairs [] m H). right. apply Exists_exists. exists x. split; [exact Hin|]. rewrite E. discriminate. }
  rewrite <- (spans_pass_bad pairs m) in Hb. rewrite (has_bad_not_plain _ Hb) in Hp. discriminate.
Qed.

Section Render.
  Variable s : bytes.
  Variable vr : parser value.
  Hypothesis Hvr : vrender_at s vr.
  Hypothesis Hmono : mono vr.

  (* ---- arrays ---------------------------------------------------------------------------------------- *)
  (* an element as printed: trivia, value, trivia *)
  Definition irend (it : item) (oi : bytes) : Prop :=
    exists v, it = IValue v /\
      (vplain v = true -> forall fuel dflt, value_size (tvalue s v) < fuel -> encode_value fuel (tvalue s v) dflt = oi).

  Lemma array_value_render i it i1 : isrc s i -> array_value vr i = Ok it i1 ->
    exists w1 t a o w2, wscn_tok w1 /\ vtext t a o /\ wscn_tok w2 /\ splits i (w1 ++ t ++ w2) i1 /\ isrc s i1
                        /\ irend it (ncr w1 ++ o ++ ncr w2).
  Proof.
    unfold array_value. intros Hi H.
    apply bind_inv in H as (pre & j1 & H1 & H). pose proof H1 as H1'. apply span_inv in H1' as (u1 & _ & Epre).
    apply span_wscn_inv in H1 as (w1 & Hw1 & S1). destruct (isrc_splits s i w1 j1 Hi S1) as [Hj1 _].
    apply bind_inv in H as (v & j2 & H2 & H). destruct (Hvr j1 v j2 Hj1 H2) as (t & a & o & Ht & S2 & Hj2 & Hv).
    apply bind_inv in H as (suf & j3 & H3 & H). pose proof H3 as H3'. apply span_inv in H3' as (u3 & _ & Esuf).
    apply span_wscn_inv in H3 as (w2 & Hw2 & S3). destruct (isrc_splits s j2 w2 j3 Hj2 S3) as [Hj3 _].
    apply ret_inv in H as [-> ->]. exists w1, t, a, o, w2. repeat (split; [assumption|]).
    split; [exact (splits_trans _ _ _ _ _ S1 (splits_trans _ _ _ _ _ S2 S3))|]. split; [exact Hj3|].
    eexists. split; [reflexivity|]. subst pre suf. rewrite vplain_decorate. intros Hs fuel dflt Hf.
    apply (vrend_decorated s v o i w1 j1 j2 w2 j3 Hv Hi S1 Hj2 S3 Hs fuel dflt Hf).
  Qed.

  Lemma mono_shrinking {A} (p : parser A) : mono p -> shrinking p.
  Proof. intros Hp i a i' H. apply (ext_len _ _ _ (Hp _ _ _ H)). Qed.

  Lemma array_seps_render i1 items i2 : isrc s i1 -> seps (array_value vr) (byte_ ARRAY_SEP) i1 items i2 ->
    forall w1 t a o w2 c, wscn_tok w1 -> vtext t a o -> wscn_tok w2 -> (c = [] \/ c = [x2c]) ->
    exists u l ou, avtext (w1 ++ t ++ w2 ++ u ++ c) (a :: l) (ncr w1 ++ o ++ ncr w2 ++ ou ++ c)
                   /\ splits i1 u i2 /\ isrc s i2
                   /\ (forallb iplain items = true -> forall f,
                         (forall it, In it items -> item_size (titem s it) <= f) ->
                         enc_elems f false (map (titem s) items) = ou).
  Proof.
    intros Hi R. induction R as [i F|i x j E Hlt F|i x j it j2 items i3 E Hlt E2 Hle R IH]; intros w1 t a o w2 c Hw1 Ht Hw2 Hc.
    - exists [], [], []. split; [apply avt_last; assumption|]. split; [apply splits_nil|]. split; [exact Hi|]. intros; reflexivity.
    - exists [], [], []. split; [apply avt_last; assumption|]. split; [apply splits_nil|]. split; [exact Hi|]. intros; reflexivity.
    - apply byte_inv in E as [_ S1]. destruct (isrc_splits s i [x2c] j Hi S1) as [Hj _].
      destruct (array_value_render j it j2 Hj E2) as (w1' & t' & a' & o' & w2' & Hw1' & Ht' & Hw2' & S2 & Hj2 & (v' & Eit & Hit)).
      destruct (IH Hj2 w1' t' a' o' w2' c Hw1' Ht' Hw2' Hc) as (u & l & ou & Hav & S3 & Hi3 & Henc).
      exists ([x2c] ++ (w1' ++ t' ++ w2') ++ u), (a' :: l), ([x2c] ++ (ncr w1' ++ o' ++ ncr w2') ++ ou).
      split; [|split; [exact (splits_trans _ _ _ _ _ (splits_trans _ _ _ _ _ S1 S2) S3)|split; [exact Hi3|]]].
      + replace (w1 ++ t ++ w2 ++ ([x2c] ++ (w1' ++ t' ++ w2') ++ u) ++ c)
          with (w1 ++ t ++ w2 ++ [x2c] ++ (w1' ++ t' ++ w2' ++ u ++ c)) by (rewrite <- !app_assoc; reflexivity).
        replace (ncr w1 ++ o ++ ncr w2 ++ ([x2c] ++ (ncr w1' ++ o' ++ ncr w2') ++ ou) ++ c)
          with (ncr w1 ++ o ++ ncr w2 ++ [x2c] ++ (ncr w1' ++ o' ++ ncr w2' ++ ou ++ c)) by (rewrite <- !app_assoc; reflexivity).
        apply avt_more; assumption.
      + cbn [forallb]. intros Hs f Hsz. apply andb_true_iff in Hs as [Hs1 Hs2]. subst it. cbn [iplain] in Hs1. cbn [map]. rewrite titem_value, enc_elems_value. cbv iota.
        rewrite (Hit Hs1 f DEFAULT_VALUE_DECOR).
        * rewrite (Henc Hs2 f); [rewrite <- !app_assoc; reflexivity|]. intros it0 Hin. apply Hsz. right. exact Hin.
        * specialize (Hsz (IValue v') (or_introl eq_refl)). rewrite titem_value in Hsz. cbn [item_size] in Hsz. lia.
  Qed.

  Lemma array_values_render i v i' : isrc s i -> array_values vr i = Ok v i' ->
    exists body l ob items tr c dec sp,
      v = VArray items tr c dec sp /\ splits i body i' /\ isrc s i'
      /\ vtext ([x5b] ++ body ++ [x5d]) (AArr l) ([x5b] ++ ob ++ [x5d])
      /\ (forallb iplain items = true -> forall f, (forall it, In it items -> item_size (titem s it) <= f) ->
           enc_elems f true (map (titem s) items)
           ++ (if c && negb (match items with [] => true | _ => false end) then [x2c] else []) ++ raw_encode (traw s tr) [] = ob).
  Proof.
    unfold array_values. intros Hi H. apply bind_inv in H as (c & j & H1 & H). apply peek_inv in H1 as [-> _].
    destruct c as [x|].
    - apply ret_inv in H as [-> ->]. exists [], [], [], [], REmpty, false, decor_default, None.
      split; [reflexivity|]. split; [apply splits_nil|]. split; [exact Hi|]. split; [apply (vt_array_empty [] wscn_nil)|]. intros; reflexivity.
    - apply bind_inv in H as (vals & j1 & H1 & H).
      apply bind_inv in H as (comma & j2 & H2 & H). apply bind_inv in H as (tr & j3 & H3 & H).
      pose proof H3 as H3'. apply span_inv in H3' as (u3 & _ & Etr).
      apply span_wscn_inv in H3 as (w & Hw & S3). apply ret_inv in H as [-> ->].
      apply (separated0_inv _ _ _ _ _ (mono_shrinking _ (array_value_mono vr Hmono)) (byte_shrinking _)) in H1
        as [(-> & -> & _) | (it & i1 & items & -> & E & R)].
      + apply ret_inv in H2 as [-> ->]. destruct (isrc_splits s i w j3 Hi S3) as [Hj3 _].
        exists w, [], (ncr w), [], (raw_with_span tr), false, decor_default, None.
        split; [reflexivity|]. split; [exact S3|]. split; [exact Hj3|]. split; [apply (vt_array_empty w Hw)|].
        intros _ f _. cbn [map enc_elems andb app]. subst tr. apply (span_prints s i w j3 [] Hi S3).
      + apply pmap_inv in H2 as (o & H2 & Ecomma).
        destruct (array_value_render i it i1 Hi E) as (w1 & t & a & ov & w2 & Hw1 & Ht & Hw2 & S1 & Hi1 & (v0 & Eit & Hit)).
        assert (Hc : exists c, (c = [] \/ c = [x2c]) /\ splits j1 c j2 /\ c = (if comma then [x2c] else [])).
        { apply opt_inv in H2 as [(x & -> & H2) | (-> & -> & _)].
          - apply byte_inv in H2 as [_ S]. exists [x2c]. subst comma. auto.
          - exists []. subst comma. split; [auto|]. split; [apply splits_nil|reflexivity]. }
        destruct Hc as (c & Hc & S2 & Ec).
        destruct (array_seps_render i1 items j1 Hi1 R w1 t a ov w2 c Hw1 Ht Hw2 Hc) as (u & l & ou & Hav & Su & Hj1 & Henc).
        destruct (isrc_splits s j1 c j2 Hj1 S2) as [Hj2 _]. destruct (isrc_splits s j2 w j3 Hj2 S3) as [Hj3 _].
        exists (((w1 ++ t ++ w2) ++ u ++ c) ++ w), (a :: l), ((ncr w1 ++ ov ++ ncr w2 ++ ou ++ c) ++ ncr w),
               (it :: items), (raw_with_span tr), comma, decor_default, None.
        split; [reflexivity|]. split; [exact (splits_trans _ _ _ _ _ (splits_trans _ _ _ _ _ S1 (splits_trans _ _ _ _ _ Su S2)) S3)|].
        split; [exact Hj3|]. split.
        * replace ([x5b] ++ (((w1 ++ t ++ w2) ++ u ++ c) ++ w) ++ [x5d])
            with ([x5b] ++ (w1 ++ t ++ w2 ++ u ++ c) ++ w ++ [x5d]) by (rewrite <- !app_assoc; reflexivity).
          replace ([x5b] ++ ((ncr w1 ++ ov ++ ncr w2 ++ ou ++ c) ++ ncr w) ++ [x5d])
            with ([x5b] ++ (ncr w1 ++ ov ++ ncr w2 ++ ou ++ c) ++ ncr w ++ [x5d]) by (rewrite <- !app_assoc; reflexivity).
          apply vt_array; assumption.
        * cbn [forallb]. intros Hs f Hsz. apply andb_true_iff in Hs as [Hs1 Hs2]. subst it. cbn [iplain] in Hs1. cbn [map]. rewrite titem_value, enc_elems_value. cbv iota. cbn [app].
          rewrite (Hit Hs1 f DEFAULT_LEADING_VALUE_DECOR).
          -- rewrite (Henc Hs2 f); [|intros it0 Hin; apply Hsz; right; exact Hin].
             subst tr. rewrite (span_prints s j2 w j3 [] Hj2 S3). rewrite andb_true_r, <- Ec. rewrite <- !app_assoc. reflexivity.
          -- specialize (Hsz (IValue v0) (or_introl eq_refl)). rewrite titem_value in Hsz. cbn [item_size] in Hsz. lia.
  Qed.

  Lemma array_render i v i' : isrc s i -> array vr i = Ok v i' ->
    exists t l o, vtext t (AArr l) o /\ splits i t i' /\ isrc s i' /\ vrend s v o /\ nonscalar v.
  Proof.
    unfold array. intros Hi H. apply bind_inv in H as (x & j1 & H1 & H). apply byte_inv in H1 as [_ S1].
    destruct (isrc_splits s i [x5b] j1 Hi S1) as [Hj1 _].
    apply bind_inv in H as (a & j2 & H2 & H). apply cut_err_inv in H2.
    destruct (array_values_render j1 a j2 Hj1 H2) as (body & l & ob & items & tr & c & dec & sp & -> & S2 & Hj2 & Hv & Henc).
    apply bind_inv in H as (y & j3 & H3 & H). apply context_inv, cut_err_inv, byte_inv in H3 as [_ S3].
    destruct (isrc_splits s j2 [x5d] j3 Hj2 S3) as [Hj3 _]. apply ret_inv in H as [-> ->].
    exists ([x5b] ++ body ++ [x5d]), l, ([x5b] ++ ob ++ [x5d]). split; [exact Hv|].
    split; [exact (splits_trans _ _ _ _ _ S1 (splits_trans _ _ _ _ _ S2 S3))|]. split; [exact Hj3|]. split; [|exact I].
    unfold vrend. rewrite vplain_array. intros Hs fuel dflt Hf. unfold core in *. cbn [value_decorate] in *. rewrite tvalue_array in *.
    destruct fuel as [|f]; [lia|]. rewrite enc_array. unfold decor_prefix, decor_suffix. cbn [tdecor decor_new d_prefix d_suffix toraw traw].
    rewrite !raw_encode_empty. cbn [app]. rewrite ?app_nil_r.
    assert (Hsz : forall it, In it items -> item_size (titem s it) <= f).
    { intros it Hin. cbn [value_size] in Hf. pose proof (item_size_in (map (titem s) items) (titem s it) (in_map _ _ _ Hin)). lia. }
    specialize (Henc Hs f Hsz).
    replace (match map (titem s) items with [] => true | _ :: _ => false end) with (match items with [] => true | _ :: _ => false end)
      by (destruct items; reflexivity).
    rewrite <- Henc. rewrite <- !app_assoc. reflexivity.
  Qed.

  (* ---- inline tables -------------------------------------------------------------------------------- *)
  (* a pair as printed when its key is plain: blanks key blanks = blanks value blanks *)
  Definition prend (x : list key * (key * item)) (w0 body : bytes) : Prop :=
    exists v, snd (snd x) = IValue v /\
      (fst x = [] -> vplain v = true -> forall f dflt D z, value_size (tvalue s v) < f ->
        encode_key_path [tkey s (fst (snd x))] D ++ [x3d] ++ encode_value f (tvalue s v) dflt ++ z = w0 ++ body ++ z).

  Lemma inline_keyval_render i x i1 : isrc s i -> inline_keyval vr i = Ok x i1 ->
    exists w0 kt p w1 w2 t a o w3,
      ws_tok w0 /\ key_tok kt p /\ ws_tok w1 /\ ws_tok w2 /\ vtext t a o /\ ws_tok w3
      /\ splits i (w0 ++ (kt ++ w1 ++ [x3d] ++ w2 ++ t) ++ w3) i1 /\ isrc s i1
      /\ prend x w0 ((kt ++ w1 ++ [x3d] ++ w2 ++ o) ++ w3) /\ stops wschar (rest i1).
  Proof.
    rewrite inline_keyval_eq. intros Hi H. apply bind_inv in H as (kp & j1 & H1 & H).
    destruct (key_render s i kp j1 Hi H1) as (w0 & kt & w1 & Hw0 & Hkt & Hw1 & S1 & Hj1 & Hkenc).
    apply bind_inv in H as ([[pre v] suf] & j2 & H2 & H). unfold inline_kv_rhs in H2.
    apply cut_err_inv in H2. apply bind_inv in H2 as (y & k1 & E1 & H2). apply context_inv, byte_inv in E1 as [_ Se].
    destruct (isrc_splits s j1 [x3d] k1 Hj1 Se) as [Hk1 _].
    apply bind_inv in H2 as (pre' & k2 & E2 & H2). pose proof E2 as E2'. apply span_inv in E2' as (u2 & _ & Epre).
    apply span_ws_inv in E2 as (w2 & Hw2 & S2 & _). destruct (isrc_splits s k1 w2 k2 Hk1 S2) as [Hk2 _].
    apply bind_inv in H2 as (v' & k3 & E3 & H2). destruct (Hvr k2 v' k3 Hk2 E3) as (t & a & o & Ht & S3 & Hk3 & Hv).
    apply bind_inv in H2 as (suf' & k4 & E4 & H2). pose proof E4 as E4'. apply span_inv in E4' as (u4 & _ & Esuf).
    apply span_ws_inv in E4 as (w3 & Hw3 & S4 & Hst). destruct (isrc_splits s k3 w3 k4 Hk3 S4) as [Hk4 _].
    apply ret_inv in H2 as [E ->]. injection E as -> -> ->.
    destruct (pop_key kp) as [[path k]|] eqn:Ep; [|discriminate]. apply ret_inv in H as [-> ->].
    exists w0, kt, (map k_key kp), w1, w2, t, a, o, w3. repeat (split; [assumption|]). split; [|split; [exact Hk4|split; [|exact Hst]]].
    - pose proof (splits_trans _ _ _ _ _ S1 (splits_trans _ _ _ _ _ Se (splits_trans _ _ _ _ _ S2 (splits_trans _ _ _ _ _ S3 S4)))) as S.
      rewrite <- !app_assoc in *. exact S.
    - unfold prend. cbn [fst snd]. eexists. split; [reflexivity|]. intros -> Hs f dflt D z Hf. rewrite vplain_decorate in Hs.
      assert (Ekp : kp = [k]) by (apply (DefsEquivSim.pop_key_some _ _ _ Ep)). subst kp. subst pre' suf'.
      rewrite (vrend_decorated s v' o k1 w2 k2 k3 w3 k4 Hv Hk1 S2 Hk3 S4 Hs f dflt Hf).
      cbn [map] in Hkenc. rewrite (Hkenc D). rewrite (ncr_ws w2 Hw2), (ncr_ws w3 Hw3). rewrite <- !app_assoc. reflexivity.
  Qed.

  Lemma inline_seps_render i1 prs i2 : isrc s i1 -> seps (inline_keyval vr) (byte_ INLINE_TABLE_SEP) i1 prs i2 ->
    stops wschar (rest i1) ->
    forall kt p w1 w2 t a o w3, key_tok kt p -> ws_tok w1 -> ws_tok w2 -> vtext t a o -> ws_tok w3 ->
    exists u l ou wl x,
      splits i1 x i2 /\ isrc s i2 /\ stops wschar (rest i2) /\ w3 ++ x = u ++ wl /\ ws_tok wl
      /\ iktext (kt ++ w1 ++ [x3d] ++ w2 ++ t ++ u) ((p, a) :: l) (kt ++ w1 ++ [x3d] ++ w2 ++ o ++ ou)
      /\ exists rows : list (bytes * bytes),
           Forall2 (fun x r => prend x (fst r) (snd r)) prs rows
           /\ w3 ++ flat_map (fun r => [x2c] ++ fst r ++ snd r) rows = ou ++ wl.
  Proof.
    intros Hi R. induction R as [i F|i x j E Hlt F|i x j pr j2 prs i3 E Hlt E2 Hle R IH]; intros Hst0 kt p w1 w2 t a o w3 Hkt Hw1 Hw2 Ht Hw3.
    - exists [], [], [], w3, []. split; [apply splits_nil|]. split; [exact Hi|]. split; [exact Hst0|]. split; [rewrite !app_nil_r; reflexivity|]. split; [exact Hw3|].
      split; [rewrite !app_nil_r; apply ikt_last; assumption|]. exists []. split; [constructor|]. cbn [flat_map]. rewrite app_nil_r. reflexivity.
    - exists [], [], [], w3, []. split; [apply splits_nil|]. split; [exact Hi|]. split; [exact Hst0|]. split; [rewrite !app_nil_r; reflexivity|]. split; [exact Hw3|].
      split; [rewrite !app_nil_r; apply ikt_last; assumption|]. exists []. split; [constructor|]. cbn [flat_map]. rewrite app_nil_r. reflexivity.
    - apply byte_inv in E as [_ S1]. destruct (isrc_splits s i [x2c] j Hi S1) as [Hj _].
      destruct (inline_keyval_render j pr j2 Hj E2)
        as (w0' & kt' & p' & w1' & w2' & t' & a' & o' & w3' & Hw0' & Hkt' & Hw1' & Hw2' & Ht' & Hw3' & S2 & Hj2 & Hpr & Hst2).
      destruct (IH Hj2 Hst2 kt' p' w1' w2' t' a' o' w3' Hkt' Hw1' Hw2' Ht' Hw3') as (u & l & ou & wl & x' & Sx & Hi3 & Hst3 & Ex & Hwl & Hkv & rows & HF & Erows).
      exists (w3 ++ [x2c] ++ w0' ++ (kt' ++ w1' ++ [x3d] ++ w2' ++ t' ++ u)), ((p', a') :: l),
             (w3 ++ [x2c] ++ w0' ++ (kt' ++ w1' ++ [x3d] ++ w2' ++ o' ++ ou)), wl,
             (([x2c] ++ w0' ++ (kt' ++ w1' ++ [x3d] ++ w2' ++ t') ++ w3') ++ x').
      split; [exact (splits_trans _ _ _ _ _ (splits_trans _ _ _ _ _ S1 S2) Sx)|]. split; [exact Hi3|]. split; [exact Hst3|].
      split; [rewrite <- !app_assoc; rewrite Ex; reflexivity|]. split; [exact Hwl|]. split.
      + replace (kt ++ w1 ++ [x3d] ++ w2 ++ t ++ w3 ++ [x2c] ++ w0' ++ kt' ++ w1' ++ [x3d] ++ w2' ++ t' ++ u)
          with (kt ++ w1 ++ [x3d] ++ w2 ++ t ++ w3 ++ [x2c] ++ w0' ++ (kt' ++ w1' ++ [x3d] ++ w2' ++ t' ++ u)) by reflexivity.
        apply ikt_more; assumption.
      + exists ((w0', (kt' ++ w1' ++ [x3d] ++ w2' ++ o') ++ w3') :: rows). split; [constructor; [exact Hpr|exact HF]|].
        cbn [flat_map fst snd]. rewrite <- !app_assoc. do 8 f_equal. exact Erows.
  Qed.

  (* rows printed behind the first pair *)
  Lemma enc_kvs_rows f len : forall (prs : list (list key * (key * item))) rows kvl i,
    Forall2 (fun x r => prend x (fst r) (snd r)) prs rows ->
    prs = map plain_pair kvl -> Forall (fun kv : key * value => vplain (snd kv) = true) kvl ->
    (forall kv, In kv kvl -> value_size (tvalue s (snd kv)) < f) ->
    enc_kvs f len (S i) (map (fun kv => ([tkey s (fst kv)], tvalue s (snd kv))) kvl)
    = flat_map (fun r => [x2c] ++ fst r ++ snd r) rows.
  Proof.
    induction prs as [|x prs IH]; intros rows kvl i HF Ekv Hpl Hsz.
    - destruct kvl; [|discriminate]. inversion HF. reflexivity.
    - destruct kvl as [|[k v] kvl]; [discriminate|]. cbn [map plain_pair] in Ekv. injection Ekv as -> ->.
      inversion HF as [|xr r ? rows' Hp HF']; subst. inversion Hpl as [|? ? Hv Hpl']; subst. cbn [snd] in Hv.
      destruct Hp as (v0 & Ev & Henc). cbn [fst snd plain_pair] in Ev, Henc. injection Ev as <-.
      cbn [map enc_kvs fst snd]. cbn [Nat.eqb].
      rewrite (Henc eq_refl Hv f _ DEFAULT_INLINE_KEY_DECOR _ (Hsz (k, v) (or_introl eq_refl))).
      rewrite (IH rows' kvl (S i) HF' eq_refl Hpl').
      + cbn [flat_map]. rewrite <- !app_assoc. reflexivity.
      + intros kv Hin. apply Hsz. right. exact Hin.
  Qed.

  Lemma prend_values (prs : list (list key * (key * item))) rows :
    Forall2 (fun x r => prend x (fst r) (snd r)) prs rows -> Forall (fun x => fst x = []) prs ->
    exists kvl, prs = map plain_pair kvl.
  Proof.
    induction 1 as [|x r prs rows (v & Ev & _) _ IH]; intro Hp; [exists []; reflexivity|].
    inversion Hp as [|? ? Hx Hp']; subst. destruct (IH Hp') as (kvl & ->).
    destruct x as [path [k it]]. cbn [fst snd] in *. subst path it. exists ((k, v) :: kvl). reflexivity.
  Qed.

  Lemma ws_stops_nil w j j' : ws_tok w -> splits j w j' -> stops wschar (rest j) -> w = [].
  Proof.
    intros Hw [R _] Hst. destruct w as [|b w]; [reflexivity|]. rewrite R in Hst. cbn [app stops] in Hst.
    unfold ws_tok, all in Hw. cbn [forallb] in Hw. apply andb_true_iff in Hw as [Hb _]. congruence.
  Qed.

  Lemma items_plain_mk kvl : items_plain (map mk_item kvl) = true -> Forall (fun kv : key * value => vplain (snd kv) = true) kvl.
  Proof.
    unfold items_plain. induction kvl as [|[k v] tl IH]; [constructor|]. cbn [map mk_item forallb fst snd iplain]. intro H.
    apply andb_true_iff in H as [H1 H2]. constructor; [exact H1|apply IH, H2].
  Qed.

  Lemma inline_table_render i v i' : isrc s i -> inline_table vr i = Ok v i' ->
    exists t kvs o, vtext t (AInl kvs) o /\ splits i t i' /\ isrc s i' /\ vrend s v o /\ nonscalar v.
  Proof.
    rewrite inline_table_eq. intros Hi H. apply bind_inv in H as (x & j1 & H1 & H). apply byte_inv in H1 as [_ S1].
    destruct (isrc_splits s i [x7b] j1 Hi S1) as [Hj1 _].
    apply bind_inv in H as (tv & j2 & H2 & H). apply cut_err_inv in H2. unfold inline_body in H2.
    apply try_map_inv in H2 as ([pairs pre] & H2 & Htm).
    apply bind_inv in H as (y & j3 & H3 & H). apply context_inv, cut_err_inv, byte_inv in H3 as [_ S3].
    apply ret_inv in H as [-> ->].
    unfold inline_kvs in H2. apply bind_inv in H2 as (kv & k1 & E1 & H2).
    apply bind_inv in H2 as (sp & k2 & E2 & H2). pose proof E2 as E2'. apply span_inv in E2' as (u2 & _ & Esp).
    apply span_ws_inv in E2 as (w & Hw & Sw & _). apply ret_inv in H2 as [E ->]. injection E as -> ->.
    apply (separated0_inv _ _ _ _ _ (mono_shrinking _ (inline_keyval_mono vr Hmono)) (byte_shrinking _)) in E1
      as [(-> & -> & _) | (pr & i1 & prs & -> & E & R)].
    - (* { blanks } *)
      destruct (isrc_splits s j1 w k2 Hj1 Sw) as [Hk2 _]. destruct (isrc_splits s k2 [x7d] j3 Hk2 S3) as [Hj3 _].
      exists ([x7b] ++ w ++ [x7d]), [], ([x7b] ++ w ++ [x7d]). split; [apply (vt_inline_empty w Hw)|].
      split; [exact (splits_trans _ _ _ _ _ S1 (splits_trans _ _ _ _ _ Sw S3))|]. split; [exact Hj3|].
      unfold table_from_pairs in Htm. cbn [table_from_pairs_loop_d inline_spans_pass fold_left] in Htm. injection Htm as <-. split; [|exact I].
      intros _ fuel dflt Hf. destruct fuel as [|f]; [lia|].
      unfold core. cbn [value_decorate]. rewrite tvalue_inline, enc_inline. cbv zeta. cbn [map inline_values flat_map length enc_kvs].
      unfold decor_prefix, decor_suffix. cbn [tdecor decor_new d_prefix d_suffix toraw traw]. rewrite !raw_encode_empty.
      subst sp. rewrite (span_prints s j1 w k2 [] Hj1 Sw), (ncr_ws w Hw). cbn [app]. rewrite ?app_nil_r. reflexivity.
    - (* { pairs } *)
      destruct (inline_keyval_render j1 pr i1 Hj1 E) as (w0 & kt & p & w1 & w2 & t & a & o & w3 & Hw0 & Hkt & Hw1 & Hw2 & Ht & Hw3 & Sp & Hi1 & Hpr & Hst1).
      destruct (inline_seps_render i1 prs k1 Hi1 R Hst1 kt p w1 w2 t a o w3 Hkt Hw1 Hw2 Ht Hw3)
        as (u & l & ou & wl & x' & Sx & Hk1 & Hstk & Ex & Hwl & Hkv & rows & HF & Erows).
      pose proof (ws_stops_nil w k1 k2 Hw Sw Hstk) as Ew. subst w.
      assert (Ej : k2 = k1) by (destruct Sw as [_ ->]; apply adv_nil). subst k2.
      destruct (isrc_splits s k1 [x7d] j3 Hk1 S3) as [Hj3 _].
      exists ([x7b] ++ w0 ++ (kt ++ w1 ++ [x3d] ++ w2 ++ t ++ u) ++ wl ++ [x7d]), ((p, a) :: l),
             ([x7b] ++ w0 ++ (kt ++ w1 ++ [x3d] ++ w2 ++ o ++ ou) ++ wl ++ [x7d]).
      split; [apply vt_inline; assumption|]. split; [|split; [exact Hj3|]].
      + pose proof (splits_trans _ _ _ _ _ S1 (splits_trans _ _ _ _ _ (splits_trans _ _ _ _ _ Sp Sx) S3)) as S.
        assert (E2 : forall z, w3 ++ x' ++ z = u ++ wl ++ z) by (intro z; rewrite !app_assoc, Ex; reflexivity).
        rewrite <- !app_assoc in S. rewrite E2 in S. rewrite <- !app_assoc. exact S.
      + (* the table built from the pairs *)
        unfold table_from_pairs in Htm. destruct (table_from_pairs_loop_d [] (pr :: prs)) as [m| |] eqn:El; try discriminate.
        assert (Etv : tv = VInline (inline_spans_pass m (pr :: prs)) (raw_with_span sp) false false decor_default None)
          by (injection Htm as E0; symmetry; exact E0).
        clear Htm. subst tv. split; [|exact I]. unfold vrend. rewrite vplain_inline. cbn [negb andb]. intros Hs fuel dflt Hf.
        pose proof (plain_pairs _ _ El Hs) as Hpaths.
        assert (HF1 : Forall2 (fun x r => prend x (fst r) (snd r)) (pr :: prs) ((w0, (kt ++ w1 ++ [x3d] ++ w2 ++ o) ++ w3) :: rows))
          by (constructor; [exact Hpr|exact HF]).
        destruct (prend_values _ _ HF1 Hpaths) as (kvl & Ekv).
        rewrite Ekv in El. apply loop_d_plain in El. cbn [app] in El. subst m. rewrite Ekv, spans_pass_plain in Hs, Hf |- *.
        pose proof (items_plain_mk kvl Hs) as Hpl.
        assert (Hu : Forall (fun kv : key * value => undot (snd kv) = true) kvl)
          by (eapply Forall_impl; [|exact Hpl]; intros kv0 Hk0; apply vplain_undot, Hk0).
        destruct fuel as [|f]; [lia|]. unfold core in *. cbn [value_decorate] in *. rewrite tvalue_inline in *. rewrite enc_inline. cbv zeta.
        rewrite (inline_values_plain s _ kvl Hu). rewrite map_length.
        unfold decor_prefix, decor_suffix. cbn [tdecor decor_new d_prefix d_suffix toraw traw]. rewrite !raw_encode_empty.
        subst sp. rewrite (span_prints s k1 [] k1 [] Hk1 Sw). cbn [ncr filter app]. rewrite ?app_nil_r.
        assert (Hsz : forall kv, In kv kvl -> value_size (tvalue s (snd kv)) < f).
        { intros [k0 v0] Hin. cbn [value_size] in Hf. cbn [snd].
          pose proof (kv_size_in (map (tkv s) (map mk_item kvl)) (tkey s k0) (IValue (tvalue s v0))) as Hle.
          assert (Hin' : In (tkey s k0, IValue (tvalue s v0)) (map (tkv s) (map mk_item kvl))).
          { rewrite map_map. apply in_map_iff. exists (k0, v0). split; [reflexivity|exact Hin]. }
          specialize (Hle Hin'). cbn [item_size] in Hle. lia. }
        destruct kvl as [|[k0 v0] kvl]; [discriminate|]. cbn [map plain_pair] in Ekv. injection Ekv as -> Ekv.
        inversion Hpl as [|? ? Hv0 Hpl']; subst. cbn [snd] in Hv0.
        cbn [map enc_kvs fst snd]. cbn [Nat.eqb].
        destruct Hpr as (v1 & Ev & Henc). cbn [fst snd plain_pair] in Ev, Henc. injection Ev as <-.
        rewrite (Henc eq_refl Hv0 f _ DEFAULT_INLINE_KEY_DECOR _ (Hsz (k0, v0) (or_introl eq_refl))).
        rewrite (enc_kvs_rows f _ (map plain_pair kvl) rows kvl 0 HF eq_refl Hpl' (fun kv Hin => Hsz kv (or_intror Hin))).
        match type of Erows with _ ++ ?X = _ => set (F := X) in * end.
        assert (E3 : forall z, w3 ++ F ++ z = ou ++ wl ++ z) by (intro z; rewrite !app_assoc, Erows; reflexivity).
        clearbody F. repeat first [rewrite <- app_assoc | progress cbn [app]]. rewrite E3. reflexivity.
  Qed.

  (* ---- scalars and the dispatch ------------------------------------------------------------------------ *)
  (* before apply_raw a scalar has no repr yet: what is known is its text *)
  Definition vbody_rend (v : value) (t : bytes) (o : bytes) : Prop :=
    match v with VScalar _ _ _ => o = t | _ => vrend s v o end.

  Definition body_at (p : parser value) : Prop :=
    forall i v i', isrc s i -> p i = Ok v i' ->
      exists t a o, vtext t a o /\ splits i t i' /\ isrc s i' /\ vbody_rend v t o.

  Lemma scalar_arm {A} (p : parser A) (mk : A -> scalar) :
    (forall i x i', p i = Ok x i' -> exists t a, scalar_text t a /\ splits i t i') ->
    body_at (pmap (fun x => scalar_value (mk x)) p).
  Proof.
    intros Hp i v i' Hi H. apply pmap_inv in H as (x & H & ->). apply Hp in H as (t & a & Ht & S).
    exists t, a, t. split; [apply vt_scalar, Ht|]. split; [exact S|]. split; [apply (isrc_splits s i t i' Hi S)|reflexivity].
  Qed.

  Lemma string_arm_body : body_at (pmap (fun x => scalar_value (SString x)) string_).
  Proof. apply scalar_arm. intros i x i' H. apply string_sound in H as (t & Ht & S). exists t, (AStr x). split; [apply st_string, Ht|exact S]. Qed.
  Lemma integer_arm_body : body_at (pmap (fun z => scalar_value (SInt z)) integer).
  Proof. apply scalar_arm. intros i x i' H. apply integer_sound in H as (t & Ht & S & _). exists t, (AInt x). split; [apply st_integer, Ht|exact S]. Qed.
  Lemma float_arm_body : body_at (pmap (fun f => scalar_value (SFloat f)) float).
  Proof. apply scalar_arm. intros i x i' H. apply float_sound in H as (t & Ht & _ & S). exists t, (AFloat x). split; [apply st_float, Ht|exact S]. Qed.
  Lemma date_time_arm_body : body_at (pmap (fun d => scalar_value (SDatetime d)) date_time).
  Proof. apply scalar_arm. intros i x i' H. apply date_time_sound in H as (t & Ht & S). exists t, (ADate x). split; [apply st_date_time, Ht|exact S]. Qed.
  Lemma true_arm_body : body_at (pmap (fun v => scalar_value (SBool v)) true_).
  Proof.
    apply scalar_arm. intros i x i' H. apply true_sound in H as [-> S]. exists t_true, (ABool true).
    split; [apply st_boolean; left; auto|exact S].
  Qed.
  Lemma false_arm_body : body_at (pmap (fun v => scalar_value (SBool v)) false_).
  Proof.
    apply scalar_arm. intros i x i' H. apply false_sound in H as [-> S]. exists t_false, (ABool false).
    split; [apply st_boolean; right; auto|exact S].
  Qed.
  Lemma inf_arm_body : body_at (pmap (fun f => scalar_value (SFloat f)) inf).
  Proof.
    apply scalar_arm. intros i x i' H. unfold inf in H. apply pvalue_inv in H as (-> & y & H). apply lit_inv in H as [_ S].
    exists t_inf, (AFloat (FInf false)). split; [apply st_float, (float_inf [] false); left; auto|exact S].
  Qed.
  Lemma nan_arm_body : body_at (pmap (fun f => scalar_value (SFloat f)) nan).
  Proof.
    apply scalar_arm. intros i x i' H. unfold nan in H. apply pvalue_inv in H as (-> & y & H). apply lit_inv in H as [_ S].
    exists t_nan, (AFloat (FNan false)). split; [apply st_float, (float_nan [] false); left; auto|exact S].
  Qed.

  Lemma body_context p : body_at p -> body_at (context p).
  Proof. intros Hp i v i' Hi H. apply context_inv in H. apply (Hp i v i' Hi H). Qed.
  Lemma body_alt p q : body_at p -> body_at q -> body_at (p <|> q).
  Proof. intros Hp Hq i v i' Hi H. apply alt_inv in H as [H | [_ H]]; [apply (Hp i v i' Hi H)|apply (Hq i v i' Hi H)]. Qed.
  Lemma body_fail : body_at (context fail).
  Proof. intros i v i' _ H. apply context_inv in H. discriminate. Qed.

  Lemma array_arm_body : body_at (check_recursion (array vr)).
  Proof.
    intros i v i' Hi H. apply check_recursion_splits in H as (_ & i2 & H & Hs).
    destruct (array_render _ v i2 (isrc_set_depth s i _ Hi) H) as (t & l & o & Hv & S & _ & Hr & Hn).
    exists t, (AArr l), o. split; [exact Hv|]. split; [apply Hs, S|]. split; [apply (isrc_splits s i t i' Hi (Hs t S))|].
    destruct v; [destruct Hn|exact Hr|exact Hr].
  Qed.

  Lemma inline_arm_body : body_at (check_recursion (inline_table vr)).
  Proof.
    intros i v i' Hi H. apply check_recursion_splits in H as (_ & i2 & H & Hs).
    destruct (inline_table_render _ v i2 (isrc_set_depth s i _ Hi) H) as (t & kvs & o & Hv & S & _ & Hr & Hn).
    exists t, (AInl kvs), o. split; [exact Hv|]. split; [apply Hs, S|]. split; [apply (isrc_splits s i t i' Hi (Hs t S))|].
    destruct v; [destruct Hn|exact Hr|exact Hr].
  Qed.

  Lemma value_arm_body b : body_at (value_arm vr b).
  Proof.
    unfold value_arm.
    repeat match goal with |- body_at (if ?c then _ else _) => destruct c end;
      first [ apply string_arm_body | apply array_arm_body | apply inline_arm_body
            | apply body_fail
            | apply body_context; first [apply integer_arm_body | apply float_arm_body | apply true_arm_body
                                        | apply false_arm_body | apply inf_arm_body | apply nan_arm_body]
            | idtac ].
    unfold number_arm. apply body_alt; [apply date_time_arm_body|]. apply body_alt; [apply float_arm_body|apply integer_arm_body].
  Qed.

  Lemma value_body_body : body_at (value_body vr).
  Proof.
    intros i v i' Hi H. pose proof H as H0. unfold value_body in H0. apply bind_inv in H0 as (b & j & H1 & _).
    apply context_inv, peek_inv in H1 as [_ (j' & H1)]. apply any_inv in H1 as [R _]. cbn [app] in R.
    rewrite (value_body_arm vr i b _ R) in H. apply (value_arm_body b i v i' Hi H).
  Qed.

  Lemma core_apply_raw_nonscalar v sp : nonscalar v -> core s (apply_raw v sp) = core s v.
  Proof.
    unfold core, apply_raw. destruct v as [x r d|vals tr c d sp0|items pre im dt d sp0]; [intros []| |]; intros _;
      cbn [value_decorate]; rewrite ?tvalue_array, ?tvalue_inline; reflexivity.
  Qed.

  Lemma value_step_render : vrender_at s (value_step vr).
  Proof.
    intros i v i' Hi H. unfold value_step in H. apply pmap_inv in H as ([v0 sp] & H & ->).
    apply with_span_inv in H as (a0 & H & E). injection E as <- ->.
    destruct (value_body_body i v0 i' Hi H) as (t & a & o & Ht & S & Hi' & Hb).
    exists t, a, o. split; [exact Ht|]. split; [exact S|]. split; [exact Hi'|].
    destruct v0 as [x r d|vals tr c d sp0|items pre im dt d sp0]; cbn [vbody_rend] in Hb.
    - subst o. intros _ fuel dflt Hf. destruct fuel as [|f]; [lia|].
      unfold core, apply_raw. cbn [value_decorate]. rewrite tvalue_scalar, enc_scalar.
      rewrite (span_repr s i t i' Hi S). unfold decor_prefix, decor_suffix. cbn [tdecor decor_new d_prefix d_suffix toraw traw].
      rewrite !raw_encode_empty. cbn [app]. apply app_nil_r.
    - unfold vrend. rewrite vplain_apply_raw, core_apply_raw_nonscalar by exact I. exact Hb.
    - unfold vrend. rewrite vplain_apply_raw, core_apply_raw_nonscalar by exact I. exact Hb.
  Qed.
End Render.

Lemma value_f_render s n : vrender_at s (value_f n).
Proof.
  induction n as [|n IH]; [intros i v i' _ H; discriminate|].
  change (value_f (S n)) with (value_step (value_f n)). apply value_step_render; [exact IH|apply (proj1 (value_f_all n))].
Qed.

(* C03 tiling for values *)
Theorem value_render s i v i' : isrc s i -> value_ i = Ok v i' ->
  exists t a o, vtext t a o /\ splits i t i' /\ isrc s i' /\ vrend s v o.
Proof. apply value_f_render. Qed.
