(* Proofs/PrintBackDTop.v — C03, class (d): documents whose key/value lines may have dotted keys (values
   plain: no dotted key inside an inline table).  parse_document s = POk d, the tree's values plain, and
   what Display will print is laid out in the tree like in the source  ->  render s d = normalize s. *)
From TV Require Import Base.Prelude Base.Utf8 Base.Winnow Gen.Consts Spec.Abnf Spec.Lex Spec.Defs Spec.Syntax Spec.Norm.
From TV Require Import Model.Trivia Model.Strings Model.Datetime Model.Numbers Model.Tree Model.Parse Model.Document Model.Write Model.Encode.
From TV Require Import Proofs.ConstsOk Proofs.NoPanicBase Proofs.NoPanicLex Proofs.NoPanicValue.
From TV Require Import Proofs.LexEquivBase Proofs.LexEquivTrivia Proofs.LexEquivKey Proofs.GrammarSep Proofs.GrammarBase
                       Proofs.GrammarValueBase Proofs.GrammarValueSound Proofs.GrammarDocLine Proofs.GrammarDoc
                       Proofs.TilingDefs Proofs.TilingNormDoc
                       Proofs.PrintBackBase Proofs.PrintBackEnc Proofs.PrintBackKey Proofs.PrintBackValue Proofs.PrintBackDoc Proofs.PrintBackTop
                       Proofs.PrintBackSort Proofs.PrintBackEnts Proofs.PrintBackDisplay Proofs.PrintBackSecs Proofs.PrintBackHKey Proofs.PrintBackFinal
                       Proofs.PrintBackSecDoc
                       Proofs.PrintBackDVals Proofs.PrintBackDDisplay Proofs.PrintBackDAll Proofs.PrintBackDState Proofs.PrintBackDKey Proofs.PrintBackIValue Proofs.PrintBackDItems
                       Proofs.PrintBackDDoc Proofs.PrintBackDFinal Proofs.TilingNormScan Proofs.TilingCmt.
From TV Require Proofs.DefsEquivSim.
Require Import Lia ZifyBool ZifyN ZifyNat Sorting.Sorted Sorting.Permutation.

(* every value of the document is plain: no dotted key inside an inline table (and the elements of
   arrays of tables are tables defined by headers) *)
Definition dot_doc (d : doc) : bool := dsh_tbl vplain (doc_root d).

(* the values of the document are laid out in the tree as in the source: every inline table in them either
   has plain keys or passes the check of Proofs/PrintBackIValue.v (`vok`) *)
Definition vals_ok (s : bytes) (r : tbl) : bool := dsh_tbl (vok s) r.

Lemma dot_doc_vals_ok s d : dot_doc d = true -> vals_ok s (doc_root d) = true.
Proof. apply (proj2 (proj2 (dsh_mono vplain (vok s) (proj1 (vplain_vok s))))). Qed.

(* THE side condition: values and sections are laid out in the tree as in the source *)
Definition laid_out' (s : bytes) (r : tbl) : bool := vals_ok s r && laid_out s r.

(* the items of the document: what the parser read, as (print item, its text) pairs in source order; they
   are — as a multiset — the print items of the tree *)
Theorem doc_items s d : parse_document s = POk d ->
  exists w t l o (items : list sitem),
    strip_bom s = w ++ t /\ ws_tok w /\ lines_text t l o
    /\ w ++ o = concat (map snd items) ++ raw_encode (traw s (doc_trailing d)) []
    /\ t_dotted (doc_root d) = false /\ t_decor (doc_root d) = decor_default /\ t_position (doc_root d) = None
    /\ uk2 (hkey s) (doc_root d)
    /\ Permutation (ALLI (t_items (doc_root d))) (map fst items) /\ Forall (sitem_ok s) items
    /\ StronglySorted N.lt (map (fun it : sitem => ppos (fst it)) items)
    /\ Forall (sitem_cj s) items.
Proof.
  intro Hp. pose proof Hp as H. unfold parse_document, parse_all in H.
  destruct ((a <- document ;; eof ;;; ret a) (new_input s)) as [st i|e j|e j|x] eqn:E; try discriminate.
  destruct (finalize_table st) as [st'| |] eqn:Ef; try discriminate. injection H as Hd.
  apply bind_inv in E as (st0 & i0 & E & E'). apply bind_inv in E' as (u0 & i0' & _ & E'). apply ret_inv in E' as [-> _].
  rewrite document_unfold in E.
  apply bind_inv in E as (ob & i1 & Eb & E). apply bind_inv in E as (stw & i2 & Ew & E).
  apply bind_inv in E as (stl & i3 & El & E). apply bind_inv in E as (u & i4 & Ee & E).
  apply eof_inv in Ee as [-> Rend]. apply ret_inv in E as [-> ->].
  apply parse_ws_exact in Ew as (w0 & Hw0 & Sw & ->).
  assert (Sb : exists bm, splits (new_input s) bm i1 /\ strip_bom s = w0 ++ rest i2 /\ length bm = bomlen s).
  { apply opt_inv in Eb as [(x & -> & Eb) | (-> & -> & (e & j & F))].
    - apply lit_inv in Eb as [_ Sb]. exists Document.bom. split; [exact Sb|]. destruct Sb as [R _]. cbn [new_input rest] in R.
      destruct (strip_bom_cases s) as [(r & Er & ->) | [Hn _]]; [|exfalso; apply (Hn _ R)].
      rewrite Er in R. apply app_inv_head in R. subst r. split; [apply Sw|]. unfold bomlen.
      assert (Q : strip_prefix Document.bom s = Some (rest i1)) by (apply strip_prefix_spec; exact Er). rewrite Q. reflexivity.
    - exists []. split; [apply splits_nil|]. destruct (strip_bom_cases s) as [(r & Er & _) | [Hn ->]].
      + exfalso. unfold lit in F. cbn [new_input rest] in F.
        destruct (strip_prefix Document.bom s) eqn:Q; [discriminate|].
        assert (Q' : strip_prefix Document.bom s = Some r) by (apply strip_prefix_spec; exact Er). congruence.
      + split; [apply Sw|]. unfold bomlen. destruct (strip_prefix Document.bom s) as [r|] eqn:Q; [|reflexivity].
        apply strip_prefix_spec in Q. exfalso. apply (Hn r Q). }
  destruct Sb as (bm & Sb & Es & Ebm).
  destruct (isrc_splits s _ bm i1 (isrc_new s) Sb) as [Hi1 _]. destruct (isrc_splits s i1 w0 i2 Hi1 Sw) as [Hi2 _].
  destruct (doc_loop_render3 s _ _ _ _ _ Hi2 El) as (t & l & o & St & Hlt & Hi3 & Hok).
  assert (Et : rest i2 = t) by (destruct St as [Rt _]; rewrite Rend, app_nil_r in Rt; exact Rt).
  rewrite Et in Es.
  assert (HI0 : dinv s (on_ws state_new (pos i1, pos i2)) i2 [] i1 w0).
  { split; [|right; exists []; rewrite (ncr_ws w0 Hw0); apply cj_ws, Hw0]. exists []. unfold on_ws, state_new. cbn [st_root st_path st_current st_trailing st_position st_is_array pop_key rev map concat].
    split; [apply uk2_eq; split; constructor|]. split; [apply uk2_eq; split; constructor|]. split; [reflexivity|]. split; [reflexivity|].
    split; [repeat split; constructor|]. split; [constructor|]. split; [constructor|]. split; [constructor|]. split; [reflexivity|].
    split; [reflexivity|]. split; [exact Hi1|]. split; [exact Sw|]. split; [|constructor]. right. left.
    destruct Sb as [_ ->]. rewrite pos_adv. cbn [new_input pos]. rewrite <- Ebm. lia. }
  destruct (Hok [] i1 w0 HI0) as (out' & j0 & pend & HI' & Eo).
  destruct (dinv_finalize s stl i3 out' j0 pend st' (proj1 HI') Ef) as (items & Est' & Hur & Hrd & Hdec & Hpos & Hperm & Hoks & Hsort & _ & Eout & Htr & Hj0 & Spend & _ & Hcj).
  assert (Etr : st_trailing st' = Some (pos j0, pos i3)) by (rewrite Est'; cbn [DefsEquivSim.finalized st_trailing]; exact Htr).
  rewrite Etr in Hd. subst d. cbn [doc_root doc_trailing] in *.
  exists w0, t, l, o, items. split; [exact Es|]. split; [exact Hw0|]. split; [exact Hlt|].
  split; [rewrite (span_prints s j0 pend i3 [] Hj0 Spend), <- Eout, Eo; cbn [app]; rewrite (ncr_ws w0 Hw0); reflexivity|].
  repeat (split; [assumption|]). assumption.
Qed.

Theorem doc_render_dotted s d : parse_document s = POk d ->
  exists w t l o, strip_bom s = w ++ t /\ ws_tok w /\ lines_text t l o
                  /\ (vals_ok s (doc_root d) = true -> laid_out s (doc_root d) = true -> render s d = w ++ o).
Proof.
  intro Hp. destruct (doc_items s d Hp) as (w & t & l & o & items & Es & Hw & Hlt & Eo & Hrd & Hdec & Hpos & Hur & Hperm & Hoks & Hsort & _).
  exists w, t, l, o. split; [exact Es|]. split; [exact Hw|]. split; [exact Hlt|]. intros Hf Hlay. unfold render.
  rewrite (dsections_render s (doc_root d) _ items Hf Hrd Hdec Hpos Hur Hperm Hoks Hsort Hlay). symmetry. exact Eo.
Qed.

(* C03, classes (a) + (b) + (c) + dotted keys of key/value lines *)
Theorem render_normalize_dotted s d : parse_document s = POk d -> dot_doc d = true -> laid_out s (doc_root d) = true ->
  render s d = normalize s.
Proof.
  intros Hp Hf Hl. destruct (doc_render_dotted s d Hp) as (w & t & l & o & Es & Hw & Hlt & Hr).
  rewrite (Hr (dot_doc_vals_ok s d Hf) Hl). symmetry. apply (norm_lines s w t l o); [rewrite drop_bom_strip_bom; exact Es|exact Hw|exact Hlt].
Qed.

(* C03: every class — one decidable side condition *)
Theorem render_normalize_all s d : parse_document s = POk d -> laid_out' s (doc_root d) = true -> render s d = normalize s.
Proof.
  intros Hp Hl. unfold laid_out' in Hl. apply andb_true_iff in Hl as [Hv Hl]. destruct (doc_render_dotted s d Hp) as (w & t & l & o & Es & Hw & Hlt & Hr).
  rewrite (Hr Hv Hl). symmetry. apply (norm_lines s w t l o); [rewrite drop_bom_strip_bom; exact Es|exact Hw|exact Hlt].
Qed.
