(* Proofs/PrintBackDTop.v — C03, class (d): documents whose key/value lines may have dotted keys (values
   plain: no dotted key inside an inline table).  parse_document s = POk d, the tree's values plain, and
   what Display will print is laid out in the tree like in the source  ->  render s d = normalize s. *)
From TV Require Import Base.Prelude Base.Utf8 Base.Winnow Gen.Consts Spec.Abnf Spec.Lex Spec.Defs Spec.Syntax Spec.Norm.
From TV Require Import Model.Trivia Model.Strings Model.Datetime Model.Numbers Model.Tree Model.Parse Model.Document Model.Write Model.Encode.
From TV Require Import Proofs.ConstsOk Proofs.NoPanicBase Proofs.NoPanicLex Proofs.NoPanicValue.
From TV Require Import Proofs.LexEquivBase Proofs.LexEquivTrivia Proofs.LexEquivKey Proofs.GrammarSep Proofs.GrammarBase
                       Proofs.GrammarValueBase Proofs.GrammarValueSound Proofs.GrammarDocLine Proofs.GrammarDoc
                       Proofs.TilingDefs Proofs.TilingNormDoc
                       Proofs.PrintBackBase Proofs.PrintBackEnc Proofs.PrintBackKey Proofs.PrintBackValue Proofs.PrintBackDoc Proofs.PrintBackTop
                       Proofs.PrintBackSort Proofs.PrintBackEnts Proofs.PrintBackDisplay Proofs.PrintBackSecs Proofs.PrintBackHKey Proofs.PrintBackFinal
                       Proofs.PrintBackSecDoc
                       Proofs.PrintBackDVals Proofs.PrintBackDDisplay Proofs.PrintBackDAll Proofs.PrintBackDState Proofs.PrintBackDKey Proofs.PrintBackDItems
                       Proofs.PrintBackDDoc Proofs.PrintBackDFinal.
From TV Require Proofs.DefsEquivSim.
Require Import Lia ZifyBool ZifyN ZifyNat Sorting.Sorted Sorting.Permutation.

(* every value of the document is plain: no dotted key inside an inline table (and the elements of
   arrays of tables are tables defined by headers) *)
Definition dot_doc (d : doc) : bool := dsh_tbl (doc_root d).

Theorem doc_render_dotted s d : parse_document s = POk d ->
  exists w t l o, strip_bom s = w ++ t /\ ws_tok w /\ lines_text t l o
                  /\ (dot_doc d = true -> laid_out s (doc_root d) = true -> render s d = w ++ o).
Proof.
  intro Hp. pose proof Hp as H. unfold parse_document, parse_all in H.
  destruct ((a <- document ;; eof ;;; ret a) (new_input s)) as [st i|e j|e j|x] eqn:E; try discriminate.
  destruct (finalize_table st) as [st'| |] eqn:Ef; try discriminate. injection H as Hd.
  apply bind_inv in E as (st0 & i0 & E & E'). apply bind_inv in E' as (u0 & i0' & _ & E'). apply ret_inv in E' as [-> _].
  rewrite document_unfold in E.
  apply bind_inv in E as (ob & i1 & Eb & E). apply bind_inv in E as (stw & i2 & Ew & E).
  apply bind_inv in E as (stl & i3 & El & E). apply bind_inv in E as (u & i4 & Ee & E).
  apply eof_inv in Ee as [-> Rend]. apply ret_inv in E as [-> ->].
  apply parse_ws_exact in Ew as (w0 & Hw0 & Sw & ->).
  assert (Sb : exists bm, splits (new_input s) bm i1 /\ strip_bom s = w0 ++ rest i2 /\ length bm = bomlen s).
  { apply opt_inv in Eb as [(x & -> & Eb) | (-> & -> & (e & j & F))].
    - apply lit_inv in Eb as [_ Sb]. exists Document.bom. split; [exact Sb|]. destruct Sb as [R _]. cbn [new_input rest] in R.
      destruct (strip_bom_cases s) as [(r & Er & ->) | [Hn _]]; [|exfalso; apply (Hn _ R)].
      rewrite Er in R. apply app_inv_head in R. subst r. split; [apply Sw|]. unfold bomlen.
      assert (Q : strip_prefix Document.bom s = Some (rest i1)) by (apply strip_prefix_spec; exact Er). rewrite Q. reflexivity.
    - exists []. split; [apply splits_nil|]. destruct (strip_bom_cases s) as [(r & Er & _) | [Hn ->]].
      + exfalso. unfold lit in F. cbn [new_input rest] in F.
        destruct (strip_prefix Document.bom s) eqn:Q; [discriminate|].
        assert (Q' : strip_prefix Document.bom s = Some r) by (apply strip_prefix_spec; exact Er). congruence.
      + split; [apply Sw|]. unfold bomlen. destruct (strip_prefix Document.bom s) as [r|] eqn:Q; [|reflexivity].
        apply strip_prefix_spec in Q. exfalso. apply (Hn r Q). }
  destruct Sb as (bm & Sb & Es & Ebm).
  destruct (isrc_splits s _ bm i1 (isrc_new s) Sb) as [Hi1 _]. destruct (isrc_splits s i1 w0 i2 Hi1 Sw) as [Hi2 _].
  destruct (doc_loop_render3 s _ _ _ _ _ Hi2 El) as (t & l & o & St & Hlt & Hi3 & Hok).
  assert (Et : rest i2 = t) by (destruct St as [Rt _]; rewrite Rend, app_nil_r in Rt; exact Rt).
  rewrite Et in Es. exists w0, t, l, o. split; [exact Es|]. split; [exact Hw0|]. split; [exact Hlt|]. intros Hf Hlay.
  assert (HI0 : dinv s (on_ws state_new (pos i1, pos i2)) i2 [] i1 w0).
  { exists []. unfold on_ws, state_new. cbn [st_root st_path st_current st_trailing st_position st_is_array pop_key rev map concat].
    split; [apply uk2_eq; split; constructor|]. split; [apply uk2_eq; split; constructor|]. split; [reflexivity|]. split; [reflexivity|].
    split; [repeat split; constructor|]. split; [constructor|]. split; [constructor|]. split; [constructor|]. split; [reflexivity|].
    split; [reflexivity|]. split; [exact Hi1|]. split; [exact Sw|]. right. left.
    destruct Sb as [_ ->]. rewrite pos_adv. cbn [new_input pos]. rewrite <- Ebm. lia. }
  destruct (Hok [] i1 w0 HI0) as (out' & j0 & pend & HI' & Eo).
  destruct (dinv_finalize s stl i3 out' j0 pend st' HI' Ef) as (items & Est' & Hur & Hrd & Hdec & Hpos & Hperm & Hoks & Hsort & _ & Eout & Htr & Hj0 & Spend & _).
  assert (Etr : st_trailing st' = Some (pos j0, pos i3)) by (rewrite Est'; cbn [DefsEquivSim.finalized st_trailing]; exact Htr).
  rewrite Etr in Hd. subst d. unfold dot_doc in Hf. cbn [doc_root] in *.
  unfold render. cbn [doc_root doc_trailing].
  rewrite (dsections_render s (st_root st') _ items Hf Hrd Hdec Hpos Hur Hperm Hoks Hsort Hlay).
  rewrite (span_prints s j0 pend i3 [] Hj0 Spend), <- Eout, Eo. cbn [app]. rewrite (ncr_ws w0 Hw0). reflexivity.
Qed.

(* C03, classes (a) + (b) + (c) + dotted keys of key/value lines *)
Theorem render_normalize_dotted s d : parse_document s = POk d -> dot_doc d = true -> laid_out s (doc_root d) = true ->
  render s d = normalize s.
Proof.
  intros Hp Hf Hl. destruct (doc_render_dotted s d Hp) as (w & t & l & o & Es & Hw & Hlt & Hr).
  rewrite (Hr Hf Hl). symmetry. apply (norm_lines s w t l o); [rewrite drop_bom_strip_bom; exact Es|exact Hw|exact Hlt].
Qed.
