(* Proofs/SpansExact.v — C14: the span stored for a value is exactly the window of the value token(s):
   `value` consumes at least one byte, stores (pos before, pos after) as the value's span (the repr of a
   scalar, the span of an array / inline table) and clears the decor.  Likewise for a simple key
   (Proofs/SpansLex.v simple_key_exact, key_part_exact). *)
From TV Require Import Base.Prelude Base.Utf8 Base.Winnow Gen.Consts Spec.Abnf.
From TV Require Import Model.Trivia Model.Strings Model.Datetime Model.Numbers Model.Tree Model.Parse Model.Document.
From TV Require Import Proofs.ConstsOk Proofs.NoPanicBase Proofs.NoPanicLex Proofs.NoPanicValue Proofs.NoPanicState.
From TV Require Import Proofs.SpansDefs Proofs.SpansBase Proofs.SpansLex Proofs.SpansValue.
Require Import Lia ZifyBool ZifyN ZifyNat.

(* ---- every value token consumes at least one byte ------------------------------------------------------- *)
Lemma dec_int_progress : progress dec_int.
Proof. unfold dec_int. np. Qed.
Lemma prefixed_int_progress w prefix d : prefix <> [] -> mono d -> progress (prefixed_int w prefix d).
Proof. intros. unfold prefixed_int. np. Qed.
Lemma integer_progress : progress integer.
Proof.
  intros i a i' H. destruct (integer_cases i) as [E|[E|[E|E]]]; rewrite E in H; revert H;
    match goal with |- ?p i = _ -> _ => assert (M : progress p); [|apply M] end.
  - apply progress_cut_err, progress_try_map, prefixed_int_progress; [discriminate|np].
  - apply progress_cut_err, progress_try_map, prefixed_int_progress; [discriminate|np].
  - apply progress_cut_err, progress_try_map, prefixed_int_progress; [discriminate|np].
  - apply progress_and_then, dec_int_progress.
Qed.
Lemma float__progress : progress float_.
Proof. rewrite float_eq_. unfold float_body. pose proof dec_int_progress. np. Qed.
Lemma inf_progress : progress inf. Proof. unfold inf. apply progress_pvalue, progress_lit. discriminate. Qed.
Lemma nan_progress : progress nan. Proof. unfold nan. apply progress_pvalue, progress_lit. discriminate. Qed.
Lemma special_float_progress : progress special_float.
Proof.
  unfold special_float. apply progress_bind_r; [np|]. intro s. apply progress_bind_l.
  - apply progress_alt; [apply inf_progress|apply nan_progress].
  - intro f. destruct s as [b|]; np.
Qed.
Lemma float_progress : progress float.
Proof.
  unfold float. apply progress_context, progress_alt; [apply progress_and_then, float__progress|apply special_float_progress].
Qed.
Lemma bool_lit_progress l v : l <> [] -> progress (bool_lit l v).
Proof.
  intro H. unfold bool_lit. destruct l as [|c l]; [congruence|].
  apply progress_bind_r; [np|]. intros _. apply progress_bind_l; [|intros; np].
  apply progress_cut_err, progress_lit. discriminate.
Qed.
Lemma true_progress : progress true_. Proof. apply bool_lit_progress. discriminate. Qed.
Lemma false_progress : progress false_. Proof. apply bool_lit_progress. discriminate. Qed.

Section Knot.
  Variable value_rec : parser value.
  Hypothesis Hm : mono value_rec.

  Lemma array_progress : progress (array value_rec).
  Proof.
    pose proof (array_values_mono _ Hm). unfold array. apply progress_bind_l; [np|]. intros _. np.
  Qed.
  Lemma inline_table_progress : progress (inline_table value_rec).
  Proof.
    pose proof (inline_body_mono _ Hm). rewrite inline_table_eq. apply progress_bind_l; [np|]. intros _. np.
  Qed.
  Lemma value_body_progress : progress (value_body value_rec).
  Proof.
    pose proof array_progress. pose proof inline_table_progress.
    pose proof integer_progress. pose proof float_progress. pose proof true_progress. pose proof false_progress.
    pose proof inf_progress. pose proof nan_progress.
    unfold value_body. apply progress_bind_r; [np|]. intro b.
    repeat match goal with |- progress (if ?c then _ else _) => destruct c end; np.
  Qed.
End Knot.

Lemma value_span_apply_raw v a b : (a < b)%N -> value_span (apply_raw v (a, b)) = Some (a, b).
Proof.
  intro H. unfold apply_raw. destruct v as [s r d|vals tr c d sp|items pre im dt d sp]; cbn [value_decorate value_span]; auto.
  unfold raw_with_span; cbn [fst snd]. destruct (a =? b)%N eqn:Q; [lia|reflexivity].
Qed.
Definition value_decor (v : value) : decor :=
  match v with VScalar _ _ d => d | VArray _ _ _ d _ => d | VInline _ _ _ _ d _ => d end.
Lemma value_decor_apply_raw v sp : value_decor (apply_raw v sp) = decor_new REmpty REmpty.
Proof. unfold apply_raw. destruct v; reflexivity. Qed.

(* value.rs `value`: span = exactly what was consumed; the consumed text is a non-empty prefix of the input *)
Lemma value_f_exact n i v i' :
  value_f n i = Ok v i' ->
  value_span v = Some (pos i, pos i') /\ (pos i < pos i')%N /\ value_decor v = decor_new REmpty REmpty
  /\ exists t, rest i = t ++ rest i' /\ pos i' = (pos i + N.of_nat (length t))%N /\ t <> [].
Proof.
  destruct n as [|n]; [discriminate|]. change (value_f (S n)) with (value_step (value_f n)). intro E.
  pose proof (proj1 (value_f_all n)) as Hm.
  apply value_step_exact in E as (v0 & E & ->).
  pose proof (value_body_progress _ Hm _ _ _ E) as G. pose proof (value_body_mono _ Hm _ _ _ E) as (t & R & P & _).
  assert (Ht : t <> []) by (intro X; subst t; rewrite R in G; cbn in G; lia).
  assert (Hlt : (pos i < pos i')%N) by (destruct t; [congruence|cbn [length] in P; lia]).
  split; [apply value_span_apply_raw, Hlt|]. split; [exact Hlt|]. split; [apply value_decor_apply_raw|]. eauto.
Qed.
Theorem value_exact i v i' :
  value_ i = Ok v i' ->
  value_span v = Some (pos i, pos i') /\ (pos i < pos i')%N /\ value_decor v = decor_new REmpty REmpty
  /\ exists t, rest i = t ++ rest i' /\ pos i' = (pos i + N.of_nat (length t))%N /\ t <> [].
Proof. apply value_f_exact. Qed.

Lemma value_progress : progress value_.
Proof.
  intros i v i' E. apply value_exact in E as (_ & _ & _ & t & R & _ & Ht). rewrite R, app_length.
  destruct t; [congruence|cbn; lia].
Qed.

(* key.rs `simple_key`: repr = exactly what was consumed *)
Theorem simple_key_span_exact i r k i' :
  simple_key i = Ok (r, k) i' ->
  r = RSpanned (pos i) (pos i') /\ (pos i < pos i')%N
  /\ exists t, rest i = t ++ rest i' /\ pos i' = (pos i + N.of_nat (length t))%N /\ t <> [].
Proof.
  intro E. pose proof (simple_key_mono _ _ _ E) as (t & R & P & _). apply simple_key_exact in E as (-> & L & _).
  split; [reflexivity|]. split; [exact L|]. exists t. repeat split; auto. intro X; subst t. cbn in P. lia.
Qed.

(* when the cursor points into a source text s, the consumed text is the slice of s at the span *)
Definition cursor_of (s : bytes) (i : input) : Prop := rest i = skipn (N.to_nat (pos i)) s.

Lemma skipn_plus {A} (l : list A) : forall a b, skipn b (skipn a l) = skipn (a + b) l.
Proof.
  intros a. revert l. induction a as [|a IH]; intros l b; [reflexivity|].
  destruct l as [|x l]; [destruct b; reflexivity|]. cbn [Nat.add skipn]. apply IH.
Qed.
Lemma skipn_app_exact {A} (t r : list A) : skipn (length t) (t ++ r) = r.
Proof. induction t; cbn; auto. Qed.

Lemma cursor_slice s i i' t :
  cursor_of s i -> rest i = t ++ rest i' -> pos i' = (pos i + N.of_nat (length t))%N ->
  slice s (pos i) (pos i') = t /\ cursor_of s i'.
Proof.
  unfold cursor_of, slice. intros C R P. rewrite P. replace (N.to_nat (pos i + N.of_nat (length t) - pos i)) with (length t) by lia.
  rewrite <- C, R. split.
  - rewrite firstn_app, Nat.sub_diag, firstn_all. cbn [firstn]. apply app_nil_r.
  - replace (N.to_nat (pos i + N.of_nat (length t))) with (N.to_nat (pos i) + length t) by lia.
    rewrite <- skipn_plus. rewrite <- C, R. symmetry. apply skipn_app_exact.
Qed.
