(* Proofs/PrintBackIValue.v — C03, dotted keys inside inline tables: C03 tiling for values, with the check
   `vok` on a value of the tree: every inline table in it (hereditarily) either has no table implied by
   dotted keys among its items, or its pairs, in the order Display prints them, follow each other in the
   source as they were written (one after the other from the opening brace, each key path spelled as it
   prints).  Then Display of the value is the normal form of its text. *)
From TV Require Import Base.Prelude Base.Utf8 Base.Winnow Gen.Consts Spec.Abnf Spec.Lex Spec.Syntax.
From TV Require Import Model.Trivia Model.Strings Model.Datetime Model.Numbers Model.Tree Model.Parse Model.Document Model.Write Model.Encode.
From TV Require Import Proofs.ConstsOk Proofs.NoPanicBase Proofs.NoPanicLex Proofs.NoPanicValue Proofs.NumbersRT_Value.
From TV Require Import Proofs.LexEquivBase Proofs.LexEquivTrivia Proofs.LexEquivInt Proofs.LexEquivFloat Proofs.LexEquivStrings Proofs.LexEquivString Proofs.LexEquivKey Proofs.LexEquivBool Proofs.LexEquivDatetime Proofs.GrammarSep Proofs.GrammarBase
                       Proofs.GrammarValueBase Proofs.GrammarValueTok Proofs.GrammarValueSound Proofs.GrammarValueComplete
                       Proofs.TilingDefs Proofs.TilingNormDoc Proofs.PrintBackBase Proofs.PrintBackEnc Proofs.PrintBackKey Proofs.PrintBackValue Proofs.PrintBackDoc
                       Proofs.PrintBackSort Proofs.PrintBackEnts Proofs.PrintBackSecs Proofs.PrintBackHKey
                       Proofs.PrintBackDVals Proofs.PrintBackDKey Proofs.PrintBackIVals.
From TV Require Proofs.DefsEquivSim.
Require Import Lia ZifyBool ZifyN ZifyNat Sorting.Sorted Sorting.Permutation.

Definition kdummy : key := mkKey [] None decor_default decor_default.
Definition vdecor (v : value) : decor :=
  match v with VScalar _ _ d => d | VArray _ _ _ d _ => d | VInline _ _ _ _ d _ => d end.
Definition vend (v : value) : option N := match value_span v with Some sp => Some (snd sp) | None => None end.
Definition kra (k : key) : N := match k_repr k with Some (RSpanned a _) => a | _ => 0%N end.

(* the pairs of an inline table in print order follow each other in the source: `cursor` is where the next
   pair starts (after the opening brace, or after the comma that follows the previous pair) *)
Fixpoint chain_ok (s : bytes) (cursor : nat) (ch : list (list key * value)) : bool :=
  match ch with
  | [] => true
  | (kp, e) :: tl =>
    let k' := last kp kdummy in
    let X := pre_text s (removelast kp) k' in
    let LP := decor_prefix (k_leaf (tkey s k')) [] in
    let LS := decor_suffix (k_leaf (tkey s k')) [] in
    let SUF := decor_suffix (tdecor s (vdecor e)) [] in
    match k_repr k', vend e with
    | Some (RSpanned ra _), Some eend =>
      Nat.eqb (N.to_nat ra) (cursor + length LP + length X)
      && starts_with (X ++ krepr s k' ++ LS ++ [x3d]) (skipn (cursor + length LP) s)
      && chain_ok s (N.to_nat eend + length SUF + 1) tl
    | _, _ => false
    end
  end.

Fixpoint sorted_ltb (l : list N) : bool :=
  match l with [] => true | x :: tl => forallb (fun y => (x <? y)%N) tl && sorted_ltb tl end.

Definition layout_ok (s : bytes) (sp : ospan) (items : list (key * item)) : bool :=
  negb (has_bad items)
  || match sp with
     | Some (a, _) =>
       sorted_ltb (map (fun kv : list key * value => kra (last (fst kv) kdummy)) (ivi items []))
       && chain_ok s (N.to_nat a + 1) (ivi items [])
     | None => false
     end.

Fixpoint vok (s : bytes) (v : value) {struct v} : bool :=
  match v with
  | VScalar _ _ _ => true
  | VArray vals _ _ _ _ => (fix go (l : list item) : bool := match l with [] => true | it :: tl => iok s it && go tl end) vals
  | VInline items pre im dt d sp =>
    (fix go (l : list (key * item)) : bool := match l with [] => true | (_, it) :: tl => iok s it && go tl end) items
    && (im || dt || layout_ok s sp items)
  end
with iok (s : bytes) (it : item) {struct it} : bool := match it with IValue v => vok s v | _ => false end.
Definition items_ok (s : bytes) (m : list (key * item)) : bool := forallb (fun kv => iok s (snd kv)) m.

Lemma vok_array s vals tr c d sp : vok s (VArray vals tr c d sp) = forallb (iok s) vals.
Proof. cbn [vok]. induction vals as [|it tl IH]; [reflexivity|]. cbn [forallb]. rewrite <- IH. reflexivity. Qed.
Lemma vok_inline s items pre im dt d sp :
  vok s (VInline items pre im dt d sp) = items_ok s items && (im || dt || layout_ok s sp items).
Proof.
  cbn [vok]. f_equal. unfold items_ok. induction items as [|[k it] tl IH]; [reflexivity|]. cbn [forallb snd]. rewrite <- IH. reflexivity.
Qed.
Lemma vok_decorate s v p q : vok s (value_decorate v p q) = vok s v.
Proof. destruct v; reflexivity. Qed.

Lemma vplain_vok s :
  (forall v, vplain v = true -> vok s v = true) /\ (forall it, iplain it = true -> iok s it = true) /\ (forall t : tbl, True).
Proof.
  apply SpansDefs.tree_ind3; try (intros; exact I); try discriminate.
  - intros; reflexivity.
  - intros vals tr c d sp IH H. rewrite vplain_array in H. rewrite vok_array. rewrite forallb_forall in *. intros it Hit.
    rewrite Forall_forall in IH. apply (IH it Hit), H, Hit.
  - intros items pre im dt d sp IH H. rewrite vplain_inline in H. rewrite vok_inline. apply andb_true_iff in H as [H Hi].
    apply andb_true_iff in H as [H1 H2]. apply andb_true_iff. split.
    + unfold items_ok, items_plain in *. rewrite forallb_forall in *. intros kv Hkv. rewrite Forall_forall in IH. apply (IH kv Hkv), Hi, Hkv.
    + unfold layout_ok. destruct (has_bad items) eqn:Hb; [rewrite (has_bad_not_plain _ Hb) in Hi; discriminate|]. cbn [negb orb]. apply orb_true_r.
  - intros v IH H. apply IH, H.
Qed.

(* ---- facts about the flattened pairs ----------------------------------------------------------------------------------- *)
Lemma leaf_facts s v p : ivv v p = [(p, v)] ->
  (p <> [] -> Forall (fun kv : list key * value => fst kv <> []) (ivv v p))
  /\ (vok s v = true -> Forall (fun kv : list key * value => vok s (snd kv) = true) (ivv v p))
  /\ Forall (fun kv : list key * value => value_size (snd kv) <= value_size v) (ivv v p).
Proof.
  intros ->. split; [intro Hp; constructor; [exact Hp|constructor]|]. split; [intro Hv; constructor; [exact Hv|constructor]|].
  constructor; [cbn [snd]; lia|constructor].
Qed.

Lemma ivv_facts s :
  (forall v, forall p, (p <> [] -> Forall (fun kv : list key * value => fst kv <> []) (ivv v p))
                       /\ (vok s v = true -> Forall (fun kv : list key * value => vok s (snd kv) = true) (ivv v p))
                       /\ Forall (fun kv : list key * value => value_size (snd kv) <= value_size v) (ivv v p))
  /\ (forall it, forall p, (p <> [] -> Forall (fun kv : list key * value => fst kv <> []) (ivit it p))
                          /\ (iok s it = true -> Forall (fun kv : list key * value => vok s (snd kv) = true) (ivit it p))
                          /\ Forall (fun kv : list key * value => S (value_size (snd kv)) <= item_size it) (ivit it p))
  /\ (forall t : tbl, True).
Proof.
  apply SpansDefs.tree_ind3; try (intros; exact I).
  - intros x r d p. apply leaf_facts. reflexivity.
  - intros vals tr c d sp _ p. apply leaf_facts. reflexivity.
  - intros items pre im dt d sp IH p. destruct dt.
    + rewrite ivv_dotted. unfold ivi. rewrite Forall_forall in IH. split; [|split].
      * intro Hp. apply Forall_forall. intros x Hx. apply in_flat_map in Hx as ([k it] & Hk & Hx). cbn [fst snd] in Hx.
        destruct (IH _ Hk (p ++ [k])) as (H1 & _ & _). cbn [snd] in H1. assert (Hne : p ++ [k] <> []) by (destruct p; discriminate).
        specialize (H1 Hne). rewrite Forall_forall in H1. apply H1, Hx.
      * intro Hv. rewrite vok_inline in Hv. apply andb_true_iff in Hv as [Hv _]. unfold items_ok in Hv. rewrite forallb_forall in Hv.
        apply Forall_forall. intros x Hx. apply in_flat_map in Hx as ([k it] & Hk & Hx). cbn [fst snd] in Hx.
        destruct (IH _ Hk (p ++ [k])) as (_ & H2 & _). cbn [snd] in H2. specialize (H2 (Hv _ Hk)). rewrite Forall_forall in H2. apply H2, Hx.
      * apply Forall_forall. intros x Hx. apply in_flat_map in Hx as ([k it] & Hk & Hx). cbn [fst snd] in Hx.
        destruct (IH _ Hk (p ++ [k])) as (_ & _ & H3). cbn [snd] in H3. rewrite Forall_forall in H3. specialize (H3 _ Hx).
        pose proof (kv_size_in' items (k, it) Hk) as Hsz. cbn [snd value_size] in *. lia.
    + apply leaf_facts. reflexivity.
  - intros p. cbn [ivit]. repeat split; intros; constructor.
  - intros v IH p. cbn [ivit iok item_size]. destruct (IH p) as (H1 & H2 & H3). split; [exact H1|]. split; [exact H2|].
    eapply Forall_impl; [|exact H3]. intros a Ha. cbn beta in Ha. lia.
  - intros t _ p. cbn [ivit]. repeat split; intros; constructor.
  - intros ts sp _ p. cbn [ivit]. repeat split; intros; constructor.
Qed.

Lemma ivi_ne items k0 : Forall (fun kv : list key * value => fst kv <> []) (ivi items [k0]) .
Proof.
  unfold ivi. apply Forall_forall. intros x Hx. apply in_flat_map in Hx as ([k it] & _ & Hx). cbn [fst snd] in Hx.
  destruct (proj1 (proj2 (ivv_facts [])) it ([k0] ++ [k])) as (H1 & _). specialize (H1 ltac:(discriminate)). rewrite Forall_forall in H1. apply H1, Hx.
Qed.

Lemma ivi_root_ne items : Forall (fun kv : list key * value => fst kv <> []) (ivi items []).
Proof.
  unfold ivi. apply Forall_forall. intros x Hx. apply in_flat_map in Hx as ([k it] & _ & Hx). cbn [fst snd app] in Hx.
  destruct (proj1 (proj2 (ivv_facts [])) it [k]) as (H1 & _). specialize (H1 ltac:(discriminate)). rewrite Forall_forall in H1. apply H1, Hx.
Qed.

Lemma ivi_ok s items p : items_ok s items = true -> Forall (fun kv : list key * value => vok s (snd kv) = true) (ivi items p).
Proof.
  intro H. unfold items_ok in H. rewrite forallb_forall in H. unfold ivi. apply Forall_forall. intros x Hx.
  apply in_flat_map in Hx as ([k it] & Hk & Hx). cbn [fst snd] in Hx.
  destruct (proj1 (proj2 (ivv_facts s)) it (p ++ [k])) as (_ & H2 & _). specialize (H2 (H _ Hk)). rewrite Forall_forall in H2. apply H2, Hx.
Qed.

Lemma ivi_size items p : Forall (fun kv : list key * value => S (value_size (snd kv)) <= items_size items) (ivi items p).
Proof.
  unfold ivi. apply Forall_forall. intros x Hx. apply in_flat_map in Hx as ([k it] & Hk & Hx). cbn [fst snd] in Hx.
  destruct (proj1 (proj2 (ivv_facts [])) it (p ++ [k])) as (_ & _ & H3). rewrite Forall_forall in H3. specialize (H3 _ Hx).
  pose proof (kv_size_in' items (k, it) Hk) as Hsz. cbn [snd] in Hsz. fold (items_size items) in Hsz. lia.
Qed.

(* ---- sorted lists ------------------------------------------------------------------------------------------------------------ *)
Lemma sorted_ltb_okK l : sorted_ltb l = true -> StronglySorted N.lt l.
Proof.
  induction l as [|x l IH]; [constructor|]. cbn [sorted_ltb]. intro H. apply andb_true_iff in H as [H1 H2].
  constructor; [apply IH, H2|]. rewrite forallb_forall in H1. apply Forall_forall. intros y Hy. specialize (H1 y Hy). lia.
Qed.
Lemma sorted_tag_ltK {A} (f : A -> N) (l : list A) : StronglySorted N.lt (map f l) -> StronglySorted klt (map (fun x => (f x, x)) l).
Proof.
  induction l as [|x l IH]; [constructor|]. cbn [map]. intro H. inversion H as [|? ? H1 H2]; subst. constructor; [apply IH, H1|].
  rewrite Forall_map in *. eapply Forall_impl; [|exact H2]. intros a Ha. unfold klt. cbn [fst]. exact Ha.
Qed.
Lemma sorted_tag_leK {A} (f : A -> N) (l : list A) : StronglySorted N.lt (map f l) -> StronglySorted kle (map (fun x => (f x, x)) l).
Proof.
  induction l as [|x l IH]; [constructor|]. cbn [map]. intro H. inversion H as [|? ? H1 H2]; subst. constructor; [apply IH, H1|].
  rewrite Forall_map in *. eapply Forall_impl; [|exact H2]. intros a Ha. unfold kle. cbn [fst]. cbn beta in Ha. lia.
Qed.
Lemma tag_injK {A} (f : A -> N) : forall l1 l2 : list A, map (fun x => (f x, x)) l1 = map (fun x => (f x, x)) l2 -> l1 = l2.
Proof. induction l1 as [|a l1 IH]; intros [|b l2] E; try discriminate; [reflexivity|]. cbn [map] in E. injection E as _ -> E. f_equal. apply IH, E. Qed.

(* the pairs of the tree in print order are the pairs read, when their positions increase *)
Lemma pairs_eqK ch (kvs : list (key * value)) :
  Permutation (map ipf ch) kvs ->
  sorted_ltb (map (fun c : list key * value => kra (last (fst c) kdummy)) ch) = true ->
  StronglySorted N.lt (map (fun kv : key * value => kra (fst kv)) kvs) -> map ipf ch = kvs.
Proof.
  intros HP Hs1 Hs2. apply (tag_injK (fun kv : key * value => kra (fst kv))). apply sorted_perm_unique.
  - apply sorted_tag_ltK, Hs2.
  - apply sorted_tag_leK. rewrite map_map. apply sorted_ltb_okK in Hs1. exact Hs1.
  - apply Permutation_map, HP.
Qed.

(* ---- what is known of a parsed value ---------------------------------------------------------------------------------- *)
Definition vrendK (s : bytes) (v : value) (o : bytes) : Prop :=
  vok s v = true -> forall fuel dflt, value_size (core s v) < fuel -> encode_value fuel (core s v) dflt = o.

Definition vrenderK_at (s : bytes) (p : parser value) : Prop :=
  forall i v i', isrc s i -> p i = Ok v i' ->
    exists t a o, vtext t a o /\ splits i t i' /\ isrc s i' /\ vrendK s v o
                  /\ value_span v = Some (pos i, pos i') /\ undot v = true /\ iwf v = true.

Lemma vrendK_decorated s v o i1 w1 j1 i2 w2 j2 :
  vrendK s v o -> isrc s i1 -> splits i1 w1 j1 -> isrc s i2 -> splits i2 w2 j2 ->
  vok s v = true -> forall fuel dflt,
  value_size (tvalue s (value_decorate v (raw_with_span (pos i1, pos j1)) (raw_with_span (pos i2, pos j2)))) < fuel ->
  encode_value fuel (tvalue s (value_decorate v (raw_with_span (pos i1, pos j1)) (raw_with_span (pos i2, pos j2)))) dflt
  = ncr w1 ++ o ++ ncr w2.
Proof.
  intros Hv H1 S1 H2 S2 Hs fuel dflt Hf. destruct fuel as [|f]; [lia|].
  rewrite (enc_decorated s v _ _ f dflt ([], [])). rewrite (span_prints s i1 w1 j1 _ H1 S1), (span_prints s i2 w2 j2 _ H2 S2).
  rewrite value_size_decorated in Hf. rewrite (Hv Hs (S f) ([], []) Hf). reflexivity.
Qed.

Section RenderK.
  Variable s : bytes.
  Variable vr : parser value.
  Hypothesis Hvr : vrenderK_at s vr.
  Hypothesis Hmono : mono vr.

  (* ---- arrays ---------------------------------------------------------------------------------------- *)
  (* an element as printed: trivia, value, trivia *)
  Definition irendK (it : item) (oi : bytes) : Prop :=
    exists v, it = IValue v /\
      (vok s v = true -> forall fuel dflt, value_size (tvalue s v) < fuel -> encode_value fuel (tvalue s v) dflt = oi).

  Lemma array_value_renderK i it i1 : isrc s i -> array_value vr i = Ok it i1 ->
    exists w1 t a o w2, wscn_tok w1 /\ vtext t a o /\ wscn_tok w2 /\ splits i (w1 ++ t ++ w2) i1 /\ isrc s i1
                        /\ irendK it (ncr w1 ++ o ++ ncr w2).
  Proof.
    unfold array_value. intros Hi H.
    apply bind_inv in H as (pre & j1 & H1 & H). pose proof H1 as H1'. apply span_inv in H1' as (u1 & _ & Epre).
    apply span_wscn_inv in H1 as (w1 & Hw1 & S1). destruct (isrc_splits s i w1 j1 Hi S1) as [Hj1 _].
    apply bind_inv in H as (v & j2 & H2 & H). destruct (Hvr j1 v j2 Hj1 H2) as (t & a & o & Ht & S2 & Hj2 & Hv & _).
    apply bind_inv in H as (suf & j3 & H3 & H). pose proof H3 as H3'. apply span_inv in H3' as (u3 & _ & Esuf).
    apply span_wscn_inv in H3 as (w2 & Hw2 & S3). destruct (isrc_splits s j2 w2 j3 Hj2 S3) as [Hj3 _].
    apply ret_inv in H as [-> ->]. exists w1, t, a, o, w2. repeat (split; [assumption|]).
    split; [exact (splits_trans _ _ _ _ _ S1 (splits_trans _ _ _ _ _ S2 S3))|]. split; [exact Hj3|].
    eexists. split; [reflexivity|]. subst pre suf. rewrite (vok_decorate s). intros Hs fuel dflt Hf.
    apply (vrendK_decorated s v o i w1 j1 j2 w2 j3 Hv Hi S1 Hj2 S3 Hs fuel dflt Hf).
  Qed.

  Lemma mono_shrinkingK {A} (p : parser A) : mono p -> shrinking p.
  Proof. intros Hp i a i' H. apply (ext_len _ _ _ (Hp _ _ _ H)). Qed.

  Lemma array_seps_renderK i1 items i2 : isrc s i1 -> seps (array_value vr) (byte_ ARRAY_SEP) i1 items i2 ->
    forall w1 t a o w2 c, wscn_tok w1 -> vtext t a o -> wscn_tok w2 -> (c = [] \/ c = [x2c]) ->
    exists u l ou, avtext (w1 ++ t ++ w2 ++ u ++ c) (a :: l) (ncr w1 ++ o ++ ncr w2 ++ ou ++ c)
                   /\ splits i1 u i2 /\ isrc s i2
                   /\ (forallb (iok s) items = true -> forall f,
                         (forall it, In it items -> item_size (titem s it) <= f) ->
                         enc_elems f false (map (titem s) items) = ou).
  Proof.
    intros Hi R. induction R as [i F|i x j E Hlt F|i x j it j2 items i3 E Hlt E2 Hle R IH]; intros w1 t a o w2 c Hw1 Ht Hw2 Hc.
    - exists [], [], []. split; [apply avt_last; assumption|]. split; [apply splits_nil|]. split; [exact Hi|]. intros; reflexivity.
    - exists [], [], []. split; [apply avt_last; assumption|]. split; [apply splits_nil|]. split; [exact Hi|]. intros; reflexivity.
    - apply byte_inv in E as [_ S1]. destruct (isrc_splits s i [x2c] j Hi S1) as [Hj _].
      destruct (array_value_renderK j it j2 Hj E2) as (w1' & t' & a' & o' & w2' & Hw1' & Ht' & Hw2' & S2 & Hj2 & (v' & Eit & Hit)).
      destruct (IH Hj2 w1' t' a' o' w2' c Hw1' Ht' Hw2' Hc) as (u & l & ou & Hav & S3 & Hi3 & Henc).
      exists ([x2c] ++ (w1' ++ t' ++ w2') ++ u), (a' :: l), ([x2c] ++ (ncr w1' ++ o' ++ ncr w2') ++ ou).
      split; [|split; [exact (splits_trans _ _ _ _ _ (splits_trans _ _ _ _ _ S1 S2) S3)|split; [exact Hi3|]]].
      + replace (w1 ++ t ++ w2 ++ ([x2c] ++ (w1' ++ t' ++ w2') ++ u) ++ c)
          with (w1 ++ t ++ w2 ++ [x2c] ++ (w1' ++ t' ++ w2' ++ u ++ c)) by (rewrite <- !app_assoc; reflexivity).
        replace (ncr w1 ++ o ++ ncr w2 ++ ([x2c] ++ (ncr w1' ++ o' ++ ncr w2') ++ ou) ++ c)
          with (ncr w1 ++ o ++ ncr w2 ++ [x2c] ++ (ncr w1' ++ o' ++ ncr w2' ++ ou ++ c)) by (rewrite <- !app_assoc; reflexivity).
        apply avt_more; assumption.
      + cbn [forallb]. intros Hs f Hsz. apply andb_true_iff in Hs as [Hs1 Hs2]. subst it. cbn [iok] in Hs1. cbn [map]. rewrite titem_value, enc_elems_value. cbv iota.
        rewrite (Hit Hs1 f DEFAULT_VALUE_DECOR).
        * rewrite (Henc Hs2 f); [rewrite <- !app_assoc; reflexivity|]. intros it0 Hin. apply Hsz. right. exact Hin.
        * specialize (Hsz (IValue v') (or_introl eq_refl)). rewrite titem_value in Hsz. cbn [item_size] in Hsz. lia.
  Qed.

  Lemma array_values_renderK i v i' : isrc s i -> array_values vr i = Ok v i' ->
    exists body l ob items tr c dec sp,
      v = VArray items tr c dec sp /\ splits i body i' /\ isrc s i'
      /\ vtext ([x5b] ++ body ++ [x5d]) (AArr l) ([x5b] ++ ob ++ [x5d])
      /\ (forallb (iok s) items = true -> forall f, (forall it, In it items -> item_size (titem s it) <= f) ->
           enc_elems f true (map (titem s) items)
           ++ (if c && negb (match items with [] => true | _ => false end) then [x2c] else []) ++ raw_encode (traw s tr) [] = ob).
  Proof.
    unfold array_values. intros Hi H. apply bind_inv in H as (c & j & H1 & H). apply peek_inv in H1 as [-> _].
    destruct c as [x|].
    - apply ret_inv in H as [-> ->]. exists [], [], [], [], REmpty, false, decor_default, None.
      split; [reflexivity|]. split; [apply splits_nil|]. split; [exact Hi|]. split; [apply (vt_array_empty [] wscn_nil)|]. intros; reflexivity.
    - apply bind_inv in H as (vals & j1 & H1 & H).
      apply bind_inv in H as (comma & j2 & H2 & H). apply bind_inv in H as (tr & j3 & H3 & H).
      pose proof H3 as H3'. apply span_inv in H3' as (u3 & _ & Etr).
      apply span_wscn_inv in H3 as (w & Hw & S3). apply ret_inv in H as [-> ->].
      apply (separated0_inv _ _ _ _ _ (mono_shrinkingK _ (array_value_mono vr Hmono)) (byte_shrinking _)) in H1
        as [(-> & -> & _) | (it & i1 & items & -> & E & R)].
      + apply ret_inv in H2 as [-> ->]. destruct (isrc_splits s i w j3 Hi S3) as [Hj3 _].
        exists w, [], (ncr w), [], (raw_with_span tr), false, decor_default, None.
        split; [reflexivity|]. split; [exact S3|]. split; [exact Hj3|]. split; [apply (vt_array_empty w Hw)|].
        intros _ f _. cbn [map enc_elems andb app]. subst tr. apply (span_prints s i w j3 [] Hi S3).
      + apply pmap_inv in H2 as (o & H2 & Ecomma).
        destruct (array_value_renderK i it i1 Hi E) as (w1 & t & a & ov & w2 & Hw1 & Ht & Hw2 & S1 & Hi1 & (v0 & Eit & Hit)).
        assert (Hc : exists c, (c = [] \/ c = [x2c]) /\ splits j1 c j2 /\ c = (if comma then [x2c] else [])).
        { apply opt_inv in H2 as [(x & -> & H2) | (-> & -> & _)].
          - apply byte_inv in H2 as [_ S]. exists [x2c]. subst comma. auto.
          - exists []. subst comma. split; [auto|]. split; [apply splits_nil|reflexivity]. }
        destruct Hc as (c & Hc & S2 & Ec).
        destruct (array_seps_renderK i1 items j1 Hi1 R w1 t a ov w2 c Hw1 Ht Hw2 Hc) as (u & l & ou & Hav & Su & Hj1 & Henc).
        destruct (isrc_splits s j1 c j2 Hj1 S2) as [Hj2 _]. destruct (isrc_splits s j2 w j3 Hj2 S3) as [Hj3 _].
        exists (((w1 ++ t ++ w2) ++ u ++ c) ++ w), (a :: l), ((ncr w1 ++ ov ++ ncr w2 ++ ou ++ c) ++ ncr w),
               (it :: items), (raw_with_span tr), comma, decor_default, None.
        split; [reflexivity|]. split; [exact (splits_trans _ _ _ _ _ (splits_trans _ _ _ _ _ S1 (splits_trans _ _ _ _ _ Su S2)) S3)|].
        split; [exact Hj3|]. split.
        * replace ([x5b] ++ (((w1 ++ t ++ w2) ++ u ++ c) ++ w) ++ [x5d])
            with ([x5b] ++ (w1 ++ t ++ w2 ++ u ++ c) ++ w ++ [x5d]) by (rewrite <- !app_assoc; reflexivity).
          replace ([x5b] ++ ((ncr w1 ++ ov ++ ncr w2 ++ ou ++ c) ++ ncr w) ++ [x5d])
            with ([x5b] ++ (ncr w1 ++ ov ++ ncr w2 ++ ou ++ c) ++ ncr w ++ [x5d]) by (rewrite <- !app_assoc; reflexivity).
          apply vt_array; assumption.
        * cbn [forallb]. intros Hs f Hsz. apply andb_true_iff in Hs as [Hs1 Hs2]. subst it. cbn [iok] in Hs1. cbn [map]. rewrite titem_value, enc_elems_value. cbv iota. cbn [app].
          rewrite (Hit Hs1 f DEFAULT_LEADING_VALUE_DECOR).
          -- rewrite (Henc Hs2 f); [|intros it0 Hin; apply Hsz; right; exact Hin].
             subst tr. rewrite (span_prints s j2 w j3 [] Hj2 S3). rewrite andb_true_r, <- Ec. rewrite <- !app_assoc. reflexivity.
          -- specialize (Hsz (IValue v0) (or_introl eq_refl)). rewrite titem_value in Hsz. cbn [item_size] in Hsz. lia.
  Qed.

  Lemma array_renderK i v i' : isrc s i -> array vr i = Ok v i' ->
    exists t l o, vtext t (AArr l) o /\ splits i t i' /\ isrc s i' /\ vrendK s v o /\ nonscalar v
                  /\ exists items tr c dec sp, v = VArray items tr c dec sp.
  Proof.
    unfold array. intros Hi H. apply bind_inv in H as (x & j1 & H1 & H). apply byte_inv in H1 as [_ S1].
    destruct (isrc_splits s i [x5b] j1 Hi S1) as [Hj1 _].
    apply bind_inv in H as (a & j2 & H2 & H). apply cut_err_inv in H2.
    destruct (array_values_renderK j1 a j2 Hj1 H2) as (body & l & ob & items & tr & c & dec & sp & -> & S2 & Hj2 & Hv & Henc).
    apply bind_inv in H as (y & j3 & H3 & H). apply context_inv, cut_err_inv, byte_inv in H3 as [_ S3].
    destruct (isrc_splits s j2 [x5d] j3 Hj2 S3) as [Hj3 _]. apply ret_inv in H as [-> ->].
    exists ([x5b] ++ body ++ [x5d]), l, ([x5b] ++ ob ++ [x5d]). split; [exact Hv|].
    split; [exact (splits_trans _ _ _ _ _ S1 (splits_trans _ _ _ _ _ S2 S3))|]. split; [exact Hj3|]. split; [|split; [exact I|eexists _, _, _, _, _; reflexivity]].
    unfold vrendK. rewrite (vok_array s). intros Hs fuel dflt Hf. unfold core in *. cbn [value_decorate] in *. rewrite tvalue_array in *.
    destruct fuel as [|f]; [lia|]. rewrite enc_array. unfold decor_prefix, decor_suffix. cbn [tdecor decor_new d_prefix d_suffix toraw traw].
    rewrite !raw_encode_empty. cbn [app]. rewrite ?app_nil_r.
    assert (Hsz : forall it, In it items -> item_size (titem s it) <= f).
    { intros it Hin. cbn [value_size] in Hf. pose proof (item_size_in (map (titem s) items) (titem s it) (in_map _ _ _ Hin)). lia. }
    specialize (Henc Hs f Hsz).
    replace (match map (titem s) items with [] => true | _ :: _ => false end) with (match items with [] => true | _ :: _ => false end)
      by (destruct items; reflexivity).
    rewrite <- Henc. rewrite <- !app_assoc. reflexivity.
  Qed.


  (* ---- inline tables: one pair -------------------------------------------------------------------------------------- *)
  Definition pkey (x : list key * (key * item)) : key := fst (snd x).

  (* a pair read at position `start` (after the brace or a comma), ending at `nend` (where the next comma or the
     closing brace stands): what it records, and what it prints as when its prefix keys are spelled as here *)
  Definition prendK (x : list key * (key * item)) (start : nat) (w0 body : bytes) (nend : nat) : Prop :=
    exists v j0 ja jb LS r eend,
      snd (snd x) = IValue v /\ undot v = true /\ iwf v = true /\
      isrc s j0 /\ N.to_nat (pos j0) = start + length w0 /\
      rest j0 = (pre_text s (fst x) (pkey x) ++ krepr s (pkey x)) ++ LS ++ [x3d] ++ r /\
      (forall d, decor_prefix (k_leaf (tkey s (pkey x))) d = w0) /\ (forall d, decor_suffix (k_leaf (tkey s (pkey x))) d = LS) /\ ws_tok LS /\
      k_repr (pkey x) = Some (raw_with_span (pos ja, pos jb)) /\
      pos ja = (pos j0 + N.of_nat (length (pre_text s (fst x) (pkey x))))%N /\ pos ja <> pos jb /\
      Forall (hkey s) (fst x) /\ lkey s (pkey x) /\
      vend v = Some eend /\ nend = N.to_nat eend + length (decor_suffix (tdecor s (vdecor v)) []) /\ (pos ja < eend)%N /\
      (forall ks f dflt D z, pre_text s ks (pkey x) = pre_text s (fst x) (pkey x) -> vok s v = true -> value_size (tvalue s v) < f ->
         encode_key_path (map (tkey s) (ks ++ [pkey x])) D ++ [x3d] ++ encode_value f (tvalue s v) dflt ++ z = w0 ++ body ++ z).

  Lemma undot_decorate v p q : undot (value_decorate v p q) = undot v.
  Proof. destruct v; reflexivity. Qed.
  Lemma iwf_decorate v p q : iwf (value_decorate v p q) = iwf v.
  Proof. destruct v; reflexivity. Qed.
  Lemma span_decorate v p q : value_span (value_decorate v p q) = value_span v.
  Proof. destruct v; reflexivity. Qed.
  Lemma vdecor_decorate v p q : vdecor (value_decorate v p q) = decor_new p q.
  Proof. destruct v; reflexivity. Qed.

  Lemma splits_posK i t i' : splits i t i' -> pos i' = (pos i + N.of_nat (length t))%N.
  Proof. intros [_ ->]. apply pos_adv. Qed.

  Lemma inline_keyval_renderK i x i1 : isrc s i -> inline_keyval vr i = Ok x i1 ->
    exists w0 kt p w1 w2 t a o w3,
      ws_tok w0 /\ key_tok kt p /\ ws_tok w1 /\ ws_tok w2 /\ vtext t a o /\ ws_tok w3
      /\ splits i (w0 ++ (kt ++ w1 ++ [x3d] ++ w2 ++ t) ++ w3) i1 /\ isrc s i1
      /\ prendK x (N.to_nat (pos i)) w0 ((kt ++ w1 ++ [x3d] ++ w2 ++ o) ++ w3) (N.to_nat (pos i1)) /\ stops wschar (rest i1).
  Proof.
    rewrite inline_keyval_eq. intros Hi H. apply bind_inv in H as (kp & j1 & H1 & H).
    pose proof (key_hkeys s i kp j1 Hi H1) as HK.
    destruct (key_exact s i kp j1 Hi H1) as (path & k & j0 & ja & jb & w0 & pre & R & w1 & Ekp & Hw0 & Hw1 & S0 & Spre & SR & S1 & Erepr & Eleaf).
    destruct (key_render s i kp j1 Hi H1) as (w0r & ktr & w1r & Hw0r & Hktr & Hw1r & Skr & Hj1 & Hkenc).
    destruct (isrc_splits s i w0 j0 Hi S0) as [Hj0 _]. destruct (isrc_splits s j0 pre ja Hj0 Spre) as [Hja _].
    destruct (isrc_splits s ja R jb Hja SR) as [Hjb _].
    assert (EkR : krepr s k = R).
    { unfold krepr, key_display_repr. rewrite tkey_fields. cbn [k_repr]. rewrite Erepr. cbn [toraw]. rewrite (span_repr' s ja R jb Hja SR). reflexivity. }
    assert (ELP : forall d, decor_prefix (k_leaf (tkey s k)) d = w0).
    { intro d. rewrite tkey_fields. unfold decor_prefix, tdecor. cbn [k_leaf]. rewrite Eleaf. cbn [decor_new d_prefix toraw].
      rewrite (span_prints s i w0 j0 d Hi S0). apply ncr_ws, Hw0. }
    assert (ELS : forall d, decor_suffix (k_leaf (tkey s k)) d = w1).
    { intro d. rewrite tkey_fields. unfold decor_suffix, tdecor. cbn [k_leaf]. rewrite Eleaf. cbn [decor_new d_suffix toraw].
      rewrite (span_prints s jb w1 j1 d Hjb S1). apply ncr_ws, Hw1. }
    assert (Epre : pre_text s path k = pre).
    { pose proof (Hkenc DEFAULT_KEY_DECOR) as E1. rewrite Ekp, enc_split, ELP, ELS, EkR in E1.
      pose proof (splits_trans _ _ _ _ _ S0 (splits_trans _ _ _ _ _ Spre (splits_trans _ _ _ _ _ SR S1))) as [Ra _]. destruct Skr as [Rb _].
      rewrite Ra in Rb. apply app_inv_tail in Rb. rewrite <- Rb in E1. apply app_inv_head in E1. rewrite !app_assoc in E1.
      apply app_inv_tail in E1. apply app_inv_tail in E1. exact E1. }
    assert (HKk : Forall (hkey s) path /\ lkey s k).
    { rewrite Ekp in HK. apply Forall_app in HK as [H1' H2']. inversion H2'; subst. split; [assumption|apply hkey_lkey; assumption]. }
    destruct HKk as [HKp HKk].
    assert (Hkt : key_tok (pre ++ R) (map k_key (path ++ [k]))).
    { destruct (pre_shape s path k HKp HKk) as (tt & Htt & Ett). rewrite Epre, EkR in Ett. rewrite Ett. exact Htt. }
    apply bind_inv in H as ([[prev v] suf] & j2 & H2 & H). unfold inline_kv_rhs in H2.
    apply cut_err_inv in H2. apply bind_inv in H2 as (y & k1 & E1 & H2). apply context_inv, byte_inv in E1 as [_ Se].
    destruct (isrc_splits s j1 [x3d] k1 Hj1 Se) as [Hk1 _].
    apply bind_inv in H2 as (pre' & k2 & E2 & H2). pose proof E2 as E2'. apply span_inv in E2' as (u2 & _ & Epre').
    apply span_ws_inv in E2 as (w2 & Hw2 & S2 & _). destruct (isrc_splits s k1 w2 k2 Hk1 S2) as [Hk2 _].
    apply bind_inv in H2 as (v' & k3 & E3 & H2). destruct (Hvr k2 v' k3 Hk2 E3) as (t & a & o & Ht & S3 & Hk3 & Hv & Hspan & Hud & Hwf).
    apply bind_inv in H2 as (suf' & k4 & E4 & H2). pose proof E4 as E4'. apply span_inv in E4' as (u4 & _ & Esuf).
    apply span_ws_inv in E4 as (w3 & Hw3 & S4 & Hst). destruct (isrc_splits s k3 w3 k4 Hk3 S4) as [Hk4 _].
    apply ret_inv in H2 as [E ->]. injection E as -> -> ->.
    rewrite Ekp, DefsEquivSim.pop_key_app in H. apply ret_inv in H as [-> ->].
    exists w0, (pre ++ R), (map k_key (path ++ [k])), w1, w2, t, a, o, w3. repeat (split; [assumption|]).
    pose proof Se as Se'. destruct Se' as [Re _].
    split; [|split; [exact Hk4|split; [|exact Hst]]].
    - pose proof (splits_trans _ _ _ _ _ S0 (splits_trans _ _ _ _ _ Spre (splits_trans _ _ _ _ _ SR (splits_trans _ _ _ _ _ S1
                   (splits_trans _ _ _ _ _ Se (splits_trans _ _ _ _ _ S2 (splits_trans _ _ _ _ _ S3 S4))))))) as S.
      rewrite <- !app_assoc in *. exact S.
    - unfold prendK, pkey. cbn [fst snd]. subst pre' suf'.
      exists (value_decorate v' (raw_with_span (pos k1, pos k2)) (raw_with_span (pos k3, pos k4))), j0, ja, jb, w1, (rest k1), (pos k3).
      split; [reflexivity|]. split; [rewrite undot_decorate; exact Hud|]. split; [rewrite iwf_decorate; exact Hwf|]. split; [exact Hj0|].
      split; [rewrite (splits_posK _ _ _ S0); lia|].
      split.
      { rewrite Epre, EkR. pose proof (splits_trans _ _ _ _ _ Spre (splits_trans _ _ _ _ _ SR S1)) as [Rq _]. rewrite Rq, Re, <- !app_assoc. reflexivity. }
      split; [exact ELP|]. split; [exact ELS|]. split; [exact Hw1|]. split; [exact Erepr|].
      split; [rewrite Epre; apply (splits_posK _ _ _ Spre)|].
      assert (HRne : R <> []).
      { pose proof (krepr_tok s k HKk) as Hs. rewrite EkR in Hs. destruct (simple_key_khead _ _ Hs) as (b & t' & -> & _). discriminate. }
      split; [rewrite (splits_posK _ _ _ SR); destruct R; [congruence|cbn [length]; lia]|].
      split; [exact HKp|]. split; [exact HKk|].
      split; [unfold vend; rewrite span_decorate, Hspan; reflexivity|].
      split.
      { rewrite vdecor_decorate. unfold decor_suffix, tdecor. cbn [decor_new d_suffix toraw]. rewrite (span_prints s k3 w3 k4 [] Hk3 S4), (ncr_ws w3 Hw3).
        rewrite (splits_posK _ _ _ S4). lia. }
      split.
      { pose proof (splits_posK _ _ _ SR) as P1. pose proof (splits_posK _ _ _ S1) as P2. pose proof (splits_posK _ _ _ Se) as P3.
        pose proof (splits_posK _ _ _ S2) as P4. pose proof (splits_posK _ _ _ S3) as P5. destruct R; [congruence|]. cbn [length] in *. lia. }
      intros ks f dflt D z Eks Hs Hf. rewrite vok_decorate in Hs.
      rewrite enc_split, ELP, ELS, EkR, Eks, Epre.
      rewrite (vrendK_decorated s v' o k1 w2 k2 k3 w3 k4 Hv Hk1 S2 Hk3 S4 Hs f dflt Hf).
      rewrite (ncr_ws w2 Hw2), (ncr_ws w3 Hw3). rewrite <- !app_assoc. reflexivity.
  Qed.

  (* ---- the pairs behind the first one ------------------------------------------------------------------------------------ *)
  (* b: where the brace / comma in front of the next pair stands; e: where the last pair ends *)
  Fixpoint chainB (prs : list (list key * (key * item))) (rows : list (bytes * bytes)) (b e : nat) : Prop :=
    match prs, rows with
    | [], [] => e = b
    | x :: tl, r :: rtl => exists nend, prendK x (b + 1) (fst r) (snd r) nend /\ chainB tl rtl nend e
    | _, _ => False
    end.

  Lemma inline_seps_renderK i1 prs i2 : isrc s i1 -> seps (inline_keyval vr) (byte_ INLINE_TABLE_SEP) i1 prs i2 ->
    stops wschar (rest i1) ->
    forall kt p w1 w2 t a o w3, key_tok kt p -> ws_tok w1 -> ws_tok w2 -> vtext t a o -> ws_tok w3 ->
    exists u l ou wl x,
      splits i1 x i2 /\ isrc s i2 /\ stops wschar (rest i2) /\ w3 ++ x = u ++ wl /\ ws_tok wl
      /\ iktext (kt ++ w1 ++ [x3d] ++ w2 ++ t ++ u) ((p, a) :: l) (kt ++ w1 ++ [x3d] ++ w2 ++ o ++ ou)
      /\ exists rows : list (bytes * bytes),
           chainB prs rows (N.to_nat (pos i1)) (N.to_nat (pos i2))
           /\ w3 ++ flat_map (fun r => [x2c] ++ fst r ++ snd r) rows = ou ++ wl.
  Proof.
    intros Hi R. induction R as [i F|i x j E Hlt F|i x j pr j2 prs i3 E Hlt E2 Hle R IH]; intros Hst0 kt p w1 w2 t a o w3 Hkt Hw1 Hw2 Ht Hw3.
    - exists [], [], [], w3, []. split; [apply splits_nil|]. split; [exact Hi|]. split; [exact Hst0|]. split; [rewrite !app_nil_r; reflexivity|]. split; [exact Hw3|].
      split; [rewrite !app_nil_r; apply ikt_last; assumption|]. exists []. split; [reflexivity|]. cbn [flat_map]. rewrite app_nil_r. reflexivity.
    - exists [], [], [], w3, []. split; [apply splits_nil|]. split; [exact Hi|]. split; [exact Hst0|]. split; [rewrite !app_nil_r; reflexivity|]. split; [exact Hw3|].
      split; [rewrite !app_nil_r; apply ikt_last; assumption|]. exists []. split; [reflexivity|]. cbn [flat_map]. rewrite app_nil_r. reflexivity.
    - apply byte_inv in E as [_ S1]. destruct (isrc_splits s i [x2c] j Hi S1) as [Hj _].
      destruct (inline_keyval_renderK j pr j2 Hj E2)
        as (w0' & kt' & p' & w1' & w2' & t' & a' & o' & w3' & Hw0' & Hkt' & Hw1' & Hw2' & Ht' & Hw3' & S2 & Hj2 & Hpr & Hst2).
      destruct (IH Hj2 Hst2 kt' p' w1' w2' t' a' o' w3' Hkt' Hw1' Hw2' Ht' Hw3') as (u & l & ou & wl & x' & Sx & Hi3 & Hst3 & Ex & Hwl & Hkv & rows & HF & Erows).
      exists (w3 ++ [x2c] ++ w0' ++ (kt' ++ w1' ++ [x3d] ++ w2' ++ t' ++ u)), ((p', a') :: l),
             (w3 ++ [x2c] ++ w0' ++ (kt' ++ w1' ++ [x3d] ++ w2' ++ o' ++ ou)), wl,
             (([x2c] ++ w0' ++ (kt' ++ w1' ++ [x3d] ++ w2' ++ t') ++ w3') ++ x').
      split; [exact (splits_trans _ _ _ _ _ (splits_trans _ _ _ _ _ S1 S2) Sx)|]. split; [exact Hi3|]. split; [exact Hst3|].
      split; [rewrite <- !app_assoc; rewrite Ex; reflexivity|]. split; [exact Hwl|]. split.
      + replace (kt ++ w1 ++ [x3d] ++ w2 ++ t ++ w3 ++ [x2c] ++ w0' ++ kt' ++ w1' ++ [x3d] ++ w2' ++ t' ++ u)
          with (kt ++ w1 ++ [x3d] ++ w2 ++ t ++ w3 ++ [x2c] ++ w0' ++ (kt' ++ w1' ++ [x3d] ++ w2' ++ t' ++ u)) by reflexivity.
        apply ikt_more; assumption.
      + exists ((w0', (kt' ++ w1' ++ [x3d] ++ w2' ++ o') ++ w3') :: rows). split.
        * cbn [chainB fst snd]. exists (N.to_nat (pos j2)). split; [|exact HF].
          assert (Ej : N.to_nat (pos j) = N.to_nat (pos i) + 1) by (rewrite (splits_posK _ _ _ S1); cbn [length]; lia). rewrite <- Ej. exact Hpr.
        * cbn [flat_map fst snd]. rewrite <- !app_assoc. do 8 f_equal. exact Erows.
  Qed.

  (* ---- a pair of the tree that is a pair read, spelled as read: what it prints ------------------------------------------------ *)
  Definition cmatch (c : list key * value) (x : list key * (key * item)) : Prop :=
    fst c <> [] /\ last (fst c) kdummy = pkey x /\ snd (snd x) = IValue (snd c)
    /\ pre_text s (removelast (fst c)) (pkey x) = pre_text s (fst x) (pkey x).

  Lemma pair_printsK c x start w0 body nend f dflt z :
    prendK x start w0 body nend -> cmatch c x -> vok s (snd c) = true -> value_size (tvalue s (snd c)) < f ->
    encode_key_path (map (tkey s) (fst c)) DEFAULT_INLINE_KEY_DECOR ++ [x3d] ++ encode_value f (tvalue s (snd c)) dflt ++ z = w0 ++ body ++ z.
  Proof.
    intros (v & j0 & ja & jb & LS & r & eend & Ev & _ & _ & _ & _ & _ & _ & _ & _ & _ & _ & _ & _ & _ & _ & _ & _ & Hprom) (Hne & Hl & Ec & Esp) Hok Hf.
    rewrite Ec in Ev. injection Ev as <-. rewrite (app_removelast_last kdummy Hne) at 1. rewrite Hl. apply (Hprom _ f dflt _ z Esp Hok Hf).
  Qed.

  Lemma enc_rowsK f len : forall ch prs rows b e i, chainB prs rows b e -> Forall2 cmatch ch prs ->
    Forall (fun c : list key * value => vok s (snd c) = true) ch -> Forall (fun c : list key * value => value_size (tvalue s (snd c)) < f) ch ->
    enc_kvs f len (S i) (map (tline s) ch) = flat_map (fun r => [x2c] ++ fst r ++ snd r) rows.
  Proof.
    induction ch as [|c ch IH]; intros prs rows b e i Hc HF Hok Hsz.
    - inversion HF; subst. destruct rows; [reflexivity|destruct Hc].
    - inversion HF as [|? x ? prs' Hm HF']; subst. destruct rows as [|r rows]; [destruct Hc|]. cbn [chainB] in Hc. destruct Hc as (nend & Hp & Hc).
      inversion Hok as [|? ? Ho Hok']; subst. inversion Hsz as [|? ? Hs Hsz']; subst.
      cbn [map enc_kvs]. unfold tline at 1. cbn [fst snd Nat.eqb].
      rewrite (pair_printsK c x _ _ _ _ f _ _ Hp Hm Ho Hs). rewrite (IH prs' rows nend e (S i) Hc HF' Hok' Hsz').
      cbn [flat_map]. rewrite <- !app_assoc. reflexivity.
  Qed.

  (* ---- the pairs in print order follow each other as they were read: they are spelled as read -------------------------------- *)
  Lemma pair_kv_ok x start w0 body nend : prendK x start w0 body nend -> exists v, snd (snd x) = IValue v /\ pair_kv x = [(pkey x, v)].
  Proof. intros (v & j0 & ja & jb & LS & r & eend & Ev & _). exists v. split; [exact Ev|]. unfold pair_kv, pkey. rewrite Ev. reflexivity. Qed.

  Lemma chain_spell : forall ch prs rows b e, chainB prs rows b e ->
    map ipf ch = flat_map pair_kv prs -> Forall (fun c : list key * value => fst c <> []) ch ->
    chain_ok s (b + 1) ch = true -> Forall2 cmatch ch prs.
  Proof.
    induction ch as [|[kp e0] ch IH]; intros prs rows b e Hc Em Hne Hok.
    - destruct prs as [|x prs]; [constructor|]. destruct rows as [|r rows]; [destruct Hc|]. destruct Hc as (nend & Hp & _).
      destruct (pair_kv_ok _ _ _ _ _ Hp) as (v & _ & Ekv). cbn [flat_map map] in Em. rewrite Ekv in Em. discriminate.
    - destruct prs as [|x prs]; [discriminate|]. destruct rows as [|r rows]; [destruct Hc|]. cbn [chainB] in Hc. destruct Hc as (nend & Hp & Hc).
      destruct (pair_kv_ok _ _ _ _ _ Hp) as (v & Ev & Ekv). cbn [flat_map map] in Em. rewrite Ekv in Em. cbn [app] in Em. injection Em as El Ee Em.
      unfold ipf in El, Ee. cbn [fst snd] in El, Ee. inversion Hne as [|? ? Hkp Hne']; subst. cbn [fst] in Hkp.
      change (mkKey [] None decor_default decor_default) with kdummy in El. cbn [chain_ok] in Hok. rewrite El in Hok.
      destruct Hp as (v1 & j0 & ja & jb & LS & r0 & eend & Ev1 & _ & _ & Hj0 & Ej0 & Rj & ELP & ELS & _ & Erepr & Eja & Hnj & _ & _ & Evend & Enend & _ & _).
      rewrite Ev in Ev1. injection Ev1 as <-.
      rewrite Erepr in Hok. unfold raw_with_span in Hok. cbn [fst snd] in Hok. destruct (pos ja =? pos jb)%N eqn:Q; [apply N.eqb_eq in Q; congruence|].
      rewrite Evend, (ELP []), (ELS []) in Hok. apply andb_true_iff in Hok as [Hok Hrest]. apply andb_true_iff in Hok as [Hanchor Hsw].
      apply Nat.eqb_eq in Hanchor.
      set (X := pre_text s (removelast kp) (pkey x)) in *. set (Y := pre_text s (fst x) (pkey x)) in *.
      assert (EXY : X = Y).
      { assert (Hlen : length X = length Y) by lia.
        rewrite <- Ej0 in Hsw. rewrite (isrc_skipn s j0 Hj0) in Hsw.
        unfold starts_with in Hsw. destruct (strip_prefix _ _) as [r1|] eqn:Q1; [|discriminate]. apply strip_prefix_spec in Q1.
        rewrite Rj in Q1. assert (Q2 : Y ++ (krepr s (pkey x) ++ LS ++ [x3d] ++ r0) = X ++ (krepr s (pkey x) ++ LS ++ [x3d] ++ r1))
          by (rewrite <- ?app_assoc in Q1; rewrite <- ?app_assoc; exact Q1).
        symmetry. apply (app_same_length _ _ _ _ Q2). lia. }
      constructor; [split; [exact Hkp|split; [exact El|split; [exact Ev|exact EXY]]]|].
      apply (IH prs rows nend e Hc Em Hne'). rewrite <- Hrest. f_equal. lia.
  Qed.

  (* ---- the pairs as read: in source order ------------------------------------------------------------------------------------ *)
  Lemma chain_sorted : forall prs rows b e, chainB prs rows b e ->
    Forall (fun kv : key * value => b < N.to_nat (kra (fst kv))) (flat_map pair_kv prs)
    /\ StronglySorted N.lt (map (fun kv : key * value => kra (fst kv)) (flat_map pair_kv prs))
    /\ Forall pair_ok prs.
  Proof.
    induction prs as [|x prs IH]; intros rows b e Hc; [repeat split; constructor|].
    destruct rows as [|r rows]; [destruct Hc|]. cbn [chainB] in Hc. destruct Hc as (nend & Hp & Hc).
    destruct (IH rows nend e Hc) as (Hlt & Hso & Hok). destruct (pair_kv_ok _ _ _ _ _ Hp) as (v & Ev & Ekv).
    destruct Hp as (v1 & j0 & ja & jb & LS & r0 & eend & Ev1 & Hud & Hwf & Hj0 & Ej0 & _ & _ & _ & _ & Erepr & Eja & Hnj & _ & _ & Evend & Enend & Hlt1 & _).
    assert (Ekra : kra (pkey x) = pos ja).
    { unfold kra. rewrite Erepr. unfold raw_with_span. cbn [fst snd]. destruct (pos ja =? pos jb)%N eqn:Q; [apply N.eqb_eq in Q; congruence|reflexivity]. }
    cbn [flat_map]. rewrite Ekv. cbn [app map fst]. rewrite Ekra. split; [|split].
    - constructor; [cbn [fst]; rewrite Ekra; lia|]. eapply Forall_impl; [|exact Hlt]. intros kv Hkv. cbn beta in Hkv. lia.
    - constructor; [exact Hso|]. rewrite Forall_map. eapply Forall_impl; [|exact Hlt]. intros kv Hkv. cbn beta in Hkv. lia.
    - constructor; [|exact Hok]. exists v1. auto.
  Qed.

  (* pairs with plain keys: the tree holds them in order *)
  Lemma chain_plain : forall prs rows b e, chainB prs rows b e -> Forall (fun x => fst x = []) prs ->
    exists kvl, prs = map plain_pair kvl /\ Forall (fun kv : key * value => undot (snd kv) = true) kvl.
  Proof.
    induction prs as [|x prs IH]; intros rows b e Hc Hp; [exists []; split; [reflexivity|constructor]|].
    destruct rows as [|r rows]; [destruct Hc|]. cbn [chainB] in Hc. destruct Hc as (nend & Hx & Hc). inversion Hp as [|? ? Hx0 Hp']; subst.
    destruct (IH rows nend e Hc Hp') as (kvl & -> & Hu). destruct Hx as (v & j0 & ja & jb & LS & r0 & eend & Ev & Hud & _).
    destruct x as [path [k it]]. cbn [fst snd] in *. subst path it. exists ((k, v) :: kvl). split; [reflexivity|constructor; assumption].
  Qed.

  Lemma ivi_plain kvl : Forall (fun kv : key * value => undot (snd kv) = true) kvl ->
    ivi (map mk_item kvl) [] = map (fun kv => ([fst kv], snd kv)) kvl.
  Proof.
    induction 1 as [|[k v] tl Hu _ IH]; [reflexivity|]. cbn [map]. unfold mk_item at 1. cbn [fst snd].
    change (ivi ((k, IValue v) :: map mk_item tl) []) with (ivv v [k] ++ ivi (map mk_item tl) []). rewrite IH.
    cbn [snd] in Hu. rewrite (ivv_leaf v [k] Hu). reflexivity.
  Qed.

  Lemma plain_cmatch kvl : Forall2 cmatch (map (fun kv : key * value => ([fst kv], snd kv)) kvl) (map plain_pair kvl).
  Proof.
    induction kvl as [|[k v] tl IH]; [constructor|]. cbn [map]. constructor; [|exact IH]. unfold cmatch, plain_pair, pkey. cbn [fst snd last removelast].
    repeat split. discriminate.
  Qed.

  Lemma has_bad_paths pairs m : table_from_pairs_loop_d [] pairs = COk m -> has_bad (inline_spans_pass m pairs) = false ->
    Forall (fun x => fst x = []) pairs.
  Proof.
    intros H Hb. apply Forall_forall. intros x Hin. destruct (fst x) as [|pk ptl] eqn:E; [reflexivity|]. exfalso.
    assert (Hb' : has_bad m = true).
    { apply (loop_d_bad pairs [] m H). right. apply Exists_exists. exists x. split; [exact Hin|]. rewrite E. discriminate. }
    rewrite <- (spans_pass_bad pairs m) in Hb'. congruence.
  Qed.

  (* ---- an inline table ---------------------------------------------------------------------------------------------------------- *)
  Lemma inline_table_renderK i v i' : isrc s i -> inline_table vr i = Ok v i' ->
    exists t kvs o, vtext t (AInl kvs) o /\ splits i t i' /\ isrc s i' /\ nonscalar v
      /\ (forall b0, vrendK s (apply_raw v (pos i, b0)) o /\ undot (apply_raw v (pos i, b0)) = true /\ iwf (apply_raw v (pos i, b0)) = true).
  Proof.
    rewrite inline_table_eq. intros Hi H. apply bind_inv in H as (x & j1 & H1 & H). apply byte_inv in H1 as [_ S1].
    destruct (isrc_splits s i [x7b] j1 Hi S1) as [Hj1 _].
    apply bind_inv in H as (tv & j2 & H2 & H). apply cut_err_inv in H2. unfold inline_body in H2.
    apply try_map_inv in H2 as ([pairs pre] & H2 & Htm).
    apply bind_inv in H as (y & j3 & H3 & H). apply context_inv, cut_err_inv, byte_inv in H3 as [_ S3].
    apply ret_inv in H as [-> ->].
    unfold inline_kvs in H2. apply bind_inv in H2 as (kv & k1 & E1 & H2).
    apply bind_inv in H2 as (sp & k2 & E2 & H2). pose proof E2 as E2'. apply span_inv in E2' as (u2 & _ & Esp).
    apply span_ws_inv in E2 as (w & Hw & Sw & _). apply ret_inv in H2 as [E ->]. injection E as -> ->.
    apply (separated0_inv _ _ _ _ _ (mono_shrinkingK _ (inline_keyval_mono vr Hmono)) (byte_shrinking _)) in E1
      as [(-> & -> & _) | (pr & i1 & prs & -> & E & R)].
    - (* { blanks } *)
      destruct (isrc_splits s j1 w k2 Hj1 Sw) as [Hk2 _]. destruct (isrc_splits s k2 [x7d] j3 Hk2 S3) as [Hj3 _].
      exists ([x7b] ++ w ++ [x7d]), [], ([x7b] ++ w ++ [x7d]). split; [apply (vt_inline_empty w Hw)|].
      split; [exact (splits_trans _ _ _ _ _ S1 (splits_trans _ _ _ _ _ Sw S3))|]. split; [exact Hj3|].
      unfold table_from_pairs in Htm. cbn [table_from_pairs_loop_d inline_spans_pass fold_left] in Htm. injection Htm as <-. split; [exact I|].
      intro b0. split; [|split; reflexivity].
      intros _ fuel dflt Hf. destruct fuel as [|f]; [lia|].
      unfold core, apply_raw. cbn [value_decorate]. rewrite tvalue_inline, enc_inline. cbv zeta. cbn [map inline_values flat_map length enc_kvs].
      unfold decor_prefix, decor_suffix. cbn [tdecor decor_new d_prefix d_suffix toraw traw]. rewrite !raw_encode_empty.
      subst sp. rewrite (span_prints s j1 w k2 [] Hj1 Sw), (ncr_ws w Hw). cbn [app]. rewrite ?app_nil_r. reflexivity.
    - (* { pairs } *)
      destruct (inline_keyval_renderK j1 pr i1 Hj1 E) as (w0 & kt & p & w1 & w2 & t & a & o & w3 & Hw0 & Hkt & Hw1 & Hw2 & Ht & Hw3 & Sp & Hi1 & Hpr & Hst1).
      destruct (inline_seps_renderK i1 prs k1 Hi1 R Hst1 kt p w1 w2 t a o w3 Hkt Hw1 Hw2 Ht Hw3)
        as (u & l & ou & wl & x' & Sx & Hk1 & Hstk & Ex & Hwl & Hkv & rows & HF & Erows).
      pose proof (ws_stops_nil w k1 k2 Hw Sw Hstk) as Ew. subst w.
      assert (Ej : k2 = k1) by (destruct Sw as [_ ->]; apply adv_nil). subst k2.
      destruct (isrc_splits s k1 [x7d] j3 Hk1 S3) as [Hj3 _].
      exists ([x7b] ++ w0 ++ (kt ++ w1 ++ [x3d] ++ w2 ++ t ++ u) ++ wl ++ [x7d]), ((p, a) :: l),
             ([x7b] ++ w0 ++ (kt ++ w1 ++ [x3d] ++ w2 ++ o ++ ou) ++ wl ++ [x7d]).
      split; [apply vt_inline; assumption|]. split; [|split; [exact Hj3|]].
      + pose proof (splits_trans _ _ _ _ _ S1 (splits_trans _ _ _ _ _ (splits_trans _ _ _ _ _ Sp Sx) S3)) as S.
        assert (E2 : forall z, w3 ++ x' ++ z = u ++ wl ++ z) by (intro z; rewrite !app_assoc, Ex; reflexivity).
        rewrite <- !app_assoc in S. rewrite E2 in S. rewrite <- !app_assoc. exact S.
      + unfold table_from_pairs in Htm. destruct (table_from_pairs_loop_d [] (pr :: prs)) as [m| |] eqn:El; try discriminate.
        assert (Etv : tv = VInline (inline_spans_pass m (pr :: prs)) (raw_with_span sp) false false decor_default None)
          by (injection Htm as E0; symmetry; exact E0).
        clear Htm. subst tv. split; [exact I|]. intro b0. split; [|split; reflexivity].
        set (items := inline_spans_pass m (pr :: prs)) in *. set (body0 := (kt ++ w1 ++ [x3d] ++ w2 ++ o) ++ w3) in *.
        (* all pairs, from the brace on *)
        assert (Hchain : chainB (pr :: prs) ((w0, body0) :: rows) (N.to_nat (pos i)) (N.to_nat (pos k1))).
        { cbn [chainB fst snd]. exists (N.to_nat (pos i1)). split; [|exact HF].
          assert (Ej : N.to_nat (pos j1) = N.to_nat (pos i) + 1) by (rewrite (splits_posK _ _ _ S1); cbn [length]; lia). rewrite <- Ej. exact Hpr. }
        destruct (chain_sorted _ _ _ _ Hchain) as (_ & Hsorted & Hpok).
        destruct (from_pairs_ivi (pr :: prs) m [] El Hpok) as [Hperm Hiwf]. fold items in Hperm, Hiwf.
        unfold vrendK, apply_raw. cbn [value_decorate]. rewrite vok_inline. cbn [orb]. intros Hs fuel dflt Hf.
        apply andb_true_iff in Hs as [Hitems Hlay].
        (* the pairs of the tree, in print order, are the pairs read, spelled as read *)
        assert (HM : Forall2 cmatch (ivi items []) (pr :: prs)).
        { unfold layout_ok in Hlay. destruct (has_bad items) eqn:Hb; cbn [negb orb] in Hlay.
          - apply andb_true_iff in Hlay as [Hso Hch].
            pose proof (pairs_eqK _ _ Hperm Hso Hsorted) as Epairs.
            apply (chain_spell (ivi items []) (pr :: prs) _ _ _ Hchain Epairs (ivi_root_ne items)). exact Hch.
          - pose proof (has_bad_paths _ _ El Hb) as Hpaths. destruct (chain_plain _ _ _ _ Hchain Hpaths) as (kvl & Ekv & Hu).
            rewrite Ekv in El. apply loop_d_plain in El. cbn [app] in El. unfold items. rewrite El, Ekv, spans_pass_plain.
            rewrite (ivi_plain kvl Hu). apply plain_cmatch. }
        destruct fuel as [|f]; [lia|]. unfold core in *. cbn [value_decorate] in *. rewrite tvalue_inline in *. rewrite enc_inline. cbv zeta.
        assert (Esz : value_size (VInline (map (tkv s) items) (traw s (raw_with_span sp)) false false (tdecor s (decor_new REmpty REmpty)) None)
                      = S (items_size (map (tkv s) items))) by reflexivity.
        rewrite Esz in *. rewrite (inline_values_ivi (S (S (items_size (map (tkv s) items)))) (map (tkv s) items) []) by lia.
        change (@nil key) with (map (tkey s) []) at 1 2. rewrite ivi_tkv, map_length.
        pose proof (ivi_ok s items [] Hitems) as Hoks.
        assert (Hszs : Forall (fun c : list key * value => value_size (tvalue s (snd c)) < f) (ivi items [])).
        { pose proof (ivi_size (map (tkv s) items) (map (tkey s) [])) as Hs0. rewrite ivi_tkv, Forall_map in Hs0.
          eapply Forall_impl; [|exact Hs0]. intros c Hc. unfold tline in Hc. cbn [snd] in Hc. lia. }
        unfold decor_prefix, decor_suffix. cbn [tdecor decor_new d_prefix d_suffix toraw traw]. rewrite !raw_encode_empty.
        subst sp. rewrite (span_prints s k1 [] k1 [] Hk1 Sw). cbn [ncr filter app]. rewrite ?app_nil_r.
        destruct (ivi items []) as [|c0 ch'] eqn:Ech; [inversion HM|].
        inversion HM as [|? ? ? ? Hm0 HM']; subst. inversion Hoks as [|? ? Ho0 Hoks']; subst. inversion Hszs as [|? ? Hs0 Hszs']; subst.
        cbn [map enc_kvs]. unfold tline at 1. cbn [fst snd Nat.eqb].
        destruct Hchain as (nend & Hp0 & Hc').
        rewrite (pair_printsK c0 pr _ _ _ _ f _ _ Hp0 Hm0 Ho0 Hs0).
        rewrite (enc_rowsK f _ ch' prs rows nend _ 0 Hc' HM' Hoks' Hszs').
        match type of Erows with _ ++ ?X = _ => set (F := X) in * end.
        assert (E3 : forall z, w3 ++ F ++ z = ou ++ wl ++ z) by (intro z; rewrite !app_assoc, Erows; reflexivity).
        clearbody F. unfold body0. cbn [fst snd]. repeat first [rewrite <- app_assoc | progress cbn [app]]. rewrite E3. reflexivity.
  Qed.

  (* ---- scalars and the dispatch ------------------------------------------------------------------------ *)
  (* before apply_raw a scalar has no repr yet: what is known is its text *)
  Definition vbody_rendK (a0 : N) (v : value) (t : bytes) (o : bytes) : Prop :=
    match v with
    | VScalar _ _ _ => o = t
    | _ => forall b0, vrendK s (apply_raw v (a0, b0)) o /\ undot (apply_raw v (a0, b0)) = true /\ iwf (apply_raw v (a0, b0)) = true
    end.

  Definition body_atK (p : parser value) : Prop :=
    forall i v i', isrc s i -> p i = Ok v i' ->
      exists t a o, vtext t a o /\ splits i t i' /\ isrc s i' /\ vbody_rendK (pos i) v t o.

  Lemma scalar_armK {A} (p : parser A) (mk : A -> scalar) :
    (forall i x i', p i = Ok x i' -> exists t a, scalar_text t a /\ splits i t i') ->
    body_atK (pmap (fun x => scalar_value (mk x)) p).
  Proof.
    intros Hp i v i' Hi H. apply pmap_inv in H as (x & H & ->). apply Hp in H as (t & a & Ht & S).
    exists t, a, t. split; [apply vt_scalar, Ht|]. split; [exact S|]. split; [apply (isrc_splits s i t i' Hi S)|reflexivity].
  Qed.

  Lemma string_arm_bodyK : body_atK (pmap (fun x => scalar_value (SString x)) string_).
  Proof. apply scalar_armK. intros i x i' H. apply string_sound in H as (t & Ht & S). exists t, (AStr x). split; [apply st_string, Ht|exact S]. Qed.
  Lemma integer_arm_bodyK : body_atK (pmap (fun z => scalar_value (SInt z)) integer).
  Proof. apply scalar_armK. intros i x i' H. apply integer_sound in H as (t & Ht & S & _). exists t, (AInt x). split; [apply st_integer, Ht|exact S]. Qed.
  Lemma float_arm_bodyK : body_atK (pmap (fun f => scalar_value (SFloat f)) float).
  Proof. apply scalar_armK. intros i x i' H. apply float_sound in H as (t & Ht & _ & S). exists t, (AFloat x). split; [apply st_float, Ht|exact S]. Qed.
  Lemma date_time_arm_bodyK : body_atK (pmap (fun d => scalar_value (SDatetime d)) date_time).
  Proof. apply scalar_armK. intros i x i' H. apply date_time_sound in H as (t & Ht & S). exists t, (ADate x). split; [apply st_date_time, Ht|exact S]. Qed.
  Lemma true_arm_bodyK : body_atK (pmap (fun v => scalar_value (SBool v)) true_).
  Proof.
    apply scalar_armK. intros i x i' H. apply true_sound in H as [-> S]. exists t_true, (ABool true).
    split; [apply st_boolean; left; auto|exact S].
  Qed.
  Lemma false_arm_bodyK : body_atK (pmap (fun v => scalar_value (SBool v)) false_).
  Proof.
    apply scalar_armK. intros i x i' H. apply false_sound in H as [-> S]. exists t_false, (ABool false).
    split; [apply st_boolean; right; auto|exact S].
  Qed.
  Lemma inf_arm_bodyK : body_atK (pmap (fun f => scalar_value (SFloat f)) inf).
  Proof.
    apply scalar_armK. intros i x i' H. unfold inf in H. apply pvalue_inv in H as (-> & y & H). apply lit_inv in H as [_ S].
    exists t_inf, (AFloat (FInf false)). split; [apply st_float, (float_inf [] false); left; auto|exact S].
  Qed.
  Lemma nan_arm_bodyK : body_atK (pmap (fun f => scalar_value (SFloat f)) nan).
  Proof.
    apply scalar_armK. intros i x i' H. unfold nan in H. apply pvalue_inv in H as (-> & y & H). apply lit_inv in H as [_ S].
    exists t_nan, (AFloat (FNan false)). split; [apply st_float, (float_nan [] false); left; auto|exact S].
  Qed.

  Lemma body_contextK p : body_atK p -> body_atK (context p).
  Proof. intros Hp i v i' Hi H. apply context_inv in H. apply (Hp i v i' Hi H). Qed.
  Lemma body_altK p q : body_atK p -> body_atK q -> body_atK (p <|> q).
  Proof. intros Hp Hq i v i' Hi H. apply alt_inv in H as [H | [_ H]]; [apply (Hp i v i' Hi H)|apply (Hq i v i' Hi H)]. Qed.
  Lemma body_failK : body_atK (context fail).
  Proof. intros i v i' _ H. apply context_inv in H. discriminate. Qed.

  Lemma core_apply_raw_nonscalarK v sp : nonscalar v -> core s (apply_raw v sp) = core s v.
  Proof.
    unfold core, apply_raw. destruct v as [x r d|vals tr c d sp0|items pre im dt d sp0]; [intros []| |]; intros _;
      cbn [value_decorate]; rewrite ?tvalue_array, ?tvalue_inline; reflexivity.
  Qed.

  Lemma array_arm_bodyK : body_atK (check_recursion (array vr)).
  Proof.
    intros i v i' Hi H. apply check_recursion_splits in H as (_ & i2 & H & Hs).
    destruct (array_renderK _ v i2 (isrc_set_depth s i _ Hi) H) as (t & l & o & Hv & S & _ & Hr & Hn & (items & tr & c & dec & sp & ->)).
    exists t, (AArr l), o. split; [exact Hv|]. split; [apply Hs, S|]. split; [apply (isrc_splits s i t i' Hi (Hs t S))|].
    cbn [vbody_rendK]. intro b0. split; [|split; reflexivity].
    unfold vrendK in *. rewrite (core_apply_raw_nonscalarK (VArray items tr c dec sp) _ I). unfold apply_raw. cbn [value_decorate]. rewrite (vok_array s) in *. exact Hr.
  Qed.

  Lemma inline_arm_bodyK : body_atK (check_recursion (inline_table vr)).
  Proof.
    intros i v i' Hi H. apply check_recursion_splits in H as (_ & i2 & H & Hs).
    destruct (inline_table_renderK _ v i2 (isrc_set_depth s i _ Hi) H) as (t & kvs & o & Hv & S & _ & Hn & Hr).
    exists t, (AInl kvs), o. split; [exact Hv|]. split; [apply Hs, S|]. split; [apply (isrc_splits s i t i' Hi (Hs t S))|].
    destruct v; [destruct Hn|exact Hr|exact Hr].
  Qed.

  Lemma value_arm_bodyK b : body_atK (value_arm vr b).
  Proof.
    unfold value_arm.
    repeat match goal with |- body_atK (if ?c then _ else _) => destruct c end;
      first [ apply string_arm_bodyK | apply array_arm_bodyK | apply inline_arm_bodyK
            | apply body_failK
            | apply body_contextK; first [apply integer_arm_bodyK | apply float_arm_bodyK | apply true_arm_bodyK
                                        | apply false_arm_bodyK | apply inf_arm_bodyK | apply nan_arm_bodyK]
            | idtac ].
    unfold number_arm. apply body_altK; [apply date_time_arm_bodyK|]. apply body_altK; [apply float_arm_bodyK|apply integer_arm_bodyK].
  Qed.

  Lemma value_body_bodyK : body_atK (value_body vr).
  Proof.
    intros i v i' Hi H. pose proof H as H0. unfold value_body in H0. apply bind_inv in H0 as (b & j & H1 & _).
    apply context_inv, peek_inv in H1 as [_ (j' & H1)]. apply any_inv in H1 as [R _]. cbn [app] in R.
    rewrite (value_body_arm vr i b _ R) in H. apply (value_arm_bodyK b i v i' Hi H).
  Qed.

  Lemma value_step_renderK : vrenderK_at s (value_step vr).
  Proof.
    intros i v i' Hi H. unfold value_step in H. apply pmap_inv in H as ([v0 sp] & H & ->).
    apply with_span_inv in H as (a0 & H & E). injection E as <- ->.
    destruct (value_body_bodyK i v0 i' Hi H) as (t & a & o & Ht & S & Hi' & Hb).
    assert (Hne : pos i <> pos i').
    { destruct (val_tok_head t a (vtext_val t a o Ht)) as (b & t' & -> & _). rewrite (splits_posK _ _ _ S). cbn [length]. lia. }
    exists t, a, o. split; [exact Ht|]. split; [exact S|]. split; [exact Hi'|].
    destruct v0 as [x r d|vals tr c d sp0|items pre im dt d sp0]; cbn [vbody_rendK] in Hb.
    - subst o. split; [|split; [|split; reflexivity]].
      + intros _ fuel dflt Hf. destruct fuel as [|f]; [lia|].
        unfold core, apply_raw. cbn [value_decorate]. rewrite tvalue_scalar, enc_scalar.
        rewrite (span_repr s i t i' Hi S). unfold decor_prefix, decor_suffix. cbn [tdecor decor_new d_prefix d_suffix toraw traw].
        rewrite !raw_encode_empty. cbn [app]. apply app_nil_r.
      + unfold apply_raw. cbn [value_decorate value_span]. unfold raw_with_span. cbn [fst snd]. destruct (pos i =? pos i')%N eqn:Q; [apply N.eqb_eq in Q; congruence|reflexivity].
    - destruct (Hb (pos i')) as (H1 & H2 & H3). split; [exact H1|]. split; [reflexivity|]. split; assumption.
    - destruct (Hb (pos i')) as (H1 & H2 & H3). split; [exact H1|]. split; [reflexivity|]. split; assumption.
  Qed.
End RenderK.

Lemma value_f_renderK s n : vrenderK_at s (value_f n).
Proof.
  induction n as [|n IH]; [intros i v i' _ H; discriminate|].
  change (value_f (S n)) with (value_step (value_f n)). apply value_step_renderK; [exact IH|apply (proj1 (value_f_all n))].
Qed.

(* C03 tiling for values, dotted keys inside inline tables included *)
Theorem value_renderK s i v i' : isrc s i -> value_ i = Ok v i' ->
  exists t a o, vtext t a o /\ splits i t i' /\ isrc s i' /\ vrendK s v o
                /\ value_span v = Some (pos i, pos i') /\ undot v = true /\ iwf v = true.
Proof. apply value_f_renderK. Qed.
