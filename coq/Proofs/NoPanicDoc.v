(* Proofs/NoPanicDoc.v — C04, part 5: document.rs / table.rs / mod.rs.  The line parsers are safe on
   every input whenever the parse state satisfies `inv`, they hand on a state satisfying `inv`, and
   every iteration of the document loop consumes at least one byte; hence
   `parse_document`, `parse_value_raw`, `parse_key`, `parse_key_path` never return PPanic. *)
From TV Require Import Base.Prelude Base.Utf8 Base.Winnow Gen.Consts Spec.Abnf.
From TV Require Import Model.Trivia Model.Strings Model.Datetime Model.Numbers Model.Tree Model.Parse Model.Document.
From TV Require Import Proofs.Eoi Proofs.ConstsOk Proofs.NoPanicBase Proofs.NoPanicLex Proofs.NoPanicValue Proofs.NoPanicState.
Require Import Lia ZifyBool ZifyN ZifyNat.

(* ---- parse_keyval ------------------------------------------------------------------------------------- *)
Definition kv_rhs : parser ((N * N) * value * (N * N)) :=
  cut_err (context (byte_ KEYVAL_SEP) ;;;
           pre <- span_ ws ;; v <- value_ ;; suf <- context line_trailing ;; ret (pre, v, suf)).
Lemma kv_rhs_mono : mono kv_rhs. Proof. unfold kv_rhs. np. Qed.
Lemma kv_rhs_safe : safe kv_rhs. Proof. unfold kv_rhs. np. Qed.
#[export] Hint Resolve kv_rhs_mono kv_rhs_safe : np.

Lemma parse_keyval_eq :
  parse_keyval =
  (kp <- key_ ;;
   '(pre, v, suf) <- kv_rhs ;;
   match pop_key kp with
   | None => fun _ => Panic P_key_path_empty
   | Some (path, k) => ret (path, (k, IValue (value_decorate v (raw_with_span pre) (raw_with_span suf))))
   end).
Proof. reflexivity. Qed.

Lemma parse_keyval_mono : mono parse_keyval. Proof. rewrite parse_keyval_eq. np. Qed.
Lemma parse_keyval_progress : progress parse_keyval. Proof. rewrite parse_keyval_eq. np. Qed.
(* document.rs: path.pop().expect("grammar ensures at least 1") *)
Lemma parse_keyval_safe : safe parse_keyval.
Proof.
  rewrite parse_keyval_eq. eapply safe_bind_val; [np|np|np|apply key_val|]. intros kp Hkp.
  destruct (pop_key_some kp Hkp) as (path & k & ->). np.
Qed.
Definition kv_good (x : list key * (key * item)) : Prop := good_item (snd (snd x)) = true.
Lemma parse_keyval_val : valP kv_good parse_keyval.
Proof.
  rewrite parse_keyval_eq. apply valP_bind; intro kp. apply valP_bind. intros [[pre v] suf].
  destruct (pop_key kp) as [[path k]|]; [|apply valP_const_panic]. apply valP_ret. reflexivity.
Qed.
#[export] Hint Resolve parse_keyval_mono parse_keyval_progress parse_keyval_safe : np.

(* ---- parsers indexed by a parse state -------------------------------------------------------------------- *)
Lemma lift_state_post {A} (post : A -> Prop) (r : cres A) :
  match r with COk a => post a | CErr _ => True | CPanic _ => False end ->
  (forall s, lift_state r <> TmPanic s) /\ (forall a, lift_state r = TmOk a -> post a).
Proof.
  destruct r; cbn [lift_state]; intro H; split; try discriminate; try contradiction.
  intros a0 E. inversion E; subst. exact H.
Qed.

Section WithState.
  Variable st : pstate.
  Hypothesis Hinv : inv st.

  Lemma keyval_mono : mono (keyval st). Proof. unfold keyval. np. Qed.
  Lemma keyval_progress : progress (keyval st). Proof. unfold keyval. np. Qed.
  Lemma keyval_safe : safe (keyval st).
  Proof.
    unfold keyval. eapply safe_try_map; [np|apply parse_keyval_val|].
    intros [p [k v]] Hg. unfold kv_good in Hg; cbn [snd] in Hg.
    apply (lift_state_post inv), inv_on_keyval_sp; assumption.
  Qed.
  Lemma keyval_val : valP inv (keyval st).
  Proof.
    unfold keyval. eapply valP_try_map; [apply parse_keyval_val|].
    intros [p [k v]] st' Hg. unfold kv_good in Hg; cbn [snd] in Hg.
    apply (lift_state_post inv), inv_on_keyval_sp; assumption.
  Qed.

  Definition header_syntax (is_array : bool) : parser ((list key * (N * N)) * (N * N)) :=
    let open_ := if is_array then pvoid (lit ARRAY_TABLE_OPEN) else pvoid (byte_ STD_TABLE_OPEN) in
    let close_ := if is_array then pvoid (lit ARRAY_TABLE_CLOSE) else pvoid (byte_ STD_TABLE_CLOSE) in
    pair_ (with_span (delimited open_ (cut_err key_) (context (cut_err close_))))
          (context (cut_err line_trailing)).
  Lemma header_syntax_mono ia : mono (header_syntax ia). Proof. unfold header_syntax. destruct ia; np. Qed.
  Lemma aot_open_ne : ARRAY_TABLE_OPEN <> []. Proof. discriminate. Qed.
  Local Hint Resolve aot_open_ne : np.
  Lemma header_syntax_progress ia : progress (header_syntax ia). Proof. unfold header_syntax. destruct ia; np. Qed.
  Lemma header_syntax_safe ia : safe (header_syntax ia). Proof. unfold header_syntax. destruct ia; np. Qed.
  (* state.rs: debug_assert!(!path.is_empty()) — the header's key path comes from `key` *)
  Lemma header_syntax_val ia : valP (fun x => fst (fst x) <> []) (header_syntax ia).
  Proof.
    unfold header_syntax. cbv zeta.
    eapply valP_weaken; [|apply (valP_pair_ (fun y : list key * (N * N) => fst y <> []) (fun _ : N * N => True))].
    - intros x [H _]. exact H.
    - apply (valP_with_span (fun l : list key => l <> [])), valP_delimited, valP_cut_err, key_val.
    - apply valP_true.
  Qed.
  Lemma header_eq ia :
    header ia st = try_map (fun '((h, sp), t) => lift_state (on_header ia st h t sp)) (header_syntax ia).
  Proof. reflexivity. Qed.
  Lemma header_mono ia : mono (header ia st).
  Proof. rewrite header_eq. pose proof (header_syntax_mono ia). np. Qed.
  Lemma header_progress ia : progress (header ia st).
  Proof. rewrite header_eq. pose proof (header_syntax_progress ia). np. Qed.
  Lemma header_safe ia : safe (header ia st).
  Proof.
    rewrite header_eq. eapply safe_try_map; [apply header_syntax_safe|apply header_syntax_val|].
    intros [[h sp] t] Hne. cbn [fst] in Hne. apply (lift_state_post inv), on_header_ok; assumption.
  Qed.
  Lemma header_val ia : valP inv (header ia st).
  Proof.
    rewrite header_eq. eapply valP_try_map; [apply header_syntax_val|].
    intros [[h sp] t] st' Hne. cbn [fst] in Hne. apply (lift_state_post inv), on_header_ok; assumption.
  Qed.

  Lemma table_mono : mono (table st).
  Proof. unfold table. pose proof header_mono. np. Qed.
  Lemma table_progress : progress (table st).
  Proof. unfold table. pose proof header_progress. np. Qed.
  Lemma table_safe : safe (table st).
  Proof. unfold table. pose proof header_safe. np. Qed.
  Lemma table_val : valP inv (table st).
  Proof. unfold table. apply valP_context, valP_bind. intro two. destruct (bytes_eqb _ _); apply header_val. Qed.

  Lemma valP_on_ws {A} (p : parser A) : valP inv (pmap (on_ws st) (span_ p)).
  Proof. eapply valP_pmap; [apply valP_true|]. intros sp _. apply inv_on_ws, Hinv. Qed.

  Lemma parse_comment_mono : mono (parse_comment st). Proof. unfold parse_comment. np. Qed.
  Lemma parse_comment_progress : progress (parse_comment st). Proof. unfold parse_comment. np. Qed.
  Lemma parse_comment_safe : safe (parse_comment st). Proof. unfold parse_comment. np. Qed.
  Lemma parse_ws_mono : mono (parse_ws st). Proof. unfold parse_ws. np. Qed.
  Lemma parse_ws_safe : safe (parse_ws st). Proof. unfold parse_ws. np. Qed.
  Lemma parse_ws_val : valP inv (parse_ws st). Proof. apply valP_on_ws. Qed.
  Lemma parse_newline_mono : mono (parse_newline st). Proof. unfold parse_newline. np. Qed.
  Lemma parse_newline_progress : progress (parse_newline st). Proof. unfold parse_newline. np. Qed.
  Lemma parse_newline_safe : safe (parse_newline st). Proof. unfold parse_newline. np. Qed.

  Definition doc_item : byte -> parser pstate :=
    fun b => if byte_eqb b COMMENT_START_SYMBOL then cut_err (parse_comment st)
             else if byte_eqb b STD_TABLE_OPEN then cut_err (table st)
             else if byte_eqb b LF || byte_eqb b CR then parse_newline st
             else cut_err (keyval st).
  Lemma doc_item_mono b : mono (doc_item b).
  Proof.
    unfold doc_item. pose proof parse_comment_mono. pose proof table_mono. pose proof parse_newline_mono.
    pose proof keyval_mono. np.
  Qed.
  Lemma doc_item_progress b : progress (doc_item b).
  Proof.
    unfold doc_item. pose proof parse_comment_progress. pose proof table_progress.
    pose proof parse_newline_progress. pose proof keyval_progress. np.
  Qed.
  Lemma doc_item_safe b : safe (doc_item b).
  Proof.
    unfold doc_item. pose proof parse_comment_safe. pose proof table_safe. pose proof parse_newline_safe.
    pose proof keyval_safe. np.
  Qed.
  Lemma doc_item_val b : valP inv (doc_item b).
  Proof.
    unfold doc_item. repeat match goal with |- valP _ (if ?c then _ else _) => destruct c end;
      try apply valP_cut_err; [apply valP_on_ws|apply table_val|apply valP_on_ws|apply keyval_val].
  Qed.
End WithState.

Lemma doc_line_eq st : doc_line st = (b <- peek any ;; st1 <- doc_item st b ;; parse_ws st1).
Proof. reflexivity. Qed.

Lemma doc_line_mono st : mono (doc_line st).
Proof.
  rewrite doc_line_eq. apply monoC_bind; [np|]. intro b. apply monoC_bind; [apply doc_item_mono|].
  intro st1. apply parse_ws_mono.
Qed.
Lemma doc_line_progress st : progress (doc_line st).
Proof.
  rewrite doc_line_eq. apply progress_bind_r; [np|]. intro b. apply progress_bind_l; [apply doc_item_progress|].
  intro st1. apply parse_ws_mono.
Qed.
Lemma doc_line_safe st : inv st -> safe (doc_line st).
Proof.
  intro Hi. rewrite doc_line_eq. apply safe_bind; [np|np|np|]. intro b.
  apply safe_bind; [np|apply doc_item_mono|apply doc_item_safe, Hi|]. intro st1. apply parse_ws_safe.
Qed.
Lemma doc_line_val st : inv st -> valP inv (doc_line st).
Proof.
  intro Hi. rewrite doc_line_eq. apply valP_bind. intro b.
  eapply valP_bind_val; [apply doc_item_val, Hi|]. intros st1 H1. apply parse_ws_val, H1.
Qed.

(* ---- the document loop -------------------------------------------------------------------------------- *)
Lemma doc_loop_mono : forall fuel st i st' i', doc_loop fuel st i = Ok st' i' -> ext anyb i i'.
Proof.
  induction fuel as [|f IH]; intros st i st' i' H; cbn [doc_loop] in H; [discriminate|].
  destruct (doc_line st i) as [s1 i1|? ?|? ?|?] eqn:E; try discriminate.
  - destruct (Nat.eqb _ _); [discriminate|]. eapply ext_trans; [eapply doc_line_mono, E|eapply IH, H].
  - inversion H; subst. apply ext_refl.
Qed.
Lemma doc_loop_val : forall fuel st i st' i', inv st -> doc_loop fuel st i = Ok st' i' -> inv st'.
Proof.
  induction fuel as [|f IH]; intros st i st' i' Hi H; cbn [doc_loop] in H; [discriminate|].
  destruct (doc_line st i) as [s1 i1|? ?|? ?|?] eqn:E; try discriminate.
  - destruct (Nat.eqb _ _); [discriminate|]. eapply IH; [|exact H]. eapply doc_line_val; eauto.
  - inversion H; subst. exact Hi.
Qed.
(* termination of `repeat(0.., ...)` over the lines of a document, and no winnow assertion *)
Lemma doc_loop_safe : forall fuel st i, inv st -> length (rest i) < fuel -> nopanic (doc_loop fuel st i).
Proof.
  induction fuel as [|f IH]; intros st i Hi L; [lia|]. cbn [doc_loop].
  pose proof (doc_line_safe st Hi i I) as S0. destruct (doc_line st i) as [s1 i1|? ?|? ?|?] eqn:E; auto.
  pose proof (doc_line_progress st _ _ _ E) as G.
  destruct (Nat.eqb _ _) eqn:Q; [apply Nat.eqb_eq in Q; lia|].
  apply IH; [eapply doc_line_val; eauto | lia].
Qed.

Definition doc_loop_p (st : pstate) : parser pstate := fun i => doc_loop (S (length (rest i))) st i.
Lemma doc_loop_p_mono st : mono (doc_loop_p st).
Proof. intros i a i' H. eapply doc_loop_mono, H. Qed.
Lemma doc_loop_p_safe st : inv st -> safe (doc_loop_p st).
Proof. intros Hi i _. apply doc_loop_safe; [exact Hi|lia]. Qed.
Lemma doc_loop_p_val st : inv st -> valP inv (doc_loop_p st).
Proof. intros Hi i a i' H. eapply doc_loop_val; eauto. Qed.

Lemma document_eq :
  document = (opt (lit bom) ;;; st <- parse_ws state_new ;; st' <- doc_loop_p st ;; eof ;;; ret st').
Proof. reflexivity. Qed.

Lemma document_safe : safe document.
Proof.
  rewrite document_eq. apply safe_bind; [np|np|np|]. intros _.
  eapply safe_bind_val; [np|apply parse_ws_mono|apply parse_ws_safe|apply parse_ws_val, inv_state_new|].
  intros st Hi. apply safe_bind; [np|apply doc_loop_p_mono|apply doc_loop_p_safe, Hi|]. intro st'. np.
Qed.
Lemma document_val : valP inv document.
Proof.
  rewrite document_eq. apply valP_bind. intros _.
  eapply valP_bind_val; [apply parse_ws_val, inv_state_new|]. intros st Hi.
  eapply valP_bind_val; [apply doc_loop_p_val, Hi|]. intros st' Hi'. apply valP_bind. intros _.
  apply valP_ret, Hi'.
Qed.

(* ---- entry points ---------------------------------------------------------------------------------------- *)
Lemma parse_all_done {A} (p : parser A) s a : parse_all p s = Done a -> exists i, p (new_input s) = Ok a i.
Proof.
  unfold parse_all, bind. destruct (p (new_input s)) as [x i|? ?|? ?|?]; try discriminate.
  unfold eof. destruct (rest i); [|discriminate]. cbn [ret]. intro H; inversion H; subst. eauto.
Qed.

Lemma lift_outcome_nopanic {A} (p : parser A) s st :
  safe p -> lift_outcome (parse_all p s) <> PPanic st.
Proof.
  intros H E. pose proof (parse_all_nopanic p s (H _ I)) as N.
  destruct (parse_all p s); try discriminate. inversion E; subst. eapply N. reflexivity.
Qed.

Theorem parse_document_total s st : parse_document s <> PPanic st.
Proof.
  unfold parse_document. pose proof (parse_all_nopanic document s (document_safe _ I)) as N.
  destruct (parse_all document s) as [fin| |p] eqn:E; [|discriminate|exfalso; eapply N; reflexivity].
  apply parse_all_done in E as [i E]. apply document_val in E. apply inv_fin in E.
  destruct (finalize_table fin); cbn [fin_post] in E; [discriminate|discriminate|contradiction].
Qed.

Theorem parse_value_total s st : parse_value_raw s <> PPanic st.
Proof.
  unfold parse_value_raw. intro H. apply (proj1 (lift_eoi_panic _ _ _)) in H. revert H. apply lift_outcome_nopanic, value_safe.
Qed.
Theorem parse_key_total s st : parse_key s <> PPanic st.
Proof.
  unfold parse_key. intro H. apply (proj1 (lift_eoi_panic _ _ _)) in H. revert H. apply lift_outcome_nopanic, simple_key_safe.
Qed.
Theorem parse_key_path_total s st : parse_key_path s <> PPanic st.
Proof.
  unfold parse_key_path. intro H. apply (proj1 (lift_eoi_panic _ _ _)) in H. revert H. apply lift_outcome_nopanic, key_safe.
Qed.

(* the state machine on reachable states, stated on its own *)
Theorem state_machine_total :
  inv state_new
  /\ (forall st sp, inv st -> inv (on_ws st sp))
  /\ (forall st path k v, inv st ->
        match on_keyval_sp st path k (IValue v) with COk st' => inv st' | CErr _ => True | CPanic _ => False end)
  /\ (forall ia st path trailing sp, inv st -> path <> [] ->
        match on_header ia st path trailing sp with COk st' => inv st' | CErr _ => True | CPanic _ => False end)
  /\ (forall st, inv st -> match finalize_table st with CPanic _ => False | _ => True end).
Proof.
  refine (conj _ (conj _ (conj _ (conj _ _)))).
  - exact inv_state_new.
  - intros. apply inv_on_ws. assumption.
  - intros. apply inv_on_keyval_sp; [assumption|reflexivity].
  - intros. apply on_header_ok; assumption.
  - intros st Hi. apply inv_fin in Hi. destruct (finalize_table st); cbn [fin_post] in Hi; auto.
Qed.
