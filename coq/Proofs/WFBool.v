(* Proofs/WFBool.v — a decision procedure `wf_b` for Spec/WF.v (tokens are checked with the model's own token
   parsers, trivia with small scanners); `wf_b_sound : wf_b root = true -> WF root` is in Proofs/WFBoolSound.v. *)
From TV Require Import Base.Prelude Base.Utf8 Base.Winnow Gen.Consts Spec.Abnf Spec.Lex Spec.DatetimeSpec Spec.Syntax Spec.WF.
From TV Require Import Model.Trivia Model.Strings Model.Datetime Model.Numbers Model.Tree Model.Parse Model.Document Model.Write Model.Encode.

(* ---- trivia scanners ------------------------------------------------------------------------------------- *)
Definition ws_b (t : bytes) : bool := forallb wschar t.
Definition comment_b (t : bytes) : bool :=
  match t with b :: u => byte_eqb b x23 && forallb non_eol u | [] => false end.
(* ws [ comment ] *)
Definition line_trail_b (t : bytes) : bool :=
  let r := snd (span_while wschar t) in
  match r with [] => true | _ => comment_b r end.
(* the text up to the first LF, and what follows it *)
Fixpoint cut_lf (t : bytes) : bytes * option bytes :=
  match t with
  | [] => ([], None)
  | b :: r => if byte_eqb b x0a then ([], Some r)
              else let '(l, o) := cut_lf r in (b :: l, o)
  end.
(* *( ws [ comment ] LF ) <last> *)
Fixpoint lines_gen (last : bytes -> bool) (fuel : nat) (t : bytes) : bool :=
  match fuel with
  | O => false
  | S f => match cut_lf t with
           | (l, None) => last l
           | (l, Some r) => line_trail_b l && lines_gen last f r
           end
  end.
Definition lines_b (t : bytes) : bool := lines_gen ws_b (S (length t)) t.
Definition doc_trail_b (t : bytes) : bool := lines_gen line_trail_b (S (length t)) t.

Definition slot_b (sl : slot) (t : bytes) : bool :=
  match sl with
  | SWs => ws_b t
  | SLineTrail => line_trail_b t
  | SLines => lines_b t
  | SWscn => lines_b t
  | SDocTrail => doc_trail_b t
  end.
Definition raw_b (sl : slot) (r : raw) : bool :=
  match r with RSpanned _ _ => false | _ => slot_b sl (raw_encode r []) end.
Definition oraw_b (sl : slot) (o : option raw) : bool := match o with Some r => raw_b sl r | None => true end.
Definition decor_b (pre suf : slot) (d : decor) : bool := oraw_b pre (d_prefix d) && oraw_b suf (d_suffix d).

(* ---- tokens -------------------------------------------------------------------------------------------------- *)
Definition whole {A} (eqb : A -> A -> bool) (p : parser A) (t : bytes) (x : A) : bool :=
  match p (new_input t) with
  | Ok y i' => match rest i' with [] => eqb y x | _ => false end
  | _ => false
  end.
Definition fval_eqb (a b : fval) : bool :=
  match a, b with
  | FNan n, FNan m => Bool.eqb n m
  | FInf n, FInf m => Bool.eqb n m
  | FDec n m e, FDec n' m' e' => Bool.eqb n n' && (m =? m')%N && (e =? e')%Z
  | _, _ => false
  end.
Definition date_eqb (a b : date) : bool := (year a =? year b)%N && (month a =? month b)%N && (day a =? day b)%N.
Definition time_eqb (a b : time) : bool :=
  (hour a =? hour b)%N && (minute a =? minute b)%N && (second a =? second b)%N && (nanosecond a =? nanosecond b)%N.
Definition offset_eqb (a b : offset) : bool :=
  match a, b with OffZ, OffZ => true | OffCustom x, OffCustom y => (x =? y)%Z | _, _ => false end.
Definition opt_eqb {A} (eqb : A -> A -> bool) (a b : option A) : bool :=
  match a, b with Some x, Some y => eqb x y | None, None => true | _, _ => false end.
Definition datetime_eqb (a b : datetime) : bool :=
  opt_eqb date_eqb (d_date a) (d_date b) && opt_eqb time_eqb (d_time a) (d_time b) && opt_eqb offset_eqb (d_offset a) (d_offset b).

Definition scalar_tok_b (t : bytes) (x : scalar) : bool :=
  match x with
  | SString v => whole bytes_eqb string_ t v
  | SInt z => whole Z.eqb integer t z
  | SFloat f => whole fval_eqb float t f
  | SBool b => whole Bool.eqb (true_ <|> false_) t b
  | SDatetime d => whole datetime_eqb date_time t d
  end.
Definition scalar_lim_b (x : scalar) : bool :=
  match x with
  | SInt z => in_i64 z
  | SFloat (FDec _ m e) => negb (overflows m e)
  | _ => true
  end.
Definition default_b (x : scalar) : bool :=
  match x with
  | SString v => utf8_valid_b v
  | SFloat (FDec _ _ _) => false
  | SDatetime d => in_range d
  | _ => true
  end.
Definition repr_b (x : scalar) (r : option raw) : bool :=
  match r with
  | None => default_b x
  | Some (RExplicit s) => scalar_tok_b s x
  | Some _ => false
  end.
Definition key_repr_b (k : key) : bool :=
  match k_repr k with
  | None => utf8_valid_b (k_key k)
  | Some (RExplicit s) => whole bytes_eqb (pmap snd simple_key) s (k_key k)
  | Some _ => false
  end.
Definition key_b (line : bool) (k : key) : bool :=
  key_repr_b k && decor_b SWs SWs (k_dotted k) && decor_b (if line then SLines else SWs) SWs (k_leaf k).

(* ---- values ---------------------------------------------------------------------------------------------------- *)
Definition vdecor_b (c : vctx) (d : decor) : bool :=
  match c with
  | CLine => decor_b SWs SLineTrail d
  | CArr => decor_b SWscn SWscn d
  | CInl => decor_b SWs SWs d
  end.
Fixpoint nodup_b (l : list bytes) : bool :=
  match l with [] => true | x :: tl => negb (existsb (bytes_eqb x) tl) && nodup_b tl end.
Definition nonempty {A} (l : list A) : bool := match l with [] => false | _ => true end.

Fixpoint value_b (c : vctx) (v : value) {struct v} : bool :=
  match v with
  | VScalar x r d => repr_b x r && scalar_lim_b x && vdecor_b c d
  | VArray vals tr _ d _ =>
    vdecor_b c d && raw_b SWscn tr
    && forallb (fun it => match it with IValue e => value_b CArr e | _ => false end) vals
  | VInline items pre _ _ d _ =>
    vdecor_b c d && raw_b SWs pre && nodup_b (kkeys items)
    && forallb (fun kv => key_b false (fst kv) && pair_b false (snd kv)) items
  end
with pair_b (line : bool) (it : item) {struct it} : bool :=
  match it with
  | IValue v =>
    match v with
    | VInline sub _ _ true _ _ =>
      nonempty sub && nodup_b (kkeys sub)
      && forallb (fun kv => key_b line (fst kv) && pair_b line (snd kv)) sub
    | _ => value_b (if line then CLine else CInl) v
    end
  | _ => false
  end.

Fixpoint tbl_b (top : bool) (t : tbl) {struct t} : bool :=
  match t with
  | Tbl items d _ _ _ _ =>
    decor_b SLines (if top then SLines else SLineTrail) d && nodup_b (kkeys items)
    && forallb (fun kv =>
                  key_b true (fst kv) &&
                  match snd kv with
                  | INone => false
                  | IValue _ => pair_b true (snd kv)
                  | ITable sub =>
                    tbl_b false sub && (if t_dotted sub then has_line sub || prints_header sub else shown sub || prints_header sub)
                  | IAot ts _ => nonempty ts && forallb (fun e => negb (t_dotted e) && tbl_b false e) ts
                  end) items
  end.

(* ---- limits --------------------------------------------------------------------------------------------------------- *)
Fixpoint value_lim_b (d : nat) (v : value) {struct v} : bool :=
  match v with
  | VScalar _ _ _ => true
  | VArray vals _ _ _ _ =>
    Nat.ltb (S d) LIMIT && forallb (fun it => match it with IValue e => value_lim_b (S d) e | _ => true end) vals
  | VInline items _ _ _ _ _ => Nat.ltb (S d) LIMIT && forallb (fun kv => pair_lim_b (S d) 1 (snd kv)) items
  end
with pair_lim_b (d n : nat) (it : item) {struct it} : bool :=
  match it with
  | IValue v =>
    match v with
    | VInline sub _ _ true _ _ => forallb (fun kv => pair_lim_b d (S n) (snd kv)) sub
    | _ => Nat.ltb (n + value_depth v) LIMIT && value_lim_b d v
    end
  | _ => true
  end.
Fixpoint line_lim_b (n : nat) (it : item) {struct it} : bool :=
  match it with
  | IValue v =>
    match v with
    | VInline sub _ _ true _ _ => forallb (fun kv => line_lim_b (S n) (snd kv)) sub
    | _ => Nat.ltb n LIMIT && value_lim_b 0 v
    end
  | _ => true
  end.
Fixpoint tbl_lim_b (h n : nat) (t : tbl) {struct t} : bool :=
  match t with
  | Tbl items _ _ _ _ _ =>
    forallb (fun kv =>
               match snd kv with
               | IValue _ => line_lim_b (S n) (snd kv)
               | ITable sub => if t_dotted sub then tbl_lim_b (S h) (S n) sub else Nat.ltb (S h) LIMIT && tbl_lim_b (S h) 0 sub
               | IAot ts _ => Nat.ltb (S h) LIMIT && forallb (fun e => tbl_lim_b (S h) 0 e) ts
               | INone => true
               end) items
  end.

Fixpoint nondecreasing_b (l : list N) : bool :=
  match l with
  | a :: ((b :: _) as tl) => (a <=? b)%N && nondecreasing_b tl
  | _ => true
  end.
Definition order_b (root : tbl) : bool := nondecreasing_b (map fst (assign_positions 0 (sections root [] false))).

Definition wf_b (root : tbl) : bool :=
  negb (t_dotted root) && tbl_b true root && tbl_lim_b 0 0 root && order_b root.
Definition wfdoc_b (root : tbl) (trailing : raw) : bool := wf_b root && raw_b SDocTrail trailing.
