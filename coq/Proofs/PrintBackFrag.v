(* Proofs/PrintBackFrag.v — C03, "where the printed text is not byte-identical": the fragment structure.
   Without the order and spelling checks of `laid_out` the printed text and the normal form of the source
   are concatenations of the SAME fragments A ++ _ ++ B — one per header / key-value line, every one used
   exactly once, in possibly different orders — whose middles (the key path text of a header or of a dotted
   key) may be spelled differently; and they end in the same trailing text. *)
From TV Require Import Base.Prelude Base.Utf8 Base.Winnow Gen.Consts Spec.Abnf Spec.Lex Spec.Defs Spec.Syntax Spec.Norm.
From TV Require Import Model.Trivia Model.Strings Model.Datetime Model.Numbers Model.Tree Model.Parse Model.Document Model.Write Model.Encode.
From TV Require Import Proofs.LexEquivBase Proofs.TilingDefs Proofs.TilingNormDoc
                       Proofs.PrintBackBase Proofs.PrintBackEnc Proofs.PrintBackKey Proofs.PrintBackValue Proofs.PrintBackDoc Proofs.PrintBackTop
                       Proofs.PrintBackSort Proofs.PrintBackEnts Proofs.PrintBackDisplay Proofs.PrintBackSecs Proofs.PrintBackHKey Proofs.PrintBackFinal
                       Proofs.PrintBackDVals Proofs.PrintBackDDisplay Proofs.PrintBackDAll Proofs.PrintBackDState Proofs.PrintBackDKey Proofs.PrintBackIValue Proofs.PrintBackDItems
                       Proofs.PrintBackDDoc Proofs.PrintBackDFinal Proofs.PrintBackDTop.
From TV Require Import Proofs.TilingNormScan Proofs.TilingNormStr Proofs.TilingNormTok Proofs.TilingCmt.
From TV Require Proofs.GrammarDocLine.
Require Import Lia Sorting.Permutation.

(* a fragment: the text before the key path, the key path as printed, the key path as read, the text after it *)
Definition frag : Type := (bytes * bytes * bytes * bytes)%type.
Definition fr_printed (f : frag) : bytes := let '(A, X, Y, B) := f in A ++ X ++ B.
Definition fr_read (f : frag) : bytes := let '(A, X, Y, B) := f in A ++ Y ++ B.

(* super-tables (made by a header `[a.b]` for `a`) hold no key/value lines of their own *)
Definition supers_bare (r : tbl) : bool := forallb f2 (sub_ents (t_items r) []).

Lemma laid_out_supers s r : laid_out s r = true -> supers_bare r = true.
Proof. unfold laid_out, supers_bare. intro H. apply andb_true_iff in H as [H _]. apply andb_true_iff in H as [H _]. exact H. Qed.

Lemma same_frags s r (ws : list witem) : dsh_tbl (vok s) r = true -> (forall w, In w ws -> In w (S_print r)) ->
  forall items : list sitem, Forall (sitem_ok s) items -> map pfw ws = map fst items ->
  exists fs : list frag, map fr_printed fs = map (wtext s) ws /\ map fr_read fs = map snd items.
Proof.
  intros Hs. induction ws as [|w ws IH]; intros Hin items Hok E.
  - destruct items; [|discriminate]. exists []. split; reflexivity.
  - destruct items as [|it items]; [discriminate|]. cbn [map] in E. injection E as E1 E2. inversion Hok as [|? ? Hit Hok']; subst.
    destruct (IH (fun w' H => Hin w' (or_intror H)) items Hok' E2) as (fs & F1 & F2).
    destruct (item_same s r w it Hs (Hin w (or_introl eq_refl)) Hit E1) as (A & X & Y & B & P1 & P2).
    exists ((A, X, Y, B) :: fs). cbn [map fr_printed fr_read]. rewrite F1, F2, P1, P2. split; reflexivity.
Qed.

Theorem doc_fragments s d : parse_document s = POk d -> vals_ok s (doc_root d) = true -> supers_bare (doc_root d) = true ->
  exists (printed read : list frag) (trailing : bytes),
    Permutation printed read
    /\ render s d = concat (map fr_printed printed) ++ trailing
    /\ normalize s = concat (map fr_read read) ++ trailing.
Proof.
  intros Hp Hv Hb. destruct (doc_items s d Hp) as (w & t & l & o & items & Es & Hw & Hlt & Eo & Hrd & Hdec & Hpos & Hur & Hperm & Hoks & Hsort).
  destruct (dsections_struct s (doc_root d) (traw s (doc_trailing d)) items Hv Hrd Hdec Hpos Hperm Hoks Hb) as [Edisp PS].
  apply Permutation_map_inv in PS as (items' & Emap & Pit).
  assert (Hoks' : Forall (sitem_ok s) items').
  { apply Forall_forall. intros x Hx. rewrite Forall_forall in Hoks. apply Hoks. apply (Permutation_in _ (Permutation_sym Pit)), Hx. }
  destruct (same_frags s (doc_root d) (S_print (doc_root d)) Hv (fun _ H => H) items' Hoks' Emap) as (fs & F1 & F2).
  assert (P2 : Permutation (map fr_read fs) (map snd items)) by (rewrite F2; apply Permutation_map, Permutation_sym, Pit).
  apply Permutation_sym, Permutation_map_inv in P2 as (fs' & Emap' & Pfs).
  exists fs, fs', (raw_encode (traw s (doc_trailing d)) []). split; [exact Pfs|]. split.
  - unfold render. rewrite Edisp, F1. reflexivity.
  - rewrite (norm_lines s w t l o); [|rewrite drop_bom_strip_bom; exact Es|exact Hw|exact Hlt]. rewrite <- Emap'. exact Eo.
Qed.

(* ================================================================================================================== *)
(* the comments                                                                                                       *)
(* ================================================================================================================== *)
(* a byte-order mark holds no comment: `comments` is `cmts` *)
Lemma comments_any x : comments x = cmts x.
Proof.
  rewrite comments_cmts. unfold drop_bom. destruct (strip_prefix Norm.bom x) as [r|] eqn:E; [|reflexivity].
  apply strip_prefix_spec in E. subst x. symmetry.
  assert (H : cj anyf Norm.bom []).
  { exists (tag LNormal Norm.bom). split; [apply txt_tag|]. split; [apply piece_nq; reflexivity|]. split; reflexivity. }
  apply (cj_cmts anyf _ _ r H I).
Qed.

(* a printed item and the item read hold the same comments *)
Lemma item_cj s r w (it : sitem) :
  dsh_tbl (vok s) r = true -> uk2 (hkey s) r -> t_dotted r = false -> In w (S_print r) ->
  sitem_ok s it -> sitem_cj s it -> pfw w = fst it ->
  exists c, cj anyf (wtext s w) c /\ cj anyf (snd it) c.
Proof.
  intros Hs Hu Hnd Hw Hok Hcj Ex. destruct it as [x txt]. cbn [fst snd] in *. destruct (in_S_print r w Hw) as (e & He & Hwe).
  pose proof (sub_ents_dsh (vok s) r Hs) as Hrest. rewrite Forall_forall in Hrest.
  pose proof (proj2 (proj2 (ents_paths2 (hkey s))) r [] false Hu (Forall_nil _)) as Hpaths. rewrite ents_eq, Hnd in Hpaths.
  cbn [app] in Hpaths. rewrite Forall_forall in Hpaths.
  assert (Hee : In e ((r, [], false) :: sub_ents (t_items r) [])).
  { destruct He as [<- | He]; [left; reflexivity|right]. apply filter_In in He as [He _]. exact He. }
  destruct (Hpaths e Hee) as [HKp HKt].
  assert (Hes : dsh_tbl (vok s) (etbl e) = true).
  { destruct He as [<- | He]; [exact Hs|]. apply filter_In in He as [He _]. apply (Hrest e He). }
  destruct e as [[t p] a]. unfold etbl, epath in *. cbn [fst snd] in *. cbn [pit] in Hwe. apply in_app_iff in Hwe as [Hwe | Hwe].
  - destruct p as [|k0 p0]; [destruct Hwe|]. destruct Hwe as [<- | []]. cbn [pfw] in Ex. subst x. cbn [sitem_cj] in Hcj.
    destruct Hcj as (cl & ct & Hl & Ht & Hq & Htxt). exists (cl ++ ct). split; [|exact Htxt]. cbn [wtext].
    assert (Hqh : qt CS qstop (hdr_text s (k0 :: p0) a)).
    { destruct (hdr_shape s (k0 :: p0) a HKp ltac:(discriminate)) as (w1 & tk & w2 & Hw1 & Htk & Hw2 & E). rewrite E.
      apply (qt_table a _ (map k_key (k0 :: p0))). apply GrammarDocLine.table_tok_eq. exists w1, tk, w2.
      split; [destruct a; rewrite <- !app_assoc; reflexivity|auto]. }
    apply cjx_app_any; [exact Hl|]. change ct with ([] ++ ct).
    apply (cjx_app false qstop anyf); [apply (cj_qt CS), Hqh|exact Ht|intros z _; apply Hq].
  - apply in_map_iff in Hwe as ([kp v] & <- & Hkv). unfold wline in *. cbn [fst snd pfw] in *. subst x.
    pose proof (proj2 (proj2 (dsh_tv (vok s))) t [] Hes) as Hpv. unfold pvals in Hpv. rewrite Forall_forall in Hpv. destruct (Hpv _ Hkv) as [Hv _]. cbn [snd] in Hv.
    pose proof (proj2 (proj2 (tv_paths2 (hkey s))) t [] HKt (Forall_nil _)) as Htp. rewrite Forall_forall in Htp. destruct (Htp _ Hkv) as [Hkne Hks]. cbn [fst] in *.
    set (k' := last kp kdummy) in *. set (ks := removelast kp) in *.
    assert (Ekp : kp = ks ++ [k']) by (apply app_removelast_last, Hkne).
    cbn [sitem_cj] in Hcj. destruct Hcj as [_ Hcj]. destruct (Hcj Hv) as (cl & ct & Hl & Ht & Hq & Htxt). exists (cl ++ ct). split; [|exact Htxt].
    cbn [sitem_ok] in Hok. destruct Hok as (j0 & i0 & ja & jb & po & LS & r0 & _ & _ & _ & _ & _ & _ & _ & _ & _ & _ & Hlk & _).
    cbn [wtext]. rewrite Ekp. unfold dline. cbn [fst snd]. rewrite enc_split. fold (line_lead s k').
    replace ((line_lead s k' ++ pre_text s ks k' ++ krepr s k' ++ decor_suffix (k_leaf (tkey s k')) (snd DEFAULT_KEY_DECOR)) ++ [x3d]
             ++ encode_value (S (value_size (tvalue s v))) (tvalue s v) DEFAULT_VALUE_DECOR ++ [x0a])
      with (line_lead s k' ++ (pre_text s ks k' ++ krepr s k') ++ line_rest s k' v) by (unfold line_rest; rewrite <- !app_assoc; reflexivity).
    assert (Hqk : qt CS qstop (pre_text s ks k' ++ krepr s k')).
    { destruct (pre_shape s ks k' Hks Hlk) as (tt & Htt & Ett). rewrite Ett. apply (qt_key _ _ Htt). }
    apply cjx_app_any; [exact Hl|]. change ct with ([] ++ ct).
    apply (cjx_app false qstop anyf); [apply (cj_qt CS), Hqk|exact Ht|intros z _; apply Hq].
Qed.

Lemma items_cj s r (ws : list witem) : dsh_tbl (vok s) r = true -> uk2 (hkey s) r -> t_dotted r = false ->
  (forall w, In w ws -> In w (S_print r)) ->
  forall items : list sitem, Forall (sitem_ok s) items -> Forall (sitem_cj s) items -> map pfw ws = map fst items ->
  exists cl : list (list bytes), Forall2 (fun t c => cj anyf t c) (map (wtext s) ws) cl /\ Forall2 (fun t c => cj anyf t c) (map snd items) cl.
Proof.
  intros Hs Hu Hnd. induction ws as [|w ws IH]; intros Hin items Hok Hcj E.
  - destruct items; [|discriminate]. exists []. split; constructor.
  - destruct items as [|it items]; [discriminate|]. cbn [map] in E. injection E as E1 E2.
    inversion Hok as [|? ? Hit Hok']; subst. inversion Hcj as [|? ? Hic Hcj']; subst.
    destruct (IH (fun w' H => Hin w' (or_intror H)) items Hok' Hcj' E2) as (cl & F1 & F2).
    destruct (item_cj s r w it Hs Hu Hnd (Hin w (or_introl eq_refl)) Hit Hic E1) as (c & P1 & P2).
    exists (c :: cl). cbn [map]. split; constructor; assumption.
Qed.

Lemma cj_concat ts cl x : Forall2 (fun t c => cj anyf t c) ts cl -> cmts (concat ts ++ x) = concat cl ++ cmts x.
Proof.
  induction 1 as [|t c ts cl H _ IH]; [reflexivity|]. cbn [concat]. rewrite <- !app_assoc, (cj_cmts anyf t c _ H I), IH. reflexivity.
Qed.

Lemma Permutation_concat {A} (l l' : list (list A)) : Permutation l l' -> Permutation (concat l) (concat l').
Proof.
  induction 1 as [|x l l' _ IH|x y l|l l' l'' _ IH1 _ IH2]; cbn [concat].
  - constructor.
  - apply Permutation_app_head, IH.
  - rewrite !app_assoc. apply Permutation_app_tail, Permutation_app_comm.
  - exact (Permutation_trans IH1 IH2).
Qed.

(* C03: the printed text keeps every comment *)
Theorem doc_comments s d : parse_document s = POk d -> vals_ok s (doc_root d) = true -> supers_bare (doc_root d) = true ->
  Permutation (comments (render s d)) (comments s).
Proof.
  intros Hp Hv Hb.
  destruct (doc_items s d Hp) as (w & t & l & o & items & Es & Hw & Hlt & Eo & Hrd & Hdec & Hpos & Hur & Hperm & Hoks & Hsort & Hcjs).
  destruct (dsections_struct s (doc_root d) (traw s (doc_trailing d)) items Hv Hrd Hdec Hpos Hperm Hoks Hb) as [Edisp PS].
  apply Permutation_map_inv in PS as (items' & Emap & Pit).
  assert (Hoks' : Forall (sitem_ok s) items') by (apply Forall_forall; intros x Hx; rewrite Forall_forall in Hoks; apply Hoks, (Permutation_in _ (Permutation_sym Pit)), Hx).
  assert (Hcjs' : Forall (sitem_cj s) items') by (apply Forall_forall; intros x Hx; rewrite Forall_forall in Hcjs; apply Hcjs, (Permutation_in _ (Permutation_sym Pit)), Hx).
  destruct (items_cj s (doc_root d) (S_print (doc_root d)) Hv Hur Hrd (fun _ H => H) items' Hoks' Hcjs' Emap) as (cl & F1 & F2).
  destruct (Permutation_Forall2 (Permutation_map snd (Permutation_sym Pit)) F2) as (cl' & Pcl & F3).
  rewrite (comments_any (render s d)), (normalize_cmts s w t l o); [|rewrite drop_bom_strip_bom; exact Es|exact Hw|exact Hlt].
  rewrite (norm_lines s w t l o); [|rewrite drop_bom_strip_bom; exact Es|exact Hw|exact Hlt].
  unfold render. rewrite Edisp, Eo, (cj_concat _ cl _ F1), (cj_concat _ cl' _ F3).
  apply Permutation_app_tail, Permutation_concat, Pcl.
Qed.

(* the normal form of a document that parses has the comments of the document *)
Theorem normalize_comments s d : parse_document s = POk d -> comments (normalize s) = comments s.
Proof.
  intro Hp. destruct (doc_render_dotted s d Hp) as (w & t & l & o & Es & Hw & Hlt & _).
  rewrite comments_any. symmetry. apply (normalize_cmts s w t l o); [rewrite drop_bom_strip_bom; exact Es|exact Hw|exact Hlt].
Qed.
