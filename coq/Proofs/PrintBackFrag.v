(* Proofs/PrintBackFrag.v — C03, "where the printed text is not byte-identical": the fragment structure.
   Without the order and spelling checks of `laid_out` the printed text and the normal form of the source
   are concatenations of the SAME fragments A ++ _ ++ B — one per header / key-value line, every one used
   exactly once, in possibly different orders — whose middles (the key path text of a header or of a dotted
   key) may be spelled differently; and they end in the same trailing text. *)
From TV Require Import Base.Prelude Base.Utf8 Base.Winnow Gen.Consts Spec.Abnf Spec.Lex Spec.Defs Spec.Syntax Spec.Norm.
From TV Require Import Model.Trivia Model.Strings Model.Datetime Model.Numbers Model.Tree Model.Parse Model.Document Model.Write Model.Encode.
From TV Require Import Proofs.LexEquivBase Proofs.TilingDefs Proofs.TilingNormDoc
                       Proofs.PrintBackBase Proofs.PrintBackEnc Proofs.PrintBackKey Proofs.PrintBackValue Proofs.PrintBackDoc Proofs.PrintBackTop
                       Proofs.PrintBackSort Proofs.PrintBackEnts Proofs.PrintBackDisplay Proofs.PrintBackSecs Proofs.PrintBackHKey Proofs.PrintBackFinal
                       Proofs.PrintBackDVals Proofs.PrintBackDDisplay Proofs.PrintBackDAll Proofs.PrintBackDState Proofs.PrintBackDKey Proofs.PrintBackIValue Proofs.PrintBackDItems
                       Proofs.PrintBackDDoc Proofs.PrintBackDFinal Proofs.PrintBackDTop.
Require Import Lia Sorting.Permutation.

(* a fragment: the text before the key path, the key path as printed, the key path as read, the text after it *)
Definition frag : Type := (bytes * bytes * bytes * bytes)%type.
Definition fr_printed (f : frag) : bytes := let '(A, X, Y, B) := f in A ++ X ++ B.
Definition fr_read (f : frag) : bytes := let '(A, X, Y, B) := f in A ++ Y ++ B.

(* super-tables (made by a header `[a.b]` for `a`) hold no key/value lines of their own *)
Definition supers_bare (r : tbl) : bool := forallb f2 (sub_ents (t_items r) []).

Lemma laid_out_supers s r : laid_out s r = true -> supers_bare r = true.
Proof. unfold laid_out, supers_bare. intro H. apply andb_true_iff in H as [H _]. apply andb_true_iff in H as [H _]. exact H. Qed.

Lemma same_frags s r (ws : list witem) : dsh_tbl (vok s) r = true -> (forall w, In w ws -> In w (S_print r)) ->
  forall items : list sitem, Forall (sitem_ok s) items -> map pfw ws = map fst items ->
  exists fs : list frag, map fr_printed fs = map (wtext s) ws /\ map fr_read fs = map snd items.
Proof.
  intros Hs. induction ws as [|w ws IH]; intros Hin items Hok E.
  - destruct items; [|discriminate]. exists []. split; reflexivity.
  - destruct items as [|it items]; [discriminate|]. cbn [map] in E. injection E as E1 E2. inversion Hok as [|? ? Hit Hok']; subst.
    destruct (IH (fun w' H => Hin w' (or_intror H)) items Hok' E2) as (fs & F1 & F2).
    destruct (item_same s r w it Hs (Hin w (or_introl eq_refl)) Hit E1) as (A & X & Y & B & P1 & P2).
    exists ((A, X, Y, B) :: fs). cbn [map fr_printed fr_read]. rewrite F1, F2, P1, P2. split; reflexivity.
Qed.

Theorem doc_fragments s d : parse_document s = POk d -> vals_ok s (doc_root d) = true -> supers_bare (doc_root d) = true ->
  exists (printed read : list frag) (trailing : bytes),
    Permutation printed read
    /\ render s d = concat (map fr_printed printed) ++ trailing
    /\ normalize s = concat (map fr_read read) ++ trailing.
Proof.
  intros Hp Hv Hb. destruct (doc_items s d Hp) as (w & t & l & o & items & Es & Hw & Hlt & Eo & Hrd & Hdec & Hpos & Hur & Hperm & Hoks & Hsort).
  destruct (dsections_struct s (doc_root d) (traw s (doc_trailing d)) items Hv Hrd Hdec Hpos Hperm Hoks Hb) as [Edisp PS].
  apply Permutation_map_inv in PS as (items' & Emap & Pit).
  assert (Hoks' : Forall (sitem_ok s) items').
  { apply Forall_forall. intros x Hx. rewrite Forall_forall in Hoks. apply Hoks. apply (Permutation_in _ (Permutation_sym Pit)), Hx. }
  destruct (same_frags s (doc_root d) (S_print (doc_root d)) Hv (fun _ H => H) items' Hoks' Emap) as (fs & F1 & F2).
  assert (P2 : Permutation (map fr_read fs) (map snd items)) by (rewrite F2; apply Permutation_map, Permutation_sym, Pit).
  apply Permutation_sym, Permutation_map_inv in P2 as (fs' & Emap' & Pfs).
  exists fs, fs', (raw_encode (traw s (doc_trailing d)) []). split; [exact Pfs|]. split.
  - unfold render. rewrite Edisp, F1. reflexivity.
  - rewrite (norm_lines s w t l o); [|rewrite drop_bom_strip_bom; exact Es|exact Hw|exact Hlt]. rewrite <- Emap'. exact Eo.
Qed.
