(* Proofs/DepthSweep.v — lemmas behind Props/C05.v, part 6: witness documents.
   The single-construct families, the finite sweeps (a proof: the domain is finite and the model
   is executable), the F12 shape, and the documents showing that the proved bounds are attained. *)
From Coq Require Import List Bool Arith NArith ZArith Lia.
From Coq.Strings Require Import Byte.
From TV Require Import Base.Prelude Base.Utf8 Base.Winnow Gen.Consts.
From TV Require Import Model.Tree Model.Parse Model.Document.
From TV Require Import Proofs.DepthBase Proofs.DepthValue Proofs.DepthDoc Proofs.DepthLimit.
Import ListNotations.

(* ---- shapes ------------------------------------------------------------------------------ *)
Definition rep {A} (n : nat) (l : list A) : list A := concat (repeat l n).
(* k.k.….k  (n segments) *)
Definition kpath (n : nat) : bytes := match n with 0 => [] | S m => x6b :: rep m [x2e; x6b] end.
(* a=[[…]]            n arrays *)
Definition nested_arrays (n : nat) : bytes := [x61; x3d] ++ repeat x5b n ++ repeat x5d n.
(* a={k={k=…1…}}      n inline tables *)
Definition nested_inline (n : nat) : bytes := [x61; x3d] ++ braces n ++ [x31] ++ repeat x7d n.
(* k.k.….k=1          n segments *)
Definition dotted_key (n : nat) : bytes := kpath n ++ [x3d; x31].
(* [k.k.….k]          n segments *)
Definition header_path (n : nat) : bytes := [x5b] ++ kpath n ++ [x5d].
(* [[k.k.….k]]        n segments *)
Definition aot_path (n : nat) : bytes := [x5b; x5b] ++ kpath n ++ [x5d; x5d].

Definition accepted (s : bytes) : bool := match parse_document s with POk _ => true | _ => false end.
Definition limit_err (s : bytes) : bool :=
  match parse_document s with
  | PErr e _ => match e_cause e with Some RecursionLimit => true | _ => false end
  | _ => false
  end.
Definition depth_of (s : bytes) : option nat :=
  match parse_document s with POk d => Some (tbl_depth (doc_root d)) | _ => None end.

Lemma sweep_lift (P : nat -> bool) a len :
  forallb P (seq a len) = true -> forall n, a <= n < a + len -> P n = true.
Proof. intros H n Hn. rewrite forallb_forall in H. apply H. apply in_seq. lia. Qed.

(* ---- below the limit: accepted, with the expected depth ----------------------------------- *)
Definition below_ok (n : nat) : bool :=
  match depth_of (nested_arrays n), depth_of (nested_inline n), depth_of (dotted_key n),
        depth_of (header_path n), depth_of (aot_path n) with
  | Some a, Some b, Some c, Some d, Some e =>
    Nat.eqb a (n + 1) && Nat.eqb b (n + 1) && Nat.eqb c n && Nat.eqb d (n + 1) && Nat.eqb e (n + 2)
  | _, _, _, _, _ => false
  end.

Lemma below_sweep : forallb below_ok (seq 1 (LIMIT - 1)) = true.
Proof. vm_compute. reflexivity. Qed.

Lemma depth_of_accepted s d : depth_of s = Some d -> accepted s = true.
Proof. unfold depth_of, accepted. destruct (parse_document s); congruence. Qed.

Lemma below_depths n : 1 <= n < LIMIT ->
  depth_of (nested_arrays n) = Some (n + 1) /\ depth_of (nested_inline n) = Some (n + 1) /\
  depth_of (dotted_key n) = Some n /\ depth_of (header_path n) = Some (n + 1) /\
  depth_of (aot_path n) = Some (n + 2).
Proof.
  intro Hn. pose proof LIMIT_ge2 as HL.
  pose proof (sweep_lift below_ok 1 (LIMIT - 1) below_sweep n ltac:(lia)) as H.
  unfold below_ok in H.
  destruct (depth_of (nested_arrays n)) as [a|]; [|discriminate].
  destruct (depth_of (nested_inline n)) as [b|]; [|discriminate].
  destruct (depth_of (dotted_key n)) as [c|]; [|discriminate].
  destruct (depth_of (header_path n)) as [d|]; [|discriminate].
  destruct (depth_of (aot_path n)) as [e|]; [|discriminate].
  repeat (apply andb_true_iff in H as [H ?]).
  repeat match goal with E : Nat.eqb _ _ = true |- _ => apply Nat.eqb_eq in E; subst end.
  repeat split; reflexivity.
Qed.

Lemma below_accepted n : 1 <= n < LIMIT ->
  accepted (nested_arrays n) = true /\ accepted (nested_inline n) = true /\
  accepted (dotted_key n) = true /\ accepted (header_path n) = true /\ accepted (aot_path n) = true.
Proof.
  intro Hn. destruct (below_depths n Hn) as (A & B & C & D & E).
  repeat split; eapply depth_of_accepted; eassumption.
Qed.

(* ---- at and above the limit: the recursion-limit error ------------------------------------ *)
Definition above_ok (n : nat) : bool :=
  limit_err (nested_arrays n) && limit_err (nested_inline n) && limit_err (dotted_key n)
  && limit_err (header_path n) && limit_err (aot_path n).

Lemma above_sweep : forallb above_ok (seq LIMIT 41) = true.
Proof. vm_compute. reflexivity. Qed.

Lemma limit_error_sweep n : LIMIT <= n <= LIMIT + 40 ->
  limit_err (nested_arrays n) = true /\ limit_err (nested_inline n) = true /\
  limit_err (dotted_key n) = true /\ limit_err (header_path n) = true /\ limit_err (aot_path n) = true.
Proof.
  intro Hn. pose proof (sweep_lift above_ok LIMIT 41 above_sweep n ltac:(lia)) as H.
  unfold above_ok in H. repeat (apply andb_true_iff in H as [H ?]). repeat split; assumption.
Qed.

(* for every n, by induction (Proofs/DepthLimit.v) *)
Lemma limit_error_arrays n : LIMIT <= n -> limit_err (nested_arrays n) = true.
Proof.
  intro Hn. unfold limit_err, nested_arrays.
  destruct (doc_arrays_limit n (repeat x5d n) Hn) as [at_ H]. rewrite H. reflexivity.
Qed.
Lemma limit_error_inline n : LIMIT <= n -> limit_err (nested_inline n) = true.
Proof.
  intro Hn. unfold limit_err, nested_inline.
  destruct (doc_inlines_limit n ([x31] ++ repeat x7d n) Hn) as [at_ H]. rewrite H. reflexivity.
Qed.

(* ---- the F12 shape: inline tables x dotted keys -------------------------------------------- *)
(* a={k.….k={k.….k=…1…}}   `levels` inline tables, each reached through `segs` key segments;
   before the repair this was accepted with a tree levels*segs deep *)
Definition f12 (levels segs : nat) : bytes :=
  [x61; x3d] ++ rep levels ([x7b] ++ kpath segs ++ [x3d]) ++ [x31] ++ rep levels [x7d].

Lemma f12_3x79_rejected : limit_err (f12 3 79) = true.
Proof. vm_compute. reflexivity. Qed.
Lemma f12_2x40_rejected : limit_err (f12 2 40) = true.
Proof. vm_compute. reflexivity. Qed.
Lemma f12_40x79_rejected : limit_err (f12 40 79) = true.
Proof. vm_compute. reflexivity. Qed.
(* the products that stay below the limit are still accepted: depth = 1 (root) + levels*segs *)
Lemma f12_products_accepted :
  depth_of (f12 2 39) = Some 79 /\ depth_of (f12 3 26) = Some 79 /\ depth_of (f12 1 79) = Some 80 /\
  depth_of (f12 79 1) = Some 80 /\ depth_of (f12 13 6) = Some 79.
Proof. vm_compute. repeat split; reflexivity. Qed.

(* ---- the bounds are attained ---------------------------------------------------------------- *)
(* [[…{k.….k=1}…]] : na arrays around one inline table with a dotted key of `segs` segments *)
Definition deep_value (na segs : nat) : bytes :=
  repeat x5b na ++ [x7b] ++ kpath segs ++ [x3d; x31; x7d] ++ repeat x5d na.

Definition value_depth_of (s : bytes) : option nat :=
  match parse_value_raw s with POk v => Some (value_depth v) | _ => None end.

(* inline_depth_bound is tight: LIMIT - 1 *)
Lemma inline_bound_attained : value_depth_of (deep_value 0 (LIMIT - 1)) = Some (LIMIT - 1).
Proof. vm_compute. reflexivity. Qed.
(* value_depth_bound is tight: 2 * LIMIT - 3 *)
Lemma value_bound_attained : value_depth_of (deep_value (LIMIT - 2) (LIMIT - 1)) = Some (2 * LIMIT - 3).
Proof. vm_compute. reflexivity. Qed.
(* one more array, or one more key segment, is refused *)
Lemma value_bound_next_rejected :
  value_depth_of (deep_value (LIMIT - 1) (LIMIT - 1)) = None /\
  value_depth_of (deep_value (LIMIT - 2) LIMIT) = None.
Proof. vm_compute. split; reflexivity. Qed.

(* [[k]] [[k.k]] … [[k.….k]] (h headers), then  k.….k (kk segments) = deep_value na segs *)
Definition aot_headers (h : nat) : bytes :=
  concat (map (fun j => [x5b; x5b] ++ kpath j ++ [x5d; x5d; x0a]) (seq 1 h)).
Definition deepest (h kk na segs : nat) : bytes :=
  aot_headers h ++ kpath kk ++ [x3d] ++ deep_value na segs.

(* document_depth_bound is tight: 5 * LIMIT - 6, by a document of about 7 KB *)
Lemma doc_bound_attained :
  depth_of (deepest (LIMIT - 1) (LIMIT - 1) (LIMIT - 2) (LIMIT - 1)) = Some DEPTH_BOUND.
Proof. vm_compute. reflexivity. Qed.
Lemma doc_bound_size : N.of_nat (length (deepest (LIMIT - 1) (LIMIT - 1) (LIMIT - 2) (LIMIT - 1))) = 7111%N.
Proof. vm_compute. reflexivity. Qed.
