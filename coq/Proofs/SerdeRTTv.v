(* Proofs/SerdeRTTv.v — C07, toml::Value::try_from / Table::try_from read back by try_into:
     * a value without any documented unsupported shape (`supported`) is accepted and round-trips;
     * a failure names a documented unsupported shape;
     * (since the repair of C07-tryfrom-nested-none-dropped) a value WITH such a shape is refused, so that the family
       accepts exactly the `supported` values and whatever it accepts round-trips — on types whose map keys are not
       `char` / `Option<_>` (`doc_keys`: SerializeMap::serialize_key accepts those, the document serializers do not). *)
From TV Require Import Base.Prelude Base.Utf8 Model.Datetime Model.DatetimeStd Model.WriteFloat Model.SerNum
  Spec.DatetimeSpec Spec.SerdeData Model.Ser Model.De
  Proofs.DatetimeEq Proofs.NumbersRT_Ser Proofs.SerdeRTBase Proofs.SerdeRTEq Proofs.SerdeRTLeaf Proofs.SerdeRTLists
  Proofs.SerdeRT Proofs.SerdeRTErr Proofs.SerdeRTRefuse Proofs.SerdeRTBTree.
From Coq Require Import Permutation Sorted.

(* ---- unfolding equations ---- *)
Definition tv_fields (fs : list (bytes * ty)) (vs : list sval) : result (list (option (bytes * tomlval))) :=
  zipM (fun ft v' => rmap (optmap (fun x => (fst ft, x))) (ser_map_value tv_ser (snd ft) v')) fs vs.
Definition tv_entries (kt vt : ty) (es : list (sval * sval)) : result (list (option (bytes * tomlval))) :=
  mapM (fun kv => rbind (tv_key (tv_ser kt (fst kv))) (fun k =>
                  rmap (optmap (fun x => (k, x))) (ser_map_value tv_ser vt (snd kv)))) es.
Definition btable_of (ps : list (option (bytes * tomlval))) : tomlval := VTab (btree_of_pairs (somes_pairs ps)).
Definition tv_variant (p : sval) (nv : bytes * variant) : result tomlval :=
  match snd nv with
  | VUnit => match p with SUnit => Ok (VStr (fst nv)) | _ => Err EBadCase end
  | _ => rmap (fun x => VTab [(fst nv, x)]) (tv_payload (snd nv) p)
  end.

Lemma ts_opt_some t v : tv_ser (TOpt t) (SSome v) = tv_ser t v. Proof. reflexivity. Qed.
Lemma ts_seq t vs : tv_ser (TSeq t) (SSeq vs) = rmap VArr (mapM (tv_ser t) vs). Proof. reflexivity. Qed.
Lemma ts_tuple ts vs : tv_ser (TTuple ts) (SSeq vs) = rmap VArr (zipM tv_ser ts vs). Proof. reflexivity. Qed.
Lemma ts_tuple_struct n ts vs : tv_ser (TTupleStruct n ts) (SSeq vs) = rmap VArr (zipM tv_ser ts vs). Proof. reflexivity. Qed.
Lemma ts_map kt vt es : tv_ser (TMap kt vt) (SMap es) = rmap btable_of (tv_entries kt vt es). Proof. reflexivity. Qed.
Lemma ts_struct_gen n fs vs : tv_ser (TStruct n fs) (SRec vs) =
  rbind (tv_fields fs vs) (fun ps => if bytes_eqb n DT_NAME then tv_dt_end (btree_of_pairs (somes_pairs ps)) else Ok (btable_of ps)).
Proof. reflexivity. Qed.
Lemma ts_struct n fs vs : private_name n = false -> tv_ser (TStruct n fs) (SRec vs) = rmap btable_of (tv_fields fs vs).
Proof. intro H. rewrite ts_struct_gen, (private_not_dt n H). destruct (tv_fields fs vs); reflexivity. Qed.
Lemma ts_newtype n t v : tv_ser (TNewtype n t) (SNewtype v) = tv_ser t v. Proof. reflexivity. Qed.
Lemma ts_enum n vs i p : tv_ser (TEnum n vs) (SVariant i p) = pick (tv_variant p) (Err EBadCase) vs i. Proof. reflexivity. Qed.
Lemma tp_newtype t p : tv_payload (VNewtype t) p = tv_ser t p. Proof. destruct p; reflexivity. Qed.
Lemma tp_tuple ts vs : tv_payload (VTuple ts) (SSeq vs) = rmap VArr (zipM tv_ser ts vs). Proof. reflexivity. Qed.
Lemma tp_struct fs vs : tv_payload (VStruct fs) (SRec vs) = rmap btable_of (tv_fields fs vs). Proof. reflexivity. Qed.

Definition tvd_entries (kt vt : ty) (es : list (bytes * tomlval)) : result (list (sval * sval)) :=
  mapM (fun kx => rbind (tv_de kt (VStr (fst kx))) (fun k => rmap (fun v => (k, v)) (tv_de vt (snd kx)))) es.
Lemma td_opt t x : tv_de (TOpt t) x = rmap SSome (tv_de t x). Proof. reflexivity. Qed.
Lemma td_seq t xs : tv_de (TSeq t) (VArr xs) = rmap SSeq (mapM (tv_de t) xs). Proof. reflexivity. Qed.
Lemma td_tuple ts xs : tv_de (TTuple ts) (VArr xs) = rmap SSeq (all_read (de_pos tv_de (fun t' => t') ts xs)). Proof. reflexivity. Qed.
Lemma td_tuple_struct n ts xs :
  tv_de (TTupleStruct n ts) (VArr xs) = rmap SSeq (all_read (de_pos tv_de (fun t' => t') ts xs)). Proof. reflexivity. Qed.
Lemma td_map kt vt es : tv_de (TMap kt vt) (VTab es) = rmap (fun ps => SMap (smap_of_pairs ps)) (tvd_entries kt vt es).
Proof. reflexivity. Qed.
Lemma td_struct n fs es : tv_de (TStruct n fs) (VTab es) = rmap SRec (de_struct_map tv_de fs es). Proof. reflexivity. Qed.
Lemma td_newtype n t x : tv_de (TNewtype n t) x = rmap SNewtype (tv_de t x). Proof. reflexivity. Qed.
Lemma td_enum_str n vs s : tv_de (TEnum n vs) (VStr s) = find_name de_unit_only (Err EDe) s vs 0. Proof. reflexivity. Qed.
Lemma td_enum_tab n vs k y : tv_de (TEnum n vs) (VTab [(k, y)]) =
  find_name (fun i var => rmap (SVariant i) (tv_de_payload var y)) (Err EDe) k vs 0. Proof. reflexivity. Qed.
Lemma tdp_newtype t y : tv_de_payload (VNewtype t) y = tv_de t y. Proof. reflexivity. Qed.
Lemma tdp_tuple ts xs : tv_de_payload (VTuple ts) (VArr xs) =
  if Nat.eqb (length xs) (length ts) then rmap SSeq (all_read (de_pos tv_de (fun t' => t') ts xs)) else Err EDe.
Proof. reflexivity. Qed.
Lemma tdp_struct fs es : tv_de_payload (VStruct fs) (VTab es) = rmap SRec (de_struct_map tv_de fs es). Proof. reflexivity. Qed.

(* ---- keys: whatever the key serializer of toml_edit accepts, SerializeMap::serialize_key accepts too ---- *)
Lemma tv_key_roundtrip t : forall a s, has_type_b t a = true -> ser_key t a = Ok s ->
  tv_key (tv_ser t a) = Ok s /\ tv_de t (VStr s) = Ok a.
Proof.
  induction t using ty_ind2 with (Q := fun _ => True); try exact I; intros a s Hty Hser;
    try (destruct a; simpl in Hser; discriminate Hser).
  - destruct a; simpl in Hser; destruct (ser_method_of w); discriminate Hser.
  - destruct a; simpl in Hser; try discriminate Hser. injection Hser as <-. split; reflexivity.
  - destruct a; try (simpl in Hser; discriminate Hser). rewrite sk_newtype in Hser. rewrite ht_newtype in Hty.
    destruct (IHt a s Hty Hser) as (K1 & K2). rewrite ts_newtype, td_newtype, K2. split; [exact K1|reflexivity].
  - destruct a; try (simpl in Hser; discriminate Hser). rewrite sk_enum in Hser. rewrite ht_enum in Hty.
    apply andb_true_iff in Hty as [Hnd Hp]. apply nodup_bytes_NoDup in Hnd.
    destruct (pick_cases key_variant (Err EBadCase) vs idx) as [([vn var] & Hn & E)|[_ E]]; rewrite E in Hser; [|discriminate].
    rewrite (pick_nth _ _ _ _ _ Hn) in Hp. simpl in Hp.
    unfold key_variant in Hser. simpl in Hser. destruct var; try discriminate. injection Hser as <-.
    apply htv_unit in Hp. subst a.
    rewrite ts_enum, (pick_nth _ _ _ _ _ Hn). rewrite td_enum_str, (find_name_nth _ _ _ _ _ _ _ Hnd Hn).
    split; reflexivity.
Qed.

(* ---- a failure names SOME documented unsupported shape ---- *)
Definition TVERR (t : ty) : Prop :=
  forall v e, has_type_b t v = true -> tv_ser t v = Err e -> exists e', unsupported CElem t v e'.
Definition TVERRV (var : variant) : Prop :=
  var <> VUnit -> forall p e, has_type_variant_b var p = true -> tv_payload var p = Err e -> exists e', unsupported_variant var p e'.

Lemma tverr_field t v e : TVERR t -> has_type_b t v = true -> ser_map_value tv_ser t v = Err e ->
  exists e', unsupported CField t v e'.
Proof.
  intros IH Hty H.
  assert (Hn : v <> SNone).
  { intros ->. pose proof (none_typed t Hty) as Ho. destruct t; try discriminate Ho. simpl in H. discriminate H. }
  rewrite (ser_map_value_not_none tv_ser t v Hn) in H. apply rmap_err in H.
  destruct (IH v e Hty H) as (e' & U). exists e'. apply unsupported_ctx; assumption.
Qed.

Lemma tverr_tuple ts vs e : Forall TVERR ts -> all2b has_type_b ts vs = true -> zipM tv_ser ts vs = Err e ->
  exists i t v e', nth_error ts i = Some t /\ nth_error vs i = Some v /\ unsupported CElem t v e'.
Proof.
  intros IH Hty H. apply all2b_Forall2 in Hty.
  destruct (zipM_err _ _ _ _ (Forall2_length' _ _ _ Hty) H) as (i & t & v & H1 & H2 & H3).
  rewrite Forall_forall in IH. destruct (IH t (nth_error_In _ _ H1) v e) as (e' & U); [|exact H3|].
  - apply (Forall2_nth _ _ _ _ _ _ Hty H1 H2).
  - exists i, t, v, e'. auto.
Qed.

Lemma tverr_fields fs vs e : Forall (fun ft => TVERR (snd ft)) fs ->
  all2b (fun ft v' => has_type_b (snd ft) v') fs vs = true -> tv_fields fs vs = Err e ->
  exists i f t v e', nth_error fs i = Some (f, t) /\ nth_error vs i = Some v /\ unsupported CField t v e'.
Proof.
  intros IH Hty H. apply all2b_Forall2 in Hty. unfold tv_fields in H.
  destruct (zipM_err _ _ _ _ (Forall2_length' _ _ _ Hty) H) as (i & [f t] & v & H1 & H2 & H3).
  simpl in H3. apply rmap_err in H3. rewrite Forall_forall in IH.
  destruct (tverr_field t v e (IH (f, t) (nth_error_In _ _ H1))) as (e' & U); [|exact H3|].
  - apply (Forall2_nth _ _ _ _ _ _ Hty H1 H2).
  - exists i, f, t, v, e'. auto.
Qed.

Theorem tv_errors : forall t, TVERR t.
Proof.
  induction t using ty_ind2 with (Q := TVERRV); unfold TVERR, TVERRV in *.
  - intros v e Hty Hser. destruct v; simpl in Hty; try discriminate Hty; simpl in Hser; discriminate Hser.
  - intros v e Hty Hser. destruct v; simpl in Hty; try discriminate Hty. simpl in Hser.
    destruct (tv_ser_int w z) eqn:E; [discriminate|]. unfold tv_ser_int in E.
    destruct (ser_method_of w) eqn:M; [discriminate| | |].
    + unfold tv_serialize_u64 in E. destruct (fits_i64 z) eqn:F; [discriminate|]. eexists. apply u_u64; assumption.
    + eexists. apply u_i128; assumption.
    + eexists. apply u_u128; assumption.
  - intros v e Hty Hser. destruct w; destruct v; simpl in Hty; try discriminate Hty; simpl in Hser; discriminate Hser.
  - intros v e Hty Hser. destruct v; simpl in Hty; try discriminate Hty; simpl in Hser; discriminate Hser.
  - intros v e Hty Hser. destruct v; simpl in Hty; try discriminate Hty; simpl in Hser; discriminate Hser.
  - (* TDatetime: the tunnel text is what Display printed; it parses (C12) *)
    intros v e Hty Hser. destruct v; simpl in Hty; try discriminate Hty. simpl in Hser.
    apply andb_true_iff in Hty as [Hr _]. unfold ser_datetime, dt_field_str in Hser.
    rewrite (print_parse_std d Hr) in Hser. discriminate Hser.
  - intros v e Hty Hser. destruct v; simpl in Hty; try discriminate Hty. eexists. apply u_unit.
  - intros v e Hty Hser. destruct v; simpl in Hty; try discriminate Hty. eexists. apply u_unit_struct.
  - intros v e Hty Hser. destruct v; simpl in Hty; try discriminate Hty.
    + eexists. apply u_none.
    + rewrite ts_opt_some in Hser. destruct (IHt v e Hty Hser) as (e' & U). eexists. apply u_some. exact U.
  - intros v e Hty Hser. destruct v; try (simpl in Hty; discriminate Hty).
    rewrite ht_seq in Hty. rewrite ts_seq in Hser. apply rmap_err in Hser.
    destruct (mapM_err _ _ _ Hser) as (a & Hin & Ha). rewrite forallb_forall in Hty.
    destruct (IHt a e (Hty a Hin) Ha) as (e' & U). eexists. eapply u_seq; eassumption.
  - intros v e Hty Hser. destruct v; try (simpl in Hty; discriminate Hty).
    rewrite ht_tuple in Hty. rewrite ts_tuple in Hser. apply rmap_err in Hser.
    destruct (tverr_tuple ts vs e H Hty Hser) as (i & t & v & e' & H1 & H2 & H3). eexists. eapply u_tuple; eassumption.
  - intros v e Hty Hser. destruct v; try (simpl in Hty; discriminate Hty).
    rewrite ht_map in Hty. apply andb_true_iff in Hty as [Hty _]. apply andb_true_iff in Hty as [_ Hes].
    rewrite ts_map in Hser. apply rmap_err in Hser. unfold tv_entries in Hser.
    destruct (mapM_err _ _ _ Hser) as ([k x] & Hin & Ha). simpl in Ha.
    rewrite forallb_forall in Hes. specialize (Hes _ Hin). simpl in Hes. apply andb_true_iff in Hes as [Hk Hx].
    apply rbind_err in Ha as [Ha|(s & _ & Ha)].
    + destruct (ser_key t1 k) as [s|e0] eqn:K.
      * destruct (tv_key_roundtrip t1 k s Hk K) as [K1 _]. congruence.
      * eexists. eapply u_map_key; [exact Hin|]. apply ser_key_err; eassumption.
    + apply rmap_err in Ha. destruct (tverr_field t2 x e IHt2 Hx Ha) as (e' & U). eexists. eapply u_map_val; eassumption.
  - intros v e Hty Hser. destruct v; try (simpl in Hty; discriminate Hty).
    rewrite ht_struct in Hty. apply andb_true_iff in Hty as [Hty Hvs]. apply andb_true_iff in Hty as [Hpriv _].
    apply negb_true_iff in Hpriv. rewrite (ts_struct n fs vs Hpriv) in Hser. apply rmap_err in Hser.
    destruct (tverr_fields fs vs e H Hvs Hser) as (i & f & t & v & e' & H1 & H2 & H3). eexists. eapply u_struct; eassumption.
  - intros v e Hty Hser. destruct v; try (simpl in Hty; discriminate Hty).
    rewrite ht_newtype in Hty. rewrite ts_newtype in Hser. destruct (IHt v e Hty Hser) as (e' & U).
    eexists. apply u_newtype. exact U.
  - intros v e Hty Hser. destruct v; try (simpl in Hty; discriminate Hty).
    rewrite ht_tuple_struct in Hty. rewrite ts_tuple_struct in Hser. apply rmap_err in Hser.
    destruct (tverr_tuple ts vs e H Hty Hser) as (i & t & v & e' & H1 & H2 & H3). eexists. eapply u_tuple_struct; eassumption.
  - intros v e Hty Hser. destruct v as [| | | | | | | | | | | | | |i p]; try (simpl in Hty; discriminate Hty).
    rewrite ht_enum in Hty. apply andb_true_iff in Hty as [_ Hp]. rewrite ts_enum in Hser.
    destruct (pick_cases (tv_variant p) (Err EBadCase) vs i) as [([vn var] & Hn & E)|[Hn E]].
    + rewrite E in Hser. rewrite (pick_nth _ _ _ _ _ Hn) in Hp. simpl in Hp.
      assert (HQ : var <> VUnit -> forall q e0, has_type_variant_b var q = true -> tv_payload var q = Err e0 ->
                   exists e', unsupported_variant var q e').
      { rewrite Forall_forall in H. apply (H (vn, var)). eapply nth_error_In; exact Hn. }
      unfold tv_variant in Hser. simpl in Hser.
      destruct var; [apply htv_unit in Hp; subst p; discriminate Hser| | |];
        apply rmap_err in Hser; (destruct (HQ ltac:(discriminate) p e Hp Hser) as (e' & U); eexists; eapply u_variant; [exact Hn|exact U]).
    + rewrite (pick_none _ _ _ _ Hn) in Hp. discriminate Hp.
  - intros Hne. contradiction.
  - intros _ p e Hty Hser. rewrite htv_newtype in Hty. rewrite tp_newtype in Hser.
    destruct (IHt p e Hty Hser) as (e' & U). eexists. apply uv_newtype. exact U.
  - intros _ p e Hty Hser. destruct p; try (simpl in Hty; discriminate Hty).
    rewrite htv_tuple in Hty. rewrite tp_tuple in Hser. apply rmap_err in Hser.
    destruct (tverr_tuple ts vs e H Hty Hser) as (i & t & v & e' & H1 & H2 & H3). eexists. eapply uv_tuple; eassumption.
  - intros _ p e Hty Hser. destruct p; try (simpl in Hty; discriminate Hty).
    rewrite htv_struct in Hty. apply andb_true_iff in Hty as [_ Hvs]. rewrite tp_struct in Hser. apply rmap_err in Hser.
    destruct (tverr_fields fs vs e H Hvs Hser) as (i & f & t & v & e' & H1 & H2 & H3). eexists. eapply uv_struct; eassumption.
Qed.

Theorem tv_supported_ok t v : has_type v t -> supported t v -> exists x, tv_ser t v = Ok x.
Proof.
  intros Hty Hs. destruct (tv_ser t v) as [x|e] eqn:E; [exists x; reflexivity|].
  exfalso. destruct (tv_errors t v e Hty E) as (e' & U). apply (Hs e' U).
Qed.

(* ---- round trip under `supported` ---- *)
Definition TVRT (t : ty) : Prop :=
  forall v x, has_type_b t v = true -> supported t v -> tv_ser t v = Ok x ->
              exists v', tv_de t x = Ok v' /\ sval_eq v v'.
Definition TVRTV (var : variant) : Prop :=
  forall p x, has_type_variant_b var p = true -> (forall e, ~ unsupported_variant var p e) -> tv_payload var p = Ok x ->
              exists p', tv_de_payload var x = Ok p' /\ sval_eq p p'.

Lemma tvrt_list t : TVRT t -> forall vs xs,
  forallb (has_type_b t) vs = true -> (forall v, In v vs -> supported t v) -> mapM (tv_ser t) vs = Ok xs ->
  exists vs', mapM (tv_de t) xs = Ok vs' /\ Forall2 sval_eq vs vs'.
Proof.
  intros IH. induction vs as [|v vs IHvs]; intros xs Hty Hs H; simpl in *.
  - injection H as <-. exists []. split; [reflexivity|constructor].
  - apply andb_true_iff in Hty as [Hv Hvs].
    apply rbind_ok in H as (x & Hx & H). apply rbind_ok in H as (xs' & Hxs & H). injection H as <-.
    destruct (IH v x Hv (Hs v (or_introl eq_refl)) Hx) as (v' & Dv & Ev).
    destruct (IHvs xs' Hvs (fun a Ha => Hs a (or_intror Ha)) Hxs) as (vs' & Dvs & Evs).
    exists (v' :: vs'). simpl. rewrite Dv, Dvs. simpl. split; [reflexivity|constructor; assumption].
Qed.

Lemma tvrt_tuple ts : Forall TVRT ts -> forall vs xs,
  all2b has_type_b ts vs = true ->
  (forall i t v, nth_error ts i = Some t -> nth_error vs i = Some v -> supported t v) ->
  zipM tv_ser ts vs = Ok xs ->
  length xs = length ts /\
  exists vs', all_read (de_pos tv_de (fun t' => t') ts xs) = Ok vs' /\ Forall2 sval_eq vs vs'.
Proof.
  induction 1 as [|t ts IHt _ IH]; intros [|v vs] xs Hty Hs H; simpl in *; try discriminate.
  - injection H as <-. split; [reflexivity|]. exists []. split; [reflexivity|constructor].
  - apply andb_true_iff in Hty as [Hv Hvs].
    apply rbind_ok in H as (x & Hx & H). apply rbind_ok in H as (xs' & Hxs & H). injection H as <-.
    destruct (IHt v x Hv (Hs 0%nat t v eq_refl eq_refl) Hx) as (v' & Dv & Ev).
    destruct (IH vs xs' Hvs (fun i => Hs (S i)) Hxs) as (Hl & vs' & Dvs & Evs).
    split; [simpl; congruence|].
    unfold all_read in Dvs. apply rbind_ok in Dvs as ([l r] & Dp & Dr). simpl in Dr. destruct r; [|discriminate]. injection Dr as <-.
    exists (v' :: l). unfold all_read. simpl. rewrite Dv. simpl. rewrite Dp. simpl. split; [reflexivity|constructor; assumption].
Qed.

Lemma tvrt_fields fs : Forall (fun ft => TVRT (snd ft)) fs -> forall vs ps,
  all2b (fun ft v' => has_type_b (snd ft) v') fs vs = true ->
  (forall i f t v e, nth_error fs i = Some (f, t) -> nth_error vs i = Some v -> ~ unsupported CField t v e) ->
  tv_fields fs vs = Ok ps -> Forall3 (field_rt tv_de) fs vs ps.
Proof.
  unfold tv_fields.
  induction 1 as [|[f t] fs IHt _ IH]; intros [|v vs] ps Hty Hs H; simpl in *; try discriminate.
  - injection H as <-. constructor.
  - apply andb_true_iff in Hty as [Hv Hvs].
    apply rbind_ok in H as (p & Hp & H). apply rbind_ok in H as (ps' & Hps & H). injection H as <-.
    constructor; [|apply IH; [exact Hvs|exact (fun i => Hs (S i))|exact Hps]].
    apply rmap_ok in Hp as (ox & Hox & ->).
    destruct (ser_map_value_cases tv_ser t v) as [(t' & -> & -> & E)|[_ E]]; rewrite E in Hox.
    + injection Hox as <-. simpl. auto.
    + apply rmap_ok in Hox as (x & Hx & ->). simpl. split; [reflexivity|]. apply (IHt v x Hv); [|exact Hx].
      intros e U. apply (Hs 0%nat f t v e eq_refl eq_refl). apply unsupported_ctx; [exact U|].
      intros ->. pose proof (none_typed t Hv) as Ho. destruct t; try discriminate Ho. simpl in Hx. discriminate Hx.
Qed.

Lemma tvrt_struct_fields fs : Forall (fun ft => TVRT (snd ft)) fs -> forall vs ps,
  nodup_bytes (map fst fs) = true ->
  all2b (fun ft v' => has_type_b (snd ft) v') fs vs = true ->
  (forall i f t v e, nth_error fs i = Some (f, t) -> nth_error vs i = Some v -> ~ unsupported CField t v e) ->
  tv_fields fs vs = Ok ps ->
  exists es, btable_of ps = VTab es /\ exists vs', de_struct_map tv_de fs es = Ok vs' /\ Forall2 sval_eq vs vs'.
Proof.
  intros IH vs ps Hnd Hty Hs H. apply nodup_bytes_NoDup in Hnd.
  pose proof (tvrt_fields fs IH vs ps Hty Hs H) as F.
  pose proof (fields_somes_nodup tv_de fs vs ps F Hnd) as Hk.
  destruct (btree_of_pairs_spec (somes ps) Hk) as [Hsorted Hmem].
  exists (btree_of_pairs (somes ps)). split; [reflexivity|].
  apply (rt_struct_table tv_de fs vs ps _ F Hnd (bsorted_nodup _ Hsorted)).
  - intros kx Hin. apply Hmem. apply somes_In. exact Hin.
  - intros k x Hin _. apply somes_In. apply Hmem. exact Hin.
Qed.

Lemma Forall2_trans' {A B C} (R1 : A -> B -> Prop) (R2 : B -> C -> Prop) (R3 : A -> C -> Prop) l1 l2 l3 :
  (forall a b c, R1 a b -> R2 b c -> R3 a c) -> Forall2 R1 l1 l2 -> Forall2 R2 l2 l3 -> Forall2 R3 l1 l3.
Proof.
  intros Ht F1. revert l3. induction F1; intros l3 F2; inversion F2; subst; constructor; eauto.
Qed.

Lemma tv_entries_readback kt vt es xs :
  Forall2 (fun (kv : sval * sval) (kx : bytes * tomlval) =>
             key_text kt (fst kv) = Some (fst kx) /\ tv_de kt (VStr (fst kx)) = Ok (fst kv) /\ sval_eq (fst kv) (fst kv) /\
             exists v', tv_de vt (snd kx) = Ok v' /\ sval_eq (snd kv) v') es xs ->
  exists es0 : list (sval * sval),
    Forall2 (fun kx q => tv_de kt (VStr (fst kx)) = Ok (fst q) /\ tv_de vt (snd kx) = Ok (snd q) /\
                         key_text kt (fst q) = Some (fst kx)) xs es0 /\
    Forall2 (fun p q => sval_eq (fst p) (fst q) /\ sval_eq (snd p) (snd q)) es es0.
Proof.
  induction 1 as [|[k v] [s y] l1 l2 (K1 & K2 & K3 & v' & Dv & Ev) _ IH].
  - exists []. split; constructor.
  - destruct IH as (r0 & D & E). exists ((k, v') :: r0). split; constructor; simpl in *; auto.
Qed.

Lemma keys_distinct kt (qs : list (sval * sval)) (kxs : list (bytes * tomlval)) :
  Forall2 (fun q kx => key_text kt (fst q) = Some (fst kx)) qs kxs -> NoDup (map fst kxs) ->
  ForallOrdPairs (fun p q => sval_beq (fst p) (fst q) = false) qs.
Proof.
  induction 1 as [|q kx l1 l2 Hq Ht IH]; intro Hnd; [constructor|].
  simpl in Hnd. inversion Hnd as [|? ? Hnot Hnd']; subst. constructor; [|apply IH; exact Hnd'].
  rewrite Forall_forall. intros q' Hin.
  destruct (Forall2_In_l _ _ _ _ Ht Hin) as (kx' & Hin' & Hq').
  eapply key_text_distinct; [exact Hq|exact Hq'|]. intro Heq. apply Hnot. rewrite Heq. apply in_map. exact Hin'.
Qed.

Lemma tvrt_map kt vt : TVRT vt -> TVRT (TMap kt vt).
Proof.
  intros IHv v x Hty Hsup H. destruct v; try (simpl in Hty; discriminate Hty).
  rewrite ht_map in Hty. apply andb_true_iff in Hty as [Hty Hnd]. apply andb_true_iff in Hty as [Hno Hes].
  apply negb_true_iff in Hno. apply nodup_bytes_NoDup in Hnd.
  rewrite ts_map in H. apply rmap_ok in H as (ps & Hps & ->).
  (* entry by entry *)
  assert (F : exists xs, ps = map Some xs /\
     Forall2 (fun kv kx => key_text kt (fst kv) = Some (fst kx) /\ tv_de kt (VStr (fst kx)) = Ok (fst kv) /\ sval_eq (fst kv) (fst kv) /\
                           exists v', tv_de vt (snd kx) = Ok v' /\ sval_eq (snd kv) v') es xs).
  { assert (Hs' : forall k v, In (k, v) es -> (forall e, ~ bad_key kt k e) /\ (forall e, ~ unsupported CField vt v e)).
    { intros k v Hin. split; intros e U; apply (Hsup e); [eapply u_map_key|eapply u_map_val]; eassumption. }
    clear Hsup Hnd. unfold tv_entries in Hps. revert ps Hps.
    induction es as [|[k v] es IH]; intros ps Hps; simpl in *.
    - injection Hps as <-. exists []. split; [reflexivity|constructor].
    - apply andb_true_iff in Hes as [Hkv Hes]. apply andb_true_iff in Hkv as [Hk Hv].
      apply rbind_ok in Hps as (p & Hp & Hps). apply rbind_ok in Hps as (ps' & Hps' & Hps). injection Hps as <-.
      apply rbind_ok in Hp as (s & Hs & Hp). apply rmap_ok in Hp as (ox & Hox & ->).
      destruct (Hs' k v (or_introl eq_refl)) as [Hbk Hbv].
      destruct (ser_key kt k) as [s0|e0] eqn:K; [|exfalso; apply (Hbk e0); apply ser_key_err; assumption].
      destruct (tv_key_roundtrip kt k s0 Hk K) as [K1 K2]. assert (s0 = s) as -> by congruence.
      destruct (key_roundtrip kt k s Hk K) as (K3 & _ & K4).
      destruct (IH Hes (fun k' v' Hin => Hs' k' v' (or_intror Hin)) ps' Hps') as (xs & -> & F).
      (* the value: not an Option, so it is present *)
      assert (Hvn : v <> SNone).
      { intros ->. pose proof (none_typed vt Hv). congruence. }
      rewrite (ser_map_value_not_none tv_ser vt v Hvn) in Hox.
      destruct (tv_ser vt v) as [y|e] eqn:E; simpl in Hox.
      + injection Hox as <-. exists ((s, y) :: xs). split; [reflexivity|]. constructor; [|exact F]. simpl.
        repeat split; try assumption. apply (IHv v y Hv); [|exact E].
        intros e U. apply (Hbv e). apply unsupported_ctx; assumption.
      + discriminate Hox. }
  destruct F as (xs & -> & F).
  assert (Hk : somes (map (fun kv => key_text kt (fst kv)) es) = map fst xs).
  { apply (entries_keys kt es xs (fun kv kx => tv_de kt (VStr (fst kx)) = Ok (fst kv) /\ sval_eq (fst kv) (fst kv) /\
                                    exists v', tv_de vt (snd kx) = Ok v' /\ sval_eq (snd kv) v')). exact F. }
  rewrite Hk in Hnd.
  unfold btable_of, somes_pairs. rewrite somes_map_Some.
  destruct (btree_of_pairs_spec xs Hnd) as [Hsorted Hmem]. pose proof (btree_of_pairs_perm xs Hnd) as Hperm.
  set (bt := btree_of_pairs xs) in *.
  rewrite td_map.
  (* the entries in insertion order, read back *)
  pose proof (tv_entries_readback kt vt es xs F) as D0.
  destruct D0 as (es0 & D0 & E0).
  (* ... and in the order of the BTreeMap *)
  destruct (Permutation_Forall2 Hperm D0) as (es1 & Hperm1 & D1).
  assert (D : tvd_entries kt vt bt = Ok es1).
  { unfold tvd_entries. apply mapM_of_Forall2. clear - D1. induction D1 as [|[s y] [k v'] l l' (A & B & _) _ IH]; constructor; [|exact IH].
    simpl in *. rewrite A. simpl. rewrite B. reflexivity. }
  rewrite D. simpl.
  assert (Hdist : ForallOrdPairs (fun p q => sval_beq (fst p) (fst q) = false) es1).
  { assert (Ht : Forall2 (fun q kx => key_text kt (fst q) = Some (fst kx)) es1 bt).
    { clear - D1. induction D1 as [|kx q l l' (_ & _ & C) _ IH]; constructor; assumption. }
    apply (keys_distinct kt es1 bt Ht). apply bsorted_nodup. exact Hsorted. }
  rewrite (smap_of_pairs_distinct es1 Hdist).
  exists (SMap es1). split; [reflexivity|]. apply (eq_map es es1 es0); [apply Permutation_sym; exact Hperm1|exact E0].
Qed.

Theorem tv_roundtrip_supported : forall t, TVRT t.
Proof.
  induction t using ty_ind2 with (Q := TVRTV); unfold TVRT, TVRTV in *.
  - intros v x Hty Hs Hser. destruct v; simpl in Hser; try discriminate Hser. injection Hser as <-.
    eexists; split; [reflexivity|constructor].
  - intros v x Hty Hs Hser. destruct v; simpl in Hser; try discriminate Hser. simpl in Hty.
    destruct (tv_ser_int w z) as [i|] eqn:E; [|discriminate Hser]. injection Hser as <-.
    destruct (tv_ser_exact w z i Hty E) as [-> _]. simpl.
    rewrite (de_in_range_ok w z); [eexists; split; [reflexivity|constructor]| |exact Hty].
    destruct w; try reflexivity; discriminate E.
  - intros v x Hty Hs Hser. destruct w; destruct v; simpl in Hser; try discriminate Hser; injection Hser as <-; simpl in Hty.
    + simpl. eexists; split; [reflexivity|]. constructor. apply f32_roundtrip. apply N.ltb_lt. exact Hty.
    + simpl. eexists; split; [reflexivity|]. constructor. apply f64_roundtrip.
  - intros v x Hty Hs Hser. destruct v; simpl in Hser; try discriminate Hser. injection Hser as <-. simpl in Hty.
    simpl. rewrite (de_char_encode c Hty). eexists; split; [reflexivity|constructor].
  - intros v x Hty Hs Hser. destruct v; simpl in Hser; try discriminate Hser. injection Hser as <-.
    eexists; split; [reflexivity|constructor].
  - (* Datetime: through the tunnel on both sides *)
    intros v x Hty Hs Hser. destruct v; simpl in Hser; try discriminate Hser. simpl in Hty.
    apply andb_true_iff in Hty as [Hr Hk]. rewrite (ser_datetime_ok d x Hr Hser).
    cbn [tv_de tv_de_datetime]. unfold de_dt_str.
    rewrite (print_parse_std d Hr). simpl. unfold dt_kind_check. rewrite Hk. eexists; split; [reflexivity|constructor].
  - intros v x Hty Hs Hser. destruct v; simpl in Hser; discriminate Hser.
  - intros v x Hty Hs Hser. destruct v; simpl in Hser; discriminate Hser.
  - intros v x Hty Hs Hser. destruct v; try (simpl in Hser; discriminate Hser).
    rewrite ts_opt_some in Hser. rewrite ht_opt_some in Hty.
    destruct (IHt v x Hty) as (v' & D & E); [intros e U; apply (Hs e); apply u_some; exact U|exact Hser|].
    rewrite td_opt, D. eexists; split; [reflexivity|constructor; exact E].
  - intros v x Hty Hs Hser. destruct v; try (simpl in Hser; discriminate Hser).
    rewrite ts_seq in Hser. rewrite ht_seq in Hty. apply rmap_ok in Hser as (xs & Hxs & ->).
    destruct (tvrt_list t IHt vs xs Hty) as (vs' & D & E); [|exact Hxs|].
    { intros a Ha e U. apply (Hs e). eapply u_seq; eassumption. }
    rewrite td_seq, D. eexists; split; [reflexivity|constructor; exact E].
  - intros v x Hty Hs Hser. destruct v; try (simpl in Hser; discriminate Hser).
    rewrite ts_tuple in Hser. rewrite ht_tuple in Hty. apply rmap_ok in Hser as (xs & Hxs & ->).
    destruct (tvrt_tuple ts H vs xs Hty) as (_ & vs' & D & E); [|exact Hxs|].
    { intros i t v H1 H2 e U. apply (Hs e). eapply u_tuple; eassumption. }
    rewrite td_tuple, D. eexists; split; [reflexivity|constructor; exact E].
  - apply tvrt_map. exact IHt2.
  - intros v x Hty Hs Hser. destruct v; try (simpl in Hser; discriminate Hser).
    rewrite ht_struct in Hty. apply andb_true_iff in Hty as [Hty Hvs]. apply andb_true_iff in Hty as [Hpriv Hnd].
    apply negb_true_iff in Hpriv. rewrite (ts_struct n fs vs Hpriv) in Hser. apply rmap_ok in Hser as (ps & Hps & ->).
    destruct (tvrt_struct_fields fs H vs ps Hnd Hvs) as (es & -> & vs' & D & E); [|exact Hps|].
    { intros i f t v e H1 H2 U. apply (Hs e). eapply u_struct; eassumption. }
    rewrite td_struct, D. eexists; split; [reflexivity|constructor; exact E].
  - intros v x Hty Hs Hser. destruct v; try (simpl in Hser; discriminate Hser).
    rewrite ts_newtype in Hser. rewrite ht_newtype in Hty.
    destruct (IHt v x Hty) as (v' & D & E); [intros e U; apply (Hs e); apply u_newtype; exact U|exact Hser|].
    rewrite td_newtype, D. eexists; split; [reflexivity|constructor; exact E].
  - intros v x Hty Hs Hser. destruct v; try (simpl in Hser; discriminate Hser).
    rewrite ts_tuple_struct in Hser. rewrite ht_tuple_struct in Hty. apply rmap_ok in Hser as (xs & Hxs & ->).
    destruct (tvrt_tuple ts H vs xs Hty) as (_ & vs' & D & E); [|exact Hxs|].
    { intros i t v H1 H2 e U. apply (Hs e). eapply u_tuple_struct; eassumption. }
    rewrite td_tuple_struct, D. eexists; split; [reflexivity|constructor; exact E].
  - intros v x Hty Hs Hser. destruct v as [| | | | | | | | | | | | | |i p]; try (simpl in Hser; discriminate Hser).
    rewrite ht_enum in Hty. apply andb_true_iff in Hty as [Hnd Hp]. apply nodup_bytes_NoDup in Hnd.
    rewrite ts_enum in Hser.
    destruct (pick_cases (tv_variant p) (Err EBadCase) vs i) as [([vn var] & Hn & E)|[_ E]]; rewrite E in Hser; [|discriminate].
    rewrite (pick_nth _ _ _ _ _ Hn) in Hp. simpl in Hp.
    assert (HQ : forall q y, has_type_variant_b var q = true -> (forall e, ~ unsupported_variant var q e) ->
                             tv_payload var q = Ok y -> exists q', tv_de_payload var y = Ok q' /\ sval_eq q q').
    { rewrite Forall_forall in H. apply (H (vn, var)). eapply nth_error_In; exact Hn. }
    assert (Hsv : forall e, ~ unsupported_variant var p e).
    { intros e U. apply (Hs e). eapply u_variant; eassumption. }
    unfold tv_variant in Hser. simpl in Hser.
    destruct var as [|tv|tsv|fsv].
    + apply htv_unit in Hp. subst p. injection Hser as <-.
      rewrite td_enum_str, (find_name_nth _ _ _ _ _ _ _ Hnd Hn). simpl.
      eexists; split; [reflexivity|constructor; constructor].
    + apply rmap_ok in Hser as (y & Hy & ->). destruct (HQ p y Hp Hsv Hy) as (p' & D & Ep).
      rewrite td_enum_tab, (find_name_nth _ _ _ _ _ _ _ Hnd Hn). rewrite D. simpl.
      eexists; split; [reflexivity|constructor; exact Ep].
    + apply rmap_ok in Hser as (y & Hy & ->). destruct (HQ p y Hp Hsv Hy) as (p' & D & Ep).
      rewrite td_enum_tab, (find_name_nth _ _ _ _ _ _ _ Hnd Hn). rewrite D. simpl.
      eexists; split; [reflexivity|constructor; exact Ep].
    + apply rmap_ok in Hser as (y & Hy & ->). destruct (HQ p y Hp Hsv Hy) as (p' & D & Ep).
      rewrite td_enum_tab, (find_name_nth _ _ _ _ _ _ _ Hnd Hn). rewrite D. simpl.
      eexists; split; [reflexivity|constructor; exact Ep].
  - intros p x Hty Hs Hser. simpl in Hser. discriminate Hser.
  - intros p x Hty Hs Hser. rewrite tp_newtype in Hser. rewrite htv_newtype in Hty.
    rewrite tdp_newtype. apply IHt; [exact Hty| |exact Hser]. intros e U. apply (Hs e). apply uv_newtype. exact U.
  - intros p x Hty Hs Hser. destruct p; try (simpl in Hty; discriminate Hty).
    rewrite tp_tuple in Hser. rewrite htv_tuple in Hty. apply rmap_ok in Hser as (xs & Hxs & ->).
    destruct (tvrt_tuple ts H vs xs Hty) as (Hl & vs' & D & E); [|exact Hxs|].
    { intros i t v H1 H2 e U. apply (Hs e). eapply uv_tuple; eassumption. }
    rewrite tdp_tuple, Hl, Nat.eqb_refl, D. eexists; split; [reflexivity|constructor; exact E].
  - intros p x Hty Hs Hser. destruct p; try (simpl in Hty; discriminate Hty).
    rewrite htv_struct in Hty. apply andb_true_iff in Hty as [Hnd Hvs].
    rewrite tp_struct in Hser. apply rmap_ok in Hser as (ps & Hps & ->).
    destruct (tvrt_struct_fields fs H vs ps Hnd Hvs) as (es & -> & vs' & D & E); [|exact Hps|].
    { intros i f t v e H1 H2 U. apply (Hs e). eapply uv_struct; eassumption. }
    rewrite tdp_struct, D. eexists; split; [reflexivity|constructor; exact E].
Qed.

(* Value::try_from on a value without unsupported shapes: accepted, and try_into gives it back *)
Theorem tryfrom_supported t v : has_type v t -> supported t v ->
  exists out, tv_ser t v = Ok out /\ exists v', tv_de t out = Ok v' /\ sval_eq v v'.
Proof.
  intros Hty Hs. destruct (tv_supported_ok t v Hty Hs) as (x & Hx). exists x. split; [exact Hx|].
  apply (tv_roundtrip_supported t v x Hty Hs Hx).
Qed.

(* Table::try_from: whatever it accepts is what Value::try_from builds — except a Datetime at the root (behind
   Some / newtype structs), which TableSerializer::serialize_struct = serialize_map writes as the table
   { FIELD = "text" } (known class private-datetime-key) where Value::try_from yields the date-time *)
Theorem tv_table_cases t : forall v out, has_type_b t v = true -> tv_ser_table t v = Ok out ->
  tv_ser t v = Ok out
  \/ exists d, out = VTab [(DT_FIELD, VStr (display_datetime d))] /\ tv_ser t v = ser_datetime d.
Proof.
  induction t using ty_ind2 with (Q := fun _ => True); try exact I; intros v out Hty Hser;
    try (destruct v; simpl in Hser; discriminate Hser).
  - (* TInt *) destruct v; simpl in Hser; try discriminate Hser. destruct (ser_method_of w); discriminate Hser.
  - (* TDatetime *) destruct v; simpl in Hser; try discriminate Hser. injection Hser as <-. right. exists d. split; reflexivity.
  - (* TOpt *) destruct v; try (simpl in Hser; discriminate Hser). rewrite ts_opt_some. rewrite ht_opt_some in Hty. apply IHt; assumption.
  - (* TMap *) destruct v; try (simpl in Hser; discriminate Hser). left. exact Hser.
  - (* TStruct *) destruct v; try (simpl in Hser; discriminate Hser). left.
    rewrite ht_struct in Hty. apply andb_true_iff in Hty as [Hty _]. apply andb_true_iff in Hty as [Hpriv _].
    apply negb_true_iff in Hpriv. rewrite (ts_struct n fs vs Hpriv). exact Hser.
  - (* TNewtype *) destruct v; try (simpl in Hser; discriminate Hser). rewrite ts_newtype. rewrite ht_newtype in Hty. apply IHt; assumption.
  - destruct v as [| | | | | | | | | | | | | |i p]; try (simpl in Hser; discriminate Hser).
    simpl in Hser.
    match type of Hser with pick ?f ?d vs i = _ => destruct (pick_cases f d vs i) as [([vn var] & Hn & E)|[_ E]]; rewrite E in Hser end;
      [|discriminate Hser].
    simpl in Hser. destruct var; try discriminate Hser. left. exact Hser.
Qed.

Lemma tv_table_direct t v out : has_type_b t v = true -> tv_ser_table t v = Ok out ->
  match t with TMap _ _ | TStruct _ _ | TEnum _ _ => tv_ser t v = Ok out | _ => True end.
Proof.
  intros Hty Hser. destruct t; try exact I.
  - destruct v; try (simpl in Hser; discriminate Hser). exact Hser.
  - destruct v; try (simpl in Hser; discriminate Hser).
    rewrite ht_struct in Hty. apply andb_true_iff in Hty as [Hty _]. apply andb_true_iff in Hty as [Hpriv _].
    apply negb_true_iff in Hpriv. rewrite (ts_struct name fs vs Hpriv). exact Hser.
  - destruct v as [| | | | | | | | | | | | | |i p]; try (simpl in Hser; discriminate Hser).
    simpl in Hser.
    match type of Hser with pick ?f ?d vs i = _ => destruct (pick_cases f d vs i) as [([vn var] & Hn & E)|[_ E]]; rewrite E in Hser end;
      [|discriminate Hser].
    simpl in Hser. destruct var; try discriminate Hser. exact Hser.
Qed.

(* reading the private-key table back as the (wrapped) Datetime type *)
Lemma tv_de_root_datetime t : forall v d, has_type_b t v = true -> tv_ser t v = ser_datetime d ->
  tv_ser_table t v = Ok (VTab [(DT_FIELD, VStr (display_datetime d))]) ->
  exists v', tv_de t (VTab [(DT_FIELD, VStr (display_datetime d))]) = Ok v' /\ sval_eq v v'.
Proof.
  induction t using ty_ind2 with (Q := fun _ => True); try exact I; intros v d0 Hty Hs Ht;
    try (destruct v; simpl in Ht; discriminate Ht).
  - destruct v; simpl in Ht; try discriminate Ht. destruct (ser_method_of w); discriminate Ht.
  - (* TDatetime *) destruct v; simpl in Ht; try discriminate Ht. simpl in Hty. apply andb_true_iff in Hty as [Hr Hk].
    injection Ht as Ht. cbn [tv_de tv_de_datetime]. rewrite bytes_eqb_refl. unfold de_dt_str.
    assert (Hd : display_datetime d = display_datetime d0) by congruence. rewrite <- Hd.
    rewrite (print_parse_std d Hr). simpl. unfold dt_kind_check. rewrite Hk. eexists; split; [reflexivity|constructor].
  - (* TOpt *) destruct v; try (simpl in Ht; discriminate Ht). rewrite ht_opt_some in Hty. rewrite ts_opt_some in Hs.
    destruct (IHt v d0 Hty Hs Ht) as (v' & D & E). rewrite td_opt, D. eexists; split; [reflexivity|constructor; exact E].
  - (* TMap: a map is never serialized as a date-time *)
    exfalso. pose proof (tv_table_direct _ _ _ Hty Ht) as E. lazy beta iota in E. rewrite E in Hs.
    unfold ser_datetime in Hs. destruct (dt_field_str (display_datetime d0)); discriminate Hs.
  - (* TStruct *)
    exfalso. pose proof (tv_table_direct _ _ _ Hty Ht) as E. lazy beta iota in E. rewrite E in Hs.
    unfold ser_datetime in Hs. destruct (dt_field_str (display_datetime d0)); discriminate Hs.
  - (* TNewtype *) destruct v; try (simpl in Ht; discriminate Ht). rewrite ht_newtype in Hty. rewrite ts_newtype in Hs.
    destruct (IHt v d0 Hty Hs Ht) as (v' & D & E). rewrite td_newtype, D. eexists; split; [reflexivity|constructor; exact E].
  - (* TEnum *)
    exfalso. pose proof (tv_table_direct _ _ _ Hty Ht) as E. lazy beta iota in E. rewrite E in Hs.
    unfold ser_datetime in Hs. destruct (dt_field_str (display_datetime d0)); discriminate Hs.
Qed.

Theorem table_tryfrom_roundtrip t v out : has_type v t -> supported t v -> tv_ser_table t v = Ok out ->
  exists v', tv_de t out = Ok v' /\ sval_eq v v'.
Proof.
  intros Hty Hs H. destruct (tv_table_cases t v out Hty H) as [E|(d & -> & E)].
  - apply (tv_roundtrip_supported t v out Hty Hs E).
  - apply (tv_de_root_datetime t v d Hty E H).
Qed.

(* ---- the converse of tv_errors (since the repair of C07-tryfrom-nested-none-dropped): a value with a documented
   unsupported shape is refused — nothing is silently dropped.  `doc_keys`: map keys of type char / Option<_>
   are accepted by SerializeMap::serialize_key although they are "bad keys" for a document. ---- *)
Lemma dk_forall_nth (ts : list ty) i t : forallb doc_keys ts = true -> nth_error ts i = Some t -> doc_keys t = true.
Proof. intros H Hn. rewrite forallb_forall in H. apply H. eapply nth_error_In; exact Hn. Qed.
Lemma dk_fields_nth (fs : list (bytes * ty)) i f t :
  forallb (fun ft => doc_keys (snd ft)) fs = true -> nth_error fs i = Some (f, t) -> doc_keys t = true.
Proof. intros H Hn. rewrite forallb_forall in H. apply (H (f, t)). eapply nth_error_In; exact Hn. Qed.

Lemma tv_key_of_nonstring r : (forall s, r <> Ok (VStr s)) -> exists e', tv_key r = Err e'.
Proof. intro H. destruct r as [x|e]; [|simpl; eauto]. destruct x; simpl; eauto. exfalso. eapply H. reflexivity. Qed.

Lemma tv_bad_key_fails t a e : bad_key t a e -> has_type_b t a = true -> doc_key_ty t = true ->
  exists e', tv_key (tv_ser t a) = Err e'.
Proof.
  induction 1 as [n t v e _ IH|v|v|t v Hk Hn H1 H2]; intros Hty Hd.
  - rewrite ts_newtype. apply IH; [rewrite ht_newtype in Hty; exact Hty|exact Hd].
  - destruct v; simpl in Hty; try discriminate Hty. eexists. reflexivity.
  - destruct v; simpl in Hty; try discriminate Hty. eexists. reflexivity.
  - apply tv_key_of_nonstring. intros s E.
    destruct t; try discriminate Hd.
    + destruct v; simpl in Hty; try discriminate Hty. discriminate E.
    + destruct v; simpl in Hty; try discriminate Hty. simpl in E. destruct (tv_ser_int w z); discriminate E.
    + destruct w; destruct v; simpl in Hty; try discriminate Hty; discriminate E.
    + destruct v; simpl in Hty; try discriminate Hty. simpl in Hk. discriminate Hk.
    + destruct v; simpl in Hty; try discriminate Hty. simpl in E. unfold ser_datetime in E.
      destruct (dt_field_str (display_datetime d)); discriminate E.
    + destruct v; simpl in Hty; try discriminate Hty. discriminate E.
    + destruct v; simpl in Hty; try discriminate Hty. discriminate E.
    + destruct v; try (simpl in Hty; discriminate Hty). rewrite ts_seq in E. destruct (mapM (tv_ser t) vs); discriminate E.
    + destruct v; try (simpl in Hty; discriminate Hty). rewrite ts_tuple in E. destruct (zipM tv_ser ts vs); discriminate E.
    + destruct v; try (simpl in Hty; discriminate Hty). rewrite ts_map in E. destruct (tv_entries t1 t2 es); discriminate E.
    + destruct v; try (simpl in Hty; discriminate Hty). rewrite ht_struct in Hty.
      apply andb_true_iff in Hty as [Hty _]. apply andb_true_iff in Hty as [Hpriv _]. apply negb_true_iff in Hpriv.
      rewrite (ts_struct name fs vs Hpriv) in E. destruct (tv_fields fs vs); discriminate E.
    + exfalso. eapply Hn. reflexivity.
    + destruct v; try (simpl in Hty; discriminate Hty). rewrite ts_tuple_struct in E. destruct (zipM tv_ser ts vs); discriminate E.
    + destruct v as [| | | | | | | | | | | | | |i p]; try (simpl in Hty; discriminate Hty).
      rewrite ht_enum in Hty. apply andb_true_iff in Hty as [_ Hp]. rewrite kt_enum in Hk. rewrite ts_enum in E.
      destruct (pick_cases (tv_variant p) (Err EBadCase) vs i) as [([vn var] & Hnth & E')|[_ E']]; rewrite E' in E; [|discriminate E].
      rewrite (pick_nth _ _ _ _ _ Hnth) in Hk. unfold key_text_variant in Hk. unfold tv_variant in E. simpl in *.
      destruct var; try discriminate Hk; destruct (tv_payload _ p); discriminate E.
Qed.

Definition REFT (c : ctx) (t : ty) (v : sval) (e : err) : Prop :=
  has_type_b t v = true -> doc_keys t = true ->
  exists e', tv_ser t v = Err e' /\ (c = CField -> ser_map_value tv_ser t v = Err e').
Definition REFTV (var : variant) (p : sval) (e : err) : Prop :=
  has_type_variant_b var p = true -> doc_keys_variant var = true -> exists e', tv_payload var p = Err e'.

Ltac tfield_part := intros _; rewrite ser_map_value_not_none by discriminate.

Theorem tv_unsupported_refused_gen : forall c t v e, unsupported c t v e -> REFT c t v e.
Proof.
  apply (unsupported_min REFT REFTV); unfold REFT, REFTV.
  - (* u_none *) intros t _ _. exists EUnsupportedNone. split; [reflexivity|discriminate].
  - (* u_some *) intros c t v e _ IH Hty Hd. rewrite ht_opt_some in Hty. destruct (IH Hty Hd) as (e' & E & _).
    exists e'. rewrite ts_opt_some. split; [exact E|]. tfield_part. rewrite ts_opt_some, E. reflexivity.
  - intros c _ _. eexists. split; [reflexivity|]. tfield_part. reflexivity.
  - intros c n _ _. eexists. split; [reflexivity|]. tfield_part. reflexivity.
  - (* u_u64 *) intros c w z M F _ _. exists (tv_int_err w).
    assert (E : tv_ser (TInt w) (SInt z) = Err (tv_int_err w)).
    { simpl. unfold tv_ser_int. rewrite M. unfold tv_serialize_u64. rewrite F. reflexivity. }
    split; [exact E|]. tfield_part. rewrite E. reflexivity.
  - intros c w z M _ _. exists (tv_int_err w).
    assert (E : tv_ser (TInt w) (SInt z) = Err (tv_int_err w)).
    { simpl. unfold tv_ser_int. rewrite M. reflexivity. }
    split; [exact E|]. tfield_part. rewrite E. reflexivity.
  - intros c w z M _ _. exists (tv_int_err w).
    assert (E : tv_ser (TInt w) (SInt z) = Err (tv_int_err w)).
    { simpl. unfold tv_ser_int. rewrite M. reflexivity. }
    split; [exact E|]. tfield_part. rewrite E. reflexivity.
  - (* u_seq *) intros c t vs v e Hin _ IH Hty Hd. rewrite ht_seq in Hty. rewrite forallb_forall in Hty.
    destruct (IH (Hty v Hin) Hd) as (e' & E & _). destruct (mapM_fails (tv_ser t) vs v e' Hin E) as (e'' & E'').
    exists e''. assert (E3 : tv_ser (TSeq t) (SSeq vs) = Err e'') by (rewrite ts_seq, E''; reflexivity).
    split; [exact E3|]. tfield_part. rewrite E3. reflexivity.
  - (* u_tuple *) intros c ts vs i t v e H1 H2 _ IH Hty Hd. rewrite ht_tuple in Hty.
    destruct (IH (all2b_nth _ _ _ _ _ _ Hty H1 H2) (dk_forall_nth ts i t Hd H1)) as (e' & E & _).
    destruct (zipM_fails tv_ser ts vs i t v e' H1 H2 E) as (e'' & E'').
    exists e''. assert (E3 : tv_ser (TTuple ts) (SSeq vs) = Err e'') by (rewrite ts_tuple, E''; reflexivity).
    split; [exact E3|]. tfield_part. rewrite E3. reflexivity.
  - (* u_tuple_struct *) intros c n ts vs i t v e H1 H2 _ IH Hty Hd. rewrite ht_tuple_struct in Hty.
    destruct (IH (all2b_nth _ _ _ _ _ _ Hty H1 H2) (dk_forall_nth ts i t Hd H1)) as (e' & E & _).
    destruct (zipM_fails tv_ser ts vs i t v e' H1 H2 E) as (e'' & E'').
    exists e''. assert (E3 : tv_ser (TTupleStruct n ts) (SSeq vs) = Err e'') by (rewrite ts_tuple_struct, E''; reflexivity).
    split; [exact E3|]. tfield_part. rewrite E3. reflexivity.
  - (* u_map_key *) intros c kt vt es k v e Hin Hbk Hty Hd. rewrite ht_map in Hty.
    apply andb_true_iff in Hty as [Hty _]. apply andb_true_iff in Hty as [_ Hes]. rewrite forallb_forall in Hes.
    pose proof (Hes _ Hin) as Hkv. simpl in Hkv. apply andb_true_iff in Hkv as [Hk _].
    simpl in Hd. apply andb_true_iff in Hd as [Hd _]. apply andb_true_iff in Hd as [Hdk _].
    destruct (tv_bad_key_fails kt k e Hbk Hk Hdk) as (e' & E).
    destruct (mapM_fails (fun kv => rbind (tv_key (tv_ser kt (fst kv))) (fun k0 =>
                 rmap (optmap (fun x => (k0, x))) (ser_map_value tv_ser vt (snd kv)))) es (k, v) e' Hin) as (e'' & E'').
    { simpl. rewrite E. reflexivity. }
    exists e''. assert (E3 : tv_ser (TMap kt vt) (SMap es) = Err e'') by (rewrite ts_map; unfold tv_entries; rewrite E''; reflexivity).
    split; [exact E3|]. tfield_part. rewrite E3. reflexivity.
  - (* u_map_val *) intros c kt vt es k v e Hin _ IH Hty Hd. rewrite ht_map in Hty.
    apply andb_true_iff in Hty as [Hty _]. apply andb_true_iff in Hty as [_ Hes]. rewrite forallb_forall in Hes.
    pose proof (Hes _ Hin) as Hkv. simpl in Hkv. apply andb_true_iff in Hkv as [_ Hv].
    simpl in Hd. apply andb_true_iff in Hd as [_ Hdv].
    destruct (IH Hv Hdv) as (e' & _ & E). specialize (E eq_refl).
    assert (exists e0, rbind (tv_key (tv_ser kt k)) (fun k0 => rmap (optmap (fun x => (k0, x))) (ser_map_value tv_ser vt v)) = Err e0) as (e0 & E0).
    { destruct (tv_key (tv_ser kt k)); simpl; [rewrite E; simpl|]; eauto. }
    destruct (mapM_fails (fun kv => rbind (tv_key (tv_ser kt (fst kv))) (fun k0 =>
                 rmap (optmap (fun x => (k0, x))) (ser_map_value tv_ser vt (snd kv)))) es (k, v) e0 Hin E0) as (e'' & E'').
    exists e''. assert (E3 : tv_ser (TMap kt vt) (SMap es) = Err e'') by (rewrite ts_map; unfold tv_entries; rewrite E''; reflexivity).
    split; [exact E3|]. tfield_part. rewrite E3. reflexivity.
  - (* u_struct *) intros c n fs vs i f t v e H1 H2 _ IH Hty Hd. rewrite ht_struct in Hty.
    apply andb_true_iff in Hty as [Hty Hvs]. apply andb_true_iff in Hty as [Hpriv _]. apply negb_true_iff in Hpriv.
    pose proof (all2b_nth _ _ _ _ _ _ Hvs H1 H2) as Hv. simpl in Hv.
    destruct (IH Hv (dk_fields_nth fs i f t Hd H1)) as (e' & _ & E). specialize (E eq_refl).
    destruct (zipM_fails (fun ft v' => rmap (optmap (fun x => (fst ft, x))) (ser_map_value tv_ser (snd ft) v')) fs vs i (f, t) v e' H1 H2)
      as (e'' & E''); [simpl; rewrite E; reflexivity|].
    exists e''. assert (E3 : tv_ser (TStruct n fs) (SRec vs) = Err e'').
    { rewrite (ts_struct n fs vs Hpriv). unfold tv_fields. rewrite E''. reflexivity. }
    split; [exact E3|]. tfield_part. rewrite E3. reflexivity.
  - (* u_newtype *) intros c n t v e _ IH Hty Hd. rewrite ht_newtype in Hty. destruct (IH Hty Hd) as (e' & E & _).
    exists e'. rewrite ts_newtype. split; [exact E|]. tfield_part. rewrite ts_newtype, E. reflexivity.
  - (* u_variant *) intros c n vs i vn var p e Hn Hu IH Hty Hd. rewrite ht_enum in Hty. apply andb_true_iff in Hty as [_ Hp].
    rewrite (pick_nth _ _ _ _ _ Hn) in Hp. simpl in Hp.
    assert (Hdv : doc_keys_variant var = true).
    { simpl in Hd. rewrite forallb_forall in Hd. apply (Hd (vn, var)). eapply nth_error_In; exact Hn. }
    destruct (IH Hp Hdv) as (e' & E).
    exists e'. assert (E3 : tv_ser (TEnum n vs) (SVariant i p) = Err e').
    { rewrite ts_enum, (pick_nth _ _ _ _ _ Hn). unfold tv_variant. simpl. destruct var; [inversion Hu| | |]; rewrite E; reflexivity. }
    split; [exact E3|]. tfield_part. rewrite E3. reflexivity.
  - (* uv_newtype *) intros t p e _ IH Hty Hd. rewrite htv_newtype in Hty. destruct (IH Hty Hd) as (e' & E & _).
    exists e'. rewrite tp_newtype. exact E.
  - (* uv_tuple *) intros ts vs i t v e H1 H2 _ IH Hty Hd. rewrite htv_tuple in Hty.
    destruct (IH (all2b_nth _ _ _ _ _ _ Hty H1 H2) (dk_forall_nth ts i t Hd H1)) as (e' & E & _).
    destruct (zipM_fails tv_ser ts vs i t v e' H1 H2 E) as (e'' & E'').
    exists e''. rewrite tp_tuple, E''. reflexivity.
  - (* uv_struct *) intros fs vs i f t v e H1 H2 _ IH Hty Hd. rewrite htv_struct in Hty. apply andb_true_iff in Hty as [_ Hvs].
    pose proof (all2b_nth _ _ _ _ _ _ Hvs H1 H2) as Hv. simpl in Hv.
    destruct (IH Hv (dk_fields_nth fs i f t Hd H1)) as (e' & _ & E). specialize (E eq_refl).
    destruct (zipM_fails (fun ft v' => rmap (optmap (fun x => (fst ft, x))) (ser_map_value tv_ser (snd ft) v')) fs vs i (f, t) v e' H1 H2)
      as (e'' & E''); [simpl; rewrite E; reflexivity|].
    exists e''. rewrite tp_struct. unfold tv_fields. rewrite E''. reflexivity.
Qed.

Theorem tv_unsupported_refused t v e : has_type v t -> doc_keys t = true -> unsupported CElem t v e ->
  exists e', tv_ser t v = Err e'.
Proof. intros Hty Hd U. destruct (tv_unsupported_refused_gen _ _ _ _ U Hty Hd) as (e' & E & _). eauto. Qed.

(* Value::try_from accepts a well-typed value exactly when it has no documented unsupported shape — the verdict of
   toml_edit's ValueSerializer (ser_ok_iff_supported) *)
Theorem tv_ok_iff_supported t v : has_type v t -> doc_keys t = true ->
  ((exists x, tv_ser t v = Ok x) <-> supported t v).
Proof.
  intros Hty Hd. split.
  - intros (x & Hx) e U. destruct (tv_unsupported_refused t v e Hty Hd U) as (e' & E). congruence.
  - apply tv_supported_ok. exact Hty.
Qed.

Theorem tv_same_verdict t v : has_type v t -> doc_keys t = true ->
  ((exists y, tv_ser t v = Ok y) <-> (exists x, ser_value t v = Ok x)).
Proof.
  intros Hty Hd. rewrite (tv_ok_iff_supported t v Hty Hd). symmetry. apply ser_ok_iff_supported. exact Hty.
Qed.

(* whatever Value::try_from accepts, try_into gives back *)
Theorem tryfrom_roundtrip t v out : has_type v t -> doc_keys t = true -> tv_ser t v = Ok out ->
  exists v', tv_de t out = Ok v' /\ sval_eq v v'.
Proof.
  intros Hty Hd H. apply (tv_roundtrip_supported t v out Hty); [|exact H].
  apply (tv_ok_iff_supported t v Hty Hd). exists out. exact H.
Qed.

Theorem table_tryfrom_roundtrip_full t v out : has_type v t -> doc_keys t = true -> tv_ser_table t v = Ok out ->
  exists v', tv_de t out = Ok v' /\ sval_eq v v'.
Proof.
  intros Hty Hd H. destruct (tv_table_cases t v out Hty H) as [E|(d & -> & E)].
  - apply (tryfrom_roundtrip t v out Hty Hd E).
  - apply (tv_de_root_datetime t v d Hty E H).
Qed.

(* Table::try_from accepts nothing Value::try_from refuses: it, too, accepts `supported` values only *)
Lemma tv_table_ok t : forall v out, has_type_b t v = true -> tv_ser_table t v = Ok out -> exists y, tv_ser t v = Ok y.
Proof.
  intros v out Hty H. destruct (tv_table_cases t v out Hty H) as [E|(d & _ & E)]; [eauto|].
  revert v out Hty H E.
  induction t using ty_ind2 with (Q := fun _ => True); try exact I; intros v out Hty Ht Hs;
    try (destruct v; simpl in Ht; discriminate Ht).
  - destruct v; simpl in Ht; try discriminate Ht. destruct (ser_method_of w); discriminate Ht.
  - destruct v; simpl in Ht; try discriminate Ht. simpl in Hty. apply andb_true_iff in Hty as [Hr _].
    simpl. unfold ser_datetime, dt_field_str. rewrite (print_parse_std d0 Hr). simpl. eexists; reflexivity.
  - destruct v; try (simpl in Ht; discriminate Ht). rewrite ht_opt_some in Hty. rewrite ts_opt_some in *.
    apply (IHt v out Hty Ht Hs).
  - pose proof (tv_table_direct _ _ _ Hty Ht) as E. lazy beta iota in E. eauto.
  - pose proof (tv_table_direct _ _ _ Hty Ht) as E. lazy beta iota in E. eauto.
  - destruct v; try (simpl in Ht; discriminate Ht). rewrite ht_newtype in Hty. rewrite ts_newtype in *.
    apply (IHt v out Hty Ht Hs).
  - pose proof (tv_table_direct _ _ _ Hty Ht) as E. lazy beta iota in E. eauto.
Qed.

Theorem table_tryfrom_supported t v out : has_type v t -> doc_keys t = true -> tv_ser_table t v = Ok out -> supported t v.
Proof.
  intros Hty Hd H. apply (tv_ok_iff_supported t v Hty Hd). apply (tv_table_ok t v out Hty H).
Qed.
