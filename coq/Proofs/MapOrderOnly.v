(* Proofs/MapOrderOnly.v — property C18, Coq half for `toml::map::Map`:
   the feature `preserve_order` (IndexMap instead of BTreeMap) changes the ORDER in which the
   map iterates and nothing else.  The two configurations are the models `pstep KMapOrdered`
   and `pstep KMapSorted` of Model/Containers.v (each proved equal to its reference map in
   Proofs/ContainersRefine.v, `map_refines`); they are related here directly, call by call:
   same lookups in every state, hence the same answer to every call that does not list the
   entries, and permuted answers (ascending by key in the sorted configuration) to those that do. *)
From TV Require Import Base.Prelude Spec.Ordered Model.Containers Proofs.ContainersOrder Proofs.ContainersRefine.
From Coq Require Import Permutation.

(* calls whose answer does not expose the iteration order; excluded: iter, iter_mut, into_iter,
   keys, values.  (retain takes a closure over (key, value) only — not positional — and answers ();
   toml::Map has no pop / first / last / index-by-position call.) *)
Definition order_free (o : mop) : bool :=
  match o with
  | MIter | MIterM | MInto | MKeys | MVals => false
  | _ => true
  end.

(* ---- lookups after insert / remove / retain ---- *)
Section Lookups.
  Context {V : Type}.
  Implicit Types (c : list (bytes * V)).

  Lemma im_get_insert_g k v k2 c :
    im_get k2 (im_insert k v c) = if bytes_eqb k k2 then Some v else im_get k2 c.
  Proof.
    induction c as [|[k' v'] c IH]; simpl.
    - destruct (bytes_eqb k k2); reflexivity.
    - destruct (bytes_eqb k' k) eqn:E1; simpl.
      + apply bytes_eqb_eq in E1. subst. destruct (bytes_eqb k k2); reflexivity.
      + destruct (bytes_eqb k' k2) eqn:E2; [|exact IH].
        apply bytes_eqb_eq in E2. subst. rewrite bytes_eqb_sym, E1. reflexivity.
  Qed.

  Lemma im_get_bt_insert k v k2 c :
    im_get k2 (bt_insert k v c) = if bytes_eqb k k2 then Some v else im_get k2 c.
  Proof.
    induction c as [|[k' v'] c IH]; simpl.
    - destruct (bytes_eqb k k2); reflexivity.
    - destruct (key_compare k k') eqn:E; simpl.
      + apply key_compare_eq in E. subst. destruct (bytes_eqb k' k2); reflexivity.
      + reflexivity.
      + rewrite IH. destruct (bytes_eqb k' k2) eqn:E2; [|reflexivity].
        destruct (bytes_eqb k k2) eqn:E1; [|reflexivity].
        apply bytes_eqb_eq in E1. apply bytes_eqb_eq in E2. subst.
        rewrite key_compare_refl in E. discriminate.
  Qed.

  Lemma im_get_remove k k2 c :
    NoDup (keys c) -> im_get k2 (im_shift_remove k c) = if bytes_eqb k k2 then None else im_get k2 c.
  Proof.
    induction c as [|[k' v'] c IH]; simpl; intro H.
    - destruct (bytes_eqb k k2); reflexivity.
    - inversion H as [|? ? Hn Hc]; subst. destruct (bytes_eqb k' k) eqn:E1.
      + apply bytes_eqb_eq in E1. subst. destruct (bytes_eqb k k2) eqn:E2; [|reflexivity].
        apply bytes_eqb_eq in E2. subst. apply im_get_notin. exact Hn.
      + simpl. destruct (bytes_eqb k' k2) eqn:E2; [|auto].
        apply bytes_eqb_eq in E2. subst. rewrite bytes_eqb_sym, E1. reflexivity.
  Qed.

  Lemma im_get_retain f k2 c :
    NoDup (keys c) ->
    im_get k2 (im_retain f c) = match im_get k2 c with Some v => if f k2 v then Some v else None | None => None end.
  Proof.
    induction c as [|[k' v'] c IH]; simpl; intro H; [reflexivity|].
    inversion H as [|? ? Hn Hc]; subst.
    destruct (bytes_eqb k' k2) eqn:E.
    - apply bytes_eqb_eq in E. subst. destruct (f k2 v'); simpl; [rewrite bytes_eqb_refl; reflexivity|].
      apply im_get_notin. intro Hin. apply keys_retain in Hin. tauto.
    - destruct (f k' v'); simpl; [rewrite E|]; auto.
  Qed.

  Lemma In_get k v c : NoDup (keys c) -> (In (k, v) c <-> im_get k c = Some v).
  Proof.
    induction c as [|[k' v'] c IH]; simpl; intro H; [split; [tauto|discriminate]|].
    inversion H as [|? ? Hn Hc]; subst. destruct (bytes_eqb k' k) eqn:E.
    - apply bytes_eqb_eq in E. subst. split.
      + intros [E|Hin]; [congruence|]. exfalso. apply Hn. apply in_map_iff. exists (k, v). auto.
      + intro E. injection E as ->. auto.
    - apply bytes_eqb_false in E. rewrite <- (IH Hc). split; [intros [E2|Hin]; [congruence|exact Hin]|auto].
  Qed.

  Lemma same_lookups_perm c1 c2 :
    NoDup (keys c1) -> NoDup (keys c2) -> (forall k, im_get k c1 = im_get k c2) -> Permutation c1 c2.
  Proof.
    intros H1 H2 E. apply NoDup_Permutation.
    - eapply NoDup_map_inv. exact H1.
    - eapply NoDup_map_inv. exact H2.
    - intros [k v]. rewrite (In_get k v c1 H1), (In_get k v c2 H2), E. tauto.
  Qed.

  (* a strictly key-sorted list is determined by its content *)
  Lemma ksorted_perm_eq c1 : forall c2, ksorted c1 -> ksorted c2 -> Permutation c1 c2 -> c1 = c2.
  Proof.
    induction c1 as [|x c1 IH]; intros c2 S1 S2 P.
    - apply Permutation_nil in P. subst. reflexivity.
    - destruct c2 as [|y c2]; [apply Permutation_sym, Permutation_nil in P; discriminate|].
      destruct S1 as [F1 S1]. destruct S2 as [F2 S2].
      assert (Hxy : x = y).
      { assert (Hx : In x (y :: c2)) by (eapply Permutation_in; [exact P|left; reflexivity]).
        assert (Hy : In y (x :: c1)) by (eapply Permutation_in; [apply Permutation_sym; exact P|left; reflexivity]).
        destruct Hx as [->|Hx]; [reflexivity|]. destruct Hy as [->|Hy]; [reflexivity|].
        rewrite Forall_forall in F1, F2. specialize (F1 _ Hy). specialize (F2 _ Hx). unfold klt in *.
        rewrite (key_ltb_asym _ _ F1) in F2. discriminate. }
      subst y. f_equal. apply IH; auto. eapply Permutation_cons_inv. exact P.
  Qed.

  (* sorting duplicate-free keys by key gives a strictly sorted list *)
  Lemma sort_keys_ksorted c : NoDup (keys c) -> ksorted (om_sort_keys c).
  Proof.
    intro H. unfold om_sort_keys, om_sort_by.
    set (le := fun a b : bytes * V => key_leb (fst a) (fst b)).
    assert (Hs : sorted_by (fun a b => le a b = true) (stable_sort le c)).
    { apply stable_sort_sorted; unfold le; intros; [eapply key_leb_trans; eauto|apply key_leb_total; assumption]. }
    assert (Hn : NoDup (keys (stable_sort le c))).
    { eapply Permutation_NoDup; [|exact H]. apply Permutation_map. symmetry. apply stable_sort_perm. }
    revert Hs Hn. generalize (stable_sort le c). intro l. induction l as [|x l IH]; simpl; intros Hs Hn; [exact I|].
    destruct Hs as [Hf Hs]. inversion Hn as [|? ? Hx Hl]; subst. split; [|exact (IH Hs Hl)].
    rewrite Forall_forall in *. intros y Hy. specialize (Hf y Hy). unfold klt, le, key_ltb, key_leb in *.
    destruct (key_compare (fst x) (fst y)) eqn:E; try discriminate; [|reflexivity].
    apply key_compare_eq in E. exfalso. apply Hx. rewrite E. apply in_map. exact Hy.
  Qed.
End Lookups.

(* ---- the relation between the two configurations ---- *)
Definition Rel (co cs : imap pay) : Prop :=
  PInv KMapOrdered co /\ PInv KMapSorted cs /\ forall k, im_get k co = im_get k cs.

Lemma pkO : pkind KMapOrdered. Proof. right. reflexivity. Qed.
Lemma pkS : pkind KMapSorted. Proof. left. reflexivity. Qed.

Lemma Rel_perm co cs : Rel co cs -> Permutation co cs.
Proof.
  intros [HO [HS E]]. apply same_lookups_perm; [exact HO|apply ksorted_NoDup; exact HS|exact E].
Qed.

Lemma Rel_length co cs : Rel co cs -> length co = length cs.
Proof. intro H. apply Permutation_length. apply Rel_perm. exact H. Qed.

Lemma Rel_content co cs : Rel co cs -> om_sort_keys co = cs.
Proof.
  intros H. pose proof (Rel_perm co cs H) as P. destruct H as [HO [HS E]].
  apply ksorted_perm_eq; [apply sort_keys_ksorted; exact HO|exact HS|].
  eapply Permutation_trans; [|exact P]. apply stable_sort_perm.
Qed.

Lemma get_p_insert kd k v k2 c :
  pkind kd -> im_get k2 (p_insert kd k v c) = if bytes_eqb k k2 then Some v else im_get k2 c.
Proof. intros [->| ->]; simpl; [apply im_get_bt_insert|apply im_get_insert_g]. Qed.

Lemma Rel_insert k v co cs : Rel co cs -> Rel (p_insert KMapOrdered k v co) (p_insert KMapSorted k v cs).
Proof.
  intros [HO [HS E]]. split; [apply (p_insert_sim KMapOrdered k v co pkO HO)|].
  split; [apply (p_insert_sim KMapSorted k v cs pkS HS)|].
  intro k2. rewrite !get_p_insert by auto using pkO, pkS. rewrite E. reflexivity.
Qed.

Lemma Rel_remove k co cs : Rel co cs -> Rel (im_shift_remove k co) (im_shift_remove k cs).
Proof.
  intros [HO [HS E]]. split; [apply (p_remove_sim KMapOrdered k co pkO HO)|].
  split; [apply (p_remove_sim KMapSorted k cs pkS HS)|].
  intro k2. rewrite !im_get_remove; [rewrite E; reflexivity|apply ksorted_NoDup; exact HS|exact HO].
Qed.

Lemma Rel_retain f co cs : Rel co cs -> Rel (im_retain f co) (im_retain f cs).
Proof.
  intros [HO [HS E]]. split; [apply (p_retain_sim KMapOrdered f co pkO HO)|].
  split; [apply (p_retain_sim KMapSorted f cs pkS HS)|].
  intro k2. rewrite !im_get_retain; [rewrite E; reflexivity|apply ksorted_NoDup; exact HS|exact HO].
Qed.

Lemma Rel_extend l : forall co cs, Rel co cs -> Rel (p_extend KMapOrdered l co) (p_extend KMapSorted l cs).
Proof.
  induction l as [|[k v] l IH]; intros co cs H; [exact H|].
  simpl. apply IH. exact (Rel_insert k v co cs H).
Qed.

Lemma Rel_nil : Rel [] [].
Proof. split; [constructor|]. split; [exact I|reflexivity]. Qed.

(* ---- what the two answers to one call have in common ---- *)
Definition keys_ascending (l : list bytes) : Prop := sorted_by (fun a b => key_ltb a b = true) l.

(* same multiset of listed entries / keys / values; equal for every other kind of answer *)
Definition out_perm (a b : out) : Prop :=
  match a, b with
  | OList l1, OList l2 => Permutation l1 l2
  | OKeys l1, OKeys l2 => Permutation l1 l2
  | OVals l1, OVals l2 => Permutation l1 l2
  | _, _ => a = b
  end.
(* listed entries / keys are in ascending key order *)
Definition out_ascending (b : out) : Prop :=
  match b with
  | OList l => keys_ascending (map fst l)
  | OKeys l => keys_ascending l
  | _ => True
  end.

Definition call_rel (o : mop) (a b : out) : Prop :=
  (order_free o = true -> a = b) /\ (order_free o = false -> out_perm a b /\ out_ascending b).

Lemma ksorted_keys_ascending {V} (c : list (bytes * V)) : ksorted c -> keys_ascending (map fst c).
Proof.
  induction c as [|x c IH]; simpl; intro H; [exact I|]. destruct H as [Hf Hs]. split; [|exact (IH Hs)].
  apply Forall_forall. intros k Hk. apply in_map_iff in Hk as [y [<- Hy]].
  rewrite Forall_forall in Hf. exact (Hf y Hy).
Qed.

Local Arguments p_insert kd k p c : simpl never.
Local Arguments p_extend kd l c : simpl never.

Lemma pstep_rel co cs o :
  Rel co cs ->
  Rel (fst (pstep KMapOrdered co o)) (fst (pstep KMapSorted cs o)) /\
  call_rel o (snd (pstep KMapOrdered co o)) (snd (pstep KMapSorted cs o)).
Proof.
  intros H. pose proof H as [HO [HS E]].
  pose proof (Rel_length co cs H) as EL. pose proof (Rel_perm co cs H) as EP.
  unfold pstep, call_rel.
  change (avail KMapOrdered o) with (avail KMapSorted o).
  destruct (avail KMapSorted o); cbn [negb]; [|cbn; repeat split; auto].
  destruct o; cbn [fst snd order_free].
  all: try rewrite (E k); try rewrite EL.
  all: try (destruct (im_get k cs) as [q|]; cbn [optmap fst snd]).
  all: try (solve [split; [first [exact H | apply Rel_insert; exact H | apply Rel_remove; exact H
                                 | apply Rel_retain; exact H | apply Rel_extend; exact H
                                 | apply Rel_extend; exact Rel_nil | exact Rel_nil]
                          | split; [reflexivity | discriminate]]]).
  (* the five listing calls *)
  all: split; [exact H|]; split; [discriminate|intros _; split; cbn].
  all: try (apply Permutation_map; exact EP).
  all: try exact I.
  - rewrite map_map. cbn. apply ksorted_keys_ascending. exact HS.
  - rewrite map_map. cbn. apply ksorted_keys_ascending. exact HS.
  - apply ksorted_keys_ascending. exact HS.
  - rewrite map_map. cbn. apply ksorted_keys_ascending. exact HS.
Qed.

(* ---- all histories ---- *)
Inductive outs_rel (P : mop -> out -> out -> Prop) : list mop -> list out -> list out -> Prop :=
| outs_nil : outs_rel P [] [] []
| outs_cons o h a b la lb : P o a b -> outs_rel P h la lb -> outs_rel P (o :: h) (a :: la) (b :: lb).

Lemma outs_rel_impl (P Q : mop -> out -> out -> Prop) h la lb :
  (forall o a b, P o a b -> Q o a b) -> outs_rel P h la lb -> outs_rel Q h la lb.
Proof. intros I H. induction H; constructor; auto. Qed.

Lemma prun_rel h : forall co cs, Rel co cs ->
  Rel (fst (run (pstep KMapOrdered) co h)) (fst (run (pstep KMapSorted) cs h)) /\
  outs_rel call_rel h (snd (run (pstep KMapOrdered) co h)) (snd (run (pstep KMapSorted) cs h)).
Proof.
  induction h as [|o h IH]; intros co cs H.
  - simpl. split; [exact H|constructor].
  - destruct (pstep_rel co cs o H) as [H1 Hc]. rewrite !run_cons. cbn [fst snd].
    destruct (IH _ _ H1) as [H2 Ho]. split; [exact H2|]. constructor; assumption.
Qed.

Definition ordered_final (h : list mop) : imap pay := fst (run (pstep KMapOrdered) [] h).
Definition sorted_final (h : list mop) : imap pay := fst (run (pstep KMapSorted) [] h).

Theorem map_same_content h :
  om_sort_keys (ordered_final h) = sorted_final h /\
  (forall k, im_get k (ordered_final h) = im_get k (sorted_final h)) /\
  length (ordered_final h) = length (sorted_final h) /\
  (forall ks, let oo := pobserve ks (ordered_final h) in let os := pobserve ks (sorted_final h) in
              o_len oo = o_len os /\ o_emp oo = o_emp os /\ o_get oo = o_get os /\ o_ck oo = o_ck os).
Proof.
  destruct (prun_rel h [] [] Rel_nil) as [H _]. fold (ordered_final h) (sorted_final h) in H.
  pose proof (Rel_length _ _ H) as EL. pose proof H as [_ [_ E]].
  split; [apply Rel_content; exact H|]. split; [exact E|]. split; [exact EL|].
  intro ks. cbn. rewrite EL. repeat split.
  - apply map_ext. intro k. rewrite E. reflexivity.
  - apply map_ext. intro k. rewrite E. reflexivity.
Qed.

Theorem map_same_outputs h :
  outs_rel (fun o a b => order_free o = true -> a = b) h
           (snd (run (pstep KMapOrdered) [] h)) (snd (run (pstep KMapSorted) [] h)).
Proof.
  destruct (prun_rel h [] [] Rel_nil) as [_ H].
  eapply outs_rel_impl; [|exact H]. intros o a b [H1 _]. exact H1.
Qed.

Theorem map_iteration_permutation h :
  outs_rel (fun o a b => order_free o = false -> out_perm a b /\ out_ascending b) h
           (snd (run (pstep KMapOrdered) [] h)) (snd (run (pstep KMapSorted) [] h)).
Proof.
  destruct (prun_rel h [] [] Rel_nil) as [_ H].
  eapply outs_rel_impl; [|exact H]. intros o a b [_ H2]. exact H2.
Qed.

(* the same three facts hold of the reference maps (transport by map_refines) *)
Theorem ref_map_same_outputs h :
  outs_rel (fun o a b => order_free o = true -> a = b) h
           (snd (run (ref_step KMapOrdered) [] h)) (snd (run (ref_step KMapSorted) [] h)).
Proof.
  rewrite <- (proj1 (map_refines KMapOrdered h pkO)), <- (proj1 (map_refines KMapSorted h pkS)).
  apply map_same_outputs.
Qed.
