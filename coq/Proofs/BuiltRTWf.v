(* Proofs/BuiltRTWf.v — C06_document (Proofs/BuiltRTDoc.v) and C06 through the well-formedness backbone
   (Proofs/WFBuilt.v, eng-c14) on the same document: one parse, both descriptions of what it decodes to. *)
From TV Require Import Base.Prelude Base.Utf8 Base.Winnow Gen.Consts Spec.Abnf Spec.Lex Spec.Defs Spec.Syntax Spec.WF.
From TV Require Import Model.Datetime Model.Numbers Model.Tree Model.Parse Model.Document Model.Write Model.Encode Model.Build.
From TV Require Import Proofs.GrammarBase Proofs.PrintBackBase Proofs.WFTree Proofs.BuiltRTValue Proofs.BuiltRTTop Proofs.BuiltRTDoc Proofs.WFBuilt.

Theorem constructed_both t :
  BuiltTbl scalar_ok key_ok t -> aot_ne t = true -> tbl_hdepth t < LIMIT -> tbl_vdepth t < LIMIT ->
  exists d, parse_document (display_document (render_tbl float_text t) REmpty) = POk d
            /\ abs_tbl (doc_root d) = printed_entries (abs_tbl t)
            /\ abs_doc d = abs_doc_of (render_tbl float_text t)
            /\ WFdoc (render_tbl float_text t) REmpty.
Proof.
  intros Hb Hne Hh Hv.
  destruct (document_roundtrip t Hb Hh Hv) as (d & Ed & Ea).
  destruct (constructed_print_parse t Hb Hne Hh Hv) as (d' & Ed' & Ek).
  rewrite Ed in Ed'. injection Ed' as E. subst d'.
  exists d. split; [exact Ed|]. split; [exact Ea|]. split; [exact Ek|]. apply constructed_WF; assumption.
Qed.
