(* Proofs/ErrorRange.v — lemmas behind Props/C15.v, part 2: every parser of the model keeps
   the cursor inside the text.  Invariant (L = the document): `rest i = skipn (pos i) L` and
   `pos i <= length L`, for the input every combinator is started on and for the input carried
   by every result (Ok / Bt / Cut).  The error offset of `parse_document` is then <= length L,
   and the bytes at and around it are the bytes the failing parser was looking at. *)
From Coq Require Import List Bool Arith NArith ZArith Lia.
From Coq.Strings Require Import Byte.
From TV Require Import Base.Prelude Base.Utf8 Base.Winnow Gen.Consts.
From TV Require Import Model.Trivia Model.Strings Model.Datetime Model.Numbers Model.Tree Model.Parse Model.Document.
From TV Require Import Proofs.Eoi.
Import ListNotations.

Section Range.
Variable L : bytes.

Definition wf (i : input) : Prop :=
  rest i = skipn (N.to_nat (pos i)) L /\ (pos i <= N.of_nat (length L))%N.

Lemma wf_total i : wf i -> (pos i + N.of_nat (length (rest i)) = N.of_nat (length L))%N.
Proof. intros [H1 H2]. rewrite H1, skipn_length. lia. Qed.

Definition wfr {A} (r : res A) : Prop :=
  match r with
  | Ok _ i => wf i
  | Bt _ i => wf i
  | Cut _ i => wf i
  | Panic _ => True
  end.

Definition pres {A} (p : parser A) : Prop := forall i, wf i -> wfr (p i).

Lemma skipn_add {A} (l : list A) : forall a b, skipn b (skipn a l) = skipn (a + b) l.
Proof.
  induction l as [|x l IH]; intros a b.
  - rewrite !skipn_nil. reflexivity.
  - destruct a as [|a]; [reflexivity|]. cbn [skipn plus]. apply IH.
Qed.

Lemma wf_advance n i : wf i -> n <= length (rest i) -> wf (advance n i).
Proof.
  intros H Hn. pose proof (wf_total i H) as Ht. destruct H as [H1 H2].
  unfold wf, advance. cbn [pos rest]. split; [|lia].
  rewrite H1, skipn_add. f_equal. lia.
Qed.

Lemma wf_set_depth d i : wf i -> wf (set_depth d i).
Proof. unfold wf, set_depth. cbn [pos rest]. auto. Qed.

(* ---- primitives -------------------------------------------------------------------- *)
Lemma pres_ret {A} (a : A) : pres (ret a).
Proof. intros i H. exact H. Qed.

Lemma pres_panic {A} s : pres (fun _ => @Panic A s).
Proof. intros i H. exact I. Qed.

Lemma pres_fail {A} : pres (@fail A).
Proof. intros i H. exact H. Qed.

Lemma pres_empty : pres empty.
Proof. apply pres_ret. Qed.

Lemma pres_bind {A B} (p : parser A) (f : A -> parser B) :
  pres p -> (forall a, pres (f a)) -> pres (bind p f).
Proof.
  intros Hp Hf i Hi. unfold bind. specialize (Hp i Hi).
  destruct (p i) as [a i'|e i'|e i'|s]; cbn [wfr] in *; auto. apply Hf; exact Hp.
Qed.

Lemma pres_pmap {A B} (f : A -> B) p : pres p -> pres (pmap f p).
Proof.
  intros Hp i Hi. unfold pmap. specialize (Hp i Hi). destruct (p i); cbn [wfr] in *; auto.
Qed.

Lemma pres_pvalue {A B} (b : B) (p : parser A) : pres p -> pres (pvalue b p).
Proof. apply pres_pmap. Qed.

Lemma pres_pvoid {A} (p : parser A) : pres p -> pres (pvoid p).
Proof. apply pres_pmap. Qed.

Lemma pres_any : pres any.
Proof.
  intros i Hi. unfold any. destruct (rest i) eqn:E; cbn; [exact Hi|].
  apply wf_advance; [exact Hi|rewrite E; cbn; lia].
Qed.

Lemma pres_one_of f : pres (one_of f).
Proof.
  intros i Hi. unfold one_of. destruct (rest i) eqn:E; cbn; [exact Hi|].
  destruct (f b); cbn; [|exact Hi]. apply wf_advance; [exact Hi|rewrite E; cbn; lia].
Qed.

Lemma pres_none_of f : pres (none_of f).
Proof. apply pres_one_of. Qed.

Lemma pres_byte x : pres (byte_ x).
Proof. apply pres_one_of. Qed.

Lemma strip_prefix_length l s r : strip_prefix l s = Some r -> length l <= length s.
Proof.
  intro H. apply strip_prefix_spec in H. subst. rewrite app_length. lia.
Qed.

Lemma pres_lit l : pres (lit l).
Proof.
  intros i Hi. unfold lit. destruct (strip_prefix l (rest i)) eqn:E; cbn; [|exact Hi].
  apply wf_advance; [exact Hi|eapply strip_prefix_length; exact E].
Qed.

Lemma take_upto_length f n s : length (take_upto f n s) <= length s.
Proof.
  revert s; induction n as [|n IH]; intros [|b s]; cbn; try lia.
  destruct (f b); cbn; [specialize (IH s)|]; lia.
Qed.

Lemma span_while_length f s : length (fst (span_while f s)) <= length s.
Proof.
  rewrite <- (span_while_app f s) at 2. rewrite app_length. lia.
Qed.

Lemma pres_take_while_mn m n f : pres (take_while_mn m n f).
Proof.
  intros i Hi. unfold take_while_mn.
  set (got := match n with Some n' => take_upto f n' (rest i) | None => fst (span_while f (rest i)) end).
  assert (Hg : length got <= length (rest i)).
  { unfold got. destruct n; [apply take_upto_length|apply span_while_length]. }
  destruct (Nat.ltb (length got) m); cbn; [exact Hi|]. apply wf_advance; assumption.
Qed.

Lemma pres_take_while0 f : pres (take_while0 f).
Proof. apply pres_take_while_mn. Qed.
Lemma pres_take_while1 f : pres (take_while1 f).
Proof. apply pres_take_while_mn. Qed.

Lemma pres_take_n n : pres (take_n n).
Proof.
  intros i Hi. unfold take_n. destruct (Nat.ltb (length (rest i)) n) eqn:E; cbn; [exact Hi|].
  apply Nat.ltb_ge in E. apply wf_advance; assumption.
Qed.

Lemma pres_rest : pres rest_.
Proof. intros i Hi. unfold rest_. cbn. apply wf_advance; [exact Hi|lia]. Qed.

Lemma pres_eof : pres eof.
Proof. intros i Hi. unfold eof. destruct (rest i); cbn; exact Hi. Qed.

(* ---- combinators ------------------------------------------------------------------- *)
Lemma pres_peek {A} (p : parser A) : pres p -> pres (peek p).
Proof. intros Hp i Hi. unfold peek. destruct (p i); cbn [wfr]; auto. Qed.

Lemma pres_opt {A} (p : parser A) : pres p -> pres (opt p).
Proof.
  intros Hp i Hi. unfold opt. specialize (Hp i Hi). destruct (p i); cbn [wfr] in *; auto.
Qed.

Lemma pres_cut_err {A} (p : parser A) : pres p -> pres (cut_err p).
Proof.
  intros Hp i Hi. unfold cut_err. specialize (Hp i Hi). destruct (p i); cbn [wfr] in *; auto.
Qed.

Lemma pres_alt {A} (p q : parser A) : pres p -> pres q -> pres (alt p q).
Proof.
  intros Hp Hq i Hi. unfold alt. specialize (Hp i Hi). destruct (p i); cbn [wfr] in *; auto.
Qed.

Lemma pres_context {A} (p : parser A) : pres p -> pres (context p).
Proof.
  intros Hp i Hi. unfold context. specialize (Hp i Hi). destruct (p i); cbn [wfr] in *; auto.
Qed.

Lemma pres_verify {A} (f : A -> bool) p : pres p -> pres (verify f p).
Proof.
  intros Hp i Hi. unfold verify. specialize (Hp i Hi). destruct (p i); cbn [wfr] in *; auto.
  destruct (f a); cbn [wfr]; auto.
Qed.

Lemma pres_verify_map {A B} (f : A -> option B) p : pres p -> pres (verify_map f p).
Proof.
  intros Hp i Hi. unfold verify_map. specialize (Hp i Hi). destruct (p i); cbn [wfr] in *; auto.
  destruct (f a); cbn [wfr]; auto.
Qed.

Lemma pres_try_map {A B} (f : A -> tm B) p : pres p -> pres (try_map f p).
Proof.
  intros Hp i Hi. unfold try_map. specialize (Hp i Hi). destruct (p i); cbn [wfr] in *; auto.
  destruct (f a); cbn [wfr]; auto.
Qed.

Lemma pres_cut_custom {A} c : pres (@cut_custom A c).
Proof. intros i Hi. exact Hi. Qed.

Lemma pres_span {A} (p : parser A) : pres p -> pres (span_ p).
Proof.
  intros Hp i Hi. unfold span_. specialize (Hp i Hi). destruct (p i); cbn [wfr] in *; auto.
Qed.

Lemma pres_with_span {A} (p : parser A) : pres p -> pres (with_span p).
Proof.
  intros Hp i Hi. unfold with_span. specialize (Hp i Hi). destruct (p i); cbn [wfr] in *; auto.
Qed.

Lemma pres_taken {A} (p : parser A) : pres p -> pres (taken p).
Proof.
  intros Hp i Hi. unfold taken. specialize (Hp i Hi). destruct (p i); cbn [wfr] in *; auto.
Qed.

Lemma pres_and_then {A B} (p : parser A) (inner : A -> sub B) : pres p -> pres (and_then p inner).
Proof.
  intros Hp i Hi. unfold and_then. specialize (Hp i Hi). destruct (p i); cbn [wfr] in *; auto.
  destruct (inner a); cbn [wfr]; auto.
Qed.

Lemma pres_preceded {A B} (p : parser A) (q : parser B) : pres p -> pres q -> pres (preceded p q).
Proof. intros Hp Hq. unfold preceded. apply pres_bind; auto. Qed.

Lemma pres_terminated {A B} (p : parser A) (q : parser B) : pres p -> pres q -> pres (terminated p q).
Proof.
  intros Hp Hq. unfold terminated. apply pres_bind; [exact Hp|intro a].
  apply pres_bind; [exact Hq|intro]. apply pres_ret.
Qed.

Lemma pres_delimited {A B C} (p : parser A) (q : parser B) (r : parser C) :
  pres p -> pres q -> pres r -> pres (delimited p q r).
Proof.
  intros Hp Hq Hr. unfold delimited. apply pres_bind; [exact Hp|intro].
  apply pres_bind; [exact Hq|intro]. apply pres_bind; [exact Hr|intro]. apply pres_ret.
Qed.

Lemma pres_pair {A B} (p : parser A) (q : parser B) : pres p -> pres q -> pres (pair_ p q).
Proof.
  intros Hp Hq. unfold pair_. apply pres_bind; [exact Hp|intro].
  apply pres_bind; [exact Hq|intro]. apply pres_ret.
Qed.

Lemma pres_unchecked_utf8 w p : pres p -> pres (unchecked_utf8 w p).
Proof.
  intros Hp i Hi. unfold unchecked_utf8. specialize (Hp i Hi). destruct (p i); cbn [wfr] in *; auto.
  destruct (utf8_valid_b a); cbn [wfr]; auto.
Qed.

(* ---- loops ------------------------------------------------------------------------- *)
Lemma pres_repeat0_f {A} fuel (p : parser A) : pres p -> forall acc, pres (repeat0_f fuel p acc).
Proof.
  intro Hp. induction fuel as [|f IH]; intros acc i Hi; cbn [repeat0_f]; [exact I|].
  specialize (Hp i Hi). destruct (p i) as [a i'|e i'|e i'|s]; cbn [wfr] in *; auto.
  destruct (Nat.eqb (length (rest i')) (length (rest i))); cbn [wfr]; auto. apply IH; exact Hp.
Qed.

Lemma pres_repeat0 {A} (p : parser A) : pres p -> pres (repeat0 p).
Proof. intros Hp i Hi. unfold repeat0. apply pres_repeat0_f; assumption. Qed.

Lemma pres_repeat1 {A} (p : parser A) : pres p -> pres (repeat1 p).
Proof.
  intros Hp i Hi. unfold repeat1. pose proof (Hp i Hi) as H.
  destruct (p i) as [a i'|e i'|e i'|s]; cbn [wfr] in *; auto. apply pres_repeat0_f; assumption.
Qed.

Lemma pres_separated_loop {A S} fuel (p : parser A) (sep : parser S) :
  pres p -> pres sep -> forall acc, pres (separated_loop fuel p sep acc).
Proof.
  intros Hp Hs. induction fuel as [|f IH]; intros acc i Hi; cbn [separated_loop]; [exact I|].
  pose proof (Hs i Hi) as H1. destruct (sep i) as [x i1|e i1|e i1|s]; cbn [wfr] in *; auto.
  destruct (Nat.eqb (length (rest i1)) (length (rest i))); cbn [wfr]; auto.
  pose proof (Hp i1 H1) as H2. destruct (p i1) as [a i2|e i2|e i2|s]; cbn [wfr] in *; auto.
  apply IH; exact H2.
Qed.

Lemma pres_separated0 {A S} (p : parser A) (sep : parser S) : pres p -> pres sep -> pres (separated0 p sep).
Proof.
  intros Hp Hs i Hi. unfold separated0. pose proof (Hp i Hi) as H.
  destruct (p i) as [a i'|e i'|e i'|s]; cbn [wfr] in *; auto. apply pres_separated_loop; assumption.
Qed.

Lemma pres_separated1 {A S} (p : parser A) (sep : parser S) : pres p -> pres sep -> pres (separated1 p sep).
Proof.
  intros Hp Hs i Hi. unfold separated1. pose proof (Hp i Hi) as H.
  destruct (p i) as [a i'|e i'|e i'|s]; cbn [wfr] in *; auto. apply pres_separated_loop; assumption.
Qed.

End Range.

Global Hint Resolve pres_ret pres_panic pres_fail pres_empty pres_any pres_one_of pres_none_of pres_byte
  pres_lit pres_take_while_mn pres_take_while0 pres_take_while1 pres_take_n pres_rest pres_eof
  pres_cut_custom : pres.
Global Hint Resolve pres_pmap pres_pvalue pres_pvoid pres_peek pres_opt pres_cut_err pres_alt pres_context
  pres_verify pres_verify_map pres_try_map pres_span pres_with_span pres_taken pres_and_then
  pres_preceded pres_terminated pres_delimited pres_pair pres_unchecked_utf8
  pres_repeat0 pres_repeat1 pres_separated0 pres_separated1 : pres.

(* one syntactic step of the structural argument *)
Ltac pres_step :=
  lazymatch goal with
  | |- pres _ (bind _ _) => apply pres_bind; [|intro; cbv beta]
  | |- pres _ (match ?x with _ => _ end) => destruct x
  | |- pres _ (let (_, _) := ?x in _) => destruct x
  | |- pres _ (fun _ => Panic _) => apply pres_panic
  | |- pres _ (pmap _ _) => apply pres_pmap
  | |- pres _ (pvalue _ _) => apply pres_pvalue
  | |- pres _ (pvoid _) => apply pres_pvoid
  | |- pres _ (peek _) => apply pres_peek
  | |- pres _ (opt _) => apply pres_opt
  | |- pres _ (cut_err _) => apply pres_cut_err
  | |- pres _ (alt _ _) => apply pres_alt
  | |- pres _ (context _) => apply pres_context
  | |- pres _ (verify _ _) => apply pres_verify
  | |- pres _ (verify_map _ _) => apply pres_verify_map
  | |- pres _ (try_map _ _) => apply pres_try_map
  | |- pres _ (span_ _) => apply pres_span
  | |- pres _ (with_span _) => apply pres_with_span
  | |- pres _ (taken _) => apply pres_taken
  | |- pres _ (and_then _ _) => apply pres_and_then
  | |- pres _ (preceded _ _) => apply pres_preceded
  | |- pres _ (terminated _ _) => apply pres_terminated
  | |- pres _ (delimited _ _ _) => apply pres_delimited
  | |- pres _ (pair_ _ _) => apply pres_pair
  | |- pres _ (unchecked_utf8 _ _) => apply pres_unchecked_utf8
  | |- pres _ (repeat0 _) => apply pres_repeat0
  | |- pres _ (repeat1 _) => apply pres_repeat1
  | |- pres _ (separated0 _ _) => apply pres_separated0
  | |- pres _ (separated1 _ _) => apply pres_separated1
  | |- pres _ _ => solve [auto 20 with pres]
  end.
Ltac pres_auto := repeat pres_step.

Lemma pres_eta {A} L (p : parser A) : pres L p -> pres L (fun i => p i).
Proof. intros H i Hi. apply H; exact Hi. Qed.

(* ---- Model/Trivia.v ------------------------------------------------------------------ *)
Lemma pres_ws L : pres L ws.
Proof. unfold ws. pres_auto. Qed.
Global Hint Resolve pres_ws : pres.

Lemma pres_comment L : pres L comment.
Proof. unfold comment. pres_auto. Qed.
Global Hint Resolve pres_comment : pres.

Lemma pres_newline L : pres L newline.
Proof. unfold newline. pres_auto. Qed.
Global Hint Resolve pres_newline : pres.

Lemma pres_ws_newline L : pres L ws_newline.
Proof. unfold ws_newline. pres_auto. Qed.
Global Hint Resolve pres_ws_newline : pres.

Lemma pres_ws_newlines L : pres L ws_newlines.
Proof. unfold ws_newlines. pres_auto. Qed.
Global Hint Resolve pres_ws_newlines : pres.

Lemma pres_ws_comment_newline_f L fuel : forall start, pres L (ws_comment_newline_f fuel start).
Proof.
  induction fuel as [|f IH]; intros start i Hi; cbn [ws_comment_newline_f]; [exact I|].
  pose proof (pres_ws L i Hi) as H1. destruct (ws i) as [x i1|e i1|e i1|s]; cbn [wfr] in *; auto.
  assert (Hstep : forall p : parser unit, pres L p ->
            wfr L (match p i1 with
                   | Ok _ i2 => if (pos i2 =? start)%N then Ok tt i2 else ws_comment_newline_f f (pos i2) i2
                   | Bt e i' => Bt e i'
                   | Cut e i' => Cut e i'
                   | Panic s => Panic s
                   end)).
  { intros p Hp. pose proof (Hp i1 H1) as H2. destruct (p i1) as [y i2|e i2|e i2|s]; cbn [wfr] in *; auto.
    destruct (pos i2 =? start)%N; cbn [wfr]; auto. apply IH; exact H2. }
  destruct (rest i1) as [|b r]; cbn [wfr]; auto.
  destruct (byte_eqb b x23); [apply Hstep; pres_auto|].
  destruct (byte_eqb b x0a); [apply Hstep; pres_auto|].
  destruct (byte_eqb b x0d); [apply Hstep; pres_auto|]. cbn [wfr]; auto.
Qed.

Lemma pres_ws_comment_newline L : pres L ws_comment_newline.
Proof. intros i Hi. unfold ws_comment_newline. apply pres_ws_comment_newline_f; exact Hi. Qed.
Global Hint Resolve pres_ws_comment_newline : pres.

Lemma pres_line_ending L : pres L line_ending.
Proof. unfold line_ending. pres_auto. Qed.
Global Hint Resolve pres_line_ending : pres.

Lemma pres_line_trailing L : pres L line_trailing.
Proof. unfold line_trailing. pres_auto. Qed.
Global Hint Resolve pres_line_trailing : pres.

(* ---- Model/Strings.v ----------------------------------------------------------------- *)
Lemma pres_from_utf8 L p : pres L p -> pres L (from_utf8 p).
Proof. intro H. unfold from_utf8. pres_auto. Qed.
Global Hint Resolve pres_from_utf8 : pres.

Lemma pres_hexescape L n : pres L (hexescape n).
Proof. unfold hexescape. pres_auto. Qed.
Global Hint Resolve pres_hexescape : pres.

Lemma pres_escape_seq_char L : pres L escape_seq_char.
Proof. unfold escape_seq_char. pres_auto. Qed.
Global Hint Resolve pres_escape_seq_char : pres.

Lemma pres_escaped L : pres L escaped.
Proof. unfold escaped. pres_auto. Qed.
Global Hint Resolve pres_escaped : pres.

Lemma pres_basic_chars L : pres L basic_chars.
Proof. unfold basic_chars. pres_auto. Qed.
Global Hint Resolve pres_basic_chars : pres.

Lemma pres_chunks_f L fuel p : pres L p -> forall acc, pres L (chunks_f fuel p acc).
Proof.
  intro Hp. induction fuel as [|f IH]; intros acc i Hi; cbn [chunks_f]; [exact I|].
  specialize (Hp i Hi). destruct (p i) as [a i'|e i'|e i'|s]; cbn [wfr] in *; auto.
  destruct (Nat.eqb (length (rest i')) (length (rest i))); cbn [wfr]; auto. apply IH; exact Hp.
Qed.

Lemma pres_chunks L p : pres L p -> pres L (chunks p).
Proof. intros Hp i Hi. unfold chunks. apply pres_chunks_f; assumption. Qed.
Global Hint Resolve pres_chunks : pres.

Lemma pres_basic_string L : pres L basic_string.
Proof. unfold basic_string. pres_auto. Qed.
Global Hint Resolve pres_basic_string : pres.

Lemma pres_mlb_escaped_nl L : pres L mlb_escaped_nl.
Proof. unfold mlb_escaped_nl. pres_auto. Qed.
Global Hint Resolve pres_mlb_escaped_nl : pres.

Lemma pres_mlb_content L : pres L mlb_content.
Proof. unfold mlb_content. pres_auto. Qed.
Global Hint Resolve pres_mlb_content : pres.

Lemma pres_quotes2 L q term : pres L term -> pres L (quotes2 q term).
Proof.
  intros Ht i Hi. unfold quotes2.
  assert (H1 : pres L (unchecked_utf8 3 (terminated (lit [q; q]) (peek term)))) by pres_auto.
  assert (H2 : pres L (unchecked_utf8 3 (terminated (lit [q]) (peek term)))) by pres_auto.
  specialize (H1 i Hi). destruct (unchecked_utf8 3 (terminated (lit [q; q]) (peek term)) i); cbn [wfr] in *; auto.
Qed.
Global Hint Resolve pres_quotes2 : pres.

Lemma pres_mlb_quote_loop L fuel : forall acc, pres L (mlb_quote_loop fuel acc).
Proof.
  induction fuel as [|f IH]; intros acc i Hi; cbn [mlb_quote_loop]; [exact I|].
  assert (H1 : pres L (opt (quotes2 x22 (pvoid (none_of (byte_eqb x22)))))) by pres_auto.
  specialize (H1 i Hi).
  destruct (opt (quotes2 x22 (pvoid (none_of (byte_eqb x22)))) i) as [[qi|] i1|e i1|e i1|s]; cbn [wfr] in *; auto.
  assert (H2 : pres L (opt mlb_content)) by pres_auto. specialize (H2 i1 H1).
  destruct (opt mlb_content i1) as [[ci|] i2|e i2|e i2|s]; cbn [wfr] in *; auto.
  assert (H3 : pres L (chunks mlb_content)) by pres_auto. specialize (H3 i2 H2).
  destruct (chunks mlb_content i2) as [more i3|e i3|e i3|s]; cbn [wfr] in *; auto.
  apply IH; exact H3.
Qed.

Lemma pres_ml_basic_body L : pres L ml_basic_body.
Proof.
  unfold ml_basic_body. apply pres_eta. apply pres_bind; [pres_auto|intro c].
  apply pres_bind; [|intro; pres_auto].
  intros j Hj. apply pres_mlb_quote_loop; exact Hj.
Qed.
Global Hint Resolve pres_ml_basic_body : pres.

Lemma pres_ml_basic_string L : pres L ml_basic_string.
Proof. unfold ml_basic_string. pres_auto. Qed.
Global Hint Resolve pres_ml_basic_string : pres.

Lemma pres_literal_string L : pres L literal_string.
Proof. unfold literal_string. apply pres_context, pres_from_utf8. pres_auto. Qed.
Global Hint Resolve pres_literal_string : pres.

Lemma pres_mll_content L : pres L mll_content.
Proof. unfold mll_content. pres_auto. Qed.
Global Hint Resolve pres_mll_content : pres.

Lemma pres_ml_literal_body L : pres L ml_literal_body.
Proof. unfold ml_literal_body. apply pres_from_utf8, pres_taken. pres_auto. Qed.
Global Hint Resolve pres_ml_literal_body : pres.

Lemma pres_ml_literal_string L : pres L ml_literal_string.
Proof. unfold ml_literal_string. pres_auto. Qed.
Global Hint Resolve pres_ml_literal_string : pres.

Lemma pres_string L : pres L string_.
Proof. unfold string_. pres_auto. Qed.
Global Hint Resolve pres_string : pres.

(* ---- Model/Datetime.v ---------------------------------------------------------------- *)
Lemma pres_unsigned_digits L m n : pres L (unsigned_digits m n).
Proof. unfold unsigned_digits. pres_auto. Qed.
Global Hint Resolve pres_unsigned_digits : pres.

Lemma pres_date_fullyear L : pres L date_fullyear.
Proof. unfold date_fullyear. pres_auto. Qed.
Global Hint Resolve pres_date_fullyear : pres.

Lemma pres_two_digit_field L lo hi : pres L (two_digit_field lo hi).
Proof. unfold two_digit_field. pres_auto. Qed.
Global Hint Resolve pres_two_digit_field : pres.

Lemma pres_date_month L : pres L date_month. Proof. apply pres_two_digit_field. Qed.
Lemma pres_date_mday L : pres L date_mday. Proof. apply pres_two_digit_field. Qed.
Lemma pres_time_hour L : pres L time_hour. Proof. apply pres_two_digit_field. Qed.
Lemma pres_time_minute L : pres L time_minute. Proof. apply pres_two_digit_field. Qed.
Lemma pres_time_second L : pres L time_second. Proof. apply pres_two_digit_field. Qed.
Global Hint Resolve pres_date_month pres_date_mday pres_time_hour pres_time_minute pres_time_second : pres.

Lemma pres_full_date L : pres L full_date.
Proof.
  unfold full_date. apply pres_eta.
  apply pres_bind; [pres_auto|intro y]. apply pres_bind; [pres_auto|intros _].
  apply pres_bind; [pres_auto|intro m]. apply pres_bind; [pres_auto|intros _].
  intros day_start Hds. cbv beta.
  refine (pres_bind L _ _ _ _ day_start Hds); [pres_auto|intro d].
  destruct (max_days DT_MAXDAYS m (is_leap_year y) <? d)%N; [|pres_auto].
  intros j Hj. exact Hds.
Qed.
Global Hint Resolve pres_full_date : pres.

Lemma pres_time_secfrac L : pres L time_secfrac.
Proof. unfold time_secfrac. pres_auto. Qed.
Global Hint Resolve pres_time_secfrac : pres.

Lemma pres_partial_time L : pres L partial_time.
Proof. unfold partial_time. pres_auto. Qed.
Global Hint Resolve pres_partial_time : pres.

Lemma pres_time_offset L : pres L time_offset.
Proof. unfold time_offset. pres_auto. Qed.
Global Hint Resolve pres_time_offset : pres.

Lemma pres_time_delim L : pres L time_delim.
Proof. unfold time_delim. pres_auto. Qed.
Global Hint Resolve pres_time_delim : pres.

Lemma pres_date_time L : pres L date_time.
Proof. unfold date_time. pres_auto. Qed.
Global Hint Resolve pres_date_time : pres.

(* ---- Model/Numbers.v ----------------------------------------------------------------- *)
Lemma pres_bool_lit L l v : pres L (bool_lit l v).
Proof. unfold bool_lit. pres_auto. Qed.
Global Hint Resolve pres_bool_lit : pres.
Lemma pres_true L : pres L true_. Proof. apply pres_bool_lit. Qed.
Lemma pres_false L : pres L false_. Proof. apply pres_bool_lit. Qed.
Lemma pres_digit L : pres L digit. Proof. apply pres_one_of. Qed.
Lemma pres_hexdig L : pres L hexdig. Proof. apply pres_one_of. Qed.
Global Hint Resolve pres_true pres_false pres_digit pres_hexdig : pres.

Lemma pres_digits_us L first d : pres L first -> pres L d -> pres L (digits_us first d).
Proof. intros H1 H2. unfold digits_us. pres_auto. Qed.
Global Hint Resolve pres_digits_us : pres.

Lemma pres_dec_int L : pres L dec_int.
Proof. unfold dec_int. pres_auto. Qed.
Global Hint Resolve pres_dec_int : pres.

Lemma pres_prefixed_int L w pre d : pres L d -> pres L (prefixed_int w pre d).
Proof. intro H. unfold prefixed_int. pres_auto. Qed.
Global Hint Resolve pres_prefixed_int : pres.

Lemma pres_hex_int L : pres L hex_int. Proof. unfold hex_int. pres_auto. Qed.
Lemma pres_oct_int L : pres L oct_int. Proof. unfold oct_int. pres_auto. Qed.
Lemma pres_bin_int L : pres L bin_int. Proof. unfold bin_int. pres_auto. Qed.
Global Hint Resolve pres_hex_int pres_oct_int pres_bin_int : pres.

Lemma pres_integer L : pres L integer.
Proof.
  intros i Hi. unfold integer. cbv zeta.
  destruct (bytes_eqb (firstn 2 (rest i)) [x30; x78]).
  { assert (H : pres L (cut_err (try_map (int_of 16) hex_int))) by pres_auto. apply H; exact Hi. }
  destruct (bytes_eqb (firstn 2 (rest i)) [x30; x6f]).
  { assert (H : pres L (cut_err (try_map (int_of 8) oct_int))) by pres_auto. apply H; exact Hi. }
  destruct (bytes_eqb (firstn 2 (rest i)) [x30; x62]).
  { assert (H : pres L (cut_err (try_map (int_of 2) bin_int))) by pres_auto. apply H; exact Hi. }
  apply pres_and_then; [pres_auto|exact Hi].
Qed.
Global Hint Resolve pres_integer : pres.

Lemma pres_zero_prefixable_int L : pres L zero_prefixable_int.
Proof. unfold zero_prefixable_int. pres_auto. Qed.
Global Hint Resolve pres_zero_prefixable_int : pres.
Lemma pres_frac L : pres L frac. Proof. unfold frac. pres_auto. Qed.
Global Hint Resolve pres_frac : pres.
Lemma pres_exp L : pres L exp. Proof. unfold exp. pres_auto. Qed.
Global Hint Resolve pres_exp : pres.
Lemma pres_float_ L : pres L float_. Proof. unfold float_. pres_auto. Qed.
Global Hint Resolve pres_float_ : pres.
Lemma pres_inf L : pres L inf. Proof. unfold inf. pres_auto. Qed.
Lemma pres_nan L : pres L nan. Proof. unfold nan. pres_auto. Qed.
Global Hint Resolve pres_inf pres_nan : pres.
Lemma pres_special_float L : pres L special_float.
Proof. unfold special_float. pres_auto. Qed.
Global Hint Resolve pres_special_float : pres.
Lemma pres_float L : pres L float. Proof. unfold float. pres_auto. Qed.
Global Hint Resolve pres_float : pres.

(* ---- Model/Parse.v ------------------------------------------------------------------- *)
Lemma pres_unquoted_key L : pres L unquoted_key.
Proof. unfold unquoted_key. pres_auto. Qed.
Global Hint Resolve pres_unquoted_key : pres.

Lemma pres_simple_key L : pres L simple_key.
Proof. unfold simple_key. pres_auto. Qed.
Global Hint Resolve pres_simple_key : pres.

Lemma pres_key_part L : pres L key_part.
Proof. unfold key_part. pres_auto. Qed.
Global Hint Resolve pres_key_part : pres.

Lemma pres_key L : pres L key_.
Proof. unfold key_. pres_auto. Qed.
Global Hint Resolve pres_key : pres.

Lemma pres_check_recursion L {A} (p : parser A) : pres L p -> pres L (check_recursion p).
Proof.
  intros Hp i Hi. unfold check_recursion. cbv zeta.
  assert (H1 : wf L (set_depth (S (depth i)) i)) by (apply wf_set_depth; exact Hi).
  destruct (Nat.leb LIMIT (depth (set_depth (S (depth i)) i))); cbn [wfr]; auto.
  specialize (Hp _ H1). destruct (p (set_depth (S (depth i)) i)) as [a i2|e i2|e i2|s]; cbn [wfr] in *; auto.
  destruct (depth i2); cbn [wfr]; auto; try (apply wf_set_depth; exact Hp).
Qed.
Global Hint Resolve pres_check_recursion : pres.

Section KnotRange.
  Variable L : bytes.
  Variable value_rec : parser value.
  Hypothesis Hrec : pres L value_rec.

  Lemma pres_array_value : pres L (array_value value_rec).
  Proof. unfold array_value. pres_auto. Qed.

  Lemma pres_array_values : pres L (array_values value_rec).
  Proof. pose proof pres_array_value. unfold array_values. pres_auto. Qed.

  Lemma pres_array : pres L (array value_rec).
  Proof. pose proof pres_array_values. unfold array. pres_auto. Qed.

  Lemma pres_inline_keyval : pres L (inline_keyval value_rec).
  Proof. unfold inline_keyval. pres_auto. Qed.

  Lemma pres_inline_table : pres L (inline_table value_rec).
  Proof. pose proof pres_inline_keyval. unfold inline_table. pres_auto. Qed.

  Lemma pres_value_body : pres L (value_body value_rec).
  Proof.
    pose proof pres_array. pose proof pres_inline_table. unfold value_body. pres_auto.
  Qed.

  Lemma pres_value_step : pres L (value_step value_rec).
  Proof. pose proof pres_value_body. unfold value_step. pres_auto. Qed.
End KnotRange.

Lemma pres_value_f L fuel : pres L (value_f fuel).
Proof.
  induction fuel as [|f IH]; cbn [value_f]; [apply pres_panic|].
  apply pres_eta. apply pres_value_step; exact IH.
Qed.

Lemma pres_value L : pres L value_.
Proof. intros i Hi. unfold value_. apply pres_value_f; exact Hi. Qed.
Global Hint Resolve pres_value : pres.

(* ---- Model/Document.v ---------------------------------------------------------------- *)
Lemma pres_parse_keyval L : pres L parse_keyval.
Proof. unfold parse_keyval. pres_auto. Qed.
Global Hint Resolve pres_parse_keyval : pres.

Lemma pres_keyval L st : pres L (keyval st).
Proof. unfold keyval. pres_auto. Qed.
Global Hint Resolve pres_keyval : pres.

Lemma pres_header L a st : pres L (header a st).
Proof. unfold header. cbv zeta. destruct a; pres_auto. Qed.
Global Hint Resolve pres_header : pres.

Lemma pres_table L st : pres L (table st).
Proof. unfold table. pres_auto. Qed.
Global Hint Resolve pres_table : pres.

Lemma pres_parse_comment L st : pres L (parse_comment st).
Proof. unfold parse_comment. pres_auto. Qed.
Lemma pres_parse_ws L st : pres L (parse_ws st).
Proof. unfold parse_ws. pres_auto. Qed.
Lemma pres_parse_newline L st : pres L (parse_newline st).
Proof. unfold parse_newline. pres_auto. Qed.
Global Hint Resolve pres_parse_comment pres_parse_ws pres_parse_newline : pres.

Lemma pres_doc_line L st : pres L (doc_line st).
Proof. unfold doc_line. pres_auto. Qed.
Global Hint Resolve pres_doc_line : pres.

Lemma pres_doc_loop L fuel : forall st, pres L (doc_loop fuel st).
Proof.
  induction fuel as [|f IH]; intros st i Hi; cbn [doc_loop]; [exact I|].
  pose proof (pres_doc_line L st i Hi) as H. destruct (doc_line st i) as [st' i'|e i'|e i'|s]; cbn [wfr] in *; auto.
  destruct (Nat.eqb (length (rest i')) (length (rest i))); cbn [wfr]; auto. apply IH; exact H.
Qed.

Lemma pres_document L : pres L document.
Proof.
  unfold document. apply pres_bind; [pres_auto|intros _]. apply pres_bind; [pres_auto|intro st].
  apply pres_bind; [|intro; pres_auto]. intros i Hi. apply pres_doc_loop; exact Hi.
Qed.

(* ---- Parser::parse ------------------------------------------------------------------- *)
Lemma wf_new_input s : wf s (new_input s).
Proof. unfold wf, new_input. cbn [pos rest]. split; [reflexivity|lia]. Qed.

Lemma parse_all_range {A} (p : parser A) s e at_ :
  pres s p -> parse_all p s = Failed e at_ -> (at_ <= N.of_nat (length s))%N.
Proof.
  intros Hp. unfold parse_all.
  assert (H : pres s (a <- p ;; eof ;;; ret a)) by pres_auto.
  specialize (H _ (wf_new_input s)).
  destruct ((a <- p ;; eof ;;; ret a) (new_input s)) as [a i|e' i|e' i|st]; cbn [wfr] in H;
    intro E; inversion E; subst; destruct H as [_ H]; exact H.
Qed.

Lemma document_offset_in_range s e at_ :
  parse_document s = PErr e (Some at_) -> (at_ <= N.of_nat (length s))%N.
Proof.
  unfold parse_document. destruct (parse_all document s) as [st|e' at'|p] eqn:E.
  - destruct (finalize_table st) as [st'|c|p]; discriminate.
  - intro H. injection H as -> ->. eapply parse_all_range; [apply pres_document|exact E].
  - discriminate.
Qed.

Lemma lift_outcome_range {A} (p : parser A) s e at_ :
  pres s p -> lift_outcome (parse_all p s) = PErr e (Some at_) ->
  (at_ <= N.of_nat (length s))%N.
Proof.
  intros Hp. destruct (parse_all p s) as [a|e' at'|st] eqn:E; cbn [lift_outcome]; try discriminate.
  intro H. injection H as -> ->. eapply parse_all_range; eassumption.
Qed.

Lemma value_offset_in_range s e at_ :
  parse_value_raw s = PErr e (Some at_) -> (at_ <= N.of_nat (length s))%N.
Proof.
  unfold parse_value_raw. intro H. apply lift_eoi_err in H as (e0 & H & _). revert H.
  apply lift_outcome_range, pres_value.
Qed.

Lemma key_offset_in_range s e at_ :
  parse_key s = PErr e (Some at_) -> (at_ <= N.of_nat (length s))%N.
Proof.
  unfold parse_key. intro H. apply lift_eoi_err in H as (e0 & H & _). revert H.
  apply lift_outcome_range, pres_simple_key.
Qed.

Lemma key_path_offset_in_range s e at_ :
  parse_key_path s = PErr e (Some at_) -> (at_ <= N.of_nat (length s))%N.
Proof.
  unfold parse_key_path. intro H. apply lift_eoi_err in H as (e0 & H & _). revert H.
  apply lift_outcome_range, pres_key.
Qed.
