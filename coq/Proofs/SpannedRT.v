(* Proofs/SpannedRT.v — C14, serde half: wrapping a type in Spanned<..> at any positions is transparent.
   For a well-formed tree all of whose nodes and keys have spans, toml_edit's deserializer at the
   wrapped type (de_s) and at the erased type (de_value on the stripped tree) go in lock step: both fail,
   or both succeed and the values agree after erasing the spans. *)
From TV Require Import Base.Prelude Model.Datetime Model.SerNum Spec.SerdeData Model.Ser Model.De Model.SerdeSpanned
  Proofs.SerdeRTBase Proofs.SerdeRTEq Proofs.RoutesTwins Proofs.SpannedRTBase.

Definition ER (x : xval) (v : sval) : Prop := erase_val x = v.
Definition ERp (p : xval * xval) (q : sval * sval) : Prop := erase_val (fst p) = fst q /\ erase_val (snd p) = snd q.

(* ---- unfolding equations of de_s ---- *)
Lemma ds_plain t s : de_s (YPlain t) s = rmap XPlain (de_value t (strip s)). Proof. reflexivity. Qed.
Lemma ds_spanned t s : de_s (YSpanned t) s =
  match span_of s with Some (a, b) => rmap (XSpanned a b) (de_s t s) | None => Err EDe end.
Proof. reflexivity. Qed.
Lemma ds_opt t s : de_s (YOpt t) s = rmap XSome (de_s t s). Proof. reflexivity. Qed.
Lemma ds_newtype n t s : de_s (YNewtype n t) s = rmap XNewtype (de_s t s). Proof. reflexivity. Qed.
Lemma ds_seq t sp xs : de_s (YSeq t) (NArr sp xs) = rmap XSeq (mapM (de_s t) xs). Proof. reflexivity. Qed.
Lemma ds_tuple ts sp xs : de_s (YTuple ts) (NArr sp xs) = rmap (fun r => XSeq (fst r)) (gde_pos de_s ts xs). Proof. reflexivity. Qed.
Lemma ds_tuple_struct n ts sp xs : de_s (YTupleStruct n ts) (NArr sp xs) = rmap (fun r => XSeq (fst r)) (gde_pos de_s ts xs).
Proof. reflexivity. Qed.
Definition sde_entries (kt vt : sty) (es : list (bytes * ospan * stree)) : result (list (xval * xval)) :=
  mapM (fun e => rbind (de_key_s kt (fst (fst e)) (snd (fst e))) (fun k => rmap (fun v => (k, v)) (de_s vt (snd e)))) es.
Lemma ds_map kt vt sp es : de_s (YMap kt vt) (NTab sp es) = rmap (fun ps => XMap (xmap_of_pairs ps)) (sde_entries kt vt es).
Proof. reflexivity. Qed.
Lemma ds_struct_tab n fs sp es : de_s (YStruct n fs) (NTab sp es) =
  if private_name n then Err EUnmodelled else rmap XRec (sde_struct_map de_s fs es).
Proof. reflexivity. Qed.
Lemma ds_struct_arr n fs sp xs : de_s (YStruct n fs) (NArr sp xs) =
  if private_name n then Err EUnmodelled else rmap (fun r => XRec (fst r)) (gde_pos (fun ft x => de_s (snd ft) x) fs xs).
Proof. reflexivity. Qed.
Definition s_unit_only (i : nat) (var : svariant) : result xval :=
  match var with YVUnit => Ok (XVariant i (XPlain SUnit)) | _ => Err EDe end.
Lemma ds_enum_str n vs sp k : de_s (YEnum n vs) (NLeaf sp (VStr k)) = find_name s_unit_only (Err EDe) k vs 0.
Proof. reflexivity. Qed.
Lemma ds_enum_tab n vs sp k ksp y : de_s (YEnum n vs) (NTab sp [(k, ksp, y)]) =
  find_name (fun i var => rmap (XVariant i) (de_payload_s var y)) (Err EDe) k vs 0.
Proof. reflexivity. Qed.
Lemma dps_newtype t y : de_payload_s (YVNewtype t) y = de_s t y. Proof. reflexivity. Qed.
Lemma dps_tuple_arr ts sp xs : de_payload_s (YVTuple ts) (NArr sp xs) =
  if Nat.eqb (length xs) (length ts) then rmap (fun r => XSeq (fst r)) (gde_pos de_s ts xs) else Err EDe.
Proof. reflexivity. Qed.
Lemma dps_tuple_tab ts sp es : de_payload_s (YVTuple ts) (NTab sp es) =
  match sindex_keys 0 es with
  | Some xs => if Nat.eqb (length xs) (length ts) then rmap (fun r => XSeq (fst r)) (gde_pos de_s ts xs) else Err EDe
  | None => Err EDe end.
Proof. reflexivity. Qed.
Lemma dps_struct_tab fs sp es : de_payload_s (YVStruct fs) (NTab sp es) =
  if sstruct_keys_ok (map fst fs) es then rmap XRec (sde_struct_map de_s fs es) else Err EDe.
Proof. reflexivity. Qed.
Lemma dps_struct_arr fs sp xs : de_payload_s (YVStruct fs) (NArr sp xs) =
  rmap (fun r => XRec (fst r)) (gde_pos (fun ft x => de_s (snd ft) x) fs xs).
Proof. reflexivity. Qed.

Lemma et_tuple ts : erase_ty (YTuple ts) = TTuple (map erase_ty ts). Proof. reflexivity. Qed.
Lemma et_struct n fs : erase_ty (YStruct n fs) = TStruct n (map (fun ft => (fst ft, erase_ty (snd ft))) fs). Proof. reflexivity. Qed.
Lemma et_enum n vs : erase_ty (YEnum n vs) = TEnum n (map (fun nv => (fst nv, erase_variant (snd nv))) vs). Proof. reflexivity. Qed.

(* ---- find_name ---- *)
Lemma find_name_map {A B R} (f : nat -> B -> R) d k (g : A -> B) l : forall j,
  find_name f d k (map (fun nv => (fst nv, g (snd nv))) l) j = find_name (fun i a => f i (g a)) d k l j.
Proof.
  induction l as [|[n a] l IH]; intro j; simpl; [reflexivity|]. destruct (bytes_eqb n k); [reflexivity|apply IH].
Qed.

Lemma find_name_rel {A X Y} (R : X -> Y -> Prop) (f : nat -> A -> result X) (f' : nat -> A -> result Y) e e' k l : forall j,
  Forall (fun nv => forall i, relR R (f i (snd nv)) (f' i (snd nv))) l ->
  relR R (find_name f (Err e) k l j) (find_name f' (Err e') k l j).
Proof.
  induction l as [|[n a] l IH]; intros j H; simpl; [exact I|]. inversion H as [|? ? Ha Hl]; subst.
  destruct (bytes_eqb n k); [apply Ha|apply IH; exact Hl].
Qed.

(* ---- keys ---- *)
Lemma from_str_key t k : (forall n t', t <> TNewtype n t') -> relR (fun a b => a = b) (de_from_str t k) (de_key t k).
Proof.
  intro Hn. destruct t; simpl; try exact I.
  - destruct (de_char k); simpl; auto.
  - reflexivity.
  - destruct (private_name name); exact I.
  - exfalso. eapply Hn. reflexivity.
  - unfold unit_only. destruct (find_name _ (Err EDe) k vs 0); simpl; auto.
Qed.

Theorem key_lockstep : forall kt, key_sty_ok kt = true -> forall k a b,
  relR ER (de_key_s kt k (Some (a, b))) (de_key (erase_ty kt) k).
Proof.
  induction kt using sty_ind2 with (Q := fun _ => True); try exact I; intros Hok k a b; try (simpl; exact I).
  - (* YPlain *) simpl. destruct (de_key t k); simpl; [reflexivity|exact I].
  - (* YSpanned *) destruct kt; try (simpl in Hok; discriminate Hok).
    + (* around a plain key type *)
      simpl in Hok. simpl.
      assert (Hn : forall n t', t <> TNewtype n t') by (intros n t' E; subst; discriminate Hok).
      pose proof (from_str_key t k Hn) as H. destruct (de_from_str t k), (de_key t k); simpl in *; try contradiction; [|exact I].
      unfold ER. simpl. exact H.
    + (* around an enum key *)
      simpl de_key_s. change (erase_ty (YSpanned (YEnum name vs))) with (TEnum name (map (fun nv => (fst nv, erase_variant (snd nv))) vs)).
      rewrite dk_enum. rewrite find_name_map.
      match goal with |- relR ER (rmap _ ?r1) ?r2 => assert (Hr : relR ER r1 r2) end.
      { apply find_name_rel. apply Forall_forall. intros [vn var] _ i. simpl. destruct var; simpl; try exact I. reflexivity. }
      match goal with |- relR ER (rmap _ ?r1) ?r2 => destruct r1, r2; simpl in *; auto end.
  - (* YStruct *) simpl. destruct (private_name n); exact I.
  - (* YNewtype *) simpl in Hok. simpl de_key_s. change (erase_ty (YNewtype n kt)) with (TNewtype n (erase_ty kt)). rewrite dk_newtype.
    apply (relR_rmap ER ER); [apply IHkt; exact Hok|]. intros x v E. unfold ER in *. simpl. rewrite E. reflexivity.
  - (* YEnum *) simpl de_key_s. rewrite et_enum, dk_enum, find_name_map.
    apply find_name_rel. apply Forall_forall. intros [vn var] _ i. simpl. destruct var; simpl; try exact I. reflexivity.
Qed.

(* ---- maps: equal keys are equal up to spans ---- *)
Lemma xmap_insert_erase k v acc :
  map (fun p => (erase_val (fst p), erase_val (snd p))) (xmap_insert k v acc)
  = smap_insert (erase_val k) (erase_val v) (map (fun p => (erase_val (fst p), erase_val (snd p))) acc).
Proof.
  induction acc as [|[k' v'] acc IH]; simpl; [reflexivity|]. unfold xval_beq.
  destruct (sval_beq (erase_val k') (erase_val k)); simpl; [reflexivity|]. rewrite IH. reflexivity.
Qed.

Lemma xmap_of_pairs_erase ps :
  map (fun p => (erase_val (fst p), erase_val (snd p))) (xmap_of_pairs ps)
  = smap_of_pairs (map (fun p => (erase_val (fst p), erase_val (snd p))) ps).
Proof.
  unfold xmap_of_pairs, smap_of_pairs.
  assert (G : forall acc, map (fun p => (erase_val (fst p), erase_val (snd p))) (fold_left (fun acc p => xmap_insert (fst p) (snd p) acc) ps acc)
              = fold_left (fun acc p => smap_insert (fst p) (snd p) acc) (map (fun p => (erase_val (fst p), erase_val (snd p))) ps)
                          (map (fun p => (erase_val (fst p), erase_val (snd p))) acc)).
  { induction ps as [|[k v] ps IH]; intro acc; simpl; [reflexivity|]. rewrite IH, xmap_insert_erase. reflexivity. }
  apply (G []).
Qed.

Lemma Forall2_ERp_map ps qs : Forall2 ERp ps qs -> map (fun p => (erase_val (fst p), erase_val (snd p))) ps = qs.
Proof. induction 1 as [|[a b] [c d] ps qs [H1 H2] _ IH]; simpl in *; [reflexivity|]. subst. reflexivity. Qed.

(* ---- positional visitors ---- *)
Section PosLock.
  Context {A B : Type}.
  Variable pa : A -> sty.
  Variable pb : B -> ty.
  Variable conv : A -> B.
  Hypothesis Hconv : forall a, pb (conv a) = erase_ty (pa a).
  Lemma pos_lockstep (l : list A) : forall xs,
    Forall (fun a => forall s, all_spans s = true -> relR ER (de_s (pa a) s) (de_value (erase_ty (pa a)) (strip s))) l ->
    Forall (fun x => all_spans x = true) xs ->
    relR (fun r r' => Forall2 ER (fst r) (fst r')) (gde_pos (fun a x => de_s (pa a) x) l xs) (de_pos de_value pb (map conv l) (map strip xs)).
  Proof.
    induction l as [|a l IH]; intros xs Hl Hx; simpl; [constructor|].
    destruct xs as [|x xs]; simpl; [exact I|].
    inversion Hl as [|? ? Ha Hl']; subst. inversion Hx as [|? ? Hx0 Hx']; subst.
    rewrite Hconv. apply (relR_rbind ER); [apply Ha; exact Hx0|]. intros v v' Hv.
    apply (relR_rbind (fun r r' => Forall2 ER (fst r) (fst r'))); [apply IH; assumption|].
    intros r r' Hr. simpl. constructor; assumption.
  Qed.
End PosLock.

Lemma Forall2_ER_map l l' : Forall2 ER l l' -> map erase_val l = l'.
Proof. apply Forall2_map_eq. Qed.

(* ---- struct fields ---- *)
Lemma missing_lockstep t : bad_field t = false -> relR ER (missing_field_s t) (missing_field (erase_ty t)).
Proof.
  intro H. destruct t; simpl; try exact I.
  - destruct t; simpl; try exact I. reflexivity.
  - simpl in H. change (erase_ty (YSpanned t)) with (erase_ty t) in H. destruct (erase_ty t); try discriminate H; exact I.
  - reflexivity.
Qed.

Definition field_hyp (ft : bytes * sty) : Prop :=
  bad_field (snd ft) = false /\
  forall s, all_spans s = true -> relR ER (de_s (snd ft) s) (de_value (erase_ty (snd ft)) (strip s)).

Lemma stab_get_spans k es x :
  Forall (fun e : bytes * ospan * stree => has_span (snd (fst e)) = true /\ all_spans (snd e) = true) es ->
  stab_get k es = Some x -> all_spans x = true.
Proof.
  induction 1 as [|[[k' sp] y] es [_ Hy] _ IH]; simpl; [discriminate|].
  destruct (bytes_eqb k' k); [intro E; injection E as <-; exact Hy|exact IH].
Qed.

Lemma fields_map_lockstep es : Forall (fun e : bytes * ospan * stree => has_span (snd (fst e)) = true /\ all_spans (snd e) = true) es ->
  forall fs seen, Forall field_hyp fs ->
  relR (Forall2 ER) (sde_fields_map de_s es seen fs)
       (de_fields_map de_value (strip_entries es) seen (map (fun ft => (fst ft, erase_ty (snd ft))) fs)).
Proof.
  intros Hes. induction fs as [|[f t] fs IH]; intros seen Hfs; simpl; [constructor|].
  inversion Hfs as [|? ? [Hbad Ht] Hfs']; subst. simpl in Hbad, Ht.
  apply (relR_rbind ER).
  - destruct (mem_bytes f seen); [apply missing_lockstep; exact Hbad|].
    rewrite tab_get_strip. destruct (stab_get f es) as [x|] eqn:G; simpl; [|apply missing_lockstep; exact Hbad].
    apply Ht. eapply stab_get_spans; eassumption.
  - intros v v' Hv. apply (relR_rbind (Forall2 ER)); [apply IH; exact Hfs'|]. intros l l' Hl. simpl. constructor; assumption.
Qed.

Lemma struct_map_lockstep fs es : Forall (fun e : bytes * ospan * stree => has_span (snd (fst e)) = true /\ all_spans (snd e) = true) es ->
  Forall field_hyp fs ->
  relR (Forall2 ER) (sde_struct_map de_s fs es)
       (de_struct_map de_value (map (fun ft => (fst ft, erase_ty (snd ft))) fs) (strip_entries es)).
Proof.
  intros Hes Hfs. unfold sde_struct_map, de_struct_map. rewrite dup_hit_strip. rewrite map_map. simpl.
  replace (map (fun x : bytes * sty => fst x) fs) with (map fst fs) by reflexivity.
  destruct (sdup_field_hit (map fst fs) es); [exact I|]. apply fields_map_lockstep; assumption.
Qed.

Lemma sindex_keys_spans es : Forall (fun e : bytes * ospan * stree => has_span (snd (fst e)) = true /\ all_spans (snd e) = true) es ->
  forall i xs, sindex_keys i es = Some xs -> Forall (fun x => all_spans x = true) xs.
Proof.
  induction 1 as [|[[k sp] y] es [_ Hy] _ IH]; intros i xs H; simpl in H.
  - injection H as <-. constructor.
  - destruct (parse_usize k) as [j|]; [|discriminate H]. destruct (j =? i)%N; [|discriminate H].
    destruct (sindex_keys (i + 1) es) as [xs'|] eqn:E; [|discriminate H]. simpl in H. injection H as <-.
    constructor; [exact Hy|eapply IH; exact E].
Qed.

(* ---- the theorem ---- *)
Definition LOCK (t : sty) : Prop :=
  sty_ok t = true -> forall s, all_spans s = true -> relR ER (de_s t s) (de_value (erase_ty t) (strip s)).
Definition LOCKV (var : svariant) : Prop :=
  svariant_ok var = true -> forall y, all_spans y = true -> relR ER (de_payload_s var y) (de_payload (erase_variant var) (strip y)).

Lemma lock_Forall ts : Forall LOCK ts -> forallb sty_ok ts = true ->
  Forall (fun a => forall s, all_spans s = true -> relR ER (de_s ((fun t => t) a) s) (de_value (erase_ty ((fun t => t) a)) (strip s))) ts.
Proof.
  intros H Hb. rewrite forallb_forall in Hb. rewrite Forall_forall in *. intros t Hin. exact (H t Hin (Hb t Hin)).
Qed.
Lemma lock_fields (fs : list (bytes * sty)) : Forall (fun ft => LOCK (snd ft)) fs ->
  forallb (fun ft => negb (bad_field (snd ft)) && sty_ok (snd ft)) fs = true -> Forall field_hyp fs.
Proof.
  intros H Hb. rewrite forallb_forall in Hb. rewrite Forall_forall in *. intros ft Hin.
  specialize (Hb ft Hin). apply andb_true_iff in Hb as [Hb1 Hb2]. apply negb_true_iff in Hb1.
  split; [exact Hb1|exact (H ft Hin Hb2)].
Qed.
Lemma field_hyp_pos (fs : list (bytes * sty)) : Forall field_hyp fs ->
  Forall (fun a => forall s, all_spans s = true -> relR ER (de_s (snd a) s) (de_value (erase_ty (snd a)) (strip s))) fs.
Proof. apply Forall_impl. intros ft [_ H]. exact H. Qed.

Ltac leaf_err Hl := apply all_spans_leaf in Hl; match goal with |- context [NLeaf _ ?x] => destruct x; try discriminate Hl; simpl; try exact I end.

Theorem spanned_lockstep : forall t, LOCK t.
Proof.
  induction t using sty_ind2 with (Q := LOCKV); unfold LOCK, LOCKV in *.
  - (* YPlain *) intros _ s _. rewrite ds_plain. simpl erase_ty. destruct (de_value t (strip s)); simpl; [reflexivity|exact I].
  - (* YSpanned *) intros Hok s Hs. rewrite ds_spanned.
    assert (Hsp : has_span (span_of s) = true) by (destruct s; simpl in Hs; apply andb_true_iff in Hs as [H1 _]; exact H1).
    destruct (has_span_some _ Hsp) as (a & b & ->). change (erase_ty (YSpanned t)) with (erase_ty t).
    pose proof (IHt Hok s Hs) as H. destruct (de_s t s), (de_value (erase_ty t) (strip s)); simpl in *; auto.
  - (* YOpt *) intros Hok s Hs. rewrite ds_opt. change (erase_ty (YOpt t)) with (TOpt (erase_ty t)). rewrite dv_opt.
    apply (relR_rmap ER ER); [apply IHt; assumption|]. intros x v E. unfold ER in *. simpl. rewrite E. reflexivity.
  - (* YSeq *) intros Hok s Hs. change (erase_ty (YSeq t)) with (TSeq (erase_ty t)). destruct s as [sp x|sp xs|sp es].
    + leaf_err Hs.
    + rewrite ds_seq, strip_arr, dv_seq. destruct (all_spans_arr _ _ Hs) as [_ Hxs].
      apply (relR_rmap (Forall2 ER) ER); [|intros l l' Hl; unfold ER; simpl; rewrite (Forall2_ER_map _ _ Hl); reflexivity].
      apply relR_mapM. eapply Forall_impl; [|exact Hxs]. intros x Hx. apply IHt; assumption.
    + simpl. exact I.
  - (* YTuple *) intros Hok s Hs. rewrite et_tuple. simpl in Hok. destruct s as [sp x|sp xs|sp es].
    + leaf_err Hs.
    + rewrite ds_tuple, strip_arr, dv_tuple. destruct (all_spans_arr _ _ Hs) as [_ Hxs].
      apply (relR_rmap (fun r r' => Forall2 ER (fst r) (fst r')) ER);
        [|intros r r' Hl; unfold ER; simpl; rewrite (Forall2_ER_map _ _ Hl); reflexivity].
      apply (pos_lockstep (fun t => t) (fun t => t) erase_ty (fun a => eq_refl) ts xs (lock_Forall ts H Hok) Hxs).
    + simpl. exact I.
  - (* YMap *) intros Hok s Hs. simpl in Hok. apply andb_true_iff in Hok as [Hok Hv]. apply andb_true_iff in Hok as [Hk _].
    change (erase_ty (YMap t1 t2)) with (TMap (erase_ty t1) (erase_ty t2)). destruct s as [sp x|sp xs|sp es].
    + leaf_err Hs.
    + simpl. exact I.
    + rewrite ds_map, strip_tab, dv_map. destruct (all_spans_tab _ _ Hs) as [_ Hes].
      apply (relR_rmap (Forall2 ERp) ER).
      * unfold sde_entries, de_entries, strip_entries. apply relR_mapM. eapply Forall_impl; [|exact Hes].
        intros [[k ksp] y] [Hksp Hy]. simpl in *. destruct (has_span_some _ Hksp) as (a & b & ->).
        apply (relR_rbind ER); [apply key_lockstep; exact Hk|]. intros kx kv Ek.
        apply (relR_rmap ER ERp); [apply IHt2; assumption|]. intros vx vv Ev. split; assumption.
      * intros ps qs Hpq. unfold ER. simpl. rewrite xmap_of_pairs_erase. rewrite (Forall2_ERp_map _ _ Hpq). reflexivity.
  - (* YStruct *) intros Hok s Hs. rewrite et_struct. simpl in Hok. pose proof (lock_fields fs H Hok) as Hfs.
    destruct s as [sp x|sp xs|sp es].
    + apply all_spans_leaf in Hs. simpl. destruct (private_name n); [exact I|]. destruct x; try discriminate Hs; simpl; exact I.
    + rewrite ds_struct_arr, strip_arr, dv_struct_arr. destruct (private_name n); [exact I|].
      destruct (all_spans_arr _ _ Hs) as [_ Hxs].
      apply (relR_rmap (fun r r' => Forall2 ER (fst r) (fst r')) ER);
        [|intros r r' Hl; unfold ER; simpl; rewrite (Forall2_ER_map _ _ Hl); reflexivity].
      apply (pos_lockstep (fun ft : bytes * sty => snd ft) (fun ft : bytes * ty => snd ft) (fun ft => (fst ft, erase_ty (snd ft)))
                          (fun a => eq_refl) fs xs (field_hyp_pos fs Hfs) Hxs).
    + rewrite ds_struct_tab, strip_tab, dv_struct. destruct (private_name n); [exact I|].
      destruct (all_spans_tab _ _ Hs) as [_ Hes].
      apply (relR_rmap (Forall2 ER) ER); [apply struct_map_lockstep; assumption|].
      intros l l' Hl. unfold ER. simpl. rewrite (Forall2_ER_map _ _ Hl). reflexivity.
  - (* YNewtype *) intros Hok s Hs. rewrite ds_newtype. change (erase_ty (YNewtype n t)) with (TNewtype n (erase_ty t)). rewrite dv_newtype.
    apply (relR_rmap ER ER); [apply IHt; assumption|]. intros x v E. unfold ER in *. simpl. rewrite E. reflexivity.
  - (* YTupleStruct *) intros Hok s Hs. change (erase_ty (YTupleStruct n ts)) with (TTupleStruct n (map erase_ty ts)). simpl in Hok.
    destruct s as [sp x|sp xs|sp es].
    + leaf_err Hs.
    + rewrite ds_tuple_struct, strip_arr, dv_tuple_struct. destruct (all_spans_arr _ _ Hs) as [_ Hxs].
      apply (relR_rmap (fun r r' => Forall2 ER (fst r) (fst r')) ER);
        [|intros r r' Hl; unfold ER; simpl; rewrite (Forall2_ER_map _ _ Hl); reflexivity].
      apply (pos_lockstep (fun t => t) (fun t => t) erase_ty (fun a => eq_refl) ts xs (lock_Forall ts H Hok) Hxs).
    + simpl. exact I.
  - (* YEnum *) intros Hok s Hs. rewrite et_enum. simpl in Hok. destruct s as [sp x|sp xs|sp es].
    + apply all_spans_leaf in Hs. destruct x; try discriminate Hs; try (simpl; exact I).
      rewrite ds_enum_str. simpl strip. rewrite dv_enum_str, find_name_map. apply find_name_rel.
      apply Forall_forall. intros [vn var] _ i. simpl. destruct var; simpl; try exact I. reflexivity.
    + simpl. exact I.
    + destruct es as [|[[k ksp] y] [|e2 es]]; try (simpl; exact I).
      rewrite ds_enum_tab. simpl strip. rewrite dv_enum_tab, find_name_map.
      destruct (all_spans_tab _ _ Hs) as [_ Hes]. inversion Hes as [|? ? [_ Hy] _]; subst. simpl in Hy.
      apply find_name_rel. rewrite forallb_forall in Hok. rewrite Forall_forall in *. intros [vn var] Hin i. simpl.
      apply (relR_rmap ER ER); [apply (H (vn, var) Hin (Hok (vn, var) Hin) y Hy)|].
      intros px pv E. unfold ER in *. simpl. rewrite E. reflexivity.
  - (* YVUnit *) intros _ y Hy. simpl. rewrite (empty_strip y Hy). destruct (sempty_container y); simpl; [reflexivity|exact I].
  - (* YVNewtype *) intros Hok y Hy. rewrite dps_newtype. simpl erase_variant. rewrite dp_newtype. apply IHt; assumption.
  - (* YVTuple *) intros Hok y Hy. simpl in Hok. change (erase_variant (YVTuple ts)) with (VTuple (map erase_ty ts)).
    destruct y as [sp x|sp xs|sp es].
    + leaf_err Hy.
    + rewrite dps_tuple_arr, strip_arr, dp_tuple. rewrite !map_length. destruct (Nat.eqb (length xs) (length ts)); [|exact I].
      destruct (all_spans_arr _ _ Hy) as [_ Hxs].
      apply (relR_rmap (fun r r' => Forall2 ER (fst r) (fst r')) ER);
        [|intros r r' Hl; unfold ER; simpl; rewrite (Forall2_ER_map _ _ Hl); reflexivity].
      apply (pos_lockstep (fun t => t) (fun t => t) erase_ty (fun a => eq_refl) ts xs (lock_Forall ts H Hok) Hxs).
    + rewrite dps_tuple_tab, strip_tab, dp_tuple_tab, index_keys_strip. destruct (all_spans_tab _ _ Hy) as [_ Hes].
      destruct (sindex_keys 0 es) as [xs|] eqn:E; simpl; [|exact I].
      rewrite !map_length. destruct (Nat.eqb (length xs) (length ts)); [|exact I].
      apply (relR_rmap (fun r r' => Forall2 ER (fst r) (fst r')) ER);
        [|intros r r' Hl; unfold ER; simpl; rewrite (Forall2_ER_map _ _ Hl); reflexivity].
      apply (pos_lockstep (fun t => t) (fun t => t) erase_ty (fun a => eq_refl) ts xs (lock_Forall ts H Hok)
                          (sindex_keys_spans es Hes 0 xs E)).
  - (* YVStruct *) intros Hok y Hy. simpl in Hok. pose proof (lock_fields fs H Hok) as Hfs.
    change (erase_variant (YVStruct fs)) with (VStruct (map (fun ft => (fst ft, erase_ty (snd ft))) fs)).
    destruct y as [sp x|sp xs|sp es].
    + apply all_spans_leaf in Hy. destruct x; try discriminate Hy; simpl; exact I.
    + rewrite dps_struct_arr, strip_arr, dp_struct_arr. destruct (all_spans_arr _ _ Hy) as [_ Hxs].
      apply (relR_rmap (fun r r' => Forall2 ER (fst r) (fst r')) ER);
        [|intros r r' Hl; unfold ER; simpl; rewrite (Forall2_ER_map _ _ Hl); reflexivity].
      apply (pos_lockstep (fun ft : bytes * sty => snd ft) (fun ft : bytes * ty => snd ft) (fun ft => (fst ft, erase_ty (snd ft)))
                          (fun a => eq_refl) fs xs (field_hyp_pos fs Hfs) Hxs).
    + rewrite dps_struct_tab, strip_tab, dp_struct. destruct (all_spans_tab _ _ Hy) as [_ Hes].
      rewrite map_map. simpl. replace (map (fun x : bytes * sty => fst x) fs) with (map fst fs) by reflexivity.
      rewrite keys_ok_strip. destruct (sstruct_keys_ok (map fst fs) es); [|exact I].
      apply (relR_rmap (Forall2 ER) ER); [apply struct_map_lockstep; assumption|].
      intros l l' Hl. unfold ER. simpl. rewrite (Forall2_ER_map _ _ Hl). reflexivity.
Qed.
