(* Proofs/AccessorsTomlSpec.v — toml::Value's read API (Model/AccessorsToml.v) on EVERY value. *)
From TV Require Import Base.Prelude Model.Datetime Spec.SerdeData Extract.Show Model.Accessors Model.AccessorsToml Proofs.AccessorsSpec.
Require Import String Lia.

Lemma tv_kind_exclusive v :
  count_true [tv_is_str v; tv_is_integer v; tv_is_float v; tv_is_bool v; tv_is_datetime v; tv_is_array v; tv_is_table v] = 1.
Proof. destruct v; reflexivity. Qed.

(* same_type is exactly "same type name", hence an equivalence with the seven kinds as its classes *)
Lemma tv_same_type_spec a b : tv_same_type a b = true <-> tv_type_str a = tv_type_str b.
Proof. destruct a, b; vm_compute; split; intro H; try reflexivity; discriminate H. Qed.
Lemma tv_same_type_refl a : tv_same_type a a = true.
Proof. apply tv_same_type_spec. reflexivity. Qed.
Lemma tv_same_type_sym a b : tv_same_type a b = tv_same_type b a.
Proof. unfold tv_same_type. apply N.eqb_sym. Qed.
Lemma tv_same_type_trans a b c : tv_same_type a b = true -> tv_same_type b c = true -> tv_same_type a c = true.
Proof. rewrite !tv_same_type_spec. congruence. Qed.
(* ... and the flags are same_type against one probe per kind *)
Lemma tv_flags_are_same_type v :
  map (tv_same_type v) tv_probes
  = [tv_is_str v; tv_is_integer v; tv_is_float v; tv_is_bool v; tv_is_datetime v; tv_is_array v; tv_is_table v].
Proof. destruct v; reflexivity. Qed.

(* every downcast answers exactly on its own constructor, with the stored payload *)
Lemma tv_as_spec v :
  (forall s, tv_as_str v = Some s <-> v = VStr s) /\ (forall z, tv_as_integer v = Some z <-> v = VInt z)
  /\ (forall b, tv_as_float v = Some b <-> v = VFloat b) /\ (forall b, tv_as_bool v = Some b <-> v = VBool b)
  /\ (forall d, tv_as_datetime v = Some d <-> v = VDatetime d) /\ (forall xs, tv_as_array v = Some xs <-> v = VArr xs)
  /\ (forall es, tv_as_table v = Some es <-> v = VTab es).
Proof. destruct v; cbn; repeat split; intro H; try discriminate H; inversion H; reflexivity. Qed.

Lemma tv_type_str_flags v :
  (tv_type_str v = str "string" <-> tv_is_str v = true) /\ (tv_type_str v = str "integer" <-> tv_is_integer v = true)
  /\ (tv_type_str v = str "float" <-> tv_is_float v = true) /\ (tv_type_str v = str "boolean" <-> tv_is_bool v = true)
  /\ (tv_type_str v = str "datetime" <-> tv_is_datetime v = true) /\ (tv_type_str v = str "array" <-> tv_is_array v = true)
  /\ (tv_type_str v = str "table" <-> tv_is_table v = true).
Proof. destruct v; vm_compute; repeat split; intro H; try reflexivity; discriminate H. Qed.

(* lookups: the i-th element / the entry under the key, None one past the end / on any other kind *)
Lemma tv_index_usize_spec xs i : tv_index_usize i (VArr xs) = nth_error xs i.
Proof. reflexivity. Qed.
Lemma tv_index_usize_end xs : tv_index_usize (List.length xs) (VArr xs) = None.
Proof. cbn. apply nth_error_None. lia. Qed.
Lemma tv_index_usize_other v i : tv_is_array v = false -> tv_index_usize i v = None.
Proof. destruct v; cbn; intro H; try reflexivity; discriminate H. Qed.
Lemma tv_index_str_other v k : tv_is_table v = false -> tv_index_str k v = None.
Proof. destruct v; cbn; intro H; try reflexivity; discriminate H. Qed.
Lemma tv_map_get_iter es k v : NoDup (map fst es) -> In (k, v) es -> tv_map_get es k = Some v.
Proof.
  induction es as [|[k0 v0] tl IH]; intros Hnd Hin; [destruct Hin|].
  cbn [tv_map_get]. inversion Hnd as [|? ? Hnotin Hnd']; subst. destruct Hin as [Heq|Hin].
  - inversion Heq; subst. rewrite bytes_eqb_refl. reflexivity.
  - destruct (bytes_eqb k0 k) eqn:E.
    + apply bytes_eqb_eq in E. subst. exfalso. apply Hnotin. apply (in_map fst tl (k, v)). exact Hin.
    + apply IH; assumption.
Qed.
Lemma tv_index_str_iter es k v : NoDup (map fst es) -> In (k, v) es -> tv_index_str k (VTab es) = Some v.
Proof. intros. cbn. apply tv_map_get_iter; assumption. Qed.

(* ---- double-ended reading (map.rs delegate_iterator!: next / next_back on one iterator) ----------------------------
   alternating next() / next_back() hands out every entry exactly once: the sequence read is a permutation of the
   forward sequence (and its first element is the first entry) *)
Require Import Permutation.
Lemma alternate_perm fuel (l : list bytes) : List.length l < fuel -> Permutation (alternate fuel l) l.
Proof.
  revert l. induction fuel as [|f IH]; intros l Hl; [lia|].
  destruct l as [|x tl]; [constructor|]. cbn [alternate].
  destruct (rev tl) as [|y rtl] eqn:E.
  - assert (tl = []) as -> by (apply (f_equal (@rev bytes)) in E; rewrite rev_involutive in E; exact E). constructor. constructor.
  - assert (Htl : tl = rev rtl ++ [y]) by (apply (f_equal (@rev bytes)) in E; rewrite rev_involutive in E; cbn in E; exact E).
    subst tl. constructor.
    apply Permutation_trans with (y :: rev rtl); [|apply Permutation_cons_append].
    constructor. apply IH. cbn [List.length] in Hl. rewrite app_length in Hl. cbn in Hl. lia.
Qed.
Lemma alternate_reads_all (l : list bytes) : Permutation (alternate (S (List.length l)) l) l.
Proof. apply alternate_perm. lia. Qed.
Lemma back_is_reverse (es : list (bytes * tomlval)) :
  rev (rev (List.map fst es)) = List.map fst es.
Proof. apply rev_involutive. Qed.
