(* Proofs/GrammarSep.v — winnow's `separated(0.., p, sep)` / `separated(1.., p, sep)` without
   fuel: `seps p sep i l i'` says that starting at i (just after an element) the loop reads
   separator-element pairs producing l and stops at i', either because the separator fails
   or because the element after a separator fails softly — in which case the input is RESET
   TO BEFORE THAT SEPARATOR (the semantics that lets `[1, 2, ]` keep its trailing comma for
   a later `opt(',')`, and makes `{a = 1,}` fail at the comma). *)
From TV Require Import Base.Prelude Base.Utf8 Base.Winnow.
From TV Require Import Proofs.LexEquivBase.
Require Import Lia.

Section Seps.
  Context {A Sp : Type}.
  Variable p : parser A.
  Variable sep : parser Sp.

  Inductive seps : input -> list A -> input -> Prop :=
  | seps_stop_sep i : fails sep i -> seps i [] i
  | seps_stop_elem i x i1 :
      sep i = Ok x i1 -> length (rest i1) < length (rest i) -> fails p i1 -> seps i [] i
  | seps_cons i x i1 a i2 l i3 :
      sep i = Ok x i1 -> length (rest i1) < length (rest i) ->
      p i1 = Ok a i2 -> length (rest i2) <= length (rest i1) ->
      seps i2 l i3 -> seps i (a :: l) i3.

  Lemma separated_loop_seps i l i' : seps i l i' ->
    forall fuel acc, length (rest i) < fuel -> separated_loop fuel p sep acc i = Ok (rev acc ++ l) i'.
  Proof.
    induction 1 as [i (e & j & F)|i x i1 E Hlt (e & j & F)|i x i1 a i2 l i3 E Hlt E2 Hle R IH];
      intros fuel acc Hf; (destruct fuel as [|fuel]; [lia|]); cbn [separated_loop].
    - rewrite F, app_nil_r. reflexivity.
    - rewrite E. destruct (Nat.eqb (length (rest i1)) (length (rest i))) eqn:Q; [apply Nat.eqb_eq in Q; lia|].
      rewrite F, app_nil_r. reflexivity.
    - rewrite E. destruct (Nat.eqb (length (rest i1)) (length (rest i))) eqn:Q; [apply Nat.eqb_eq in Q; lia|].
      rewrite E2. rewrite IH by lia. cbn [rev]. rewrite <- app_assoc. reflexivity.
  Qed.

  Lemma separated_loop_inv : shrinking p -> shrinking sep ->
    forall fuel acc i l i', separated_loop fuel p sep acc i = Ok l i' ->
    exists l', l = rev acc ++ l' /\ seps i l' i'.
  Proof.
    intros Hp Hs. induction fuel as [|fuel IH]; intros acc i l i' H; cbn [separated_loop] in H; [discriminate|].
    destruct (sep i) as [x i1|e j|e j|s] eqn:E; try discriminate.
    - destruct (Nat.eqb (length (rest i1)) (length (rest i))) eqn:Q; [discriminate|].
      apply Nat.eqb_neq in Q. pose proof (Hs _ _ _ E) as Hle.
      destruct (p i1) as [a i2|e j|e j|s] eqn:E2; try discriminate.
      + apply IH in H as (l' & -> & R). exists (a :: l'). split.
        * cbn [rev]. rewrite <- app_assoc. reflexivity.
        * eapply seps_cons; [exact E|lia|exact E2|eapply Hp, E2|exact R].
      + injection H as <- <-. exists []. split; [rewrite app_nil_r; reflexivity|].
        eapply seps_stop_elem; [exact E|lia|]. exists e, j. exact E2.
    - injection H as <- <-. exists []. split; [rewrite app_nil_r; reflexivity|].
      apply seps_stop_sep. exists e, j. exact E.
  Qed.

  (* separated(0.., p, sep) *)
  Lemma separated0_nil i : fails p i -> separated0 p sep i = Ok [] i.
  Proof. intros (e & j & F). unfold separated0. rewrite F. reflexivity. Qed.

  Lemma separated0_cons i a i1 l i' :
    p i = Ok a i1 -> seps i1 l i' -> separated0 p sep i = Ok (a :: l) i'.
  Proof.
    intros E R. unfold separated0. rewrite E. rewrite (separated_loop_seps i1 l i' R) by lia. reflexivity.
  Qed.

  Lemma separated0_inv i l i' : shrinking p -> shrinking sep -> separated0 p sep i = Ok l i' ->
    (l = [] /\ i' = i /\ fails p i) \/
    (exists a i1 l', l = a :: l' /\ p i = Ok a i1 /\ seps i1 l' i').
  Proof.
    intros Hp Hs H. unfold separated0 in H. destruct (p i) as [a i1|e j|e j|s] eqn:E; try discriminate.
    - right. apply (separated_loop_inv Hp Hs) in H as (l' & -> & R). exists a, i1, l'. auto.
    - injection H as <- <-. left. split; [reflexivity|]. split; [reflexivity|]. exists e, j. exact E.
  Qed.

  (* separated(1.., p, sep) *)
  Lemma separated1_cons i a i1 l i' :
    p i = Ok a i1 -> seps i1 l i' -> separated1 p sep i = Ok (a :: l) i'.
  Proof.
    intros E R. unfold separated1. rewrite E. rewrite (separated_loop_seps i1 l i' R) by lia. reflexivity.
  Qed.

  Lemma separated1_fails i : fails p i -> fails (separated1 p sep) i.
  Proof. intros (e & j & F). unfold fails, separated1. rewrite F. eauto. Qed.

  Lemma separated1_inv i l i' : shrinking p -> shrinking sep -> separated1 p sep i = Ok l i' ->
    exists a i1 l', l = a :: l' /\ p i = Ok a i1 /\ seps i1 l' i'.
  Proof.
    intros Hp Hs H. unfold separated1 in H. destruct (p i) as [a i1|e j|e j|s] eqn:E; try discriminate.
    apply (separated_loop_inv Hp Hs) in H as (l' & -> & R). exists a, i1, l'. auto.
  Qed.

  (* committed failures: the loop commits only if the separator or an element does *)
  Lemma separated_loop_cut : forall fuel acc i e j, separated_loop fuel p sep acc i = Cut e j ->
    exists i0, (sep i0 = Cut e j) \/ (p i0 = Cut e j).
  Proof.
    induction fuel as [|fuel IH]; intros acc i e j H; cbn [separated_loop] in H; [discriminate|].
    destruct (sep i) as [x i1|e' j'|e' j'|s] eqn:E; try discriminate.
    - destruct (Nat.eqb (length (rest i1)) (length (rest i))); [discriminate|].
      destruct (p i1) as [a i2|e' j'|e' j'|s] eqn:E2; try discriminate.
      + eapply IH, H.
      + injection H as <- <-. exists i1. right. exact E2.
    - injection H as <- <-. exists i. left. exact E.
  Qed.
End Seps.

(* the relation only depends on the behaviour of p and sep *)
Lemma seps_ext {A Sp} (p q : parser A) (sep : parser Sp) i l i' :
  (forall j, length (rest j) <= length (rest i) -> p j = q j) -> seps p sep i l i' -> seps q sep i l i'.
Proof.
  intros Hq R. induction R as [i F|i x i1 E Hlt (e & j & F)|i x i1 a i2 l i3 E Hlt E2 Hle R IH].
  - apply seps_stop_sep, F.
  - eapply seps_stop_elem; [exact E|exact Hlt|]. exists e, j. rewrite <- Hq by lia. exact F.
  - eapply seps_cons; [exact E|exact Hlt|rewrite <- Hq by lia; exact E2|exact Hle|].
    apply IH. intros j Hj. apply Hq. lia.
Qed.

(* ---- committed failures inside the loop ------------------------------------------------------------ *)
Definition cuts {A} (p : parser A) (i : input) : Prop := exists e j, p i = Cut e j.

Section SepsCut.
  Context {A Sp : Type}.
  Variable p : parser A.
  Variable sep : parser Sp.

  (* starting at i (just after an element) the loop reads separator-element pairs and then an
     element fails with commitment *)
  Inductive seps_cut : input -> Prop :=
  | sc_elem i x i1 : sep i = Ok x i1 -> length (rest i1) < length (rest i) -> cuts p i1 -> seps_cut i
  | sc_next i x i1 a i2 :
      sep i = Ok x i1 -> length (rest i1) < length (rest i) ->
      p i1 = Ok a i2 -> length (rest i2) <= length (rest i1) -> seps_cut i2 -> seps_cut i.

  Lemma separated_loop_cuts i : seps_cut i ->
    forall fuel acc, length (rest i) < fuel -> exists e j, separated_loop fuel p sep acc i = Cut e j.
  Proof.
    induction 1 as [i x i1 E Hlt (e & j & F)|i x i1 a i2 E Hlt E2 Hle R IH]; intros fuel acc Hf;
      (destruct fuel as [|fuel]; [lia|]); cbn [separated_loop]; rewrite E;
      (destruct (Nat.eqb (length (rest i1)) (length (rest i))) eqn:Q; [apply Nat.eqb_eq in Q; lia|]).
    - rewrite F. eauto.
    - rewrite E2. apply IH. lia.
  Qed.

  Lemma separated0_cuts_first i : cuts p i -> cuts (separated0 p sep) i.
  Proof. intros (e & j & F). unfold cuts, separated0. rewrite F. eauto. Qed.

  Lemma separated0_cuts_loop i a i1 : p i = Ok a i1 -> seps_cut i1 -> cuts (separated0 p sep) i.
  Proof. intros E R. unfold cuts, separated0. rewrite E. apply (separated_loop_cuts i1 R). lia. Qed.
End SepsCut.

(* propagation of committed failures through the sequencing combinators *)
Lemma cuts_bind {A B} (p : parser A) (f : A -> parser B) i : cuts p i -> cuts (bind p f) i.
Proof. intros (e & j & F). unfold cuts, bind. rewrite F. eauto. Qed.
Lemma cuts_bind_ok {A B} (p : parser A) (f : A -> parser B) i a i' : p i = Ok a i' -> cuts (f a) i' -> cuts (bind p f) i.
Proof. intros E (e & j & F). unfold cuts, bind. rewrite E, F. eauto. Qed.
Lemma cuts_pmap {A B} (f : A -> B) (p : parser A) i : cuts p i -> cuts (pmap f p) i.
Proof. intros (e & j & F). unfold cuts, pmap. rewrite F. eauto. Qed.
Lemma cuts_cut_err {A} (p : parser A) i : cuts p i -> cuts (cut_err p) i.
Proof. intros (e & j & F). unfold cuts, cut_err. rewrite F. eauto. Qed.
Lemma cuts_cut_err_fails {A} (p : parser A) i : fails p i -> cuts (cut_err p) i.
Proof. intros (e & j & F). unfold cuts, cut_err. rewrite F. eauto. Qed.
Lemma cuts_context {A} (p : parser A) i : cuts p i -> cuts (context p) i.
Proof. intros (e & j & F). unfold cuts, context. rewrite F. eauto. Qed.
Lemma cuts_alt_l {A} (p q : parser A) i : cuts p i -> cuts (alt p q) i.
Proof. intros (e & j & F). unfold cuts, alt. rewrite F. eauto. Qed.
Lemma cuts_alt_r {A} (p q : parser A) i : fails p i -> cuts q i -> cuts (alt p q) i.
Proof. intros (e & j & F) Hq. unfold cuts, alt. rewrite F. exact Hq. Qed.
Lemma cuts_with_span {A} (p : parser A) i : cuts p i -> cuts (with_span p) i.
Proof. intros (e & j & F). unfold cuts, with_span. rewrite F. eauto. Qed.
Lemma cuts_try_map {A B} (f : A -> tm B) (p : parser A) i : cuts p i -> cuts (try_map f p) i.
Proof. intros (e & j & F). unfold cuts, try_map. rewrite F. eauto. Qed.
Lemma fails_try_map_err {A B} (f : A -> tm B) (p : parser A) i a i' c : p i = Ok a i' -> f a = TmErr c -> fails (try_map f p) i.
Proof. intros E F. unfold fails, try_map. rewrite E, F. eauto. Qed.
Lemma cuts_not_ok {A} (p : parser A) i a i' : cuts p i -> p i <> Ok a i'.
Proof. intros (e & j & F). rewrite F. discriminate. Qed.
