(* Proofs/SerdeRTFmt.v — C07: the post-processors of the document routes (root conversion, toml_edit's
   Pretty visitor, toml's DocumentFormatter; Model/SerFmt.v) do not change the value the document
   denotes and leave tables only where the printer can write a header. *)
From TV Require Import Base.Prelude Spec.SerdeData Model.SerFmt.

(* ---- induction principles for the nested types ---- *)
Section ItemInd.
  Variable P : item -> Prop.
  Hypothesis HLeaf : forall x, P (ILeaf x).
  Hypothesis HArr : forall xs, Forall P xs -> P (IArr xs).
  Hypothesis HInl : forall es, Forall (fun kx => P (snd kx)) es -> P (IInl es).
  Hypothesis HTab : forall es, Forall (fun kx => P (snd kx)) es -> P (ITab es).
  Hypothesis HAot : forall ts, Forall P ts -> P (IAot ts).
  Fixpoint item_ind2 (it : item) : P it :=
    match it with
    | ILeaf x => HLeaf x
    | IArr xs => HArr xs ((fix go (l : list item) : Forall P l :=
                             match l with [] => Forall_nil _ | x :: l' => Forall_cons x (item_ind2 x) (go l') end) xs)
    | IInl es => HInl es ((fix go (l : list (bytes * item)) : Forall (fun kx => P (snd kx)) l :=
                             match l with
                             | [] => Forall_nil _
                             | x :: l' => Forall_cons x (match x return P (snd x) with (_, y) => item_ind2 y end) (go l')
                             end) es)
    | ITab es => HTab es ((fix go (l : list (bytes * item)) : Forall (fun kx => P (snd kx)) l :=
                             match l with
                             | [] => Forall_nil _
                             | x :: l' => Forall_cons x (match x return P (snd x) with (_, y) => item_ind2 y end) (go l')
                             end) es)
    | IAot ts => HAot ts ((fix go (l : list item) : Forall P l :=
                             match l with [] => Forall_nil _ | x :: l' => Forall_cons x (item_ind2 x) (go l') end) ts)
    end.
End ItemInd.

Section TvInd.
  Variable P : tomlval -> Prop.
  Hypothesis HStr : forall s, P (VStr s).
  Hypothesis HInt : forall z, P (VInt z).
  Hypothesis HFloat : forall b, P (VFloat b).
  Hypothesis HBool : forall b, P (VBool b).
  Hypothesis HDt : forall d, P (VDatetime d).
  Hypothesis HArr : forall xs, Forall P xs -> P (VArr xs).
  Hypothesis HTab : forall es, Forall (fun kx => P (snd kx)) es -> P (VTab es).
  Fixpoint tomlval_ind2 (x : tomlval) : P x :=
    match x with
    | VStr s => HStr s | VInt z => HInt z | VFloat b => HFloat b | VBool b => HBool b | VDatetime d => HDt d
    | VArr xs => HArr xs ((fix go (l : list tomlval) : Forall P l :=
                             match l with [] => Forall_nil _ | y :: l' => Forall_cons y (tomlval_ind2 y) (go l') end) xs)
    | VTab es => HTab es ((fix go (l : list (bytes * tomlval)) : Forall (fun kx => P (snd kx)) l :=
                             match l with
                             | [] => Forall_nil _
                             | y :: l' => Forall_cons y (match y return P (snd y) with (_, z) => tomlval_ind2 z end) (go l')
                             end) es)
    end.
End TvInd.

Lemma map_ext_Forall {A B} (f g : A -> B) l : Forall (fun a => f a = g a) l -> map f l = map g l.
Proof. induction 1; simpl; congruence. Qed.
Lemma forallb_map_Forall {A B} (f : B -> bool) (g : A -> B) l : Forall (fun a => f (g a) = true) l -> forallb f (map g l) = true.
Proof. induction 1; simpl; [reflexivity|]. rewrite H, IHForall. reflexivity. Qed.

(* ---- what ValueSerializer builds ---- *)
Lemma abs_emb x : abs (emb x) = x.
Proof.
  induction x using tomlval_ind2; try reflexivity; simpl.
  - f_equal. rewrite map_map. rewrite <- (map_id xs) at 2. apply map_ext_Forall. exact H.
  - f_equal. rewrite map_map. rewrite <- (map_id es) at 2. apply map_ext_Forall.
    eapply Forall_impl; [|exact H]. intros [k y] Hy. simpl in *. rewrite Hy. reflexivity.
Qed.

Lemma pure_emb x : pure_value (emb x) = true.
Proof.
  induction x using tomlval_ind2; try reflexivity; simpl.
  - apply forallb_map_Forall. exact H.
  - apply forallb_map_Forall. exact H.
Qed.

(* ---- unfolding equations ---- *)
Definition aot_cond (xs : list item) : bool :=
  (match xs with [] => false | _ => true end)
  && forallb (fun e => match e with IInl _ => true | ILeaf _ | IArr _ => false | ITab _ | IAot _ => true end) xs.
Definition pretty_elem (iv : bool) (e : item) : item :=
  match e with
  | IInl es => ITab (map (fun kx => (fst kx, pretty_item iv (snd kx))) es)
  | ITab es => ITab (map (fun kx => (fst kx, pretty_item iv (snd kx))) es)
  | other => other end.
Lemma pretty_arr iv xs : pretty_item iv (IArr xs) =
  if negb iv && aot_cond xs then IAot (map (pretty_elem iv) xs)
  else IArr (map (fun e => if is_value e then pretty_item true e else e) xs).
Proof. unfold aot_cond. rewrite andb_assoc. reflexivity. Qed.
Lemma pretty_inl iv es : pretty_item iv (IInl es) =
  if negb iv then ITab (map (fun kx => (fst kx, pretty_item iv (snd kx))) es)
  else IInl (map (fun kx => (fst kx, pretty_item true (snd kx))) es).
Proof. reflexivity. Qed.
Lemma pretty_tab iv es : pretty_item iv (ITab es) = ITab (map (fun kx => (fst kx, pretty_item iv (snd kx))) es).
Proof. reflexivity. Qed.
Definition pretty_tab_elem (iv : bool) (e : item) : item :=
  match e with ITab es => ITab (map (fun kx => (fst kx, pretty_item iv (snd kx))) es) | other => other end.
Lemma pretty_aot iv ts : pretty_item iv (IAot ts) = IAot (map (pretty_tab_elem iv) ts).
Proof. reflexivity. Qed.

Definition fmt_elem (e : item) : item :=
  match e with
  | IInl es => ITab (map (fun kx => (fst kx, fmt_item false (snd kx))) es)
  | ITab es => ITab (map (fun kx => (fst kx, fmt_item false (snd kx))) es)
  | other => other end.
Lemma fmt_arr isv xs : fmt_item isv (IArr xs) =
  if negb isv && aot_cond xs then IAot (map fmt_elem xs)
  else IArr (map (fun e => if is_value e then fmt_value e else e) xs).
Proof. unfold aot_cond. rewrite andb_assoc. reflexivity. Qed.
Lemma fmt_inl isv es : fmt_item isv (IInl es) =
  if negb isv then ITab (map (fun kx => (fst kx, fmt_item false (snd kx))) es)
  else IInl (map (fun kx => (fst kx, fmt_item true (snd kx))) es).
Proof. reflexivity. Qed.
Lemma fmt_tab isv es : fmt_item isv (ITab es) = ITab (map (fun kx => (fst kx, fmt_item isv (snd kx))) es).
Proof. destruct isv; reflexivity. Qed.
Definition fmt_tab_elem (isv : bool) (e : item) : item :=
  match e with ITab es => ITab (map (fun kx => (fst kx, fmt_item isv (snd kx))) es) | other => other end.
Lemma fmt_aot isv ts : fmt_item isv (IAot ts) = IAot (map (fmt_tab_elem isv) ts).
Proof. destruct isv; reflexivity. Qed.
Lemma fmtv_arr xs : fmt_value (IArr xs) = IArr (map (fun e => if is_value e then fmt_value e else e) xs).
Proof. reflexivity. Qed.
Lemma fmtv_inl es : fmt_value (IInl es) = IInl (map (fun kx => (fst kx, fmt_item true (snd kx))) es).
Proof. reflexivity. Qed.

Lemma abs_entries (f : item -> item) es :
  Forall (fun kx : bytes * item => abs (f (snd kx)) = abs (snd kx)) es ->
  map (fun kx => (fst kx, abs (snd kx))) (map (fun kx => (fst kx, f (snd kx))) es) = map (fun kx => (fst kx, abs (snd kx))) es.
Proof. intro H. rewrite map_map. apply map_ext_Forall. eapply Forall_impl; [|exact H]. intros [k y] Hy. simpl in *. rewrite Hy. reflexivity. Qed.

(* ---- the value is kept: toml_edit's Pretty ---- *)
Theorem pretty_abs it : forall iv, abs (pretty_item iv it) = abs it /\ abs (pretty_elem iv it) = abs it.
Proof.
  induction it using item_ind2; intro iv.
  - split; reflexivity.
  - split; [|reflexivity]. rewrite pretty_arr. destruct (negb iv && aot_cond xs); simpl; f_equal; rewrite map_map;
      apply map_ext_Forall; (eapply Forall_impl; [|exact H]); intros e He; simpl.
    + apply (He iv).
    + destruct (is_value e); [apply (He true)|reflexivity].
  - assert (E : forall b, map (fun kx => (fst kx, abs (snd kx))) (map (fun kx => (fst kx, pretty_item b (snd kx))) es)
                          = map (fun kx => (fst kx, abs (snd kx))) es).
    { intro b. apply abs_entries. eapply Forall_impl; [|exact H]. intros kx Hk. apply (Hk b). }
    split; [rewrite pretty_inl; destruct (negb iv)|]; simpl; rewrite E; reflexivity.
  - assert (E : forall b, map (fun kx => (fst kx, abs (snd kx))) (map (fun kx => (fst kx, pretty_item b (snd kx))) es)
                          = map (fun kx => (fst kx, abs (snd kx))) es).
    { intro b. apply abs_entries. eapply Forall_impl; [|exact H]. intros kx Hk. apply (Hk b). }
    split; [rewrite pretty_tab|]; simpl; rewrite E; reflexivity.
  - split; [|reflexivity]. rewrite pretty_aot. simpl. f_equal. rewrite map_map. apply map_ext_Forall.
    eapply Forall_impl; [|exact H]. intros e He. destruct e; try reflexivity. apply (He iv).
Qed.

(* ---- the value is kept: toml's DocumentFormatter ---- *)
Theorem fmt_abs it : (forall isv, abs (fmt_item isv it) = abs it) /\ abs (fmt_value it) = abs it /\ abs (fmt_elem it) = abs it.
Proof.
  induction it using item_ind2.
  - split; [|split]; reflexivity.
  - assert (Ev : map abs (map (fun e => if is_value e then fmt_value e else e) xs) = map abs xs).
    { rewrite map_map. apply map_ext_Forall. eapply Forall_impl; [|exact H]. intros e (_ & He & _). destruct (is_value e); [exact He|reflexivity]. }
    split; [|split].
    + intro isv. rewrite fmt_arr. destruct (negb isv && aot_cond xs); simpl; [|rewrite Ev; reflexivity].
      f_equal. rewrite map_map. apply map_ext_Forall. eapply Forall_impl; [|exact H]. intros e (_ & _ & He). exact He.
    + rewrite fmtv_arr. simpl. rewrite Ev. reflexivity.
    + reflexivity.
  - assert (E : forall b, map (fun kx => (fst kx, abs (snd kx))) (map (fun kx => (fst kx, fmt_item b (snd kx))) es)
                          = map (fun kx => (fst kx, abs (snd kx))) es).
    { intro b. apply abs_entries. eapply Forall_impl; [|exact H]. intros kx (Hk & _). apply (Hk b). }
    split; [|split].
    + intro isv. rewrite fmt_inl. destruct (negb isv); simpl; rewrite E; reflexivity.
    + rewrite fmtv_inl. simpl. rewrite E. reflexivity.
    + simpl. rewrite E. reflexivity.
  - assert (E : forall b, map (fun kx => (fst kx, abs (snd kx))) (map (fun kx => (fst kx, fmt_item b (snd kx))) es)
                          = map (fun kx => (fst kx, abs (snd kx))) es).
    { intro b. apply abs_entries. eapply Forall_impl; [|exact H]. intros kx (Hk & _). apply (Hk b). }
    split; [|split].
    + intro isv. rewrite fmt_tab. simpl. rewrite E. reflexivity.
    + reflexivity.
    + simpl. rewrite E. reflexivity.
  - split; [|split]; try reflexivity. intro isv. rewrite fmt_aot. simpl. f_equal. rewrite map_map. apply map_ext_Forall.
    eapply Forall_impl; [|exact H]. intros e (He & _). destruct e; try reflexivity.
    unfold fmt_tab_elem. rewrite <- fmt_tab. apply (He isv).
Qed.

(* ---- tables only where a header can stand ---- *)
Lemma aot_cond_pure xs : aot_cond xs = true -> forallb pure_value xs = true ->
  Forall (fun e => exists es, e = IInl es) xs.
Proof.
  unfold aot_cond. intros H Hp. apply andb_true_iff in H as [_ H]. rewrite forallb_forall in H, Hp.
  apply Forall_forall. intros e Hin. specialize (H e Hin). specialize (Hp e Hin).
  destruct e; try discriminate; eauto.
Qed.

Lemma pure_is_value it : pure_value it = true -> is_value it = true.
Proof. destruct it; simpl; try discriminate; reflexivity. Qed.

Theorem pretty_printable it : pure_value it = true ->
  printable (pretty_item false it) = true /\ pure_value (pretty_item true it) = true.
Proof.
  induction it using item_ind2; intro Hp; try (simpl in Hp; discriminate Hp).
  - split; reflexivity.
  - simpl in Hp. assert (Hel : Forall (fun e => pure_value e = true) xs) by (apply Forall_forall; rewrite forallb_forall in Hp; exact Hp).
    split.
    + rewrite pretty_arr. simpl negb. rewrite andb_true_l. destruct (aot_cond xs) eqn:C.
      * simpl. apply forallb_map_Forall. pose proof (aot_cond_pure xs C Hp) as Hin.
        rewrite Forall_forall in H, Hel, Hin. apply Forall_forall. intros e He.
        destruct (Hin e He) as (es & ->). destruct (H _ He (Hel _ He)) as [Hpr _].
        rewrite pretty_inl in Hpr. simpl in Hpr. simpl. exact Hpr.
      * simpl. apply forallb_map_Forall. rewrite Forall_forall in H, Hel. apply Forall_forall. intros e He.
        rewrite (pure_is_value e (Hel e He)). apply (H e He (Hel e He)).
    + rewrite pretty_arr. simpl. apply forallb_map_Forall. rewrite Forall_forall in H, Hel. apply Forall_forall. intros e He.
      rewrite (pure_is_value e (Hel e He)). apply (H e He (Hel e He)).
  - simpl in Hp. rewrite forallb_forall in Hp. rewrite Forall_forall in H. split; rewrite pretty_inl; simpl;
      apply forallb_map_Forall; apply Forall_forall; intros kx Hk; simpl; apply (H kx Hk (Hp kx Hk)).
Qed.

Theorem fmt_printable it : pure_value it = true ->
  printable (fmt_item false it) = true /\ pure_value (fmt_item true it) = true /\ pure_value (fmt_value it) = true.
Proof.
  induction it using item_ind2; intro Hp; try (simpl in Hp; discriminate Hp).
  - repeat split; reflexivity.
  - simpl in Hp. assert (Hel : Forall (fun e => pure_value e = true) xs) by (apply Forall_forall; rewrite forallb_forall in Hp; exact Hp).
    assert (Hv : forallb pure_value (map (fun e => if is_value e then fmt_value e else e) xs) = true).
    { apply forallb_map_Forall. rewrite Forall_forall in H, Hel. apply Forall_forall. intros e He.
      rewrite (pure_is_value e (Hel e He)). apply (H e He (Hel e He)). }
    repeat split.
    + rewrite fmt_arr. simpl negb. rewrite andb_true_l. destruct (aot_cond xs) eqn:C; [|simpl; exact Hv].
      simpl. apply forallb_map_Forall. pose proof (aot_cond_pure xs C Hp) as Hin.
      rewrite Forall_forall in H, Hel, Hin. apply Forall_forall. intros e He.
      destruct (Hin e He) as (es & ->). destruct (H _ He (Hel _ He)) as [Hpr _].
      rewrite fmt_inl in Hpr. simpl in Hpr. simpl. exact Hpr.
    + rewrite fmt_arr. simpl. exact Hv.
    + rewrite fmtv_arr. simpl. exact Hv.
  - simpl in Hp. rewrite forallb_forall in Hp. rewrite Forall_forall in H.
    repeat split; [rewrite fmt_inl|rewrite fmt_inl|rewrite fmtv_inl]; simpl;
      apply forallb_map_Forall; apply Forall_forall; intros kx Hk; simpl; apply (H kx Hk (Hp kx Hk)).
Qed.

(* ---- the documents of the text / document routes ---- *)
Lemma root_entries_tab es : root_entries (VTab es) = map (fun kx => (fst kx, emb (snd kx))) es.
Proof. reflexivity. Qed.

Lemma abs_root es : map (fun kx => (fst kx, abs (snd kx))) (root_entries (VTab es)) = es.
Proof.
  rewrite root_entries_tab, map_map. rewrite <- (map_id es) at 2. apply map_ext. intros [k x]. simpl. rewrite abs_emb. reflexivity.
Qed.

Lemma pure_root es : Forall (fun kx : bytes * item => pure_value (snd kx) = true) (root_entries (VTab es)).
Proof. rewrite root_entries_tab. apply Forall_forall. intros kx Hin. apply in_map_iff in Hin as ([k x] & <- & _). simpl. apply pure_emb. Qed.

Theorem doc_edit_plain_ok es : abs (doc_edit_plain (VTab es)) = VTab es /\ printable (doc_edit_plain (VTab es)) = true.
Proof.
  unfold doc_edit_plain. split; [simpl; rewrite abs_root; reflexivity|].
  simpl. apply forallb_forall. intros kx Hin. pose proof (pure_root es) as Hp. rewrite Forall_forall in Hp.
  specialize (Hp kx Hin). destruct (snd kx); simpl in *; try discriminate Hp; exact Hp.
Qed.

Theorem doc_edit_pretty_ok es : abs (doc_edit_pretty (VTab es)) = VTab es /\ printable (doc_edit_pretty (VTab es)) = true.
Proof.
  unfold doc_edit_pretty, pretty_doc. split.
  - simpl. rewrite abs_entries; [rewrite abs_root; reflexivity|]. apply Forall_forall. intros kx _. apply pretty_abs.
  - simpl. apply forallb_map_Forall. pose proof (pure_root es) as Hp. eapply Forall_impl; [|exact Hp].
    intros kx Hk. simpl. apply pretty_printable. exact Hk.
Qed.

Theorem doc_toml_ok es : abs (doc_toml (VTab es)) = VTab es /\ printable (doc_toml (VTab es)) = true.
Proof.
  unfold doc_toml, fmt_doc. split.
  - simpl. rewrite abs_entries; [rewrite abs_root; reflexivity|]. apply Forall_forall. intros kx _. apply fmt_abs.
  - simpl. apply forallb_map_Forall. pose proof (pure_root es) as Hp. eapply Forall_impl; [|exact Hp].
    intros kx Hk. simpl. apply fmt_printable. exact Hk.
Qed.
