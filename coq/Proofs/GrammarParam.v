(* Proofs/GrammarParam.v — the definition rules of Spec/Defs.v never inspect the leaf values
   (type parameter V), hence every function of the interpreter commutes with mapping a function
   over the leaves of the tree (`smap` of Proofs/GrammarBase.v): the "free theorem" of
   Spec/Defs.v, proved by hand.  Also: composition / extensionality of `nmap` / `smap`. *)
From TV Require Import Base.Prelude Spec.Defs Proofs.GrammarBase.
From TV Require Import Proofs.DefsEquivKv.
From Coq Require Import List.
Import ListNotations.

Definition rmap {A B} (g : A -> B) (r : Defs.res A) : Defs.res B :=
  match r with ROk a => ROk (g a) | RInvalid => RInvalid | RUndecided => RUndecided end.

(* ---- a proper induction principle for the nested inductive `node` ------------------------------- *)
Section NodeInd.
  Context {V : Type}.
  Variable P : node V -> Prop.
  Hypothesis HV : forall v, P (NVal v).
  Hypothesis HT : forall kd items, Forall (fun kn => P (snd kn)) items -> P (NTab kd items).
  Hypothesis HA : forall es, Forall (Forall (fun kn => P (snd kn))) es -> P (NAot es).

  Fixpoint node_ind' (n : node V) : P n :=
    match n with
    | NVal v => HV v
    | NTab kd items =>
      HT kd items
        ((fix go (l : list (bytes * node V)) : Forall (fun kn => P (snd kn)) l :=
            match l with
            | [] => Forall_nil _
            | kn :: tl => Forall_cons kn (node_ind' (snd kn)) (go tl)
            end) items)
    | NAot es =>
      HA es
        ((fix goe (l : list (list (bytes * node V))) : Forall (Forall (fun kn => P (snd kn))) l :=
            match l with
            | [] => Forall_nil _
            | e :: tl =>
              Forall_cons e
                ((fix go (l : list (bytes * node V)) : Forall (fun kn => P (snd kn)) l :=
                    match l with
                    | [] => Forall_nil _
                    | kn :: tl => Forall_cons kn (node_ind' (snd kn)) (go tl)
                    end) e) (goe tl)
            end) es)
    end.
End NodeInd.

(* ---- composition and extensionality --------------------------------------------------------------- *)
Lemma smap_cons {V W} (f : V -> W) k n tl : smap f ((k, n) :: tl) = (k, nmap f n) :: smap f tl.
Proof. reflexivity. Qed.

Lemma smap_nil {V W} (f : V -> W) : smap f [] = [].
Proof. reflexivity. Qed.

Lemma smap_Forall_eq {V W} (f g : V -> W) t :
  Forall (fun kn => nmap f (snd kn) = nmap g (snd kn)) t -> smap f t = smap g t.
Proof.
  induction 1 as [|[k n] tl Hn _ IH]; [reflexivity|].
  rewrite !smap_cons. cbn [snd] in Hn. rewrite Hn, IH. reflexivity.
Qed.

Lemma smap_smap_Forall {U V W} (g : U -> V) (f : V -> W) (h : U -> W) t :
  Forall (fun kn => nmap f (nmap g (snd kn)) = nmap h (snd kn)) t -> smap f (smap g t) = smap h t.
Proof.
  induction 1 as [|[k n] tl Hn _ IH]; [reflexivity|].
  rewrite !smap_cons. cbn [snd] in Hn. rewrite Hn, IH. reflexivity.
Qed.

Lemma nmap_nmap {U V W} (g : U -> V) (f : V -> W) n : nmap f (nmap g n) = nmap (fun x => f (g x)) n.
Proof.
  induction n as [v|kd items IH|es IH] using node_ind'.
  - reflexivity.
  - rewrite !nmap_tab. f_equal. apply smap_smap_Forall. exact IH.
  - rewrite !nmap_aot. f_equal. rewrite map_map.
    induction IH as [|e tl He _ IHes]; [reflexivity|].
    cbn [map]. rewrite IHes. f_equal. apply smap_smap_Forall. exact He.
Qed.

Lemma smap_smap {U V W} (g : U -> V) (f : V -> W) t : smap f (smap g t) = smap (fun x => f (g x)) t.
Proof.
  apply smap_smap_Forall. apply Forall_forall. intros kn _. apply nmap_nmap.
Qed.

Lemma nmap_ext {V W} (f g : V -> W) n : (forall v, f v = g v) -> nmap f n = nmap g n.
Proof.
  intro Hfg. induction n as [v|kd items IH|es IH] using node_ind'.
  - change (NVal (f v) = NVal (g v)). rewrite Hfg. reflexivity.
  - rewrite !nmap_tab. f_equal. apply smap_Forall_eq. exact IH.
  - rewrite !nmap_aot. f_equal.
    induction IH as [|e tl He _ IHes]; [reflexivity|].
    cbn [map]. rewrite IHes. f_equal. apply smap_Forall_eq. exact He.
Qed.

Lemma smap_ext {V W} (f g : V -> W) t : (forall v, f v = g v) -> smap f t = smap g t.
Proof.
  intro Hfg. apply smap_Forall_eq. apply Forall_forall. intros kn _. apply nmap_ext. exact Hfg.
Qed.

(* ---- the interpreter commutes with smap ------------------------------------------------------------ *)
Section Param.
Context {V W : Type}.
Variable f : V -> W.

Lemma nmap_val v : nmap f (NVal v) = NVal (f v).
Proof. reflexivity. Qed.

Lemma sget_smap t k : sget (smap f t) k = option_map (nmap f) (sget t k).
Proof.
  induction t as [|[k' n] tl IH]; [reflexivity|].
  rewrite smap_cons. cbn [sget]. destruct (bytes_eqb k' k); [reflexivity | exact IH].
Qed.

Lemma sset_smap t k n : sset (smap f t) k (nmap f n) = smap f (sset t k n).
Proof.
  induction t as [|[k' n'] tl IH]; [reflexivity|].
  rewrite smap_cons. cbn [sset]. destruct (bytes_eqb k' k).
  - rewrite smap_cons. reflexivity.
  - rewrite smap_cons, IH. reflexivity.
Qed.

Lemma spush_smap t k n : spush (smap f t) k (nmap f n) = smap f (spush t k n).
Proof. unfold spush, smap. rewrite map_app. reflexivity. Qed.

Lemma sremove_smap t k : sremove (smap f t) k = smap f (sremove t k).
Proof.
  induction t as [|[k' n'] tl IH]; [reflexivity|].
  rewrite smap_cons. cbn [sremove]. destruct (bytes_eqb k' k); [reflexivity|].
  rewrite smap_cons, IH. reflexivity.
Qed.

Lemma at_path_smap p (g : stree V -> Defs.res (stree V)) (g' : stree W -> Defs.res (stree W)) :
  (forall t, g' (smap f t) = rmap (smap f) (g t)) ->
  forall t, at_path p g' (smap f t) = rmap (smap f) (at_path p g t).
Proof.
  intro Hg. induction p as [|k p' IH]; intro t; cbn [at_path]; [apply Hg|].
  rewrite sget_smap. destruct (sget t k) as [[v|kd c|es]|]; cbn [option_map].
  - reflexivity.
  - rewrite nmap_tab, IH. destruct (at_path p' g c) as [c'| |]; cbn [rbind rmap]; [|reflexivity..].
    rewrite <- sset_smap, nmap_tab. reflexivity.
  - rewrite nmap_aot, <- map_rev.
    change (@rev (stree V) es) with (@rev (list (bytes * node V)) es).
    destruct (rev es) as [|e before]; cbn [map]; [reflexivity|].
    rewrite IH. destruct (at_path p' g e) as [e'| |]; cbn [rbind rmap]; [|reflexivity..].
    rewrite <- sset_smap, nmap_aot, map_app, map_rev. reflexivity.
  - replace (at_path p' g' []) with (rmap (smap f) (at_path p' g []))
      by (symmetry; apply (IH [])).
    destruct (at_path p' g []) as [c| |]; cbn [rbind rmap]; [|reflexivity..].
    rewrite <- spush_smap, nmap_tab. reflexivity.
Qed.

Lemma def_table_smap k t : def_table k (smap f t) = rmap (smap f) (def_table k t).
Proof.
  unfold def_table. rewrite sget_smap.
  destruct (sget t k) as [[v|[| |] c|es]|]; cbn [option_map]; try reflexivity.
  - rewrite nmap_tab. cbn [rmap]. rewrite sremove_smap, <- spush_smap, nmap_tab. reflexivity.
  - cbn [rmap]. rewrite <- spush_smap, nmap_tab. reflexivity.
Qed.

Lemma def_elem_smap k t : def_elem k (smap f t) = rmap (smap f) (def_elem k t).
Proof.
  unfold def_elem. rewrite sget_smap.
  destruct (sget t k) as [[v|kd c|es]|]; cbn [option_map]; try reflexivity.
  - rewrite nmap_aot. cbn [rmap]. rewrite <- sset_smap, nmap_aot, map_app. reflexivity.
  - cbn [rmap]. rewrite <- spush_smap, nmap_aot. reflexivity.
Qed.

Lemma insert_kv_smap strict p v t :
  insert_kv strict p (f v) (smap f t) = rmap (smap f) (insert_kv strict p v t).
Proof.
  revert t. induction p as [|k p' IH]; intro t; [reflexivity|].
  destruct p' as [|k2 p''].
  - rewrite !insert_kv_leaf, sget_smap.
    destruct (sget t k) as [n|]; cbn [option_map rmap]; [reflexivity|].
    rewrite <- spush_smap. reflexivity.
  - rewrite !insert_kv_step, sget_smap.
    destruct (sget t k) as [[v0|[| |] c|es]|]; cbn [option_map].
    + reflexivity.
    + rewrite nmap_tab. destruct strict; [reflexivity|].
      destruct p'' as [|k3 p3]; [reflexivity|].
      rewrite IH. destruct (insert_kv false (k2 :: k3 :: p3) v c) as [c'| |]; cbn [rbind rmap]; [|reflexivity..].
      rewrite <- sset_smap, nmap_tab. reflexivity.
    + rewrite nmap_tab. reflexivity.
    + rewrite nmap_tab, IH.
      destruct (insert_kv strict (k2 :: p'') v c) as [c'| |]; cbn [rbind rmap]; [|reflexivity..].
      rewrite <- sset_smap, nmap_tab. reflexivity.
    + rewrite nmap_aot. reflexivity.
    + replace (insert_kv strict (k2 :: p'') (f v) []) with (rmap (smap f) (insert_kv strict (k2 :: p'') v []))
        by (symmetry; apply (IH [])).
      destruct (insert_kv strict (k2 :: p'') v []) as [c| |]; cbn [rbind rmap]; [|reflexivity..].
      rewrite <- spush_smap, nmap_tab. reflexivity.
Qed.

Definition state_map (s : sstate V) : sstate W := (smap f (fst s), snd s).

Lemma spec_step_smap strict s st :
  spec_step strict (state_map s) (stmt_map f st) = rmap state_map (spec_step strict s st).
Proof.
  destruct s as [t cur]. destruct st as [p|p|p v]; cbn [state_map fst snd stmt_map spec_step].
  - destruct (unsnoc p) as [[pre k]|]; [|reflexivity].
    rewrite (at_path_smap pre (def_table k) (def_table k) (def_table_smap k)).
    destruct (at_path pre (def_table k) t) as [t'| |]; reflexivity.
  - destruct (unsnoc p) as [[pre k]|]; [|reflexivity].
    rewrite (at_path_smap pre (def_elem k) (def_elem k) (def_elem_smap k)).
    destruct (at_path pre (def_elem k) t) as [t'| |]; reflexivity.
  - rewrite (at_path_smap cur (insert_kv strict p v) (insert_kv strict p (f v)) (insert_kv_smap strict p v)).
    destruct (at_path cur (insert_kv strict p v) t) as [t'| |]; reflexivity.
Qed.

Lemma spec_fold_smap strict l : forall s,
  spec_fold strict (state_map s) (map (stmt_map f) l) = rmap state_map (spec_fold strict s l).
Proof.
  induction l as [|st tl IH]; intro s; cbn [map spec_fold]; [reflexivity|].
  rewrite spec_step_smap. destruct (spec_step strict s st) as [s'| |]; cbn [rbind rmap]; [|reflexivity..].
  apply IH.
Qed.

Theorem run_smap strict l : run strict (map (stmt_map f) l) = verdict_map f (run strict l).
Proof.
  unfold run. change (@sstate0 W) with (state_map sstate0). rewrite spec_fold_smap.
  destruct (spec_fold strict sstate0 l) as [[t c]| |]; reflexivity.
Qed.

Corollary spec_run_smap l : spec_run (map (stmt_map f) l) = verdict_map f (spec_run l).
Proof. apply run_smap. Qed.

Corollary code_run_smap l : code_run (map (stmt_map f) l) = verdict_map f (code_run l).
Proof. apply run_smap. Qed.

Definition pair_map (pv : list bytes * V) : list bytes * W := (fst pv, f (snd pv)).

Lemma inline_fold_smap l : forall t,
  inline_fold (smap f t) (map pair_map l) = rmap (smap f) (inline_fold t l).
Proof.
  induction l as [|[p v] tl IH]; intro t; cbn [map pair_map fst snd inline_fold]; [reflexivity|].
  rewrite insert_kv_smap. destruct (insert_kv true p v t) as [t'| |]; cbn [rbind rmap]; [|reflexivity..].
  apply IH.
Qed.

Theorem inline_run_smap l : inline_run (map pair_map l) = option_map (smap f) (inline_run l).
Proof.
  unfold inline_run. change (@nil (bytes * node W)) with (smap f []). rewrite inline_fold_smap.
  destruct (inline_fold [] l) as [t| |]; reflexivity.
Qed.

End Param.
