(* Proofs/AccessorsParsed.v — the read API on PARSED documents: in every accepted document made editable
   (tbl_despan = ImDocument::into_mut / str::parse::<DocumentMut>) every entry the root table's iteration shows is
   handed out by doc["k"] / Item::get(k) under its own key, and no entry is a placeholder.  Uses the WF backbone
   (parse_WF: keys of every table distinct, no Item::None in a parsed tree). *)
From TV Require Import Base.Prelude Model.Tree Model.Parse Model.Document Model.Encode Spec.WF Model.Accessors.
From TV Require Import Proofs.WFTree Proofs.WFParseTop Proofs.AccessorsSpec.

Lemma tbl_wf_keys top t : tbl_wf top t -> NoDup (keys_of (t_items t)).
Proof. destruct t as [items d im dt p sp]. cbn [tbl_wf t_items]. intros (_ & H & _). exact H. Qed.

Lemma tbl_wf_no_placeholder top t k it : tbl_wf top t -> In (k, it) (t_items t) -> item_is_none it = false.
Proof.
  destruct t as [items d im dt p sp]. cbn [tbl_wf t_items]. intros (_ & _ & H) Hin.
  pose proof (all_P_In _ _ _ H Hin) as Hx. cbn [fst snd] in Hx. destruct Hx as (_ & Hx).
  destruct it; [destruct Hx|reflexivity|reflexivity|reflexivity].
Qed.

Lemma parsed_root_lookup s d r t k it :
  parse_document s = POk d -> tbl_despan s (doc_root d) = Some r -> raw_despan s (doc_trailing d) = Some t ->
  In (k, it) (t_items r) ->
  doc_index (ITable r) (k_key k) = Some it /\ index_str (k_key k) (ITable r) = Some it /\ item_is_none it = false.
Proof.
  intros Hp Hr Ht Hin.
  destruct (parse_WF s d r t Hp Hr Ht) as ((_ & Hwf & _) & _).
  pose proof (tbl_wf_keys _ _ Hwf) as Hnd.
  pose proof (tbl_wf_no_placeholder _ _ _ _ Hwf Hin) as Hn.
  repeat split; try exact Hn; apply index_str_table; assumption.
Qed.
