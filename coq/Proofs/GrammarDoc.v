(* Proofs/GrammarDoc.v — C01/C02 layers L2 + L3 for whole documents: the loop of document.rs
   (`doc_line`, `doc_loop`, `document`, `parse_document`) against toml = expression *( newline
   expression ) of Spec/Syntax.v, statement by statement through C09's simulation of the parse
   state (Proofs/GrammarDocBase.v), in both directions. *)
From TV Require Import Base.Prelude Base.Utf8 Base.Winnow Gen.Consts Spec.Abnf Spec.Lex Spec.Defs Spec.Syntax.
From TV Require Import Model.Trivia Model.Strings Model.Datetime Model.Numbers Model.Tree Model.Parse Model.Document.
From TV Require Import Proofs.ConstsOk Proofs.NoPanicBase Proofs.NoPanicLex Proofs.NoPanicValue.
From TV Require Import Proofs.DefsEquivBase Proofs.DefsEquivSpec Proofs.DefsEquivKv Proofs.DefsEquivSim Proofs.DefsEquivMain.
From TV Require Import Proofs.LexEquivBase Proofs.LexEquivTrivia Proofs.LexEquivKey Proofs.GrammarBase Proofs.GrammarParam
                       Proofs.GrammarValueBase Proofs.GrammarValueSound Proofs.GrammarValueComplete
                       Proofs.GrammarDocBase Proofs.GrammarDocLine.
Require Import Lia ZifyBool ZifyN ZifyNat.

(* ================================================================================================ *)
(* statements: what a line adds to the spec state                                                   *)
(* ================================================================================================ *)
Definition lsim (S S1 : sstate value) (l : list astmt) : Prop :=
  spec_fold false (dstate S) (map stmt_den l) = ROk (dstate S1)
  /\ forallb stmt_ok l = true /\ forallb stmt_within l = true.

Lemma lsim_nil S : lsim S S [].
Proof. repeat split. Qed.

Lemma lsim_app S S1 S2 l1 l2 : lsim S S1 l1 -> lsim S1 S2 l2 -> lsim S S2 (l1 ++ l2).
Proof.
  intros (F1 & O1 & W1) (F2 & O2 & W2). split; [|split].
  - rewrite map_app, spec_fold_app, F1. exact F2.
  - rewrite forallb_app, O1, O2. reflexivity.
  - rewrite forallb_app, W1, W2. reflexivity.
Qed.

Lemma lsim_one S S1 m s :
  spec_step false S m = ROk S1 -> stmt_map absv m = stmt_den s -> stmt_ok s = true -> stmt_within s = true ->
  lsim S S1 [s].
Proof.
  intros E Hm Hok Hwi. split; [|cbn [forallb]; rewrite Hok, Hwi; auto].
  cbn [map]. rewrite spec_fold_cons, <- Hm, (step_to_data false S m S1 E). reflexivity.
Qed.

Lemma ltb_true a b : a < b -> Nat.ltb a b = true.
Proof. intro H. apply Nat.ltb_lt, H. Qed.

(* ================================================================================================ *)
(* one iteration of the document loop                                                               *)
(* ================================================================================================ *)
Lemma parse_ws_inv st i st1 i1 : parse_ws st i = Ok st1 i1 ->
  exists w sp, ws_tok w /\ splits i w i1 /\ stops wschar (rest i1) /\ st1 = on_ws st sp.
Proof.
  unfold parse_ws. intro H. apply pmap_inv in H as (sp & H & ->). apply span_ws_inv in H as (w & Hw & S & Hs). eauto 10.
Qed.

Lemma parse_ws_complete st i w r : rest i = w ++ r -> ws_tok w -> stops wschar r ->
  exists sp, parse_ws st i = Ok (on_ws st sp) (adv w i).
Proof.
  intros H Hw Hr. unfold parse_ws. eexists. rewrite (pmap_ok _ _ _ _ _ (span_ws_complete i w r H Hw Hr)). reflexivity.
Qed.

Definition line_p (st : pstate) (b : byte) : parser pstate :=
  if byte_eqb b COMMENT_START_SYMBOL then cut_err (parse_comment st)
  else if byte_eqb b STD_TABLE_OPEN then cut_err (table st)
  else if byte_eqb b LF || byte_eqb b CR then parse_newline st
  else cut_err (keyval st).

Lemma doc_line_unfold st i : doc_line st i = (b <- peek any ;; st1 <- line_p st b ;; parse_ws st1) i.
Proof. reflexivity. Qed.

Lemma doc_line_empty st i : rest i = [] -> fails (doc_line st) i.
Proof. intro H. unfold fails. rewrite doc_line_unfold. apply bind_fails, peek_fails, any_fails, H. Qed.

(* ---- soundness of one line -------------------------------------------------------------------- *)
Lemma keyval_sound st i st1 i1 S : keyval st i = Ok st1 i1 -> depth i = 0 -> Inv st S ->
  exists w0 e l le S1, ws_tok w0 /\ item_tok e l /\ splits i (w0 ++ e ++ le) i1 /\ lend le (rest i1)
                       /\ Inv st1 S1 /\ lsim S S1 l.
Proof.
  unfold keyval. intros H Hd HI. apply try_map_inv in H as ([path [k it]] & H & Hst).
  apply parse_keyval_sound in H as (w0 & t & p & a & w & c & le & Hw0 & Ht & Hw & Hc & Sp & Hl & Hlen & [Hp (v & Hit & Hv)]).
  cbn [fst snd] in Hp, Hit, Hv. subst it. rewrite Hd in Hv.
  destruct (on_keyval_sp st path k (IValue v)) as [st'| |] eqn:E; try discriminate. cbn [lift_state] in Hst. injection Hst as <-.
  destruct (kv_step_sound st S path k v st' HI E) as (S1 & Es & HI1).
  exists w0, (t ++ w ++ c), [SKeyVal p a], le, S1. split; [exact Hw0|]. split; [apply it_keyval; assumption|].
  split; [exact Sp|]. split; [exact Hl|]. split; [exact HI1|].
  destruct Hv as (Ha & Hok & Hwi & _).
  apply (lsim_one S S1 _ (SKeyVal p a) Es (kv_stmt_den path k v p a Hp Ha)); cbn [stmt_ok stmt_within]; [exact Hok|].
  rewrite (ltb_true _ _ Hlen), Hwi. reflexivity.
Qed.

Lemma header_sound arr st i st1 i1 S : header arr st i = Ok st1 i1 -> Inv st S ->
  exists e l le S1, item_tok e l /\ splits i (e ++ le) i1 /\ lend le (rest i1) /\ Inv st1 S1 /\ lsim S S1 l.
Proof.
  rewrite header_unfold. intros H HI. apply try_map_inv in H as ([[kp sp] tr] & H & Hst).
  apply header_text_sound in H as (t & p & w & c & le & Ht & Hw & Hc & Sp & Hl & Hp & Hlen & Hne).
  destruct (on_header arr st kp tr sp) as [st'| |] eqn:E; try discriminate. cbn [lift_state] in Hst. injection Hst as <-.
  destruct (pop_key_total kp Hne) as (pre & k & Ep). pose proof (pop_key_some _ _ _ Ep) as Ekp. subst kp.
  destruct (hdr_step_sound arr st S pre k tr sp st' HI E) as (S1 & Es & HI1).
  rewrite keys_app in Hp. cbn [keys map] in Hp. fold (keys pre) in Hp.
  exists (t ++ w ++ c), [if arr then SArrHeader p else SHeader p], le, S1.
  split; [destruct arr; [apply it_arr|apply it_std]; assumption|]. split; [exact Sp|]. split; [exact Hl|]. split; [exact HI1|].
  rewrite Hp in Es.
  apply (lsim_one S S1 _ _ Es (hdr_stmt_den arr p)); destruct arr; cbn [stmt_ok stmt_within]; try reflexivity;
    apply ltb_true; rewrite <- Hp, app_length; unfold keys; rewrite map_length; rewrite app_length in Hlen; exact Hlen.
Qed.

Lemma line_p_sound st b i st1 i1 S : line_p st b i = Ok st1 i1 -> depth i = 0 -> Inv st S ->
  exists w0 e l le S1, ws_tok w0 /\ item_tok e l /\ splits i (w0 ++ e ++ le) i1 /\ lend le (rest i1)
                       /\ Inv st1 S1 /\ lsim S S1 l.
Proof.
  unfold line_p. intros H Hd HI.
  destruct (byte_eqb b COMMENT_START_SYMBOL).
  { apply cut_err_inv in H. unfold parse_comment in H. apply pmap_inv in H as (sp & H & ->).
    apply span_inv in H as (u & H & _). apply bind_inv in H as (x & j1 & H1 & H2).
    apply comment_sound in H1 as (c & Hc & S1 & _). apply context_inv, line_ending_sound in H2 as (le & S2 & Hl).
    exists [], c, [], le, S. split; [reflexivity|]. split; [apply it_comment, Hc|].
    split; [exact (splits_trans _ _ _ _ _ S1 S2)|]. split; [exact Hl|]. split; [apply Inv_on_ws, HI|apply lsim_nil]. }
  destruct (byte_eqb b STD_TABLE_OPEN).
  { apply cut_err_inv, table_inv in H as (arr & H).
    destruct (header_sound arr st i st1 i1 S H HI) as (e & l & le & S1 & He & Sp & Hl & HI1 & Hs).
    exists [], e, l, le, S1. split; [reflexivity|]. auto. }
  destruct (byte_eqb b LF || byte_eqb b CR).
  { unfold parse_newline in H. apply pmap_inv in H as (sp & H & ->). apply span_inv in H as (u & H & _).
    apply newline_sound in H as (nl & Hn & S1).
    exists [], [], [], nl, S. split; [reflexivity|]. split; [apply it_blank|]. split; [exact S1|].
    split; [left; exact Hn|]. split; [apply Inv_on_ws, HI|apply lsim_nil]. }
  apply cut_err_inv in H. apply (keyval_sound st i st1 i1 S H Hd HI).
Qed.

Lemma doc_line_sound st i st1 i1 S : doc_line st i = Ok st1 i1 -> depth i = 0 -> Inv st S ->
  exists w0 e l le w S1,
    ws_tok w0 /\ item_tok e l /\ ws_tok w /\ splits i (w0 ++ e ++ le ++ w) i1
    /\ (newline_tok le \/ (le = [] /\ w = [] /\ rest i1 = []))
    /\ Inv st1 S1 /\ lsim S S1 l.
Proof.
  rewrite doc_line_unfold. intros H Hd HI. apply bind_inv in H as (b & j & H1 & H). apply peek_inv in H1 as [-> _].
  apply bind_inv in H as (st0 & j1 & H2 & H3).
  destruct (line_p_sound st b i st0 j1 S H2 Hd HI) as (w0 & e & l & le & S1 & Hw0 & He & Sp & Hl & HI1 & Hs).
  apply parse_ws_inv in H3 as (w & sp & Hw & Sw & _ & ->).
  exists w0, e, l, le, w, S1. split; [exact Hw0|]. split; [exact He|]. split; [exact Hw|]. split; [|split; [|split; [apply Inv_on_ws, HI1|exact Hs]]].
  - pose proof (splits_trans _ _ _ _ _ Sp Sw) as S'. rewrite <- !app_assoc in S'. exact S'.
  - destruct Hl as [Hn | [-> Hr]]; [left; exact Hn|right]. destruct Sw as [R E]. rewrite Hr in R.
    destruct w; [|discriminate]. cbn [app] in R. split; [reflexivity|]. split; [reflexivity|]. symmetry. exact R.
Qed.

(* ================================================================================================ *)
(* the loop                                                                                         *)
(* ================================================================================================ *)
(* the text read by the loop: complete lines, the last one possibly ended by the end of the text *)
Inductive dlines : bytes -> list astmt -> Prop :=
| dl_nil : dlines [] []
| dl_last w0 e l : ws_tok w0 -> item_tok e l -> dlines (w0 ++ e) l
| dl_cons w0 e l nl w t l' :
    ws_tok w0 -> item_tok e l -> newline_tok nl -> ws_tok w -> dlines t l' ->
    dlines (w0 ++ e ++ nl ++ w ++ t) (l ++ l').

Lemma doc_loop_at_end fuel st i st' i' : rest i = [] -> doc_loop fuel st i = Ok st' i' -> st' = st /\ i' = i.
Proof.
  intros R H. destruct fuel as [|f]; [discriminate|]. cbn [doc_loop] in H.
  destruct (doc_line_empty st i R) as (e & j & F). rewrite F in H. injection H as <- <-. auto.
Qed.

Lemma doc_loop_sound : forall fuel st i st' i' S, doc_loop fuel st i = Ok st' i' -> depth i = 0 -> Inv st S ->
  exists t l S', splits i t i' /\ dlines t l /\ Inv st' S' /\ lsim S S' l.
Proof.
  induction fuel as [|f IH]; intros st i st' i' S H Hd HI; [discriminate|]. cbn [doc_loop] in H.
  destruct (doc_line st i) as [st1 i1|e j|e j|s] eqn:E; try discriminate.
  - destruct (Nat.eqb (length (rest i1)) (length (rest i))); [discriminate|].
    destruct (doc_line_sound st i st1 i1 S E Hd HI) as (w0 & e & l & le & w & S1 & Hw0 & He & Hw & Sp & Hle & HI1 & Hs).
    assert (Hd1 : depth i1 = 0) by (rewrite (splits_depth _ _ _ Sp); exact Hd).
    destruct Hle as [Hn | (-> & -> & R1)].
    + destruct (IH st1 i1 st' i' S1 H Hd1 HI1) as (t & l' & S' & St & Hdl & HI' & Hs').
      exists ((w0 ++ e ++ le ++ w) ++ t), (l ++ l'), S'. split; [exact (splits_trans _ _ _ _ _ Sp St)|].
      split; [|split; [exact HI'|exact (lsim_app _ _ _ _ _ Hs Hs')]].
      replace ((w0 ++ e ++ le ++ w) ++ t) with (w0 ++ e ++ le ++ w ++ t) by (rewrite <- !app_assoc; reflexivity).
      apply dl_cons; assumption.
    + destruct (doc_loop_at_end f st1 i1 st' i' R1 H) as [-> ->].
      exists (w0 ++ e), l, S1. rewrite !app_nil_r in Sp. split; [exact Sp|]. split; [apply dl_last; assumption|]. auto.
  - injection H as <- <-. exists [], [], S. split; [apply splits_nil|]. split; [apply dl_nil|]. split; [exact HI|apply lsim_nil].
Qed.

(* ---- the lines are a toml text ------------------------------------------------------------------- *)
Lemma expression_ws w e l : ws_tok w -> expression_tok e l -> expression_tok (w ++ e) l.
Proof.
  intros Hw He. apply expression_item in He as (w1 & e' & -> & Hw1 & Hi). apply expression_item.
  exists (w ++ w1), e'. split; [apply app_assoc|]. split; [apply ws_tok_app; assumption|exact Hi].
Qed.

Lemma toml_tok_ws w t l : ws_tok w -> toml_tok t l -> toml_tok (w ++ t) l.
Proof.
  intros Hw [e l0 He | e l0 nl t' l' He Hn Ht].
  - apply toml_one, expression_ws; assumption.
  - rewrite app_assoc. apply toml_more; [apply expression_ws; assumption|exact Hn|exact Ht].
Qed.

Lemma item_expression w e l : ws_tok w -> item_tok e l -> expression_tok (w ++ e) l.
Proof. intros Hw He. apply expression_item. exists w, e. auto. Qed.

Lemma dlines_toml t l : dlines t l -> toml_tok t l.
Proof.
  induction 1 as [|w0 e l Hw0 He|w0 e l nl w t l' Hw0 He Hn Hw Hd IH].
  - apply toml_one. apply (ex_blank [] []); [reflexivity|left; reflexivity].
  - apply toml_one, item_expression; assumption.
  - replace (w0 ++ e ++ nl ++ w ++ t) with ((w0 ++ e) ++ nl ++ (w ++ t)) by (rewrite <- !app_assoc; reflexivity).
    apply toml_more; [apply item_expression; assumption|exact Hn|apply toml_tok_ws; assumption].
Qed.

(* ================================================================================================ *)
(* the byte-order mark, document, parse_document                                                    *)
(* ================================================================================================ *)
Lemma strip_bom_cases s : (exists r, s = bom ++ r /\ strip_bom s = r) \/ ((forall r, s <> bom ++ r) /\ strip_bom s = s).
Proof.
  unfold strip_bom, bom. destruct s as [|b0 [|b1 [|b2 r]]]; try (right; split; [intros r0 E; discriminate|reflexivity]).
  destruct (byte_eqb b0 xef) eqn:E0; [|right; split; [intros r0 E; injection E as -> _; discriminate|reflexivity]].
  destruct (byte_eqb b1 xbb) eqn:E1; [|right; split; [intros r0 E; injection E as _ -> _; discriminate|reflexivity]].
  destruct (byte_eqb b2 xbf) eqn:E2; [|right; split; [intros r0 E; injection E as _ _ -> _; discriminate|reflexivity]].
  apply byte_eqb_eq in E0, E1, E2. subst. left. exists r. split; reflexivity.
Qed.

Lemma document_unfold i :
  document i = (opt (lit bom) ;;; st <- parse_ws state_new ;; st' <- (fun j => doc_loop (S (length (rest j))) st j) ;; eof ;;; ret st') i.
Proof. reflexivity. Qed.

(* what an accepted document is: the statements of some derivation of its text, within the limits,
   valid under the code's resolution of U1, denoting the tree that was built *)
Theorem parse_document_sound s d : parse_document s = POk d ->
  exists stmts, toml_text s stmts /\ forallb stmt_ok stmts = true /\ within_limits stmts = true
                /\ code_run (map stmt_den stmts) = Valid (abs_doc d).
Proof.
  unfold parse_document, parse_all. intro H.
  destruct ((a <- document ;; eof ;;; ret a) (new_input s)) as [st i|e j|e j|x] eqn:E; try discriminate.
  destruct (finalize_table st) as [st'| |] eqn:Ef; try discriminate. injection H as <-.
  apply bind_inv in E as (st0 & i0 & E & E'). apply bind_inv in E' as (u0 & i0' & _ & E'). apply ret_inv in E' as [-> _].
  rewrite document_unfold in E.
  apply bind_inv in E as (o & i1 & Eb & E). apply bind_inv in E as (stw & i2 & Ew & E).
  apply bind_inv in E as (stl & i3 & El & E). apply bind_inv in E as (u & i4 & Ee & E).
  apply eof_inv in Ee as [-> Rend]. apply ret_inv in E as [-> ->].
  apply parse_ws_inv in Ew as (w0 & sp & Hw0 & Sw & _ & ->).
  assert (Sb : exists bm, splits (new_input s) bm i1 /\ strip_bom s = w0 ++ rest i2).
  { apply opt_inv in Eb as [(x & -> & Eb) | (-> & -> & (e & j & F))].
    - apply lit_inv in Eb as [_ Sb]. exists bom. split; [exact Sb|]. destruct Sb as [R _]. cbn [new_input rest] in R.
      destruct (strip_bom_cases s) as [(r & Er & ->) | [Hn _]]; [|exfalso; apply (Hn _ R)].
      rewrite Er in R. apply app_inv_head in R. subst r. apply Sw.
    - exists []. split; [apply splits_nil|]. destruct (strip_bom_cases s) as [(r & Er & _) | [_ ->]].
      + exfalso. unfold lit in F. cbn [new_input rest] in F.
        destruct (strip_prefix bom s) eqn:Q; [discriminate|].
        assert (Q' : strip_prefix bom s = Some r) by (apply strip_prefix_spec; exact Er). congruence.
      + apply Sw. }
  destruct Sb as (bm & Sb & Es).
  assert (D2 : depth i2 = 0).
  { rewrite (splits_depth _ _ _ Sw), (splits_depth _ _ _ Sb). reflexivity. }
  destruct (doc_loop_sound _ _ _ _ _ sstate0 El D2 (Inv_on_ws _ _ sp Inv_init)) as (t & l & [T cp] & St & Hdl & HI & (Hf & Hok & Hwi)).
  destruct St as [Rt _]. rewrite Rend, app_nil_r in Rt.
  exists l. split; [|split; [exact Hok|split; [exact Hwi|]]].
  - unfold toml_text. rewrite Es, Rt. apply toml_tok_ws; [exact Hw0|apply dlines_toml, Hdl].
  - destruct (finalize_sim stl T cp HI) as (root' & Ef' & Ha & _). rewrite Ef' in Ef. injection Ef as <-.
    unfold abs_doc. cbn [doc_root finalized st_root]. rewrite Ha.
    unfold code_run, run. change (@sstate0 dval) with (dstate sstate0). rewrite Hf. reflexivity.
Qed.
