(* Proofs/WFOrderBase.v — sections in Display's order, part 1.
   `Bb t P a`: the sections of a table that carry a position of their own, each as (position, own statements) —
   the own statements (`own_b`: header, then the key/value lines) depending on the header path only through its key
   texts.  When the sections without a position print nothing (`hp`: they are implicit and hold no lines), what
   Display prints (Proofs/WFReplay.v `replay_stmts`) is the concatenation of the own statements in the order of
   the positions: `replay_sorted`. *)
From TV Require Import Base.Prelude Base.Utf8 Base.Winnow Gen.Consts Spec.Abnf Spec.Lex Spec.Defs Spec.DatetimeSpec Spec.Syntax Spec.WF.
From TV Require Import Model.Datetime Model.Numbers Model.Tree Model.Parse Model.Document Model.Write Model.Encode.
From TV Require Import Proofs.GrammarBase Proofs.PrintBackSort.
From TV Require Import Proofs.WFSem Proofs.WFSemDoc Proofs.WFPrintKey Proofs.WFPrintFlat Proofs.WFTree Proofs.WFPrintDoc Proofs.WFReplay.
Require Import Lia NArith Sorting.Sorted Sorting.Permutation.

Local Notation section := (tbl * list key * bool)%type.
Notation ent := (N * list (stmt dval))%type.

(* the own statements of a section at the header path with key texts P *)
Definition own_b (t : tbl) (P : list bytes) (a : bool) : list (stmt dval) :=
  (if (match P with [] => false | _ => a || negb (t_implicit t && no_lines t) end)
   then [if a then SArrHeader P else SHeader P] else [])
  ++ line_stmts dval (sb_tbl t).

Lemma own_abs_b t path a : own_abs (t, path, a) = own_b t (ktexts path) a.
Proof.
  unfold own_abs, own_b, own_hdr, hdr_printed. cbn [fst snd]. destruct path as [|k path]; [reflexivity|]. cbn [ktexts map]. reflexivity.
Qed.

(* ---- the positioned sections ------------------------------------------------------------------------------------------- *)
Definition own_e (t : tbl) (P : list bytes) (a : bool) : list ent :=
  if t_dotted t then [] else match t_position t with Some q => [(q, own_b t P a)] | None => [] end.

Fixpoint Bb (t : tbl) (P : list bytes) (a : bool) {struct t} : list ent :=
  match t with
  | Tbl items _ _ dt pos _ =>
    (if dt then [] else match pos with Some q => [(q, own_b t P a)] | None => [] end)
    ++ flat_map (fun kv => match snd kv with
                           | ITable sub => Bb sub (P ++ [k_key (fst kv)]) false
                           | IAot ts _ => flat_map (fun e => Bb e (P ++ [k_key (fst kv)]) true) ts
                           | _ => []
                           end) items
  end.
Definition Bit (P : list bytes) (kv : key * item) : list ent :=
  match snd kv with
  | ITable sub => Bb sub (P ++ [k_key (fst kv)]) false
  | IAot ts _ => flat_map (fun e => Bb e (P ++ [k_key (fst kv)]) true) ts
  | _ => []
  end.
Definition BbI (items : list (key * item)) (P : list bytes) : list ent := flat_map (Bit P) items.
Lemma Bb_eq t P a : Bb t P a = own_e t P a ++ BbI (t_items t) P.
Proof. destruct t; reflexivity. Qed.
Lemma BbI_app a b P : BbI (a ++ b) P = BbI a P ++ BbI b P.
Proof. apply flat_map_app. Qed.

(* the same, read off the walk *)
Definition posd (x : section) : list ent :=
  match t_position (fst (fst x)) with Some q => [(q, own_abs x)] | None => [] end.

Lemma Bb_sections : forall t path a, flat_map posd (sections t path a) = Bb t (ktexts path) a.
Proof.
  induction t as [items d im dt p sp IH] using tbl_sub_ind. intros path a. rewrite sections_eq, Bb_eq, flat_map_app. f_equal.
  - unfold own_e. cbn [t_dotted t_position]. destruct dt; [reflexivity|]. cbn [flat_map]. unfold posd. cbn [fst t_position].
    destruct p; [|reflexivity]. rewrite own_abs_b. reflexivity.
  - cbn [t_items]. unfold BbI. induction items as [|[k it] items IHi]; [reflexivity|]. inversion IH as [|? ? H1 H2]; subst.
    cbn [flat_map]. rewrite flat_map_app, (IHi H2). f_equal. unfold sub_sections, Bit. cbn [fst snd] in *. rewrite <- ktexts_snoc.
    destruct it as [|v|sub|ts asp]; try reflexivity; [apply H1|].
    clear -H1. induction ts as [|e ts IHt]; [reflexivity|]. inversion H1; subst. cbn [flat_map]. rewrite flat_map_app, H2, (IHt H3). reflexivity.
Qed.

(* ---- sections without a position print nothing ------------------------------------------------------------------------ *)
Fixpoint hp (t : tbl) {struct t} : Prop :=
  match t with
  | Tbl items _ _ _ _ _ =>
    all_P (fun kv => match snd kv with
                     | ITable sub => hp sub /\ (t_implicit sub = true -> t_position sub = None)
                                     /\ (t_dotted sub = false -> t_position sub = None -> t_implicit sub = true /\ no_lines sub = true)
                     | IAot ts _ => all_P (fun e => hp e /\ t_position e <> None) ts
                     | _ => True
                     end) items
  end.
Definition hentry (kv : key * item) : Prop :=
  match snd kv with
  | ITable sub => hp sub /\ (t_implicit sub = true -> t_position sub = None)
                  /\ (t_dotted sub = false -> t_position sub = None -> t_implicit sub = true /\ no_lines sub = true)
  | IAot ts _ => all_P (fun e => hp e /\ t_position e <> None) ts
  | _ => True
  end.
Lemma hp_eq t : hp t <-> all_P hentry (t_items t).
Proof. destruct t; reflexivity. Qed.

Lemma no_lines_stmts t : no_lines t = true -> line_stmts dval (sb_tbl t) = [].
Proof.
  unfold no_lines, line_stmts. intro H. rewrite <- tflat_lines. destruct (tflat [] t); [reflexivity|discriminate].
Qed.

Lemma hp_sections : forall t path, hp t ->
  Forall (fun x => t_position (fst (fst x)) = None -> own_abs x = []) (flat_map (sub_sections path) (t_items t)).
Proof.
  induction t as [items d im dt p sp IH] using tbl_sub_ind. intros path Hh. apply hp_eq in Hh. cbn [t_items] in *.
  apply Forall_forall. intros x Hin. apply in_flat_map in Hin as ([k it] & Hin1 & Hin2). pose proof (all_P_In _ _ _ Hh Hin1) as He.
  rewrite Forall_forall in IH. specialize (IH _ Hin1). unfold hentry, sub_sections in *. cbn [fst snd] in *.
  assert (Hne : path ++ [k] <> []) by (destruct path; discriminate).
  destruct it as [|v|sub|ts asp]; try contradiction.
  - destruct He as (Hs & _ & Hc). rewrite sections_eq in Hin2. apply in_app_or in Hin2 as [Hin2|Hin2].
    + destruct (t_dotted sub) eqn:Ed; [contradiction|]. destruct Hin2 as [<-|[]]. cbn [fst]. intro Hpos. destruct (Hc eq_refl Hpos) as [Hi Hn].
      unfold own_abs, own_hdr, hdr_printed. cbn [fst snd]. rewrite Hi, Hn, (no_lines_stmts sub Hn). destruct (path ++ [k]); reflexivity.
    + pose proof (IH (path ++ [k]) Hs) as F. rewrite Forall_forall in F. exact (F x Hin2).
  - apply in_flat_map in Hin2 as (e & He1 & Hin3). destruct (all_P_In _ _ _ He He1) as [Hs Hp]. rewrite Forall_forall in IH.
    rewrite sections_eq in Hin3. apply in_app_or in Hin3 as [Hin3|Hin3].
    + destruct (t_dotted e); [contradiction|]. destruct Hin3 as [<-|[]]. cbn [fst]. intro Hpos. contradiction.
    + pose proof (IH e He1 (path ++ [k]) Hs) as F. rewrite Forall_forall in F. exact (F x Hin3).
Qed.

(* ---- Display's order is the order of the positions ----------------------------------------------------------------- *)
Definition nonempty_e (e : ent) : bool := match snd e with [] => false | _ => true end.
Lemma flat_snd_filter (l : list ent) : flat_map snd (filter nonempty_e l) = flat_map snd l.
Proof.
  induction l as [|[q s] l IH]; [reflexivity|]. cbn [filter flat_map]. unfold nonempty_e at 1. cbn [snd]. destruct s; cbn [flat_map snd app]; rewrite IH; reflexivity.
Qed.

Definition payload (e : N * section) : ent := (fst e, own_abs (snd e)).

Lemma assign_filter : forall (l : list section) n,
  Forall (fun x => t_position (fst (fst x)) = None -> own_abs x = []) l ->
  filter nonempty_e (map payload (assign_positions n l)) = filter nonempty_e (flat_map posd l).
Proof.
  induction l as [|[[t p] a] l IH]; intros n H; [reflexivity|]. inversion H as [|? ? H1 H2]; subst. cbn [assign_positions map flat_map].
  unfold posd at 1. cbn [fst]. destruct (t_position t) as [q|] eqn:Ep.
  - cbn [app filter]. unfold payload at 1. cbn [fst snd]. rewrite (IH q H2). reflexivity.
  - cbn [app filter]. unfold payload at 1, nonempty_e at 1. cbn [fst snd] in *. rewrite (H1 Ep). apply IH, H2.
Qed.

Lemma flat_own_payload (l : list (N * section)) : flat_map own_abs (map snd l) = flat_map snd (map payload l).
Proof. induction l as [|[q x] l IH]; [reflexivity|]. cbn [map flat_map snd payload fst]. rewrite IH. reflexivity. Qed.

Lemma payload_on_snd (l : list (N * section)) : map payload l = map (on_snd own_abs) l.
Proof. reflexivity. Qed.

Definition Broot (r : tbl) : list ent := (0%N, own_b r [] false) :: BbI (t_items r) [].

Theorem replay_sorted r :
  t_dotted r = false -> t_position r = None -> hp r ->
  replay_stmts r = flat_map snd (stable_sort (Broot r)).
Proof.
  intros Hd Hp Hh. unfold replay_stmts, display_order. rewrite flat_own_payload, payload_on_snd, stable_sort_map, <- payload_on_snd.
  rewrite <- flat_snd_filter, stable_sort_filter. rewrite <- (flat_snd_filter (stable_sort (Broot r))), (stable_sort_filter nonempty_e (Broot r)).
  do 2 f_equal. rewrite sections_eq, Hd. cbn [app assign_positions]. rewrite Hp. cbn [map]. unfold payload at 1. cbn [fst snd].
  unfold Broot. rewrite own_abs_b. cbn [ktexts map filter].
  assert (E : filter nonempty_e (map payload (assign_positions 0 (flat_map (sub_sections []) (t_items r))))
              = filter nonempty_e (BbI (t_items r) [])).
  { rewrite (assign_filter _ 0 (hp_sections r [] Hh)). f_equal.
    (* the sub-sections, read off the walk *)
    clear. unfold BbI. induction (t_items r) as [|[k it] items IH]; [reflexivity|]. cbn [flat_map]. rewrite flat_map_app, IH. f_equal.
    unfold sub_sections, Bit. cbn [fst snd app]. destruct it as [|v|sub|ts asp]; try reflexivity.
    - rewrite (Bb_sections sub [k] false). reflexivity.
    - induction ts as [|e ts IHt]; [reflexivity|]. cbn [flat_map]. rewrite flat_map_app, IHt, (Bb_sections e [k] true). reflexivity. }
  destruct (nonempty_e (0%N, own_b r [] false)); rewrite E; reflexivity.
Qed.
