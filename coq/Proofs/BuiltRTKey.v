(* Proofs/BuiltRTKey.v — C06: the default key token inside key paths (`key`, with blanks around the
   parts, dotted paths in headers) is read back as the same key text. *)
From TV Require Import Base.Prelude Base.Utf8 Base.Winnow Gen.Consts.
From TV Require Import Model.Trivia Model.Strings Model.Datetime Model.Numbers Model.Tree Model.Parse Model.Document.
From TV Require Import Model.Write Model.Encode Model.Build.
From TV Require Import Proofs.StringsRTDefs Proofs.StringsRTBase Proofs.StringsRTBasic Proofs.StringsRTTop Proofs.StringsRTDoc.
From TV Require Import Proofs.BuiltRTBase Proofs.BuiltRTParse.
Require Import Lia ZifyBool ZifyN ZifyNat.

(* what may follow a key part (after its blanks): not a blank, not a bare-key character *)
Definition kend (r : bytes) : Prop := stops (in_class WSCHAR) r /\ no_unquoted_head r.

Lemma kend_dot R : kend (x2e :: R). Proof. split; reflexivity. Qed.
Lemma kend_eq R : kend (x3d :: R). Proof. split; reflexivity. Qed.
Lemma kend_close R : kend (x5d :: R). Proof. split; reflexivity. Qed.

Lemma sp_no_unquoted b R : sp b -> no_unquoted_head R -> no_unquoted_head (b ++ R).
Proof. intros [-> | ->] H; [exact H|reflexivity]. Qed.

Lemma key_token_stops tk k R : write_key KDefault k = Some tk -> stops (in_class WSCHAR) (tk ++ R).
Proof.
  intro Hw. destruct (key_token_head k tk Hw) as (b & tk' & -> & Hb).
  destruct (key_head_facts b Hb) as [H _]. exact H.
Qed.

(* key.rs: key_part on  [blank] token [blank] *)
Lemma key_part_pto k tk a b R d :
  utf8_valid_b k = true -> write_key KDefault k = Some tk -> sp a -> sp b -> kend R ->
  pto key_part (a ++ tk ++ b) R d (fun kk => k_key kk = k).
Proof.
  intros Hu Hw Ha Hb [HR1 HR2]. unfold key_part.
  apply pto_bind with (Q1 := fun _ => True).
  { apply (pto_span _ _ _ _ (fun _ => True)). apply pto_ws; [exact Ha|].
    rewrite <- app_assoc. apply (key_token_stops tk k _ Hw). }
  intros pre _.
  apply pto_bind with (Q1 := fun x => snd x = k).
  { intro p. pose proof (key_styles_rt k KDefault tk (b ++ R) p d Hu Hw (sp_no_unquoted b R Hb HR2)) as E.
    exists (key_result tk k p), (p + N.of_nat (length tk))%N. split; [exact E|reflexivity]. }
  intros [r0 k0] Hk0. cbn [snd] in Hk0. subst k0.
  apply pto_bind_ret with (Q1 := fun _ => True).
  { apply (pto_span _ _ _ _ (fun _ => True)). apply pto_ws; assumption. }
  intros suf _. reflexivity.
Qed.

(* the decor shuffle at the end of `key` keeps the key texts *)
Lemma fix_key_path_keys path : path <> [] ->
  exists p', fix_key_path path = Some p' /\ map k_key p' = map k_key path.
Proof.
  destruct path as [|first tl]; [contradiction|]. intros _. unfold fix_key_path.
  set (first' := match d_prefix (k_dotted first) with Some _ => set_dotted_prefix first REmpty | None => first end).
  assert (Hf : k_key first' = k_key first) by (unfold first'; destruct (d_prefix (k_dotted first)); reflexivity).
  destruct (rev (first' :: tl)) as [|last rinit] eqn:Er.
  { apply (f_equal (@length key)) in Er. rewrite rev_length in Er. discriminate. }
  eexists. split; [reflexivity|].
  set (last' := match d_suffix (k_dotted last) with Some _ => set_dotted_suffix last REmpty | None => last end).
  assert (Hl : k_key (set_leaf last' (decor_new (match d_prefix (k_dotted first) with Some p => p | None => REmpty end)
                                                 (match d_suffix (k_dotted last) with Some p => p | None => REmpty end)))
               = k_key last) by (unfold last'; destruct (d_suffix (k_dotted last)); reflexivity).
  rewrite map_rev. cbn [map]. rewrite Hl.
  change (k_key last :: map k_key rinit) with (map k_key (last :: rinit)). rewrite <- Er.
  rewrite map_rev, rev_involutive. cbn [map]. rewrite Hf. reflexivity.
Qed.

(* key.rs: key on a printed path  part . part . part  (blanks only as given per part) *)
Definition part_seg (x : bytes * bytes * bytes * bytes) : seg (A := key) :=      (* (k, a, tk, b) *)
  mkSeg (snd (fst (fst x)) ++ snd (fst x) ++ snd x) (fun kk => k_key kk = fst (fst (fst x))).

Definition part_ok (x : bytes * bytes * bytes * bytes) : Prop :=
  utf8_valid_b (fst (fst (fst x))) = true /\ write_key KDefault (fst (fst (fst x))) = Some (snd (fst x)) /\
  sp (snd (fst (fst x))) /\ sp (snd x).

Lemma part_seg_parses d x : part_ok x -> seg_parses key_part d kend (part_seg x).
Proof. intros (Hu & Hw & Ha & Hb) R HR. cbn [part_seg seg_txt seg_ok]. apply key_part_pto; assumption. Qed.

Lemma key_path_pto d x0 l R :
  part_ok x0 -> Forall part_ok l -> kend R -> stops (byte_eqb DOT_SEP) R -> S (length l) < LIMIT ->
  pto key_ (seg_txt (part_seg x0) ++ segs_txt DOT_SEP (map part_seg l)) R d
      (fun kp => map k_key kp = map (fun x => fst (fst (fst x))) (x0 :: l)).
Proof.
  intros H0 Hl HR Hdot Hlen p.
  assert (Hsegs : Forall (seg_parses key_part d kend) (map part_seg l)).
  { clear - Hl. induction Hl; constructor; [apply part_seg_parses|]; assumption. }
  destruct (separated1_segs key_part DOT_SEP d kend kend_dot _ _ R (part_seg_parses d x0 H0) Hsegs HR Hdot p)
    as (res & p1 & E & Hres).
  assert (Hkeys : map k_key res = map (fun x => fst (fst (fst x))) (x0 :: l)).
  { clear - Hres. change (x0 :: l) with ([x0] ++ l) in *. 
    assert (G : forall xs res, Forall2 (fun s a => seg_ok s a) (map part_seg xs) res ->
                               map k_key res = map (fun x => fst (fst (fst x))) xs).
    { induction xs as [|x xs IH]; intros res0 H; inversion H; subst; [reflexivity|].
      cbn [map]. f_equal; [assumption|apply IH; assumption]. }
    apply (G (x0 :: l)). exact Hres. }
  assert (Hne : res <> []) by (intro; subst; discriminate).
  destruct (fix_key_path_keys res Hne) as (p' & Ef & Ek).
  exists p', p1. split; [|congruence].
  unfold key_. rewrite <- app_assoc.
  rewrite (bind_ok _ _ _ res (mkIn R p1 d)).
  2:{ unfold try_map. rewrite (context_ok _ _ _ _ E).
      assert (El : length res = S (length l)).
      { apply (f_equal (@length bytes)) in Hkeys. rewrite !map_length in Hkeys. exact Hkeys. }
      unfold check_depth. rewrite El. destruct (Nat.leb LIMIT (S (length l))) eqn:E1; [apply Nat.leb_le in E1; lia|reflexivity]. }
  rewrite Ef. reflexivity.
Qed.

(* the text of the printed key path of a constructed key *)
Lemma key_display_repr_new k tk : write_key KDefault k = Some tk -> key_display_repr (key_new k) = tk.
Proof. intro H. unfold key_display_repr, key_new. cbn [k_repr repr_str k_key]. rewrite H. reflexivity. Qed.

Lemma encode_key_path_one k tk dflt : write_key KDefault k = Some tk ->
  encode_key_path [key_new k] dflt = fst dflt ++ tk ++ snd dflt.
Proof.
  intro H. unfold encode_key_path. cbn [rev app encode_key_path_loop]. rewrite (key_display_repr_new k tk H).
  unfold decor_prefix, decor_suffix, key_new. cbn [k_leaf d_prefix d_suffix decor_default]. rewrite app_nil_r. reflexivity.
Qed.

(* a single key between blanks, as in `{ k = v }` and `k = v`, in front of `=` *)
Lemma key_one_pto d k tk a b R :
  utf8_valid_b k = true -> write_key KDefault k = Some tk -> sp a -> sp b ->
  pto key_ (a ++ tk ++ b) (x3d :: R) d (fun kp => exists kk, kp = [kk] /\ k_key kk = k).
Proof.
  intros Hu Hw Ha Hb.
  pose proof (key_path_pto d (k, a, tk, b) [] (x3d :: R)) as H. cbn [part_seg seg_txt map segs_txt fst snd] in H.
  rewrite app_nil_r in H.
  eapply pto_weaken; [apply H|].
  - repeat split; assumption.
  - constructor.
  - apply kend_eq.
  - reflexivity.
  - cbn [length]. unfold LIMIT. lia.
  - intros kp Hk. cbn [map fst] in Hk. destruct kp as [|kk [|? ?]]; try discriminate.
    exists kk. split; [reflexivity|]. injection Hk as ->. reflexivity.
Qed.
