(* Proofs/SerdeRTBase.v — list / table / lookup facts used by the C07 proofs. *)
From TV Require Import Base.Prelude Spec.SerdeData Model.Ser Model.De.

(* ---- results ---- *)
Lemma rbind_ok {A B} (r : result A) (f : A -> result B) b :
  rbind r f = Ok b -> exists a, r = Ok a /\ f a = Ok b.
Proof. destruct r; simpl; [eauto|discriminate]. Qed.
Lemma rmap_ok {A B} (f : A -> B) (r : result A) b :
  rmap f r = Ok b -> exists a, r = Ok a /\ b = f a.
Proof. destruct r; simpl; [intro H; injection H as <-; eauto|discriminate]. Qed.
Lemma rbind_err {A B} (r : result A) (f : A -> result B) e :
  rbind r f = Err e -> r = Err e \/ exists a, r = Ok a /\ f a = Err e.
Proof. destruct r; simpl; [eauto|intro H; left; congruence]. Qed.
Lemma rmap_err {A B} (f : A -> B) (r : result A) e : rmap f r = Err e -> r = Err e.
Proof. destruct r; simpl; [discriminate|congruence]. Qed.

(* ---- Forall3 ---- *)
Inductive Forall3 {A B C : Type} (R : A -> B -> C -> Prop) : list A -> list B -> list C -> Prop :=
| Forall3_nil : Forall3 R [] [] []
| Forall3_cons a b c la lb lc : R a b c -> Forall3 R la lb lc -> Forall3 R (a :: la) (b :: lb) (c :: lc).

Lemma Forall3_impl {A B C} (R R' : A -> B -> C -> Prop) la lb lc :
  (forall a b c, In a la -> R a b c -> R' a b c) -> Forall3 R la lb lc -> Forall3 R' la lb lc.
Proof.
  intros H F. induction F; constructor.
  - apply H; [left; reflexivity|assumption].
  - apply IHF. intros; apply H; [right|]; assumption.
Qed.

Lemma Forall3_length {A B C} (R : A -> B -> C -> Prop) la lb lc :
  Forall3 R la lb lc -> length la = length lb /\ length lc = length la.
Proof. induction 1; simpl; [auto|]. destruct IHForall3. split; congruence. Qed.

Lemma mapM_ok {A C} (f : A -> result C) l cs :
  mapM f l = Ok cs -> Forall2 (fun a c => f a = Ok c) l cs.
Proof.
  revert cs; induction l as [|a l IH]; simpl; intros cs H.
  - injection H as <-. constructor.
  - apply rbind_ok in H as (c & Hc & H). apply rbind_ok in H as (cs' & Hcs & H). injection H as <-.
    constructor; [exact Hc | apply IH; exact Hcs].
Qed.

Lemma zipM_ok {A B C} (g : A -> B -> result C) l1 l2 cs :
  zipM g l1 l2 = Ok cs -> Forall3 (fun a b c => g a b = Ok c) l1 l2 cs.
Proof.
  revert l2 cs; induction l1 as [|a l1 IH]; intros [|b l2] cs H; simpl in H; try discriminate.
  - injection H as <-. constructor.
  - apply rbind_ok in H as (c & Hc & H). apply rbind_ok in H as (cs' & Hcs & H). injection H as <-.
    constructor; [exact Hc | apply IH; exact Hcs].
Qed.

Lemma mapM_of_Forall2 {A C} (f : A -> result C) l cs :
  Forall2 (fun a c => f a = Ok c) l cs -> mapM f l = Ok cs.
Proof. induction 1; simpl; [reflexivity|]. rewrite H, IHForall2. reflexivity. Qed.

Lemma zipM_of_Forall3 {A B C} (g : A -> B -> result C) l1 l2 cs :
  Forall3 (fun a b c => g a b = Ok c) l1 l2 cs -> zipM g l1 l2 = Ok cs.
Proof. induction 1; simpl; [reflexivity|]. rewrite H, IHForall3. reflexivity. Qed.

(* the first failing element of a mapM / zipM *)
Lemma mapM_err {A C} (f : A -> result C) l e :
  mapM f l = Err e -> exists a, In a l /\ f a = Err e.
Proof.
  induction l as [|a l IH]; simpl; intro H; [discriminate|].
  apply rbind_err in H as [H|(c & Hc & H)]; [exists a; auto|].
  apply rbind_err in H as [H|(cs & Hcs & H)]; [|discriminate].
  destruct (IH H) as (a' & Hin & Ha'). exists a'; auto.
Qed.

Lemma zipM_err {A B C} (g : A -> B -> result C) l1 l2 e :
  length l1 = length l2 -> zipM g l1 l2 = Err e ->
  exists i a b, nth_error l1 i = Some a /\ nth_error l2 i = Some b /\ g a b = Err e.
Proof.
  revert l2; induction l1 as [|a l1 IH]; intros [|b l2] Hl H; simpl in *; try discriminate.
  apply rbind_err in H as [H|(c & Hc & H)]; [exists 0%nat, a, b; auto|].
  apply rbind_err in H as [H|(cs & Hcs & H)]; [|discriminate].
  destruct (IH l2 ltac:(congruence) H) as (i & a' & b' & H1 & H2 & H3). exists (S i), a', b'; auto.
Qed.

(* ---- all2b ---- *)
Lemma all2b_Forall2 {A B} (f : A -> B -> bool) l1 l2 :
  all2b f l1 l2 = true <-> Forall2 (fun a b => f a b = true) l1 l2.
Proof.
  revert l2; induction l1 as [|a l1 IH]; intros [|b l2]; simpl; split; intro H; try discriminate; try constructor;
    try (inversion H; fail).
  - apply andb_true_iff in H as [H1 H2]. exact H1.
  - apply andb_true_iff in H as [H1 H2]. apply IH; exact H2.
  - inversion H; subst. apply andb_true_iff; split; [assumption|apply IH; assumption].
Qed.

Lemma Forall2_In_l {A B} (R : A -> B -> Prop) l1 l2 a :
  Forall2 R l1 l2 -> In a l1 -> exists b, In b l2 /\ R a b.
Proof.
  induction 1 as [|x y l1 l2 Hxy _ IH]; intro Hin; [contradiction|]. destruct Hin as [->|Hin].
  - exists y. split; [left; reflexivity|exact Hxy].
  - destruct (IH Hin) as (b & Hb & Hr). exists b. split; [right; exact Hb|exact Hr].
Qed.

Lemma Forall2_length' {A B} (R : A -> B -> Prop) l1 l2 : Forall2 R l1 l2 -> length l1 = length l2.
Proof. induction 1; simpl; congruence. Qed.

(* ---- byte-string lists ---- *)
Lemma mem_bytes_In k l : mem_bytes k l = true <-> In k l.
Proof.
  induction l as [|x l IH]; simpl; [split; [discriminate|tauto]|].
  rewrite orb_true_iff, bytes_eqb_eq, IH. split; intros [H|H]; auto.
Qed.
Lemma mem_bytes_false k l : mem_bytes k l = false <-> ~ In k l.
Proof. rewrite <- mem_bytes_In. destruct (mem_bytes k l); split; congruence. Qed.

Lemma nodup_bytes_NoDup l : nodup_bytes l = true <-> NoDup l.
Proof.
  induction l as [|x l IH]; simpl; [split; [constructor|reflexivity]|].
  rewrite andb_true_iff, negb_true_iff, mem_bytes_false, IH. split.
  - intros [H1 H2]; constructor; assumption.
  - intro H; inversion H; auto.
Qed.

Lemma bytes_eqb_neq a b : bytes_eqb a b = false <-> a <> b.
Proof. rewrite <- bytes_eqb_eq. destruct (bytes_eqb a b); split; congruence. Qed.
Lemma bytes_eqb_sym a b : bytes_eqb a b = bytes_eqb b a.
Proof.
  destruct (bytes_eqb a b) eqn:E.
  - apply bytes_eqb_eq in E; subst. symmetry; apply bytes_eqb_refl.
  - symmetry. apply bytes_eqb_neq. apply bytes_eqb_neq in E. congruence.
Qed.

(* ---- pick / find_name ---- *)
Lemma pick_nth {A R} (f : A -> R) d l i a : nth_error l i = Some a -> pick f d l i = f a.
Proof.
  revert i; induction l as [|x l IH]; intros [|i] H; simpl in *; try discriminate.
  - injection H as ->. reflexivity.
  - apply IH; exact H.
Qed.
Lemma pick_none {A R} (f : A -> R) d l i : nth_error l i = None -> pick f d l i = d.
Proof.
  revert i; induction l as [|x l IH]; intros [|i] H; simpl in *; try discriminate; try reflexivity.
  apply IH; exact H.
Qed.
Lemma pick_cases {A R} (f : A -> R) d l i :
  (exists a, nth_error l i = Some a /\ pick f d l i = f a) \/ (nth_error l i = None /\ pick f d l i = d).
Proof.
  destruct (nth_error l i) as [a|] eqn:E; [left; exists a; split; [reflexivity|apply pick_nth; exact E]|].
  right; split; [reflexivity|apply pick_none; exact E].
Qed.

Lemma find_name_nth {A R} (f : nat -> A -> R) d l : forall i j n a,
  NoDup (map fst l) -> nth_error l i = Some (n, a) -> find_name f d n l j = f (j + i)%nat a.
Proof.
  induction l as [|[n' a'] l IH]; intros [|i] j n a Hnd H; simpl in *; try discriminate.
  - injection H as -> ->. rewrite bytes_eqb_refl. f_equal. lia.
  - inversion Hnd as [|? ? Hnot Hnd']; subst.
    assert (Hne : bytes_eqb n' n = false).
    { apply bytes_eqb_neq. intro; subst. apply Hnot. apply nth_error_In in H. apply (in_map fst) in H. exact H. }
    rewrite Hne. rewrite (IH i (S j) n a Hnd' H). f_equal. lia.
Qed.

(* ---- tables ---- *)
Lemma tab_insert_fresh k x es : ~ In k (map fst es) -> tab_insert k x es = es ++ [(k, x)].
Proof.
  induction es as [|[k' x'] es IH]; simpl; intro H; [reflexivity|].
  assert (bytes_eqb k' k = false) as -> by (apply bytes_eqb_neq; intro; subst; apply H; left; reflexivity).
  rewrite IH; [reflexivity|]. intro; apply H; right; assumption.
Qed.

Lemma tab_of_pairs_nodup_gen ps : forall acc,
  NoDup (map fst acc ++ map fst ps) ->
  fold_left (fun acc p => tab_insert (fst p) (snd p) acc) ps acc = acc ++ ps.
Proof.
  induction ps as [|[k x] ps IH]; intros acc H; simpl; [rewrite app_nil_r; reflexivity|].
  simpl in H. rewrite tab_insert_fresh.
  - rewrite IH; [rewrite <- app_assoc; reflexivity|].
    rewrite map_app; simpl. rewrite <- app_assoc. exact H.
  - apply NoDup_remove_2 in H. intro Hin. apply H. apply in_or_app; left; exact Hin.
Qed.

Lemma tab_of_pairs_nodup ps : NoDup (map fst ps) -> tab_of_pairs ps = ps.
Proof. intro H. unfold tab_of_pairs. rewrite tab_of_pairs_nodup_gen; [reflexivity|exact H]. Qed.

Lemma tab_get_notin k es : ~ In k (map fst es) -> tab_get k es = None.
Proof.
  induction es as [|[k' x] es IH]; simpl; intro H; [reflexivity|].
  assert (bytes_eqb k' k = false) as -> by (apply bytes_eqb_neq; intro; subst; apply H; left; reflexivity).
  apply IH. intro; apply H; right; assumption.
Qed.

Lemma tab_get_In k x es : NoDup (map fst es) -> In (k, x) es -> tab_get k es = Some x.
Proof.
  induction es as [|[k' x'] es IH]; simpl; intros Hnd Hin; [contradiction|]. destruct Hin as [H|H].
  - injection H as -> ->. rewrite bytes_eqb_refl. reflexivity.
  - inversion Hnd as [|? ? Hnot Hnd']; subst.
    assert (bytes_eqb k' k = false) as ->.
    { apply bytes_eqb_neq; intro; subst. apply Hnot. apply (in_map fst) in H. exact H. }
    apply IH; assumption.
Qed.

(* ---- somes ---- *)
Lemma somes_In {A} (a : A) l : In a (somes l) <-> In (Some a) l.
Proof.
  induction l as [|[x|] l IH]; simpl; [tauto| |].
  - rewrite IH. split; intros [H|H]; auto; [left; congruence|left; congruence].
  - rewrite IH. split; [auto|intros [H|H]; [discriminate|assumption]].
Qed.

(* ---- roots ---- *)
Lemma root_table_inv x y : root_table x = Ok y -> exists es, y = VTab es /\ x = y.
Proof. destruct x; simpl; intro H; try discriminate. injection H as <-. eauto. Qed.

Lemma edit_root_is_table t v out : ser_edit_root t v = Ok out -> exists es, out = VTab es /\ ser_value t v = Ok out.
Proof.
  unfold ser_edit_root. destruct (ser_value t v) as [x|e]; simpl; [|discriminate].
  intro H. apply root_table_inv in H as (es & -> & ->). eauto.
Qed.
