(* Proofs/WFSem.v — WF backbone, specification side, part 1: key/value statements with dotted keys.

   A "dotted forest" is what the key/value lines of one section (or the pairs of one inline table) define: values,
   and tables made of dotted keys holding dotted forests.  Flattened into (key path, value) pairs — as the
   printer flattens it — and folded with `insert_kv` of Spec/Defs.v, it gives itself back, appended to what the
   table held before (under fresh keys). *)
From TV Require Import Base.Prelude Spec.Defs.
Require Import Lia.

Section DF.
  Variable V : Type.
  Local Notation T := (stree V).

  (* a dotted forest *)
  Inductive dnode : Type :=
  | DV (v : V)
  | DT (l : list (bytes * dnode)).

  Fixpoint dflat_node (k : bytes) (n : dnode) : list (list bytes * V) :=
    match n with
    | DV v => [([k], v)]
    | DT l => map (fun pv => (k :: fst pv, snd pv)) (flat_map (fun kn => dflat_node (fst kn) (snd kn)) l)
    end.
  Definition dflat (l : list (bytes * dnode)) : list (list bytes * V) :=
    flat_map (fun kn => dflat_node (fst kn) (snd kn)) l.

  Fixpoint dres_node (n : dnode) : node V :=
    match n with
    | DV v => NVal v
    | DT l => NTab KDotted (map (fun kn => (fst kn, dres_node (snd kn))) l)
    end.
  Definition dres (l : list (bytes * dnode)) : T := map (fun kn => (fst kn, dres_node (snd kn))) l.

  (* well-formed: keys distinct at every level, every table has an entry *)
  Inductive dwf_node : dnode -> Prop :=
  | dwf_v v : dwf_node (DV v)
  | dwf_t l : l <> [] -> NoDup (map fst l) -> Forall dwf_node (map snd l) -> dwf_node (DT l).
  Definition dwf (l : list (bytes * dnode)) : Prop := NoDup (map fst l) /\ Forall dwf_node (map snd l).

  Lemma dwf_node_strong (P : dnode -> Prop) :
    (forall v, P (DV v)) ->
    (forall l, l <> [] -> NoDup (map fst l) -> Forall dwf_node (map snd l) -> Forall P (map snd l) -> P (DT l)) ->
    forall n, dwf_node n -> P n.
  Proof.
    intros H1 H2. fix IH 2. intros n Hn. destruct Hn as [v | l Hne Hnd Hl]; [apply H1|].
    apply H2; auto. induction Hl; constructor; [apply IH; assumption|assumption].
  Qed.

  (* ---- association lists of the specification --------------------------------------------------------------- *)
  Lemma sget_app_none (a b : T) k : sget a k = None -> sget (a ++ b) k = sget b k.
  Proof. induction a as [|[k' n] a IH]; cbn [sget app]; [auto|]. destruct (bytes_eqb k' k); [discriminate|exact IH]. Qed.
  Lemma sget_none_notin (a : T) k : sget a k = None <-> ~ In k (map fst a).
  Proof.
    induction a as [|[k' n] a IH]; cbn [sget map fst In]; [tauto|]. destruct (bytes_eqb k' k) eqn:E.
    - apply bytes_eqb_eq in E. subst. split; [discriminate|]. intro H. exfalso. apply H. left. reflexivity.
    - rewrite IH. split; [intros H [X|X]; [subst; rewrite bytes_eqb_refl in E; discriminate|tauto]|tauto].
  Qed.
  Lemma sget_spush_new (t : T) k n : sget t k = None -> sget (spush t k n) k = Some n.
  Proof. intro H. unfold spush. rewrite (sget_app_none _ _ _ H). cbn [sget]. rewrite bytes_eqb_refl. reflexivity. Qed.
  Lemma sset_spush_new (t : T) k n n' : sget t k = None -> sset (spush t k n) k n' = spush t k n'.
  Proof.
    unfold spush. induction t as [|[k' m] t IH]; cbn [sget sset app]; [rewrite bytes_eqb_refl; reflexivity|].
    destruct (bytes_eqb k' k); [discriminate|]. intro H. rewrite (IH H). reflexivity.
  Qed.
  Lemma sget_sset_same (t : T) k n n' : sget t k = Some n -> sget (sset t k n') k = Some n'.
  Proof.
    induction t as [|[k' m] t IH]; cbn [sget sset]; [discriminate|]. destruct (bytes_eqb k' k) eqn:E; cbn [sget]; rewrite E; auto.
  Qed.
  Lemma sset_sset (t : T) k n n' : sset (sset t k n) k n' = sset t k n'.
  Proof.
    induction t as [|[k' m] t IH]; [reflexivity|]. cbn [sset]. destruct (bytes_eqb k' k) eqn:E; cbn [sset]; rewrite E; [reflexivity|].
    rewrite IH. reflexivity.
  Qed.

  (* ---- folding key/value pairs ---------------------------------------------------------------------------------- *)
  Lemma inline_fold_app (t : T) a b :
    inline_fold t (a ++ b) = rbind (inline_fold t a) (fun t' => inline_fold t' b).
  Proof.
    revert t. induction a as [|[p v] a IH]; intro t; cbn [app inline_fold]; [reflexivity|].
    destruct (insert_kv true p v t); cbn [rbind]; auto.
  Qed.

  Lemma insert_kv_cons strict k k1 p1 v (t : T) :
    insert_kv strict (k :: k1 :: p1) v t =
    match sget t k with
    | None => rbind (insert_kv strict (k1 :: p1) v []) (fun c => ROk (spush t k (NTab KDotted c)))
    | Some (NTab KDotted c) => rbind (insert_kv strict (k1 :: p1) v c) (fun c' => ROk (sset t k (NTab KDotted c')))
    | Some (NTab KSuper c) =>
      if strict then RUndecided
      else match p1 with
           | [] => RInvalid
           | _ => rbind (insert_kv strict (k1 :: p1) v c) (fun c' => ROk (sset t k (NTab KSuper c')))
           end
    | Some _ => RInvalid
    end.
  Proof. reflexivity. Qed.

  (* pairs below the dotted table k, which exists and holds c *)
  Lemma fold_under k : forall ps c c' (t : T),
    Forall (fun pv => fst pv <> []) ps ->
    inline_fold c ps = ROk c' -> sget t k = Some (NTab KDotted c) ->
    inline_fold t (map (fun pv => (k :: fst pv, snd pv)) ps) = ROk (sset t k (NTab KDotted c')).
  Proof.
    induction ps as [|[p v] ps IH]; intros c c' t Hne H G; cbn [map inline_fold fst snd] in *.
    - inversion H; subst. f_equal. clear -G. induction t as [|[k' m] t IH]; cbn [sget sset] in *; [discriminate|].
      destruct (bytes_eqb k' k) eqn:E; [apply bytes_eqb_eq in E; inversion G; subst; reflexivity|]. f_equal. exact (IH G).
    - inversion Hne as [|? ? Hp Hps]; subst. cbn [fst] in Hp. destruct p as [|k1 p1]; [congruence|].
      destruct (insert_kv true (k1 :: p1) v c) as [c1| |] eqn:I; cbn [rbind] in H; try discriminate.
      rewrite insert_kv_cons, G, I. cbn [rbind].
      rewrite (IH c1 c' (sset t k (NTab KDotted c1)) Hps H (sget_sset_same _ _ _ _ G)). rewrite sset_sset. reflexivity.
  Qed.
  (* ... which does not exist yet *)
  Lemma fold_new k : forall ps c' (t : T),
    ps <> [] -> Forall (fun pv => fst pv <> []) ps ->
    inline_fold [] ps = ROk c' -> sget t k = None ->
    inline_fold t (map (fun pv => (k :: fst pv, snd pv)) ps) = ROk (spush t k (NTab KDotted c')).
  Proof.
    intros [|[p v] ps] c' t Hn Hne H G; [congruence|]. cbn [map inline_fold fst snd] in *.
    inversion Hne as [|? ? Hp Hps]; subst. cbn [fst] in Hp. destruct p as [|k1 p1]; [congruence|].
    destruct (insert_kv true (k1 :: p1) v []) as [c1| |] eqn:I; cbn [rbind] in H; try discriminate.
    rewrite insert_kv_cons, G, I. cbn [rbind].
    rewrite (fold_under k ps c1 c' (spush t k (NTab KDotted c1)) Hps H (sget_spush_new _ _ _ G)).
    rewrite (sset_spush_new _ _ _ _ G). reflexivity.
  Qed.

  Lemma dflat_node_paths k n : Forall (fun pv => fst pv <> []) (dflat_node k n).
  Proof.
    destruct n as [v|l]; cbn [dflat_node]; [constructor; [discriminate|constructor]|].
    apply Forall_forall. intros pv Hin. apply in_map_iff in Hin as (x & <- & _). discriminate.
  Qed.
  Lemma dflat_paths l : Forall (fun pv => fst pv <> []) (dflat l).
  Proof.
    unfold dflat. induction l as [|[k n] l IH]; [constructor|]. cbn [flat_map fst snd]. apply Forall_app. split; [apply dflat_node_paths|exact IH].
  Qed.
  Lemma dflat_node_nonempty : forall n, dwf_node n -> forall k, dflat_node k n <> [].
  Proof.
    apply (dwf_node_strong (fun n => forall k, dflat_node k n <> [])).
    - intros v k. discriminate.
    - intros l Hne Hnd Hl IH k. cbn [dflat_node]. destruct l as [|[k1 n1] l]; [congruence|].
      cbn [flat_map fst snd map] in *. inversion IH as [|? ? H1 _]; subst.
      intro E. apply map_eq_nil in E. apply app_eq_nil in E as [E _]. exact (H1 k1 E).
  Qed.

  (* the pairs of a well-formed dotted forest, folded into a table that has none of its keys, append the forest *)
  Definition node_folds (n : dnode) : Prop :=
    forall k (t : T), sget t k = None -> inline_fold t (dflat_node k n) = ROk (spush t k (dres_node n)).

  Lemma dfold_list : forall l, NoDup (map fst l) -> Forall node_folds (map snd l) ->
    forall acc : T, (forall x, In x (map fst l) -> ~ In x (map fst acc)) ->
    inline_fold acc (dflat l) = ROk (acc ++ dres l).
  Proof.
    unfold dflat, dres. induction l as [|[k1 n1] l IHl]; intros Hnd IH acc Hd; cbn [flat_map map fst snd].
    - rewrite app_nil_r. reflexivity.
    - cbn [map fst snd] in Hnd, IH. inversion Hnd as [|? ? Hk1 Hnd']; subst. inversion IH as [|? ? H1 IH']; subst.
      rewrite inline_fold_app. rewrite (H1 k1 acc); [|apply sget_none_notin, Hd; left; reflexivity]. cbn [rbind].
      rewrite (IHl Hnd' IH').
      + unfold spush. rewrite <- app_assoc. reflexivity.
      + intros x Hx. unfold spush. rewrite map_app. cbn [map fst]. intro Hin. apply in_app_or in Hin as [Hin|[<-|[]]].
        * exact (Hd x (or_intror Hx) Hin).
        * exact (Hk1 Hx).
  Qed.

  Lemma dflat_nonempty l : l <> [] -> Forall dwf_node (map snd l) -> dflat l <> [].
  Proof.
    destruct l as [|[k1 n1] l]; [congruence|]. intros _ Hl. cbn [map snd] in Hl. inversion Hl as [|? ? H1 _]; subst.
    unfold dflat. cbn [flat_map fst snd]. intro E. apply app_eq_nil in E as [E _]. exact (dflat_node_nonempty _ H1 k1 E).
  Qed.

  Lemma dfold_node : forall n, dwf_node n -> node_folds n.
  Proof.
    apply (dwf_node_strong node_folds).
    - intros v k t G. cbn [dflat_node inline_fold insert_kv dres_node]. rewrite G. reflexivity.
    - intros l Hne Hnd Hl IH k t G. cbn [dflat_node dres_node]. fold (dflat l). fold (dres l).
      apply fold_new; [apply dflat_nonempty; assumption|apply dflat_paths| |exact G].
      rewrite (dfold_list l Hnd IH []); [reflexivity|]. intros x _ [].
  Qed.

  Theorem dfold l (acc : T) : dwf l -> (forall x, In x (map fst l) -> ~ In x (map fst acc)) ->
    inline_fold acc (dflat l) = ROk (acc ++ dres l).
  Proof.
    intros [Hnd Hl] Hd. apply dfold_list; [exact Hnd| |exact Hd].
    clear -Hl. induction Hl; constructor; [apply dfold_node; assumption|assumption].
  Qed.
  Corollary dfold_run l : dwf l -> inline_run (dflat l) = Some (dres l).
  Proof. intro H. unfold inline_run. rewrite (dfold l [] H); [reflexivity|]. intros x _ []. Qed.
End DF.
Arguments DV {V}. Arguments DT {V}.

(* ---- changing the values of a dotted forest (used with W = unit for `aval_ok`) ------------------------------------ *)
Section DMap.
  Context {V W : Type}.
  Variable f : V -> W.
  Fixpoint dmap (n : dnode V) : dnode W :=
    match n with
    | DV v => DV (f v)
    | DT l => DT (map (fun kn => (fst kn, dmap (snd kn))) l)
    end.
  Definition dmapf (l : list (bytes * dnode V)) : list (bytes * dnode W) := map (fun kn => (fst kn, dmap (snd kn))) l.

  Lemma dmapf_keys l : map fst (dmapf l) = map fst l.
  Proof. unfold dmapf. rewrite map_map. reflexivity. Qed.

  Lemma dmap_flat_wf : forall n, dwf_node V n ->
    dwf_node W (dmap n) /\ forall k, dflat_node W k (dmap n) = map (fun pv => (fst pv, f (snd pv))) (dflat_node V k n).
  Proof.
    apply (dwf_node_strong V (fun n => dwf_node W (dmap n) /\
             forall k, dflat_node W k (dmap n) = map (fun pv => (fst pv, f (snd pv))) (dflat_node V k n))).
    - intro v. split; [constructor|reflexivity].
    - intros l Hne Hnd Hl IH. cbn [dmap]. fold (dmapf l). split.
      + constructor; [destruct l; [congruence|discriminate]|rewrite dmapf_keys; exact Hnd|].
        unfold dmapf. rewrite map_map. cbn [snd]. clear -IH. induction l as [|[k n] l IHl]; [constructor|].
        cbn [map snd] in *. inversion IH as [|? ? [H1 _] H2]; subst. constructor; auto.
      + intro k. cbn [dflat_node]. rewrite map_map. cbn [fst snd].
        assert (E : flat_map (fun kn => dflat_node W (fst kn) (snd kn)) (dmapf l)
                    = map (fun pv => (fst pv, f (snd pv))) (flat_map (fun kn => dflat_node V (fst kn) (snd kn)) l)).
        { clear -IH. unfold dmapf. induction l as [|[k1 n1] l IHl]; [reflexivity|]. cbn [map flat_map fst snd] in *.
          inversion IH as [|? ? [_ H1] H2]; subst. rewrite map_app, H1, IHl by exact H2. reflexivity. }
        rewrite E, map_map. reflexivity.
  Qed.
  Lemma dmapf_wf l : dwf V l -> dwf W (dmapf l).
  Proof.
    intros [Hnd Hl]. split; [rewrite dmapf_keys; exact Hnd|]. unfold dmapf. rewrite map_map. cbn [snd].
    clear -Hl. induction l as [|[k n] l IH]; [constructor|]. cbn [map snd] in *. inversion Hl; subst. constructor; [apply dmap_flat_wf; assumption|auto].
  Qed.
  Lemma dmapf_flat l : dwf V l -> dflat W (dmapf l) = map (fun pv => (fst pv, f (snd pv))) (dflat V l).
  Proof.
    intros [_ Hl]. unfold dflat, dmapf. induction l as [|[k n] l IH]; [reflexivity|]. cbn [map flat_map fst snd] in *.
    inversion Hl; subst. rewrite map_app, IH by assumption. f_equal. apply dmap_flat_wf. assumption.
  Qed.
End DMap.
