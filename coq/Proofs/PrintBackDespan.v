(* Proofs/PrintBackDespan.v — C03: `despan` (ImDocument::into_mut) substitutes the slice of the source
   for every span; when it succeeds (C14: always for a parsed document) its result is the total
   substitution `ttbl`, so the printed text `print_doc s d` of Extract/Commands.v is `render s d`. *)
From TV Require Import Base.Prelude Base.Utf8 Base.Winnow Gen.Consts.
From TV Require Import Model.Datetime Model.DatetimeStd Model.Numbers Model.Tree Model.Parse Model.Document Model.Write Model.Encode.
From TV Require Import Proofs.SpansDefs Proofs.SpansDespan Proofs.PrintBackBase Proofs.PrintBackValue Proofs.PrintBackDoc.

Section D.
  Variable s : bytes.

  Lemma oraw_despan_t o o' : oraw_despan s o = Some o' -> o' = toraw s o.
  Proof.
    destruct o as [r|]; cbn [oraw_despan toraw]; intro H; [|injection H as <-; reflexivity].
    destruct (raw_despan s r) as [r'|] eqn:R; [|discriminate]. injection H as <-. rewrite (raw_despan_traw s r r' R). reflexivity.
  Qed.

  Lemma decor_despan_t d d' : decor_despan s d = Some d' -> d' = tdecor s d.
  Proof.
    unfold decor_despan, tdecor. destruct (oraw_despan s (d_prefix d)) as [p|] eqn:P; [|discriminate].
    destruct (oraw_despan s (d_suffix d)) as [x|] eqn:S; [|discriminate]. intro H. injection H as <-.
    rewrite (oraw_despan_t _ _ P), (oraw_despan_t _ _ S). reflexivity.
  Qed.

  Lemma key_despan_t k k' : key_despan s k = Some k' -> k' = tkey s k.
  Proof.
    unfold key_despan, tkey. destruct (decor_despan s (k_leaf k)) as [l|] eqn:L; [|discriminate].
    destruct (decor_despan s (k_dotted k)) as [d|] eqn:D; [|discriminate].
    destruct (oraw_despan s (k_repr k)) as [r|] eqn:R; [|discriminate]. intro H. injection H as <-.
    rewrite (oraw_despan_t _ _ R), (decor_despan_t _ _ L), (decor_despan_t _ _ D). reflexivity.
  Qed.

  Lemma omap_list_map {A B} (f : A -> option B) (g : A -> B) : forall l l',
    Forall (fun a => forall b, f a = Some b -> b = g a) l -> omap_list f l = Some l' -> l' = map g l.
  Proof.
    induction l as [|a l IH]; intros l' Hf H; cbn [omap_list] in H.
    - injection H as <-. reflexivity.
    - inversion Hf as [|? ? Ha Hl]; subst. destruct (f a) as [b|] eqn:Fa; [|discriminate].
      change ((fix go (l : list A) : option (list B) :=
                 match l with [] => Some [] | a :: tl => match f a, go tl with Some b, Some r => Some (b :: r) | _, _ => None end end) l)
        with (omap_list f l) in H.
      destruct (omap_list f l) as [r|] eqn:R; [|discriminate]. injection H as <-. cbn [map].
      rewrite (Ha _ eq_refl), (IH _ Hl eq_refl). reflexivity.
  Qed.

  Lemma kvs_despan_t (items : list (key * item)) items' :
    Forall (fun kv => forall i', item_despan s (snd kv) = Some i' -> i' = titem s (snd kv)) items ->
    omap_list (kv_despan s) items = Some items' -> items' = map (tkv s) items.
  Proof.
    intros IH H. eapply omap_list_map; [|exact H]. eapply Forall_impl; [|exact IH].
    intros [k0 i0] Hi [k i] E. cbn [kv_despan snd] in *.
    destruct (key_despan s k0) as [k1|] eqn:K; [|discriminate]. destruct (item_despan s i0) as [i1|] eqn:I0; [|discriminate].
    injection E as <- <-. unfold tkv. cbn [fst snd]. rewrite (key_despan_t _ _ K), (Hi _ eq_refl). reflexivity.
  Qed.

  Lemma titem_aot ts sp : titem s (IAot ts sp) = IAot (map (ttbl s) ts) None.
  Proof. reflexivity. Qed.

  Lemma tree_despan_t :
    (forall v v', value_despan s v = Some v' -> v' = tvalue s v)
    /\ (forall it it', item_despan s it = Some it' -> it' = titem s it)
    /\ (forall t t', tbl_despan s t = Some t' -> t' = ttbl s t).
  Proof.
    apply tree_ind3.
    - intros x r d v' H. cbn [value_despan] in H. destruct (oraw_despan s r) as [r'|] eqn:R; [|discriminate].
      destruct (decor_despan s d) as [d'|] eqn:D; [|discriminate]. injection H as <-.
      rewrite tvalue_scalar, (oraw_despan_t _ _ R), (decor_despan_t _ _ D). reflexivity.
    - intros vals tr c d sp IH v' H. rewrite value_despan_array in H.
      destruct (omap_list (item_despan s) vals) as [vals'|] eqn:V; [|discriminate].
      destruct (raw_despan s tr) as [tr'|] eqn:T; [|discriminate].
      destruct (decor_despan s d) as [d'|] eqn:D; [|discriminate]. injection H as <-.
      rewrite tvalue_array, (omap_list_map _ _ _ _ IH V), (raw_despan_traw _ _ _ T), (decor_despan_t _ _ D). reflexivity.
    - intros items pre im dt d sp IH v' H. rewrite value_despan_inline in H.
      destruct (omap_list (kv_despan s) items) as [items'|] eqn:V; [|discriminate].
      destruct (raw_despan s pre) as [pre'|] eqn:T; [|discriminate].
      destruct (decor_despan s d) as [d'|] eqn:D; [|discriminate]. injection H as <-.
      rewrite tvalue_inline, (kvs_despan_t _ _ IH V), (raw_despan_traw _ _ _ T), (decor_despan_t _ _ D). reflexivity.
    - intros it' H. injection H as <-. reflexivity.
    - intros v IH it' H. change (optmap IValue (value_despan s v) = Some it') in H.
      destruct (value_despan s v) as [v'|] eqn:V; [|discriminate]. injection H as <-. rewrite (IH _ eq_refl). reflexivity.
    - intros t IH it' H. change (optmap ITable (tbl_despan s t) = Some it') in H.
      destruct (tbl_despan s t) as [t'|] eqn:V; [|discriminate]. injection H as <-. rewrite (IH _ eq_refl). reflexivity.
    - intros ts sp IH it' H. rewrite item_despan_aot in H. destruct (omap_list (tbl_despan s) ts) as [ts'|] eqn:V; [|discriminate].
      injection H as <-. rewrite titem_aot, (omap_list_map _ _ _ _ IH V). reflexivity.
    - intros items d im dt p sp IH t' H. rewrite tbl_despan_eq in H.
      destruct (omap_list (kv_despan s) items) as [items'|] eqn:V; [|discriminate].
      destruct (decor_despan s d) as [d'|] eqn:D; [|discriminate]. injection H as <-.
      rewrite ttbl_unfold, (kvs_despan_t _ _ IH V), (decor_despan_t _ _ D). reflexivity.
  Qed.
End D.

(* what the `rt` / `doc` commands print is `render` *)
Theorem print_doc_render s d o : print_doc s d = Some o -> o = render s d.
Proof.
  unfold print_doc, render. destruct (tbl_despan s (doc_root d)) as [r|] eqn:R; [|discriminate].
  destruct (raw_despan s (doc_trailing d)) as [t|] eqn:T; [|discriminate]. intro H. injection H as <-.
  rewrite (proj2 (proj2 (tree_despan_t s)) _ _ R), (raw_despan_traw _ _ _ T). reflexivity.
Qed.
