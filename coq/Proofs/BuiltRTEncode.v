(* Proofs/BuiltRTEncode.v — C06: the text the printer (Model/Encode.v) produces for a constructed
   value, as a structural function `txt` (no fuel), and the induction principle of BuiltValue. *)
From TV Require Import Base.Prelude Base.Utf8 Base.Winnow Gen.Consts.
From TV Require Import Model.Datetime Model.Numbers Model.Tree Model.Write Model.Encode Model.Build.
Require Import Lia ZifyBool ZifyN ZifyNat.

(* ---- induction over constructed values ---------------------------------------------------------- *)
Lemma BuiltValue_sind (PS : scalar -> Prop) (PK : bytes -> Prop) (P : value -> Prop) :
  (forall s d, PS s -> decor_built d -> P (VScalar s None d)) ->
  (forall es d, decor_built d -> Forall (BuiltValue PS PK) es -> Forall P es ->
                P (VArray (map IValue es) REmpty false d None)) ->
  (forall es d, decor_built d -> Forall (BuiltValue PS PK) es -> Forall P es ->
                P (VArray (map (fun e => IValue (ml_elem e)) es) (RExplicit [x0a]) true d None)) ->
  (forall l d, decor_built d -> NoDup (map fst l) -> Forall PK (map fst l) ->
               Forall (BuiltValue PS PK) (map snd l) -> Forall P (map snd l) ->
               P (VInline (mk_inline_items l) REmpty false false d None)) ->
  forall v, BuiltValue PS PK v -> P v.
Proof.
  intros Hs Ha Hm Hi. fix IH 2. intros v Hv. destruct Hv as [s d Hps Hd | es d Hd Hes | es d Hd Hes | l d Hd Hnd Hk Hl].
  - apply Hs; assumption.
  - apply Ha; [exact Hd | exact Hes |].
    induction Hes as [|e es He Hes IHes]; constructor; [apply IH, He | exact IHes].
  - apply Hm; [exact Hd | exact Hes |].
    induction Hes as [|e es He Hes IHes]; constructor; [apply IH, He | exact IHes].
  - apply Hi; [exact Hd | exact Hnd | exact Hk | exact Hl |].
    induction Hl as [|e es He Hes IHes]; constructor; [apply IH, He | exact IHes].
Qed.

(* ---- the text -------------------------------------------------------------------------------------- *)
Section Txt.
  Variable ftext : fval -> bytes.
  Variable PS : scalar -> Prop.
  Variable PK : bytes -> Prop.
  Local Notation BuiltValue := (BuiltValue PS PK).

  Definition scalar_txt (s : scalar) : bytes :=
    match s with SFloat f => ftext f | _ => scalar_default_repr s end.

  (* a token between its decor *)
  Definition wrap (d : decor) (dflt : bytes * bytes) (t : bytes) : bytes :=
    decor_prefix d (fst dflt) ++ t ++ decor_suffix d (snd dflt).

  Definition arr_txt (l : list (decor * bytes)) : bytes :=
    match l with
    | [] => []
    | (d, t) :: tl =>
      wrap d DEFAULT_LEADING_VALUE_DECOR t
      ++ concat (map (fun dt => x2c :: wrap (fst dt) DEFAULT_VALUE_DECOR (snd dt)) tl)
    end.

  Definition key_txt (k : key) : bytes := encode_key_path [k] DEFAULT_INLINE_KEY_DECOR.

  Fixpoint inl_txt (l : list (key * (decor * bytes))) : bytes :=
    match l with
    | [] => []
    | [(k, (d, t))] => key_txt k ++ x3d :: wrap d DEFAULT_TRAILING_VALUE_DECOR t
    | (k, (d, t)) :: tl => key_txt k ++ x3d :: wrap d DEFAULT_VALUE_DECOR t ++ x2c :: inl_txt tl
    end.

  Fixpoint txt (v : value) : bytes :=
    match v with
    | VScalar s _ _ => scalar_txt s
    | VArray vals tr comma _ _ =>
      x5b :: arr_txt (flat_map (fun it => match it with IValue e => [(value_decor e, txt e)] | _ => [] end) vals)
          ++ (if comma && negb (match vals with [] => true | _ => false end) then [x2c] else [])
          ++ raw_encode tr [] ++ [x5d]
    | VInline items _ _ _ _ _ =>
      x7b :: inl_txt (flat_map (fun kv => match kv with
                                          | (k, IValue e) => [(k, (value_decor e, txt e))]
                                          | _ => [] end) items)
          ++ [x7d]
    end.

  Definition etxt (v : value) (dflt : bytes * bytes) : bytes := wrap (value_decor v) dflt (txt v).

  (* on the shapes constructed values have *)
  Lemma txt_array es d sp :
    txt (VArray (map IValue es) REmpty false d sp) = x5b :: arr_txt (map (fun e => (value_decor e, txt e)) es) ++ [x5d].
  Proof.
    cbn [txt andb raw_encode app].
    assert (E : flat_map (fun it => match it with IValue e => [(value_decor e, txt e)] | _ => [] end) (map IValue es)
                = map (fun e => (value_decor e, txt e)) es).
    { induction es as [|e es IH]; [reflexivity|]. cbn [map flat_map app]. f_equal. exact IH. }
    rewrite E. reflexivity.
  Qed.
  (* the multi-line layout: every element on its own line, a comma after each, the bracket on the last line *)
  Lemma txt_ml_elem e : txt (ml_elem e) = txt e.
  Proof. destruct e; reflexivity. Qed.
  Definition ml_decor (e : value) : decor := mkDecor (Some (RExplicit ML_PREFIX)) (d_suffix (value_decor e)).
  Lemma decor_ml_elem e : value_decor (ml_elem e) = ml_decor e.
  Proof. destruct e; reflexivity. Qed.
  Lemma txt_array_ml es d sp :
    txt (VArray (map (fun e => IValue (ml_elem e)) es) (RExplicit [x0a]) true d sp)
    = x5b :: arr_txt (map (fun e => (ml_decor e, txt e)) es) ++ (match es with [] => [] | _ => [x2c] end) ++ [x0a; x5d].
  Proof.
    cbn [txt].
    assert (E : flat_map (fun it => match it with IValue e => [(value_decor e, txt e)] | _ => [] end)
                         (map (fun e => IValue (ml_elem e)) es)
                = map (fun e => (ml_decor e, txt e)) es).
    { induction es as [|e es IH]; [reflexivity|]. cbn [map flat_map app]. rewrite decor_ml_elem, txt_ml_elem. f_equal. exact IH. }
    rewrite E. destruct es; reflexivity.
  Qed.
  Lemma txt_inline l pre im dt d sp :
    txt (VInline (mk_inline_items l) pre im dt d sp)
    = x7b :: inl_txt (map (fun kv => (key_new (fst kv), (value_decor (snd kv), txt (snd kv)))) l) ++ [x7d].
  Proof.
    cbn [txt].
    assert (E : flat_map (fun kv => match kv with (k, IValue e) => [(k, (value_decor e, txt e))] | _ => [] end)
                         (mk_inline_items l)
                = map (fun kv => (key_new (fst kv), (value_decor (snd kv), txt (snd kv)))) l).
    { unfold mk_inline_items. induction l as [|[k e] l IH]; [reflexivity|].
      cbn [map flat_map app fst snd]. f_equal. exact IH. }
    rewrite E. reflexivity.
  Qed.

  (* ---- Encode.encode_value on rendered constructed values ------------------------------------------- *)
  Lemma render_decor v : value_decor (render_value ftext v) = value_decor v.
  Proof. destruct v as [s r d| |]; [destruct s, r|..]; reflexivity. Qed.

  Lemma render_item_value v : render_item ftext (IValue v) = IValue (render_value ftext v).
  Proof. reflexivity. Qed.
  Lemma render_array vals tr c d sp :
    render_value ftext (VArray vals tr c d sp) = VArray (map (render_item ftext) vals) tr c d sp.
  Proof. reflexivity. Qed.
  Lemma render_inline items pre im dt d sp :
    render_value ftext (VInline items pre im dt d sp)
    = VInline (map (fun kv => match kv with (k, i0) => (k, render_item ftext i0) end) items) pre im dt d sp.
  Proof. reflexivity. Qed.
  Lemma render_built_array es tr c d sp :
    render_value ftext (VArray (map IValue es) tr c d sp) = VArray (map IValue (map (render_value ftext) es)) tr c d sp.
  Proof. rewrite render_array, !map_map. reflexivity. Qed.
  Lemma render_built_inline l pre im dt d sp :
    render_value ftext (VInline (mk_inline_items l) pre im dt d sp)
    = VInline (mk_inline_items (map (fun kv => (fst kv, render_value ftext (snd kv))) l)) pre im dt d sp.
  Proof. rewrite render_inline. unfold mk_inline_items. rewrite !map_map. reflexivity. Qed.

  Lemma render_ml_elem e : render_value ftext (ml_elem e) = ml_elem (render_value ftext e).
  Proof. destruct e as [s r d| |]; [destruct s, r|..]; reflexivity. Qed.
  Lemma render_built_array_ml es tr c d sp :
    render_value ftext (VArray (map (fun e => IValue (ml_elem e)) es) tr c d sp)
    = VArray (map (fun e => IValue (ml_elem e)) (map (render_value ftext) es)) tr c d sp.
  Proof.
    rewrite render_array, !map_map. f_equal. apply map_ext. intro e. rewrite render_item_value, render_ml_elem. reflexivity.
  Qed.
  Lemma value_size_ml_elem e : value_size (ml_elem e) = value_size e.
  Proof. destruct e; reflexivity. Qed.

  Lemma value_size_array vals tr c d sp :
    value_size (VArray vals tr c d sp) = S (fold_right (fun it acc => item_size it + acc) 0 vals).
  Proof. reflexivity. Qed.
  Lemma value_size_inline items pre im dt d sp :
    value_size (VInline items pre im dt d sp)
    = S (fold_right (fun kv acc => match kv with (_, i0) => item_size i0 + acc end) 0 items).
  Proof. reflexivity. Qed.
  Lemma item_size_value v : item_size (IValue v) = S (value_size v).
  Proof. reflexivity. Qed.

  Lemma value_size_render : forall v, BuiltValue v -> value_size (render_value ftext v) = value_size v.
  Proof.
    apply BuiltValue_sind.
    - intros s d _ _. destruct s; reflexivity.
    - intros es d _ _ IH. rewrite render_built_array, !value_size_array. f_equal.
      induction IH as [|e es' He _ IHes]; [reflexivity|].
      cbn [map fold_right]. rewrite !item_size_value, He, IHes. reflexivity.
    - intros es d _ _ IH. rewrite render_built_array_ml, !value_size_array. f_equal.
      induction IH as [|e es' He _ IHes]; [reflexivity|].
      cbn [map fold_right]. rewrite !item_size_value, !value_size_ml_elem, He, IHes. reflexivity.
    - intros l d _ _ _ _ IH. rewrite render_built_inline, !value_size_inline. f_equal. unfold mk_inline_items.
      induction l as [|[k e] l IHl]; [reflexivity|].
      cbn [map fst snd] in IH. inversion IH as [|? ? He Hl']; subst.
      cbn [map fold_right fst snd]. rewrite !item_size_value, He, (IHl Hl'). reflexivity.
  Qed.

  (* ---- the loops of encode_array / encode_table, named -------------------------------------------- *)
  Definition enc_elems (enc : value -> bytes * bytes -> bytes) : bool -> list item -> bytes :=
    fix elems (first : bool) (l : list item) : bytes :=
      match l with
      | [] => []
      | it :: tl =>
        (match it with
         | IValue e =>
           (if first then [] else [x2c])
           ++ enc e (if first then DEFAULT_LEADING_VALUE_DECOR else DEFAULT_VALUE_DECOR)
         | _ => []
         end) ++ elems (match it with IValue _ => false | _ => first end) tl
      end.
  Definition enc_kvs (enc : value -> bytes * bytes -> bytes) (len : nat) : nat -> list (list key * value) -> bytes :=
    fix kvs_ (i : nat) (l : list (list key * value)) : bytes :=
      match l with
      | [] => []
      | (kp, e) :: tl =>
        (if Nat.eqb i 0 then [] else [x2c])
        ++ encode_key_path kp DEFAULT_INLINE_KEY_DECOR ++ [x3d]
        ++ enc e (if Nat.eqb i (len - 1) then DEFAULT_TRAILING_VALUE_DECOR else DEFAULT_VALUE_DECOR)
        ++ kvs_ (S i) tl
      end.

  Lemma encode_value_scalar f s r d dflt :
    encode_value (S f) (VScalar s r d) dflt
    = decor_prefix d (fst dflt) ++ (match repr_str r with Some t => t | None => scalar_default_repr s end)
      ++ decor_suffix d (snd dflt).
  Proof. reflexivity. Qed.
  Lemma encode_value_array f vals tr comma d sp dflt :
    encode_value (S f) (VArray vals tr comma d sp) dflt
    = decor_prefix d (fst dflt) ++ [x5b] ++ enc_elems (encode_value f) true vals
      ++ (if comma && negb (match vals with [] => true | _ => false end) then [x2c] else [])
      ++ raw_encode tr [] ++ [x5d] ++ decor_suffix d (snd dflt).
  Proof. reflexivity. Qed.
  Lemma encode_value_inline f items pre im dt d sp dflt :
    encode_value (S f) (VInline items pre im dt d sp) dflt
    = let children := inline_values (S (value_size (VInline items pre im dt d sp))) [] items in
      decor_prefix d (fst dflt) ++ [x7b] ++ raw_encode pre []
      ++ enc_kvs (encode_value f) (length children) 0 children
      ++ [x7d] ++ decor_suffix d (snd dflt).
  Proof. reflexivity. Qed.

  (* the (key path, value) lines of a constructed inline table: one per entry *)
  Lemma built_not_dotted : forall v, BuiltValue v ->
    match render_value ftext v with VInline _ _ _ true _ _ => False | _ => True end.
  Proof. intros v H. destruct H as [s d Hps Hd | es d Hd Hes | es d Hd Hes | l d Hd Hnd Hk Hl]; [destruct s|..]; exact I. Qed.

  Lemma inline_values_built fuel l :
    Forall BuiltValue (map snd l) ->
    inline_values (S fuel) [] (mk_inline_items (map (fun kv => (fst kv, render_value ftext (snd kv))) l))
    = map (fun kv => ([key_new (fst kv)], render_value ftext (snd kv))) l.
  Proof.
    intro H. induction l as [|[k e] l IH]; [reflexivity|].
    cbn [map fst snd] in H. inversion H as [|? ? He Hl]; subst.
    specialize (IH Hl).
    unfold mk_inline_items in IH |- *.
    cbn [map fst snd] in IH |- *. cbn [inline_values flat_map fst snd] in IH |- *.
    rewrite IH. cbn [app].
    pose proof (built_not_dotted e He) as Hnd.
    destruct (render_value ftext e) as [s r d|vals tr c d sp|items pre im dt d sp]; try reflexivity.
    destruct dt; [contradiction|reflexivity].
  Qed.

  (* the indexed loop of encode_table against inl_txt *)
  Lemma inl_txt_one k d t : inl_txt [(k, (d, t))] = key_txt k ++ x3d :: wrap d DEFAULT_TRAILING_VALUE_DECOR t.
  Proof. reflexivity. Qed.
  Lemma inl_txt_cons k d t x tl :
    inl_txt ((k, (d, t)) :: x :: tl) = key_txt k ++ x3d :: wrap d DEFAULT_VALUE_DECOR t ++ x2c :: inl_txt (x :: tl).
  Proof. reflexivity. Qed.

  Lemma enc_kvs_txt (enc : value -> bytes * bytes -> bytes) (len : nat) (l : list (bytes * value)) :
    (forall kv dflt, In kv l -> enc (render_value ftext (snd kv)) dflt = etxt (snd kv) dflt) ->
    forall i, l <> [] -> i + length l = len ->
    enc_kvs enc len i (map (fun kv => ([key_new (fst kv)], render_value ftext (snd kv))) l)
    = (if Nat.eqb i 0 then [] else [x2c])
      ++ inl_txt (map (fun kv => (key_new (fst kv), (value_decor (snd kv), txt (snd kv)))) l).
  Proof.
    induction l as [|[k e] l IH]; intros Henc i Hne Hlen; [contradiction|].
    destruct l as [|[k2 e2] l2].
    - cbn [map enc_kvs fst snd length] in *. f_equal. rewrite inl_txt_one, app_nil_r.
      rewrite (Henc (k, e)) by (left; reflexivity). cbn [snd].
      replace (Nat.eqb i (len - 1)) with true by (symmetry; apply Nat.eqb_eq; lia).
      reflexivity.
    - assert (IH' := IH (fun kv dflt Hin => Henc kv dflt (or_intror Hin)) (S i)).
      clear IH.
      set (l' := (k2, e2) :: l2) in *.
      change (map (fun kv => ([key_new (fst kv)], render_value ftext (snd kv))) ((k, e) :: l'))
        with (([key_new k], render_value ftext e) :: map (fun kv => ([key_new (fst kv)], render_value ftext (snd kv))) l').
      change (enc_kvs enc len i (([key_new k], render_value ftext e) :: map (fun kv => ([key_new (fst kv)], render_value ftext (snd kv))) l'))
        with ((if Nat.eqb i 0 then [] else [x2c])
              ++ encode_key_path [key_new k] DEFAULT_INLINE_KEY_DECOR ++ [x3d]
              ++ enc (render_value ftext e) (if Nat.eqb i (len - 1) then DEFAULT_TRAILING_VALUE_DECOR else DEFAULT_VALUE_DECOR)
              ++ enc_kvs enc len (S i) (map (fun kv => ([key_new (fst kv)], render_value ftext (snd kv))) l')).
      rewrite IH'; [ | unfold l'; discriminate | unfold l' in *; cbn [length] in *; lia ].
      rewrite (Henc (k, e)) by (left; reflexivity). cbn [snd].
      replace (Nat.eqb i (len - 1)) with false by (symmetry; apply Nat.eqb_neq; unfold l' in Hlen; cbn [length] in Hlen; lia).
      f_equal.
  Qed.

  Lemma enc_elems_txt (enc : value -> bytes * bytes -> bytes) (es : list value) :
    (forall e dflt, In e es -> enc (render_value ftext e) dflt = etxt e dflt) ->
    enc_elems enc true (map IValue (map (render_value ftext) es)) = arr_txt (map (fun e => (value_decor e, txt e)) es).
  Proof.
    intro Henc. destruct es as [|e es]; [reflexivity|].
    cbn [map enc_elems arr_txt app]. rewrite (Henc e) by (left; reflexivity). unfold etxt at 1. f_equal.
    assert (Htl : forall e' dflt, In e' es -> enc (render_value ftext e') dflt = etxt e' dflt)
      by (intros e' dflt Hin; apply Henc; right; exact Hin).
    clear Henc. induction es as [|e2 es IH]; [reflexivity|].
    cbn [map enc_elems concat app fst snd]. rewrite (Htl e2) by (left; reflexivity).
    rewrite IH by (intros e' dflt Hin; apply Htl; right; exact Hin). reflexivity.
  Qed.

  (* the printed form of a value is its token between its decor; the token does not depend on the decor *)
  Lemma encode_value_decor f v dflt :
    exists core, forall d', 
      encode_value (S f) (match v with
                          | VScalar s r _ => VScalar s r d'
                          | VArray vals tr c _ sp => VArray vals tr c d' sp
                          | VInline items pre im dt _ sp => VInline items pre im dt d' sp
                          end) dflt
      = decor_prefix d' (fst dflt) ++ core ++ decor_suffix d' (snd dflt).
  Proof.
    destruct v as [s r d|vals tr c d sp|items pre im dt d sp].
    - exists (match repr_str r with Some t => t | None => scalar_default_repr s end).
      intro d'. rewrite encode_value_scalar. reflexivity.
    - exists ([x5b] ++ enc_elems (encode_value f) true vals
              ++ (if c && negb (match vals with [] => true | _ => false end) then [x2c] else [])
              ++ raw_encode tr [] ++ [x5d]).
      intro d'. rewrite encode_value_array. rewrite <- !app_assoc. reflexivity.
    - exists ([x7b] ++ raw_encode pre []
              ++ enc_kvs (encode_value f)
                   (length (inline_values (S (value_size (VInline items pre im dt d sp))) [] items)) 0
                   (inline_values (S (value_size (VInline items pre im dt d sp))) [] items)
              ++ [x7d]).
      intro d'. rewrite encode_value_inline. cbv zeta. rewrite <- !app_assoc. reflexivity.
  Qed.

  Lemma set_decor_self v :
    v = match v with
        | VScalar s r d => VScalar s r d
        | VArray vals tr c d sp => VArray vals tr c d sp
        | VInline items pre im dt d sp => VInline items pre im dt d sp
        end.
  Proof. destruct v; reflexivity. Qed.

  (* an element of a multi-line array is printed as the element itself, behind the line break *)
  Lemma encode_ml_elem f v t dflt :
    (forall dflt', encode_value (S f) v dflt' = wrap (value_decor v) dflt' t) ->
    encode_value (S f) (ml_elem v) dflt = wrap (ml_decor v) dflt t.
  Proof.
    intro H. destruct (encode_value_decor f v dflt) as (core & Hc).
    assert (Ecore : core = t).
    { pose proof (Hc (value_decor v)) as H1.
      assert (Ev : match v with
                   | VScalar s r _ => VScalar s r (value_decor v)
                   | VArray vals tr c _ sp => VArray vals tr c (value_decor v) sp
                   | VInline items pre im dt _ sp => VInline items pre im dt (value_decor v) sp
                   end = v) by (destruct v; reflexivity).
      rewrite Ev, (H dflt) in H1. unfold wrap in H1.
      apply app_inv_head in H1. apply app_inv_tail in H1. symmetry. exact H1. }
    subst core.
    assert (Em : ml_elem v = match v with
                             | VScalar s r _ => VScalar s r (ml_decor v)
                             | VArray vals tr c _ sp => VArray vals tr c (ml_decor v) sp
                             | VInline items pre im dt _ sp => VInline items pre im dt (ml_decor v) sp
                             end) by (destruct v; reflexivity).
    rewrite Em, (Hc (ml_decor v)). reflexivity.
  Qed.

  Lemma enc_elems_txt_ml (enc : value -> bytes * bytes -> bytes) (es : list value) :
    (forall e dflt, In e es -> enc (ml_elem (render_value ftext e)) dflt = wrap (ml_decor e) dflt (txt e)) ->
    enc_elems enc true (map (fun e => IValue (ml_elem e)) (map (render_value ftext) es))
    = arr_txt (map (fun e => (ml_decor e, txt e)) es).
  Proof.
    intro Henc. destruct es as [|e es]; [reflexivity|].
    cbn [map enc_elems arr_txt app]. rewrite (Henc e) by (left; reflexivity). f_equal.
    assert (Htl : forall e' dflt, In e' es -> enc (ml_elem (render_value ftext e')) dflt = wrap (ml_decor e') dflt (txt e'))
      by (intros e' dflt Hin; apply Henc; right; exact Hin).
    clear Henc. induction es as [|e2 es IH]; [reflexivity|].
    cbn [map enc_elems concat app fst snd]. rewrite (Htl e2) by (left; reflexivity).
    rewrite IH by (intros e' dflt Hin; apply Htl; right; exact Hin). reflexivity.
  Qed.

  Lemma decor_built_default_nil d : decor_built d -> True.
  Proof. trivial. Qed.

  (* Encode.encode_value on a rendered constructed value is `etxt` *)
  Theorem encode_value_txt : forall v, BuiltValue v ->
    forall fuel dflt, value_size v < fuel -> encode_value fuel (render_value ftext v) dflt = etxt v dflt.
  Proof.
    apply (BuiltValue_sind PS PK (fun v => forall fuel dflt, value_size v < fuel ->
                                      encode_value fuel (render_value ftext v) dflt = etxt v dflt)).
    - intros s d _ _ fuel dflt Hf. destruct fuel as [|f]; [lia|].
      destruct s; reflexivity.
    - intros es d _ _ IH fuel dflt Hf. destruct fuel as [|f]; [lia|].
      rewrite render_built_array, encode_value_array.
      rewrite enc_elems_txt.
      + unfold etxt, wrap. rewrite txt_array. cbn [value_decor andb raw_encode strip_cr filter app].
        rewrite <- !app_assoc. reflexivity.
      + intros e dflt' Hin. rewrite Forall_forall in IH. apply (IH e Hin).
        rewrite value_size_array in Hf.
        assert (Hle : forall l, In e l -> value_size e < fold_right (fun it acc => item_size it + acc) 0 (map IValue l)).
        { induction l as [|x l IHl]; [contradiction|]. intros [->|Hin'].
          - cbn [map fold_right]. rewrite item_size_value. lia.
          - cbn [map fold_right]. specialize (IHl Hin'). lia. }
        specialize (Hle es Hin). lia.
    - intros es d _ _ IH fuel dflt Hf. destruct fuel as [|f]; [lia|].
      rewrite render_built_array_ml, encode_value_array.
      rewrite enc_elems_txt_ml.
      + unfold etxt, wrap. rewrite txt_array_ml. cbn [value_decor andb raw_encode strip_cr filter app].
        destruct es as [|e0 es']; cbn [map negb app]; rewrite <- ?app_assoc; reflexivity.
      + intros e dflt' Hin. rewrite Forall_forall in IH.
        rewrite value_size_array in Hf.
        assert (Hle : forall l, In e l -> value_size e < fold_right (fun it acc => item_size it + acc) 0 (map (fun e => IValue (ml_elem e)) l)).
        { induction l as [|x l IHl]; [contradiction|]. intros [->|Hin'].
          - cbn [map fold_right]. rewrite item_size_value, value_size_ml_elem. lia.
          - cbn [map fold_right]. specialize (IHl Hin'). lia. }
        specialize (Hle es Hin).
        destruct f as [|f']; [lia|].
        assert (Hd : ml_decor e = ml_decor (render_value ftext e)) by (unfold ml_decor; rewrite render_decor; reflexivity).
        rewrite Hd. apply encode_ml_elem. intro dflt''. rewrite render_decor. apply (IH e Hin). lia.
    - intros l d _ _ _ Hl IH fuel dflt Hf. destruct fuel as [|f]; [lia|].
      rewrite render_built_inline, encode_value_inline. cbv zeta.
      rewrite (inline_values_built _ l Hl).
      unfold etxt, wrap. rewrite txt_inline. cbn [value_decor raw_encode strip_cr filter app].
      destruct l as [|kv l'] eqn:El.
      + reflexivity.
      + rewrite <- El in *. rewrite (enc_kvs_txt (encode_value f) (length (map (fun kv0 => ([key_new (fst kv0)], render_value ftext (snd kv0))) l)) l).
        * cbn [Nat.eqb app]. rewrite <- !app_assoc. reflexivity.
        * intros kv0 dflt' Hin. rewrite Forall_forall in IH. apply (IH (snd kv0)); [apply in_map; exact Hin|].
          rewrite value_size_inline in Hf. unfold mk_inline_items in Hf.
          assert (Hle : forall l0, In kv0 l0 ->
                    value_size (snd kv0) < fold_right (fun kv acc => match kv with (_, i0) => item_size i0 + acc end) 0
                                                     (map (fun kv => (key_new (fst kv), IValue (snd kv))) l0)).
          { induction l0 as [|x l0 IHl]; [contradiction|]. intros [->|Hin'].
            - cbn [map fold_right]. rewrite item_size_value. lia.
            - cbn [map fold_right]. specialize (IHl Hin'). lia. }
          specialize (Hle l Hin). lia.
        * rewrite El. discriminate.
        * rewrite map_length. reflexivity.
  Qed.

  (* Display for Value *)
  Corollary display_value_txt v : BuiltValue v -> display_value (render_value ftext v) = etxt v ([], []).
  Proof.
    intro H. unfold display_value. apply encode_value_txt; [exact H|]. rewrite (value_size_render v H). lia.
  Qed.
End Txt.
