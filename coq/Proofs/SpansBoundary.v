(* Proofs/SpansBoundary.v — C14, character boundaries, part 3: cursors on character boundaries.

     at_ s i   the cursor i points into the source text s (rest i = the suffix of s at pos i, pos i within
               s) and what remains is well-formed UTF-8;
   every parser hands on such a cursor (mono + uP), and such a cursor sits on a character boundary of s.
   Hence the span stored for a value / the repr of a key start and end on character boundaries. *)
From TV Require Import Base.Prelude Base.Utf8 Base.Winnow Gen.Consts.
From TV Require Import Model.Trivia Model.Strings Model.Datetime Model.Numbers Model.Tree Model.Parse Model.Document.
From TV Require Import Proofs.NoPanicBase Proofs.NoPanicLex Proofs.NoPanicValue.
From TV Require Import Proofs.SpansDefs Proofs.SpansBase Proofs.SpansLex Proofs.SpansExact Proofs.SpansUtf8 Proofs.SpansUtf8Lex.
Require Import Lia ZifyBool ZifyN ZifyNat.

Definition at_ (s : bytes) (i : input) : Prop :=
  cursor_of s i /\ (pos i <= N.of_nat (length s))%N /\ vin i.

Lemma at_new s : utf8_valid_b s = true -> at_ s (new_input s).
Proof. intro V. unfold at_, cursor_of, vin. cbn. repeat split; auto. lia. Qed.

Lemma skipn_length_le {A} (l : list A) n : length (skipn n l) = length l - n.
Proof. apply skipn_length. Qed.

Lemma at_step {A} (p : parser A) s i a i' : mono p -> uP p -> at_ s i -> p i = Ok a i' -> at_ s i'.
Proof.
  intros Mp Up (C & L & V) E. pose proof (Mp _ _ _ E) as (t & R & P & _).
  destruct (cursor_slice s i i' t C R P) as [_ C']. repeat split; [exact C'| |eapply Up; eauto].
  unfold cursor_of in C. assert (Hl : length (rest i) = length s - N.to_nat (pos i)) by (rewrite C; apply skipn_length).
  rewrite R, app_length in Hl. lia.
Qed.

Lemma nth_error_skipn {A} (l : list A) n : nth_error l n = match skipn n l with x :: _ => Some x | [] => None end.
Proof.
  revert l. induction n as [|n IH]; intros l.
  - destruct l; reflexivity.
  - destruct l as [|x l]; [reflexivity|]. cbn [nth_error skipn]. apply IH.
Qed.

Lemma at_boundary s i : at_ s i -> char_boundary_b s (pos i) = true.
Proof.
  intros (C & L & V). unfold char_boundary_b. rewrite nth_error_skipn. unfold cursor_of in C.
  assert (Hl : length (rest i) = length s - N.to_nat (pos i)) by (rewrite C; apply skipn_length).
  rewrite <- C. destruct (rest i) as [|b r] eqn:R.
  - cbn [length] in Hl. lia.
  - unfold vin in V. rewrite R in V. apply valid_starts_char in V. cbn [starts_char] in V.
    unfold is_boundary_byte, is_cont in *. lia.
Qed.

(* the span of a value starts and ends on character boundaries *)
Theorem value_span_boundaries s i v i' :
  at_ s i -> value_ i = Ok v i' ->
  value_span v = Some (pos i, pos i') /\ char_boundary_b s (pos i) = true /\ char_boundary_b s (pos i') = true.
Proof.
  intros A E. split; [apply (value_exact _ _ _ E)|]. split; [apply at_boundary, A|].
  eapply at_boundary, (at_step value_); [np|apply value_uP|exact A|exact E].
Qed.
(* the repr of a key starts and ends on character boundaries *)
Theorem key_span_boundaries s i r k i' :
  at_ s i -> simple_key i = Ok (r, k) i' ->
  r = RSpanned (pos i) (pos i') /\ char_boundary_b s (pos i) = true /\ char_boundary_b s (pos i') = true.
Proof.
  intros A E. split; [apply (simple_key_span_exact _ _ _ _ E)|]. split; [apply at_boundary, A|].
  eapply at_boundary, (at_step simple_key); [np|apply simple_key_uP|exact A|exact E].
Qed.
