(* Proofs/BuiltRTSpecFold.v — C06, documents, specification side: the statements the printer emits for a
   tree (for every table: its key/value lines, then its sub-tables and arrays of tables, each under its
   header, in order) define, by the rules of Spec/Defs.v, exactly that tree with the values of every
   table before its sub-tables. *)
From TV Require Import Base.Prelude Spec.Defs.
From TV Require Import Model.Datetime Model.Numbers Model.Tree Model.Build.
From TV Require Import Proofs.DefsEquivSpec.
Require Import Lia.

(* ---- statements and result of an abstract tree ----------------------------------------------------------
   The tree as the printer sees it: a table whose `[header]` is left out (`hid`: marked implicit and without
   key/value lines of its own) is only mentioned by the headers of what is below it. *)
Inductive snode : Type :=
| SVal (a : aval)
| STbl (hid : bool) (l : list (bytes * snode))
| SAot (ls : list (list (bytes * snode))).

Fixpoint forget (n : snode) : anode :=
  match n with
  | SVal a => AVal a
  | STbl _ l => ATbl (map (fun kv => (fst kv, forget (snd kv))) l)
  | SAot ls => AAot (map (map (fun kv => (fst kv, forget (snd kv)))) ls)
  end.
Definition forget_entries (l : list (bytes * snode)) : list (bytes * anode) := map (fun kv => (fst kv, forget (snd kv))) l.

Definition kv_stmts (l : list (bytes * snode)) : list (stmt aval) :=
  flat_map (fun kv => match snd kv with SVal a => [SKeyVal [fst kv] a] | _ => [] end) l.

Fixpoint node_stmts (P : list bytes) (n : snode) : list (stmt aval) :=
  match n with
  | SVal _ => []
  | STbl hid l => (if hid then [] else [SHeader P])
                  ++ (kv_stmts l ++ flat_map (fun kv => node_stmts (P ++ [fst kv]) (snd kv)) l)
  | SAot ls =>
    flat_map (fun l => SArrHeader P :: (kv_stmts l ++ flat_map (fun kv => node_stmts (P ++ [fst kv]) (snd kv)) l)) ls
  end.
Definition body_stmts (P : list bytes) (l : list (bytes * snode)) : list (stmt aval) :=
  kv_stmts l ++ flat_map (fun kv => node_stmts (P ++ [fst kv]) (snd kv)) l.

Definition kv_res (l : list (bytes * snode)) : stree aval :=
  flat_map (fun kv => match snd kv with SVal a => [(fst kv, NVal a)] | _ => [] end) l.

Fixpoint node_res (n : snode) : list (node aval) :=
  match n with
  | SVal _ => []
  | STbl hid l => [NTab (if hid then KSuper else KHeader)
                        (kv_res l ++ flat_map (fun kv => map (fun r => (fst kv, r)) (node_res (snd kv))) l)]
  | SAot [] => []
  | SAot ls => [NAot (map (fun l => kv_res l ++ flat_map (fun kv => map (fun r => (fst kv, r)) (node_res (snd kv))) l) ls)]
  end.
Definition body_res (l : list (bytes * snode)) : stree aval :=
  kv_res l ++ flat_map (fun kv => map (fun r => (fst kv, r)) (node_res (snd kv))) l.

Lemma node_stmts_tbl P hid l : node_stmts P (STbl hid l) = (if hid then [] else [SHeader P]) ++ body_stmts P l.
Proof. reflexivity. Qed.
Lemma node_stmts_aot P ls : node_stmts P (SAot ls) = flat_map (fun l => SArrHeader P :: body_stmts P l) ls.
Proof. reflexivity. Qed.
Lemma node_res_tbl hid l : node_res (STbl hid l) = [NTab (if hid then KSuper else KHeader) (body_res l)].
Proof. reflexivity. Qed.
Lemma node_res_aot ls : node_res (SAot ls) = match ls with [] => [] | _ => [NAot (map body_res ls)] end.
Proof. destruct ls; reflexivity. Qed.

(* well-formed: the keys of every table are distinct; a table without header has no key/value line and
   something is printed below it *)
Inductive wf_node : snode -> Prop :=
| WV a : wf_node (SVal a)
| WT hid l : NoDup (map fst l) -> Forall wf_node (map snd l) ->
             (hid = true -> kv_stmts l = [] /\ body_stmts [] l <> []) -> wf_node (STbl hid l)
| WA ls : Forall (fun l => NoDup (map fst l) /\ Forall wf_node (map snd l)) ls -> wf_node (SAot ls).
Definition wf_entries (l : list (bytes * snode)) : Prop := NoDup (map fst l) /\ Forall wf_node (map snd l).

Lemma wf_node_strong (Pn : snode -> Prop) :
  (forall a, Pn (SVal a)) ->
  (forall hid l, NoDup (map fst l) -> Forall wf_node (map snd l) -> Forall Pn (map snd l) ->
                 (hid = true -> kv_stmts l = [] /\ body_stmts [] l <> []) -> Pn (STbl hid l)) ->
  (forall ls, Forall (fun l => NoDup (map fst l) /\ Forall Pn (map snd l)) ls -> Pn (SAot ls)) ->
  forall n, wf_node n -> Pn n.
Proof.
  intros H1 H2 H3. fix IH 2. intros n Hn. destruct Hn as [a | hid l Hnd Hl Hh | ls Hls].
  - apply H1.
  - apply H2; [exact Hnd|exact Hl| |exact Hh]. induction Hl; constructor; [apply IH; assumption|assumption].
  - apply H3. induction Hls as [|l ls [Hnd Hl] _ IHls]; constructor; [|exact IHls].
    split; [exact Hnd|]. induction Hl; constructor; [apply IH; assumption|assumption].
Qed.

(* ---- shifting statements under a prefix ------------------------------------------------------------------------- *)
Definition shift (P : list bytes) (s : stmt aval) : stmt aval :=
  match s with
  | SHeader p => SHeader (P ++ p)
  | SArrHeader p => SArrHeader (P ++ p)
  | SKeyVal p v => SKeyVal p v
  end.

Lemma kv_stmts_shift P (l : list (bytes * snode)) : map (shift P) (kv_stmts l) = kv_stmts l.
Proof.
  unfold kv_stmts. induction l as [|[k n] l IH]; [reflexivity|]. cbn [flat_map fst snd].
  destruct n; cbn [app map shift]; rewrite IH; reflexivity.
Qed.

Lemma node_stmts_shift : forall n P Q, node_stmts (P ++ Q) n = map (shift P) (node_stmts Q n).
Proof.
  fix IH 1. intros [a|hid l|ls] P Q.
  - reflexivity.
  - rewrite !node_stmts_tbl. rewrite map_app. f_equal; [destruct hid; reflexivity|].
    unfold body_stmts. rewrite map_app, kv_stmts_shift. f_equal.
    induction l as [|[k n] l IHl]; [reflexivity|]. cbn [flat_map fst snd]. rewrite map_app, <- IHl. f_equal.
    rewrite <- app_assoc. apply IH.
  - rewrite !node_stmts_aot. induction ls as [|l ls IHls]; [reflexivity|]. cbn [flat_map map shift]. rewrite map_app, <- IHls.
    f_equal. cbn [map shift]. f_equal. unfold body_stmts. rewrite map_app, kv_stmts_shift. f_equal.
    induction l as [|[k n] l IHl]; [reflexivity|]. cbn [flat_map fst snd]. rewrite map_app, <- IHl. f_equal.
    rewrite <- app_assoc. apply IH.
Qed.

Lemma body_stmts_shift P Q l : body_stmts (P ++ Q) l = map (shift P) (body_stmts Q l).
Proof.
  unfold body_stmts. rewrite map_app, kv_stmts_shift. f_equal.
  induction l as [|[k n] l IHl]; [reflexivity|]. cbn [flat_map fst snd]. rewrite map_app, <- IHl. f_equal.
  rewrite <- app_assoc. apply node_stmts_shift.
Qed.

Definition hdr_nonempty (s : stmt aval) : Prop :=
  match s with SHeader p | SArrHeader p => p <> [] | SKeyVal _ _ => True end.

(* ---- framing: statements under a prefix act on the table the prefix addresses ------------------------------------- *)
Section Frame.
  Local Notation T := (stree aval).

  Lemma rbind_ok_id {A} (r : res A) : rbind r (fun a => ROk a) = r.
  Proof. destruct r; reflexivity. Qed.

  (* the output of the walk can be post-processed outside *)
  Lemma at_path_x_out {X Y} (h : X -> Y) p (F : T -> res (T * X)) t :
    at_path_x p (fun c => rbind (F c) (fun cx => ROk (fst cx, h (snd cx)))) t
    = rbind (at_path_x p F t) (fun cx => ROk (fst cx, h (snd cx))).
  Proof.
    revert t. induction p as [|k p IH]; intro t; cbn [at_path_x]; [reflexivity|].
    destruct (sget t k) as [[v|kd c|es]|]; [reflexivity| | |].
    - rewrite IH. destruct (at_path_x p F c) as [[c1 x]| |]; reflexivity.
    - destruct (rev es) as [|e before]; [reflexivity|]. rewrite IH. destruct (at_path_x p F e) as [[c1 x]| |]; reflexivity.
    - rewrite IH. destruct (at_path_x p F []) as [[c1 x]| |]; reflexivity.
  Qed.

  (* a tree function applied below P ++ q, with a constant output *)
  Lemma at_path_prefix {X} (P q : list bytes) (f : T -> res T) (x : X) t :
    rbind (at_path (P ++ q) f t) (fun t' => ROk (t', x))
    = at_path_x P (fun c => rbind (at_path q f c) (fun t' => ROk (t', x))) t.
  Proof.
    rewrite at_path_lift, at_path_x_app.
    transitivity (rbind (at_path_x P (at_path_x q (lift f)) t) (fun cx => ROk (fst cx, x))).
    { destruct (at_path_x P (at_path_x q (lift f)) t) as [[c1 u]| |]; reflexivity. }
    pose proof (at_path_x_out (fun _ : unit => x) P (at_path_x q (lift f)) t) as E. cbv beta in E. rewrite <- E. clear E.
    apply (at_path_x_ext (fun _ => True)); [apply walk_closed_true|exact I|]. intros c _.
    rewrite at_path_lift. destruct (at_path_x q (lift f) c) as [[c1 u]| |]; reflexivity.
  Qed.

  Lemma step_frame P s t cur : hdr_nonempty s ->
    spec_step false (t, P ++ cur) (shift P s)
    = rbind (at_path_x P (fun c => spec_step false (c, cur) s) t) (fun Tx => ROk (fst Tx, P ++ snd Tx)).
  Proof.
    intro Hs. destruct s as [p|p|p v]; cbn [shift spec_step hdr_nonempty] in *.
    - destruct (exists_last Hs) as (pre & k & ->). rewrite app_assoc, !unsnoc_app.
      transitivity (rbind (rbind (at_path ((P ++ pre)) (def_table k) t) (fun t' => ROk (t', pre ++ [k])))
                          (fun Tx => ROk (fst Tx, P ++ snd Tx))).
      { destruct (at_path (P ++ pre) (def_table k) t); cbn [rbind fst snd]; [rewrite app_assoc|..]; reflexivity. }
      rewrite at_path_prefix. reflexivity.
    - destruct (exists_last Hs) as (pre & k & ->). rewrite app_assoc, !unsnoc_app.
      transitivity (rbind (rbind (at_path ((P ++ pre)) (def_elem k) t) (fun t' => ROk (t', pre ++ [k])))
                          (fun Tx => ROk (fst Tx, P ++ snd Tx))).
      { destruct (at_path (P ++ pre) (def_elem k) t); cbn [rbind fst snd]; [rewrite app_assoc|..]; reflexivity. }
      rewrite at_path_prefix. reflexivity.
    - transitivity (rbind (rbind (at_path (P ++ cur) (insert_kv false p v) t) (fun t' => ROk (t', cur)))
                          (fun Tx => ROk (fst Tx, P ++ snd Tx))).
      { destruct (at_path (P ++ cur) (insert_kv false p v) t); reflexivity. }
      rewrite at_path_prefix. reflexivity.
  Qed.

  (* if the composed walk succeeds, so does its first stage *)
  Lemma at_path_x_bind_ok {X Y} p (F : T -> res (T * X)) (G : X -> T -> res (T * Y)) t r :
    at_path_x p (fun c => rbind (F c) (fun tx => G (snd tx) (fst tx))) t = ROk r ->
    exists t1 x, at_path_x p F t = ROk (t1, x).
  Proof.
    revert t r. induction p as [|k p IH]; intros t r H; cbn [at_path_x] in *.
    - destruct (F t) as [[t1 x]| |]; [eauto|discriminate|discriminate].
    - destruct (sget t k) as [[v|kd c|es]|]; [discriminate| | |].
      + destruct (at_path_x p (fun c0 => rbind (F c0) (fun tx => G (snd tx) (fst tx))) c) as [r1| |] eqn:E; try discriminate.
        destruct (IH _ _ E) as (t1 & x & E1). rewrite E1. cbn [rbind fst snd]. eauto.
      + destruct (rev es) as [|e before]; [discriminate|].
        destruct (at_path_x p (fun c0 => rbind (F c0) (fun tx => G (snd tx) (fst tx))) e) as [r1| |] eqn:E; try discriminate.
        destruct (IH _ _ E) as (t1 & x & E1). rewrite E1. cbn [rbind fst snd]. eauto.
      + destruct (at_path_x p (fun c0 => rbind (F c0) (fun tx => G (snd tx) (fst tx))) []) as [r1| |] eqn:E; try discriminate.
        destruct (IH _ _ E) as (t1 & x & E1). rewrite E1. cbn [rbind fst snd]. eauto.
  Qed.

  Lemma fold_frame P l : Forall hdr_nonempty l -> l <> [] -> forall t cur t' cur',
    at_path_x P (fun c => spec_fold false (c, cur) l) t = ROk (t', cur') ->
    spec_fold false (t, P ++ cur) (map (shift P) l) = ROk (t', P ++ cur').
  Proof.
    induction 1 as [|s l Hs Hl IH]; intros Hne t cur t' cur' H; [contradiction|].
    cbn [map spec_fold] in *. rewrite (step_frame P s t cur Hs).
    destruct l as [|s2 l2].
    - cbn [map spec_fold] in *.
      assert (E : at_path_x P (fun c => spec_step false (c, cur) s) t = ROk (t', cur')).
      { rewrite <- H. apply (at_path_x_ext (fun _ => True)); [apply walk_closed_true|exact I|]. intros c _.
        symmetry. apply rbind_ok_id. }
      rewrite E. reflexivity.
    - set (l' := s2 :: l2) in *.
      assert (H' : at_path_x P (fun c => rbind (spec_step false (c, cur) s) (fun tx => spec_fold false (fst tx, snd tx) l')) t
                   = ROk (t', cur')).
      { rewrite <- H. apply (at_path_x_ext (fun _ => True)); [apply walk_closed_true|exact I|]. intros c _.
        destruct (spec_step false (c, cur) s) as [[a b]| |]; reflexivity. }
      destruct (at_path_x_bind_ok P (fun c => spec_step false (c, cur) s) (fun x c => spec_fold false (c, x) l') t _ H')
        as (t1 & cur1 & E1).
      rewrite E1. cbn [rbind fst snd].
      apply IH; [unfold l'; discriminate|].
      rewrite (at_path_x_comp P (fun c => spec_step false (c, cur) s) (fun x c => spec_fold false (c, x) l') t t1 cur1 E1).
      exact H'.
  Qed.
End Frame.

(* ---- the statements of a tree define the tree --------------------------------------------------------------------- *)
Section Fold.
  Local Notation T := (stree aval).

  Lemma sget_app_none (C D : T) k : sget C k = None -> sget D k = None -> sget (C ++ D) k = None.
  Proof.
    intros HC HD. induction C as [|[k' n] C IH]; [exact HD|]. cbn [app sget] in *.
    destruct (bytes_eqb k' k); [discriminate|]. apply IH, HC.
  Qed.
  Lemma sget_none_notin (D : T) k : ~ In k (map fst D) -> sget D k = None.
  Proof.
    induction D as [|[k' n] D IH]; [reflexivity|]. cbn [map fst In sget]. intro H.
    destruct (bytes_eqb k' k) eqn:E; [apply bytes_eqb_eq in E; tauto|]. apply IH. tauto.
  Qed.

  Lemma kv_res_keys l : forall k, In k (map fst (kv_res l)) -> In k (map fst l).
  Proof.
    unfold kv_res. induction l as [|[k0 n] l IH]; intros k H; [exact H|]. cbn [flat_map fst snd] in H.
    rewrite map_app in H. apply in_app_or in H as [H|H]; [|right; apply IH, H].
    destruct n; cbn in H; try contradiction. destruct H as [<-|[]]. left. reflexivity.
  Qed.

  (* the key/value lines of a table *)
  Lemma kv_fold l : NoDup (map fst l) -> forall C : T,
    (forall k, In k (map fst l) -> sget C k = None) ->
    spec_fold false (C, []) (kv_stmts l) = ROk (C ++ kv_res l, []).
  Proof.
    unfold kv_stmts, kv_res. induction l as [|[k n] l IH]; intros Hnd C Hd.
    - cbn [flat_map spec_fold]. rewrite app_nil_r. reflexivity.
    - cbn [map fst] in Hnd. inversion Hnd as [|? ? Hnotin Hnd']; subst. cbn [flat_map fst snd].
      assert (Hrest : forall D : T, (forall k', In k' (map fst D) -> k' = k) ->
                forall k', In k' (map fst l) -> sget (C ++ D) k' = None).
      { intros D HD k' Hk'. apply sget_app_none; [apply Hd; right; exact Hk'|].
        apply sget_none_notin. intro Hin. apply HD in Hin. subst k'. contradiction. }
      destruct n as [a|sub|ls]; cbn [app spec_fold].
      + cbn [spec_step at_path insert_kv]. rewrite (Hd k (or_introl eq_refl)). cbn [rbind].
        unfold spush. rewrite (IH Hnd' (C ++ [(k, NVal a)])).
        * rewrite <- app_assoc. reflexivity.
        * apply Hrest. intros k' [<-|[]]. reflexivity.
      + apply (IH Hnd' C). intros k' Hk'. apply Hd. right. exact Hk'.
      + apply (IH Hnd' C). intros k' Hk'. apply Hd. right. exact Hk'.
  Qed.

  Lemma node_stmts_nonempty_hdr : forall n P, P <> [] -> Forall hdr_nonempty (node_stmts P n).
  Proof.
    fix IH 1. intros [a|hid l|ls] P HP.
    - constructor.
    - rewrite node_stmts_tbl. apply Forall_app. split; [destruct hid; repeat constructor; exact HP|].
      unfold body_stmts. apply Forall_app. split.
      + unfold kv_stmts. clear. induction l as [|[k n] l IHl]; [constructor|]. cbn [flat_map fst snd].
        apply Forall_app. split; [destruct n; repeat constructor|exact IHl].
      + induction l as [|[k n] l IHl]; [constructor|]. cbn [flat_map fst snd]. apply Forall_app. split; [|exact IHl].
        apply IH. intro E. apply app_eq_nil in E as [_ E]. discriminate.
    - rewrite node_stmts_aot. induction ls as [|l ls IHls]; [constructor|]. cbn [flat_map]. apply Forall_app. split; [|exact IHls].
      constructor; [exact HP|]. unfold body_stmts. apply Forall_app. split.
      + unfold kv_stmts. clear. induction l as [|[k n] l IHl]; [constructor|]. cbn [flat_map fst snd].
        apply Forall_app. split; [destruct n; repeat constructor|exact IHl].
      + induction l as [|[k n] l IHl]; [constructor|]. cbn [flat_map fst snd]. apply Forall_app. split; [|exact IHl].
        apply IH. intro E. apply app_eq_nil in E as [_ E]. discriminate.
  Qed.

  Lemma body_stmts_nonempty_hdr l : Forall hdr_nonempty (body_stmts [] l).
  Proof.
    unfold body_stmts. apply Forall_app. split.
    - unfold kv_stmts. induction l as [|[k n] l IHl]; [constructor|]. cbn [flat_map fst snd].
      apply Forall_app. split; [destruct n; repeat constructor|exact IHl].
    - induction l as [|[k n] l IHl]; [constructor|]. cbn [flat_map fst snd]. apply Forall_app. split; [|exact IHl].
      apply node_stmts_nonempty_hdr. discriminate.
  Qed.

  (* what a node contributes below key k of the table C *)
  Definition node_claim (n : snode) : Prop :=
    forall (k : bytes) (C : T) (cur : list bytes),
      (match n with SVal _ => True | _ => sget C k = None end) ->
      exists cur', spec_fold false (C, cur) (node_stmts [k] n) = ROk (C ++ map (fun r => (k, r)) (node_res n), cur').
  Definition body_claim (l : list (bytes * snode)) : Prop :=
    forall C : T, (forall k, In k (map fst l) -> sget C k = None) ->
      exists cur', spec_fold false (C, []) (body_stmts [] l) = ROk (C ++ body_res l, cur').

  Lemma spec_fold_app {V} (a b : list (stmt V)) S :
    spec_fold false S (a ++ b) = rbind (spec_fold false S a) (fun S1 => spec_fold false S1 b).
  Proof.
    revert S. induction a as [|s a IH]; intro S; [reflexivity|]. cbn [app spec_fold].
    destruct (spec_step false S s); cbn [rbind]; [apply IH|reflexivity|reflexivity].
  Qed.

  (* the sub-tables of a table, given the claim for each of them *)
  Lemma subs_fold l : NoDup (map fst l) -> Forall node_claim (map snd l) -> forall (C : T) cur,
    (forall kv, In kv l -> match snd kv with SVal _ => True | _ => sget C (fst kv) = None end) ->
    (forall k, In k (map fst C) -> ~ In k (map fst l) \/ exists a, In (k, SVal a) l) ->
    exists cur', spec_fold false (C, cur) (flat_map (fun kv => node_stmts [fst kv] (snd kv)) l)
                 = ROk (C ++ flat_map (fun kv => map (fun r => (fst kv, r)) (node_res (snd kv))) l, cur').
  Proof.
    induction l as [|[k n] l IH]; intros Hnd Hcl C cur Hd Hkeys.
    - exists cur. cbn [flat_map spec_fold]. rewrite app_nil_r. reflexivity.
    - cbn [map fst snd] in Hnd, Hcl. inversion Hnd as [|? ? Hnotin Hnd']; subst. inversion Hcl as [|? ? Hn Hcl']; subst.
      cbn [flat_map fst snd]. rewrite spec_fold_app.
      destruct (Hn k C cur (Hd (k, n) (or_introl eq_refl))) as (cur1 & E1). rewrite E1. cbn [rbind].
      set (C1 := C ++ map (fun r => (k, r)) (node_res n)).
      destruct (IH Hnd' Hcl' C1 cur1) as (cur' & E').
      + intros [k' n'] Hkv. specialize (Hd (k', n') (or_intror Hkv)). cbn [fst snd] in *.
        assert (Hk'n : ~ In k' (map fst (map (fun r : node aval => (k, r)) (node_res n)))).
        { rewrite map_map. cbn [fst]. intro Hin. apply in_map_iff in Hin as (r & <- & _).
          apply Hnotin. apply (in_map fst) in Hkv. exact Hkv. }
        destruct n' as [a|sub|ls]; [exact I| |]; (apply sget_app_none; [exact Hd|apply sget_none_notin, Hk'n]).
      + intros k' Hk'. unfold C1 in Hk'. rewrite map_app in Hk'. apply in_app_or in Hk' as [Hk'|Hk'].
        * destruct (Hkeys k' Hk') as [Hn'|(a & Ha)].
          -- left. intro Hin. apply Hn'. right. exact Hin.
          -- destruct Ha as [Ha|Ha]; [|right; exists a; exact Ha].
             injection Ha as -> ->. left. exact Hnotin.
        * rewrite map_map in Hk'. cbn [fst] in Hk'. apply in_map_iff in Hk' as (r & <- & _). left. exact Hnotin.
      + exists cur'. etransitivity; [exact E'|]. unfold C1. rewrite <- app_assoc. reflexivity.
  Qed.

  Lemma body_of_nodes l : NoDup (map fst l) -> Forall node_claim (map snd l) -> body_claim l.
  Proof.
    intros Hnd Hcl C Hd. unfold body_stmts, body_res. rewrite spec_fold_app, (kv_fold l Hnd C Hd). cbn [rbind].
    destruct (subs_fold l Hnd Hcl (C ++ kv_res l) []) as (cur' & E).
    - intros [k n] Hkv. cbn [fst snd]. destruct n as [a|sub|ls]; [exact I| |];
        (apply sget_app_none; [apply Hd; apply in_map with (f := fst) in Hkv; exact Hkv|];
         apply sget_none_notin; intro Hin;
         assert (Hv : exists a, In (k, SVal a) l)
           by (clear - Hin; unfold kv_res in Hin; induction l as [|[k0 n0] l IHl]; [contradiction|];
               cbn [flat_map fst snd] in Hin; rewrite map_app in Hin; apply in_app_or in Hin as [Hin|Hin];
               [destruct n0; cbn in Hin; try contradiction; destruct Hin as [<-|[]]; eexists; left; reflexivity
               |destruct (IHl Hin) as (a & Ha); exists a; right; exact Ha]);
         destruct Hv as (a & Ha);
         clear - Hnd Hkv Ha; induction l as [|[k0 n0] l IHl]; [contradiction|];
         cbn [map fst] in Hnd; inversion Hnd as [|? ? Hnotin Hnd']; subst;
         destruct Hkv as [Hkv|Hkv], Ha as [Ha|Ha];
         [congruence
         |injection Hkv as -> ->; apply Hnotin; apply in_map with (f := fst) in Ha; exact Ha
         |injection Ha as -> ->; apply Hnotin; apply in_map with (f := fst) in Hkv; exact Hkv
         |exact (IHl Hnd' Hkv Ha)]).
    - intros k Hk. rewrite map_app in Hk. apply in_app_or in Hk as [Hk|Hk].
      + left. intro Hin. specialize (Hd k Hin). apply in_map_iff in Hk as ([k0 n0] & <- & Hk0). cbn [fst] in *.
        clear - Hd Hk0. induction C as [|[k1 n1] C IHC]; [contradiction|]. cbn [sget] in Hd.
        destruct Hk0 as [Hk0|Hk0]; [injection Hk0 as -> ->; rewrite bytes_eqb_refl in Hd; discriminate|].
        destruct (bytes_eqb k1 k0); [discriminate|]. exact (IHC Hd Hk0).
      + right. clear - Hk. unfold kv_res in Hk. induction l as [|[k0 n0] l IHl]; [contradiction|].
        cbn [flat_map fst snd] in Hk. rewrite map_app in Hk. apply in_app_or in Hk as [Hk|Hk].
        * destruct n0; cbn in Hk; try contradiction. destruct Hk as [<-|[]]. eexists. left. reflexivity.
        * destruct (IHl Hk) as (a & Ha). exists a. right. exact Ha.
    - exists cur'. etransitivity; [exact E|]. rewrite <- app_assoc. reflexivity.
  Qed.
End Fold.

Section Nodes.
  Local Notation T := (stree aval).

  (* a body below a freshly defined table / array element, by framing *)
  Lemma body_under (k : bytes) (l : list (bytes * snode)) (C1 C2 : T) (mk : T -> T) :
    body_claim l ->
    (forall (F : T -> res (T * list bytes)), at_path_x [k] F C1 = rbind (F []) (fun cx => ROk (mk (fst cx), snd cx))) ->
    mk [] = C1 -> mk (body_res l) = C2 ->
    exists cur', spec_fold false (C1, [k]) (body_stmts [k] l) = ROk (C2, cur').
  Proof.
    intros Hb Hwalk Hmk0 Hmk. destruct (Hb [] (fun _ _ => eq_refl)) as (cur1 & E1). cbn [app] in E1.
    change [k] with ([k] ++ []) at 2. rewrite body_stmts_shift.
    destruct (body_stmts [] l) as [|s0 l0] eqn:Es.
    - cbn [spec_fold] in E1. injection E1 as E1 _. exists [k]. cbn [map spec_fold]. rewrite <- Hmk, <- E1, Hmk0. reflexivity.
    - exists ([k] ++ cur1). change [k] with ([k] ++ []) at 1.
      apply fold_frame; [rewrite <- Es; apply body_stmts_nonempty_hdr|discriminate|].
      rewrite Hwalk. rewrite E1. cbn [rbind fst snd]. rewrite Hmk. reflexivity.
  Qed.

  Lemma spush_app (C : T) k n : spush C k n = C ++ [(k, n)].
  Proof. reflexivity. Qed.

  (* a run of statements that begins with a header does not look at the current section *)
  Definition starts_hdr (l : list (stmt aval)) : Prop :=
    match l with SHeader _ :: _ | SArrHeader _ :: _ => True | _ => False end.

  Lemma spec_fold_cur_irrelevant l (t : T) c1 c2 : starts_hdr l -> spec_fold false (t, c1) l = spec_fold false (t, c2) l.
  Proof. destruct l as [|[p|p|p v] l]; cbn [starts_hdr]; try contradiction; intros _; reflexivity. Qed.

  Lemma starts_hdr_shift P l : starts_hdr l -> starts_hdr (map (shift P) l).
  Proof. destruct l as [|[p|p|p v] l]; cbn; auto. Qed.

  Lemma node_stmts_head : forall n, wf_node n -> forall P, node_stmts P n = [] \/ starts_hdr (node_stmts P n).
  Proof.
    apply (wf_node_strong (fun n => forall P, node_stmts P n = [] \/ starts_hdr (node_stmts P n))).
    - intros a P. left. reflexivity.
    - intros hid l _ _ IH Hh P. rewrite node_stmts_tbl. destruct hid; [|right; exact I].
      destruct (Hh eq_refl) as [Hkv _]. cbn [app]. unfold body_stmts. rewrite Hkv. cbn [app].
      clear Hh Hkv. induction l as [|[k n] l IHl]; [left; reflexivity|].
      cbn [map snd] in IH. inversion IH as [|? ? Hn Hl]; subst. cbn [flat_map fst snd].
      destruct (Hn (P ++ [k])) as [E | Hs].
      + rewrite E. cbn [app]. apply IHl, Hl.
      + right. destruct (node_stmts (P ++ [k]) n) as [|[p|p|p v] r]; cbn in Hs |- *; try contradiction; exact I.
    - intros ls _ P. rewrite node_stmts_aot. destruct ls as [|l ls]; [left; reflexivity|right; exact I].
  Qed.

  Theorem node_claim_all : forall n, wf_node n -> node_claim n.
  Proof.
    apply wf_node_strong.
    - intros a k C cur _. exists cur. cbn. rewrite app_nil_r. reflexivity.
    - intros hid l Hnd Hwf IH Hh k C cur Hk. pose proof (body_of_nodes l Hnd IH) as Hb.
      rewrite node_stmts_tbl, node_res_tbl. destruct hid.
      + (* no header: the table comes into being as a super-table of what is below it *)
        destruct (Hh eq_refl) as [Hkv Hne]. cbn [app map].
        assert (Hs : starts_hdr (body_stmts [k] l)).
        { destruct (node_stmts_head (STbl true l) (WT true l Hnd Hwf Hh) [k]) as [E | Hs].
          - rewrite node_stmts_tbl in E. cbn [app] in E. exfalso. apply Hne.
            change [k] with ([k] ++ []) in E. rewrite body_stmts_shift in E.
            destruct (body_stmts [] l); [reflexivity|discriminate E].
          - rewrite node_stmts_tbl in Hs. exact Hs. }
        rewrite (spec_fold_cur_irrelevant _ C cur [k] Hs).
        destruct (Hb [] (fun _ _ => eq_refl)) as (cur1 & E1). cbn [app] in E1.
        change [k] with ([k] ++ []) at 2. rewrite body_stmts_shift.
        exists ([k] ++ cur1). change [k] with ([k] ++ []) at 1.
        apply fold_frame; [apply body_stmts_nonempty_hdr|exact Hne|].
        cbn [at_path_x]. rewrite Hk, E1. reflexivity.
      + cbn [app spec_fold].
        assert (Estep : spec_step false (C, cur) (SHeader [k]) = ROk (spush C k (NTab KHeader []), [k])).
        { cbn [spec_step]. change (unsnoc [k]) with (Some (@nil bytes, k)). cbn [at_path]. unfold def_table. rewrite Hk. reflexivity. }
        rewrite Estep. cbn [rbind map].
        apply (body_under k l _ _ (fun c => spush C k (NTab KHeader c)) Hb); [|reflexivity|reflexivity].
        intro F. cbn [at_path_x]. rewrite (sget_spush_same _ _ _ Hk).
        destruct (F []) as [[c1 x]| |]; cbn [rbind fst snd]; [|reflexivity|reflexivity].
        rewrite (sset_spush _ _ _ _ Hk). reflexivity.
    - intros ls IH k C cur Hk. rewrite node_stmts_aot, node_res_aot.
      assert (Hbs : Forall body_claim ls).
      { clear - IH. induction IH as [|l ls [Hnd Hl] _ IHls]; constructor; [apply body_of_nodes; assumption|exact IHls]. }
      clear IH.
      (* elements after the first: the array is already there *)
      assert (Hrest : forall ls, Forall body_claim ls -> forall es cur0,
                exists cur', spec_fold false (spush C k (NAot es), cur0)
                                       (flat_map (fun l => SArrHeader [k] :: body_stmts [k] l) ls)
                             = ROk (spush C k (NAot (es ++ map body_res ls)), cur')).
      { clear ls Hbs. induction 1 as [|l ls Hl _ IHls]; intros es cur0.
        - exists cur0. cbn [flat_map spec_fold map]. rewrite app_nil_r. reflexivity.
        - cbn [flat_map]. change ((SArrHeader [k] :: body_stmts [k] l) ++ ?X) with (SArrHeader [k] :: (body_stmts [k] l ++ X)).
          cbn [spec_fold].
          assert (Estep : spec_step false (spush C k (NAot es), cur0) (SArrHeader [k])
                          = ROk (spush C k (NAot (es ++ [[]])), [k])).
          { cbn [spec_step]. change (unsnoc [k]) with (Some (@nil bytes, k)). cbn [at_path]. unfold def_elem.
            rewrite (sget_spush_same _ _ _ Hk). rewrite (sset_spush _ _ _ _ Hk). reflexivity. }
          rewrite Estep. cbn [rbind]. rewrite spec_fold_app.
          destruct (body_under k l (spush C k (NAot (es ++ [[]]))) (spush C k (NAot (es ++ [body_res l])))
                      (fun c => spush C k (NAot (es ++ [c]))) Hl) as (cur1 & E1); [|reflexivity|reflexivity|].
          { intro F. cbn [at_path_x]. rewrite (sget_spush_same _ _ _ Hk). rewrite rev_app_distr. cbn [rev app].
            destruct (F []) as [[c1 x]| |]; cbn [rbind fst snd]; [|reflexivity|reflexivity].
            rewrite (sset_spush _ _ _ _ Hk), rev_involutive. reflexivity. }
          rewrite E1. cbn [rbind].
          destruct (IHls (es ++ [body_res l]) cur1) as (cur' & E'). exists cur'. rewrite E'.
          cbn [map]. rewrite <- app_assoc. reflexivity. }
      destruct ls as [|l ls].
      + exists cur. cbn. rewrite app_nil_r. reflexivity.
      + inversion Hbs as [|? ? Hl Hls]; subst.
        cbn [flat_map]. change ((SArrHeader [k] :: body_stmts [k] l) ++ ?X) with (SArrHeader [k] :: (body_stmts [k] l ++ X)).
        cbn [spec_fold].
        assert (Estep : spec_step false (C, cur) (SArrHeader [k]) = ROk (spush C k (NAot ([] ++ [[]])), [k])).
        { cbn [spec_step]. change (unsnoc [k]) with (Some (@nil bytes, k)). cbn [at_path]. unfold def_elem. rewrite Hk. reflexivity. }
        rewrite Estep. cbn [rbind]. rewrite spec_fold_app.
        destruct (body_under k l (spush C k (NAot ([] ++ [[]]))) (spush C k (NAot ([] ++ [body_res l])))
                    (fun c => spush C k (NAot ([] ++ [c]))) Hl) as (cur1 & E1); [|reflexivity|reflexivity|].
        { intro F. cbn [at_path_x app]. rewrite (sget_spush_same _ _ _ Hk). cbn [rev app].
          destruct (F []) as [[c1 x]| |]; cbn [rbind fst snd]; [|reflexivity|reflexivity].
          rewrite (sset_spush _ _ _ _ Hk). reflexivity. }
        rewrite E1. cbn [rbind].
        destruct (Hrest ls Hls ([] ++ [body_res l]) cur1) as (cur' & E'). exists cur'. rewrite E'.
        cbn [map app]. reflexivity.
  Qed.

  (* a whole document: the statements of the root table's entries, from the empty state *)
  Theorem doc_fold l : wf_entries l ->
    exists cur', spec_fold false sstate0 (body_stmts [] l) = ROk (body_res l, cur').
  Proof.
    intros [Hnd Hl].
    assert (Hcl : Forall node_claim (map snd l)).
    { rewrite Forall_forall in *. intros n Hn. apply node_claim_all, Hl, Hn. }
    destruct (body_of_nodes l Hnd Hcl [] (fun _ _ => eq_refl)) as (cur' & E). exists cur'. exact E.
  Qed.
End Nodes.
