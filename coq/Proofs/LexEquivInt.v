(* Proofs/LexEquivInt.v — L1 for integers: digit runs with single underscores, dec-int,
   hex/oct/bin-int, and `integer` with its value (Horner) and i64 range check. *)
From TV Require Import Base.Prelude Base.Utf8 Base.Winnow Gen.Consts Spec.Abnf Spec.Lex.
From TV Require Import Model.Datetime Model.Trivia Model.Strings Model.Numbers.
From TV Require Import Proofs.ConstsOk Proofs.LexEquivBase Proofs.LexEquivTrivia.
Require Import Lia ZifyBool ZifyN ZifyNat.

(* ---- the languages of Spec/Lex.v: small facts -------------------------------------------------- *)
Lemma star_app L t1 v1 t2 v2 : star L t1 v1 -> star L t2 v2 -> star L (t1 ++ t2) (v1 ++ v2).
Proof.
  induction 1 as [|a va b vb Ha Hb IH]; intro H2; [exact H2|].
  rewrite <- !app_assoc. apply star_cons; [exact Ha|apply IH; exact H2].
Qed.

Lemma star_one L t v : L t v -> star L t v.
Proof.
  intro H. rewrite <- (app_nil_r t), <- (app_nil_r v). apply star_cons; [exact H|apply star_nil].
Qed.

(* digit or underscore: what may continue a digit run *)
Definition us_or (c : byte -> bool) (b : byte) : bool := c b || byte_eqb x5f b.

Lemma stops_us_or c r : stops (us_or c) r -> stops c r /\ stops (byte_eqb x5f) r.
Proof.
  destruct r as [|b r]; [auto|]. unfold us_or. cbn [stops]. intro H. apply orb_false_iff in H. exact H.
Qed.

(* a digit class: ASCII, without the underscore *)
Definition digit_class (c : byte -> bool) : Prop :=
  forall b, c b = true -> ascii b = true /\ byte_eqb x5f b = false.

Lemma digit_class_digit : digit_class Abnf.digit.
Proof. intros b H. unfold ascii. cls. lia. Qed.
Lemma digit_class_hexdig : digit_class Abnf.hexdig.
Proof. intros b H. unfold ascii. cls. lia. Qed.
Lemma digit_class_0_7 : digit_class digit0_7.
Proof. intros b H. unfold ascii. cls. lia. Qed.
Lemma digit_class_0_1 : digit_class digit0_1.
Proof. intros b H. unfold ascii. cls. lia. Qed.
Lemma digit1_9_digit b : digit1_9 b = true -> Abnf.digit b = true.
Proof. cls. lia. Qed.

Lemma remove_us_app a b : remove_us (a ++ b) = remove_us a ++ remove_us b.
Proof. apply filter_app. Qed.

Lemma us_digit_facts c t v : digit_class c -> us_digit c t v ->
  t <> [] /\ forallb ascii t = true /\ forallb c v = true /\ remove_us t = v.
Proof.
  intros Hc [(b & Hb & -> & ->) | (t1 & v1 & t2 & v2 & -> & -> & [-> ->] & (b & Hb & -> & ->))];
    destruct (Hc b Hb) as [Ha Hu]; rewrite byte_eqb_n, N.eqb_sym, <- byte_eqb_n in Hu.
  - split; [discriminate|]. cbn [forallb remove_us filter underscore]. rewrite Ha, Hb, Hu. auto.
  - split; [discriminate|]. cbn [app forallb remove_us filter underscore byte_eqb Byte.eqb].
    change (Byte.eqb x5f x5f) with true. cbn [negb]. rewrite Ha, Hb, Hu. auto.
Qed.

Lemma star_us_facts c t v : digit_class c -> star (us_digit c) t v ->
  forallb ascii t = true /\ forallb c v = true /\ remove_us t = v.
Proof.
  intros Hc. induction 1 as [|t1 v1 t2 v2 H1 H2 (IHa & IHc & IHr)]; [auto|].
  destruct (us_digit_facts c t1 v1 Hc H1) as (_ & Ha & Hv & Hr).
  rewrite !forallb_app, remove_us_app, Ha, Hv, Hr, IHa, IHc, IHr. auto.
Qed.

(* ---- one element of a digit run: d / underscore d ------------------------------------------------ *)
Definition el (d : parser byte) : parser unit :=
  pvoid d <|> (byte_ underscore ;;; pvoid (context (cut_err d))).

Section DigitRun.
  (* g: the class as the code tests it; c: the class of the grammar *)
  Variables (g c : byte -> bool).
  Hypothesis Hg : forall b, g b = c b.
  Hypothesis Hc : digit_class c.

  Lemma el_ok t v i r : us_digit c t v -> rest i = t ++ r -> el (one_of g) i = Ok tt (adv t i).
  Proof.
    intros [(b & Hb & -> & ->) | (t1 & v1 & t2 & v2 & -> & -> & [-> ->] & (b & Hb & -> & ->))] H; unfold el.
    - apply alt_ok. apply (pvoid_ok _ _ b). apply (one_of_ok g i b r H). rewrite Hg. exact Hb.
    - rewrite alt_fails_l.
      + rewrite (bind_ok _ _ _ _ _ (byte_ok underscore i ([b] ++ r) H)).
        assert (R : rest (adv [underscore] i) = b :: r) by (apply rest_adv; exact H).
        rewrite (pvoid_ok _ _ b (adv [b] (adv [underscore] i))).
        * rewrite adv_adv. reflexivity.
        * apply context_ok, cut_err_ok. apply (one_of_ok g _ b r R). rewrite Hg. exact Hb.
      + apply pvoid_fails, one_of_fails. rewrite H. cbn [app stops]. rewrite Hg.
        destruct (c x5f) eqn:E; [|reflexivity]. destruct (Hc _ E) as [_ F]. discriminate.
  Qed.

  Lemma el_inv i u i' : el (one_of g) i = Ok u i' -> exists t v, us_digit c t v /\ splits i t i'.
  Proof.
    unfold el. intro H. apply alt_inv in H as [H | [_ H]].
    - apply pvoid_inv in H as (b & H). apply one_of_inv in H as [Hb S]. rewrite Hg in Hb.
      exists [b], [b]. split; [left; exists b; auto|exact S].
    - apply bind_inv in H as (x & i1 & H1 & H). apply byte_inv in H1 as [_ S1].
      apply pvoid_inv in H as (b & H). apply context_inv, cut_err_inv in H.
      apply one_of_inv in H as [Hb S2]. rewrite Hg in Hb.
      exists ([x5f] ++ [b]), ([] ++ [b]). split; [|apply (splits_trans _ _ _ _ _ S1 S2)].
      right. exists [x5f], [], [b], [b]. repeat split. exists b; auto.
  Qed.

  Lemma el_shrinking : shrinking (el (one_of g)).
  Proof. apply splits_shrinking. intros i a i' H. apply el_inv in H as (t & _ & _ & S). eauto. Qed.

  Lemma el_fails i : stops (us_or c) (rest i) -> fails (el (one_of g)) i.
  Proof.
    intro H. apply stops_us_or in H as [H1 H2]. unfold el. apply alt_fails.
    - apply pvoid_fails, one_of_fails. destruct (rest i); [exact I|]. cbn [stops] in *. rewrite Hg. exact H1.
    - apply bind_fails, byte_fails. exact H2.
  Qed.

  Lemma el_fails_inv i : fails (el (one_of g)) i -> stops (us_or c) (rest i).
  Proof.
    intros (e & j & H). destruct (rest i) as [|b r] eqn:E; [exact I|]. cbn [stops]. unfold us_or.
    destruct (c b) eqn:Cb.
    { exfalso. rewrite (el_ok [b] [b] i r) in H; [discriminate|left; exists b; auto|exact E]. }
    destruct (byte_eqb x5f b) eqn:U; [|reflexivity]. exfalso. apply byte_eqb_eq in U. subst b.
    unfold el in H. rewrite alt_fails_l in H.
    - rewrite (bind_ok _ _ _ _ _ (byte_ok underscore i r E)) in H.
      unfold pvoid, pmap, context, cut_err in H. destruct (one_of g (adv [underscore] i)); discriminate.
    - apply pvoid_fails, one_of_fails. rewrite E. cbn [stops]. rewrite Hg. exact Cb.
  Qed.

  Lemma runs_el_sound i l i' : runs (el (one_of g)) i l i' ->
    exists t v, star (us_digit c) t v /\ splits i t i' /\ stops (us_or c) (rest i').
  Proof.
    induction 1 as [i F|i a i1 l i2 E _ _ (t2 & v2 & St & S2 & Hs)].
    - exists [], []. split; [apply star_nil|]. split; [apply splits_nil|apply el_fails_inv; exact F].
    - apply el_inv in E as (t1 & v1 & U & S1). exists (t1 ++ t2), (v1 ++ v2).
      split; [apply star_cons; assumption|]. split; [apply (splits_trans _ _ _ _ _ S1 S2)|exact Hs].
  Qed.

  Lemma runs_el_complete t v : star (us_digit c) t v -> forall i r, rest i = t ++ r -> stops (us_or c) r ->
    exists l, runs (el (one_of g)) i l (adv t i).
  Proof.
    induction 1 as [|t1 v1 t2 v2 H1 H2 IH]; intros i r H Hr.
    - exists []. rewrite adv_nil. apply runs_nil. apply el_fails. rewrite H. exact Hr.
    - rewrite <- app_assoc in H. pose proof (el_ok t1 v1 i (t2 ++ r) H1 H) as E.
      pose proof (rest_adv t1 (t2 ++ r) i H) as R.
      destruct (IH (adv t1 i) r R Hr) as (l & Rl). exists (tt :: l). rewrite <- adv_adv.
      eapply runs_cons; [exact E| |exact Rl].
      rewrite R, H. rewrite (app_length t1). destruct (us_digit_facts c t1 v1 Hc H1) as (Hne & _).
      destruct t1; [congruence|simpl; lia].
  Qed.

  (* first *( d / underscore d ) *)
  Variables (f cf : byte -> bool).
  Hypothesis Hf : forall b, f b = cf b.

  Lemma digits_us_complete i b t v r :
    rest i = (b :: t) ++ r -> cf b = true -> star (us_digit c) t v -> stops (us_or c) r ->
    digits_us (one_of f) (one_of g) i = Ok tt (adv (b :: t) i).
  Proof.
    intros H Hb St Hr. unfold digits_us. fold (el (one_of g)).
    assert (Hfb : f b = true) by (rewrite Hf; exact Hb).
    rewrite (bind_ok _ _ _ _ _ (one_of_ok f i b (t ++ r) H Hfb)).
    assert (R : rest (adv [b] i) = t ++ r) by (apply rest_adv; exact H).
    destruct (runs_el_complete t v St _ r R Hr) as (l & Rl).
    rewrite (pvoid_ok _ _ _ _ (repeat0_runs _ _ _ _ Rl)). rewrite adv_adv. reflexivity.
  Qed.

  Lemma digits_us_sound i u i' : digits_us (one_of f) (one_of g) i = Ok u i' ->
    exists b t v, cf b = true /\ star (us_digit c) t v /\ splits i (b :: t) i' /\ stops (us_or c) (rest i').
  Proof.
    unfold digits_us. fold (el (one_of g)). intro H. apply bind_inv in H as (b & i1 & H1 & H).
    apply one_of_inv in H1 as [Hb S1]. rewrite Hf in Hb. apply pvoid_inv in H as (l & H).
    apply (repeat0_inv _ _ _ _ el_shrinking) in H. apply runs_el_sound in H as (t & v & St & S2 & Hs).
    exists b, t, v. split; [exact Hb|]. split; [exact St|]. split; [|exact Hs].
    apply (splits_trans _ _ _ _ _ S1 S2).
  Qed.

  Lemma digits_us_fails i : stops cf (rest i) -> fails (digits_us (one_of f) (one_of g)) i.
  Proof.
    intro H. unfold digits_us. apply bind_fails, one_of_fails.
    destruct (rest i); [exact I|]. cbn [stops] in *. rewrite Hf. exact H.
  Qed.
End DigitRun.

(* ---- values: i64::from_str_radix on digits = Horner -------------------------------------------------- *)
Lemma horner_acc radix ds acc :
  fold_left (fun a b => (a * radix + digit_of b)%N) ds acc
  = (acc * radix ^ N.of_nat (length ds) + horner radix ds)%N.
Proof.
  unfold horner. revert acc. induction ds as [|d ds IH]; intro acc.
  - cbn [fold_left length]. change (N.of_nat 0) with 0%N. rewrite N.pow_0_r. lia.
  - cbn [fold_left length]. rewrite IH. rewrite (IH (0 * radix + digit_of d)%N).
    rewrite Nat2N.inj_succ, N.pow_succ_r'. lia.
Qed.

Lemma radix_value_horner r c ds : (forall b, c b = true -> radix_digit r b = Some (digit_of b)) ->
  forallb c ds = true -> forall acc,
  radix_value r acc ds = Some (fold_left (fun a b => (a * r + digit_of b)%N) ds acc).
Proof.
  intros Hd. induction ds as [|d ds IH]; intros Hds acc; [reflexivity|].
  cbn [forallb] in Hds. apply andb_true_iff in Hds as [H1 H2].
  cbn [radix_value fold_left]. rewrite (Hd d H1). apply IH. exact H2.
Qed.

Lemma radix_digit_10 b : Abnf.digit b = true -> radix_digit 10 b = Some (digit_of b).
Proof. destruct b; try discriminate; intros _; reflexivity. Qed.
Lemma radix_digit_16 b : Abnf.hexdig b = true -> radix_digit 16 b = Some (digit_of b).
Proof. destruct b; try discriminate; intros _; reflexivity. Qed.
Lemma radix_digit_8 b : digit0_7 b = true -> radix_digit 8 b = Some (digit_of b).
Proof. destruct b; try discriminate; intros _; reflexivity. Qed.
Lemma radix_digit_2 b : digit0_1 b = true -> radix_digit 2 b = Some (digit_of b).
Proof. destruct b; try discriminate; intros _; reflexivity. Qed.

(* the first byte of a digit string is not a sign *)
Lemma digit_class_not_sign c b : digit_class c -> c b = true -> ascii b = true.
Proof. intros H Hb. apply (H b Hb). Qed.

Lemma i64_unsigned r c ds : (forall b, c b = true -> radix_digit r b = Some (digit_of b)) ->
  (forall b, c b = true -> byte_eqb b plus = false /\ byte_eqb b dash = false) ->
  ds <> [] -> forallb c ds = true ->
  i64_from_str_radix r ds = if in_i64 (Z.of_N (horner r ds)) then Some (Z.of_N (horner r ds)) else None.
Proof.
  intros Hd Hs Hne Hds. unfold i64_from_str_radix. destruct ds as [|b t]; [congruence|].
  pose proof Hds as Hds'. cbn [forallb] in Hds'. apply andb_true_iff in Hds' as [Hb _].
  destruct (Hs b Hb) as [-> ->]. rewrite (radix_value_horner r c (b :: t) Hd Hds). reflexivity.
Qed.

Lemma digit_not_sign b : Abnf.digit b = true -> byte_eqb b plus = false /\ byte_eqb b dash = false.
Proof. unfold plus, dash. cls. lia. Qed.
Lemma hexdig_not_sign b : Abnf.hexdig b = true -> byte_eqb b plus = false /\ byte_eqb b dash = false.
Proof. unfold plus, dash. cls. lia. Qed.
Lemma digit0_7_not_sign b : digit0_7 b = true -> byte_eqb b plus = false /\ byte_eqb b dash = false.
Proof. unfold plus, dash. cls. lia. Qed.
Lemma digit0_1_not_sign b : digit0_1 b = true -> byte_eqb b plus = false /\ byte_eqb b dash = false.
Proof. unfold plus, dash. cls. lia. Qed.

Lemma i64_signed sg neg ds : sign sg neg -> ds <> [] -> forallb Abnf.digit ds = true ->
  i64_from_str_radix 10 (sg ++ ds)
  = if in_i64 (signed neg (horner 10 ds)) then Some (signed neg (horner 10 ds)) else None.
Proof.
  intros [[-> ->] | [[-> ->] | [-> ->]]] Hne Hds.
  - cbn [app signed]. apply (i64_unsigned 10 Abnf.digit ds radix_digit_10 digit_not_sign Hne Hds).
  - cbn [app signed]. unfold i64_from_str_radix. change (byte_eqb x2b plus) with true. cbv iota.
    destruct ds as [|b t]; [congruence|]. rewrite (radix_value_horner 10 Abnf.digit (b :: t) radix_digit_10 Hds). reflexivity.
  - cbn [app signed]. unfold i64_from_str_radix. change (byte_eqb x2d plus) with false.
    change (byte_eqb x2d dash) with true. cbv iota.
    destruct ds as [|b t]; [congruence|]. rewrite (radix_value_horner 10 Abnf.digit (b :: t) radix_digit_10 Hds). reflexivity.
Qed.

(* ---- dec-int = [ minus / plus ] unsigned-dec-int ----------------------------------------------------------- *)
Definition is_sign (b : byte) : bool := byte_eqb b plus || byte_eqb b dash.

Lemma sign_facts sg neg : sign sg neg -> forallb ascii sg = true /\ remove_us sg = sg.
Proof. intros [[-> ->] | [[-> ->] | [-> ->]]]; split; reflexivity. Qed.

Lemma unsigned_facts u ds : unsigned_dec_int u ds ->
  forallb ascii u = true /\ forallb Abnf.digit ds = true /\ remove_us u = ds /\ ds <> []
  /\ exists b u', u = b :: u' /\ Abnf.digit b = true.
Proof.
  intros [(b & Hb & -> & ->) | (t1 & v1 & t2 & v2 & -> & -> & (b & Hb & -> & ->) & (ta & va & tb & vb & -> & -> & Ha & Hb2))].
  - destruct (digit_class_digit b Hb) as [Ha Hu]. rewrite byte_eqb_n, N.eqb_sym, <- byte_eqb_n in Hu.
    cbn [forallb remove_us filter underscore]. rewrite Ha, Hb, Hu. cbn [negb andb].
    repeat split; try reflexivity; [discriminate|]. exists b, []. auto.
  - pose proof (digit1_9_digit b Hb) as Hd. destruct (digit_class_digit b Hd) as [Ha0 Hu].
    rewrite byte_eqb_n, N.eqb_sym, <- byte_eqb_n in Hu.
    destruct (star_us_facts Abnf.digit (ta ++ tb) (va ++ vb) digit_class_digit (star_cons _ _ _ _ _ Ha Hb2)) as (A1 & A2 & A3).
    cbn [app forallb]. rewrite Ha0, Hd, A1, A2. cbn [andb].
    repeat split; try reflexivity.
    + unfold remove_us in *. cbn [filter underscore]. rewrite Hu. cbn [negb]. rewrite A3. reflexivity.
    + discriminate.
    + exists b, (ta ++ tb). auto.
Qed.

Definition dec_body : parser unit :=
  digits_us (one_of (in_class DIGIT1_9)) digit <|> pvoid digit.

Lemma dec_body_complete i u ds r :
  unsigned_dec_int u ds -> rest i = u ++ r -> stops (us_or Abnf.digit) r -> dec_body i = Ok tt (adv u i).
Proof.
  intros [(b & Hb & -> & ->) | (t1 & v1 & t2 & v2 & -> & -> & (b & Hb & -> & ->) & (ta & va & tb & vb & -> & -> & Ha & Hb2))] H Hr;
    unfold dec_body, digit.
  - destruct (digit1_9 b) eqn:E.
    + apply alt_ok.
      apply (digits_us_complete _ _ DIGIT_ok digit_class_digit _ _ DIGIT1_9_ok i b [] [] r H E (star_nil _) Hr).
    + rewrite alt_fails_l.
      * apply (pvoid_ok _ _ b). apply (one_of_ok _ i b r H). rewrite DIGIT_ok. exact Hb.
      * apply (digits_us_fails _ _ _ DIGIT1_9_ok). rewrite H. cbn [app stops]. exact E.
  - apply alt_ok.
    apply (digits_us_complete _ _ DIGIT_ok digit_class_digit _ _ DIGIT1_9_ok i b (ta ++ tb) (va ++ vb) r H Hb).
    + apply star_cons; assumption.
    + exact Hr.
Qed.

Lemma dec_body_sound i x i' : dec_body i = Ok x i' ->
  exists u ds, unsigned_dec_int u ds /\ splits i u i' /\ stops (byte_eqb x5f) (rest i').
Proof.
  unfold dec_body, digit. intro H. apply alt_inv in H as [H | [_ H]].
  - apply (digits_us_sound _ _ DIGIT_ok digit_class_digit _ _ DIGIT1_9_ok) in H as (b & t & v & Hb & St & S & Hs).
    apply stops_us_or in Hs as [_ Hs].
    destruct St as [|t1 v1 t2 v2 H1 H2].
    + exists [b], [b]. split; [left; exists b; split; [apply digit1_9_digit; exact Hb|auto]|auto].
    + exists ([b] ++ t1 ++ t2), ([b] ++ v1 ++ v2). split; [|auto].
      right. exists [b], [b], (t1 ++ t2), (v1 ++ v2). repeat split; [exists b; auto|].
      exists t1, v1, t2, v2. auto.
  - apply pvoid_inv in H as (b & H). apply one_of_inv in H as [Hb S]. rewrite DIGIT_ok in Hb.
    exists [b], [b]. split; [left; exists b; auto|]. split; [exact S|].
Abort.
