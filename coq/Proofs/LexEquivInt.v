(* Proofs/LexEquivInt.v — L1 for integers: digit runs with single underscores, dec-int,
   hex/oct/bin-int, and `integer` with its value (Horner) and i64 range check. *)
From TV Require Import Base.Prelude Base.Utf8 Base.Winnow Gen.Consts Spec.Abnf Spec.Lex.
From TV Require Import Model.Datetime Model.Trivia Model.Strings Model.Numbers.
From TV Require Import Proofs.ConstsOk Proofs.LexEquivBase Proofs.LexEquivTrivia.
Require Import Lia ZifyBool ZifyN ZifyNat.

(* ---- the languages of Spec/Lex.v: small facts -------------------------------------------------- *)
Lemma star_app (L : lang) t1 v1 t2 v2 : star L t1 v1 -> star L t2 v2 -> star L (t1 ++ t2) (v1 ++ v2).
Proof.
  induction 1 as [|a va b vb Ha Hb IH]; intro H2; [exact H2|].
  rewrite <- !app_assoc. apply star_cons; [exact Ha|apply IH; exact H2].
Qed.

Lemma star_one (L : lang) t v : L t v -> star L t v.
Proof.
  intro H. rewrite <- (app_nil_r t), <- (app_nil_r v). apply star_cons; [exact H|apply star_nil].
Qed.

(* digit or underscore: what may continue a digit run *)
Definition us_or (c : byte -> bool) (b : byte) : bool := c b || byte_eqb x5f b.

Lemma stops_us_or c r : stops (us_or c) r -> stops c r /\ stops (byte_eqb x5f) r.
Proof.
  destruct r as [|b r]; [auto|]. unfold us_or. cbn [stops]. intro H. apply orb_false_iff in H. exact H.
Qed.

(* a digit class: ASCII, without the underscore *)
Definition digit_class (c : byte -> bool) : Prop :=
  forall b, c b = true -> ascii b = true /\ byte_eqb x5f b = false.

Lemma digit_class_digit : digit_class Abnf.digit.
Proof. intros b H. unfold ascii. cls. lia. Qed.
Lemma digit_class_hexdig : digit_class Abnf.hexdig.
Proof. intros b H. unfold ascii. cls. lia. Qed.
Lemma digit_class_0_7 : digit_class digit0_7.
Proof. intros b H. unfold ascii. cls. lia. Qed.
Lemma digit_class_0_1 : digit_class digit0_1.
Proof. intros b H. unfold ascii. cls. lia. Qed.
Lemma digit1_9_digit b : digit1_9 b = true -> Abnf.digit b = true.
Proof. cls. lia. Qed.

Lemma remove_us_app a b : remove_us (a ++ b) = remove_us a ++ remove_us b.
Proof. apply filter_app. Qed.

Lemma us_digit_facts c t v : digit_class c -> us_digit c t v ->
  t <> [] /\ forallb ascii t = true /\ forallb c v = true /\ remove_us t = v.
Proof.
  intros Hc [(b & Hb & -> & ->) | (t1 & v1 & t2 & v2 & -> & -> & [-> ->] & (b & Hb & -> & ->))];
    destruct (Hc b Hb) as [Ha Hu]; rewrite byte_eqb_n, N.eqb_sym, <- byte_eqb_n in Hu.
  - split; [discriminate|]. unfold remove_us, underscore. cbn [forallb filter]. rewrite Ha, Hb, Hu. auto.
  - split; [discriminate|]. unfold remove_us, underscore. cbn [app forallb filter].
    change (byte_eqb x5f x5f) with true. cbn [negb]. rewrite Ha, Hb, Hu. auto.
Qed.

Lemma star_us_facts c t v : digit_class c -> star (us_digit c) t v ->
  forallb ascii t = true /\ forallb c v = true /\ remove_us t = v.
Proof.
  intros Hc. induction 1 as [|t1 v1 t2 v2 H1 H2 (IHa & IHc & IHr)]; [auto|].
  destruct (us_digit_facts c t1 v1 Hc H1) as (_ & Ha & Hv & Hr).
  rewrite !forallb_app, remove_us_app, Ha, Hv, Hr, IHa, IHc, IHr. auto.
Qed.

(* ---- one element of a digit run: d / underscore d ------------------------------------------------ *)
Definition el (d : parser byte) : parser unit :=
  pvoid d <|> (byte_ underscore ;;; pvoid (context (cut_err d))).

Section DigitRun.
  (* g: the class as the code tests it; c: the class of the grammar *)
  Variables (g c : byte -> bool).
  Hypothesis Hg : forall b, g b = c b.
  Hypothesis Hc : digit_class c.

  Lemma el_ok t v i r : us_digit c t v -> rest i = t ++ r -> el (one_of g) i = Ok tt (adv t i).
  Proof.
    intros [(b & Hb & -> & ->) | (t1 & v1 & t2 & v2 & -> & -> & [-> ->] & (b & Hb & -> & ->))] H; unfold el.
    - apply alt_ok. apply (pvoid_ok _ _ b). apply (one_of_ok g i b r H). rewrite Hg. exact Hb.
    - rewrite alt_fails_l.
      + rewrite (bind_ok _ _ _ _ _ (byte_ok underscore i ([b] ++ r) H)).
        assert (R : rest (adv [underscore] i) = b :: r) by (apply rest_adv; exact H).
        rewrite (pvoid_ok _ _ b (adv [b] (adv [underscore] i))).
        * rewrite adv_adv. reflexivity.
        * apply context_ok, cut_err_ok. apply (one_of_ok g _ b r R). rewrite Hg. exact Hb.
      + apply pvoid_fails, one_of_fails. rewrite H. cbn [app stops]. rewrite Hg.
        destruct (c x5f) eqn:E; [|reflexivity]. destruct (Hc _ E) as [_ F]. discriminate.
  Qed.

  Lemma el_inv i u i' : el (one_of g) i = Ok u i' -> exists t v, us_digit c t v /\ splits i t i'.
  Proof.
    unfold el. intro H. apply alt_inv in H as [H | [_ H]].
    - apply pvoid_inv in H as (b & H). apply one_of_inv in H as [Hb S]. rewrite Hg in Hb.
      exists [b], [b]. split; [left; exists b; auto|exact S].
    - apply bind_inv in H as (x & i1 & H1 & H). apply byte_inv in H1 as [_ S1].
      apply pvoid_inv in H as (b & H). apply context_inv, cut_err_inv in H.
      apply one_of_inv in H as [Hb S2]. rewrite Hg in Hb.
      exists ([x5f] ++ [b]), ([] ++ [b]). split; [|apply (splits_trans _ _ _ _ _ S1 S2)].
      right. exists [x5f], [], [b], [b]. repeat split. exists b; auto.
  Qed.

  Lemma el_shrinking : shrinking (el (one_of g)).
  Proof. apply splits_shrinking. intros i a i' H. apply el_inv in H as (t & _ & _ & S). eauto. Qed.

  Lemma el_fails i : stops (us_or c) (rest i) -> fails (el (one_of g)) i.
  Proof.
    intro H. apply stops_us_or in H as [H1 H2]. unfold el. apply alt_fails.
    - apply pvoid_fails, one_of_fails. destruct (rest i); [exact I|]. cbn [stops] in *. rewrite Hg. exact H1.
    - apply bind_fails, byte_fails. exact H2.
  Qed.

  Lemma el_fails_inv i : fails (el (one_of g)) i -> stops (us_or c) (rest i).
  Proof.
    intros (e & j & H). destruct (rest i) as [|b r] eqn:E; [exact I|]. cbn [stops]. unfold us_or.
    destruct (c b) eqn:Cb.
    { exfalso. rewrite (el_ok [b] [b] i r) in H; [discriminate|left; exists b; auto|exact E]. }
    destruct (byte_eqb x5f b) eqn:U; [|reflexivity]. exfalso. apply byte_eqb_eq in U. subst b.
    unfold el in H. rewrite alt_fails_l in H.
    - rewrite (bind_ok _ _ _ _ _ (byte_ok underscore i r E)) in H.
      unfold pvoid, pmap, context, cut_err in H. destruct (one_of g (adv [underscore] i)); discriminate.
    - apply pvoid_fails, one_of_fails. rewrite E. cbn [stops]. rewrite Hg. exact Cb.
  Qed.

  Lemma runs_el_sound i l i' : runs (el (one_of g)) i l i' ->
    exists t v, star (us_digit c) t v /\ splits i t i' /\ stops (us_or c) (rest i').
  Proof.
    induction 1 as [i F|i a i1 l i2 E _ _ (t2 & v2 & St & S2 & Hs)].
    - exists [], []. split; [apply star_nil|]. split; [apply splits_nil|apply el_fails_inv; exact F].
    - apply el_inv in E as (t1 & v1 & U & S1). exists (t1 ++ t2), (v1 ++ v2).
      split; [apply star_cons; assumption|]. split; [apply (splits_trans _ _ _ _ _ S1 S2)|exact Hs].
  Qed.

  Lemma runs_el_complete t v : star (us_digit c) t v -> forall i r, rest i = t ++ r -> stops (us_or c) r ->
    exists l, runs (el (one_of g)) i l (adv t i).
  Proof.
    induction 1 as [|t1 v1 t2 v2 H1 H2 IH]; intros i r H Hr.
    - exists []. rewrite adv_nil. apply runs_nil. apply el_fails. rewrite H. exact Hr.
    - rewrite <- app_assoc in H. pose proof (el_ok t1 v1 i (t2 ++ r) H1 H) as E.
      pose proof (rest_adv t1 (t2 ++ r) i H) as R.
      destruct (IH (adv t1 i) r R Hr) as (l & Rl). exists (tt :: l). rewrite <- adv_adv.
      eapply runs_cons; [exact E| |exact Rl].
      rewrite R, H. rewrite (app_length t1). destruct (us_digit_facts c t1 v1 Hc H1) as (Hne & _).
      destruct t1; [congruence|simpl; lia].
  Qed.

  (* first *( d / underscore d ) *)
  Variables (f cf : byte -> bool).
  Hypothesis Hf : forall b, f b = cf b.

  Lemma digits_us_complete i b t v r :
    rest i = (b :: t) ++ r -> cf b = true -> star (us_digit c) t v -> stops (us_or c) r ->
    digits_us (one_of f) (one_of g) i = Ok tt (adv (b :: t) i).
  Proof.
    intros H Hb St Hr. unfold digits_us. fold (el (one_of g)).
    assert (Hfb : f b = true) by (rewrite Hf; exact Hb).
    rewrite (bind_ok _ _ _ _ _ (one_of_ok f i b (t ++ r) H Hfb)).
    assert (R : rest (adv [b] i) = t ++ r) by (apply rest_adv; exact H).
    destruct (runs_el_complete t v St _ r R Hr) as (l & Rl).
    rewrite (pvoid_ok _ _ _ _ (repeat0_runs _ _ _ _ Rl)). rewrite adv_adv. reflexivity.
  Qed.

  Lemma digits_us_sound i u i' : digits_us (one_of f) (one_of g) i = Ok u i' ->
    exists b t v, cf b = true /\ star (us_digit c) t v /\ splits i (b :: t) i' /\ stops (us_or c) (rest i').
  Proof.
    unfold digits_us. fold (el (one_of g)). intro H. apply bind_inv in H as (b & i1 & H1 & H).
    apply one_of_inv in H1 as [Hb S1]. rewrite Hf in Hb. apply pvoid_inv in H as (l & H).
    apply (repeat0_inv _ _ _ _ el_shrinking) in H. apply runs_el_sound in H as (t & v & St & S2 & Hs).
    exists b, t, v. split; [exact Hb|]. split; [exact St|]. split; [|exact Hs].
    apply (splits_trans _ _ _ _ _ S1 S2).
  Qed.

  Lemma digits_us_fails i : stops cf (rest i) -> fails (digits_us (one_of f) (one_of g)) i.
  Proof.
    intro H. unfold digits_us. apply bind_fails, one_of_fails.
    destruct (rest i); [exact I|]. cbn [stops] in *. rewrite Hf. exact H.
  Qed.
End DigitRun.

(* ---- values: i64::from_str_radix on digits = Horner -------------------------------------------------- *)
Lemma horner_acc radix ds acc :
  fold_left (fun a b => (a * radix + digit_of b)%N) ds acc
  = (acc * radix ^ N.of_nat (length ds) + horner radix ds)%N.
Proof.
  unfold horner. revert acc. induction ds as [|d ds IH]; intro acc.
  - cbn [fold_left length]. change (N.of_nat 0) with 0%N. rewrite N.pow_0_r. lia.
  - cbn [fold_left length]. rewrite IH. rewrite (IH (0 * radix + digit_of d)%N).
    rewrite Nat2N.inj_succ, N.pow_succ_r'. lia.
Qed.

Lemma radix_value_horner r c ds : (forall b, c b = true -> radix_digit r b = Some (digit_of b)) ->
  forallb c ds = true -> forall acc,
  radix_value r acc ds = Some (fold_left (fun a b => (a * r + digit_of b)%N) ds acc).
Proof.
  intros Hd. induction ds as [|d ds IH]; intros Hds acc; [reflexivity|].
  cbn [forallb] in Hds. apply andb_true_iff in Hds as [H1 H2].
  cbn [radix_value fold_left]. rewrite (Hd d H1). apply IH. exact H2.
Qed.

Lemma radix_digit_10 b : Abnf.digit b = true -> radix_digit 10 b = Some (digit_of b).
Proof. destruct b; try discriminate; intros _; reflexivity. Qed.
Lemma radix_digit_16 b : Abnf.hexdig b = true -> radix_digit 16 b = Some (digit_of b).
Proof. destruct b; try discriminate; intros _; reflexivity. Qed.
Lemma radix_digit_8 b : digit0_7 b = true -> radix_digit 8 b = Some (digit_of b).
Proof. destruct b; try discriminate; intros _; reflexivity. Qed.
Lemma radix_digit_2 b : digit0_1 b = true -> radix_digit 2 b = Some (digit_of b).
Proof. destruct b; try discriminate; intros _; reflexivity. Qed.

(* the first byte of a digit string is not a sign *)
Lemma digit_class_not_sign c b : digit_class c -> c b = true -> ascii b = true.
Proof. intros H Hb. apply (H b Hb). Qed.

Lemma i64_unsigned r c ds : (forall b, c b = true -> radix_digit r b = Some (digit_of b)) ->
  (forall b, c b = true -> byte_eqb b plus = false /\ byte_eqb b dash = false) ->
  ds <> [] -> forallb c ds = true ->
  i64_from_str_radix r ds = if in_i64 (Z.of_N (horner r ds)) then Some (Z.of_N (horner r ds)) else None.
Proof.
  intros Hd Hs Hne Hds. unfold i64_from_str_radix. destruct ds as [|b t]; [congruence|].
  pose proof Hds as Hds'. cbn [forallb] in Hds'. apply andb_true_iff in Hds' as [Hb _].
  destruct (Hs b Hb) as [-> ->]. rewrite (radix_value_horner r c (b :: t) Hd Hds). reflexivity.
Qed.

Lemma digit_not_sign b : Abnf.digit b = true -> byte_eqb b plus = false /\ byte_eqb b dash = false.
Proof. unfold plus, dash. cls. lia. Qed.
Lemma hexdig_not_sign b : Abnf.hexdig b = true -> byte_eqb b plus = false /\ byte_eqb b dash = false.
Proof. unfold plus, dash. cls. lia. Qed.
Lemma digit0_7_not_sign b : digit0_7 b = true -> byte_eqb b plus = false /\ byte_eqb b dash = false.
Proof. unfold plus, dash. cls. lia. Qed.
Lemma digit0_1_not_sign b : digit0_1 b = true -> byte_eqb b plus = false /\ byte_eqb b dash = false.
Proof. unfold plus, dash. cls. lia. Qed.

Lemma i64_signed sg neg ds : sign sg neg -> ds <> [] -> forallb Abnf.digit ds = true ->
  i64_from_str_radix 10 (sg ++ ds)
  = if in_i64 (signed neg (horner 10 ds)) then Some (signed neg (horner 10 ds)) else None.
Proof.
  intros [[-> ->] | [[-> ->] | [-> ->]]] Hne Hds.
  - cbn [app signed]. apply (i64_unsigned 10 Abnf.digit ds radix_digit_10 digit_not_sign Hne Hds).
  - cbn [app signed]. unfold i64_from_str_radix. change (byte_eqb x2b plus) with true. cbv iota.
    destruct ds as [|b t]; [congruence|]. rewrite (radix_value_horner 10 Abnf.digit (b :: t) radix_digit_10 Hds). reflexivity.
  - cbn [app signed]. unfold i64_from_str_radix. change (byte_eqb x2d plus) with false.
    change (byte_eqb x2d dash) with true. cbv iota.
    destruct ds as [|b t]; [congruence|]. rewrite (radix_value_horner 10 Abnf.digit (b :: t) radix_digit_10 Hds). reflexivity.
Qed.

(* ---- dec-int = [ minus / plus ] unsigned-dec-int ----------------------------------------------------------- *)
Definition is_sign (b : byte) : bool := byte_eqb b plus || byte_eqb b dash.

Lemma sign_facts sg neg : sign sg neg -> forallb ascii sg = true /\ remove_us sg = sg.
Proof. intros [[-> ->] | [[-> ->] | [-> ->]]]; split; reflexivity. Qed.

Lemma unsigned_facts u ds : unsigned_dec_int u ds ->
  forallb ascii u = true /\ forallb Abnf.digit ds = true /\ remove_us u = ds /\ ds <> []
  /\ exists b u', u = b :: u' /\ Abnf.digit b = true.
Proof.
  intros [(b & Hb & -> & ->) | (t1 & v1 & t2 & v2 & -> & -> & (b & Hb & -> & ->) & (ta & va & tb & vb & -> & -> & Ha & Hb2))].
  - destruct (digit_class_digit b Hb) as [Ha Hu]. rewrite byte_eqb_n, N.eqb_sym, <- byte_eqb_n in Hu.
    unfold remove_us, underscore. cbn [forallb filter]. rewrite Ha, Hb, Hu. cbn [negb andb].
    repeat split; try reflexivity; [discriminate|]. exists b, []. auto.
  - pose proof (digit1_9_digit b Hb) as Hd. destruct (digit_class_digit b Hd) as [Ha0 Hu].
    rewrite byte_eqb_n, N.eqb_sym, <- byte_eqb_n in Hu.
    destruct (star_us_facts Abnf.digit (ta ++ tb) (va ++ vb) digit_class_digit (star_cons _ _ _ _ _ Ha Hb2)) as (A1 & A2 & A3).
    cbn [app forallb]. rewrite Ha0, Hd, A1, A2. cbn [andb].
    repeat split; try reflexivity.
    + unfold remove_us, underscore in *. cbn [filter]. rewrite Hu. cbn [negb]. rewrite A3. reflexivity.
    + discriminate.
    + exists b, (ta ++ tb). auto.
Qed.

Definition dec_body : parser unit :=
  digits_us (one_of (in_class DIGIT1_9)) digit <|> pvoid digit.

Lemma dec_body_complete i u ds r :
  unsigned_dec_int u ds -> rest i = u ++ r -> stops (us_or Abnf.digit) r -> dec_body i = Ok tt (adv u i).
Proof.
  intros [(b & Hb & -> & ->) | (t1 & v1 & t2 & v2 & -> & -> & (b & Hb & -> & ->) & (ta & va & tb & vb & -> & -> & Ha & Hb2))] H Hr;
    unfold dec_body, digit.
  - destruct (digit1_9 b) eqn:E.
    + apply alt_ok.
      apply (digits_us_complete _ _ DIGIT_ok digit_class_digit _ _ DIGIT1_9_ok i b [] [] r H E (star_nil _) Hr).
    + rewrite alt_fails_l.
      * apply (pvoid_ok _ _ b). apply (one_of_ok _ i b r H). rewrite DIGIT_ok. exact Hb.
      * apply (digits_us_fails _ _ _ DIGIT1_9_ok). rewrite H. cbn [app stops]. exact E.
  - apply alt_ok.
    apply (digits_us_complete _ _ DIGIT_ok digit_class_digit _ _ DIGIT1_9_ok i b (ta ++ tb) (va ++ vb) r H Hb).
    + apply star_cons; assumption.
    + exact Hr.
Qed.

Lemma dec_body_sound i x i' : dec_body i = Ok x i' ->
  exists u ds, unsigned_dec_int u ds /\ splits i u i'.
Proof.
  unfold dec_body, digit. intro H. apply alt_inv in H as [H | [_ H]].
  - apply (digits_us_sound _ _ DIGIT_ok digit_class_digit _ _ DIGIT1_9_ok) in H as (b & t & v & Hb & St & S & Hs).
    destruct St as [|t1 v1 t2 v2 H1 H2].
    + exists [b], [b]. split; [left; exists b; split; [apply digit1_9_digit; exact Hb|auto]|auto].
    + exists ([b] ++ t1 ++ t2), ([b] ++ v1 ++ v2). split; [|auto].
      right. exists [b], [b], (t1 ++ t2), (v1 ++ v2). repeat split; [exists b; auto|].
      exists t1, v1, t2, v2. auto.
  - apply pvoid_inv in H as (b & H). apply one_of_inv in H as [Hb S]. rewrite DIGIT_ok in Hb.
    exists [b], [b]. split; [left; exists b; auto|exact S].
Qed.

(* [ minus / plus ] *)
Lemma opt_sign_complete i sg neg r : sign sg neg -> rest i = sg ++ r -> stops is_sign r ->
  opt (one_of is_sign) i = Ok (match sg with [] => None | b :: _ => Some b end) (adv sg i).
Proof.
  intros [[-> ->] | [[-> ->] | [-> ->]]] H Hr.
  - rewrite adv_nil. apply opt_fails, one_of_fails. rewrite H. exact Hr.
  - apply opt_ok. apply (one_of_ok is_sign i x2b r H). reflexivity.
  - apply opt_ok. apply (one_of_ok is_sign i x2d r H). reflexivity.
Qed.

Lemma is_sign_cases b : is_sign b = true -> b = x2b \/ b = x2d.
Proof.
  unfold is_sign, plus, dash. intro H. apply orb_true_iff in H as [H | H]; apply byte_eqb_eq in H; auto.
Qed.

Lemma opt_sign_sound i o i' : opt (one_of is_sign) i = Ok o i' ->
  exists sg neg, sign sg neg /\ splits i sg i' /\ o = match sg with [] => None | b :: _ => Some b end.
Proof.
  intro H. apply opt_inv in H as [(b & -> & H) | (-> & -> & _)].
  - apply one_of_inv in H as [Hb S]. apply is_sign_cases in Hb as [-> | ->].
    + exists [x2b], false. split; [right; left; auto|auto].
    + exists [x2d], true. split; [right; right; auto|auto].
  - exists [], false. split; [left; auto|]. split; [apply splits_nil|reflexivity].
Qed.

Lemma dec_int_unfold i :
  dec_int i = context (unchecked_utf8 10 (taken (opt (one_of is_sign) ;;; dec_body))) i.
Proof. reflexivity. Qed.

Lemma digit_stops_sign b r : Abnf.digit b = true -> stops is_sign (b :: r).
Proof. intro H. cbn [stops]. unfold is_sign. destruct (digit_not_sign b H) as [-> ->]. reflexivity. Qed.

Lemma dec_int_complete i sg neg u ds r :
  sign sg neg -> unsigned_dec_int u ds -> rest i = (sg ++ u) ++ r -> stops (us_or Abnf.digit) r ->
  dec_int i = Ok (sg ++ u) (adv (sg ++ u) i).
Proof.
  intros Hs Hu H Hr. rewrite dec_int_unfold.
  destruct (sign_facts sg neg Hs) as [As _]. destruct (unsigned_facts u ds Hu) as (Au & _ & _ & _ & b & u' & -> & Hb).
  apply context_ok, unchecked_ok.
  - rewrite <- app_assoc in H. apply (taken_ok _ _ tt).
    + rewrite (bind_ok _ _ _ _ _ (opt_sign_complete i sg neg _ Hs H (digit_stops_sign b _ Hb))).
      rewrite (dec_body_complete (adv sg i) (b :: u') ds r Hu (rest_adv _ _ _ H) Hr). rewrite adv_adv. reflexivity.
    + apply (splits_adv i (sg ++ b :: u') r). rewrite <- app_assoc. exact H.
  - apply utf8_ascii. rewrite forallb_app, As, Au. reflexivity.
Qed.

Lemma dec_int_sound i s i' : dec_int i = Ok s i' ->
  splits i s i' /\ exists sg neg u ds, s = sg ++ u /\ sign sg neg /\ unsigned_dec_int u ds.
Proof.
  rewrite dec_int_unfold. intro H. apply context_inv, unchecked_inv in H as [H _].
  apply taken_inv in H as (x & H & Es). apply bind_inv in H as (o & i1 & H1 & H).
  apply opt_sign_sound in H1 as (sg & neg & Hs & S1 & _).
  apply dec_body_sound in H as (u & ds & Hu & S2).
  pose proof (splits_trans _ _ _ _ _ S1 S2) as S. rewrite (splits_taken _ _ _ S) in Es. subst s.
  split; [exact S|]. exists sg, neg, u, ds. auto.
Qed.

(* dec_int fails without commitment when no digit follows the optional sign *)
Lemma dec_int_fails i sg neg r : sign sg neg -> rest i = sg ++ r -> stops is_sign r -> stops Abnf.digit r ->
  fails dec_int i.
Proof.
  intros Hs H Hr Hd. unfold fails. rewrite dec_int_unfold. apply context_fails, unchecked_fails, taken_fails.
  unfold fails. rewrite (bind_ok _ _ _ _ _ (opt_sign_complete i sg neg r Hs H Hr)).
  pose proof (rest_adv _ _ _ H) as R. unfold dec_body, digit. apply alt_fails.
  - apply (digits_us_fails _ _ _ DIGIT1_9_ok). rewrite R. destruct r as [|b r]; [exact I|].
    cbn [stops] in *. destruct (digit1_9 b) eqn:E; [|reflexivity]. apply digit1_9_digit in E. congruence.
  - apply pvoid_fails, one_of_fails. rewrite R. destruct r; [exact I|]. cbn [stops] in *. rewrite DIGIT_ok. exact Hd.
Qed.

(* ---- hex-int / oct-int / bin-int = prefix d *( d / underscore d ) --------------------------------------------- *)
Section Prefixed.
  Variables (g c : byte -> bool) (w : N) (prefix : bytes).
  Hypothesis Hg : forall b, g b = c b.
  Hypothesis Hc : digit_class c.

  Lemma cat_one_star_facts u ds : cat (one c) (star (us_digit c)) u ds ->
    forallb ascii u = true /\ forallb c ds = true /\ remove_us u = ds /\ ds <> []
    /\ exists b t v, u = b :: t /\ ds = b :: v /\ c b = true /\ star (us_digit c) t v.
  Proof.
    intros (t1 & v1 & t2 & v2 & -> & -> & (b & Hb & -> & ->) & St).
    destruct (Hc b Hb) as [Ha Hu]. rewrite byte_eqb_n, N.eqb_sym, <- byte_eqb_n in Hu.
    destruct (star_us_facts c t2 v2 Hc St) as (A1 & A2 & A3).
    cbn [app forallb]. rewrite Ha, Hb, A1, A2. cbn [andb]. repeat split; try reflexivity.
    - unfold remove_us, underscore in *. cbn [filter]. rewrite Hu. cbn [negb]. rewrite A3. reflexivity.
    - discriminate.
    - exists b, t2, v2. auto.
  Qed.

  Lemma prefixed_complete i u ds r :
    cat (one c) (star (us_digit c)) u ds -> rest i = (prefix ++ u) ++ r -> stops (us_or c) r ->
    prefixed_int w prefix (one_of g) i = Ok u (adv (prefix ++ u) i).
  Proof.
    intros Hu H Hr. destruct (cat_one_star_facts u ds Hu) as (Au & _ & _ & _ & b & t & v & -> & _ & Hb & St).
    unfold prefixed_int, preceded. apply context_ok, unchecked_ok; [|apply utf8_ascii; exact Au].
    rewrite <- app_assoc in H. rewrite (bind_ok _ _ _ _ _ (lit_ok prefix i _ H)).
    pose proof (rest_adv _ _ _ H) as R. rewrite <- adv_adv.
    apply (taken_ok _ _ tt); [|apply (splits_adv _ _ r R)]. apply cut_err_ok.
    apply (digits_us_complete g c Hg Hc g c Hg _ b t v r R Hb St Hr).
  Qed.

  Lemma prefixed_sound i u i' : prefixed_int w prefix (one_of g) i = Ok u i' ->
    splits i (prefix ++ u) i' /\ (exists ds, cat (one c) (star (us_digit c)) u ds) /\ stops (us_or c) (rest i').
  Proof.
    unfold prefixed_int, preceded. intro H. apply context_inv, unchecked_inv in H as [H _].
    apply bind_inv in H as (x & i1 & H1 & H). apply lit_inv in H1 as [_ S1].
    apply taken_inv in H as (y & H & Es). apply cut_err_inv in H.
    apply (digits_us_sound g c Hg Hc g c Hg) in H as (b & t & v & Hb & St & S2 & Hs).
    rewrite (splits_taken _ _ _ S2) in Es. subst u. split; [apply (splits_trans _ _ _ _ _ S1 S2)|].
    split; [|exact Hs]. exists ([b] ++ v). exists [b], [b], t, v. repeat split; [exists b; auto|exact St].
  Qed.

  (* after the prefix the parser is committed: no digit means Cut *)
  Lemma prefixed_fails i : (forall r, rest i <> prefix ++ r) -> fails (prefixed_int w prefix (one_of g)) i.
  Proof.
    intro H. unfold prefixed_int, preceded. apply context_fails, unchecked_fails, bind_fails, lit_fails. exact H.
  Qed.

  Variable radix : N.
  Hypothesis Hr : forall b, c b = true -> radix_digit radix b = Some (digit_of b).
  Hypothesis Hns : forall b, c b = true -> byte_eqb b plus = false /\ byte_eqb b dash = false.

  Lemma int_of_prefixed u ds : cat (one c) (star (us_digit c)) u ds ->
    int_of radix u = if in_i64 (Z.of_N (horner radix ds)) then TmOk (Z.of_N (horner radix ds)) else TmErr IntError.
  Proof.
    intro Hu. destruct (cat_one_star_facts u ds Hu) as (_ & Ac & Ar & Ane & _).
    unfold int_of. rewrite Ar. rewrite (i64_unsigned radix c ds Hr Hns Ane Ac).
    destruct (in_i64 (Z.of_N (horner radix ds))); reflexivity.
  Qed.
End Prefixed.

(* ---- integer = dec-int / hex-int / oct-int / bin-int ----------------------------------------------------------------- *)
Definition int_sub (s : bytes) : sub Z :=
  match int_of 10 s with
  | TmOk z => SubOk z
  | TmErr c => SubCut (err_of c)
  | TmPanic st => SubPanic st
  end.

Lemma int_of_dec sg neg u ds : sign sg neg -> unsigned_dec_int u ds ->
  int_of 10 (sg ++ u) = if in_i64 (signed neg (horner 10 ds)) then TmOk (signed neg (horner 10 ds)) else TmErr IntError.
Proof.
  intros Hs Hu. destruct (sign_facts sg neg Hs) as [_ Rs].
  destruct (unsigned_facts u ds Hu) as (_ & Ad & Ru & Ane & _).
  unfold int_of. rewrite remove_us_app, Rs, Ru. rewrite (i64_signed sg neg ds Hs Ane Ad).
  destruct (in_i64 (signed neg (horner 10 ds))); reflexivity.
Qed.

Lemma integer_is_dec i :
  (forall c rr, rest i = x30 :: c :: rr -> c <> x78 /\ c <> x6f /\ c <> x62) ->
  integer i = and_then dec_int int_sub i.
Proof.
  intro H. unfold integer. destruct (rest i) as [|a [|c rr]] eqn:E.
  - reflexivity.
  - cbn [firstn bytes_eqb]. rewrite !andb_false_r. reflexivity.
  - cbn [firstn bytes_eqb]. destruct (byte_eqb a x30) eqn:A.
    + apply byte_eqb_eq in A. subst a. destruct (H c rr eq_refl) as (N1 & N2 & N3).
      apply byte_eqb_neq in N1, N2, N3. rewrite N1, N2, N3. reflexivity.
    + reflexivity.
Qed.

Lemma integer_is_hex i r : rest i = [x30; x78] ++ r -> integer i = cut_err (try_map (int_of 16) hex_int) i.
Proof. intro H. unfold integer. rewrite H. reflexivity. Qed.
Lemma integer_is_oct i r : rest i = [x30; x6f] ++ r -> integer i = cut_err (try_map (int_of 8) oct_int) i.
Proof. intro H. unfold integer. rewrite H. reflexivity. Qed.
Lemma integer_is_bin i r : rest i = [x30; x62] ++ r -> integer i = cut_err (try_map (int_of 2) bin_int) i.
Proof. intro H. unfold integer. rewrite H. reflexivity. Qed.

(* a decimal token followed by a byte that cannot continue a bare word does not look like a prefix *)
Lemma dec_not_prefixed sg neg u ds r c rr :
  sign sg neg -> unsigned_dec_int u ds -> stops unquoted_key_char r ->
  (sg ++ u) ++ r = x30 :: c :: rr -> c <> x78 /\ c <> x6f /\ c <> x62.
Proof.
  intros [[-> ->] | [[-> ->] | [-> ->]]] Hu Hr E; try discriminate. cbn [app] in E.
  destruct Hu as [(b & Hb & -> & ->) | (t1 & v1 & t2 & v2 & -> & -> & (b & Hb & -> & ->) & _)].
  - injection E as -> ->. cbn [stops] in Hr. repeat split; intros ->; discriminate.
  - injection E as -> _. discriminate.
Qed.

Lemma unquoted_stops_digit r : stops unquoted_key_char r -> stops (us_or Abnf.digit) r.
Proof. destruct r as [|b r]; [auto|]. cbn [stops]. unfold us_or. cls. lia. Qed.
Lemma unquoted_stops_hexdig r : stops unquoted_key_char r -> stops (us_or Abnf.hexdig) r.
Proof. destruct r as [|b r]; [auto|]. cbn [stops]. unfold us_or. cls. lia. Qed.
Lemma unquoted_stops_0_7 r : stops unquoted_key_char r -> stops (us_or digit0_7) r.
Proof. destruct r as [|b r]; [auto|]. cbn [stops]. unfold us_or. cls. lia. Qed.
Lemma unquoted_stops_0_1 r : stops unquoted_key_char r -> stops (us_or digit0_1) r.
Proof. destruct r as [|b r]; [auto|]. cbn [stops]. unfold us_or. cls. lia. Qed.

(* what `integer` returns on a decimal token, in or out of range *)
Lemma integer_dec_eval i t z r : dec_int_tok t z -> rest i = t ++ r -> stops unquoted_key_char r ->
  integer i = if in_i64 z then Ok z (adv t i) else Cut (err_of IntError) i.
Proof.
  intros (sg & neg & u & ds & -> & Hs & Hu & ->) H Hr.
  rewrite integer_is_dec.
  - unfold and_then. rewrite (dec_int_complete i sg neg u ds r Hs Hu H (unquoted_stops_digit r Hr)).
    unfold int_sub. rewrite (int_of_dec sg neg u ds Hs Hu).
    destruct (in_i64 (signed neg (horner 10 ds))); reflexivity.
  - intros c rr E. rewrite H in E. apply (dec_not_prefixed sg neg u ds r c rr Hs Hu Hr E).
Qed.

Lemma integer_hex_eval i t z r : hex_int_tok t z -> rest i = t ++ r -> stops (us_or Abnf.hexdig) r ->
  integer i = if in_i64 z then Ok z (adv t i) else Cut (err_of IntError) i.
Proof.
  intros (u & ds & -> & Hu & ->) H Hr. rewrite (integer_is_hex i (u ++ r)) by (rewrite H, <- app_assoc; reflexivity).
  unfold cut_err, try_map, hex_int, hexdig, HEX_PREFIX.
  rewrite (prefixed_complete _ _ 11 _ HEXDIG_ok digit_class_hexdig i u ds r Hu H Hr).
  rewrite (int_of_prefixed _ digit_class_hexdig 16 radix_digit_16 hexdig_not_sign u ds Hu).
  destruct (in_i64 (Z.of_N (horner 16 ds))); reflexivity.
Qed.

Lemma integer_oct_eval i t z r : oct_int_tok t z -> rest i = t ++ r -> stops (us_or digit0_7) r ->
  integer i = if in_i64 z then Ok z (adv t i) else Cut (err_of IntError) i.
Proof.
  intros (u & ds & -> & Hu & ->) H Hr. rewrite (integer_is_oct i (u ++ r)) by (rewrite H, <- app_assoc; reflexivity).
  unfold cut_err, try_map, oct_int, OCT_PREFIX.
  rewrite (prefixed_complete _ _ 12 _ DIGIT0_7_ok digit_class_0_7 i u ds r Hu H Hr).
  rewrite (int_of_prefixed _ digit_class_0_7 8 radix_digit_8 digit0_7_not_sign u ds Hu).
  destruct (in_i64 (Z.of_N (horner 8 ds))); reflexivity.
Qed.

Lemma integer_bin_eval i t z r : bin_int_tok t z -> rest i = t ++ r -> stops (us_or digit0_1) r ->
  integer i = if in_i64 z then Ok z (adv t i) else Cut (err_of IntError) i.
Proof.
  intros (u & ds & -> & Hu & ->) H Hr. rewrite (integer_is_bin i (u ++ r)) by (rewrite H, <- app_assoc; reflexivity).
  unfold cut_err, try_map, bin_int, BIN_PREFIX.
  rewrite (prefixed_complete _ _ 13 _ DIGIT0_1_ok digit_class_0_1 i u ds r Hu H Hr).
  rewrite (int_of_prefixed _ digit_class_0_1 2 radix_digit_2 digit0_1_not_sign u ds Hu).
  destruct (in_i64 (Z.of_N (horner 2 ds))); reflexivity.
Qed.

(* completeness with the value, and "out of range => committed error", for all four bases *)
Theorem integer_eval i t z r : integer_tok t z -> rest i = t ++ r -> stops unquoted_key_char r ->
  integer i = if in_i64 z then Ok z (adv t i) else Cut (err_of IntError) i.
Proof.
  intros [H | [H | [H | H]]] E Hr.
  - apply (integer_dec_eval i t z r H E Hr).
  - apply (integer_hex_eval i t z r H E (unquoted_stops_hexdig r Hr)).
  - apply (integer_oct_eval i t z r H E (unquoted_stops_0_7 r Hr)).
  - apply (integer_bin_eval i t z r H E (unquoted_stops_0_1 r Hr)).
Qed.

Theorem integer_complete i t z r : integer_tok t z -> in_i64 z = true -> rest i = t ++ r ->
  stops unquoted_key_char r -> integer i = Ok z (adv t i).
Proof. intros H Hz E Hr. rewrite (integer_eval i t z r H E Hr), Hz. reflexivity. Qed.

Theorem integer_out_of_range i t z r : integer_tok t z -> in_i64 z = false -> rest i = t ++ r ->
  stops unquoted_key_char r -> integer i = Cut (err_of IntError) i.
Proof. intros H Hz E Hr. rewrite (integer_eval i t z r H E Hr), Hz. reflexivity. Qed.

Lemma tm_if_inv (c : bool) (z z' : Z) : (if c then TmOk z else TmErr IntError) = TmOk z' -> c = true /\ z' = z.
Proof. destruct c; [|discriminate]. intro H. injection H as <-. auto. Qed.

Lemma prefixed_integer_sound g c w prefix radix i z i' :
  (forall b, g b = c b) -> digit_class c ->
  (forall b, c b = true -> radix_digit radix b = Some (digit_of b)) ->
  (forall b, c b = true -> byte_eqb b plus = false /\ byte_eqb b dash = false) ->
  cut_err (try_map (int_of radix) (prefixed_int w prefix (one_of g))) i = Ok z i' ->
  exists t, prefixed_int_tok prefix c radix t z /\ splits i t i' /\ in_i64 z = true /\ stops (us_or c) (rest i').
Proof.
  intros Hg Hc Hr Hns H. apply cut_err_inv, try_map_inv in H as (u & H & Hv).
  apply (prefixed_sound g c w prefix Hg Hc) in H as (S & (ds & Hu) & Hs).
  rewrite (int_of_prefixed c Hc radix Hr Hns u ds Hu) in Hv. apply tm_if_inv in Hv as [Hz ->].
  exists (prefix ++ u). split; [exists u, ds; auto|auto].
Qed.

Theorem integer_sound i z i' : integer i = Ok z i' ->
  exists t, integer_tok t z /\ splits i t i' /\ in_i64 z = true.
Proof.
  unfold integer. intro H.
  destruct (bytes_eqb (firstn 2 (rest i)) [x30; x78]).
  { apply (prefixed_integer_sound _ _ _ _ 16 _ _ _ HEXDIG_ok digit_class_hexdig radix_digit_16 hexdig_not_sign)
      in H as (t & Ht & S & Hz & _).
    exists t. split; [right; left; exact Ht|auto]. }
  destruct (bytes_eqb (firstn 2 (rest i)) [x30; x6f]).
  { apply (prefixed_integer_sound _ _ _ _ 8 _ _ _ DIGIT0_7_ok digit_class_0_7 radix_digit_8 digit0_7_not_sign)
      in H as (t & Ht & S & Hz & _).
    exists t. split; [right; right; left; exact Ht|auto]. }
  destruct (bytes_eqb (firstn 2 (rest i)) [x30; x62]).
  { apply (prefixed_integer_sound _ _ _ _ 2 _ _ _ DIGIT0_1_ok digit_class_0_1 radix_digit_2 digit0_1_not_sign)
      in H as (t & Ht & S & Hz & _).
    exists t. split; [right; right; right; exact Ht|auto]. }
  apply and_then_inv in H as (s & H & Hv). apply dec_int_sound in H as (S & sg & neg & u & ds & -> & Hs & Hu).
  rewrite (int_of_dec sg neg u ds Hs Hu) in Hv.
  destruct (in_i64 (signed neg (horner 10 ds))) eqn:Hz; [|discriminate]. injection Hv as <-.
  exists (sg ++ u). split; [left; exists sg, neg, u, ds; auto|auto].
Qed.

(* a committed failure of `integer` leaves no derivation with an acceptable follower *)
Corollary integer_cut_only i e j : integer i = Cut e j ->
  forall t z r, integer_tok t z -> rest i = t ++ r -> stops unquoted_key_char r -> in_i64 z = false.
Proof.
  intros H t z r Ht E Hr. rewrite (integer_eval i t z r Ht E Hr) in H.
  destruct (in_i64 z); [discriminate|reflexivity].
Qed.
