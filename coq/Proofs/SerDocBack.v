(* Proofs/SerDocBack.v — C07 through text: the abstract tree of the printed-and-parsed document (values before
   tables: Model/Build.v `printed_entries`), read as the value tree the deserializer walks (Model/SerDoc.v
   `tomlval_of_abs`), is the tree the serializer produced up to the order of table entries and the payload of NaNs
   (Proofs/SerDocDe.v `tv_equiv`) — the inverse of the layout. *)
From TV Require Import Base.Prelude Base.Utf8 Base.Winnow Gen.Consts.
From TV Require Import Model.Datetime Spec.DatetimeSpec Model.Numbers Model.Tree Model.Parse Model.Document Model.Write Model.Encode Model.Build.
From TV Require Import Proofs.BuiltRTEncode Proofs.BuiltRTValue Proofs.BuiltRTLeaf Proofs.BuiltRTTop Proofs.BuiltRTDocEncode Proofs.BuiltRTDoc.
From TV Require Import Spec.SerdeData Model.Ser Model.De Model.SerFmt Model.SerDoc.
From TV Require Import Proofs.SerdeRTBase Proofs.SerdeRTFmt Proofs.SerDocDe Proofs.SerDocWf Proofs.SerDocBuilt.
From Coq Require Import Permutation.
Require Import Lia.

Lemma Forall2_map_r {A B} (R : A -> B -> Prop) (f : A -> B) l : Forall (fun a => R a (f a)) l -> Forall2 R l (map f l).
Proof. induction 1; constructor; assumption. Qed.

Section Back.
  Variable fd : N -> fval.
  Variable back : fval -> N.
  Variable ml : bool.
  Hypothesis Horacle : float_oracle fd back.
  Local Notation vof := (vof fd ml).
  Local Notation iof := (iof fd ml).
  Local Notation ents := (ents fd ml).

  (* -- values: the same tree, floats through the oracle -- *)
  Theorem val_back : forall x, out_ok x = true -> tv_equiv x (tv_of_aval back (abs_value (vof x))).
  Proof.
    induction x using tomlval_ind2; intro Hok; try (unfold SerDocBuilt.vof; cbn; constructor).
    - cbn [out_ok] in Hok. apply N.ltb_lt in Hok. exact (proj2 (Horacle b Hok)).
    - rewrite vof_arr, mk_array_abs. cbn [tv_of_aval]. constructor. rewrite !map_map. apply Forall2_map_r.
      cbn [out_ok] in Hok. apply forallb_Forall' in Hok. rewrite Forall_forall in *. intros x Hx. apply (H x Hx (Hok x Hx)).
    - rewrite vof_tab, abs_built_inline. cbn [tv_of_aval]. rewrite !map_map. cbn [fst snd].
      apply (te_tab es es _ (Permutation_refl es)). apply Forall2_map_r.
      destruct (out_ok_tab es Hok) as (_ & _ & Hes). rewrite Forall_forall in *. intros kx Hkx. split; [reflexivity|].
      cbn [snd]. apply (H kx Hkx (Hes kx Hkx)).
  Qed.

  (* -- the abstract node of an item, and its printed form -- *)
  Definition node (x : tomlval) : anode :=
    match x with
    | VTab es => ATbl (abs_tbl (fmt_tbl (ents es)))
    | VArr xs => if all_tabs xs then AAot (map (fun x => abs_tbl (fmt_tbl (snd (tab_pair fd ml x)))) xs)
                 else AVal (abs_value (vof x))
    | _ => AVal (abs_value (vof x))
    end.

  Lemma abs_iof x : abs_item (iof x) = [node x].
  Proof.
    destruct x; try (rewrite iof_line by reflexivity; reflexivity).
    - cbn [node]. destruct (all_tabs xs) eqn:Ea.
      + rewrite (iof_aot fd ml xs Ea). cbn [abs_item]. rewrite !map_map. reflexivity.
      + rewrite iof_line by (cbn [is_line]; rewrite Ea; reflexivity). reflexivity.
    - rewrite iof_tab. reflexivity.
  Qed.

  Lemma abs_ents im es pos : abs_tbl (the_tbl im (ents es) pos) = map (fun kx => (fst kx, node (snd kx))) es.
  Proof.
    rewrite abs_tbl_the. unfold SerDocBuilt.ents. induction es as [|[k x] es IH]; [reflexivity|].
    cbn [map flat_map fst snd]. rewrite abs_iof, IH. reflexivity.
  Qed.

  Definition pent (es : list (bytes * tomlval)) : list (bytes * anode) :=
    printed_entries (map (fun kx => (fst kx, node (snd kx))) es).
  Definition pnode (x : tomlval) : anode :=
    match x with
    | VTab es => ATbl (pent es)
    | VArr xs => if all_tabs xs then AAot (map (fun x => match x with VTab es => pent es | _ => [] end) xs)
                 else AVal (abs_value (vof x))
    | _ => AVal (abs_value (vof x))
    end.

  Lemma printed_tbl l : printed_node (ATbl l) = [ATbl (printed_entries l)].
  Proof. reflexivity. Qed.
  Lemma printed_aot_ne ls : ls <> [] -> printed_node (AAot ls) = [AAot (map printed_entries ls)].
  Proof. destruct ls; [contradiction|reflexivity]. Qed.

  Lemma node_split x :
    (node x = AVal (abs_value (vof x)) /\ pnode x = node x) \/
    ((forall a, node x <> AVal a) /\ printed_node (node x) = [pnode x]).
  Proof.
    destruct x; try (left; split; reflexivity).
    - cbn [node pnode]. destruct (all_tabs xs) eqn:Ea; [|left; split; reflexivity].
      right. split; [discriminate|]. pose proof (all_tabs_forall xs Ea) as Ht.
      rewrite printed_aot_ne by (destruct xs; discriminate). do 2 f_equal.
      rewrite map_map. apply map_ext_Forall. eapply Forall_impl; [|exact Ht]. intros x (es & ->).
      cbn [tab_pair snd]. rewrite fmt_tbl_the, abs_ents. reflexivity.
    - right. split; [discriminate|]. cbn [node pnode]. rewrite printed_tbl, fmt_tbl_the, abs_ents. reflexivity.
  Qed.

  Lemma printed_cons kv L :
    printed_entries (kv :: L)
    = (match snd kv with AVal v => [(fst kv, AVal v)] | _ => [] end ++ val_entries L)
      ++ map (fun r => (fst kv, r)) (printed_node (snd kv))
      ++ flat_map (fun kv => map (fun r => (fst kv, r)) (printed_node (snd kv))) L.
  Proof. reflexivity. Qed.

  Lemma printed_perm es :
    Permutation (pent es) (map (fun kx => (fst kx, pnode (snd kx))) es).
  Proof.
    unfold pent. induction es as [|[k x] es IH]; [apply Permutation_refl|].
    cbn [map fst snd]. rewrite printed_cons. cbn [fst snd].
    destruct (node_split x) as [[E1 E2]|[Hn Ep]].
    - rewrite E2, E1. cbn [printed_node map app]. apply perm_skip. exact IH.
    - rewrite Ep. cbn [map app].
      assert (Ev : match node x with AVal v => [(k, AVal v)] | _ => [] end = []).
      { destruct (node x) eqn:En; try reflexivity. exfalso. apply (Hn v eq_refl). }
      rewrite Ev. cbn [app]. eapply Permutation_trans; [apply Permutation_sym, Permutation_middle|]. apply perm_skip. exact IH.
  Qed.

  Lemma entries_back es :
    Forall (fun kx => tv_equiv (snd kx) (tv_of_anode back (pnode (snd kx)))) es ->
    tv_equiv (VTab es) (VTab (map (fun kv => (fst kv, tv_of_anode back (snd kv))) (pent es))).
  Proof.
    intro H.
    set (Y := map (fun kx : bytes * tomlval => (fst kx, tv_of_anode back (pnode (snd kx)))) es).
    set (fs := map (fun kv : bytes * anode => (fst kv, tv_of_anode back (snd kv))) (pent es)).
    assert (P : Permutation Y fs).
    { unfold Y, fs. apply Permutation_sym.
      replace (map (fun kx : bytes * tomlval => (fst kx, tv_of_anode back (pnode (snd kx)))) es)
        with (map (fun kv : bytes * anode => (fst kv, tv_of_anode back (snd kv))) (map (fun kx => (fst kx, pnode (snd kx))) es))
        by (rewrite map_map; reflexivity).
      apply Permutation_map, printed_perm. }
    assert (F : Forall2 entry_equiv es Y).
    { unfold Y. apply Forall2_map_r. eapply Forall_impl; [|exact H]. intros kx Hx. split; [reflexivity|exact Hx]. }
    destruct (Forall2_perm_r _ _ _ P es F) as (es' & Pe & F').
    apply (te_tab es es' fs Pe). exact F'.
  Qed.

  Theorem node_back : forall x, out_ok x = true -> tv_equiv x (tv_of_anode back (pnode x)).
  Proof.
    induction x using tomlval_ind2; intro Hok; try (cbn [pnode tv_of_anode]; apply val_back; exact Hok).
    - cbn [pnode]. destruct (all_tabs xs) eqn:Ea; [|cbn [tv_of_anode]; apply val_back; exact Hok].
      cbn [tv_of_anode]. constructor. rewrite map_map. apply Forall2_map_r.
      cbn [out_ok] in Hok. apply forallb_Forall' in Hok. pose proof (all_tabs_forall xs Ea) as Ht.
      rewrite Forall_forall in *. intros x Hx. destruct (Ht x Hx) as (es & ->).
      apply (H _ Hx (Hok _ Hx)).
    - cbn [pnode tv_of_anode]. apply entries_back.
      destruct (out_ok_tab es Hok) as (_ & _ & Hes). rewrite Forall_forall in *. intros kx Hkx. apply (H kx Hkx (Hes kx Hkx)).
  Qed.

  (* -- the document -- *)
  Lemma printed_values (l : list (bytes * aval)) :
    printed_entries (map (fun kv => (fst kv, AVal (snd kv))) l) = map (fun kv => (fst kv, AVal (snd kv))) l.
  Proof.
    unfold printed_entries.
    assert (E1 : val_entries (map (fun kv : bytes * aval => (fst kv, AVal (snd kv))) l) = map (fun kv => (fst kv, AVal (snd kv))) l).
    { unfold val_entries. induction l as [|kv l IH]; [reflexivity|]. cbn [map flat_map fst snd app]. rewrite IH. reflexivity. }
    assert (E2 : flat_map (fun kv : bytes * anode => map (fun r => (fst kv, r)) (printed_node (snd kv)))
                          (map (fun kv : bytes * aval => (fst kv, AVal (snd kv))) l) = []).
    { clear E1. induction l as [|kv l IH]; [reflexivity|]. cbn [map flat_map fst snd printed_node app]. exact IH. }
    rewrite E1, E2, app_nil_r. reflexivity.
  Qed.

  Theorem root_back r es : out_ok (VTab es) = true ->
    tv_equiv (VTab es)
             (tomlval_of_abs back (printed_entries (abs_tbl (doc_root_tbl fd ml (formatted r) (layout r (VTab es)))))).
  Proof.
    intro Hok. rewrite doc_root_eq. unfold tomlval_of_abs, root_ents.
    destruct (out_ok_tab es Hok) as (_ & _ & Hes).
    destruct (formatted r).
    - rewrite abs_ents. apply entries_back. eapply Forall_impl; [|exact Hes]. intros kx Hx. apply node_back, Hx.
    - rewrite abs_tbl_the.
      assert (E : flat_map (fun kv : bytes * Tree.item => map (fun n => (fst kv, n)) (abs_item (snd kv)))
                           (map (fun kx : bytes * tomlval => (fst kx, IValue (vof (snd kx)))) es)
                  = map (fun kv : bytes * aval => (fst kv, AVal (snd kv))) (map (fun kx => (fst kx, abs_value (vof (snd kx)))) es)).
      { clear Hok Hes. induction es as [|kx es' IH]; [reflexivity|]. cbn [map flat_map fst snd abs_item app]. f_equal. exact IH. }
      rewrite E, printed_values, !map_map. cbn [fst snd tv_of_anode].
      apply (te_tab es es _ (Permutation_refl es)). apply Forall2_map_r.
      eapply Forall_impl; [|exact Hes]. intros kx Hx. split; [reflexivity|]. cbn [snd]. apply val_back, Hx.
  Qed.
End Back.
