(* Proofs/LexEquivBool.v — C01 layer L1, boolean = true / false: the committed failure of
   `true_` / `false_` (numbers.rs: (peek(LIT[0]), cut_err(LIT))) occurs only where the literal is
   not there.  Acceptance and value are in Proofs/LexEquivTrivia.v (boolean_complete / _sound). *)
From TV Require Import Base.Prelude Base.Utf8 Base.Winnow Gen.Consts Spec.Abnf Spec.Lex Model.Numbers.
From TV Require Import Proofs.LexEquivBase Proofs.LexEquivTrivia.

Lemma true_cut_only i e j : true_ i = Cut e j -> forall r, rest i <> t_true ++ r.
Proof. apply bool_lit_cut. Qed.

Lemma false_cut_only i e j : false_ i = Cut e j -> forall r, rest i <> t_false ++ r.
Proof. apply bool_lit_cut. Qed.

(* true_ / false_ never fail softly once the first letter matches, and fail softly otherwise *)
Lemma true_fails i : stops (byte_eqb x74) (rest i) -> fails true_ i.
Proof.
  intro H. unfold true_, bool_lit, TRUE. apply bind_fails, peek_fails, byte_fails. exact H.
Qed.

Lemma false_fails i : stops (byte_eqb x66) (rest i) -> fails false_ i.
Proof.
  intro H. unfold false_, bool_lit, FALSE. apply bind_fails, peek_fails, byte_fails. exact H.
Qed.
