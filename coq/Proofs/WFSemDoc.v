(* Proofs/WFSemDoc.v — WF backbone, specification side, part 2: the statements a printer emits for a tree, section
   after section in pre-order, define — by the rules of Spec/Defs.v, the strict ones — exactly that tree, with, in
   every table, what its key/value lines define (values and tables made of dotted keys, in order) before its
   sub-tables and arrays of tables (in order).

   The tree as the printer sees it (`snode`): values; tables made of dotted keys (SD: they live in the lines of the
   enclosing section, but may hold header tables of their own); header tables (ST hid: `hid` = no `[header]` is
   written for it, it is only mentioned by what is below it); arrays of tables.
   Generalises Proofs/BuiltRTSpecFold.v (eng-c06: no dotted keys, non-strict rules). *)
From TV Require Import Base.Prelude Spec.Defs.
From TV Require Import Proofs.DefsEquivSpec Proofs.WFSem.
Require Import Lia.

Section Doc.
  Variable V : Type.
  Local Notation T := (stree V).
  Local Notation stm := (stmt V).

  (* ---- framing: statements under a prefix act on the table the prefix addresses (any strictness) ------------------ *)
  Definition shift (P : list bytes) (s : stm) : stm :=
    match s with
    | SHeader p => SHeader (P ++ p)
    | SArrHeader p => SArrHeader (P ++ p)
    | SKeyVal p v => SKeyVal p v
    end.
  Definition hdr_nonempty (s : stm) : Prop :=
    match s with SHeader p | SArrHeader p => p <> [] | SKeyVal _ _ => True end.

  Lemma rbind_ok_id {A} (r : res A) : rbind r (fun a => ROk a) = r.
  Proof. destruct r; reflexivity. Qed.

  Lemma at_path_x_out {X Y} (h : X -> Y) p (F : T -> res (T * X)) t :
    at_path_x p (fun c => rbind (F c) (fun cx => ROk (fst cx, h (snd cx)))) t
    = rbind (at_path_x p F t) (fun cx => ROk (fst cx, h (snd cx))).
  Proof.
    revert t. induction p as [|k p IH]; intro t; cbn [at_path_x]; [reflexivity|].
    destruct (sget t k) as [[v|kd c|es]|]; [reflexivity| | |].
    - rewrite IH. destruct (at_path_x p F c) as [[c1 x]| |]; reflexivity.
    - destruct (rev es) as [|e before]; [reflexivity|]. rewrite IH. destruct (at_path_x p F e) as [[c1 x]| |]; reflexivity.
    - rewrite IH. destruct (at_path_x p F []) as [[c1 x]| |]; reflexivity.
  Qed.

  Lemma at_path_prefix {X} (P q : list bytes) (f : T -> res T) (x : X) t :
    rbind (at_path (P ++ q) f t) (fun t' => ROk (t', x))
    = at_path_x P (fun c => rbind (at_path q f c) (fun t' => ROk (t', x))) t.
  Proof.
    rewrite at_path_lift, at_path_x_app.
    transitivity (rbind (at_path_x P (at_path_x q (lift f)) t) (fun cx => ROk (fst cx, x))).
    { destruct (at_path_x P (at_path_x q (lift f)) t) as [[c1 u]| |]; reflexivity. }
    pose proof (at_path_x_out (fun _ : unit => x) P (at_path_x q (lift f)) t) as E. cbv beta in E. rewrite <- E. clear E.
    apply (at_path_x_ext (fun _ => True)); [apply walk_closed_true|exact I|]. intros c _.
    rewrite at_path_lift. destruct (at_path_x q (lift f) c) as [[c1 u]| |]; reflexivity.
  Qed.

  Variable strict : bool.

  Lemma step_frame P s t cur : hdr_nonempty s ->
    spec_step strict (t, P ++ cur) (shift P s)
    = rbind (at_path_x P (fun c => spec_step strict (c, cur) s) t) (fun Tx => ROk (fst Tx, P ++ snd Tx)).
  Proof.
    intro Hs. destruct s as [p|p|p v]; cbn [shift spec_step hdr_nonempty] in *.
    - destruct (exists_last Hs) as (pre & k & ->). rewrite app_assoc, !unsnoc_app.
      transitivity (rbind (rbind (at_path ((P ++ pre)) (def_table k) t) (fun t' => ROk (t', pre ++ [k])))
                          (fun Tx => ROk (fst Tx, P ++ snd Tx))).
      { destruct (at_path (P ++ pre) (def_table k) t); cbn [rbind fst snd]; [rewrite app_assoc|..]; reflexivity. }
      rewrite at_path_prefix. reflexivity.
    - destruct (exists_last Hs) as (pre & k & ->). rewrite app_assoc, !unsnoc_app.
      transitivity (rbind (rbind (at_path ((P ++ pre)) (def_elem k) t) (fun t' => ROk (t', pre ++ [k])))
                          (fun Tx => ROk (fst Tx, P ++ snd Tx))).
      { destruct (at_path (P ++ pre) (def_elem k) t); cbn [rbind fst snd]; [rewrite app_assoc|..]; reflexivity. }
      rewrite at_path_prefix. reflexivity.
    - transitivity (rbind (rbind (at_path (P ++ cur) (insert_kv strict p v) t) (fun t' => ROk (t', cur)))
                          (fun Tx => ROk (fst Tx, P ++ snd Tx))).
      { destruct (at_path (P ++ cur) (insert_kv strict p v) t); reflexivity. }
      rewrite at_path_prefix. reflexivity.
  Qed.

  Lemma at_path_x_bind_ok {X Y} p (F : T -> res (T * X)) (G : X -> T -> res (T * Y)) t r :
    at_path_x p (fun c => rbind (F c) (fun tx => G (snd tx) (fst tx))) t = ROk r ->
    exists t1 x, at_path_x p F t = ROk (t1, x).
  Proof.
    revert t r. induction p as [|k p IH]; intros t r H; cbn [at_path_x] in *.
    - destruct (F t) as [[t1 x]| |]; [eauto|discriminate|discriminate].
    - destruct (sget t k) as [[v|kd c|es]|]; [discriminate| | |].
      + destruct (at_path_x p (fun c0 => rbind (F c0) (fun tx => G (snd tx) (fst tx))) c) as [r1| |] eqn:E; try discriminate.
        destruct (IH _ _ E) as (t1 & x & E1). rewrite E1. cbn [rbind fst snd]. eauto.
      + destruct (rev es) as [|e before]; [discriminate|].
        destruct (at_path_x p (fun c0 => rbind (F c0) (fun tx => G (snd tx) (fst tx))) e) as [r1| |] eqn:E; try discriminate.
        destruct (IH _ _ E) as (t1 & x & E1). rewrite E1. cbn [rbind fst snd]. eauto.
      + destruct (at_path_x p (fun c0 => rbind (F c0) (fun tx => G (snd tx) (fst tx))) []) as [r1| |] eqn:E; try discriminate.
        destruct (IH _ _ E) as (t1 & x & E1). rewrite E1. cbn [rbind fst snd]. eauto.
  Qed.

  Lemma fold_frame P l : Forall hdr_nonempty l -> l <> [] -> forall t cur t' cur',
    at_path_x P (fun c => spec_fold strict (c, cur) l) t = ROk (t', cur') ->
    spec_fold strict (t, P ++ cur) (map (shift P) l) = ROk (t', P ++ cur').
  Proof.
    induction 1 as [|s l Hs Hl IH]; intros Hne t cur t' cur' H; [contradiction|].
    cbn [map spec_fold] in *. rewrite (step_frame P s t cur Hs).
    destruct l as [|s2 l2].
    - cbn [map spec_fold] in *.
      assert (E : at_path_x P (fun c => spec_step strict (c, cur) s) t = ROk (t', cur')).
      { rewrite <- H. apply (at_path_x_ext (fun _ => True)); [apply walk_closed_true|exact I|]. intros c _.
        symmetry. apply rbind_ok_id. }
      rewrite E. reflexivity.
    - set (l' := s2 :: l2) in *.
      assert (H' : at_path_x P (fun c => rbind (spec_step strict (c, cur) s) (fun tx => spec_fold strict (fst tx, snd tx) l')) t
                   = ROk (t', cur')).
      { rewrite <- H. apply (at_path_x_ext (fun _ => True)); [apply walk_closed_true|exact I|]. intros c _.
        destruct (spec_step strict (c, cur) s) as [[a b]| |]; reflexivity. }
      destruct (at_path_x_bind_ok P (fun c => spec_step strict (c, cur) s) (fun x c => spec_fold strict (c, x) l') t _ H')
        as (t1 & cur1 & E1).
      rewrite E1. cbn [rbind fst snd].
      apply IH; [unfold l'; discriminate|].
      rewrite (at_path_x_comp P (fun c => spec_step strict (c, cur) s) (fun x c => spec_fold strict (c, x) l') t t1 cur1 E1).
      exact H'.
  Qed.

  Lemma spec_fold_app (a b : list stm) S :
    spec_fold strict S (a ++ b) = rbind (spec_fold strict S a) (fun S1 => spec_fold strict S1 b).
  Proof.
    revert S. induction a as [|s a IH]; intro S; [reflexivity|]. cbn [app spec_fold].
    destruct (spec_step strict S s); cbn [rbind]; [apply IH|reflexivity|reflexivity].
  Qed.
End Doc.
Arguments shift {V}. Arguments hdr_nonempty {V}.

(* ---- the tree as the printer sees it ----------------------------------------------------------------------------------- *)
Section Tree.
  Variable V : Type.
  Local Notation T := (stree V).
  Local Notation stm := (stmt V).

  Inductive snode : Type :=
  | SV (v : V)
  | SD (l : list (bytes * snode))
  | ST (hid : bool) (l : list (bytes * snode))
  | SA (ls : list (list (bytes * snode))).
  Definition sbody := list (bytes * snode).

  (* the dotted forest of a body: what its key/value lines define *)
  Fixpoint dpart_node (n : snode) : option (dnode V) :=
    match n with
    | SV v => Some (DV v)
    | SD l => Some (DT (flat_map (fun kn => match dpart_node (snd kn) with Some d => [(fst kn, d)] | None => [] end) l))
    | _ => None
    end.
  Definition dpart (l : sbody) : list (bytes * dnode V) :=
    flat_map (fun kn => match dpart_node (snd kn) with Some d => [(fst kn, d)] | None => [] end) l.
  Definition line_stmts (l : sbody) : list stm := map (fun pv => SKeyVal (fst pv) (snd pv)) (dflat V (dpart l)).

  (* the sections below a body at header path P, and the statements of a body *)
  Fixpoint node_secs (P : list bytes) (n : snode) {struct n} : list stm :=
    match n with
    | SV _ => []
    | SD l => flat_map (fun kn => node_secs (P ++ [fst kn]) (snd kn)) l
    | ST hid l =>
      (if hid then [] else [SHeader P])
      ++ map (fun pv => SKeyVal (fst pv) (snd pv))
             (dflat V (flat_map (fun kn => match dpart_node (snd kn) with Some d => [(fst kn, d)] | None => [] end) l))
      ++ flat_map (fun kn => node_secs (P ++ [fst kn]) (snd kn)) l
    | SA ls =>
      flat_map (fun l =>
                  SArrHeader P
                  :: map (fun pv => SKeyVal (fst pv) (snd pv))
                         (dflat V (flat_map (fun kn => match dpart_node (snd kn) with Some d => [(fst kn, d)] | None => [] end) l))
                  ++ flat_map (fun kn => node_secs (P ++ [fst kn]) (snd kn)) l) ls
    end.
  Definition secs (P : list bytes) (l : sbody) : list stm := flat_map (fun kn => node_secs (P ++ [fst kn]) (snd kn)) l.
  Definition body_stmts (P : list bytes) (l : sbody) : list stm := line_stmts l ++ secs P l.

  Lemma node_secs_SD P l : node_secs P (SD l) = secs P l. Proof. reflexivity. Qed.
  Lemma node_secs_ST P hid l : node_secs P (ST hid l) = (if hid then [] else [SHeader P]) ++ body_stmts P l. Proof. reflexivity. Qed.
  Lemma node_secs_SA P ls : node_secs P (SA ls) = flat_map (fun l => SArrHeader P :: body_stmts P l) ls. Proof. reflexivity. Qed.

  (* the tree the statements define *)
  Fixpoint node_res (n : snode) {struct n} : list (node V) :=
    match n with
    | SV v => [NVal v]
    | SD l =>
      [NTab KDotted
         (flat_map (fun kn => match snd kn with SV _ | SD _ => map (fun r => (fst kn, r)) (node_res (snd kn)) | _ => [] end) l
          ++ flat_map (fun kn => match snd kn with ST _ _ | SA _ => map (fun r => (fst kn, r)) (node_res (snd kn)) | _ => [] end) l)]
    | ST hid l =>
      [NTab (if hid then KSuper else KHeader)
         (flat_map (fun kn => match snd kn with SV _ | SD _ => map (fun r => (fst kn, r)) (node_res (snd kn)) | _ => [] end) l
          ++ flat_map (fun kn => match snd kn with ST _ _ | SA _ => map (fun r => (fst kn, r)) (node_res (snd kn)) | _ => [] end) l)]
    | SA [] => []
    | SA ls =>
      [NAot (map (fun l =>
                    flat_map (fun kn => match snd kn with SV _ | SD _ => map (fun r => (fst kn, r)) (node_res (snd kn)) | _ => [] end) l
                    ++ flat_map (fun kn => match snd kn with ST _ _ | SA _ => map (fun r => (fst kn, r)) (node_res (snd kn)) | _ => [] end) l) ls)]
    end.
  Definition is_line (n : snode) : bool := match n with SV _ | SD _ => true | _ => false end.
  Definition lres (l : sbody) : T :=
    flat_map (fun kn => match snd kn with SV _ | SD _ => map (fun r => (fst kn, r)) (node_res (snd kn)) | _ => [] end) l.
  Definition sres (l : sbody) : T :=
    flat_map (fun kn => match snd kn with ST _ _ | SA _ => map (fun r => (fst kn, r)) (node_res (snd kn)) | _ => [] end) l.
  Definition bres (l : sbody) : T := lres l ++ sres l.
  Lemma node_res_SD l : node_res (SD l) = [NTab KDotted (bres l)]. Proof. reflexivity. Qed.
  Lemma node_res_ST hid l : node_res (ST hid l) = [NTab (if hid then KSuper else KHeader) (bres l)]. Proof. reflexivity. Qed.
  Lemma node_res_SA ls : node_res (SA ls) = match ls with [] => [] | _ => [NAot (map bres ls)] end.
  Proof. destruct ls; reflexivity. Qed.
End Tree.
Arguments SV {V}. Arguments SD {V}. Arguments ST {V}. Arguments SA {V}.

(* ---- well-formed trees -------------------------------------------------------------------------------------------------- *)
Section Claim.
  Variable V : Type.
  Local Notation T := (stree V).
  Local Notation stm := (stmt V).
  Local Notation snode := (snode V).
  Local Notation sbody := (sbody V).

  Inductive swf : snode -> Prop :=
  | swf_v v : swf (SV v)
  | swf_d l : NoDup (map fst l) -> Forall swf (map snd l) -> dpart V l <> [] -> swf (SD l)
  | swf_t hid l : NoDup (map fst l) -> Forall swf (map snd l) ->
                  (hid = true -> dpart V l = [] /\ secs V [] l <> []) -> swf (ST hid l)
  | swf_a ls : Forall (fun l => NoDup (map fst l) /\ Forall swf (map snd l)) ls -> swf (SA ls).
  Definition swf_body (l : sbody) : Prop := NoDup (map fst l) /\ Forall swf (map snd l).

  Lemma swf_strong (P : snode -> Prop) :
    (forall v, P (SV v)) ->
    (forall l, NoDup (map fst l) -> Forall swf (map snd l) -> Forall P (map snd l) -> dpart V l <> [] -> P (SD l)) ->
    (forall hid l, NoDup (map fst l) -> Forall swf (map snd l) -> Forall P (map snd l) ->
                   (hid = true -> dpart V l = [] /\ secs V [] l <> []) -> P (ST hid l)) ->
    (forall ls, Forall (fun l => NoDup (map fst l) /\ Forall swf (map snd l) /\ Forall P (map snd l)) ls -> P (SA ls)) ->
    forall n, swf n -> P n.
  Proof.
    intros H1 H2 H3 H4. fix IH 2. intros n Hn. destruct Hn as [v | l Hnd Hl Hne | hid l Hnd Hl Hh | ls Hls].
    - apply H1.
    - apply H2; auto. induction Hl; constructor; [apply IH; assumption|assumption].
    - apply H3; auto. induction Hl; constructor; [apply IH; assumption|assumption].
    - apply H4. induction Hls as [|l ls [Hnd Hl] _ IHls]; constructor; [|exact IHls].
      split; [exact Hnd|split; [exact Hl|]]. induction Hl; constructor; [apply IH; assumption|assumption].
  Qed.

  (* ---- shifting ------------------------------------------------------------------------------------------------------- *)
  Lemma map_shift_lines P (ps : list (list bytes * V)) :
    map (shift P) (map (fun pv => SKeyVal (fst pv) (snd pv)) ps) = map (fun pv => SKeyVal (fst pv) (snd pv)) ps.
  Proof. rewrite map_map. reflexivity. Qed.

  Lemma node_secs_shift : forall n P Q, node_secs V (P ++ Q) n = map (shift P) (node_secs V Q n).
  Proof.
    fix IH 1. intros [v|l|hid l|ls] P Q.
    - reflexivity.
    - cbn [node_secs]. induction l as [|[k n] l IHl]; [reflexivity|]. cbn [flat_map fst snd]. rewrite map_app, <- IHl. f_equal.
      rewrite <- app_assoc. apply IH.
    - cbn [node_secs]. rewrite !map_app, map_shift_lines. f_equal; [destruct hid; reflexivity|]. f_equal.
      induction l as [|[k n] l IHl]; [reflexivity|]. cbn [flat_map fst snd]. rewrite map_app, <- IHl. f_equal.
      rewrite <- app_assoc. apply IH.
    - cbn [node_secs]. induction ls as [|l ls IHls]; [reflexivity|]. cbn [flat_map]. rewrite map_app, <- IHls. f_equal.
      cbn [map shift]. f_equal. rewrite map_app, map_shift_lines. f_equal.
      induction l as [|[k n] l IHl]; [reflexivity|]. cbn [flat_map fst snd]. rewrite map_app, <- IHl. f_equal.
      rewrite <- app_assoc. apply IH.
  Qed.
  Lemma secs_shift P Q l : secs V (P ++ Q) l = map (shift P) (secs V Q l).
  Proof.
    unfold secs. induction l as [|[k n] l IH]; [reflexivity|]. cbn [flat_map fst snd]. rewrite map_app, <- IH. f_equal.
    rewrite <- app_assoc. apply node_secs_shift.
  Qed.
  Lemma body_stmts_shift P Q l : body_stmts V (P ++ Q) l = map (shift P) (body_stmts V Q l).
  Proof. unfold body_stmts, line_stmts. rewrite map_app, map_shift_lines, secs_shift. reflexivity. Qed.
  Lemma secs_k k l : secs V [k] l = map (shift [k]) (secs V [] l).
  Proof. apply (secs_shift [k] []). Qed.
  Lemma body_stmts_k k l : body_stmts V [k] l = map (shift [k]) (body_stmts V [] l).
  Proof. apply (body_stmts_shift [k] []). Qed.

  (* ---- shape of the statement lists ------------------------------------------------------------------------------------ *)
  Lemma lines_hdr (ps : list (list bytes * V)) : Forall hdr_nonempty (map (fun pv => SKeyVal (fst pv) (snd pv)) ps).
  Proof. induction ps; constructor; [exact I|assumption]. Qed.
  Lemma node_secs_hdr : forall n P, P <> [] -> Forall hdr_nonempty (node_secs V P n).
  Proof.
    fix IH 1. intros [v|l|hid l|ls] P HP.
    - constructor.
    - cbn [node_secs]. induction l as [|[k n] l IHl]; [constructor|]. cbn [flat_map fst snd]. apply Forall_app. split; [|exact IHl].
      apply IH. destruct P; discriminate.
    - cbn [node_secs]. apply Forall_app. split; [destruct hid; repeat constructor; exact HP|]. apply Forall_app. split; [apply lines_hdr|].
      induction l as [|[k n] l IHl]; [constructor|]. cbn [flat_map fst snd]. apply Forall_app. split; [|exact IHl].
      apply IH. destruct P; discriminate.
    - cbn [node_secs]. induction ls as [|l ls IHls]; [constructor|]. cbn [flat_map]. apply Forall_app. split; [|exact IHls].
      constructor; [exact HP|]. apply Forall_app. split; [apply lines_hdr|].
      induction l as [|[k n] l IHl]; [constructor|]. cbn [flat_map fst snd]. apply Forall_app. split; [|exact IHl].
      apply IH. destruct P; discriminate.
  Qed.
  Lemma secs_hdr P l : Forall hdr_nonempty (secs V P l).
  Proof.
    unfold secs. induction l as [|[k n] l IH]; [constructor|]. cbn [flat_map fst snd]. apply Forall_app. split; [|exact IH].
    apply node_secs_hdr. destruct P; discriminate.
  Qed.
  Lemma body_stmts_hdr P l : Forall hdr_nonempty (body_stmts V P l).
  Proof. unfold body_stmts. apply Forall_app. split; [apply lines_hdr|apply secs_hdr]. Qed.

  (* a list of sections begins with a header, after which the current path no longer matters *)
  Definition starts_hdr (l : list stm) : Prop :=
    match l with [] => True | SHeader _ :: _ => True | SArrHeader _ :: _ => True | SKeyVal _ _ :: _ => False end.
  Lemma starts_hdr_app a b : starts_hdr a -> starts_hdr b -> starts_hdr (a ++ b).
  Proof. destruct a as [|[p|p|p v] a]; cbn; auto. Qed.
  Lemma starts_hdr_flat {A} (f : A -> list stm) l : Forall (fun x => starts_hdr (f x)) l -> starts_hdr (flat_map f l).
  Proof. induction 1; cbn [flat_map]; [exact I|]. apply starts_hdr_app; assumption. Qed.
  Lemma node_secs_starts : forall n, swf n -> forall P, starts_hdr (node_secs V P n).
  Proof.
    apply (swf_strong (fun n => forall P, starts_hdr (node_secs V P n))).
    - intros v P. exact I.
    - intros l _ _ IH _ P. rewrite node_secs_SD. unfold secs. apply starts_hdr_flat. apply Forall_forall. intros [k n] Hin.
      rewrite Forall_forall in IH. apply IH. apply (in_map snd) in Hin. exact Hin.
    - intros hid l _ _ IH Hh P. rewrite node_secs_ST. destruct hid; [|exact I]. cbn [app].
      destruct (Hh eq_refl) as [Hd _]. unfold body_stmts, line_stmts. rewrite Hd. cbn [dflat flat_map map app].
      unfold secs. apply starts_hdr_flat. apply Forall_forall. intros [k n] Hin.
      rewrite Forall_forall in IH. apply IH. apply (in_map snd) in Hin. exact Hin.
    - intros ls _ P. rewrite node_secs_SA. destruct ls; exact I.
  Qed.
  Lemma secs_starts P l : Forall swf (map snd l) -> starts_hdr (secs V P l).
  Proof.
    intro H. unfold secs. apply starts_hdr_flat. apply Forall_forall. intros [k n] Hin. apply node_secs_starts.
    rewrite Forall_forall in H. apply H. apply (in_map snd) in Hin. exact Hin.
  Qed.
  Lemma starts_hdr_cur strict (l : list stm) S c1 c2 : starts_hdr l -> l <> [] ->
    spec_fold strict (S, c1) l = spec_fold strict (S, c2) l.
  Proof. destruct l as [|[p|p|p v] l]; cbn [starts_hdr]; intros H Hne; try congruence; try contradiction; reflexivity. Qed.
End Claim.

(* ---- the statements of a tree define the tree ----------------------------------------------------------------------------- *)
Section Fold.
  Variable V : Type.
  Local Notation T := (stree V).
  Local Notation stm := (stmt V).
  Local Notation snode := (snode V).
  Local Notation sbody := (sbody V).

  Definition skel (l : sbody) : T := dres V (dpart V l).

  (* entry by entry *)
  Definition skel1 (kn : bytes * snode) : T :=
    match dpart_node V (snd kn) with Some d => [(fst kn, dres_node V d)] | None => [] end.
  Definition lres1 (kn : bytes * snode) : T :=
    match snd kn with SV _ | SD _ => map (fun r => (fst kn, r)) (node_res V (snd kn)) | _ => [] end.
  Definition sres1 (kn : bytes * snode) : T :=
    match snd kn with ST _ _ | SA _ => map (fun r => (fst kn, r)) (node_res V (snd kn)) | _ => [] end.
  Lemma skel_cons kn l : skel (kn :: l) = skel1 kn ++ skel l.
  Proof. unfold skel, dpart, dres, skel1. cbn [flat_map]. rewrite map_app. f_equal. destruct (dpart_node V (snd kn)); reflexivity. Qed.
  Lemma lres_app a b : lres V (a ++ b) = lres V a ++ lres V b.
  Proof. unfold lres. apply flat_map_app. Qed.
  Lemma sres_app a b : sres V (a ++ b) = sres V a ++ sres V b.
  Proof. unfold sres. apply flat_map_app. Qed.
  Lemma lres_one kn : lres V [kn] = lres1 kn. Proof. unfold lres. cbn [flat_map]. apply app_nil_r. Qed.
  Lemma sres_one kn : sres V [kn] = sres1 kn. Proof. unfold sres. cbn [flat_map]. apply app_nil_r. Qed.

  Lemma keys_flat (f : bytes * snode -> T) l :
    (forall kn x, In x (map fst (f kn)) -> x = fst kn) -> forall x, In x (map fst (flat_map f l)) -> In x (map fst l).
  Proof.
    intros Hf x. induction l as [|kn l IH]; cbn [flat_map map]; [auto|]. rewrite map_app. intro H. apply in_app_or in H as [H|H].
    - left. symmetry. exact (Hf _ _ H).
    - right. exact (IH H).
  Qed.
  Lemma skel1_keys kn x : In x (map fst (skel1 kn)) -> x = fst kn.
  Proof. unfold skel1. destruct (dpart_node V (snd kn)); cbn; [intros [<-|[]]; reflexivity|contradiction]. Qed.
  Lemma lres1_keys kn x : In x (map fst (lres1 kn)) -> x = fst kn.
  Proof. unfold lres1. destruct (snd kn); try contradiction; rewrite map_map; cbn [fst]; intro H; apply in_map_iff in H as (r & <- & _); reflexivity. Qed.
  Lemma sres1_keys kn x : In x (map fst (sres1 kn)) -> x = fst kn.
  Proof. unfold sres1. destruct (snd kn); try contradiction; rewrite map_map; cbn [fst]; intro H; apply in_map_iff in H as (r & <- & _); reflexivity. Qed.
  Lemma skel_keys l x : In x (map fst (skel l)) -> In x (map fst l).
  Proof.
    induction l as [|kn l IH]; [unfold skel; cbn; auto|]. rewrite skel_cons, map_app. intro H. apply in_app_or in H as [H|H].
    - left. symmetry. apply (skel1_keys _ _ H).
    - right. apply IH, H.
  Qed.
  Lemma lres_keys l x : In x (map fst (lres V l)) -> In x (map fst l).
  Proof. apply (keys_flat lres1). apply lres1_keys. Qed.
  Lemma sres_keys l x : In x (map fst (sres V l)) -> In x (map fst l).
  Proof. apply (keys_flat sres1). apply sres1_keys. Qed.

  Lemma sget_app_l (a b : T) k n : sget a k = Some n -> sget (a ++ b) k = Some n.
  Proof. induction a as [|[k' m] a IH]; cbn [sget app]; [discriminate|]. destruct (bytes_eqb k' k); auto. Qed.
  Lemma sset_app_r (a b : T) k n : sget a k = None -> sset (a ++ b) k n = a ++ sset b k n.
  Proof.
    induction a as [|[k' m] a IH]; cbn [sget sset app]; [reflexivity|]. destruct (bytes_eqb k' k); [discriminate|].
    intro H. rewrite (IH H). reflexivity.
  Qed.
  Lemma sset_hd (b : T) k n n' : sset ((k, n) :: b) k n' = (k, n') :: b.
  Proof. cbn [sset]. rewrite bytes_eqb_refl. reflexivity. Qed.
  Lemma sset_same (t : T) k n : sget t k = Some n -> sset t k n = t.
  Proof.
    induction t as [|[k' m] t IH]; cbn [sget sset]; [reflexivity|]. destruct (bytes_eqb k' k) eqn:E.
    - intro H. inversion H; subst. apply bytes_eqb_eq in E. subst. reflexivity.
    - intro H. rewrite (IH H). reflexivity.
  Qed.
  Lemma notin_sget (t : T) k : ~ In k (map fst t) -> sget t k = None.
  Proof. apply sget_none_notin. Qed.

  (* the dotted forest of a well-formed body is well-formed *)
  Lemma dpart_keys l x : In x (map fst (dpart V l)) -> In x (map fst l).
  Proof.
    unfold dpart. induction l as [|[k n] l IH]; cbn [flat_map map fst snd]; [auto|]. rewrite map_app. intro H.
    apply in_app_or in H as [H|H]; [|right; exact (IH H)]. destruct (dpart_node V n); cbn in H; [destruct H as [<-|[]]; left; reflexivity|contradiction].
  Qed.
  Lemma dpart_nodup l : NoDup (map fst l) -> NoDup (map fst (dpart V l)).
  Proof.
    unfold dpart. induction l as [|[k n] l IH]; cbn [flat_map map fst snd]; [constructor|]. intro H. inversion H as [|? ? Hk Hl]; subst.
    rewrite map_app. destruct (dpart_node V n); cbn [map fst app]; [|apply IH, Hl]. constructor; [|apply IH, Hl].
    intro Hin. apply Hk. apply (dpart_keys l k Hin).
  Qed.
  Lemma dpart_node_wf : forall n, swf V n -> forall d, dpart_node V n = Some d -> dwf_node V d.
  Proof.
    apply (swf_strong V (fun n => forall d, dpart_node V n = Some d -> dwf_node V d)).
    - intros v d E. inversion E; subst. constructor.
    - intros l Hnd _ IH Hne d E. cbn [dpart_node] in E. inversion E; subst. fold (dpart V l). constructor; [exact Hne|apply dpart_nodup, Hnd|].
      unfold dpart. clear -IH. induction l as [|[k n] l IHl]; [constructor|]. cbn [flat_map map fst snd] in *. inversion IH as [|? ? H1 H2]; subst.
      rewrite map_app. apply Forall_app. split; [|apply IHl, H2]. destruct (dpart_node V n) as [d|] eqn:E; [|constructor].
      constructor; [apply H1; reflexivity|constructor].
    - intros hid l _ _ _ _ d E. discriminate.
    - intros ls _ d E. discriminate.
  Qed.
  Lemma dpart_wf l : swf_body V l -> dwf V (dpart V l).
  Proof.
    intros [Hnd Hl]. split; [apply dpart_nodup, Hnd|]. unfold dpart. clear Hnd. induction l as [|[k n] l IH]; [constructor|].
    cbn [flat_map map fst snd] in *. inversion Hl; subst. rewrite map_app. apply Forall_app. split; [|apply IH; assumption].
    destruct (dpart_node V n) as [d|] eqn:E; [|constructor]. constructor; [eapply dpart_node_wf; eauto|constructor].
  Qed.

  (* the key/value lines of a section, into the empty table its header just made *)
  Lemma lines_fold (ps : list (list bytes * V)) (t : T) :
    spec_fold true (t, []) (map (fun pv => SKeyVal (fst pv) (snd pv)) ps) = rbind (inline_fold t ps) (fun t' => ROk (t', [])).
  Proof.
    revert t. induction ps as [|[p v] ps IH]; intro t; [reflexivity|]. cbn [map spec_fold spec_step fst snd at_path inline_fold].
    destruct (insert_kv true p v t); cbn [rbind]; auto.
  Qed.
  Lemma line_stmts_fold l : swf_body V l -> spec_fold true (([] : T), []) (line_stmts V l) = ROk ((skel l : T), []).
  Proof. intro H. unfold line_stmts. rewrite lines_fold, (dfold V _ [] (dpart_wf l H)); [reflexivity|]. intros x _ []. Qed.

  (* ---- claims --------------------------------------------------------------------------------------------------------------- *)
  Definition sec_claim (n : snode) : Prop :=
    forall (k : bytes) (S : T) (cur : list bytes),
      match n with
      | SV _ => exists cur', spec_fold true (S, cur) (node_secs V [k] n) = ROk (S, cur')
      | SD l => sget S k = Some (NTab KDotted (skel l)) ->
                exists cur', spec_fold true (S, cur) (node_secs V [k] n) = ROk (sset S k (NTab KDotted (bres V l)), cur')
      | _ => sget S k = None ->
             exists cur', spec_fold true (S, cur) (node_secs V [k] n) = ROk (S ++ map (fun r => (k, r)) (node_res V n), cur')
      end.
  Definition secs_claim (l : sbody) : Prop :=
    forall cur, exists cur', spec_fold true ((skel l : T), cur) (secs V [] l) = ROk ((bres V l : T), cur').
  Definition body_claim (l : sbody) : Prop :=
    exists cur', spec_fold true (([] : T), []) (body_stmts V [] l) = ROk ((bres V l : T), cur').

  Lemma secs_loop : forall l2 l1, NoDup (map fst (l1 ++ l2)) -> Forall sec_claim (map snd l2) ->
    forall cur, exists cur',
      spec_fold true ((lres V l1 ++ skel l2 ++ sres V l1 : T), cur) (secs V [] l2) = ROk ((lres V (l1 ++ l2) ++ sres V (l1 ++ l2) : T), cur').
  Proof.
    induction l2 as [|[k n] l2 IH]; intros l1 Hnd Hcl cur.
    - exists cur. unfold skel, dpart, dres. cbn [flat_map map app spec_fold secs]. rewrite app_nil_r. reflexivity.
    - cbn [map snd] in Hcl. inversion Hcl as [|? ? Hn Hcl']; subst.
      assert (Hk1 : ~ In k (map fst l1)).
      { rewrite map_app in Hnd. apply NoDup_remove_2 in Hnd. intro H. apply Hnd. apply in_or_app. left. exact H. }
      assert (Hk2 : ~ In k (map fst l2)).
      { rewrite map_app in Hnd. apply NoDup_remove_2 in Hnd. intro H. apply Hnd. apply in_or_app. right. exact H. }
      assert (Hnd' : NoDup (map fst ((l1 ++ [(k, n)]) ++ l2))) by (rewrite <- app_assoc; exact Hnd).
      unfold secs. cbn [flat_map fst snd app]. fold (secs V [] l2). rewrite spec_fold_app. rewrite skel_cons.
      replace (l1 ++ (k, n) :: l2) with ((l1 ++ [(k, n)]) ++ l2) by (rewrite <- app_assoc; reflexivity).
      specialize (Hn k). destruct n as [v|sub|hid sub|ls].
      + destruct (Hn (lres V l1 ++ (skel1 (k, SV v) ++ skel l2) ++ sres V l1) cur) as (c1 & E1). rewrite E1. cbn [rbind].
        destruct (IH (l1 ++ [(k, SV v)]) Hnd' Hcl' c1) as (c2 & E2). exists c2. rewrite <- E2. f_equal. f_equal.
        rewrite lres_app, sres_app, lres_one, sres_one. unfold lres1, sres1, skel1. cbn [snd fst dpart_node dres_node node_res map].
        rewrite <- !app_assoc. cbn [app]. rewrite ?app_nil_r. reflexivity.
      + assert (G : sget (lres V l1 ++ (skel1 (k, SD sub) ++ skel l2) ++ sres V l1) k = Some (NTab KDotted (skel sub))).
        { rewrite (sget_app_none V); [|apply notin_sget; intro H; exact (Hk1 (lres_keys _ _ H))].
          unfold skel1. cbn [snd fst dpart_node dres_node app sget]. rewrite bytes_eqb_refl. reflexivity. }
        destruct (Hn _ cur G) as (c1 & E1). rewrite E1. cbn [rbind].
        destruct (IH (l1 ++ [(k, SD sub)]) Hnd' Hcl' c1) as (c2 & E2). exists c2. rewrite <- E2. f_equal. f_equal.
        rewrite sset_app_r by (apply notin_sget; intro H; exact (Hk1 (lres_keys _ _ H))).
        unfold skel1. cbn [snd fst dpart_node dres_node app]. fold (dpart V sub). rewrite sset_hd.
        rewrite lres_app, sres_app, lres_one, sres_one. unfold lres1, sres1. cbn [snd fst]. rewrite node_res_SD. cbn [map].
        rewrite <- !app_assoc. cbn [app]. rewrite ?app_nil_r. reflexivity.
      + assert (G : sget (lres V l1 ++ (skel1 (k, ST hid sub) ++ skel l2) ++ sres V l1) k = None).
        { apply notin_sget. rewrite !map_app. intro H. apply in_app_or in H as [H|H]; [exact (Hk1 (lres_keys _ _ H))|].
          apply in_app_or in H as [H|H]; [|exact (Hk1 (sres_keys _ _ H))]. apply in_app_or in H as [H|H]; [cbn in H; contradiction|].
          exact (Hk2 (skel_keys _ _ H)). }
        destruct (Hn _ cur G) as (c1 & E1). rewrite E1. cbn [rbind].
        destruct (IH (l1 ++ [(k, ST hid sub)]) Hnd' Hcl' c1) as (c2 & E2). exists c2. rewrite <- E2. f_equal. f_equal.
        rewrite lres_app, sres_app, lres_one, sres_one. unfold lres1, sres1, skel1. cbn [snd fst dpart_node app].
        rewrite <- !app_assoc. cbn [app]. rewrite ?app_nil_r. reflexivity.
      + assert (G : sget (lres V l1 ++ (skel1 (k, SA ls) ++ skel l2) ++ sres V l1) k = None).
        { apply notin_sget. rewrite !map_app. intro H. apply in_app_or in H as [H|H]; [exact (Hk1 (lres_keys _ _ H))|].
          apply in_app_or in H as [H|H]; [|exact (Hk1 (sres_keys _ _ H))]. apply in_app_or in H as [H|H]; [cbn in H; contradiction|].
          exact (Hk2 (skel_keys _ _ H)). }
        destruct (Hn _ cur G) as (c1 & E1). rewrite E1. cbn [rbind].
        destruct (IH (l1 ++ [(k, SA ls)]) Hnd' Hcl' c1) as (c2 & E2). exists c2. rewrite <- E2. f_equal. f_equal.
        rewrite lres_app, sres_app, lres_one, sres_one. unfold lres1, sres1, skel1. cbn [snd fst dpart_node app].
        rewrite <- !app_assoc. cbn [app]. rewrite ?app_nil_r. reflexivity.
  Qed.

  Lemma secs_claim_of l : NoDup (map fst l) -> Forall sec_claim (map snd l) -> secs_claim l.
  Proof.
    intros Hnd Hcl cur. destruct (secs_loop l [] Hnd Hcl cur) as (c' & E). exists c'.
    change (lres V []) with (@nil (bytes * node V)) in E. change (sres V []) with (@nil (bytes * node V)) in E.
    cbn [app] in E. rewrite app_nil_r in E. exact E.
  Qed.
  Lemma body_claim_of l : swf_body V l -> Forall sec_claim (map snd l) -> body_claim l.
  Proof.
    intros Hw Hcl. unfold body_claim, body_stmts. rewrite spec_fold_app, (line_stmts_fold l Hw). cbn [rbind].
    apply (secs_claim_of l (proj1 Hw) Hcl).
  Qed.

  (* ---- the sections of one node ---------------------------------------------------------------------------------------------- *)
  Lemma frame_k k (L : list stm) (S : T) t' c' : Forall hdr_nonempty L -> L <> [] ->
    at_path_x [k] (fun c => spec_fold true (c, []) L) S = ROk (t', c') ->
    spec_fold true (S, [k]) (map (shift [k]) L) = ROk (t', k :: c').
  Proof. intros H1 H2 H3. exact (fold_frame V true [k] L H1 H2 S [] t' c' H3). Qed.

  Lemma map_shift_starts P (L : list stm) : starts_hdr V L -> starts_hdr V (map (shift P) L).
  Proof. destruct L as [|[p|p|p v] L]; cbn; auto. Qed.

  Lemma sec_SD l : swf_body V l -> secs_claim l -> sec_claim (SD l).
  Proof.
    intros [Hnd Hl] Hc k S cur G. rewrite node_secs_SD, secs_k.
    destruct (Hc []) as (c' & E).
    destruct (secs V [] l) as [|s0 L0] eqn:EL.
    - cbn [spec_fold map] in *. injection E as E0 _. exists cur. rewrite <- E0. rewrite (sset_same S k _ G). reflexivity.
    - rewrite <- EL in *. assert (Hne : secs V [] l <> []) by (rewrite EL; discriminate).
      exists (k :: c').
      rewrite (starts_hdr_cur V true _ S cur [k]);
        [|apply map_shift_starts, secs_starts, Hl|intro H; apply map_eq_nil in H; exact (Hne H)].
      apply frame_k; [apply secs_hdr|exact Hne|].
      cbn [at_path_x]. rewrite G, E. reflexivity.
  Qed.

  Lemma sec_ST hid l : swf_body V l -> (hid = true -> dpart V l = [] /\ secs V [] l <> []) -> body_claim l -> sec_claim (ST hid l).
  Proof.
    intros [Hnd Hl] Hh (c' & E) k S cur G. rewrite node_secs_ST, node_res_ST, body_stmts_k. destruct hid.
    - destruct (Hh eq_refl) as [Hd Hne]. cbn [app].
      assert (EB : body_stmts V [] l = secs V [] l).
      { unfold body_stmts, line_stmts. rewrite Hd. reflexivity. }
      exists (k :: c').
      rewrite (starts_hdr_cur V true _ S cur [k]);
        [|rewrite EB; apply map_shift_starts, secs_starts, Hl|rewrite EB; intro H; apply map_eq_nil in H; exact (Hne H)].
      apply frame_k; [apply body_stmts_hdr|rewrite EB; exact Hne|].
      cbn [at_path_x]. rewrite G. cbn [at_path_x]. rewrite E. reflexivity.
    - cbn [app spec_fold spec_step unsnoc rev]. change (unsnoc [k]) with (Some (@nil bytes, k)). cbn [at_path]. unfold def_table. rewrite G. cbn [rbind].
      destruct (body_stmts V [] l) as [|s0 L0] eqn:EL.
      + cbn [spec_fold map] in *. injection E as E0 _. exists [k]. rewrite <- E0. reflexivity.
      + rewrite <- EL in *. assert (Hne : body_stmts V [] l <> []) by (rewrite EL; discriminate).
        exists (k :: c'). 
        replace (S ++ map (fun r => (k, r)) [NTab KHeader (bres V l)]) with (sset (spush S k (NTab KHeader [])) k (NTab KHeader (bres V l)))
          by (rewrite (sset_spush_new V); [reflexivity|exact G]).
        apply frame_k; [apply body_stmts_hdr|exact Hne|].
        cbn [at_path_x]. rewrite (DefsEquivSpec.sget_spush_same S k _ G). rewrite E. reflexivity.
  Qed.

  (* one more element of an array of tables *)
  Lemma aot_elem k l : body_claim l -> forall (S : T) es cur, sget S k = Some (NAot es) ->
    exists cur', spec_fold true (S, cur) (SArrHeader [k] :: body_stmts V [k] l) = ROk (sset S k (NAot (es ++ [bres V l])), cur').
  Proof.
    intros (c' & E) S es cur G. rewrite body_stmts_k. cbn [spec_fold spec_step]. change (unsnoc [k]) with (Some (@nil bytes, k)).
    cbn [at_path]. unfold def_elem. rewrite G. cbn [rbind].
    destruct (body_stmts V [] l) as [|s0 L0] eqn:EL.
    - cbn [spec_fold map] in *. injection E as E0 _. exists [k]. rewrite <- E0. reflexivity.
    - rewrite <- EL in *. assert (Hne : body_stmts V [] l <> []) by (rewrite EL; discriminate).
      exists (k :: c').
      replace (sset S k (NAot (es ++ [bres V l]))) with (sset (sset S k (NAot (es ++ [[]]))) k (NAot (es ++ [bres V l])))
        by apply (sset_sset V).
      apply frame_k; [apply body_stmts_hdr|exact Hne|].
      cbn [at_path_x]. rewrite (sget_sset_same V S k _ _ G). rewrite rev_app_distr. cbn [rev app]. rewrite E. cbn [rbind fst snd].
      rewrite rev_involutive. reflexivity.
  Qed.
  Lemma aot_first k l : body_claim l -> forall (S : T) cur, sget S k = None ->
    exists cur', spec_fold true (S, cur) (SArrHeader [k] :: body_stmts V [k] l) = ROk (spush S k (NAot [bres V l]), cur').
  Proof.
    intros (c' & E) S cur G. rewrite body_stmts_k. cbn [spec_fold spec_step]. change (unsnoc [k]) with (Some (@nil bytes, k)).
    cbn [at_path]. unfold def_elem. rewrite G. cbn [rbind].
    destruct (body_stmts V [] l) as [|s0 L0] eqn:EL.
    - cbn [spec_fold map] in *. injection E as E0 _. exists [k]. rewrite <- E0. reflexivity.
    - rewrite <- EL in *. assert (Hne : body_stmts V [] l <> []) by (rewrite EL; discriminate).
      exists (k :: c').
      replace (spush S k (NAot [bres V l])) with (sset (spush S k (NAot [[]])) k (NAot [bres V l]))
        by (apply (sset_spush_new V); exact G).
      apply frame_k; [apply body_stmts_hdr|exact Hne|].
      cbn [at_path_x]. rewrite (DefsEquivSpec.sget_spush_same S k _ G). cbn [rev app]. rewrite E. reflexivity.
  Qed.
  Lemma aot_rest k : forall ls, Forall body_claim ls -> forall (S : T) es cur, sget S k = Some (NAot es) ->
    exists cur', spec_fold true (S, cur) (flat_map (fun l => SArrHeader [k] :: body_stmts V [k] l) ls)
                 = ROk (sset S k (NAot (es ++ map (bres V) ls)), cur').
  Proof.
    induction ls as [|l ls IH]; intros Hc S es cur G.
    - exists cur. cbn [flat_map spec_fold map]. rewrite app_nil_r, (sset_same S k _ G). reflexivity.
    - inversion Hc as [|? ? H1 H2]; subst. cbn [flat_map]. rewrite spec_fold_app.
      destruct (aot_elem k l H1 S es cur G) as (c1 & E1). rewrite E1. cbn [rbind].
      destruct (IH H2 (sset S k (NAot (es ++ [bres V l]))) (es ++ [bres V l]) c1 (sget_sset_same V S k _ _ G)) as (c2 & E2).
      exists c2. rewrite E2. rewrite (sset_sset V). cbn [map]. rewrite <- app_assoc. reflexivity.
  Qed.
  Lemma sec_SA ls : Forall body_claim ls -> sec_claim (SA ls).
  Proof.
    intros Hc k S cur G. rewrite node_secs_SA, node_res_SA. destruct ls as [|l ls].
    - exists cur. cbn [flat_map spec_fold map]. rewrite app_nil_r. reflexivity.
    - inversion Hc as [|? ? H1 H2]; subst. cbn [flat_map]. rewrite spec_fold_app.
      destruct (aot_first k l H1 S cur G) as (c1 & E1). rewrite E1. cbn [rbind].
      destruct (aot_rest k ls H2 (spush S k (NAot [bres V l])) [bres V l] c1 (DefsEquivSpec.sget_spush_same S k _ G)) as (c2 & E2).
      exists c2. rewrite E2. rewrite (sset_spush_new V S k _ _ G). reflexivity.
  Qed.

  Theorem sec_claim_all : forall n, swf V n -> sec_claim n.
  Proof.
    apply (swf_strong V sec_claim).
    - intros v k S cur. exists cur. reflexivity.
    - intros l Hnd Hl IH _. apply sec_SD; [split; assumption|]. apply secs_claim_of; assumption.
    - intros hid l Hnd Hl IH Hh. apply sec_ST; [split; assumption|exact Hh|]. apply body_claim_of; [split; assumption|exact IH].
    - intros ls Hls. apply sec_SA. apply Forall_forall. intros l Hin. rewrite Forall_forall in Hls. destruct (Hls l Hin) as (H1 & H2 & H3).
      apply body_claim_of; [split; assumption|exact H3].
  Qed.

  (* THE statement: the statements of a well-formed body, section after section, define that body *)
  Theorem body_defines l : swf_body V l -> run true (body_stmts V [] l) = Valid (bres V l).
  Proof.
    intro Hw. destruct (body_claim_of l Hw) as (c' & E).
    - apply Forall_forall. intros n Hin. apply sec_claim_all. destruct Hw as [_ Hl]. rewrite Forall_forall in Hl. apply Hl, Hin.
    - unfold run. assert (E' : spec_fold true sstate0 (body_stmts V [] l) = ROk (bres V l, c')) by exact E.
      rewrite E'. reflexivity.
  Qed.
End Fold.
