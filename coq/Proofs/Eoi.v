(* Proofs/Eoi.v — the stand-alone entry points (parse_value / parse_key / parse_key_path) run
   `terminated(P, end_of_input).parse(input)` (Model/Document.v: terminated_eoi, end_of_input).
   This file relates `parse_all (terminated_eoi p)` to `parse_all p`:

     * the same inputs are accepted, with the same result            (parse_all_eoi_done)
     * the same inputs reach a panic site, the same one              (parse_all_eoi_panicked)
     * a rejection is a rejection of `parse_all p` at the same offset, with the same cause, and
       a context is never lost                                       (parse_all_eoi_failed)
     * the only difference: trailing input after a successful `p` is now rejected WITH a
       context ("expected end of input") instead of with the bare error of `Parser::parse`'s
       own eof check                                                  (parse_all_eoi_trailing)

   The remaining lemmas are the rewriting forms the older proofs need at the places where they
   used to unfold `parse_all`. *)
From Coq Require Import List NArith.
From TV Require Import Base.Prelude Base.Utf8 Base.Winnow Model.Tree Model.Parse Model.Document.
Import ListNotations.

(* ---- the two parsers, on one input ------------------------------------------------------------ *)
Lemma end_of_input_nil i : rest i = [] -> end_of_input i = Ok tt i.
Proof. intro R. unfold end_of_input, context, eof. rewrite R. reflexivity. Qed.

Lemma end_of_input_cons i b r : rest i = b :: r -> end_of_input i = Bt (mkErr None true) i.
Proof. intro R. unfold end_of_input, context, eof. rewrite R. reflexivity. Qed.

Lemma terminated_eoi_ok {A} (p : parser A) i a i' :
  p i = Ok a i' -> rest i' = [] -> terminated_eoi p i = Ok a i'.
Proof. intros E R. unfold terminated_eoi, bind. rewrite E, (end_of_input_nil _ R). reflexivity. Qed.

Lemma terminated_eoi_inv {A} (p : parser A) i a i' :
  terminated_eoi p i = Ok a i' -> p i = Ok a i' /\ rest i' = [].
Proof.
  unfold terminated_eoi, bind. destruct (p i) as [x j|? ?|? ?|?]; try discriminate.
  destruct (rest j) as [|b r] eqn:R.
  - rewrite (end_of_input_nil _ R). unfold ret. intro H. injection H as -> ->. auto.
  - rewrite (end_of_input_cons _ _ _ R). discriminate.
Qed.

Lemma terminated_eoi_trailing {A} (p : parser A) i a i' :
  p i = Ok a i' -> rest i' <> [] -> terminated_eoi p i = Bt (mkErr None true) i'.
Proof.
  intros E R. unfold terminated_eoi, bind. rewrite E. destruct (rest i') as [|b r] eqn:R'; [contradiction|].
  rewrite (end_of_input_cons _ _ _ R'). reflexivity.
Qed.

Lemma terminated_eoi_bt {A} (p : parser A) i e i' : p i = Bt e i' -> terminated_eoi p i = Bt e i'.
Proof. intro E. unfold terminated_eoi, bind. rewrite E. reflexivity. Qed.
Lemma terminated_eoi_cut {A} (p : parser A) i e i' : p i = Cut e i' -> terminated_eoi p i = Cut e i'.
Proof. intro E. unfold terminated_eoi, bind. rewrite E. reflexivity. Qed.
Lemma terminated_eoi_panic {A} (p : parser A) i st : p i = Panic st -> terminated_eoi p i = Panic st.
Proof. intro E. unfold terminated_eoi, bind. rewrite E. reflexivity. Qed.

(* ---- both `parse_all`s as a function of `p (new_input s)` -------------------------------------- *)
Lemma parse_all_unfold {A} (p : parser A) s :
  parse_all p s =
  match p (new_input s) with
  | Ok a i => match rest i with [] => Done a | _ :: _ => Failed err0 (pos i) end
  | Bt e i => Failed e (pos i)
  | Cut e i => Failed e (pos i)
  | Panic st => Panicked st
  end.
Proof.
  unfold parse_all, bind. destruct (p (new_input s)) as [a i|? ?|? ?|?]; try reflexivity.
  unfold eof, ret. destruct (rest i); reflexivity.
Qed.

Lemma parse_all_eoi_unfold {A} (p : parser A) s :
  parse_all (terminated_eoi p) s =
  match p (new_input s) with
  | Ok a i => match rest i with [] => Done a | _ :: _ => Failed (mkErr None true) (pos i) end
  | Bt e i => Failed e (pos i)
  | Cut e i => Failed e (pos i)
  | Panic st => Panicked st
  end.
Proof.
  rewrite parse_all_unfold. destruct (p (new_input s)) as [a i|e i|e i|st] eqn:E.
  - destruct (rest i) as [|b r] eqn:R.
    + rewrite (terminated_eoi_ok _ _ _ _ E R), R. reflexivity.
    + rewrite (terminated_eoi_trailing _ _ _ _ E) by (rewrite R; discriminate). reflexivity.
  - rewrite (terminated_eoi_bt _ _ _ _ E). reflexivity.
  - rewrite (terminated_eoi_cut _ _ _ _ E). reflexivity.
  - rewrite (terminated_eoi_panic _ _ _ E). reflexivity.
Qed.

(* ---- the bridge --------------------------------------------------------------------------------- *)
Theorem parse_all_eoi_done {A} (p : parser A) s a :
  parse_all (terminated_eoi p) s = Done a <-> parse_all p s = Done a.
Proof.
  rewrite parse_all_eoi_unfold, parse_all_unfold.
  destruct (p (new_input s)) as [x i|? ?|? ?|?]; try (split; discriminate).
  destruct (rest i); split; trivial; discriminate.
Qed.

Theorem parse_all_eoi_panicked {A} (p : parser A) s st :
  parse_all (terminated_eoi p) s = Panicked st <-> parse_all p s = Panicked st.
Proof.
  rewrite parse_all_eoi_unfold, parse_all_unfold.
  destruct (p (new_input s)) as [x i|? ?|? ?|?]; try (split; discriminate).
  - destruct (rest i); split; discriminate.
  - split; trivial.
Qed.

Theorem parse_all_eoi_failed {A} (p : parser A) s e at_ :
  parse_all (terminated_eoi p) s = Failed e at_ ->
  exists e0, parse_all p s = Failed e0 at_ /\ e_cause e = e_cause e0 /\ (e_ctx e0 = true -> e_ctx e = true).
Proof.
  rewrite parse_all_eoi_unfold, parse_all_unfold.
  destruct (p (new_input s)) as [x i|e1 i|e1 i|?]; try discriminate.
  - destruct (rest i); [discriminate|]. intro H. injection H as <- <-.
    exists err0. repeat split.
  - intro H. injection H as <- <-. exists e1. auto.
  - intro H. injection H as <- <-. exists e1. auto.
Qed.

(* the converse direction: nothing that was rejected is accepted, offsets and causes stay *)
Theorem parse_all_failed_eoi {A} (p : parser A) s e0 at_ :
  parse_all p s = Failed e0 at_ ->
  exists e, parse_all (terminated_eoi p) s = Failed e at_ /\ e_cause e = e_cause e0 /\ (e_ctx e0 = true -> e_ctx e = true).
Proof.
  rewrite parse_all_eoi_unfold, parse_all_unfold.
  destruct (p (new_input s)) as [x i|e1 i|e1 i|?]; try discriminate.
  - destruct (rest i); [discriminate|]. intro H. injection H as <- <-.
    exists (mkErr None true). repeat split.
  - intro H. injection H as <- <-. exists e1. auto.
  - intro H. injection H as <- <-. exists e1. auto.
Qed.

(* the sharper fact: trailing input after a complete `p` is rejected WITH a context *)
Theorem parse_all_eoi_trailing {A} (p : parser A) s a i :
  p (new_input s) = Ok a i -> rest i <> [] ->
  parse_all (terminated_eoi p) s = Failed (mkErr None true) (pos i).
Proof.
  intros E R. rewrite parse_all_eoi_unfold, E. destruct (rest i); [contradiction|reflexivity].
Qed.

(* ... where `Parser::parse` alone rejects it with the bare error *)
Lemma parse_all_trailing {A} (p : parser A) s a i :
  p (new_input s) = Ok a i -> rest i <> [] -> parse_all p s = Failed err0 (pos i).
Proof.
  intros E R. rewrite parse_all_unfold, E. destruct (rest i); [contradiction|reflexivity].
Qed.

(* both at once: the one place where the two differ *)
Theorem parse_all_eoi_trailing_both {A} (p : parser A) s a i :
  p (new_input s) = Ok a i -> rest i <> [] ->
  parse_all (terminated_eoi p) s = Failed (mkErr None true) (pos i)
  /\ parse_all p s = Failed err0 (pos i).
Proof. intros H R. split; [exact (parse_all_eoi_trailing p s a i H R)|exact (parse_all_trailing p s a i H R)]. Qed.

(* when `p` itself fails, the two agree on the error as well *)
Lemma parse_all_eoi_bt {A} (p : parser A) s e i :
  p (new_input s) = Bt e i -> parse_all (terminated_eoi p) s = Failed e (pos i).
Proof. intro E. rewrite parse_all_eoi_unfold, E. reflexivity. Qed.
Lemma parse_all_eoi_cut {A} (p : parser A) s e i :
  p (new_input s) = Cut e i -> parse_all (terminated_eoi p) s = Failed e (pos i).
Proof. intro E. rewrite parse_all_eoi_unfold, E. reflexivity. Qed.

(* ---- rewriting forms ------------------------------------------------------------------------------ *)
(* accepted: `p` consumed everything *)
Lemma parse_all_eoi_ok {A} (p : parser A) s a i :
  p (new_input s) = Ok a i -> rest i = [] -> parse_all (terminated_eoi p) s = Done a.
Proof. intros E R. rewrite parse_all_eoi_unfold, E, R. reflexivity. Qed.

Lemma parse_all_eoi_done_inv {A} (p : parser A) s a :
  parse_all (terminated_eoi p) s = Done a -> exists i, p (new_input s) = Ok a i /\ rest i = [].
Proof.
  rewrite parse_all_eoi_unfold. destruct (p (new_input s)) as [x i|? ?|? ?|?]; try discriminate.
  destruct (rest i) eqn:R; [|discriminate]. intro H. injection H as ->. eauto.
Qed.

(* through lift_outcome (the form of the three entry points) *)
Lemma lift_eoi_ok {A} (p : parser A) s a :
  lift_outcome (parse_all (terminated_eoi p) s) = POk a <-> lift_outcome (parse_all p s) = POk a.
Proof.
  pose proof (parse_all_eoi_done p s a) as [H1 H2].
  split; intro H.
  - destruct (parse_all (terminated_eoi p) s) as [x| |] eqn:E; try discriminate.
    injection H as ->. rewrite (H1 eq_refl). reflexivity.
  - destruct (parse_all p s) as [x| |] eqn:E; try discriminate.
    injection H as ->. rewrite (H2 eq_refl). reflexivity.
Qed.

Lemma lift_eoi_panic {A} (p : parser A) s st :
  lift_outcome (parse_all (terminated_eoi p) s) = PPanic st <-> lift_outcome (parse_all p s) = PPanic st.
Proof.
  pose proof (parse_all_eoi_panicked p s st) as [H1 H2].
  split; intro H.
  - destruct (parse_all (terminated_eoi p) s) as [|? ?|x] eqn:E; try discriminate.
    injection H as ->. rewrite (H1 eq_refl). reflexivity.
  - destruct (parse_all p s) as [|? ?|x] eqn:E; try discriminate.
    injection H as ->. rewrite (H2 eq_refl). reflexivity.
Qed.

Lemma lift_eoi_err {A} (p : parser A) s e at_ :
  lift_outcome (parse_all (terminated_eoi p) s) = PErr e at_ ->
  exists e0, lift_outcome (parse_all p s) = PErr e0 at_ /\ e_cause e = e_cause e0 /\ (e_ctx e0 = true -> e_ctx e = true).
Proof.
  destruct (parse_all (terminated_eoi p) s) as [|e1 a1|] eqn:E; try discriminate.
  cbn [lift_outcome]. intro H. injection H as <- <-.
  destruct (parse_all_eoi_failed p s e1 a1 E) as (e0 & E0 & Hc & Hx).
  exists e0. rewrite E0. auto.
Qed.

(* the three entry points, folded *)
Lemma parse_value_raw_eq s : parse_value_raw s = lift_outcome (parse_all (terminated_eoi value_) s).
Proof. reflexivity. Qed.
Lemma parse_key_eq s : parse_key s = lift_outcome (parse_all (terminated_eoi simple_key) s).
Proof. reflexivity. Qed.
Lemma parse_key_path_eq s : parse_key_path s = lift_outcome (parse_all (terminated_eoi key_) s).
Proof. reflexivity. Qed.

(* ---- non-vacuity: `1 2` as a value, `a b` as a key, `a.b c` as a key path ---------------------------
   rejected at the same offset as before, now with a context *)
Example eoi_ex_value :
  parse_value_raw [x31; x20; x32] = PErr (mkErr None true) (Some 1%N)
  /\ lift_outcome (parse_all value_ [x31; x20; x32]) = PErr err0 (Some 1%N).
Proof. vm_compute. split; reflexivity. Qed.
Example eoi_ex_key :
  parse_key [x61; x20; x62] = PErr (mkErr None true) (Some 1%N)
  /\ lift_outcome (parse_all simple_key [x61; x20; x62]) = PErr err0 (Some 1%N).
Proof. vm_compute. split; reflexivity. Qed.
Example eoi_ex_key_path :
  parse_key_path [x61; x2e; x62; x20; x63] = PErr (mkErr None true) (Some 4%N)
  /\ lift_outcome (parse_all key_ [x61; x2e; x62; x20; x63]) = PErr err0 (Some 4%N).
Proof. vm_compute. split; reflexivity. Qed.
