(* Proofs/SpansDoc.v — C14: document.rs / table.rs.  Every line parser hands on a state whose spans
   lie left of the cursor; hence every span of a parsed document lies in [0, length source]. *)
From TV Require Import Base.Prelude Base.Utf8 Base.Winnow Gen.Consts Spec.Abnf.
From TV Require Import Model.Trivia Model.Strings Model.Datetime Model.Numbers Model.Tree Model.Parse Model.Document.
From TV Require Import Proofs.ConstsOk Proofs.NoPanicBase Proofs.NoPanicLex Proofs.NoPanicValue Proofs.NoPanicState Proofs.NoPanicDoc.
From TV Require Import Proofs.SpansDefs Proofs.SpansBase Proofs.SpansLex Proofs.SpansValue Proofs.SpansState.
Require Import Lia ZifyBool ZifyN ZifyNat.

(* ---- parse_keyval ------------------------------------------------------------------------------------------- *)
Lemma kv_rhs_win :
  winP (fun lo hi x => sp_in lo hi (fst (fst x)) = true /\ value_in lo hi (snd (fst x)) = true
                       /\ sp_in lo hi (snd x) = true) kv_rhs.
Proof.
  intros lo hi i x i' E L U. unfold kv_rhs in E. apply cut_err_ok in E. binds E. apply ret_ok in E as [-> ->].
  apply span_ok in E1 as (-> & x1 & E1). apply context_ok in E3. cbn [fst snd].
  pos_le E0. pos_le E1. pos_le E2. pos_le E3.
  repeat split; [apply sp_in_pair; lia|eapply value_win; [exact E2|lia|lia]|eapply line_trailing_win; [exact E3|lia|lia]].
Qed.

Lemma parse_keyval_win : winP pair_in parse_keyval.
Proof.
  intros lo hi i x i' E L U. rewrite parse_keyval_eq in E. binds E. destruct a0 as [[pre v] suf].
  destruct (pop_key a) as [[path k]|] eqn:P; [|discriminate]. apply ret_ok in E as [-> ->].
  pose proof (mono_le _ _ _ _ key_mono E0). pose proof (mono_le _ _ _ _ kv_rhs_mono E1).
  pose proof (key_win lo (pos j) _ _ _ E0 L (N.le_refl _)) as Hk. cbn beta in Hk.
  destruct (pop_key_in _ _ _ _ _ Hk P) as [Hpath Hkk].
  pose proof (kv_rhs_win (pos j) hi _ _ _ E1 (N.le_refl _) U) as (H1 & H2 & H3). cbn [fst snd] in *.
  exists (pos j). cbn [fst snd]. repeat split; [exact Hpath|exact Hkk| |lia|lia].
  rewrite item_in_value. apply value_in_decorate; [exact H2|apply raw_with_span_in, H1|apply raw_with_span_in, H3].
Qed.

(* ---- parsers indexed by a parse state ------------------------------------------------------------------------- *)
(* the state handed on has its spans left of the cursor *)
Definition stP (q : pstate -> parser pstate) : Prop :=
  forall st i st' i', q st i = Ok st' i' -> st_in (pos i) st -> st_in (pos i') st'.

Lemma lift_state_ok {A} (r : cres A) a : lift_state r = TmOk a -> r = COk a.
Proof. destruct r; cbn [lift_state]; intro H; inversion H; reflexivity. Qed.

Lemma keyval_stP : stP keyval.
Proof.
  intros st i st' i' E Hst. unfold keyval in E. apply try_map_ok in E as ([path [k v]] & E & G).
  apply lift_state_ok in G. pose proof (parse_keyval_win (pos i) (pos i') _ _ _ E (N.le_refl _) (N.le_refl _)) as (mid & H1 & H2 & H3 & L & U).
  cbn [fst snd] in *. eapply on_keyval_sp_in; eauto.
Qed.

Lemma header_stP ia : stP (header ia).
Proof.
  intros st i st' i' E Hst. rewrite header_eq in E. apply try_map_ok in E as ([[h sp] t] & E & G).
  apply lift_state_ok in G. unfold header_syntax in E. cbv zeta in E. unfold pair_ in E. binds E.
  apply ret_ok in E as [X ->]. inversion X; subst a a0. clear X.
  apply with_span_ok in E0 as (S & E0). cbn [fst snd] in *. subst sp. apply context_ok, cut_err_ok in E1.
  assert (M0 : (pos i <= pos j)%N) by (eapply mono_le; [|exact E0]; destruct ia; np).
  pos_le E1.
  assert (Hh : keys_in (pos i) (pos j) h = true).
  { eapply (winP_delimited (fun lo hi l => keys_in lo hi l = true)); [| | | |exact E0|apply N.le_refl|apply N.le_refl];
      [destruct ia; np|np|destruct ia; np|apply winP_cut_err, key_win]. }
  eapply on_header_in; [exact Hst|exact M0|exact M|exact Hh| |exact G].
  eapply line_trailing_win; [exact E1|lia|lia].
Qed.

Lemma table_stP : stP table.
Proof.
  intros st i st' i' E Hst. unfold table in E. apply context_ok in E. binds E. apply peek_ok in E0 as (-> & _).
  destruct (bytes_eqb _ _); eapply header_stP; eauto.
Qed.

Lemma on_ws_stP {A} (p : parser A) : mono p -> stP (fun st => pmap (on_ws st) (span_ p)).
Proof.
  intros Mp st i st' i' E Hst. apply pmap_ok in E as (sp & E & ->). apply span_ok in E as (-> & x & E).
  apply st_in_on_ws; [exact Hst|eapply mono_le; eauto].
Qed.
Lemma parse_ws_stP : stP parse_ws. Proof. apply (on_ws_stP ws). np. Qed.
Lemma parse_newline_stP : stP parse_newline. Proof. apply (on_ws_stP newline). np. Qed.
Lemma parse_comment_stP : stP parse_comment. Proof. apply (on_ws_stP (comment ;;; context line_ending)). np. Qed.

Lemma doc_item_stP b : stP (fun st => doc_item st b).
Proof.
  intros st i st' i' E Hst. unfold doc_item in E.
  destruct (byte_eqb b COMMENT_START_SYMBOL); [apply cut_err_ok in E; eapply parse_comment_stP; eauto|].
  destruct (byte_eqb b STD_TABLE_OPEN); [apply cut_err_ok in E; eapply table_stP; eauto|].
  destruct (_ || _); [eapply parse_newline_stP; eauto|]. apply cut_err_ok in E. eapply keyval_stP; eauto.
Qed.

Lemma doc_line_stP : stP doc_line.
Proof.
  intros st i st' i' E Hst. rewrite doc_line_eq in E. apply bind_ok in E as (b & j & E0 & E).
  apply bind_ok in E as (st1 & j1 & E1 & E). apply peek_ok in E0 as (-> & _).
  eapply parse_ws_stP; [exact E|]. eapply doc_item_stP; eauto.
Qed.

Lemma doc_loop_in : forall fuel st i st' i', doc_loop fuel st i = Ok st' i' -> st_in (pos i) st -> st_in (pos i') st'.
Proof.
  induction fuel as [|f IH]; intros st i st' i' H Hst; cbn [doc_loop] in H; [discriminate|].
  destruct (doc_line st i) as [s1 i1|? ?|? ?|?] eqn:E; try discriminate.
  - destruct (Nat.eqb _ _); [discriminate|]. eapply IH; [exact H|]. eapply doc_line_stP; eauto.
  - inversion H; subst. exact Hst.
Qed.

Lemma document_in i st i' : document i = Ok st i' -> st_in (pos i') st.
Proof.
  rewrite document_eq. intro E. binds E. apply ret_ok in E as [-> ->].
  assert (M2 : (pos j1 <= pos j2)%N).
  { unfold eof in E3. destruct (rest j1); inversion E3; subst. lia. }
  eapply st_in_mono; [exact M2|]. eapply doc_loop_in; [exact E2|]. eapply parse_ws_stP; [exact E1|].
  eapply st_in_mono; [|apply st_in_new]. lia.
Qed.

(* ---- parse_document ------------------------------------------------------------------------------------------- *)
Lemma parse_all_done_eof {A} (p : parser A) s a :
  parse_all p s = Done a -> exists i, p (new_input s) = Ok a i /\ rest i = [].
Proof.
  unfold parse_all, bind. destruct (p (new_input s)) as [x i|? ?|? ?|?]; try discriminate.
  unfold eof. destruct (rest i) eqn:R; [|discriminate]. cbn [ret]. intro H; inversion H; subst. eauto.
Qed.

Lemma document_mono : mono document.
Proof.
  rewrite document_eq. apply monoC_bind; [np|]. intros _. apply monoC_bind; [apply parse_ws_mono|]. intro st.
  apply monoC_bind; [apply doc_loop_p_mono|]. intro st'. np.
Qed.

Lemma end_pos {A} (p : parser A) s a i : mono p -> p (new_input s) = Ok a i -> rest i = [] -> pos i = N.of_nat (length s).
Proof.
  intros M E R. apply M, ext_pos in E. rewrite R in E. cbn [new_input pos rest length] in E. lia.
Qed.

Definition doc_in (hi : N) (d : doc) : bool := tbl_in 0 hi (doc_root d) && raw_in 0 hi (doc_trailing d).

Lemma parse_document_in s d : parse_document s = POk d -> doc_in (N.of_nat (length s)) d = true.
Proof.
  unfold parse_document. destruct (parse_all document s) as [fin| |] eqn:E; try discriminate.
  apply parse_all_done_eof in E as (i & E & R). pose proof (end_pos _ _ _ _ document_mono E R) as Pe.
  apply document_in in E. rewrite Pe in E.
  destruct (finalize_table fin) as [st'| |] eqn:F; try discriminate. intro H; inversion H; subst d. clear H.
  destruct (finalize_in _ _ _ E F) as (Hr & Htr & _ & _). unfold doc_in; cbn [doc_root doc_trailing]. rewrite Hr. cbn [andb].
  rewrite Htr. destruct E as (a & b & _ & _ & _ & _ & _ & Ht & _).
  destruct (st_trailing fin) as [sp|]; [apply raw_with_span_in, Ht|reflexivity].
Qed.

(* ---- from the boolean predicate to the list of all spans ---------------------------------------------------------- *)
Lemma forallb_flat_map {A B} (f : B -> bool) (g : A -> list B) l :
  forallb f (flat_map g l) = forallb (fun x => forallb f (g x)) l.
Proof. induction l as [|a l IH]; [reflexivity|]. cbn [flat_map forallb]. rewrite forallb_app, IH. reflexivity. Qed.

Section Collect.
  Variables lo hi : N.
  Let ok := forallb (sp_in lo hi).
  Lemma ospan_spans_ok o : osp_in lo hi o = true -> ok (ospan_spans o) = true.
  Proof. destruct o; cbn; [intro H; rewrite H; reflexivity|auto]. Qed.
  Lemma oraw_spans_ok o : oraw_in lo hi o = true -> ok (oraw_spans o) = true.
  Proof. destruct o as [r|]; [apply ospan_spans_ok|reflexivity]. Qed.
  Lemma decor_spans_ok d : decor_in lo hi d = true -> ok (decor_spans d) = true.
  Proof.
    unfold decor_in, decor_spans, ok. intro H. apply andb_true_iff in H as [H1 H2].
    rewrite forallb_app. fold ok. rewrite (oraw_spans_ok _ H1), (oraw_spans_ok _ H2). reflexivity.
  Qed.
  Lemma key_spans_ok k : key_in lo hi k = true -> ok (key_spans k) = true.
  Proof.
    unfold key_in, key_spans, ok. intro H. apply andb3 in H as (H1 & H2 & H3).
    rewrite !forallb_app. fold ok. rewrite (oraw_spans_ok _ H1), (decor_spans_ok _ H2), (decor_spans_ok _ H3). reflexivity.
  Qed.

  Lemma kvs_spans_ok (l : list (key * item)) :
    Forall (fun kv => item_in lo hi (snd kv) = true -> ok (item_spans (snd kv)) = true) l ->
    forallb (fun kv => key_in lo hi (fst kv) && item_in lo hi (snd kv)) l = true ->
    ok (flat_map (fun kv => key_spans (fst kv) ++ item_spans (snd kv)) l) = true.
  Proof.
    intros IH H. unfold ok. rewrite forallb_flat_map. revert H. apply forallb_Forall_imp.
    eapply Forall_impl; [|exact IH]. intros kv Hkv E. apply andb_true_iff in E as [E1 E2].
    rewrite forallb_app. fold ok. rewrite (key_spans_ok _ E1), (Hkv E2). reflexivity.
  Qed.

  Lemma tree_spans_ok :
    (forall v, value_in lo hi v = true -> ok (value_spans v) = true)
    /\ (forall it, item_in lo hi it = true -> ok (item_spans it) = true)
    /\ (forall t, tbl_in lo hi t = true -> ok (tbl_spans t) = true).
  Proof.
    apply tree_ind3.
    - intros s r d H. rewrite value_in_scalar in H. apply andb_true_iff in H as [H1 H2]. cbn [value_spans].
      unfold ok. rewrite forallb_app. fold ok. rewrite (oraw_spans_ok _ H1), (decor_spans_ok _ H2). reflexivity.
    - intros vals tr c d sp IH H. rewrite value_in_array in H. apply andb4 in H as (H1 & H2 & H3 & H4). cbn [value_spans].
      unfold ok. rewrite !forallb_app. fold ok. rewrite (ospan_spans_ok _ H4), (decor_spans_ok _ H3).
      unfold raw_spans. rewrite (ospan_spans_ok _ H2), andb_true_r. cbn [andb].
      unfold ok. rewrite forallb_flat_map. revert H1. apply forallb_Forall_imp. exact IH.
    - intros items pre im dt d sp IH H. rewrite inline_in_items in H. apply andb4 in H as (H1 & H2 & H3 & H4). cbn [value_spans].
      unfold ok. rewrite !forallb_app. fold ok. rewrite (ospan_spans_ok _ H4), (decor_spans_ok _ H3).
      unfold raw_spans. rewrite (ospan_spans_ok _ H2), andb_true_r. cbn [andb]. apply kvs_spans_ok; assumption.
    - reflexivity.
    - intros v IH H. exact (IH H).
    - intros t IH H. exact (IH H).
    - intros ts sp IH H. rewrite item_in_aot in H. apply andb_true_iff in H as [H1 H2]. cbn [item_spans].
      unfold ok. rewrite forallb_app. fold ok. rewrite (ospan_spans_ok _ H2). cbn [andb].
      unfold ok. rewrite forallb_flat_map. revert H1. apply forallb_Forall_imp. exact IH.
    - intros items d im dt p sp IH H. rewrite tbl_in_items in H. cbn [t_items t_decor t_span] in H.
      apply andb3 in H as (H1 & H2 & H3). cbn [tbl_spans].
      unfold ok. rewrite !forallb_app. fold ok. rewrite (ospan_spans_ok _ H3), (decor_spans_ok _ H2). cbn [andb].
      apply kvs_spans_ok; assumption.
  Qed.
End Collect.

Lemma doc_in_all_spans hi d : doc_in hi d = true -> forallb (sp_in 0 hi) (all_spans d) = true.
Proof.
  unfold doc_in, all_spans. intro H. apply andb_true_iff in H as [H1 H2]. rewrite forallb_app.
  rewrite (proj2 (proj2 (tree_spans_ok 0 hi)) _ H1). unfold raw_spans. rewrite (ospan_spans_ok 0 hi _ H2). reflexivity.
Qed.

(* C14, range: every span stored anywhere in a parsed document is a pair (a, b), a <= b <= length source *)
Theorem spans_in_range s d :
  parse_document s = POk d ->
  Forall (fun sp => (fst sp <= snd sp)%N /\ (snd sp <= N.of_nat (length s))%N) (all_spans d).
Proof.
  intro H. apply parse_document_in, doc_in_all_spans in H. apply forallb_Forall in H.
  eapply Forall_impl; [|exact H]. intros sp X. unfold sp_in in X. lia.
Qed.
