(* Proofs/DefsEquivMain.v — C09: key/value step, statement step, whole runs; the lemmas that
   Props/C09.v exports. *)
From TV Require Import Base.Prelude Base.Winnow Model.Tree Model.Parse Model.Document Spec.Defs.
From TV Require Import Proofs.DefsEquivBase Proofs.DefsEquivSpec Proofs.DefsEquivKv Proofs.DefsEquivWalk
                       Proofs.DefsEquivSim.

(* ---- key = value ----------------------------------------------------------------------------- *)
Definition kv_cur (st : pstate) (v : item) : tbl :=
  match t_span (st_current st), item_span v with
  | Some e, Some vs => t_set_span (st_current st) (Some (fst e, snd vs))
  | _, _ => st_current st
  end.

Lemma on_keyval_eq st path k v :
  exists k', k_key k' = k_key k /\
  on_keyval st path k v =
  match with_table_at (kv_cur st v) path true (kvf k' v (match path with [] => true | _ => false end)) with
  | COk (cur', _) => COk (mkState (st_root st) None (st_position st) cur' (st_is_array st) (st_path st))
  | CErr c => CErr c
  | CPanic s => CPanic s
  end.
Proof. unfold on_keyval. eexists. split; [|reflexivity]. reflexivity. Qed.

Lemma kv_cur_facts st v :
  abs_tbl (kv_cur st v) = abs_tbl (st_current st) /\ mok_tbl (kv_cur st v) = mok_tbl (st_current st) /\
  t_implicit (kv_cur st v) = t_implicit (st_current st) /\ t_dotted (kv_cur st v) = t_dotted (st_current st).
Proof.
  unfold kv_cur. destruct (t_span (st_current st)); [|auto]. destruct (item_span v); [|auto].
  rewrite abs_set_span, mok_set_span, implicit_set_span, dotted_set_span. auto.
Qed.

Lemma at_cur_spec arr k0 pre0 (Rt C T : stree value) (G : stree value -> res (stree value)) :
  at_path_x pre0 (plug arr k0 C) Rt = ROk (T, tt) ->
  match G C with
  | ROk C' => exists T', at_path_x pre0 (plug arr k0 C') Rt = ROk (T', tt) /\ at_path (pre0 ++ [k0]) G T = ROk T'
  | RInvalid => at_path (pre0 ++ [k0]) G T = RInvalid
  | RUndecided => at_path (pre0 ++ [k0]) G T = RUndecided
  end.
Proof.
  intro H. rewrite at_path_lift, (plug_then_walk arr k0 (lift G) C pre0 Rt T H). unfold lift.
  destruct (G C) as [C'| |]; cbn [rbind fst snd]; try reflexivity.
  destruct (plug_any arr k0 C C' pre0 Rt T H) as [T' HT']. exists T'. split; [exact HT'|].
  rewrite HT'. reflexivity.
Qed.

Lemma keyval_sim st T cp pre k v :
  Inv st (T, cp) ->
  match at_path cp (insert_kv false (keys pre ++ [k_key k]) v) T with
  | ROk T' => exists st', on_keyval st pre k (IValue v) = COk st' /\ Inv st' (T', cp)
  | RInvalid => exists c, on_keyval st pre k (IValue v) = CErr c
  | RUndecided => True
  end.
Proof.
  intros (Hcp & Hmr & Hmc & Hci & Hcd & HsT & HsC & Hplug).
  destruct (on_keyval_eq st pre k (IValue v)) as (k' & Hk & Heq). rewrite Heq. clear Heq.
  destruct (kv_cur_facts st (IValue v)) as (Fa & Fm & Fi & Fd).
  set (cur0 := kv_cur st (IValue v)) in *.
  set (G := insert_kv false (keys pre ++ [k_key k]) v).
  assert (Hsim : simres cur0 (with_table_at cur0 pre true (kvf k' (IValue v) (match pre with [] => true | _ => false end)))
                        (G (abs_tbl cur0))).
  { unfold G. rewrite <- Hk. destruct pre as [|pk ptl].
    - cbn [with_table_at keys map app]. apply kvf_leaf; [rewrite Fm; exact Hmc | rewrite Fd; exact Hcd].
    - apply wta_kv; [rewrite Fm; exact Hmc | rewrite Fa; exact HsC | discriminate]. }
  rewrite Fa in Hsim.
  assert (Hswf : forall T', at_path cp G T = ROk T' -> swf_tree T' = true).
  { intros T' HT'. eapply at_path_swf; [exact HsT | | exact HT']. intros t t'. apply insert_kv_swf. }
  destruct (pop_key (st_path st)) as [[pre0 k0]|] eqn:Ep.
  - (* inside a [header] / [[header]] section *)
    apply pop_key_some in Ep. rewrite Ep, keys_app in Hcp. cbn [keys map] in Hcp. fold (keys pre0) in Hcp.
    pose proof (at_cur_spec _ _ _ _ _ _ G Hplug) as Hspec. rewrite <- Hcp in Hspec.
    destruct (G (abs_tbl (st_current st))) as [C'| |] eqn:EG; cbn [simres] in Hsim.
    + destruct Hspec as (T' & HT' & Hat). rewrite Hat in *.
      destruct Hsim as (cur' & Hr & Ha' & Hm' & Hi' & Hd'). rewrite Hr.
      eexists. split; [reflexivity|]. unfold Inv. cbn [st_path st_root st_current st_is_array].
      rewrite Ep, pop_key_app, Ha'.
      split; [rewrite Hcp, keys_app; reflexivity|]. split; [exact Hmr|]. split; [exact Hm'|].
      split; [rewrite Hi', Fi; exact Hci|]. split; [rewrite Hd', Fd; exact Hcd|].
      split; [apply Hswf; reflexivity|]. split; [|exact HT'].
      eapply insert_kv_swf; [exact HsC | exact EG].
    + rewrite Hspec. destruct Hsim as [c Hc]. rewrite Hc. eexists; reflexivity.
    + rewrite Hspec. exact I.
  - (* the root section *)
    destruct Hplug as [Hroot HT]. pose proof (pop_key_none _ Ep) as Hp0.
    rewrite Hp0 in Hcp. cbn [keys map] in Hcp. subst cp. cbn [at_path] in *. subst T.
    destruct (G (abs_tbl (st_current st))) as [C'| |] eqn:EG; cbn [simres] in Hsim.
    + destruct Hsim as (cur' & Hr & Ha' & Hm' & Hi' & Hd'). rewrite Hr.
      eexists. split; [reflexivity|]. unfold Inv. cbn [st_path st_root st_current st_is_array].
      rewrite Ep, Ha'.
      split; [rewrite Hp0; reflexivity|]. split; [exact Hmr|]. split; [exact Hm'|].
      split; [rewrite Hi', Fi; exact Hci|]. split; [rewrite Hd', Fd; exact Hcd|].
      split; [apply Hswf; reflexivity|]. split; [apply Hswf; reflexivity|]. auto.
    + destruct Hsim as [c Hc]. rewrite Hc. eexists; reflexivity.
    + exact I.
Qed.

(* ---- [header] / [[header]] -------------------------------------------------------------------- *)
Lemma on_header_eq arr st pre k tr sp :
  on_header arr st (pre ++ [k]) tr sp =
  match finalize_table st with
  | COk st1 =>
    let '(st2, leading) := take_trailing st1 in
    let dec := decor_new leading (raw_with_span tr) in
    if arr then start_array_table st2 (pre ++ [k]) dec sp else start_table st2 (pre ++ [k]) dec sp
  | e => e
  end.
Proof.
  unfold on_header. destruct (pre ++ [k]) eqn:E; [destruct pre; discriminate | reflexivity].
Qed.

Definition simstep (r : cres pstate) (s : res (sstate value)) : Prop :=
  match s with
  | ROk S' => exists st', r = COk st' /\ Inv st' S'
  | RInvalid => exists c, r = CErr c
  | RUndecided => True
  end.

Lemma mstep_sim st S m : Inv st S -> simstep (mstep st m) (spec_step false S (erase m)).
Proof.
  destruct S as [T cp]. intro HI. destruct m as [arr pre k tr sp | pre k v].
  - (* headers *)
    destruct (finalize_sim st T cp HI) as (root' & Hf & Ha & Hm).
    pose proof HI as (_ & _ & _ & _ & _ & HsT & _).
    cbn [mstep]. rewrite on_header_eq, Hf. unfold finalized. cbn [take_trailing st_root st_position st_current st_is_array st_path].
    destruct arr; cbn [erase spec_step]; rewrite unsnoc_app.
    + pose proof (start_array_table_sim
                    (mkState root' None (st_position st) tbl_new (st_is_array st) []) pre k
                    (decor_new (match st_trailing st with Some sp0 => raw_with_span sp0 | None => REmpty end) (raw_with_span tr))
                    sp T eq_refl eq_refl Hm Ha HsT) as H.
      destruct (at_path (keys pre) (def_elem (k_key k)) T) as [T'| |]; cbn [rbind simstep].
      * destruct H as (st' & Hs & HI'). exists st'. split; [exact Hs|].
        rewrite keys_app in HI'. exact HI'.
      * exact H.
      * exact I.
    + pose proof (start_table_sim
                    (mkState root' None (st_position st) tbl_new (st_is_array st) []) pre k
                    (decor_new (match st_trailing st with Some sp0 => raw_with_span sp0 | None => REmpty end) (raw_with_span tr))
                    sp T eq_refl eq_refl Hm Ha HsT) as H.
      destruct (at_path (keys pre) (def_table (k_key k)) T) as [T'| |]; cbn [rbind simstep].
      * destruct H as (st' & Hs & HI'). exists st'. split; [exact Hs|].
        rewrite keys_app in HI'. exact HI'.
      * exact H.
      * exact I.
  - cbn [mstep erase spec_step].
    pose proof (keyval_sim st T cp pre k v HI) as H.
    destruct (at_path cp (insert_kv false (keys pre ++ [k_key k]) v) T) as [T'| |]; cbn [rbind simstep]; exact H.
Qed.

Lemma mfold_sim ms : forall st S, Inv st S -> simstep (mfold st ms) (spec_fold false S (map erase ms)).
Proof.
  induction ms as [|m tl IH]; intros st S HI; cbn [mfold map spec_fold].
  - exists st. auto.
  - pose proof (mstep_sim st S m HI) as H.
    destruct (spec_step false S (erase m)) as [S'| |]; cbn [simstep rbind] in *.
    + destruct H as (st' & Hs & HI'). rewrite Hs. apply IH. exact HI'.
    + destruct H as [c Hc]. rewrite Hc. eexists; reflexivity.
    + exact I.
Qed.

(* ---- whole runs ----------------------------------------------------------------------------- *)
Theorem run_sim ms :
  match code_run (map erase ms) with
  | Valid t => exists r, run_state ms = COk r /\ abs_tbl r = t /\ mok_tbl r = true /\ swf_tree t = true
  | Invalid => exists c, run_state ms = CErr c
  | Undecided => False
  end.
Proof.
  pose proof (code_run_decides (map erase ms)) as Hd.
  unfold code_run, run, run_state in *. pose proof (mfold_sim ms state_new sstate0 Inv_init) as H.
  destruct (spec_fold false sstate0 (map erase ms)) as [[T cp]| |]; cbn [simstep] in H.
  - destruct H as (st' & Hs & HI). rewrite Hs.
    destruct (finalize_sim st' T cp HI) as (root' & Hf & Ha & Hm). rewrite Hf.
    destruct HI as (_ & _ & _ & _ & _ & HsT & _).
    exists root'. auto.
  - destruct H as [c Hc]. rewrite Hc. eexists; reflexivity.
  - apply Hd. reflexivity.
Qed.

Lemma invalid_rejected ms :
  spec_run (map erase ms) = Invalid -> exists c, run_state ms = CErr c.
Proof.
  intro H. pose proof (run_sim ms) as R. rewrite spec_run_code_run in R by (rewrite H; discriminate).
  rewrite H in R. exact R.
Qed.

Lemma valid_merged ms t :
  spec_run (map erase ms) = Valid t -> exists r, run_state ms = COk r /\ abs_tbl r = t.
Proof.
  intro H. pose proof (run_sim ms) as R. rewrite spec_run_code_run in R by (rewrite H; discriminate).
  rewrite H in R. destruct R as (r & H1 & H2 & _). exists r. auto.
Qed.

(* the tree delivered for a valid document has unique keys and no empty array of tables, and
   contains no Item::None *)
Lemma valid_wellformed ms t :
  spec_run (map erase ms) = Valid t ->
  exists r, run_state ms = COk r /\ abs_tbl r = t /\ mok_tbl r = true /\ swf_tree t = true.
Proof.
  intro H. pose proof (run_sim ms) as R. rewrite spec_run_code_run in R by (rewrite H; discriminate).
  rewrite H in R. exact R.
Qed.

Lemma no_panic ms s : run_state ms <> CPanic s.
Proof.
  pose proof (run_sim ms) as R. destruct (code_run (map erase ms)).
  - destruct R as (r & H & _). rewrite H. discriminate.
  - destruct R as [c H]. rewrite H. discriminate.
  - contradiction.
Qed.

Lemma spelling_irrelevant ms1 ms2 :
  map erase ms1 = map erase ms2 ->
  match run_state ms1, run_state ms2 with
  | COk r1, COk r2 => abs_tbl r1 = abs_tbl r2
  | CErr _, CErr _ => True
  | _, _ => False
  end.
Proof.
  intro E. pose proof (run_sim ms1) as R1. pose proof (run_sim ms2) as R2. rewrite E in R1.
  destruct (code_run (map erase ms2)).
  - destruct R1 as (r1 & H1 & A1 & _). destruct R2 as (r2 & H2 & A2 & _). rewrite H1, H2. congruence.
  - destruct R1 as [c1 H1]. destruct R2 as [c2 H2]. rewrite H1, H2. exact I.
  - contradiction.
Qed.

(* the code's verdict, for ALL sequences (U1 included), is the one of the non-strict run *)
Lemma code_verdict ms :
  match code_run (map erase ms) with
  | Valid t => exists r, run_state ms = COk r /\ abs_tbl r = t
  | Invalid => exists c, run_state ms = CErr c
  | Undecided => False
  end.
Proof.
  pose proof (run_sim ms) as R. destruct (code_run (map erase ms)); [|exact R|exact R].
  destruct R as (r & H1 & H2 & _). exists r. auto.
Qed.

(* the classifier of class U1 is the Undecided verdict of the (decidable, computable) spec *)
Lemma u1_b_spec (l : list (stmt value)) : u1_b l = true <-> spec_run l = Undecided.
Proof. unfold u1_b. destruct (spec_run l); split; intro H; try discriminate; reflexivity. Qed.

(* whitespace / comments between statements only move st_trailing, which the invariant ignores
   (for users of mstep_sim / mfold_sim that interleave on_ws, i.e. the whole-document proofs) *)
Lemma Inv_on_ws st S sp : Inv st S -> Inv (on_ws st sp) S.
Proof. destruct S as [T cp]. unfold Inv, on_ws. cbn [st_path st_root st_current st_is_array]. exact (fun H => H). Qed.
