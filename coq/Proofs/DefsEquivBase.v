(* Proofs/DefsEquivBase.v — C09: model-side statement runner, the abstraction from the
   toml_edit tree to the spec tree, and its elementary algebra. *)
From TV Require Import Base.Prelude Base.Winnow Model.Tree Model.Parse Model.Document Spec.Defs.

(* ---- model statements and their erasure ---------------------------------------------- *)
(* Paths are non-empty by construction (pre ++ [last]), as the grammar guarantees
   (`key` = separated1; fix_key_path / pop_key panic sites otherwise). *)
Inductive mstmt : Set :=
| MHeader (arr : bool) (pre : list key) (last : key) (trailing sp : N * N)
| MKeyVal (pre : list key) (k : key) (v : value).

Definition keys (p : list key) : list bytes := map k_key p.

Definition erase (m : mstmt) : stmt value :=
  match m with
  | MHeader false pre k _ _ => SHeader (keys pre ++ [k_key k])
  | MHeader true pre k _ _ => SArrHeader (keys pre ++ [k_key k])
  | MKeyVal pre k v => SKeyVal (keys pre ++ [k_key k]) v
  end.

Definition mstep (st : pstate) (m : mstmt) : cres pstate :=
  match m with
  | MHeader arr pre k tr sp => on_header arr st (pre ++ [k]) tr sp
  | MKeyVal pre k v => on_keyval st pre k (IValue v)
  end.

Fixpoint mfold (st : pstate) (ms : list mstmt) : cres pstate :=
  match ms with
  | [] => COk st
  | m :: tl => match mstep st m with COk st' => mfold st' tl | CErr c => CErr c | CPanic s => CPanic s end
  end.

(* fold the statements from ParseState::new(), then into_document's finalize_table *)
Definition run_state (ms : list mstmt) : cres tbl :=
  match mfold state_new ms with
  | COk st => match finalize_table st with
              | COk st' => COk (st_root st')
              | CErr c => CErr c
              | CPanic s => CPanic s
              end
  | CErr c => CErr c
  | CPanic s => CPanic s
  end.

(* ---- abstraction ----------------------------------------------------------------------- *)
(* flags -> kind.  (implicit=false, dotted=true) is never produced by the parser; it behaves
   like a defined table in every test of state.rs that the proofs meet. *)
Definition kind_of (t : tbl) : kind :=
  if t_implicit t then (if t_dotted t then KDotted else KSuper) else KHeader.

(* forget decor, spans, positions, key spellings; Item::None (never stored by the parser,
   excluded by `mok` below) is sent to an arbitrary node *)
Fixpoint abs_tbl (t : tbl) : stree value :=
  let 'Tbl items _ _ _ _ _ := t in
  (fix go (l : list (key * item)) : stree value :=
     match l with
     | [] => []
     | (k, it) :: tl => (k_key k, abs_item it) :: go tl
     end) items
with abs_item (it : item) : node value :=
  match it with
  | INone => NAot []
  | IValue v => NVal v
  | ITable t => NTab (kind_of t) (abs_tbl t)
  | IAot ts _ =>
    NAot ((fix go (l : list tbl) : list (stree value) :=
             match l with [] => [] | t :: tl => abs_tbl t :: go tl end) ts)
  end.

Definition abs_kv (kv : key * item) : bytes * node value := (k_key (fst kv), abs_item (snd kv)).
Definition abs_items (m : kvs) : stree value := map abs_kv m.

Lemma abs_tbl_eq t : abs_tbl t = abs_items (t_items t).
Proof.
  destruct t as [items d im dt p s]. cbn [abs_tbl t_items]. unfold abs_items.
  induction items as [|[k it] tl IH]; [reflexivity|]. cbn [map abs_kv fst snd]. f_equal. exact IH.
Qed.

Lemma abs_item_aot ts sp : abs_item (IAot ts sp) = NAot (map abs_tbl ts).
Proof.
  reflexivity.
Qed.

(* ---- what the parser never stores: Item::None, dotted array elements -------------------- *)
Fixpoint mok_tbl (t : tbl) : bool :=
  let 'Tbl items _ _ _ _ _ := t in
  (fix go (l : list (key * item)) : bool :=
     match l with [] => true | (_, it) :: tl => mok_item it && go tl end) items
with mok_item (it : item) : bool :=
  match it with
  | INone => false
  | IValue _ => true
  | ITable t => mok_tbl t
  | IAot ts _ =>
    (fix go (l : list tbl) : bool :=
       match l with [] => true | t :: tl => negb (t_dotted t) && mok_tbl t && go tl end) ts
  end.

Definition mok_items (m : kvs) : bool := forallb (fun kv => mok_item (snd kv)) m.
Definition mok_elem (t : tbl) : bool := negb (t_dotted t) && mok_tbl t.

Lemma mok_tbl_eq t : mok_tbl t = mok_items (t_items t).
Proof.
  destruct t as [items d im dt p s]. cbn [mok_tbl t_items]. unfold mok_items.
  induction items as [|[k it] tl IH]; [reflexivity|]. cbn [forallb snd]. f_equal. exact IH.
Qed.

Lemma mok_item_aot ts sp : mok_item (IAot ts sp) = forallb mok_elem ts.
Proof.
  cbn [mok_item]. induction ts as [|t tl IH]; [reflexivity|]. cbn [forallb]. rewrite <- IH. reflexivity.
Qed.

(* ---- builders for Examples and tests: one-letter keys, no decoration ------------------------ *)
Definition tkey (b : byte) : key := mkKey [b] None decor_default decor_default.
Definition tval (i : Z) : value := VScalar (SInt i) None decor_default.
Definition m_hdr (arr : bool) (p : list byte) : mstmt :=
  match pop_key (map tkey p) with
  | Some (pre, k) => MHeader arr pre k (0, 0)%N (0, 0)%N
  | None => MHeader arr [] (tkey x00) (0, 0)%N (0, 0)%N
  end.
Definition m_kv (p : list byte) (v : value) : mstmt :=
  match pop_key (map tkey p) with
  | Some (pre, k) => MKeyVal pre k v
  | None => MKeyVal [] (tkey x00) v
  end.
