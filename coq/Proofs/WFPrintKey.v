(* Proofs/WFPrintKey.v — WF backbone: trivia slots and key paths.
   `encode_key_path ks dflt` of well-formed keys is  <leaf prefix> K <leaf suffix>  with K a `key` of the grammar
   denoting the keys' texts; the leaf decor is legal trivia for its slot. *)
From TV Require Import Base.Prelude Base.Utf8 Base.Winnow Gen.Consts Spec.Abnf Spec.Lex Spec.DatetimeSpec Spec.Syntax Spec.WF.
From TV Require Import Model.Datetime Model.Numbers Model.Tree Model.Parse Model.Write Model.Encode.
From TV Require Import Proofs.WFTok.
Require Import Lia.

(* ---- trivia ------------------------------------------------------------------------------------------------------ *)
Lemma ws_nil : ws_tok []. Proof. reflexivity. Qed.
Lemma ws_sp : ws_tok [x20]. Proof. reflexivity. Qed.
Lemma ws_app a b : ws_tok a -> ws_tok b -> ws_tok (a ++ b).
Proof. unfold ws_tok, all. intros H1 H2. rewrite forallb_app, H1, H2. reflexivity. Qed.

Lemma ws_wscn w : ws_tok w -> wscn_tok w.
Proof.
  unfold ws_tok, all. induction w as [|b w IH]; [constructor|]. cbn [forallb]. intro H. apply andb_true_iff in H as [H1 H2].
  apply wscn_ws; auto.
Qed.
Lemma ws_line_trail w : ws_tok w -> line_trail_tok w.
Proof. intro H. exists w, []. split; [rewrite app_nil_r; reflexivity|]. split; [exact H|left; reflexivity]. Qed.
Lemma ws_slot sl w : ws_tok w -> slot_ok sl w.
Proof.
  intro H. destruct sl; cbn [slot_ok]; [exact H|apply ws_line_trail, H|apply ln_last, H|apply ws_wscn, H|apply dt_last, ws_line_trail, H].
Qed.

Lemma lines_app a b : lines_tok a -> lines_tok b -> lines_tok (a ++ b).
Proof.
  intros Ha Hb. induction Ha as [w Hw|w c t Hw Hc Ht IH].
  - destruct Hb as [w' Hw'|w' c' t' Hw' Hc' Ht'].
    + apply ln_last, ws_app; assumption.
    + rewrite app_assoc. apply ln_more; [apply ws_app; assumption|exact Hc'|exact Ht'].
  - rewrite <- !app_assoc. apply ln_more; [exact Hw|exact Hc|]. exact IH.
Qed.
Lemma lines_ws a w : lines_tok a -> ws_tok w -> lines_tok (a ++ w).
Proof. intros Ha Hw. apply lines_app; [exact Ha|apply ln_last, Hw]. Qed.

(* what a decor prints: the stored text (CR stripped), or the default *)
Lemma raw_encode_plain r dflt : match r with RSpanned _ _ => False | _ => True end -> raw_encode r dflt = raw_encode r [].
Proof. destruct r; [reflexivity|reflexivity|contradiction]. Qed.
Lemma raw_ok_plain sl r : raw_ok sl r -> match r with RSpanned _ _ => False | _ => True end.
Proof. destruct r; cbn; auto. Qed.
Lemma raw_ok_enc sl r dflt : raw_ok sl r -> slot_ok sl (raw_encode r dflt).
Proof. intro H. rewrite (raw_encode_plain r dflt (raw_ok_plain _ _ H)). destruct r; [exact H|exact H|contradiction]. Qed.
Lemma decor_prefix_ok sl d dflt : oraw_ok sl (d_prefix d) -> slot_ok sl dflt -> slot_ok sl (decor_prefix d dflt).
Proof. unfold decor_prefix. destruct (d_prefix d) as [r|]; cbn [oraw_ok]; [intros H _; apply raw_ok_enc, H|auto]. Qed.
Lemma decor_suffix_ok sl d dflt : oraw_ok sl (d_suffix d) -> slot_ok sl dflt -> slot_ok sl (decor_suffix d dflt).
Proof. unfold decor_suffix. destruct (d_suffix d) as [r|]; cbn [oraw_ok]; [intros H _; apply raw_ok_enc, H|auto]. Qed.

(* ---- key paths ------------------------------------------------------------------------------------------------------ *)
(* what every key of a path needs: a repr that spells it, blanks as dotted decor *)
Definition key_mid (k : key) : Prop := key_repr_ok k /\ decor_ok SWs SWs (k_dotted k).
Lemma key_wf_mid line k : key_wf line k -> key_mid k.
Proof. intros (H1 & H2 & _). split; assumption. Qed.

Definition ktexts (ks : list key) : list bytes := map k_key ks.

Lemma ekp_tail leaf dflt : forall ks k,
  key_mid k -> Forall key_mid ks ->
  exists K, key_display_repr k
            ++ (match ks with [] => decor_suffix leaf (snd dflt) | _ => decor_suffix (k_dotted k) (snd DEFAULT_KEY_PATH_DECOR) end)
            ++ encode_key_path_loop leaf dflt false ks
            = K ++ decor_suffix leaf (snd dflt)
            /\ key_tok K (k_key k :: ktexts ks).
Proof.
  induction ks as [|k2 tl IH]; intros k Hk Hks.
  - exists (key_display_repr k). cbn [encode_key_path_loop ktexts map]. rewrite app_nil_r. split; [reflexivity|].
    apply key_one, key_text_tok, Hk.
  - inversion Hks as [|? ? Hk2 Htl]; subst. destruct (IH k2 Hk2 Htl) as (K2 & E2 & T2).
    cbn [encode_key_path_loop].
    assert (Elast : (match tl with [] => true | _ :: _ => false end) = match tl with [] => true | _ => false end) by reflexivity.
    exists (key_display_repr k ++ decor_suffix (k_dotted k) (snd DEFAULT_KEY_PATH_DECOR)
            ++ [x2e] ++ decor_prefix (k_dotted k2) (fst DEFAULT_KEY_PATH_DECOR) ++ K2).
    split.
    + rewrite <- !app_assoc. do 4 f_equal. rewrite <- E2. destruct tl; reflexivity.
    + cbn [ktexts map]. apply key_dot; [apply key_text_tok, Hk| | |exact T2].
      * destruct Hk as [_ [_ Hs]]. apply (decor_suffix_ok SWs); [exact Hs|reflexivity].
      * destruct Hk2 as [_ [Hp _]]. apply (decor_prefix_ok SWs); [exact Hp|reflexivity].
Qed.

Lemma last_rev {A} (l : list A) x tl : rev l = x :: tl -> l = rev tl ++ [x].
Proof. intro H. apply (f_equal (@rev A)) in H. rewrite rev_involutive in H. exact H. Qed.

(* encode_key_path: <leaf prefix> K <leaf suffix>, the leaf decor being that of the last key *)
Lemma encode_key_path_shape ks dflt : ks <> [] -> Forall key_mid ks ->
  exists last K, In last ks /\ rev ks <> [] /\ hd_error (rev ks) = Some last
    /\ encode_key_path ks dflt = decor_prefix (k_leaf last) (fst dflt) ++ K ++ decor_suffix (k_leaf last) (snd dflt)
    /\ key_tok K (ktexts ks).
Proof.
  intros Hne Hks. unfold encode_key_path. destruct (rev ks) as [|last rtl] eqn:R.
  { apply (f_equal (@length key)) in R. rewrite rev_length in R. destruct ks; [congruence|discriminate]. }
  destruct ks as [|k tl]; [congruence|]. inversion Hks as [|? ? Hk Htl]; subst.
  destruct (ekp_tail (k_leaf last) dflt tl k Hk Htl) as (K & E & T).
  exists last, K. split; [|split; [discriminate|split; [reflexivity|split; [|exact T]]]].
  - apply in_rev. rewrite R. left. reflexivity.
  - cbn [encode_key_path_loop]. f_equal. rewrite <- E. destruct tl; reflexivity.
Qed.

(* the same for the path inside a [header]: the leaf prefix is written inside the brackets only if blank *)
Lemma encode_header_key_path_shape ks dflt : ks <> [] -> Forall key_mid ks ->
  exists last K, hd_error (rev ks) = Some last
    /\ encode_header_key_path ks dflt
       = (if raw_blank (d_prefix (k_leaf last)) then decor_prefix (k_leaf last) (fst dflt) else fst dflt)
         ++ K ++ decor_suffix (k_leaf last) (snd dflt)
    /\ key_tok K (ktexts ks).
Proof.
  intros Hne Hks. unfold encode_header_key_path. destruct (rev ks) as [|last rtl] eqn:R.
  { apply (f_equal (@length key)) in R. rewrite rev_length in R. destruct ks; [congruence|discriminate]. }
  destruct ks as [|k tl]; [congruence|]. inversion Hks as [|? ? Hk Htl]; subst.
  cbv zeta.
  set (leaf' := if raw_blank (d_prefix (k_leaf last)) then k_leaf last else mkDecor None (d_suffix (k_leaf last))).
  destruct (ekp_tail leaf' dflt tl k Hk Htl) as (K & E & T).
  exists last, K. split; [reflexivity|split; [|exact T]].
  cbn [encode_key_path_loop].
  assert (Es : decor_suffix leaf' (snd dflt) = decor_suffix (k_leaf last) (snd dflt)).
  { subst leaf'. destruct (raw_blank _); reflexivity. }
  assert (Ep : decor_prefix leaf' (fst dflt) = if raw_blank (d_prefix (k_leaf last)) then decor_prefix (k_leaf last) (fst dflt) else fst dflt).
  { subst leaf'. destruct (raw_blank _); reflexivity. }
  rewrite Ep, <- Es. f_equal. rewrite <- E. destruct tl; reflexivity.
Qed.

(* a blank raw string prints as blanks *)
Lemma strip_cr_ws s : forallb (fun b => byte_eqb b x20 || byte_eqb b x09) s = true -> ws_tok (strip_cr s).
Proof.
  unfold ws_tok, all, strip_cr. induction s as [|b s IH]; [reflexivity|]. cbn [forallb filter]. intro H.
  apply andb_true_iff in H as [H1 H2]. destruct (negb (byte_eqb b x0d)); [|exact (IH H2)]. cbn [forallb]. rewrite (IH H2), andb_true_r.
  apply orb_true_iff in H1 as [H1|H1]; apply byte_eqb_eq in H1; subst; reflexivity.
Qed.
Lemma blank_prefix_ws d dflt : raw_blank (d_prefix d) = true -> ws_tok dflt ->
  match d_prefix d with Some (RSpanned _ _) => False | _ => True end -> ws_tok (decor_prefix d dflt).
Proof.
  unfold decor_prefix, raw_blank. destruct (d_prefix d) as [[|s|a b]|]; intros H Hd Hp.
  - reflexivity.
  - unfold raw_encode. apply strip_cr_ws, H.
  - contradiction.
  - exact Hd.
Qed.
