(* Proofs/PrintBackBase.v — C03: printing an unedited parsed document.
   `print_doc s d` is what `DocumentMut::to_string()` does after `ImDocument::into_mut` (despan,
   then Display): Model/Encode.v.  Despanning fails only if a stored span is out of range or off a
   char boundary (C14); whenever it succeeds the text it substitutes is the slice of the source, so
   printing is `render s d`: the same with the total substitution `tdespan`. *)
From TV Require Import Base.Prelude Base.Utf8 Base.Winnow Gen.Consts.
From TV Require Import Model.Datetime Model.Numbers Model.Tree Model.Parse Model.Document Model.Write Model.Encode.

Definition print_doc (s : bytes) (d : doc) : option bytes :=
  match tbl_despan s (doc_root d), raw_despan s (doc_trailing d) with
  | Some r, Some t => Some (display_document r t)
  | _, _ => None
  end.

(* ---- total despan ----------------------------------------------------------------------------------- *)
Section TDespan.
  Variable src : bytes.
  Definition traw (r : raw) : raw :=
    match r with RSpanned a b => raw_of_bytes (slice src a b) | _ => r end.
  Definition toraw (o : option raw) : option raw := match o with Some r => Some (traw r) | None => None end.
  Definition tdecor (d : decor) : decor := mkDecor (toraw (d_prefix d)) (toraw (d_suffix d)).
  Definition tkey (k : key) : key := mkKey (k_key k) (toraw (k_repr k)) (tdecor (k_leaf k)) (tdecor (k_dotted k)).

  Fixpoint tvalue (v : value) : value :=
    match v with
    | VScalar s r d => VScalar s (toraw r) (tdecor d)
    | VArray vals tr c d _ =>
      VArray ((fix go (l : list item) : list item := match l with [] => [] | it :: tl => titem it :: go tl end) vals)
             (traw tr) c (tdecor d) None
    | VInline items pre im dt d _ =>
      VInline ((fix go (l : list (key * item)) : list (key * item) :=
                  match l with [] => [] | (k, it) :: tl => (tkey k, titem it) :: go tl end) items)
              (traw pre) im dt (tdecor d) None
    end
  with titem (it : item) : item :=
    match it with
    | INone => INone
    | IValue v => IValue (tvalue v)
    | ITable t => ITable (ttbl t)
    | IAot ts _ => IAot ((fix go (l : list tbl) : list tbl := match l with [] => [] | t :: tl => ttbl t :: go tl end) ts) None
    end
  with ttbl (t : tbl) : tbl :=
    match t with
    | Tbl items d im dt p _ =>
      Tbl ((fix go (l : list (key * item)) : list (key * item) :=
              match l with [] => [] | (k, it) :: tl => (tkey k, titem it) :: go tl end) items)
          (tdecor d) im dt p None
    end.
End TDespan.

Definition render (s : bytes) (d : doc) : bytes := display_document (ttbl s (doc_root d)) (traw s (doc_trailing d)).

(* ---- print_doc is render whenever despanning succeeds ------------------------------------------------ *)
Lemma raw_despan_traw s r r' : raw_despan s r = Some r' -> r' = traw s r.
Proof.
  destruct r as [|t|a b]; cbn [raw_despan traw]; try (intro H; injection H as <-; reflexivity).
  unfold str_get. destruct (_ && _ && _ && _)%bool; [|discriminate]. intro H. injection H as <-. reflexivity.
Qed.
