(* Proofs/DefsEquivKv.v — C09: spec-side facts about key/value insertion and about the two
   U1 policies (strict = Undecided, non-strict = what the pinned code does). *)
From TV Require Import Base.Prelude Spec.Defs Proofs.DefsEquivSpec.

Section KvAlg.
Context {V : Type}.
Notation stree := (stree V).
Notation node := (node V).

Lemma insert_kv_leaf s k (v : V) t :
  insert_kv s [k] v t = match sget t k with None => ROk (spush t k (NVal v)) | Some _ => RInvalid end.
Proof. reflexivity. Qed.

Lemma insert_kv_step s k k2 p'' (v : V) t :
  insert_kv s (k :: k2 :: p'') v t =
  match sget t k with
  | None => c <~ insert_kv s (k2 :: p'') v [] ;; ROk (spush t k (NTab KDotted c))
  | Some (NTab KDotted c) => c' <~ insert_kv s (k2 :: p'') v c ;; ROk (sset t k (NTab KDotted c'))
  | Some (NTab KSuper c) =>
    if s then RUndecided
    else match p'' with
         | [] => RInvalid
         | _ => c' <~ insert_kv s (k2 :: p'') v c ;; ROk (sset t k (NTab KSuper c'))
         end
  | Some _ => RInvalid
  end.
Proof. reflexivity. Qed.

(* the same, for a path given as prefix ++ [last] (the model's shape) *)
Lemma insert_kv_snoc s k q l (v : V) t :
  insert_kv s (k :: q ++ [l]) v t =
  match sget t k with
  | None => c <~ insert_kv s (q ++ [l]) v [] ;; ROk (spush t k (NTab KDotted c))
  | Some (NTab KDotted c) => c' <~ insert_kv s (q ++ [l]) v c ;; ROk (sset t k (NTab KDotted c'))
  | Some (NTab KSuper c) =>
    if s then RUndecided
    else match q with
         | [] => RInvalid
         | _ => c' <~ insert_kv s (q ++ [l]) v c ;; ROk (sset t k (NTab KSuper c'))
         end
  | Some _ => RInvalid
  end.
Proof. destruct q as [|a [|b q']]; reflexivity. Qed.

Lemma insert_kv_swf s (v : V) p : forall t t',
  swf_tree t = true -> insert_kv s p v t = ROk t' -> swf_tree t' = true.
Proof.
  induction p as [|k p' IH]; intros t t' Ht H; [discriminate|].
  destruct p' as [|k2 p''].
  - rewrite insert_kv_leaf in H. destruct (sget t k) eqn:E; [discriminate|]. inversion H; subst.
    apply swf_spush; [exact Ht | reflexivity | exact E].
  - rewrite insert_kv_step in H. destruct (sget t k) as [[v0|[| |] c|es]|] eqn:E; try discriminate.
    + destruct s; [discriminate|]. destruct p''; [discriminate|].
      destruct (insert_kv false _ v c) as [c'| |] eqn:E1; cbn [rbind] in H; inversion H; subst.
      pose proof (swf_sget _ _ _ Ht E) as Hc. rewrite swf_node_tab in Hc.
      apply swf_sset; [exact Ht | rewrite swf_node_tab; eapply IH; eassumption].
    + destruct (insert_kv s _ v c) as [c'| |] eqn:E1; cbn [rbind] in H; inversion H; subst.
      pose proof (swf_sget _ _ _ Ht E) as Hc. rewrite swf_node_tab in Hc.
      apply swf_sset; [exact Ht | rewrite swf_node_tab; eapply IH; eassumption].
    + destruct (insert_kv s _ v []) as [c'| |] eqn:E1; cbn [rbind] in H; inversion H; subst.
      apply swf_spush; [exact Ht | rewrite swf_node_tab; eapply IH; [apply swf_nil | eassumption] | exact E].
Qed.

(* ---- the two policies ------------------------------------------------------------------- *)
Lemma insert_kv_code_decides (v : V) p : forall t, insert_kv false p v t <> RUndecided.
Proof.
  induction p as [|k p' IH]; intros t; [discriminate|].
  destruct p' as [|k2 p''].
  - rewrite insert_kv_leaf. destruct (sget t k); discriminate.
  - rewrite insert_kv_step. destruct (sget t k) as [[v0|[| |] c|es]|]; try discriminate.
    + destruct p''; [discriminate|]. specialize (IH c).
      destruct (insert_kv false _ v c); cbn [rbind]; [discriminate | discriminate | exact IH].
    + specialize (IH c). destruct (insert_kv false _ v c); cbn [rbind]; [discriminate | discriminate | exact IH].
    + specialize (IH []). destruct (insert_kv false _ v []); cbn [rbind]; [discriminate | discriminate | exact IH].
Qed.

Lemma insert_kv_strict_code (v : V) p : forall t,
  insert_kv true p v t <> RUndecided -> insert_kv false p v t = insert_kv true p v t.
Proof.
  induction p as [|k p' IH]; intros t H; [reflexivity|].
  destruct p' as [|k2 p''].
  - reflexivity.
  - rewrite !insert_kv_step in *. destruct (sget t k) as [[v0|[| |] c|es]|]; try reflexivity.
    + exfalso. apply H. reflexivity.
    + rewrite IH; [reflexivity|]. intro E. apply H. rewrite E. reflexivity.
    + rewrite IH; [reflexivity|]. intro E. apply H. rewrite E. reflexivity.
Qed.

Lemma at_path_decides p (f : stree -> res stree) :
  (forall t, f t <> RUndecided) -> forall t, at_path p f t <> RUndecided.
Proof.
  intro Hf. induction p as [|k p' IH]; intro t; cbn [at_path]; [apply Hf|].
  destruct (sget t k) as [[v0|kd c|es]|]; try discriminate.
  - specialize (IH c). destruct (at_path p' f c); cbn [rbind]; [discriminate | discriminate | exact IH].
  - destruct (rev es) as [|e b]; [discriminate|].
    specialize (IH e). destruct (at_path p' f e); cbn [rbind]; [discriminate | discriminate | exact IH].
  - specialize (IH []). destruct (at_path p' f []); cbn [rbind]; [discriminate | discriminate | exact IH].
Qed.

Lemma at_path_agree p (f f' : stree -> res stree) :
  (forall t, f t <> RUndecided -> f' t = f t) ->
  forall t, at_path p f t <> RUndecided -> at_path p f' t = at_path p f t.
Proof.
  intro Hf. induction p as [|k p' IH]; intros t H; cbn [at_path] in *; [apply Hf; exact H|].
  destruct (sget t k) as [[v0|kd c|es]|]; try reflexivity.
  - rewrite IH; [reflexivity|]. intro E. apply H. rewrite E. reflexivity.
  - destruct (rev es) as [|e b]; [reflexivity|].
    rewrite IH; [reflexivity|]. intro E. apply H. rewrite E. reflexivity.
  - rewrite IH; [reflexivity|]. intro E. apply H. rewrite E. reflexivity.
Qed.

Lemma def_table_decides k (t : stree) : def_table k t <> RUndecided.
Proof. unfold def_table. destruct (sget t k) as [[v0|[| |] c|es]|]; discriminate. Qed.
Lemma def_elem_decides k (t : stree) : def_elem k t <> RUndecided.
Proof. unfold def_elem. destruct (sget t k) as [[v0|kd c|es]|]; discriminate. Qed.

Lemma spec_step_code_decides (s : sstate V) st : spec_step false s st <> RUndecided.
Proof.
  destruct s as [t cur]. destruct st as [p|p|p v]; cbn [spec_step].
  - destruct (unsnoc p) as [[pre k]|]; [|discriminate].
    pose proof (at_path_decides pre (def_table k) (def_table_decides k) t) as H.
    destruct (at_path pre (def_table k) t); cbn [rbind]; [discriminate | discriminate | exfalso; apply H; reflexivity].
  - destruct (unsnoc p) as [[pre k]|]; [|discriminate].
    pose proof (at_path_decides pre (def_elem k) (def_elem_decides k) t) as H.
    destruct (at_path pre (def_elem k) t); cbn [rbind]; [discriminate | discriminate | exfalso; apply H; reflexivity].
  - pose proof (at_path_decides cur (insert_kv false p v) (insert_kv_code_decides v p) t) as H.
    destruct (at_path cur (insert_kv false p v) t); cbn [rbind]; [discriminate | discriminate | exfalso; apply H; reflexivity].
Qed.

Lemma spec_step_strict_code (s : sstate V) st :
  spec_step true s st <> RUndecided -> spec_step false s st = spec_step true s st.
Proof.
  destruct s as [t cur]. destruct st as [p|p|p v]; cbn [spec_step]; try reflexivity.
  intro H. rewrite (at_path_agree cur (insert_kv true p v) (insert_kv false p v)); [reflexivity| |].
  - intros t0. apply insert_kv_strict_code.
  - intro E. apply H. rewrite E. reflexivity.
Qed.

Lemma spec_fold_code_decides l : forall (s : sstate V), spec_fold false s l <> RUndecided.
Proof.
  induction l as [|st tl IH]; intro s; cbn [spec_fold]; [discriminate|].
  pose proof (spec_step_code_decides s st) as H.
  destruct (spec_step false s st) as [s'| |]; cbn [rbind]; [apply IH | discriminate | exact H].
Qed.

Lemma spec_fold_strict_code l : forall (s : sstate V),
  spec_fold true s l <> RUndecided -> spec_fold false s l = spec_fold true s l.
Proof.
  induction l as [|st tl IH]; intros s H; cbn [spec_fold] in *; [reflexivity|].
  rewrite spec_step_strict_code.
  - destruct (spec_step true s st) as [s'| |]; cbn [rbind] in *; [apply IH; exact H | reflexivity | reflexivity].
  - intro E. apply H. rewrite E. reflexivity.
Qed.

Lemma code_run_decides (l : list (stmt V)) : code_run l <> Undecided.
Proof.
  unfold code_run, run. pose proof (spec_fold_code_decides l sstate0) as H.
  destruct (spec_fold false sstate0 l) as [[t c]| |]; [discriminate | discriminate | congruence].
Qed.

Lemma spec_run_code_run (l : list (stmt V)) : spec_run l <> Undecided -> code_run l = spec_run l.
Proof.
  unfold spec_run, code_run, run. intro H. rewrite spec_fold_strict_code; [reflexivity|].
  intro E. apply H. rewrite E. reflexivity.
Qed.

End KvAlg.
