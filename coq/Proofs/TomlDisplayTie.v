(* Proofs/TomlDisplayTie.v — the two models of toml's serializer agree: forgetting what the leaves hold (each leaf
   becomes the token `tok` gives it) turns the toml_edit document tree of Model/TomlDisplay.v (`tv_doc`, concrete
   leaves, Model/Tree.v trees) into the abstract document `dt` of Model/TomlValue.v (eng-c17's transcription of the
   same code: ser_value, fmt_item, fmt_root), hence its sections are those of Spec/Canonical.v (Props/C17.v). *)
From TV Require Import Base.Prelude Base.Utf8 Base.Winnow Gen.Consts.
From TV Require Import Model.Datetime Model.Numbers Model.Tree Model.Parse Model.Write Model.Encode Model.Build.
From TV Require Import Model.TomlDisplay Proofs.TomlDisplay Proofs.TomlDisplayOrder.
From TV Require Model.TomlValue.
Require Import Lia.

Module TVal := Model.TomlValue.

Section Tie.
  Variable tok : scalar -> bytes.        (* the token standing for a leaf as the serializer hands it on *)

  (* toml::Value with concrete leaves -> toml::Value with opaque leaves *)
  Fixpoint erase (v : tvc) : TVal.tv :=
    match v with
    | TvLeaf s => TVal.TLeaf (tok (ser_scalar s))
    | TvArr l => TVal.TArr (map erase l)
    | TvTab m => TVal.TTab (map (fun kv => (fst kv, erase (snd kv))) m)
    end.
  Definition erase_entries (m : list (bytes * tvc)) : list (bytes * TVal.tv) := map (fun kv => (fst kv, erase (snd kv))) m.

  (* toml_edit trees -> the abstract trees of Model/TomlValue.v (plain layout: no array is multi-line) *)
  Fixpoint iv_of_value (v : value) : TVal.iv :=
    match v with
    | VScalar s _ _ => TVal.VLeaf (tok s)
    | VArray vals _ _ _ _ => TVal.VArr false (flat_map (fun it => match it with IValue e => [iv_of_value e] | _ => [] end) vals)
    | VInline items _ _ _ _ _ =>
      TVal.VInl (flat_map (fun kv => match kv with (k, IValue e) => [(k_key k, iv_of_value e)] | _ => [] end) items)
    end.
  Fixpoint ditem_of_item (it : item) : TVal.ditem :=
    match it with
    | INone => TVal.IVal (TVal.VLeaf [])
    | IValue v => TVal.IVal (iv_of_value v)
    | ITable t => TVal.ITbl (dt_of_tbl t)
    | IAot ts _ => TVal.IAot (map dt_of_tbl ts)
    end
  with dt_of_tbl (t : tbl) : TVal.dt :=
    match t with
    | Tbl items _ im _ _ _ => TVal.DT im (map (fun kv => match kv with (k, i0) => (k_key k, ditem_of_item i0) end) items)
    end.

  (* ---- the tests of the loops ------------------------------------------------------------------------------- *)
  Lemma is_table_erase v : TVal.is_table (erase v) = tvc_is_table v. Proof. destruct v; reflexivity. Qed.
  Lemma existsb_erase l : existsb TVal.is_table (map erase l) = existsb tvc_is_table l.
  Proof. induction l as [|x l IH]; [reflexivity|]. cbn [map existsb]. rewrite is_table_erase, IH. reflexivity. Qed.
  Lemma pass1_erase v : TVal.pass1 (erase v) = c_pass1 v.
  Proof. destruct v as [s|l|m]; unfold TVal.pass1, c_pass1; cbn [erase TVal.is_table TVal.is_array TVal.arr_no_table tvc_is_table tvc_is_array]; rewrite ?existsb_erase; reflexivity. Qed.
  Lemma pass2_erase v : TVal.pass2 (erase v) = c_pass2 v.
  Proof. destruct v as [s|l|m]; unfold TVal.pass2, c_pass2, c_any_table; cbn [erase TVal.arr_any_table]; rewrite ?existsb_erase; reflexivity. Qed.
  Lemma pass3_erase v : TVal.pass3 (erase v) = c_pass3 v.
  Proof. destruct v; reflexivity. Qed.

  (* ---- 1. the serializer ---------------------------------------------------------------------------------------- *)
  Lemma ser_value_tab (m : list (bytes * TVal.tv)) :
    TVal.ser_value (TVal.TTab m)
    = TVal.EInl (TVal.pick TVal.pass1 (map (fun kv => (fst kv, snd kv, TVal.ser_value (snd kv))) m)
               ++ TVal.pick TVal.pass2 (map (fun kv => (fst kv, snd kv, TVal.ser_value (snd kv))) m)
               ++ TVal.pick TVal.pass3 (map (fun kv => (fst kv, snd kv, TVal.ser_value (snd kv))) m)).
  Proof.
    cbn [TVal.ser_value].
    assert (E : (fix go (m0 : list (bytes * TVal.tv)) : list (bytes * TVal.tv * TVal.ev) :=
                   match m0 with [] => [] | (k, x) :: r => (k, x, TVal.ser_value x) :: go r end) m
                = map (fun kv => (fst kv, snd kv, TVal.ser_value (snd kv))) m).
    { induction m as [|[k x] m IH]; [reflexivity|]. cbn [map fst snd]. rewrite IH. reflexivity. }
    rewrite E. reflexivity.
  Qed.

  Lemma pick_erase (p : TVal.tv -> bool) (q : tvc -> bool) m :
    (forall v, p (erase v) = q v) ->
    TVal.pick p (map (fun kv => (fst kv, snd kv, TVal.ser_value (snd kv))) (erase_entries m))
    = map (fun kv => (fst kv, TVal.ser_value (erase (snd kv)))) (filter (fun kv => q (snd kv)) m).
  Proof.
    intro H. unfold TVal.pick, erase_entries. induction m as [|[k x] m IH]; [reflexivity|].
    cbn [map filter fst snd]. rewrite H. destruct (q x); cbn [map fst snd]; rewrite IH; reflexivity.
  Qed.

  Lemma ser_value_erase_tab m :
    TVal.ser_value (erase (TvTab m)) = TVal.EInl (map (fun kv => (fst kv, TVal.ser_value (erase (snd kv)))) (ord_kv true m)).
  Proof.
    cbn [erase]. fold (erase_entries m). rewrite ser_value_tab.
    rewrite (pick_erase TVal.pass1 c_pass1 m pass1_erase), (pick_erase TVal.pass2 c_pass2 m pass2_erase), (pick_erase TVal.pass3 c_pass3 m pass3_erase).
    unfold ord_kv. rewrite !map_app. reflexivity.
  Qed.

  (* ---- 2. values that stay values ---------------------------------------------------------------------------------- *)
  Lemma fmt_value_inl ml (em : list (bytes * TVal.ev)) :
    TVal.fmt_value ml (TVal.EInl em) = TVal.VInl (map (fun kx => (fst kx, TVal.fmt_value ml (snd kx))) em).
  Proof. cbn [TVal.fmt_value]. f_equal. induction em as [|[k x] em IH]; [reflexivity|]. cbn [map fst snd]. rewrite IH. reflexivity. Qed.

  Lemma iv_built_array es tr c d sp0 : iv_of_value (VArray (map IValue es) tr c d sp0) = TVal.VArr false (map iv_of_value es).
  Proof. cbn [iv_of_value]. f_equal. induction es as [|e es IH]; [reflexivity|]. cbn [map flat_map app]. rewrite IH. reflexivity. Qed.
  Lemma iv_built_inline l pre im dt d sp0 :
    iv_of_value (VInline (mk_inline_items l) pre im dt d sp0) = TVal.VInl (map (fun kv => (fst kv, iv_of_value (snd kv))) l).
  Proof.
    cbn [iv_of_value]. f_equal. unfold mk_inline_items. induction l as [|[k e] l IH]; [reflexivity|].
    cbn [map flat_map app fst snd k_key key_new]. rewrite IH. reflexivity.
  Qed.

  Lemma value_tie : forall v, TVal.fmt_value false (TVal.ser_value (erase v)) = iv_of_value (tv_value v).
  Proof.
    apply tvc_strong.
    - reflexivity.
    - intros l IH. cbn [erase TVal.ser_value TVal.fmt_value tv_value andb]. unfold array_from_iter. rewrite iv_built_array. f_equal.
      rewrite !map_map. apply map_ext_in. intros x Hx. rewrite Forall_forall in IH. apply IH, Hx.
    - intros m IH. rewrite ser_value_erase_tab, fmt_value_inl, tv_value_tab. unfold vents. rewrite in_order_map, iv_built_inline.
      f_equal. rewrite !map_map. cbn [fst snd]. apply map_ext_in. intros kv Hkv. f_equal.
      rewrite Forall_forall in IH. apply (IH kv), (ord_kv_in true m kv Hkv).
  Qed.

  (* ---- 3. DocumentFormatter -------------------------------------------------------------------------------------------- *)
  Lemma fmt_item_inl ml (em : list (bytes * TVal.ev)) :
    TVal.fmt_item ml (TVal.EInl em) = TVal.ITbl (TVal.DT (TVal.nonempty em) (map (fun kx => (fst kx, TVal.fmt_item ml (snd kx))) em)).
  Proof. cbn [TVal.fmt_item]. do 2 f_equal. induction em as [|[k x] em IH]; [reflexivity|]. cbn [map fst snd]. rewrite IH. reflexivity. Qed.

  Lemma is_inl_erase v : TVal.is_inl (TVal.ser_value (erase v)) = tvc_is_table v.
  Proof. destruct v as [s|l|m]; [reflexivity|reflexivity|]. rewrite ser_value_erase_tab. reflexivity. Qed.

  Lemma forallb_inl_erase l : forallb TVal.is_inl (map TVal.ser_value (map erase l)) = forallb tvc_is_table l.
  Proof. induction l as [|y l IH]; [reflexivity|]. cbn [map forallb]. rewrite is_inl_erase, IH. reflexivity. Qed.
  Lemma aot_able_erase l : TVal.aot_able (map TVal.ser_value (map erase l)) = c_aot_able l.
  Proof.
    unfold TVal.aot_able, c_aot_able. destruct l as [|x l]; [reflexivity|].
    change (TVal.nonempty (map TVal.ser_value (map erase (x :: l)))) with true. cbn [andb]. apply forallb_inl_erase.
  Qed.

  Lemma dt_doc_tbl b l : dt_of_tbl (doc_tbl b l) = TVal.DT b (map (fun kv => (fst kv, ditem_of_item (snd kv))) l).
  Proof.
    unfold doc_tbl. cbn [dt_of_tbl]. f_equal. unfold mk_tbl_items. rewrite map_map. cbn [fst snd k_key key_new]. reflexivity.
  Qed.

  Lemma nonempty_ord m : TVal.nonempty (map (fun kv : bytes * tvc => (fst kv, TVal.ser_value (erase (snd kv)))) (ord_kv true m)) = nonempty_b m.
  Proof.
    destruct m as [|kv m]; [reflexivity|].
    pose proof (ord_kv_perm true (kv :: m)) as Hp. destruct (ord_kv true (kv :: m)) as [|y O] eqn:E; [|reflexivity].
    apply Permutation.Permutation_sym, Permutation.Permutation_nil in Hp. discriminate.
  Qed.

  Theorem item_tie : forall v, TVal.fmt_item false (TVal.ser_value (erase v)) = ditem_of_item (tv_item v).
  Proof.
    apply tvc_strong.
    - reflexivity.
    - intros l IH. cbn [erase TVal.ser_value]. cbn [TVal.fmt_item]. rewrite aot_able_erase.
      destruct (c_aot_able l) eqn:Ea.
      + rewrite (tv_item_aot l Ea). cbn [ditem_of_item]. f_equal.
        assert (Hall : forallb tvc_is_table l = true) by (destruct l; [discriminate|exact Ea]). clear Ea.
        rewrite Forall_forall in IH. induction l as [|x l IHl]; [reflexivity|].
        cbn [forallb] in Hall. apply andb_true_iff in Hall as [Hx Hl]. cbn [map].
        rewrite (IH x (or_introl eq_refl)). destruct x as [s|l0|m]; try discriminate.
        rewrite tv_item_tab. cbn [ditem_of_item tab_of fst snd]. f_equal. apply IHl; [|exact Hl]. intros y Hy. apply IH. right. exact Hy.
      + cbn [tv_item]. rewrite Ea. cbn [ditem_of_item]. f_equal.
        exact (value_tie (TvArr l)).
    - intros m IH. rewrite ser_value_erase_tab, fmt_item_inl, tv_item_tab. cbn [ditem_of_item]. f_equal.
      rewrite dt_doc_tbl, nonempty_ord. f_equal. unfold ients. rewrite in_order_map, !map_map. cbn [fst snd].
      apply map_ext_in. intros kv Hkv. f_equal. rewrite Forall_forall in IH. apply (IH kv), (ord_kv_in true m kv Hkv).
  Qed.

  (* ---- the document: toml::to_string(&Value::Table(m)) and Display for toml::Table --------------------------------- *)
  Theorem doc_tie_value m : dt_of_tbl (tv_doc true m) = TVal.fmt_root false (TVal.ser_root_value (erase_entries m)).
  Proof.
    unfold TVal.ser_root_value. change (TVal.TTab (erase_entries m)) with (erase (TvTab m)). rewrite ser_value_erase_tab.
    unfold TVal.fmt_root, tv_doc. fold (ients m). rewrite dt_doc_tbl, nonempty_ord. f_equal.
    unfold ients. rewrite in_order_map, !map_map. cbn [fst snd]. apply map_ext. intro kv. f_equal. symmetry. apply item_tie.
  Qed.

  Theorem doc_tie_table m : dt_of_tbl (tv_doc false m) = TVal.fmt_root false (TVal.ser_map (erase_entries m)).
  Proof.
    unfold TVal.fmt_root, TVal.ser_map, tv_doc, erase_entries. fold (ients m). rewrite dt_doc_tbl. f_equal.
    - destruct m; reflexivity.
    - unfold ients. rewrite in_order_map, !map_map. cbn [fst snd ord_kv]. apply map_ext. intro kv. f_equal. symmetry. apply item_tie.
  Qed.

  (* the sections the encoder visits (visit_nested_tables / visit_table of Model/TomlValue.v) on tv_doc are the document
     Model/TomlValue.v computes *)
  Corollary sections_tie_value m :
    flat_map TVal.visit_table (TVal.visit_nested (dt_of_tbl (tv_doc true m)) [] false) = TVal.emit_value_doc false (erase_entries m).
  Proof. rewrite doc_tie_value. reflexivity. Qed.
  Corollary sections_tie_table m :
    flat_map TVal.visit_table (TVal.visit_nested (dt_of_tbl (tv_doc false m)) [] false) = TVal.emit_table_doc false (erase_entries m).
  Proof. rewrite doc_tie_table. reflexivity. Qed.
End Tie.

From TV Require Spec.Canonical Props.C17.
Theorem toml_sections tok m :
  flat_map TVal.visit_table (TVal.visit_nested (dt_of_tbl tok (tv_doc true m)) [] false)
  = Spec.Canonical.sections_of false true true (erase_entries tok m) /\
  flat_map TVal.visit_table (TVal.visit_nested (dt_of_tbl tok (tv_doc false m)) [] false)
  = Spec.Canonical.sections_of false false true (erase_entries tok m).
Proof.
  split.
  - rewrite sections_tie_value. exact (Props.C17.C17_canonical_document Spec.Canonical.WValue false (erase_entries tok m)).
  - rewrite sections_tie_table. exact (Props.C17.C17_canonical_document Spec.Canonical.WTable false (erase_entries tok m)).
Qed.

(* ---- under BTreeMap: the sorted forms coincide ------------------------------------------------------------------------------ *)
From Coq Require Import Permutation.
Section Sorted.
  Variable tok : scalar -> bytes.
  Import Spec.Canonical.

  Lemma perm_tvc_erase : forall a b, perm_tvc a b -> perm_tv (erase tok a) (erase tok b).
  Proof.
    fix IH 3. intros a b H. destruct H as [s | l l' Hl | m m1 m' Hp Hm].
    - constructor.
    - cbn [erase]. constructor. induction Hl as [|x y l l' Hxy _ IHl]; cbn [map]; [constructor|]. constructor; [apply IH, Hxy|exact IHl].
    - cbn [erase]. apply PTab with (m1 := map (fun kv => (fst kv, erase tok (snd kv))) m1).
      + apply Permutation_map, Hp.
      + clear Hp. induction Hm as [|x y l l' [Hk Hxy] _ IHl]; cbn [map]; [constructor|]. constructor; [|exact IHl].
        cbn [fst snd]. split; [exact Hk|apply IH, Hxy].
  Qed.

  Lemma keys_distinct_nodup {A} (m : list (bytes * A)) : NoDup (map fst m) -> keys_distinct m = true.
  Proof.
    induction m as [|[k x] m IH]; [reflexivity|]. cbn [map fst keys_distinct]. intro H. inversion H as [|? ? Hn Hnd]; subst.
    rewrite (IH Hnd), andb_true_r. apply negb_true_iff. unfold key_in.
    destruct (existsb (fun kv => bytes_eqb (fst kv) k) m) eqn:E; [|reflexivity].
    apply existsb_exists in E as ([k' x'] & Hin & Heq). cbn [fst] in Heq. apply bytes_eqb_eq in Heq. subst k'.
    exfalso. apply Hn. apply (in_map fst) in Hin. exact Hin.
  Qed.

  Lemma wf_tv_erase : forall v, wf_tvc v -> wf_tv (erase tok (norm_leaves v)) = true.
  Proof.
    apply wf_tvc_strong.
    - reflexivity.
    - intros l _ IH. cbn [norm_leaves erase wf_tv]. rewrite !map_map. induction IH as [|x l Hx _ IHl]; [reflexivity|].
      cbn [map forallb]. rewrite Hx, IHl. reflexivity.
    - intros m Hnd _ _ IH. cbn [norm_leaves erase]. rewrite map_map. cbn [fst snd wf_tv].
      apply andb_true_iff. split.
      + apply keys_distinct_nodup. rewrite map_map. cbn [fst]. exact Hnd.
      + induction m as [|[k x] m IHm]; [reflexivity|]. cbn [map fst snd] in *. inversion IH as [|? ? Hx Hm]; subst.
        inversion Hnd; subst. rewrite Hx. cbn [andb]. apply IHm; assumption.
  Qed.

  (* sorted by key at every level (what the value is when toml::Map is a BTreeMap) the decoded value and the printed one
     coincide, whatever tokens stand for the leaves *)
  Theorem toml_display_sorted three m :
    wf_tvc (TvTab m) ->
    sort_tv (erase tok (TvTab (root_order three m))) = sort_tv (erase tok (norm_leaves (TvTab m))).
  Proof.
    intro Hwf. symmetry. apply (Props.C17.C17_permuted_is_equiv _ _ (perm_tvc_erase _ _ (document_same three m)) (wf_tv_erase _ Hwf)).
  Qed.
End Sorted.
