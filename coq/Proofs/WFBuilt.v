(* Proofs/WFBuilt.v — whatever the construction API builds (Model/Build.v `BuiltTbl`) is well-formed (Spec/WF.v), once its
   floats without a stored repr are given their text (`render_tbl ftext`, the oracle of DESIGN.md 4.4) and provided no
   array of tables is empty (an empty one prints nothing: C06's `printed_entries` drops it).
   Leaves: `PS s` must give `scalar_lim s` and a default repr proved to be a token (`default_ok`; for floats: the
   text `ftext f` is a float token denoting f); keys: UTF-8.  Limits: C06's `tbl_hdepth`, `tbl_vdepth` below LIMIT. *)
From TV Require Import Base.Prelude Base.Utf8 Base.Winnow Gen.Consts Spec.Abnf Spec.Lex Spec.Defs Spec.DatetimeSpec Spec.Syntax Spec.WF.
From TV Require Import Model.Datetime Model.Numbers Model.Tree Model.Parse Model.Document Model.Write Model.Encode Model.Build.
From TV Require Import Proofs.BuiltRTEncode.
From TV Require Import Proofs.WFBool Proofs.WFBoolSound Proofs.WFPrintKey Proofs.WFTree Proofs.WFPrintDoc Proofs.WFParseBase Proofs.WFParseValue.
Require Import Lia NArith.

(* no array of tables is empty *)
Fixpoint aot_ne (t : tbl) {struct t} : bool :=
  match t with
  | Tbl items _ _ _ _ _ =>
    forallb (fun kv => match snd kv with
                       | ITable sub => aot_ne sub
                       | IAot ts _ => negb (match ts with [] => true | _ => false end) && forallb aot_ne ts
                       | _ => true
                       end) items
  end.
Definition aot_ne_entry (kv : key * item) : bool :=
  match snd kv with
  | ITable sub => aot_ne sub
  | IAot ts _ => negb (match ts with [] => true | _ => false end) && forallb aot_ne ts
  | _ => true
  end.
Lemma aot_ne_eq t : aot_ne t = forallb aot_ne_entry (t_items t).
Proof. destruct t; reflexivity. Qed.

Lemma nd_const n (l : list (tbl * list key * bool)) : Forall (fun x => t_position (fst (fst x)) = None) l -> nondecreasing (n :: map fst (assign_positions n l)).
Proof.
  induction 1 as [|[[t p] a] l H _ IH]; [exact I|]. cbn [assign_positions map fst]. cbn [fst] in H. rewrite H. split; [lia|exact IH].
Qed.

Section B.
  Variable ftext : fval -> bytes.
  Variable PS : scalar -> Prop.
  Variable PK : bytes -> Prop.
  Hypothesis HPS : forall s, PS s -> scalar_lim s /\ match s with SFloat f => float_tok (ftext f) f | _ => default_ok s end.
  Hypothesis HPK : forall k, PK k -> utf8_valid_b k = true.
  Local Notation BuiltValue := (BuiltValue PS PK).
  Local Notation rv := (render_value ftext).
  Local Notation rt := (render_tbl ftext).

  (* ---- decor --------------------------------------------------------------------------------------------------------------- *)
  Lemma built_vdecor c d : decor_built d -> vdecor_ok c d.
  Proof.
    destruct d as [p s]. unfold decor_built, prefix_built, suffix_built. cbn [d_prefix d_suffix].
    intros [[ -> | [ -> | -> ] ] [ -> | -> ] ]; apply vdecor_b_sound; destruct c; reflexivity.
  Qed.
  Lemma ml_vdecor s : suffix_built s -> vdecor_ok CArr (mkDecor (Some (RExplicit ML_PREFIX)) s).
  Proof. intros [ -> | -> ]; apply vdecor_b_sound; reflexivity. Qed.
  Lemma default_decor_ok a b : decor_ok a b decor_default.
  Proof. split; exact I. Qed.
  Lemma key_new_wf line k : PK k -> key_wf line (key_new k).
  Proof. intro H. split; [exact (HPK k H)|]. split; apply default_decor_ok. Qed.

  Lemma built_value_decor v : BuiltValue v -> decor_built (value_decor v).
  Proof. intro H. destruct H; assumption. Qed.
  Lemma rv_decor v : value_decor (rv v) = value_decor v.
  Proof. destruct v as [s r d|vals tr c d sp|items pre im dt d sp]; try reflexivity. destruct s, r; reflexivity. Qed.
  Lemma rv_ml v : rv (ml_elem v) = ml_elem (rv v).
  Proof. destruct v as [s r d|vals tr c d sp|items pre im dt d sp]; try reflexivity. destruct s, r; reflexivity. Qed.
  Lemma render_built_ml es tr c d sp :
    rv (VArray (map (fun e => IValue (ml_elem e)) es) tr c d sp) = VArray (map (fun e => IValue (ml_elem e)) (map rv es)) tr c d sp.
  Proof. rewrite render_array, !map_map. f_equal. apply map_ext. intro e. rewrite render_item_value, rv_ml. reflexivity. Qed.

  (* ---- nesting depth ------------------------------------------------------------------------------------------------------- *)
  Definition dmax (es : list value) : nat := fold_right (fun e acc => Nat.max (value_depth e) acc) 0 es.
  Lemma ml_depth e : value_depth (ml_elem e) = value_depth e.
  Proof. destruct e; reflexivity. Qed.
  Lemma vd_arr es tr c d sp : value_depth (VArray (map IValue es) tr c d sp) = S (dmax es).
  Proof. cbn [value_depth]. f_equal. induction es as [|e es IH]; [reflexivity|]. cbn [map fold_right dmax]. rewrite IH. reflexivity. Qed.
  Lemma vd_ml es tr c d sp : value_depth (VArray (map (fun e => IValue (ml_elem e)) es) tr c d sp) = S (dmax es).
  Proof. cbn [value_depth]. f_equal. induction es as [|e es IH]; [reflexivity|]. cbn [map fold_right dmax]. rewrite IH, ml_depth. reflexivity. Qed.
  Lemma vd_inl l pre im dt d sp : value_depth (VInline (mk_inline_items l) pre im dt d sp) = S (dmax (map snd l)).
  Proof. cbn [value_depth]. f_equal. unfold mk_inline_items. induction l as [|[k v] l IH]; [reflexivity|]. cbn [map fold_right dmax fst snd]. rewrite IH. reflexivity. Qed.
  Lemma dmax_in e es : In e es -> value_depth e <= dmax es.
  Proof. induction es as [|x es IH]; [intros []|]. cbn [dmax fold_right]. fold (dmax es). intros [->|H]; [lia|specialize (IH H); lia]. Qed.
  Lemma dmax_map (f : value -> value) es : Forall (fun e => value_depth (f e) = value_depth e) es -> dmax (map f es) = dmax es.
  Proof. induction 1 as [|e es He _ IH]; [reflexivity|]. cbn [map dmax fold_right]. fold (dmax (map f es)). fold (dmax es). rewrite He, IH. reflexivity. Qed.

  Lemma rv_depth : forall v, BuiltValue v -> value_depth (rv v) = value_depth v.
  Proof.
    apply BuiltValue_sind.
    - intros s d _ _. destruct s; reflexivity.
    - intros es d _ _ IH. rewrite render_built_array, !vd_arr, (dmax_map _ _ IH). reflexivity.
    - intros es d _ _ IH. rewrite render_built_ml, !vd_ml, (dmax_map _ _ IH). reflexivity.
    - intros l d _ _ _ _ IH. rewrite render_built_inline, !vd_inl, map_map. cbn [snd]. rewrite <- (map_map snd rv), (dmax_map _ _ IH). reflexivity.
  Qed.

  (* ---- values --------------------------------------------------------------------------------------------------------------- *)
  Lemma value_wf_swap c c' v : value_wf c v -> vdecor_ok c' (value_decor v) -> value_wf c' v.
  Proof. destruct v; cbn [value_wf value_decor]; tauto. Qed.
  Lemma value_wf_ml c v : value_wf c v -> vdecor_ok CArr (mkDecor (Some (RExplicit ML_PREFIX)) (d_suffix (value_decor v))) -> value_wf CArr (ml_elem v).
  Proof. destruct v; cbn [value_wf value_decor ml_elem]; tauto. Qed.
  Lemma value_lim_ml d v : value_lim d (ml_elem v) <-> value_lim d v.
  Proof. destruct v; cbn [value_lim ml_elem]; tauto. Qed.
  Lemma pair_wf_plain line v : match v with VInline _ _ _ true _ _ => False | _ => True end ->
    pair_wf line (IValue v) = value_wf (if line then CLine else CInl) v.
  Proof. destruct v as [| |items pre im dt d sp]; try reflexivity. destruct dt; [contradiction|reflexivity]. Qed.
  Lemma built_written v : BuiltValue v -> written (rv v).
  Proof. intro H. destruct H as [s d Hps Hd | es d Hd Hes | es d Hd Hes | l d Hd Hnd Hk Hl]; [destruct s|..]; cbn; auto. Qed.
  Lemma kkeys_inline (l : list (bytes * value)) : kkeys (mk_inline_items l) = map fst l.
  Proof. unfold kkeys, mk_inline_items. rewrite map_map. reflexivity. Qed.

  Lemma built_value_wf : forall v, BuiltValue v -> forall c, value_wf c (rv v).
  Proof.
    apply (BuiltValue_sind PS PK (fun v => forall c, value_wf c (rv v))).
    - intros s d Hs Hd c. destruct (HPS s Hs) as [Hl Hr].
      destruct s; cbn [render_value value_wf repr_ok]; (split; [exact Hr|split; [exact Hl|apply built_vdecor, Hd]]).
    - intros es d Hd Hes IH c. rewrite render_built_array. cbn [value_wf]. split; [apply built_vdecor, Hd|]. split; [apply empty_raw_ok|].
      apply all_P_Forall'. rewrite !Forall_map. eapply Forall_impl; [|exact IH]. intros e He. apply He.
    - intros es d Hd Hes IH c. rewrite render_built_ml. cbn [value_wf]. split; [apply built_vdecor, Hd|]. split; [apply raw_b_sound; reflexivity|].
      apply all_P_Forall'. rewrite !Forall_map. rewrite Forall_forall in *. intros e Hin. apply (value_wf_ml CArr _ (IH e Hin CArr)).
      rewrite rv_decor. apply ml_vdecor. apply (built_value_decor e (Hes e Hin)).
    - intros l d Hd Hnd Hk Hl IH c. rewrite render_built_inline. cbn [value_wf]. split; [apply built_vdecor, Hd|]. split; [apply empty_raw_ok|].
      split; [rewrite kkeys_inline, map_map; exact Hnd|].
      apply all_P_Forall'. unfold mk_inline_items. rewrite !Forall_map. rewrite Forall_forall in *. intros [k v] Hin. cbn [fst snd].
      split; [apply key_new_wf, Hk, (in_map fst _ _ Hin)|].
      rewrite pair_wf_plain; [apply (IH v (in_map snd _ _ Hin))|apply (built_not_dotted ftext PS PK v (Hl v (in_map snd _ _ Hin)))].
  Qed.

  Lemma built_value_lim : forall v, BuiltValue v -> forall d, d + value_depth v < LIMIT -> value_lim d (rv v).
  Proof.
    apply (BuiltValue_sind PS PK (fun v => forall d, d + value_depth v < LIMIT -> value_lim d (rv v))).
    - intros s d _ _ n _. destruct s; exact I.
    - intros es d _ _ IH n H. rewrite render_built_array. rewrite vd_arr in H. cbn [value_lim]. split; [lia|].
      apply all_P_Forall'. rewrite !Forall_map. rewrite Forall_forall in *. intros e Hin. apply (IH e Hin). pose proof (dmax_in e es Hin). lia.
    - intros es d _ _ IH n H. rewrite render_built_ml. rewrite vd_ml in H. cbn [value_lim]. split; [lia|].
      apply all_P_Forall'. rewrite !Forall_map. rewrite Forall_forall in *. intros e Hin. apply value_lim_ml. apply (IH e Hin). pose proof (dmax_in e es Hin). lia.
    - intros l d _ _ _ Hl IH n H. rewrite render_built_inline. rewrite vd_inl in H. cbn [value_lim]. split; [lia|].
      apply all_P_Forall'. unfold mk_inline_items. rewrite !Forall_map. rewrite Forall_forall in *. intros [k v] Hin. cbn [fst snd].
      pose proof (in_map snd _ _ Hin) as Hv. cbn [snd] in Hv. pose proof (dmax_in v _ Hv).
      rewrite (written_pair_lim (rv v) (S n) 1 (built_written v (Hl v Hv))), (rv_depth v (Hl v Hv)). split; [lia|]. apply (IH v Hv). lia.
  Qed.

  (* ---- tables: the shape of a constructed table --------------------------------------------------------------------------- *)
  Fixpoint bshape (t : tbl) {struct t} : Prop :=
    match t with
    | Tbl items d _ dt _ _ =>
      d = decor_default /\ dt = false /\ NoDup (kkeys items)
      /\ all_P (fun kv => (exists k, fst kv = key_new k /\ PK k) /\
                         match snd kv with
                         | IValue v => BuiltValue v
                         | ITable sub => bshape sub /\ t_position sub = None /\ (t_implicit sub = true -> tbl_prints sub = true)
                         | IAot ts _ => all_P (fun e => bshape e /\ t_position e = None) ts
                         | INone => False
                         end) items
    end.
  Definition bentry (kv : key * item) : Prop :=
    (exists k, fst kv = key_new k /\ PK k) /\
    match snd kv with
    | IValue v => BuiltValue v
    | ITable sub => bshape sub /\ t_position sub = None /\ (t_implicit sub = true -> tbl_prints sub = true)
    | IAot ts _ => all_P (fun e => bshape e /\ t_position e = None) ts
    | INone => False
    end.
  Lemma bshape_eq t : bshape t <-> t_decor t = decor_default /\ t_dotted t = false /\ NoDup (kkeys (t_items t)) /\ all_P bentry (t_items t).
  Proof. destruct t; reflexivity. Qed.

  Lemma kkeys_tbl (l : list (bytes * item)) : kkeys (mk_tbl_items l) = map fst l.
  Proof. unfold kkeys, mk_tbl_items. rewrite map_map. reflexivity. Qed.
  Lemma prints_mk (l : list (bytes * item)) :
    existsb (fun kv : key * item => match kv with (_, i0) => item_prints i0 end) (mk_tbl_items l) = existsb (fun kv => item_prints (snd kv)) l.
  Proof. unfold mk_tbl_items. induction l as [|[k it] l IH]; [reflexivity|]. cbn [map existsb fst snd]. rewrite IH. reflexivity. Qed.

  Lemma built_bshape : forall t l im pos, t = Tbl (mk_tbl_items l) decor_default im false pos None -> BuiltEntries PS PK l -> bshape t.
  Proof.
    induction t as [items d im dt p sp IH] using tbl_sub_ind. intros l im' pos E Hb. injection E as -> -> _ -> _ _.
    destruct Hb as [l Hnd Hk Hit]. apply bshape_eq. cbn [t_decor t_dotted t_items]. split; [reflexivity|]. split; [reflexivity|].
    split; [rewrite kkeys_tbl; exact Hnd|]. apply all_P_Forall'. unfold mk_tbl_items in *. rewrite Forall_map in *. rewrite Forall_forall in *.
    intros [k it] Hin. specialize (IH _ Hin). cbn [fst snd] in *. split; [exists k; split; [reflexivity|apply (Hk (k, it) Hin)]|].
    pose proof (Hit (k, it) Hin) as Hbi. cbn [snd] in Hbi. destruct Hbi as [v Hv|im1 l1 Hb1 Hpr|ls Hls].
    - exact Hv.
    - split; [apply (IH l1 im1 None eq_refl Hb1)|]. split; [reflexivity|]. cbn [t_implicit tbl_prints]. intros ->. rewrite prints_mk. apply Hpr. reflexivity.
    - apply all_P_Forall'. rewrite Forall_map in *. rewrite Forall_forall in *. intros x Hx. split; [apply (IH x Hx (snd x) (fst x) None eq_refl (Hls x Hx))|reflexivity].
  Qed.

  (* rendering keeps everything but the float reprs *)
  Lemma rt_flags t : t_decor (rt t) = t_decor t /\ t_implicit (rt t) = t_implicit t /\ t_dotted (rt t) = t_dotted t /\ t_position (rt t) = t_position t.
  Proof. destruct t; repeat split. Qed.
  Lemma rt_items t : t_items (rt t) = map (fun kv => (fst kv, render_item ftext (snd kv))) (t_items t).
  Proof. destruct t as [items d im dt p sp]. cbn [render_tbl t_items]. apply map_ext. intros [k i0]. reflexivity. Qed.
  Lemma kkeys_render (items : kvs) : kkeys (map (fun kv => (fst kv, render_item ftext (snd kv))) items) = kkeys items.
  Proof. unfold kkeys. rewrite map_map. reflexivity. Qed.
  Lemma tbl_wf_eq top t : tbl_wf top t <->
    decor_ok SLines (if top then SLines else SLineTrail) (t_decor t) /\ NoDup (kkeys (t_items t))
    /\ all_P (fun kv => key_wf true (fst kv) /\
                 match snd kv with
                 | INone => False
                 | IValue _ => pair_wf true (snd kv)
                 | ITable sub => tbl_wf false sub /\ (if t_dotted sub then has_line sub = true \/ prints_header sub = true else shown sub = true \/ prints_header sub = true)
                 | IAot ts _ => ts <> [] /\ all_P (fun e => t_dotted e = false /\ tbl_wf false e) ts
                 end) (t_items t).
  Proof. destruct t; reflexivity. Qed.
  Definition hl_entry (kv : key * item) : bool :=
    match snd kv with IValue _ => true | ITable sub => t_dotted sub && has_line sub | _ => false end.
  Definition ph_entry (kv : key * item) : bool :=
    match snd kv with
    | ITable sub => (negb (t_dotted sub) && shown sub) || prints_header sub
    | IAot ts _ => match ts with [] => false | _ => true end
    | _ => false
    end.
  Lemma has_line_eq' t : has_line t = existsb hl_entry (t_items t).
  Proof. destruct t; reflexivity. Qed.
  Lemma prints_header_eq' t : prints_header t = existsb ph_entry (t_items t).
  Proof. destruct t; reflexivity. Qed.
  Lemma tbl_prints_eq t : tbl_prints t = existsb (fun kv => item_prints (snd kv)) (t_items t).
  Proof. destruct t as [items d im dt p sp]. cbn [tbl_prints t_items]. induction items as [|[k it] l IH]; [reflexivity|]. cbn [existsb snd]. rewrite IH. reflexivity. Qed.

  (* a table that prints something has a line or a header below it *)
  Lemma built_prints : forall t, bshape t -> aot_ne t = true -> tbl_prints t = true -> has_line (rt t) = true \/ prints_header (rt t) = true.
  Proof.
    induction t as [items d im dt p sp IH] using tbl_sub_ind. intros Hb Hne Hpr. apply bshape_eq in Hb as (_ & _ & _ & Hen). cbn [t_items] in Hen.
    rewrite aot_ne_eq in Hne. cbn [t_items] in Hne. rewrite tbl_prints_eq in Hpr. cbn [t_items] in Hpr.
    rewrite has_line_eq', prints_header_eq', rt_items. cbn [t_items].
    apply existsb_exists in Hpr as ([k it] & Hin & Hp). cbn [snd] in Hp. rewrite Forall_forall in IH. specialize (IH _ Hin). cbn [snd] in IH.
    rewrite forallb_forall in Hne. specialize (Hne _ Hin). unfold aot_ne_entry in Hne. cbn [snd] in Hne.
    pose proof (all_P_In _ _ _ Hen Hin) as [_ He]. cbn [snd] in He.
    pose proof (in_map (fun kv => (fst kv, render_item ftext (snd kv))) _ _ Hin) as Hin'. cbn [fst snd] in Hin'.
    destruct it as [|v|sub|ts asp]; [discriminate| | |].
    - left. apply existsb_exists. eexists. split; [exact Hin'|reflexivity].
    - right. apply existsb_exists. eexists. split; [exact Hin'|]. unfold ph_entry. cbn [snd]. change (render_item ftext (ITable sub)) with (ITable (rt sub)). cbv beta iota.
      destruct He as (Hsb & _ & _).
      pose proof Hsb as Hsb'. apply bshape_eq in Hsb' as (_ & Hd & _). destruct (rt_flags sub) as (_ & Fi & Fd & _). rewrite Fd, Hd. cbn [negb andb].
      unfold shown. rewrite Fi. cbn [item_prints] in Hp. destruct (t_implicit sub); [|reflexivity]. cbn [negb orb andb] in *.
      destruct (IH Hsb Hne Hp) as [H|H]; rewrite H; [reflexivity|apply orb_true_r].
    - right. apply existsb_exists. eexists. split; [exact Hin'|]. unfold ph_entry. cbn [snd]. change (render_item ftext (IAot ts asp)) with (IAot (map rt ts) asp). cbv beta iota.
      destruct ts; [discriminate|reflexivity].
  Qed.

  Lemma built_shown sub : bshape sub -> aot_ne sub = true -> (t_implicit sub = true -> tbl_prints sub = true) ->
    shown (rt sub) = true \/ prints_header (rt sub) = true.
  Proof.
    intros Hb Hne Hp. unfold shown. destruct (rt_flags sub) as (_ & Fi & _). rewrite Fi. destruct (t_implicit sub); [|left; reflexivity].
    destruct (built_prints sub Hb Hne (Hp eq_refl)) as [H|H]; [left; rewrite H; reflexivity|right; exact H].
  Qed.

  Lemma built_tbl_wf : forall t, bshape t -> aot_ne t = true -> forall top, tbl_wf top (rt t).
  Proof.
    induction t as [items d im dt p sp IH] using tbl_sub_ind. intros Hb Hne top. apply bshape_eq in Hb as (Hd & _ & Hnd & Hen). cbn [t_decor t_items] in *.
    rewrite aot_ne_eq in Hne. cbn [t_items] in Hne. apply tbl_wf_eq. rewrite rt_items. destruct (rt_flags (Tbl items d im dt p sp)) as (Fd & _). rewrite Fd.
    cbn [t_decor t_items]. split; [rewrite Hd; apply default_decor_ok|]. split; [rewrite kkeys_render; exact Hnd|].
    apply all_P_Forall'. rewrite Forall_map. rewrite Forall_forall in *. intros [k it] Hin. specialize (IH _ Hin). cbn [fst snd] in *.
    rewrite forallb_forall in Hne. specialize (Hne _ Hin). unfold aot_ne_entry in Hne. cbn [snd] in Hne.
    pose proof (all_P_In _ _ _ Hen Hin) as [(k0 & Ek & Hk0) He]. cbn [fst snd] in Ek, He. subst k. split; [apply key_new_wf, Hk0|].
    destruct it as [|v|sub|ts asp]; [contradiction| | |].
    - change (render_item ftext (IValue v)) with (IValue (rv v)). cbv beta iota. rewrite pair_wf_plain; [apply (built_value_wf v He)|apply (built_not_dotted ftext PS PK v He)].
    - change (render_item ftext (ITable sub)) with (ITable (rt sub)). cbv beta iota. destruct He as (Hsb & _ & Hpr). split; [apply (IH Hsb Hne)|]. pose proof Hsb as Hsb'. apply bshape_eq in Hsb' as (_ & Hds & _).
      destruct (rt_flags sub) as (_ & _ & Fd' & _). rewrite Fd', Hds. apply (built_shown sub Hsb Hne Hpr).
    - change (render_item ftext (IAot ts asp)) with (IAot (map rt ts) asp). cbv beta iota. apply andb_true_iff in Hne as [Hnn Hall]. split; [destruct ts; [discriminate|discriminate]|].
      apply all_P_Forall'. rewrite Forall_map. rewrite Forall_forall in *. intros e Hine. rewrite forallb_forall in Hall.
      destruct (all_P_In _ _ _ He Hine) as [Hsb _]. pose proof Hsb as Hsb'. apply bshape_eq in Hsb' as (_ & Hds & _). destruct (rt_flags e) as (_ & _ & Fd' & _).
      split; [congruence|apply (IH e Hine Hsb (Hall e Hine))].
  Qed.

  (* ---- limits --------------------------------------------------------------------------------------------------------------- *)
  Lemma tbl_hdepth_eq t : tbl_hdepth t = fold_right (fun kv acc => Nat.max (item_hdepth (snd kv)) acc) 0 (t_items t).
  Proof. destruct t as [items d im dt p sp]. cbn [tbl_hdepth t_items]. induction items as [|[k it] l IH]; [reflexivity|]. cbn [fold_right snd]. rewrite IH. reflexivity. Qed.
  Lemma tbl_vdepth_eq t : tbl_vdepth t = fold_right (fun kv acc => Nat.max (item_vdepth (snd kv)) acc) 0 (t_items t).
  Proof. destruct t as [items d im dt p sp]. cbn [tbl_vdepth t_items]. induction items as [|[k it] l IH]; [reflexivity|]. cbn [fold_right snd]. rewrite IH. reflexivity. Qed.
  Lemma fold_max_in {A} (f : A -> nat) x l : In x l -> f x <= fold_right (fun y acc => Nat.max (f y) acc) 0 l.
  Proof. induction l as [|y l IH]; [intros []|]. cbn [fold_right]. intros [->|H]; [lia|specialize (IH H); lia]. Qed.
  Lemma line_lim_plain n v : match v with VInline _ _ _ true _ _ => False | _ => True end -> line_lim n (IValue v) = (n < LIMIT /\ value_lim 0 v).
  Proof. destruct v as [| |items pre im dt d sp]; try reflexivity. destruct dt; [contradiction|reflexivity]. Qed.
  Lemma tbl_lim_eq h n t : tbl_lim h n t <->
    all_P (fun kv => match snd kv with
                     | IValue _ => line_lim (S n) (snd kv)
                     | ITable sub => if t_dotted sub then tbl_lim (S h) (S n) sub else S h < LIMIT /\ tbl_lim (S h) 0 sub
                     | IAot ts _ => S h < LIMIT /\ all_P (fun e => tbl_lim (S h) 0 e) ts
                     | INone => True
                     end) (t_items t).
  Proof. destruct t; reflexivity. Qed.

  Lemma built_tbl_lim : forall t, bshape t -> forall h, h + tbl_hdepth t < LIMIT -> tbl_vdepth t < LIMIT -> tbl_lim h 0 (rt t).
  Proof.
    induction t as [items d im dt p sp IH] using tbl_sub_ind. intros Hb h Hh Hv. apply bshape_eq in Hb as (_ & _ & _ & Hen). cbn [t_items] in Hen.
    rewrite tbl_hdepth_eq in Hh. rewrite tbl_vdepth_eq in Hv. cbn [t_items] in Hh, Hv. apply tbl_lim_eq. rewrite rt_items. cbn [t_items].
    apply all_P_Forall'. rewrite Forall_map. rewrite Forall_forall in *. intros [k it] Hin. specialize (IH _ Hin). cbn [fst snd] in *.
    pose proof (all_P_In _ _ _ Hen Hin) as [_ He]. cbn [snd] in He.
    pose proof (fold_max_in (fun kv : key * item => item_hdepth (snd kv)) _ _ Hin) as Mh. pose proof (fold_max_in (fun kv : key * item => item_vdepth (snd kv)) _ _ Hin) as Mv.
    cbn [snd] in Mh, Mv.
    destruct it as [|v|sub|ts asp]; [exact I| | |].
    - change (render_item ftext (IValue v)) with (IValue (rv v)). cbv beta iota. rewrite (line_lim_plain 1 (rv v) (built_not_dotted ftext PS PK v He)).
      split; [unfold LIMIT; lia|]. apply (built_value_lim v He 0). cbn [item_vdepth] in Mv. lia.
    - change (render_item ftext (ITable sub)) with (ITable (rt sub)). cbv beta iota. destruct He as (Hsb & _ & _). pose proof Hsb as Hsb'. apply bshape_eq in Hsb' as (_ & Hds & _).
      destruct (rt_flags sub) as (_ & _ & Fd & _). rewrite Fd, Hds. cbn [item_hdepth item_vdepth] in Mh, Mv. split; [lia|]. apply (IH Hsb); lia.
    - change (render_item ftext (IAot ts asp)) with (IAot (map rt ts) asp). cbv beta iota. cbn [item_hdepth item_vdepth] in Mh, Mv. split; [lia|].
      apply all_P_Forall'. rewrite Forall_map. rewrite Forall_forall in *. intros e Hine. destruct (all_P_In _ _ _ He Hine) as [Hsb _].
      pose proof (fold_max_in tbl_hdepth _ _ Hine). pose proof (fold_max_in tbl_vdepth _ _ Hine). apply (IH e Hine Hsb); lia.
  Qed.

  (* ---- the order of the sections: every position below the root is None -------------------------------------------------- *)
  Local Notation pos_none := (fun x : tbl * list key * bool => t_position (fst (fst x)) = None).
  Lemma built_sections : forall t, bshape t -> forall path, Forall pos_none (flat_map (sub_sections path) (t_items (rt t))).
  Proof.
    induction t as [items d im dt p sp IH] using tbl_sub_ind. intros Hb path. apply bshape_eq in Hb as (_ & _ & _ & Hen). cbn [t_items] in Hen. rewrite rt_items. cbn [t_items].
    apply Forall_forall. intros x Hx. apply in_flat_map in Hx as ([k it'] & Hin' & Hx). apply in_map_iff in Hin' as ([k0 it] & E & Hin). injection E as <- <-.
    rewrite Forall_forall in IH. specialize (IH _ Hin). pose proof (all_P_In _ _ _ Hen Hin) as [_ He]. cbn [fst snd] in *. unfold sub_sections in Hx. cbn [fst snd] in Hx.
    destruct it as [|v|sub|ts asp]; try contradiction.
    - change (render_item ftext (ITable sub)) with (ITable (rt sub)) in Hx. cbv beta iota in Hx. destruct He as (Hsb & Hq & _). rewrite sections_eq in Hx.
      apply in_app_or in Hx as [Hx|Hx].
      + destruct (t_dotted (rt sub)); [contradiction|]. destruct Hx as [<-|[]]. cbn [fst]. destruct (rt_flags sub) as (_ & _ & _ & Fq). congruence.
      + pose proof (IH Hsb (path ++ [k0])) as F. rewrite Forall_forall in F. exact (F x Hx).
    - change (render_item ftext (IAot ts asp)) with (IAot (map rt ts) asp) in Hx. cbv beta iota in Hx. apply in_flat_map in Hx as (e' & He' & Hx).
      apply in_map_iff in He' as (e & <- & Hine). destruct (all_P_In _ _ _ He Hine) as [Hsb Hq]. rewrite Forall_forall in IH. rewrite sections_eq in Hx.
      apply in_app_or in Hx as [Hx|Hx].
      + destruct (t_dotted (rt e)); [contradiction|]. destruct Hx as [<-|[]]. cbn [fst]. destruct (rt_flags e) as (_ & _ & _ & Fq). congruence.
      + pose proof (IH e Hine Hsb (path ++ [k0])) as F. rewrite Forall_forall in F. exact (F x Hx).
  Qed.

  (* ---- THE theorem ---------------------------------------------------------------------------------------------------------- *)
  Theorem built_WF t : BuiltTbl PS PK t -> aot_ne t = true -> tbl_hdepth t < LIMIT -> tbl_vdepth t < LIMIT -> WF (rt t).
  Proof.
    intros (l & im & pos & Hb & Hpos & ->) Hne Hh Hv.
    pose proof (built_bshape _ l im pos eq_refl Hb) as Hs. set (t := Tbl (mk_tbl_items l) decor_default im false pos None) in *.
    destruct (rt_flags t) as (_ & _ & Fd & Fq). split; [rewrite Fd; reflexivity|]. split; [apply (built_tbl_wf t Hs Hne)|].
    split; [apply (built_tbl_lim t Hs 0); [exact Hh|exact Hv]|].
    unfold order_ok. rewrite sections_eq, Fd. change (t_dotted t) with false. cbn [app assign_positions map fst].
    assert (E : match t_position (rt t) with Some q => q | None => 0%N end = 0%N) by (rewrite Fq; destruct Hpos as [->| ->]; reflexivity).
    rewrite E. apply nd_const, (built_sections t Hs).
  Qed.

  Theorem built_WFdoc t : BuiltTbl PS PK t -> aot_ne t = true -> tbl_hdepth t < LIMIT -> tbl_vdepth t < LIMIT -> WFdoc (rt t) REmpty.
  Proof. intros H1 H2 H3 H4. split; [apply (built_WF t H1 H2 H3 H4)|apply empty_raw_ok]. Qed.
End B.

(* ---- the leaves of C06: scalar_ok, UTF-8 keys, floats with their text ------------------------------------------------------ *)
From TV Require Import Model.Trivia Model.Strings Model.DatetimeStd.
From TV Require Import Proofs.StringsRTDefs Proofs.StringsRTBase Proofs.StringsRTBasic Proofs.NumbersRT_Lex Proofs.NumbersRT_Int Proofs.NumbersRT_Float Proofs.NumbersRT_Value
                       Proofs.BuiltRTBase Proofs.BuiltRTParse Proofs.BuiltRTLeaf Proofs.BuiltRTValue Proofs.BuiltRTTop Proofs.WFTok.

Lemma float_text_tok f : float_leaf f -> float_tok (float_text f) f.
Proof.
  destruct f as [n|n|neg m e]; intro Hf.
  - destruct n; (eapply float_whole; [vm_compute; reflexivity|reflexivity]).
  - destruct n; (eapply float_whole; [vm_compute; reflexivity|reflexivity]).
  - destruct Hf as [He Ho].
    destruct (float_text_dec neg m e He) as (ip & fp & Et & Hip & Hfp & Hne & Hv & Hlen).
    destruct (ip_digits _ Hip) as [Hid Hine].
    set (pre := (if neg then [dash] else []) ++ ip).
    assert (Et' : float_text (FDec neg m e) = pre ++ dot :: fp) by (rewrite Et; unfold pre; rewrite <- app_assoc; reflexivity).
    assert (EL : dec_int_len ((pre ++ dot :: fp) ++ []) = LOk (length pre)).
    { rewrite <- app_assoc. cbn [app]. apply (dec_int_len_plain neg ip (fp ++ []) Hip). }
    apply (float_whole _ _ (after (pre ++ dot :: fp) [] 0%N 0)); [|reflexivity].
    rewrite Et'. unfold new_input. rewrite <- (app_nil_r (pre ++ dot :: fp)) at 1.
    unfold float, context, alt, and_then. rewrite (float__ctx pre fp [] 0%N 0 EL Hne Hfp I).
    unfold float_of.
    assert (Hnu : forallb not_us (pre ++ dot :: fp) = true).
    { unfold pre. rewrite !forallb_app. cbn [forallb].
      rewrite (forallb_impl is_digit _ ip digit_not_us Hid), (forallb_impl is_digit _ fp digit_not_us Hfp).
      destruct neg; reflexivity. }
    rewrite (remove_us_id _ Hnu). unfold pre. rewrite <- app_assoc.
    rewrite (fdec_of_plain neg ip fp Hid Hine Hfp). rewrite Hv, Hlen, Ho. cbn [andb]. reflexivity.
Qed.

Lemma scalar_ok_leaf s : scalar_ok s -> scalar_lim s /\ match s with SFloat f => float_tok (float_text f) f | _ => default_ok s end.
Proof.
  destruct s as [x|z|f|b|d]; cbn [scalar_ok scalar_lim default_ok]; intro H.
  - split; [exact I|exact H].
  - split; [exact H|exact I].
  - split; [destruct f as [n|n|neg m e]; [exact I|exact I|exact (proj2 H)]|apply float_text_tok, H].
  - split; exact I.
  - split; [exact I|exact H].
Qed.

(* whatever C06's constructors build, with the floats' texts, is a well-formed document *)
Theorem constructed_WF t :
  BuiltTbl scalar_ok key_ok t -> aot_ne t = true -> tbl_hdepth t < LIMIT -> tbl_vdepth t < LIMIT -> WFdoc (render_tbl float_text t) REmpty.
Proof. apply (built_WFdoc float_text scalar_ok key_ok scalar_ok_leaf (fun k H => H)). Qed.

(* ... hence it prints as a text that is accepted and decodes to the data Display of the tree defines (kinds included) *)
From TV Require Import Proofs.GrammarBase Proofs.WFPrintTop.
Theorem constructed_print_parse t :
  BuiltTbl scalar_ok key_ok t -> aot_ne t = true -> tbl_hdepth t < LIMIT -> tbl_vdepth t < LIMIT ->
  exists d, parse_document (display_document (render_tbl float_text t) REmpty) = POk d
            /\ abs_doc d = abs_doc_of (render_tbl float_text t).
Proof. intros H1 H2 H3 H4. apply WF_print_parse, constructed_WF; assumption. Qed.
