(* Proofs/SpansBdDoc.v — C14, character boundaries, part 5: for a well-formed UTF-8 source, every span
   endpoint stored anywhere in the parsed document is a character boundary of the source.

   Spans are recorded at cursor positions `at_ s i` (Proofs/SpansBoundary.v), which are character
   boundaries; the tree builders only combine such offsets (Proofs/SpansBd.v). *)
From TV Require Import Base.Prelude Base.Utf8 Base.Winnow Gen.Consts Spec.Abnf.
From TV Require Import Model.Trivia Model.Strings Model.Datetime Model.Numbers Model.Tree Model.Parse Model.Document.
From TV Require Import Proofs.ConstsOk Proofs.NoPanicBase Proofs.NoPanicLex Proofs.NoPanicValue Proofs.NoPanicState Proofs.NoPanicDoc.
From TV Require Import Proofs.SpansDefs Proofs.SpansBase Proofs.SpansLex Proofs.SpansValue Proofs.SpansState Proofs.SpansDoc
                       Proofs.SpansExact Proofs.SpansUtf8 Proofs.SpansUtf8Lex Proofs.SpansBoundary Proofs.SpansBd.
Require Import Lia ZifyBool ZifyN ZifyNat.

Section S.
  Variable s : bytes.
  Definition bd (n : N) : bool := char_boundary_b s n.

  Definition gP {A} (Q : A -> Prop) (p : parser A) : Prop := forall i a i', at_ s i -> p i = Ok a i' -> Q a.

  Lemma bd_at i : at_ s i -> bd (pos i) = true.
  Proof. apply at_boundary. Qed.
  Lemma sp_at i j : at_ s i -> at_ s j -> sp_g bd (pos i, pos j) = true.
  Proof. intros A B. apply sp_g_pair; apply bd_at; assumption. Qed.

  Ltac at_next A E :=
    match type of E with
    | ?p ?i = Ok _ ?j => let H := fresh "A" in assert (H : at_ s j) by (eapply (at_step p); [np|up|exact A|exact E])
    end.

  (* ---- loops ------------------------------------------------------------------------------------------------------ *)
  Lemma gP_separated_loop {A Sp} (Q : A -> Prop) (p : parser A) (sep : parser Sp) :
    mono p -> uP p -> mono sep -> uP sep -> gP Q p ->
    forall fuel acc i l i', at_ s i -> separated_loop fuel p sep acc i = Ok l i' -> Forall Q acc -> Forall Q l.
  Proof.
    intros Mp Up Ms Us Hp. induction fuel as [|f IH]; intros acc i l i' At H Ha; cbn [separated_loop] in H; [discriminate|].
    destruct (sep i) as [x i1|? ?|? ?|?] eqn:E; try discriminate.
    - destruct (Nat.eqb _ _); [discriminate|]. pose proof (at_step sep _ _ _ _ Ms Us At E) as A1.
      destruct (p i1) as [a i2|? ?|? ?|?] eqn:E2; try discriminate.
      + eapply IH; [|exact H|]; [eapply (at_step p); eauto|]. constructor; [eapply Hp; eauto|exact Ha].
      + inversion H; subst. apply Forall_rev, Ha.
    - inversion H; subst. apply Forall_rev, Ha.
  Qed.
  Lemma gP_separated0 {A Sp} (Q : A -> Prop) (p : parser A) (sep : parser Sp) :
    mono p -> uP p -> mono sep -> uP sep -> gP Q p -> gP (Forall Q) (separated0 p sep).
  Proof.
    intros Mp Up Ms Us Hp i l i' At H. unfold separated0 in H. destruct (p i) as [a i1|? ?|? ?|?] eqn:E; try discriminate.
    - eapply gP_separated_loop; [exact Mp|exact Up|exact Ms|exact Us|exact Hp| |exact H|]; [eapply (at_step p); eauto|].
      constructor; [eapply Hp; eauto|constructor].
    - inversion H; subst. constructor.
  Qed.
  Lemma gP_separated1 {A Sp} (Q : A -> Prop) (p : parser A) (sep : parser Sp) :
    mono p -> uP p -> mono sep -> uP sep -> gP Q p -> gP (Forall Q) (separated1 p sep).
  Proof.
    intros Mp Up Ms Us Hp i l i' At H. unfold separated1 in H. destruct (p i) as [a i1|? ?|? ?|?] eqn:E; try discriminate.
    eapply gP_separated_loop; [exact Mp|exact Up|exact Ms|exact Us|exact Hp| |exact H|]; [eapply (at_step p); eauto|].
    constructor; [eapply Hp; eauto|constructor].
  Qed.

  (* ---- keys ---------------------------------------------------------------------------------------------------------- *)
  Lemma key_part_g : gP (fun k => key_g bd k = true) key_part.
  Proof.
    intros i k i' At E. unfold key_part in E. apply bind_ok in E as (pre & j & E0 & E).
    apply bind_ok in E as ([r kk] & j0 & E1 & E). apply bind_ok in E as (suf & j1 & E2 & E). apply ret_ok in E as [-> ->].
    at_next At E0. at_next A E1. at_next A0 E2.
    apply span_ok in E0 as (-> & _). apply span_ok in E2 as (-> & _). apply simple_key_exact in E1 as (-> & _ & _).
    unfold key_g; cbn [k_repr k_leaf k_dotted oraw_g]. apply andb3. repeat split.
    - unfold raw_g; cbn [raw_span osp_g]. apply sp_at; assumption.
    - apply decor_g_new; apply raw_with_span_g, sp_at; assumption.
  Qed.
  Lemma key_raw_g : gP (fun l => keys_g bd l = true) key_raw.
  Proof.
    intros i l i' At E. unfold key_raw in E. apply try_map_ok in E as (l0 & E & Gt). destruct (check_depth _); inversion Gt; subst l0.
    apply context_ok in E. apply forallb_Forall.
    eapply (gP_separated1 (fun k => key_g bd k = true) key_part (byte_ DOT_SEP)); [np|up|np|up|apply key_part_g|exact At|exact E].
  Qed.
  Lemma key_g_ : gP (fun l => keys_g bd l = true) key_.
  Proof.
    intros i l i' At E. rewrite key_eq in E. apply bind_ok in E as (path & j & E1 & E).
    destruct (fix_key_path path) as [p|] eqn:F; [|discriminate]. apply ret_ok in E as [-> ->].
    eapply fix_key_path_g; [eapply key_raw_g; eauto|exact F].
  Qed.

  (* ---- values ----------------------------------------------------------------------------------------------------------- *)
  Lemma value_g_apply_raw v sp : value_g bd v = true -> sp_g bd sp = true -> value_g bd (apply_raw v sp) = true.
  Proof.
    intros Hv Hs. unfold apply_raw. apply value_g_decorate; [|reflexivity|reflexivity].
    destruct v as [x r d|vals tr c d sp0|items pre im dt d sp0].
    - rewrite value_g_scalar in *. apply andb_true_iff in Hv as [_ H2]. rewrite H2, andb_true_r. cbn [oraw_g]. apply raw_with_span_g, Hs.
    - rewrite value_g_array in *. apply andb4 in Hv as (H1 & H2 & H3 & _). apply andb4. repeat split; auto.
    - rewrite value_g_inline in *. apply andb4 in Hv as (H1 & H2 & H3 & _). apply andb4. repeat split; auto.
  Qed.

  Section Knot.
    Variable value_rec : parser value.
    Hypothesis Hm : mono value_rec.
    Hypothesis Hu : uP value_rec.
    Hypothesis Hg : gP (fun v => value_g bd v = true) value_rec.

    Lemma array_value_g : gP (fun it => item_g bd it = true) (array_value value_rec).
    Proof.
      intros i it i' At E. unfold array_value in E. apply bind_ok in E as (pre & j & E0 & E).
      apply bind_ok in E as (v & j0 & E1 & E). apply bind_ok in E as (suf & j1 & E2 & E). apply ret_ok in E as [-> ->].
      at_next At E0. at_next A E1. at_next A0 E2. apply span_ok in E0 as (-> & _). apply span_ok in E2 as (-> & _).
      rewrite item_g_value. apply value_g_decorate; [exact (Hg _ _ _ A E1)| |]; apply raw_with_span_g, sp_at; assumption.
    Qed.
    Lemma array_value_mono' : mono (array_value value_rec). Proof. apply array_value_mono, Hm. Qed.
    Lemma array_value_uP' : uP (array_value value_rec). Proof. apply array_value_uP, Hu. Qed.

    Lemma array_values_g : gP (fun v => value_g bd v = true) (array_values value_rec).
    Proof.
      intros i v i' At E. unfold array_values in E. apply bind_ok in E as (c & j & E0 & E). destruct c as [c|].
      - apply ret_ok in E as [-> ->]. reflexivity.
      - apply peek_ok in E0 as (-> & _). apply bind_ok in E as (vals & j0 & E1 & E). apply bind_ok in E as (comma & j1 & E2 & E).
        apply bind_ok in E as (tr & j2 & E3 & E). apply ret_ok in E as [-> ->].
        assert (A0 : at_ s j0).
        { eapply (at_step (separated0 (array_value value_rec) (byte_ ARRAY_SEP))); [| |exact At|exact E1].
          - pose proof array_value_mono'. np.
          - pose proof array_value_uP'. up. }
        assert (A1 : at_ s j1).
        { destruct vals; [apply ret_ok in E2 as [_ ->]; exact A0|]. at_next A0 E2. assumption. }
        at_next A1 E3. apply span_ok in E3 as (-> & _).
        rewrite value_g_array. apply andb4. repeat split; auto; [|apply raw_with_span_g, sp_at; assumption].
        apply forallb_Forall.
        eapply (gP_separated0 (fun it => item_g bd it = true) (array_value value_rec) (byte_ ARRAY_SEP));
          [apply array_value_mono'|apply array_value_uP'|np|up|apply array_value_g|exact At|exact E1].
    Qed.
    Lemma array_g : gP (fun v => value_g bd v = true) (array value_rec).
    Proof.
      intros i v i' At E. unfold array in E. apply bind_ok in E as (b & j & E0 & E). apply bind_ok in E as (a & j0 & E1 & E).
      apply bind_ok in E as (b2 & j1 & E2 & E). apply ret_ok in E as [-> ->]. apply cut_err_ok in E1.
      at_next At E0. eapply array_values_g; eauto.
    Qed.

    Lemma inline_keyval_g : gP (pair_g bd) (inline_keyval value_rec).
    Proof.
      intros i x i' At E. rewrite inline_keyval_eq in E. apply bind_ok in E as (kp & j & E0 & E).
      apply bind_ok in E as ([[pre v] suf] & j' & E1 & E).
      destruct (pop_key kp) as [[path k]|] eqn:P; [|discriminate]. apply ret_ok in E as [-> ->].
      pose proof (key_g_ _ _ _ At E0) as Hk. destruct (pop_key_g _ _ _ _ Hk P) as [Hpath Hkk].
      at_next At E0. unfold inline_kv_rhs in E1. apply cut_err_ok in E1.
      apply bind_ok in E1 as (x0 & j0 & F0 & E1). apply bind_ok in E1 as (x1 & j1 & F1 & E1).
      apply bind_ok in E1 as (x2 & j2 & F2 & E1). apply bind_ok in E1 as (x3 & j3 & F3 & E1).
      apply ret_ok in E1 as [X ->]. inversion X; subst x1 x2 x3. clear X.
      at_next A F0. at_next A0 F1. at_next A1 F2. at_next A2 F3. apply span_ok in F1 as (-> & _). apply span_ok in F3 as (-> & _).
      unfold pair_g; cbn [fst snd]. repeat split; auto.
      rewrite item_g_value. apply value_g_decorate; [exact (Hg _ _ _ A1 F2)| |]; apply raw_with_span_g, sp_at; assumption.
    Qed.

    Lemma inline_body_g : gP (fun v => value_g bd v = true) (inline_body value_rec).
    Proof.
      intros i v i' At E. unfold inline_body in E. apply try_map_ok in E as ([kv p] & E & Gt).
      unfold inline_kvs in E. apply bind_ok in E as (kv0 & j & E0 & E). apply bind_ok in E as (p0 & j0 & E1 & E).
      apply ret_ok in E as [X ->]. inversion X; subst kv p. clear X.
      assert (A0 : at_ s j).
      { eapply (at_step (separated0 (inline_keyval value_rec) (byte_ INLINE_TABLE_SEP))); [| |exact At|exact E0].
        - pose proof (inline_keyval_mono _ Hm). np.
        - pose proof (inline_keyval_uP _ Hu). up. }
      at_next A0 E1. apply span_ok in E1 as (-> & _).
      eapply (table_from_pairs_g bd kv0 (raw_with_span (pos j, pos j0)) v); [|apply raw_with_span_g, (sp_at j j0); assumption|exact Gt].
      eapply (gP_separated0 (pair_g bd) (inline_keyval value_rec) (byte_ INLINE_TABLE_SEP));
        [apply inline_keyval_mono, Hm|apply inline_keyval_uP, Hu|np|up|apply inline_keyval_g|exact At|exact E0].
    Qed.
    Lemma inline_table_g : gP (fun v => value_g bd v = true) (inline_table value_rec).
    Proof.
      intros i v i' At E. rewrite inline_table_eq in E. apply bind_ok in E as (b & j & E0 & E). apply bind_ok in E as (a & j0 & E1 & E).
      apply bind_ok in E as (b2 & j1 & E2 & E). apply ret_ok in E as [-> ->]. apply cut_err_ok in E1.
      at_next At E0. eapply inline_body_g; eauto.
    Qed.

    (* generic wrappers *)
    Lemma gP_context {A} (Q : A -> Prop) (p : parser A) : gP Q p -> gP Q (context p).
    Proof. intros H i a i' At E. apply context_ok in E. eapply H; eauto. Qed.
    Lemma gP_alt {A} (Q : A -> Prop) (p q : parser A) : gP Q p -> gP Q q -> gP Q (alt p q).
    Proof.
      intros Hp Hq i a i' At E. unfold alt in E. destruct (p i) eqn:E1; try discriminate.
      - eapply Hp; [exact At|]. rewrite E1. exact E.
      - eapply Hq; eauto.
    Qed.
    Lemma gP_fail {A} (Q : A -> Prop) : gP Q (@fail A). Proof. intros i a i' _ E. discriminate. Qed.
    Lemma gP_scalar {A} (p : parser A) (f : A -> scalar) : gP (fun v => value_g bd v = true) (pmap (fun x => scalar_value (f x)) p).
    Proof. intros i v i' At E. apply pmap_ok in E as (a & _ & ->). reflexivity. Qed.
    Lemma gP_check_recursion {A} (Q : A -> Prop) (p : parser A) : gP Q p -> gP Q (check_recursion p).
    Proof.
      intros H i a i' At E. apply check_recursion_inv in E as (i2 & d & E & D & ->). eapply (H (set_depth (S (depth i)) i)); [|exact E].
      destruct At as (C & L & V). repeat split; assumption.
    Qed.

    Lemma value_body_g : gP (fun v => value_g bd v = true) (value_body value_rec).
    Proof.
      intros i v i' At E. unfold value_body in E. apply bind_ok in E as (b & j & E0 & E). apply context_ok, peek_ok in E0 as (-> & _).
      revert i v i' At E. change (gP (fun v => value_g bd v = true)
        (if byte_eqb b QUOTATION_MARK || byte_eqb b APOSTROPHE then pmap (fun s0 => scalar_value (SString s0)) string_
         else if byte_eqb b ARRAY_OPEN then check_recursion (array value_rec)
         else if byte_eqb b INLINE_TABLE_OPEN then check_recursion (inline_table value_rec)
         else if in_class VALUE_NUMBER_START b then
           pmap (fun d => scalar_value (SDatetime d)) date_time <|> pmap (fun f => scalar_value (SFloat f)) float
           <|> pmap (fun z => scalar_value (SInt z)) integer
         else if byte_eqb b x5f then context (pmap (fun z => scalar_value (SInt z)) integer)
         else if byte_eqb b x2e then context (pmap (fun f => scalar_value (SFloat f)) float)
         else if byte_eqb b x74 then context (pmap (fun v => scalar_value (SBool v)) true_)
         else if byte_eqb b x66 then context (pmap (fun v => scalar_value (SBool v)) false_)
         else if byte_eqb b x69 then context (pmap (fun f => scalar_value (SFloat f)) inf)
         else if byte_eqb b x6e then context (pmap (fun f => scalar_value (SFloat f)) nan)
         else context fail)).
      repeat match goal with |- gP _ (if ?c then _ else _) => destruct c end;
        repeat apply gP_context; repeat apply gP_alt; try apply gP_scalar; try apply gP_fail.
      - apply gP_check_recursion, array_g.
      - apply gP_check_recursion, inline_table_g.
    Qed.

    Lemma value_step_g : gP (fun v => value_g bd v = true) (value_step value_rec).
    Proof.
      intros i v i' At E. apply value_step_exact in E as (v0 & E & ->).
      assert (A' : at_ s i').
      { eapply (at_step (value_body value_rec)); [apply value_body_mono, Hm|apply value_body_uP, Hu|exact At|exact E]. }
      apply value_g_apply_raw; [exact (value_body_g i v0 i' At E)|apply sp_at; assumption].
    Qed.
  End Knot.

  Lemma value_f_g n : gP (fun v => value_g bd v = true) (value_f n).
  Proof.
    induction n as [|n IH]; [intros i v i' _ E; discriminate|].
    change (value_f (S n)) with (value_step (value_f n)). apply value_step_g; [apply value_f_all|apply value_f_uP|exact IH].
  Qed.
  Lemma value_g_ : gP (fun v => value_g bd v = true) value_.
  Proof. intros i v i' At E. eapply value_f_g; eauto. Qed.

  (* ---- document lines ---------------------------------------------------------------------------------------------------------- *)
  Lemma parse_keyval_g : gP (pair_g bd) parse_keyval.
  Proof.
    intros i x i' At E. rewrite parse_keyval_eq in E. apply bind_ok in E as (kp & j & E0 & E).
    apply bind_ok in E as ([[pre v] suf] & j' & E1 & E).
    destruct (pop_key kp) as [[path k]|] eqn:P; [|discriminate]. apply ret_ok in E as [-> ->].
    pose proof (key_g_ _ _ _ At E0) as Hk. destruct (pop_key_g _ _ _ _ Hk P) as [Hpath Hkk].
    at_next At E0. unfold kv_rhs in E1. apply cut_err_ok in E1.
    apply bind_ok in E1 as (x0 & j0 & F0 & E1). apply bind_ok in E1 as (x1 & j1 & F1 & E1).
    apply bind_ok in E1 as (x2 & j2 & F2 & E1). apply bind_ok in E1 as (x3 & j3 & F3 & E1).
    apply ret_ok in E1 as [X ->]. inversion X; subst x1 x2 x3. clear X.
    at_next A F0. at_next A0 F1. at_next A1 F2. apply span_ok in F1 as (-> & _).
    apply context_ok in F3. unfold line_trailing, terminated in F3.
    apply bind_ok in F3 as (sp & j4 & G0 & F3). apply bind_ok in F3 as (u & j5 & G1 & F3). apply ret_ok in F3 as [-> ->].
    at_next A2 G0. apply span_ok in G0 as (-> & _).
    unfold pair_g; cbn [fst snd]. repeat split; auto.
    rewrite item_g_value. apply value_g_decorate; [exact (value_g_ _ _ _ A1 F2)| |]; apply raw_with_span_g, sp_at; assumption.
  Qed.

  Definition stG (q : pstate -> parser pstate) : Prop :=
    forall st i st' i', at_ s i -> q st i = Ok st' i' -> st_g bd st -> st_g bd st'.

  Lemma keyval_stG : stG keyval.
  Proof.
    intros st i st' i' At E Hst. unfold keyval in E. apply try_map_ok in E as ([path [k v]] & E & Gt).
    apply lift_state_ok in Gt. destruct (parse_keyval_g _ _ _ At E) as (H1 & H2 & H3). cbn [fst snd] in *.
    eapply on_keyval_sp_g; eauto.
  Qed.

  Lemma header_stG ia : stG (header ia).
  Proof.
    intros st i st' i' At E Hst. rewrite header_eq in E. apply try_map_ok in E as ([[h sp] t] & E & Gt).
    apply lift_state_ok in Gt. unfold header_syntax in E. cbv zeta in E. unfold pair_ in E.
    apply bind_ok in E as (a & j & E0 & E). apply bind_ok in E as (a0 & j0 & E1 & E).
    apply ret_ok in E as [X ->]. inversion X; subst a a0. clear X.
    assert (A0 : at_ s j) by (eapply (at_step _ s i _ j); [| |exact At|exact E0]; destruct ia; [np|np|up|up]).
    apply with_span_ok in E0 as (S & E0). cbn [fst snd] in *. subst sp.
    unfold delimited in E0. apply bind_ok in E0 as (o & k0 & F0 & E0). apply bind_ok in E0 as (b & k1 & F1 & E0).
    apply bind_ok in E0 as (c & k2 & F2 & E0). apply ret_ok in E0 as [-> ->]. apply cut_err_ok in F1.
    assert (Ak0 : at_ s k0) by (eapply (at_step _ s i _ k0); [| |exact At|exact F0]; destruct ia; [np|np|up|up]).
    pose proof (key_g_ _ _ _ Ak0 F1) as Hh.
    apply context_ok, cut_err_ok in E1. unfold line_trailing, terminated in E1.
    apply bind_ok in E1 as (sp & j4 & G0 & E1). apply bind_ok in E1 as (u & j5 & G1 & E1). apply ret_ok in E1 as [-> ->].
    at_next A0 G0. apply span_ok in G0 as (-> & _).
    eapply on_header_g; [exact Hst|exact Hh| | |exact Gt]; apply sp_at; assumption.
  Qed.

  Lemma table_stG : stG table.
  Proof.
    intros st i st' i' At E Hst. unfold table in E. apply context_ok in E. apply bind_ok in E as (two & j & E0 & E).
    apply peek_ok in E0 as (-> & _). destruct (bytes_eqb _ _); eapply header_stG; eauto.
  Qed.

  Lemma on_ws_stG {A} (p : parser A) : mono p -> uP p -> stG (fun st => pmap (on_ws st) (span_ p)).
  Proof.
    intros Mp Up st i st' i' At E Hst. apply pmap_ok in E as (sp & E & ->). apply span_ok in E as (-> & x & E).
    apply st_g_on_ws; [exact Hst|]. apply sp_at; [exact At|eapply (at_step p); eauto].
  Qed.
  Lemma parse_ws_stG : stG parse_ws. Proof. apply (on_ws_stG ws); [np|up]. Qed.
  Lemma parse_newline_stG : stG parse_newline. Proof. apply (on_ws_stG newline); [np|up]. Qed.
  Lemma parse_comment_stG : stG parse_comment. Proof. apply (on_ws_stG (comment ;;; context line_ending)); [np|up]. Qed.

  Lemma doc_item_stG b : stG (fun st => doc_item st b).
  Proof.
    intros st i st' i' At E Hst. unfold doc_item in E.
    destruct (byte_eqb b COMMENT_START_SYMBOL); [apply cut_err_ok in E; eapply parse_comment_stG; eauto|].
    destruct (byte_eqb b STD_TABLE_OPEN); [apply cut_err_ok in E; eapply table_stG; eauto|].
    destruct (_ || _); [eapply parse_newline_stG; eauto|]. apply cut_err_ok in E. eapply keyval_stG; eauto.
  Qed.

  Lemma doc_item_uP st b : uP (doc_item st b).
  Proof. unfold doc_item. up. Qed.

  Lemma doc_line_stG : stG doc_line.
  Proof.
    intros st i st' i' At E Hst. rewrite doc_line_eq in E. apply bind_ok in E as (b & j & E0 & E).
    apply bind_ok in E as (st1 & j1 & E1 & E). apply peek_ok in E0 as (-> & _).
    assert (A1 : at_ s j1) by (eapply (at_step (doc_item st b)); [apply doc_item_mono|apply doc_item_uP|exact At|exact E1]).
    eapply parse_ws_stG; [exact A1|exact E|]. exact (doc_item_stG b st i st1 j1 At E1 Hst).
  Qed.

  Lemma doc_loop_g : forall fuel st i st' i', at_ s i -> doc_loop fuel st i = Ok st' i' -> st_g bd st -> st_g bd st'.
  Proof.
    induction fuel as [|f IH]; intros st i st' i' At H Hst; cbn [doc_loop] in H; [discriminate|].
    destruct (doc_line st i) as [s1 i1|? ?|? ?|?] eqn:E; try discriminate.
    - destruct (Nat.eqb _ _); [discriminate|].
      assert (A1 : at_ s i1) by (eapply (at_step (doc_line st)); [apply doc_line_mono|apply doc_line_uP|exact At|exact E]).
      eapply IH; [exact A1|exact H|]. exact (doc_line_stG st i s1 i1 At E Hst).
    - inversion H; subst. exact Hst.
  Qed.

  Lemma lit_bom_uP : uP (lit bom).
  Proof.
    apply uP_checked.
    - intros i b i' E. apply lit_inv in E as (-> & _ & R). exists []. split; [reflexivity|exact R].
    - intros i b i' E. apply lit_inv in E as (-> & _). reflexivity.
  Qed.

  Lemma document_g st i' : utf8_valid_b s = true -> document (new_input s) = Ok st i' -> st_g bd st.
  Proof.
    intros V E. rewrite document_eq in E.
    apply bind_ok in E as (o & j0 & E0 & E). apply bind_ok in E as (st0 & j1 & E1 & E).
    apply bind_ok in E as (st1 & j2 & E2 & E). apply bind_ok in E as (u & j3 & E3 & E). apply ret_ok in E as [-> ->].
    pose proof (at_new s V) as A0.
    assert (A1 : at_ s j0) by (eapply (at_step (opt (lit bom))); [np|apply uP_opt, lit_bom_uP|exact A0|exact E0]).
    assert (A2 : at_ s j1) by (eapply (at_step (parse_ws state_new)); [apply parse_ws_mono|apply parse_ws_uP|exact A1|exact E1]).
    eapply doc_loop_g; [exact A2|exact E2|]. eapply parse_ws_stG; [exact A1|exact E1|].
    apply st_g_new. apply (bd_at _ A0).
  Qed.
End S.

(* C14, character boundaries: for a well-formed UTF-8 source, every span endpoint is a character boundary *)
Theorem spans_on_char_boundaries s d :
  utf8_valid_b s = true -> parse_document s = POk d ->
  Forall (fun sp => char_boundary_b s (fst sp) = true /\ char_boundary_b s (snd sp) = true) (all_spans d).
Proof.
  intros V H. unfold parse_document in H. destruct (parse_all document s) as [fin| |] eqn:E; try discriminate.
  apply parse_all_done_eof in E as (i & E & R). pose proof (document_g s fin i V E) as Hg.
  destruct (finalize_table fin) as [st'| |] eqn:F; try discriminate. inversion H; subst d. clear H.
  destruct (finalize_g _ _ _ Hg F) as (Hr & Htr & _ & _). destruct Hg as (_ & _ & Ht & _).
  unfold all_spans; cbn [doc_root doc_trailing]. apply Forall_app. split.
  - pose proof (proj2 (proj2 (tree_spans_g (bd s))) _ Hr) as X. apply forallb_Forall in X.
    eapply Forall_impl; [|exact X]. intros sp Y. unfold sp_g, bd in Y. apply andb_true_iff in Y. exact Y.
  - rewrite Htr. destruct (st_trailing fin) as [sp|]; [|constructor]. unfold raw_with_span.
    destruct (fst sp =? snd sp)%N; [constructor|]. cbn. constructor; [|constructor]. cbn [fst snd].
    cbn [osp_g] in Ht. unfold sp_g, bd in Ht. apply andb_true_iff in Ht. exact Ht.
Qed.

Lemma parse_document_g s d :
  utf8_valid_b s = true -> parse_document s = POk d ->
  tbl_g (bd s) (doc_root d) = true /\ raw_g (bd s) (doc_trailing d) = true.
Proof.
  intros V H. unfold parse_document in H. destruct (parse_all document s) as [fin| |] eqn:E; try discriminate.
  apply parse_all_done_eof in E as (i & E & R). pose proof (document_g s fin i V E) as Hg.
  destruct (finalize_table fin) as [st'| |] eqn:F; try discriminate. inversion H; subst d. clear H.
  destruct (finalize_g _ _ _ Hg F) as (Hr & Htr & _ & _). destruct Hg as (_ & _ & Ht & _).
  cbn [doc_root doc_trailing]. split; [exact Hr|]. rewrite Htr.
  destruct (st_trailing fin) as [sp|]; [apply raw_with_span_g, Ht|reflexivity].
Qed.
