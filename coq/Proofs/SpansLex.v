(* Proofs/SpansLex.v — C14: keys (key.rs) and line trivia record spans inside the text they consumed.
   Exact windows: the repr of a simple key is exactly the window of its token. *)
From TV Require Import Base.Prelude Base.Utf8 Base.Winnow Gen.Consts Spec.Abnf.
From TV Require Import Model.Trivia Model.Strings Model.Datetime Model.Numbers Model.Tree Model.Parse Model.Document.
From TV Require Import Proofs.ConstsOk Proofs.NoPanicBase Proofs.NoPanicLex Proofs.NoPanicState Proofs.SpansDefs Proofs.SpansBase.
Require Import Lia ZifyBool ZifyN ZifyNat.

Ltac binds E :=
  repeat (let a := fresh "a" in let j := fresh "j" in let E1 := fresh "E" in
          apply bind_ok in E as (a & j & E1 & E)).
Ltac pos_le E :=
  match type of E with
  | ?p ?i = Ok _ ?i' =>
    let M := fresh "M" in assert (M : (pos i <= pos i')%N) by (eapply mono_le; [|exact E]; np)
  end.

(* ---- sequence helpers ------------------------------------------------------------------------------- *)
Lemma winP_terminated {A B} (Q : N -> N -> A -> Prop) (p : parser A) (q : parser B) :
  mono p -> mono q -> winP Q p -> winP Q (terminated p q).
Proof.
  intros Mp Mq Hp lo hi i a i' E L U. unfold terminated in E. binds E. apply ret_ok in E as [-> ->].
  pose proof (mono_le _ _ _ _ Mq E1). eapply Hp; [exact E0|exact L|lia].
Qed.
Lemma winP_preceded {A B} (Q : N -> N -> B -> Prop) (p : parser A) (q : parser B) :
  mono p -> winP Q q -> winP Q (preceded p q).
Proof. intros Mp Hq. unfold preceded. apply winP_bind_r; [exact Mp|]. intros _. exact Hq. Qed.
Lemma winP_delimited {A B D} (Q : N -> N -> B -> Prop) (p : parser A) (q : parser B) (r : parser D) :
  mono p -> mono q -> mono r -> winP Q q -> winP Q (delimited p q r).
Proof.
  intros Mp Mq Mr Hq lo hi i b i' E L U. unfold delimited in E. binds E. apply ret_ok in E as [-> ->].
  pose proof (mono_le _ _ _ _ Mp E0). pose proof (mono_le _ _ _ _ Mr E2). eapply Hq; [exact E1|lia|lia].
Qed.
Lemma winP_pair_ {A B} (Q : N -> N -> A -> Prop) (R : N -> N -> B -> Prop) (p : parser A) (q : parser B) :
  mono p -> mono q -> winP Q p -> winP R q -> winP (fun lo hi x => Q lo hi (fst x) /\ R lo hi (snd x)) (pair_ p q).
Proof.
  intros Mp Mq Hp Hq lo hi i x i' E L U. unfold pair_ in E. binds E. apply ret_ok in E as [-> ->]. cbn [fst snd].
  pose proof (mono_le _ _ _ _ Mp E0). pose proof (mono_le _ _ _ _ Mq E1).
  split; [eapply Hp; [exact E0|lia|lia]|eapply Hq; [exact E1|lia|lia]].
Qed.

(* ---- trivia --------------------------------------------------------------------------------------------- *)
Lemma line_trailing_win : winP (fun lo hi sp => sp_in lo hi sp = true) line_trailing.
Proof. unfold line_trailing. apply winP_terminated; [np|np|]. apply winP_span_. np. Qed.

(* ---- simple_key ------------------------------------------------------------------------------------------ *)
Definition simple_key_body : parser bytes :=
  b <- peek any ;;
  if byte_eqb b QUOTATION_MARK then basic_string
  else if byte_eqb b APOSTROPHE then literal_string
  else unquoted_key.
Lemma simple_key_eq : simple_key = pmap (fun '(k, sp) => (raw_with_span sp, k)) (with_span (context simple_key_body)).
Proof. reflexivity. Qed.
Lemma simple_key_body_mono : mono simple_key_body. Proof. unfold simple_key_body. np. Qed.
Lemma simple_key_body_progress : progress simple_key_body. Proof. unfold simple_key_body. np. Qed.

(* the repr of a simple key is exactly the window of the key token, and the window is not empty *)
Lemma simple_key_exact i r k i' :
  simple_key i = Ok (r, k) i' ->
  r = RSpanned (pos i) (pos i') /\ (pos i < pos i')%N /\ simple_key_body i = Ok k i'.
Proof.
  rewrite simple_key_eq. intro E. apply pmap_ok in E as ([k0 sp] & E & X). inversion X; subst r k0.
  apply with_span_ok in E as (S & E). cbn [fst snd] in *. subst sp. apply context_ok in E.
  pose proof (simple_key_body_progress _ _ _ E) as G. pose proof (simple_key_body_mono _ _ _ E) as M.
  assert (P : (pos i < pos i')%N).
  { destruct M as (t & R & P & _). rewrite R, app_length in G. lia. }
  repeat split; [|exact P|exact E]. unfold raw_with_span; cbn [fst snd].
  destruct (pos i =? pos i')%N eqn:Q; [lia|reflexivity].
Qed.
Lemma simple_key_win : winP (fun lo hi x => raw_in lo hi (fst x) = true) simple_key.
Proof.
  intros lo hi i [r k] i' E L U. apply simple_key_exact in E as (-> & P & _). cbn [fst].
  unfold raw_in; cbn [raw_span osp_in]. unfold sp_in; cbn [fst snd]. lia.
Qed.

(* ---- key_part / key ---------------------------------------------------------------------------------------- *)
(* a key as `key_part` leaves it: repr = window of its token, dotted decor = the blanks around it *)
Lemma key_part_exact i k i' :
  key_part i = Ok k i' ->
  exists a b, (pos i <= a)%N /\ (a < b)%N /\ (b <= pos i')%N
              /\ k_repr k = Some (RSpanned a b) /\ k_leaf k = decor_default
              /\ k_dotted k = decor_new (raw_with_span (pos i, a)) (raw_with_span (b, pos i')).
Proof.
  unfold key_part. intro E. binds E. destruct a0 as [r kk]. binds E. apply ret_ok in E as [-> ->].
  apply span_ok in E0 as (-> & x0 & E0). apply span_ok in E2 as (-> & x2 & E2).
  apply simple_key_exact in E1 as (-> & P & _). pos_le E0. pos_le E2.
  exists (pos j), (pos j0). cbn [k_repr k_leaf k_dotted]. repeat split; auto.
Qed.
Lemma key_part_win : winP (fun lo hi k => key_in lo hi k = true) key_part.
Proof.
  intros lo hi i k i' E L U. apply key_part_exact in E as (a & b & H1 & H2 & H3 & R & Lf & D).
  unfold key_in. rewrite R, Lf, D. cbn [oraw_in]. apply andb3. repeat split.
  - unfold raw_in; cbn [raw_span osp_in]. unfold sp_in; cbn [fst snd]. lia.
  - apply decor_in_new; apply raw_with_span_in; unfold sp_in; cbn [fst snd]; lia.
Qed.

Definition keys_in (lo hi : N) (l : list key) : bool := forallb (key_in lo hi) l.

Lemma forallb_Forall {A} (f : A -> bool) l : forallb f l = true <-> Forall (fun x => f x = true) l.
Proof.
  induction l as [|a l IH]; cbn [forallb]; [split; auto|]. rewrite andb_true_iff, IH. split.
  - intros [H1 H2]. constructor; assumption.
  - intro H. inversion H; subst. auto.
Qed.

Lemma key_in_set_leaf lo hi k d : key_in lo hi k = true -> decor_in lo hi d = true -> key_in lo hi (set_leaf k d) = true.
Proof.
  unfold key_in, set_leaf; cbn [k_repr k_leaf k_dotted]. intros H Hd. apply andb3 in H as (H1 & _ & H3).
  rewrite H1, Hd, H3. reflexivity.
Qed.
Lemma key_in_set_dotted_prefix lo hi k : key_in lo hi k = true -> key_in lo hi (set_dotted_prefix k REmpty) = true.
Proof.
  unfold key_in, set_dotted_prefix; cbn [k_repr k_leaf k_dotted]. intros H. apply andb3 in H as (H1 & H2 & H3).
  rewrite H1, H2. unfold decor_in in *; cbn [d_prefix d_suffix oraw_in]. apply andb_true_iff in H3 as [_ H3].
  rewrite H3. reflexivity.
Qed.
Lemma key_in_set_dotted_suffix lo hi k : key_in lo hi k = true -> key_in lo hi (set_dotted_suffix k REmpty) = true.
Proof.
  unfold key_in, set_dotted_suffix; cbn [k_repr k_leaf k_dotted]. intros H. apply andb3 in H as (H1 & H2 & H3).
  rewrite H1, H2. unfold decor_in in *; cbn [d_prefix d_suffix oraw_in]. apply andb_true_iff in H3 as [H3 _].
  rewrite H3. reflexivity.
Qed.
Lemma key_in_dotted lo hi k : key_in lo hi k = true ->
  oraw_in lo hi (d_prefix (k_dotted k)) = true /\ oraw_in lo hi (d_suffix (k_dotted k)) = true.
Proof. unfold key_in, decor_in. intro H. apply andb3 in H as (_ & _ & H). apply andb_true_iff in H. exact H. Qed.

Lemma keys_in_rev lo hi l : keys_in lo hi (rev l) = keys_in lo hi l.
Proof.
  unfold keys_in. induction l as [|a l IH]; [reflexivity|]. cbn [rev forallb]. rewrite forallb_app, IH. cbn [forallb].
  rewrite andb_true_r. apply andb_comm.
Qed.

(* the decor shuffle at the end of `key` moves raw strings between keys of the same path *)
Lemma fix_key_path_in lo hi path p :
  keys_in lo hi path = true -> fix_key_path path = Some p -> keys_in lo hi p = true.
Proof.
  unfold fix_key_path. destruct path as [|first tl]; [discriminate|]. intros H E.
  cbn [keys_in forallb] in H. apply andb_true_iff in H as [Hf Ht].
  set (leaf_pre := match d_prefix (k_dotted first) with Some p0 => p0 | None => REmpty end) in *.
  set (first' := match d_prefix (k_dotted first) with Some _ => set_dotted_prefix first REmpty | None => first end) in *.
  assert (Hlp : raw_in lo hi leaf_pre = true).
  { subst leaf_pre. destruct (key_in_dotted _ _ _ Hf) as [H1 _]. destruct (d_prefix (k_dotted first)); [exact H1|reflexivity]. }
  assert (Hf' : key_in lo hi first' = true).
  { subst first'. destruct (d_prefix (k_dotted first)); [apply key_in_set_dotted_prefix|]; exact Hf. }
  assert (Hall : keys_in lo hi (rev (first' :: tl)) = true).
  { rewrite keys_in_rev. cbn [keys_in forallb]. rewrite Hf'. exact Ht. }
  destruct (rev (first' :: tl)) as [|last rinit]; [discriminate|]. inversion E; subst p. clear E.
  cbn [keys_in forallb] in Hall. apply andb_true_iff in Hall as [Hl Hr].
  unfold keys_in. rewrite forallb_app, forallb_rev, Hr. cbn [forallb andb]. rewrite andb_true_r.
  apply key_in_set_leaf.
  - destruct (d_suffix (k_dotted last)); [apply key_in_set_dotted_suffix|]; exact Hl.
  - apply decor_in_new; [exact Hlp|]. destruct (key_in_dotted _ _ _ Hl) as [_ H2].
    destruct (d_suffix (k_dotted last)); [exact H2|reflexivity].
Qed.

Lemma key_raw_win : winP (fun lo hi l => keys_in lo hi l = true) key_raw.
Proof.
  unfold key_raw. eapply winP_try_map; [apply winP_context, winP_separated1; [np|np|apply key_part_win]|].
  intros lo hi l b H E. cbn beta in H. destruct (check_depth _); inversion E; subst. apply forallb_Forall, H.
Qed.
Lemma key_win : winP (fun lo hi l => keys_in lo hi l = true) key_.
Proof.
  rewrite key_eq. eapply winP_bind; [apply key_raw_mono| |apply key_raw_win|].
  - intro path. destruct (fix_key_path path); np.
  - intros path lo hi i p i' E L U H. destruct (fix_key_path path) as [p0|] eqn:F; [|discriminate].
    apply ret_ok in E as [-> ->]. eapply fix_key_path_in; eauto.
Qed.

Lemma pop_key_in lo hi kp path k :
  keys_in lo hi kp = true -> pop_key kp = Some (path, k) -> keys_in lo hi path = true /\ key_in lo hi k = true.
Proof.
  unfold pop_key. intros H E. rewrite <- keys_in_rev in H. destruct (rev kp) as [|last rinit]; [discriminate|].
  inversion E; subst. cbn [keys_in forallb] in H. apply andb_true_iff in H as [H1 H2]. rewrite keys_in_rev. auto.
Qed.
