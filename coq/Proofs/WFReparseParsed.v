(* Proofs/WFReparseParsed.v — C03, general clause, for parsed documents: with `parse_WF` (Proofs/WFParseTop.v) the only
   premises left are about the ORDER of the sections (`order_b`: the positions do not decrease along the tree walk)
   and the resulting data (`abs_doc_of` of the despanned tree is the document's data — it is when, in every table, the
   key/value lines were written before the sub-tables, and no super-table received a dotted key, class U1). *)
From TV Require Import Base.Prelude Base.Utf8 Base.Winnow Gen.Consts Spec.Abnf Spec.Lex Spec.Defs Spec.DatetimeSpec Spec.Syntax Spec.WF.
From TV Require Import Model.Datetime Model.Numbers Model.Tree Model.Parse Model.Document Model.Write Model.Encode.
From TV Require Import Proofs.GrammarBase Proofs.PrintBackBase.
From TV Require Import Proofs.WFBool Proofs.WFBoolSound Proofs.WFTree Proofs.WFPrintTop Proofs.WFReparse Proofs.WFParseTop.

Theorem parsed_WF s d r t :
  parse_document s = POk d -> tbl_despan s (doc_root d) = Some r -> raw_despan s (doc_trailing d) = Some t ->
  order_ok r -> WFdoc r t.
Proof.
  intros Hp Er Et Ho. destruct (parse_WF s d r t Hp Er Et) as [(H1 & H2 & H3) H4]. split; [|exact H4]. split; [exact H1|]. split; [exact H2|]. split; [exact H3|exact Ho].
Qed.

Definition order_data_check (s : bytes) (d : doc) : bool :=
  match tbl_despan s (doc_root d) with
  | Some r => order_b r && stree_eqb (abs_doc_of r) (abs_doc d)
  | None => false
  end.

Theorem reparse_ordered s d o :
  parse_document s = POk d -> print_doc s d = Some o -> order_data_check s d = true ->
  exists d', parse_document o = POk d' /\ abs_doc d' = abs_doc d.
Proof.
  intros Hp Ho Hc. unfold print_doc in Ho. unfold order_data_check in Hc.
  destruct (tbl_despan s (doc_root d)) as [r|] eqn:Er; [|discriminate]. destruct (raw_despan s (doc_trailing d)) as [t|] eqn:Et; [|discriminate].
  injection Ho as <-. apply andb_true_iff in Hc as [H1 H2].
  assert (Ho : order_ok r) by (apply nondecreasing_b_sound, H1).
  destruct (reparse_of_wf s d r t Hp Er Et (parsed_WF s d r t Hp Er Et Ho) (stree_eqb_eq _ _ H2)) as (_ & d' & P & A). eauto.
Qed.
