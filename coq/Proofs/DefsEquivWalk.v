(* Proofs/DefsEquivWalk.v — C09: the bridge between ParseState::descend_path
   (`with_table_at`) and the spec walkers (`at_path_x`, `insert_kv`). *)
From TV Require Import Base.Prelude Base.Winnow Model.Tree Model.Parse Model.Document Spec.Defs.
From TV Require Import Proofs.DefsEquivBase Proofs.DefsEquivSpec Proofs.DefsEquivKv.

(* ---- abstraction vs association-list operations ------------------------------------------ *)
Lemma abs_get m k :
  sget (abs_items m) k = match kv_get m k with Some (_, it) => Some (abs_item it) | None => None end.
Proof.
  induction m as [|[k' it] tl IH]; cbn [abs_items map abs_kv fst snd sget kv_get]; [reflexivity|].
  destruct (bytes_eqb (k_key k') k); [reflexivity | exact IH].
Qed.

Lemma abs_set m k it : abs_items (kv_set m k it) = sset (abs_items m) k (abs_item it).
Proof.
  induction m as [|[k' it'] tl IH]; cbn [abs_items map abs_kv fst snd sset kv_set]; [reflexivity|].
  destruct (bytes_eqb (k_key k') k); cbn [map abs_kv fst snd]; [reflexivity|].
  f_equal. exact IH.
Qed.

Lemma abs_push m k it : abs_items (kv_push m k it) = spush (abs_items m) (k_key k) (abs_item it).
Proof. unfold abs_items, kv_push, spush. rewrite map_app. reflexivity. Qed.

Lemma abs_remove m k : abs_items (kv_remove m k) = sremove (abs_items m) k.
Proof.
  induction m as [|[k' it'] tl IH]; cbn [abs_items map abs_kv fst snd sremove kv_remove]; [reflexivity|].
  destruct (bytes_eqb (k_key k') k); cbn [map abs_kv fst snd]; [reflexivity|].
  f_equal. exact IH.
Qed.

Lemma abs_set_items t m : abs_tbl (t_set_items t m) = abs_items m.
Proof. rewrite abs_tbl_eq. destruct t. reflexivity. Qed.
Lemma implicit_set_items t m : t_implicit (t_set_items t m) = t_implicit t.
Proof. destruct t. reflexivity. Qed.
Lemma dotted_set_items t m : t_dotted (t_set_items t m) = t_dotted t.
Proof. destruct t. reflexivity. Qed.
Lemma items_set_items t m : t_items (t_set_items t m) = m.
Proof. destruct t. reflexivity. Qed.

Lemma kind_of_flags t t' :
  t_implicit t' = t_implicit t -> t_dotted t' = t_dotted t -> kind_of t' = kind_of t.
Proof. unfold kind_of. intros -> ->. reflexivity. Qed.

(* ---- mok vs association-list operations ---------------------------------------------------- *)
Lemma mok_get m k k' it : mok_items m = true -> kv_get m k = Some (k', it) -> mok_item it = true.
Proof.
  unfold mok_items. induction m as [|[k0 it0] tl IH]; cbn [kv_get forallb snd]; [discriminate|].
  intro H. apply andb_true_iff in H as [H1 H2].
  destruct (bytes_eqb (k_key k0) k); [intro E; inversion E; subst; exact H1 | apply IH; exact H2].
Qed.

Lemma mok_set m k it : mok_items m = true -> mok_item it = true -> mok_items (kv_set m k it) = true.
Proof.
  unfold mok_items. intros H Hi. induction m as [|[k0 it0] tl IH]; cbn [kv_set]; [reflexivity|].
  cbn [forallb snd] in H. apply andb_true_iff in H as [H1 H2].
  destruct (bytes_eqb (k_key k0) k); cbn [forallb snd].
  - rewrite Hi, H2. reflexivity.
  - rewrite H1, (IH H2). reflexivity.
Qed.

Lemma mok_push m k it : mok_items m = true -> mok_item it = true -> mok_items (kv_push m k it) = true.
Proof.
  unfold mok_items, kv_push. intros H Hi. rewrite forallb_app, H. cbn [forallb snd]. rewrite Hi. reflexivity.
Qed.

Lemma mok_remove m k : mok_items m = true -> mok_items (kv_remove m k) = true.
Proof.
  unfold mok_items. intros H. induction m as [|[k0 it0] tl IH]; cbn [kv_remove]; [reflexivity|].
  cbn [forallb snd] in H. apply andb_true_iff in H as [H1 H2].
  destruct (bytes_eqb (k_key k0) k); [exact H2|]. cbn [forallb snd]. rewrite H1, (IH H2). reflexivity.
Qed.

Lemma mok_set_items t m : mok_tbl (t_set_items t m) = mok_items m.
Proof. rewrite mok_tbl_eq. destruct t. reflexivity. Qed.

Lemma mok_aot_last ts sp last rinit :
  mok_item (IAot ts sp) = true -> rev ts = last :: rinit ->
  t_dotted last = false /\ mok_tbl last = true /\ forallb mok_elem (rev rinit) = true.
Proof.
  rewrite mok_item_aot. intros H Hr.
  assert (Hts : ts = rev rinit ++ [last]) by (rewrite <- (rev_involutive ts), Hr; reflexivity).
  subst ts. rewrite forallb_app in H. apply andb_true_iff in H as [H1 H2].
  cbn [forallb] in H2. rewrite andb_true_r in H2. unfold mok_elem in H2.
  apply andb_true_iff in H2 as [H2 H3]. apply negb_true_iff in H2. auto.
Qed.

Lemma mok_aot_snoc l t sp :
  forallb mok_elem l = true -> t_dotted t = false -> mok_tbl t = true -> mok_item (IAot (l ++ [t]) sp) = true.
Proof.
  intros H1 H2 H3. rewrite mok_item_aot, forallb_app, H1. cbn [forallb]. unfold mok_elem. rewrite H2, H3. reflexivity.
Qed.

Definition empty_implicit (dotted : bool) : tbl := Tbl [] decor_default true dotted None None.

(* ---- descend_path(dotted = false) vs at_path_x: the accepting direction ------------------- *)
Definition okres {X Y} (phi : X -> Y -> Prop) (t : tbl) (r : cres (tbl * X)) (T' : stree value) (y : Y) : Prop :=
  exists t' x, r = COk (t', x) /\ abs_tbl t' = T' /\ phi x y /\ mok_tbl t' = true /\
               t_implicit t' = t_implicit t /\ t_dotted t' = t_dotted t.

Lemma wta_ok {X Y} (phi : X -> Y -> Prop) (f : tbl -> cres (tbl * X)) (g : stree value -> res (stree value * Y)) :
  (forall t0 T' y, mok_tbl t0 = true -> g (abs_tbl t0) = ROk (T', y) -> okres phi t0 (f t0) T' y) ->
  forall p t T' y, mok_tbl t = true -> at_path_x (keys p) g (abs_tbl t) = ROk (T', y) ->
                   okres phi t (with_table_at t p false f) T' y.
Proof.
  intros Hfg. induction p as [|k ptl IH]; intros t T' y Hm H.
  - cbn [keys map at_path_x with_table_at] in *. apply Hfg; assumption.
  - cbn [keys map at_path_x] in H. fold (keys ptl) in H. cbn [with_table_at].
    rewrite abs_tbl_eq, abs_get in H. rewrite mok_tbl_eq in Hm.
    destruct (kv_get (t_items t) (k_key k)) as [[k' it]|] eqn:E.
    + pose proof (mok_get _ _ _ _ Hm E) as Hit.
      destruct it as [|v|sub|ts sp].
      * discriminate.
      * discriminate.
      * cbn [abs_item] in H. cbn [mok_item] in Hit.
        destruct (at_path_x (keys ptl) g (abs_tbl sub)) as [[c1 y1]| |] eqn:E1; cbn [rbind fst snd] in H; inversion H; subst.
        destruct (IH _ _ _ Hit E1) as (sub' & x & Hr & Ha & Hp & Hm' & Hi & Hd).
        cbn [andb]. rewrite Hr. exists (t_set_items t (kv_set (t_items t) (k_key k) (ITable sub'))), x.
        split; [reflexivity|]. split.
        { rewrite abs_set_items, abs_set. cbn [abs_item]. rewrite (kind_of_flags _ _ Hi Hd), Ha. reflexivity. }
        split; [exact Hp|]. split.
        { rewrite mok_set_items. apply mok_set; [exact Hm | exact Hm']. }
        split; [apply implicit_set_items | apply dotted_set_items].
      * rewrite abs_item_aot in H. rewrite <- map_rev in H. cbn [andb].
        destruct (rev ts) as [|last rinit] eqn:Er; [discriminate|]. cbn [map] in H.
        destruct (mok_aot_last _ _ _ _ Hit Er) as (Hld & Hlm & Hrm).
        destruct (at_path_x (keys ptl) g (abs_tbl last)) as [[c1 y1]| |] eqn:E1; cbn [rbind fst snd] in H; inversion H; subst.
        destruct (IH _ _ _ Hlm E1) as (last' & x & Hr & Ha & Hp & Hm' & Hi & Hd).
        rewrite Hr. exists (t_set_items t (kv_set (t_items t) (k_key k) (IAot (rev (last' :: rinit)) sp))), x.
        split; [reflexivity|]. split.
        { rewrite abs_set_items, abs_set, abs_item_aot. cbn [rev]. rewrite map_app, map_rev. cbn [map].
          rewrite Ha. reflexivity. }
        split; [exact Hp|]. split.
        { rewrite mok_set_items. apply mok_set; [exact Hm|]. cbn [rev].
          apply mok_aot_snoc; [exact Hrm | rewrite Hd; exact Hld | exact Hm']. }
        split; [apply implicit_set_items | apply dotted_set_items].
    + destruct (at_path_x (keys ptl) g []) as [[c1 y1]| |] eqn:E1; cbn [rbind fst snd] in H; inversion H; subst.
      destruct (IH (empty_implicit false) _ _ eq_refl E1) as (sub' & x & Hr & Ha & Hp & Hm' & Hi & Hd).
      fold (empty_implicit false). rewrite Hr.
      exists (t_set_items t (kv_push (t_items t) k (ITable sub'))), x.
      split; [reflexivity|]. split.
      { rewrite abs_set_items, abs_push. cbn [abs_item]. rewrite (kind_of_flags _ _ Hi Hd), Ha. reflexivity. }
      split; [exact Hp|]. split.
      { rewrite mok_set_items. apply mok_push; [exact Hm | exact Hm']. }
      split; [apply implicit_set_items | apply dotted_set_items].
Qed.

(* ---- descend_path(dotted = false) vs at_path_x: the rejecting direction ------------------- *)
Lemma abs_aot_nonempty ts sp : swf_node (abs_item (IAot ts sp)) = true -> rev ts <> [].
Proof.
  rewrite abs_item_aot, swf_node_aot. intros H Hr.
  assert (ts = []) by (rewrite <- (rev_involutive ts), Hr; reflexivity). subst. discriminate.
Qed.

Lemma abs_aot_last_swf ts sp last rinit :
  swf_node (abs_item (IAot ts sp)) = true -> rev ts = last :: rinit -> swf_tree (abs_tbl last) = true.
Proof.
  rewrite abs_item_aot. intros H Hr.
  apply (swf_aot_last _ (abs_tbl last) (map abs_tbl rinit) H). rewrite <- map_rev, Hr. reflexivity.
Qed.

Lemma wta_inv {X Y} (f : tbl -> cres (tbl * X)) (g : stree value -> res (stree value * Y)) :
  (forall t0, mok_tbl t0 = true -> swf_tree (abs_tbl t0) = true -> g (abs_tbl t0) = RInvalid ->
              exists c, f t0 = CErr c) ->
  forall p t, mok_tbl t = true -> swf_tree (abs_tbl t) = true ->
              at_path_x (keys p) g (abs_tbl t) = RInvalid -> exists c, with_table_at t p false f = CErr c.
Proof.
  intros Hfg. induction p as [|k ptl IH]; intros t Hm Hs H.
  - cbn [keys map at_path_x with_table_at] in *. apply Hfg; assumption.
  - cbn [keys map at_path_x] in H. fold (keys ptl) in H. cbn [with_table_at].
    rewrite abs_tbl_eq in Hs. rewrite abs_tbl_eq, abs_get in H. rewrite mok_tbl_eq in Hm.
    pose proof (abs_get (t_items t) (k_key k)) as Hg.
    destruct (kv_get (t_items t) (k_key k)) as [[k' it]|] eqn:E.
    + pose proof (mok_get _ _ _ _ Hm E) as Hit. pose proof (swf_sget _ _ _ Hs Hg) as Hsw.
      destruct it as [|v|sub|ts sp].
      * discriminate.
      * eexists; reflexivity.
      * cbn [abs_item] in H, Hsw. cbn [mok_item] in Hit. rewrite swf_node_tab in Hsw. cbn [andb].
        destruct (at_path_x (keys ptl) g (abs_tbl sub)) as [[c1 y1]| |] eqn:E1; cbn [rbind] in H; try discriminate.
        destruct (IH _ Hit Hsw E1) as [c Hc]. rewrite Hc. eexists; reflexivity.
      * cbn [andb]. pose proof (abs_aot_nonempty _ _ Hsw) as Hne.
        destruct (rev ts) as [|last rinit] eqn:Er; [congruence|].
        destruct (mok_aot_last _ _ _ _ Hit Er) as (Hld & Hlm & Hrm).
        pose proof (abs_aot_last_swf _ _ _ _ Hsw Er) as Hls.
        rewrite abs_item_aot in H. rewrite <- map_rev, Er in H. cbn [map] in H.
        destruct (at_path_x (keys ptl) g (abs_tbl last)) as [[c1 y1]| |] eqn:E1; cbn [rbind] in H; try discriminate.
        destruct (IH _ Hlm Hls E1) as [c Hc]. rewrite Hc. eexists; reflexivity.
    + destruct (at_path_x (keys ptl) g []) as [[c1 y1]| |] eqn:E1; cbn [rbind] in H; try discriminate.
      destruct (IH (empty_implicit false) eq_refl eq_refl E1) as [c Hc].
      fold (empty_implicit false). rewrite Hc. eexists; reflexivity.
Qed.

(* ---- descend_path(dotted = true) + insertion vs insert_kv (code policy) ------------------- *)
(* the closure passed by on_keyval *)
Definition kvf (k : key) (v : item) (path_empty : bool) (table : tbl) : cres (tbl * unit) :=
  if Bool.eqb (t_dotted table) path_empty then CErr DuplicateKey
  else match kv_get (t_items table) (k_key k) with
       | None => COk (t_set_items table (kv_push (t_items table) k v), tt)
       | Some _ => CErr DuplicateKey
       end.

Definition simres (t : tbl) (r : cres (tbl * unit)) (s : res (stree value)) : Prop :=
  match s with
  | ROk T' => exists t', r = COk (t', tt) /\ abs_tbl t' = T' /\ mok_tbl t' = true /\
                         t_implicit t' = t_implicit t /\ t_dotted t' = t_dotted t
  | RInvalid => exists c, r = CErr c
  | RUndecided => True
  end.

Lemma kvf_leaf k v pe t :
  mok_tbl t = true -> t_dotted t = negb pe ->
  simres t (kvf k (IValue v) pe t) (insert_kv false [k_key k] v (abs_tbl t)).
Proof.
  intros Hm Hd. rewrite insert_kv_leaf. unfold kvf. rewrite Hd.
  replace (Bool.eqb (negb pe) pe) with false by (destruct pe; reflexivity).
  rewrite abs_tbl_eq, abs_get. rewrite mok_tbl_eq in Hm.
  destruct (kv_get (t_items t) (k_key k)) as [[k' it]|]; cbn [simres].
  - eexists; reflexivity.
  - eexists. split; [reflexivity|]. split; [rewrite abs_set_items, abs_push; reflexivity|].
    split; [rewrite mok_set_items; apply mok_push; [exact Hm | reflexivity]|].
    split; [apply implicit_set_items | apply dotted_set_items].
Qed.

Lemma simres_wrap t r s (wrapm : tbl -> tbl) (wraps : stree value -> stree value) :
  forall sub,
  simres sub r s ->
  (forall sub', mok_tbl sub' = true -> t_implicit sub' = t_implicit sub -> t_dotted sub' = t_dotted sub ->
                abs_tbl (wrapm sub') = wraps (abs_tbl sub') /\ mok_tbl (wrapm sub') = true /\
                t_implicit (wrapm sub') = t_implicit t /\ t_dotted (wrapm sub') = t_dotted t) ->
  simres t (match r with COk (s', x) => COk (wrapm s', x) | CErr c => CErr c | CPanic p => CPanic p end)
         (c <~ s ;; ROk (wraps c)).
Proof.
  intros sub H Hw. destruct s as [T'| |]; cbn [simres rbind] in *.
  - destruct H as (sub' & Hr & Ha & Hm & Hi & Hd). subst r.
    destruct (Hw sub' Hm Hi Hd) as (W1 & W2 & W3 & W4).
    exists (wrapm sub'). rewrite W1, Ha. auto.
  - destruct H as [c Hr]. subst r. eexists; reflexivity.
  - exact I.
Qed.

Lemma wta_kv k v : forall path t,
  mok_tbl t = true -> swf_tree (abs_tbl t) = true ->
  (path = [] -> t_dotted t = true) ->
  simres t (with_table_at t path true (kvf k (IValue v) false))
         (insert_kv false (keys path ++ [k_key k]) v (abs_tbl t)).
Proof.
  induction path as [|pk ptl IH]; intros t Hm Hs Hd.
  - cbn [keys map app with_table_at]. apply kvf_leaf; [exact Hm | apply Hd; reflexivity].
  - cbn [keys map app]. fold (keys ptl). rewrite insert_kv_snoc. cbn [with_table_at].
    pose proof Hm as Hm0. pose proof Hs as Hs0.
    rewrite abs_tbl_eq in Hs. rewrite mok_tbl_eq in Hm.
    rewrite abs_tbl_eq at 1. rewrite abs_get.
    pose proof (abs_get (t_items t) (k_key pk)) as Hg.
    destruct (kv_get (t_items t) (k_key pk)) as [[k' it]|] eqn:E.
    + pose proof (mok_get _ _ _ _ Hm E) as Hit. pose proof (swf_sget _ _ _ Hs Hg) as Hsw.
      destruct it as [|v0|sub|ts sp].
      * discriminate.
      * cbn [abs_item simres]. eexists; reflexivity.
      * cbn [abs_item mok_item] in *. rewrite swf_node_tab in Hsw. cbn [andb].
        unfold kind_of. destruct (t_implicit sub) eqn:Ei; cbn [negb].
        -- destruct (t_dotted sub) eqn:Edt.
           ++ apply (simres_wrap t _ _ (fun s' => t_set_items t (kv_set (t_items t) (k_key pk) (ITable s')))
                                 (fun c => sset (abs_tbl t) (k_key pk) (NTab KDotted c)) sub).
              { apply IH; [exact Hit | exact Hsw | intros _; exact Edt]. }
              intros sub' M1 M2 M3. split.
              { rewrite abs_set_items, abs_set, (abs_tbl_eq t). cbn [abs_item]. unfold kind_of.
                rewrite M2, M3, Ei, Edt. reflexivity. }
              split; [rewrite mok_set_items; apply mok_set; assumption|].
              split; [apply implicit_set_items | apply dotted_set_items].
           ++ destruct ptl as [|pk2 ptl'].
              ** cbn [keys map with_table_at]. unfold kvf. rewrite Edt. cbn [Bool.eqb simres]. eexists; reflexivity.
              ** change (keys (pk2 :: ptl')) with (k_key pk2 :: keys ptl'). cbv iota.
                 change (k_key pk2 :: keys ptl') with (keys (pk2 :: ptl')).
                 apply (simres_wrap t _ _ (fun s' => t_set_items t (kv_set (t_items t) (k_key pk) (ITable s')))
                                    (fun c => sset (abs_tbl t) (k_key pk) (NTab KSuper c)) sub).
                 { apply IH; [exact Hit | exact Hsw | discriminate]. }
                 intros sub' M1 M2 M3. split.
                 { rewrite abs_set_items, abs_set, (abs_tbl_eq t). cbn [abs_item]. unfold kind_of.
                   rewrite M2, M3, Ei, Edt. reflexivity. }
                 split; [rewrite mok_set_items; apply mok_set; assumption|].
                 split; [apply implicit_set_items | apply dotted_set_items].
        -- cbn [simres]. eexists; reflexivity.
      * rewrite abs_item_aot. cbn [simres andb].
        destruct ptl as [|pk2 ptl']; [|eexists; reflexivity].
        pose proof (abs_aot_nonempty _ _ Hsw) as Hne.
        destruct (rev ts) as [|last rinit] eqn:Er; [congruence|].
        destruct (mok_aot_last _ _ _ _ Hit Er) as (Hld & Hlm & Hrm).
        cbn [with_table_at]. unfold kvf. rewrite Hld. cbn [Bool.eqb]. eexists; reflexivity.
    + fold (empty_implicit true).
      apply (simres_wrap t _ _ (fun s' => t_set_items t (kv_push (t_items t) pk (ITable s')))
                         (fun c => spush (abs_tbl t) (k_key pk) (NTab KDotted c)) (empty_implicit true)).
      { apply (IH (empty_implicit true)); reflexivity. }
      intros sub' M1 M2 M3. split.
      { rewrite abs_set_items, abs_push, (abs_tbl_eq t). cbn [abs_item]. unfold kind_of.
        rewrite M2, M3. reflexivity. }
      split; [rewrite mok_set_items; apply mok_push; assumption|].
      split; [apply implicit_set_items | apply dotted_set_items].
Qed.
