(* Proofs/SerdeRT.v — C07, toml_edit's family: whatever ValueSerializer accepts, ValueDeserializer reads
   back as an equal value (by induction on the type). *)
From TV Require Import Base.Prelude Base.Utf8 Model.Datetime Model.DatetimeStd Model.WriteFloat Model.SerNum
  Spec.DatetimeSpec Spec.SerdeData Model.Ser Model.De
  Proofs.SerdeRTBase Proofs.SerdeRTEq Proofs.SerdeRTLeaf Proofs.SerdeRTLists.
From Coq Require Import Permutation.

Definition RT : ty -> Prop := rt_at ser_value de_value.
Definition RTV (var : variant) : Prop :=
  forall p x, has_type_variant_b var p = true -> ser_payload var p = Ok x ->
              exists p', de_payload var x = Ok p' /\ sval_eq p p'.

(* ---- MapValueSerializer ---- *)
Lemma ser_map_value_cases ser t v :
  (exists t', t = TOpt t' /\ v = SNone /\ ser_map_value ser t v = Ok None)
  \/ ((is_opt t = true -> v <> SNone) /\ ser_map_value ser t v = rmap Some (ser t v)).
Proof.
  destruct t; try (right; split; [discriminate|reflexivity]).
  destruct v; try (right; split; [discriminate|reflexivity]).
  left. exists t. auto.
Qed.

Lemma rt_fields fs : Forall (fun ft => RT (snd ft)) fs -> forall vs ps,
  all2b (fun ft v' => has_type_b (snd ft) v') fs vs = true -> ser_fields fs vs = Ok ps ->
  Forall3 (field_rt de_value) fs vs ps.
Proof.
  unfold ser_fields.
  induction 1 as [|[f t] fs IHt _ IH]; intros [|v vs] ps Hty H; simpl in *; try discriminate.
  - injection H as <-. constructor.
  - apply andb_true_iff in Hty as [Hv Hvs].
    apply rbind_ok in H as (p & Hp & H). apply rbind_ok in H as (ps' & Hps & H). injection H as <-.
    constructor; [|apply IH; assumption].
    apply rmap_ok in Hp as (ox & Hox & ->).
    destruct (ser_map_value_cases ser_value t v) as [(t' & -> & -> & E)|[_ E]]; rewrite E in Hox.
    + injection Hox as <-. simpl. auto.
    + apply rmap_ok in Hox as (x & Hx & ->). simpl. split; [reflexivity|]. apply (IHt v x Hv Hx).
Qed.

(* ---- keys ---- *)
Lemma htv_unit p : has_type_variant_b VUnit p = true -> p = SUnit.
Proof. destruct p; simpl; try discriminate. reflexivity. Qed.

Lemma key_roundtrip t : forall a s, has_type_b t a = true -> ser_key t a = Ok s ->
  key_text t a = Some s /\ de_key t s = Ok a /\ sval_eq a a.
Proof.
  induction t using ty_ind2 with (Q := fun _ => True); try exact I; intros a s Hty Hser;
    try (destruct a; simpl in Hser; discriminate).
  - (* TInt *) destruct a; simpl in Hser; destruct (ser_method_of w); discriminate.
  - (* TStr *) destruct a; simpl in Hser; try discriminate. injection Hser as <-. repeat split. constructor.
  - (* TNewtype *)
    destruct a; try (simpl in Hser; discriminate). rewrite sk_newtype in Hser. rewrite ht_newtype in Hty.
    destruct (IHt a s Hty Hser) as (K1 & K2 & K3). rewrite kt_newtype, dk_newtype, K2. repeat split; [exact K1|constructor; exact K3].
  - (* TEnum *)
    destruct a; try (simpl in Hser; discriminate). rewrite sk_enum in Hser. rewrite ht_enum in Hty.
    apply andb_true_iff in Hty as [Hnd Hp]. apply nodup_bytes_NoDup in Hnd.
    destruct (pick_cases key_variant (Err EBadCase) vs idx) as [([vn var] & Hn & E)|[_ E]]; rewrite E in Hser; [|discriminate].
    rewrite (pick_nth _ _ _ _ _ Hn) in Hp. simpl in Hp.
    unfold key_variant in Hser. simpl in Hser. destruct var; try discriminate. injection Hser as <-.
    apply htv_unit in Hp. subst a.
    rewrite kt_enum, (pick_nth _ _ _ _ _ Hn). rewrite dk_enum, (find_name_nth _ _ _ _ _ _ _ Hnd Hn).
    repeat split. constructor. constructor.
Qed.

(* different key texts: different keys (BTreeMap / HashMap key equality) *)
Lemma key_text_distinct t : forall a b ka kb,
  key_text t a = Some ka -> key_text t b = Some kb -> ka <> kb -> sval_beq a b = false.
Proof.
  induction t using ty_ind2 with (Q := fun _ => True); try exact I; intros a b ka kb Ha Hb Hne;
    try (destruct a; simpl in Ha; discriminate).
  - destruct a; simpl in Ha; try discriminate. destruct b; simpl in Hb; try discriminate.
    injection Ha as ->. injection Hb as ->. simpl. apply bytes_eqb_neq. exact Hne.
  - destruct a; try (simpl in Ha; discriminate). destruct b; try (simpl in Hb; discriminate).
    rewrite kt_newtype in Ha, Hb. simpl. eapply IHt; eassumption.
  - destruct a as [| | | | | | | | | | | | | |i pa]; try (simpl in Ha; discriminate).
    destruct b as [| | | | | | | | | | | | | |j pb]; try (simpl in Hb; discriminate).
    rewrite kt_enum in Ha, Hb. simpl. destruct (Nat.eqb i j) eqn:E; [|reflexivity].
    apply Nat.eqb_eq in E. subst j. congruence.
Qed.

(* ---- map entries ---- *)
Lemma rt_entries kt vt : RT vt -> is_opt vt = false -> forall es ps,
  forallb (fun kv => has_type_b kt (fst kv) && has_type_b vt (snd kv)) es = true ->
  ser_entries kt vt es = Ok ps ->
  exists xs, ps = map Some xs /\
    Forall2 (fun kv kx => key_text kt (fst kv) = Some (fst kx) /\ de_key kt (fst kx) = Ok (fst kv) /\ sval_eq (fst kv) (fst kv) /\
                          exists v', de_value vt (snd kx) = Ok v' /\ sval_eq (snd kv) v') es xs.
Proof.
  intros IHv Hno. unfold ser_entries.
  induction es as [|[k v] es IH]; intros ps Hty H; simpl in *.
  - injection H as <-. exists []. split; [reflexivity|constructor].
  - apply andb_true_iff in Hty as [Hkv Hes]. apply andb_true_iff in Hkv as [Hk Hv].
    apply rbind_ok in H as (p & Hp & H). apply rbind_ok in H as (ps' & Hps & H). injection H as <-.
    apply rbind_ok in Hp as (s & Hs & Hp). apply rmap_ok in Hp as (ox & Hox & ->).
    destruct (key_roundtrip kt k s Hk Hs) as (K1 & K2 & K3).
    destruct (ser_map_value_cases ser_value vt v) as [(t' & -> & _)|[_ E]]; [discriminate|]. rewrite E in Hox.
    apply rmap_ok in Hox as (x & Hx & ->).
    destruct (IH ps' Hes Hps) as (xs & -> & F).
    exists ((s, x) :: xs). split; [reflexivity|]. constructor; [|exact F]. simpl.
    repeat split; try assumption. apply (IHv v x Hv Hx).
Qed.

Lemma entries_keys kt es (xs : list (bytes * tomlval)) (R : sval * sval -> bytes * tomlval -> Prop) :
  Forall2 (fun kv kx => key_text kt (fst kv) = Some (fst kx) /\ R kv kx) es xs ->
  somes (map (fun kv => key_text kt (fst kv)) es) = map fst xs.
Proof. induction 1 as [|kv kx es xs [H _] _ IH]; simpl; [reflexivity|]. rewrite H, IH. reflexivity. Qed.

Lemma somes_map_Some {A} (l : list A) : somes (map Some l) = l.
Proof. induction l; simpl; congruence. Qed.

Lemma rt_map kt vt : RT vt -> RT (TMap kt vt).
Proof.
  intros IHv v x Hty H. destruct v; try (simpl in Hty; discriminate).
  rewrite ht_map in Hty. apply andb_true_iff in Hty as [Hty Hnd]. apply andb_true_iff in Hty as [Hno Hes].
  apply negb_true_iff in Hno. apply nodup_bytes_NoDup in Hnd.
  rewrite sv_map in H. apply rmap_ok in H as (ps & Hps & ->).
  destruct (rt_entries kt vt IHv Hno es ps Hes Hps) as (xs & -> & F).
  assert (Hk : somes (map (fun kv => key_text kt (fst kv)) es) = map fst xs).
  { apply (entries_keys kt es xs (fun kv kx => de_key kt (fst kx) = Ok (fst kv) /\ sval_eq (fst kv) (fst kv) /\
                                    exists v', de_value vt (snd kx) = Ok v' /\ sval_eq (snd kv) v')). exact F. }
  rewrite Hk in Hnd.
  unfold table_of, somes_pairs. rewrite somes_map_Some. rewrite (tab_of_pairs_nodup xs Hnd).
  rewrite dv_map.
  (* read the entries back *)
  assert (D : exists es', de_entries kt vt xs = Ok es' /\
                Forall2 (fun p q => fst p = fst q /\ sval_eq (fst p) (fst q) /\ sval_eq (snd p) (snd q)) es es').
  { clear Hk Hnd Hps Hes. unfold de_entries. induction F as [|[k v] [s y] es xs (K1 & K2 & K3 & v' & Dv & Ev) _ IH]; simpl.
    - exists []. split; [reflexivity|constructor].
    - destruct IH as (es' & D & E). simpl in *. rewrite K2. simpl. rewrite Dv. simpl. rewrite D. simpl.
      exists ((k, v') :: es'). split; [reflexivity|]. constructor; [simpl; auto|exact E]. }
  destruct D as (es' & D & E). rewrite D. simpl.
  (* no two keys are equal *)
  assert (Hdist : ForallOrdPairs (fun p q => sval_beq (fst p) (fst q) = false) es').
  { clear D Hps Hes Hk.
    assert (Ht : Forall2 (fun q kx => key_text kt (fst q) = Some (fst kx)) es' xs).
    { clear Hnd. revert es' E. induction F as [|kv kx es xs (K1 & _) _ IH]; intros es' E; inversion E; subst; constructor.
      - destruct H1 as (<- & _). exact K1.
      - apply IH. assumption. }
    clear F E. revert Hnd. induction Ht as [|q kx es' xs Hq Ht IH]; intro Hnd; [constructor|].
    simpl in Hnd. inversion Hnd as [|? ? Hnot Hnd']; subst. constructor; [|apply IH; exact Hnd'].
    clear IH. rewrite Forall_forall. intros q' Hin.
    destruct (Forall2_In_l _ _ _ _ Ht Hin) as (kx' & Hin' & Hq').
    eapply key_text_distinct; [exact Hq|exact Hq'|]. intro Heq. apply Hnot. rewrite Heq. apply in_map. exact Hin'. }
  rewrite (smap_of_pairs_distinct es' Hdist).
  exists (SMap es'). split; [reflexivity|]. apply (eq_map es es' es'); [apply Permutation_refl|].
  clear - E. induction E as [|p q es es' (_ & H1 & H2) _ IH]; constructor; auto.
Qed.

(* ---- structs ---- *)
Lemma private_not_dt n : private_name n = false -> bytes_eqb n DT_NAME = false.
Proof. unfold private_name. intro H. apply orb_false_iff in H as [H _]. exact H. Qed.

Lemma rt_struct_fields fs : Forall (fun ft => RT (snd ft)) fs -> forall vs ps,
  nodup_bytes (map fst fs) = true ->
  all2b (fun ft v' => has_type_b (snd ft) v') fs vs = true -> ser_fields fs vs = Ok ps ->
  exists es, table_of ps = VTab es /\ struct_keys_ok (map fst fs) es = true /\
             exists vs', de_struct_map de_value fs es = Ok vs' /\ Forall2 sval_eq vs vs'.
Proof.
  intros IH vs ps Hnd Hty H. apply nodup_bytes_NoDup in Hnd.
  pose proof (rt_fields fs IH vs ps Hty H) as F.
  destruct (rt_struct_insertion de_value fs vs ps F Hnd) as (E1 & E2 & E3).
  exists (somes ps). unfold table_of, somes_pairs. rewrite E1. auto.
Qed.

(* ---- the theorem ---- *)
Theorem roundtrip_value : forall t, RT t.
Proof.
  induction t using ty_ind2 with (Q := RTV); unfold RT, rt_at, RTV in *.
  - (* TBool *) intros v x Hty Hser. destruct v; simpl in Hser; try discriminate. injection Hser as <-.
    eexists; split; [reflexivity|constructor].
  - (* TInt *) intros v x Hty Hser. destruct v; simpl in Hser; try discriminate. simpl in Hty.
    destruct (ser_int_value_ok w z x Hty Hser) as (-> & D). simpl. rewrite D. eexists; split; [reflexivity|constructor].
  - (* TFloat *) intros v x Hty Hser. destruct w; destruct v; simpl in Hser; try discriminate; injection Hser as <-; simpl in Hty.
    + simpl. eexists; split; [reflexivity|]. constructor. apply f32_roundtrip. apply N.ltb_lt. exact Hty.
    + simpl. eexists; split; [reflexivity|]. constructor. apply f64_roundtrip.
  - (* TChar *) intros v x Hty Hser. destruct v; simpl in Hser; try discriminate. injection Hser as <-. simpl in Hty.
    simpl. rewrite (de_char_encode c Hty). eexists; split; [reflexivity|constructor].
  - (* TStr *) intros v x Hty Hser. destruct v; simpl in Hser; try discriminate. injection Hser as <-.
    eexists; split; [reflexivity|constructor].
  - (* TDatetime *) intros v x Hty Hser. destruct v; simpl in Hser; try discriminate. simpl in Hty.
    apply andb_true_iff in Hty as [Hr Hk]. rewrite (ser_datetime_ok d x Hr Hser).
    cbn [de_value]. rewrite (de_datetime_ok d Hr). simpl. unfold dt_kind_check. rewrite Hk.
    eexists; split; [reflexivity|constructor].
  - (* TUnit *) intros v x Hty Hser. destruct v; simpl in Hser; discriminate.
  - (* TUnitStruct *) intros v x Hty Hser. destruct v; simpl in Hser; discriminate.
  - (* TOpt *) intros v x Hty Hser. destruct v; try (simpl in Hser; discriminate).
    rewrite sv_opt_some in Hser. rewrite ht_opt_some in Hty. destruct (IHt v x Hty Hser) as (v' & D & E).
    rewrite dv_opt, D. eexists; split; [reflexivity|constructor; exact E].
  - (* TSeq *) intros v x Hty Hser. destruct v; try (simpl in Hser; discriminate).
    rewrite sv_seq in Hser. rewrite ht_seq in Hty. apply rmap_ok in Hser as (xs & Hxs & ->).
    destruct (rt_list ser_value de_value t IHt vs xs Hty Hxs) as (vs' & D & E).
    rewrite dv_seq, D. eexists; split; [reflexivity|constructor; exact E].
  - (* TTuple *) intros v x Hty Hser. destruct v; try (simpl in Hser; discriminate).
    rewrite sv_tuple in Hser. rewrite ht_tuple in Hty. apply rmap_ok in Hser as (xs & Hxs & ->).
    destruct (rt_tuple ser_value de_value ts H vs xs Hty Hxs) as (_ & vs' & D & E).
    rewrite dv_tuple, D. eexists; split; [reflexivity|constructor; exact E].
  - (* TMap *) apply rt_map. exact IHt2.
  - (* TStruct *) intros v x Hty Hser. destruct v; try (simpl in Hser; discriminate).
    rewrite ht_struct in Hty. apply andb_true_iff in Hty as [Hty Hvs]. apply andb_true_iff in Hty as [Hpriv Hnd].
    apply negb_true_iff in Hpriv. rewrite sv_struct, (private_not_dt n Hpriv) in Hser.
    apply rmap_ok in Hser as (ps & Hps & ->).
    destruct (rt_struct_fields fs H vs ps Hnd Hvs Hps) as (es & -> & _ & vs' & D & E).
    rewrite dv_struct, Hpriv, D. eexists; split; [reflexivity|constructor; exact E].
  - (* TNewtype *) intros v x Hty Hser. destruct v; try (simpl in Hser; discriminate).
    rewrite sv_newtype in Hser. rewrite ht_newtype in Hty. destruct (IHt v x Hty Hser) as (v' & D & E).
    rewrite dv_newtype, D. eexists; split; [reflexivity|constructor; exact E].
  - (* TTupleStruct *) intros v x Hty Hser. destruct v; try (simpl in Hser; discriminate).
    rewrite sv_tuple_struct in Hser. rewrite ht_tuple_struct in Hty. apply rmap_ok in Hser as (xs & Hxs & ->).
    destruct (rt_tuple ser_value de_value ts H vs xs Hty Hxs) as (_ & vs' & D & E).
    rewrite dv_tuple_struct, D. eexists; split; [reflexivity|constructor; exact E].
  - (* TEnum *) intros v x Hty Hser. destruct v as [| | | | | | | | | | | | | |i p]; try (simpl in Hser; discriminate).
    rewrite ht_enum in Hty. apply andb_true_iff in Hty as [Hnd Hp]. apply nodup_bytes_NoDup in Hnd.
    rewrite sv_enum in Hser.
    destruct (pick_cases (ser_variant p) (Err EBadCase) vs i) as [([vn var] & Hn & E)|[_ E]]; rewrite E in Hser; [|discriminate].
    rewrite (pick_nth _ _ _ _ _ Hn) in Hp. simpl in Hp.
    assert (HQ : forall q y, has_type_variant_b var q = true -> ser_payload var q = Ok y ->
                             exists q', de_payload var y = Ok q' /\ sval_eq q q').
    { rewrite Forall_forall in H. apply (H (vn, var)). eapply nth_error_In; exact Hn. }
    unfold ser_variant in Hser. simpl in Hser.
    destruct var as [|tv|tsv|fsv].
    + apply htv_unit in Hp. subst p. injection Hser as <-.
      rewrite dv_enum_str, (find_name_nth _ _ _ _ _ _ _ Hnd Hn). simpl.
      eexists; split; [reflexivity|constructor; constructor].
    + apply rmap_ok in Hser as (y & Hy & ->). destruct (HQ p y Hp Hy) as (p' & D & Ep).
      rewrite dv_enum_tab, (find_name_nth _ _ _ _ _ _ _ Hnd Hn). rewrite D. simpl.
      eexists; split; [reflexivity|constructor; exact Ep].
    + apply rmap_ok in Hser as (y & Hy & ->). destruct (HQ p y Hp Hy) as (p' & D & Ep).
      rewrite dv_enum_tab, (find_name_nth _ _ _ _ _ _ _ Hnd Hn). rewrite D. simpl.
      eexists; split; [reflexivity|constructor; exact Ep].
    + apply rmap_ok in Hser as (y & Hy & ->). destruct (HQ p y Hp Hy) as (p' & D & Ep).
      rewrite dv_enum_tab, (find_name_nth _ _ _ _ _ _ _ Hnd Hn). rewrite D. simpl.
      eexists; split; [reflexivity|constructor; exact Ep].
  - (* VUnit *) intros p x Hty Hser. simpl in Hser. discriminate.
  - (* VNewtype *) intros p x Hty Hser. rewrite sp_newtype in Hser. rewrite htv_newtype in Hty.
    rewrite dp_newtype. apply IHt; assumption.
  - (* VTuple *) intros p x Hty Hser. destruct p; try (simpl in Hty; discriminate).
    rewrite sp_tuple in Hser. rewrite htv_tuple in Hty. apply rmap_ok in Hser as (xs & Hxs & ->).
    destruct (rt_tuple ser_value de_value ts H vs xs Hty Hxs) as (Hl & vs' & D & E).
    rewrite dp_tuple, Hl, Nat.eqb_refl, D. eexists; split; [reflexivity|constructor; exact E].
  - (* VStruct *) intros p x Hty Hser. destruct p; try (simpl in Hty; discriminate).
    rewrite htv_struct in Hty. apply andb_true_iff in Hty as [Hnd Hvs].
    rewrite sp_struct in Hser. apply rmap_ok in Hser as (ps & Hps & ->).
    destruct (rt_struct_fields fs H vs ps Hnd Hvs Hps) as (es & -> & Hk & vs' & D & E).
    rewrite dp_struct, Hk, D. eexists; split; [reflexivity|constructor; exact E].
Qed.
