(* Proofs/SpansUtf8Lex.v — C14, character boundaries, part 2: every parser of the TOML grammar consumes
   whole characters (`uP`, Proofs/SpansUtf8.v): trivia, strings, numbers, date-times, keys, values,
   key/value lines, headers, the document loop. *)
From TV Require Import Base.Prelude Base.Utf8 Base.Winnow Gen.Consts Spec.Abnf Spec.Lex.
From TV Require Import Model.Trivia Model.Strings Model.Datetime Model.Numbers Model.Tree Model.Parse Model.Document.
From TV Require Import Proofs.ConstsOk Proofs.LexEquivBase Proofs.LexEquivUtf8.
From TV Require Import Proofs.NoPanicBase Proofs.NoPanicLex Proofs.NoPanicValue Proofs.NoPanicState Proofs.NoPanicDoc.
From TV Require Import Proofs.SpansDefs Proofs.SpansBase Proofs.SpansLex Proofs.SpansUtf8.
Require Import Lia ZifyBool ZifyN ZifyNat.

(* ---- classes that contain every byte >= 0x80 (one sweep each over the CURRENT constants) ------------------ *)
Lemma NON_EOL_wide b : in_class NON_EOL b = false -> ascii b = true.
Proof. intro H. destruct b; try reflexivity; discriminate H. Qed.
Lemma LITERAL_CHAR_wide b : in_class LITERAL_CHAR b = false -> ascii b = true.
Proof. intro H. destruct b; try reflexivity; discriminate H. Qed.
Lemma BASIC_UNESCAPED_wide b : in_class BASIC_UNESCAPED b = false -> ascii b = true.
Proof. intro H. destruct b; try reflexivity; discriminate H. Qed.
Lemma MLB_UNESCAPED_wide b : in_class MLB_UNESCAPED b = false -> ascii b = true.
Proof. intro H. destruct b; try reflexivity; discriminate H. Qed.
Lemma TIME_DELIM_ascii b : in_class TIME_DELIM b = true -> ascii b = true.
Proof. intro H. destruct b; try reflexivity; discriminate H. Qed.
Lemma zulu_ascii b : byte_eqb b x5a || byte_eqb b x7a = true -> ascii b = true.
Proof. intro H. destruct b; try reflexivity; discriminate H. Qed.
Lemma sign_lambda_ascii b : byte_eqb b plus || byte_eqb b dash = true -> ascii b = true.
Proof. intro H. destruct b; try reflexivity; discriminate H. Qed.
#[export] Hint Resolve TIME_DELIM_ascii zulu_ascii sign_lambda_ascii : up.

Lemma uP_take_while0_wide f : (forall b, f b = false -> ascii b = true) -> uP (take_while0 f).
Proof. apply uP_take_while_wide. Qed.
Lemma uP_take_while1_wide f : (forall b, f b = false -> ascii b = true) -> uP (take_while1 f).
Proof. apply uP_take_while_wide. Qed.
Lemma uP_take_while0_ascii f : (forall b, f b = true -> ascii b = true) -> uP (take_while0 f).
Proof. apply uP_take_while_ascii. Qed.
Lemma uP_take_while1_ascii f : (forall b, f b = true -> ascii b = true) -> uP (take_while1 f).
Proof. apply uP_take_while_ascii. Qed.
#[export] Hint Resolve uP_take_while0_ascii uP_take_while1_ascii : up.

(* ---- trivia --------------------------------------------------------------------------------------------------- *)
Lemma ws_uP : uP ws. Proof. unfold ws. up. Qed.
Lemma comment_uP : uP comment.
Proof. unfold comment. apply uP_bind; [up|]. intros _. apply uP_bind; [apply uP_take_while0_wide, NON_EOL_wide|]. intros _. up. Qed.
Lemma newline_uP : uP newline.
Proof.
  intros i a i' V E. unfold newline in E. apply bind_ok in E as (b & j & E0 & E).
  unfold any in E0. destruct (rest i) as [|b0 r] eqn:R; [discriminate|]. inversion E0; subst b j. clear E0.
  assert (Vj : ascii b0 = true -> vin (advance 1 i)).
  { intro Hb. unfold vin in *. unfold advance; cbn [rest]. rewrite R in *. cbn [skipn]. rewrite valid_cons_ascii in V by exact Hb. exact V. }
  destruct (byte_eqb b0 x0a) eqn:B1.
  - apply byte_eqb_eq in B1. subst b0. apply ret_ok in E as [_ ->]. apply Vj. reflexivity.
  - destruct (byte_eqb b0 x0d) eqn:B2; [|discriminate]. apply byte_eqb_eq in B2. subst b0.
    assert (U : uP (pvoid (byte_ LF))) by up. eapply U; [|exact E]. apply Vj. reflexivity.
Qed.
#[export] Hint Resolve ws_uP comment_uP newline_uP : up.
Lemma ws_newline_uP : uP ws_newline. Proof. unfold ws_newline. up. Qed.
#[export] Hint Resolve ws_newline_uP : up.
Lemma ws_newlines_uP : uP ws_newlines. Proof. unfold ws_newlines. up. Qed.
#[export] Hint Resolve ws_newlines_uP : up.

Lemma wscn_f_uP : forall fuel start, uP (ws_comment_newline_f fuel start).
Proof.
  induction fuel as [|f IH]; intros start i a i' V H; [discriminate|]. cbn [ws_comment_newline_f] in H.
  destruct (ws i) as [w i1|? ?|? ?|?] eqn:E; try discriminate. pose proof (ws_uP _ _ _ V E) as V1.
  assert (St : forall p : parser unit, uP p ->
            match p i1 with
            | Ok _ i2 => if (pos i2 =? start)%N then Ok tt i2 else ws_comment_newline_f f (pos i2) i2
            | Bt e i' => Bt e i' | Cut e i' => Cut e i' | Panic s => Panic s
            end = Ok a i' -> vin i').
  { intros p Hp H1. destruct (p i1) as [u i2|? ?|? ?|?] eqn:E1; try discriminate. pose proof (Hp _ _ _ V1 E1) as V2.
    destruct (pos i2 =? start)%N; [inversion H1; subst; exact V2|eapply IH; eauto]. }
  destruct (rest i1) as [|b r] eqn:R.
  - inversion H; subst. exact V1.
  - destruct (byte_eqb b x23); [apply (St (comment ;;; context newline)); [up|exact H]|].
    destruct (byte_eqb b x0a); [apply (St newline newline_uP H)|].
    destruct (byte_eqb b x0d); [apply (St newline newline_uP H)|].
    inversion H; subst. exact V1.
Qed.
Lemma ws_comment_newline_uP : uP ws_comment_newline.
Proof. intros i a i' V H. eapply wscn_f_uP; eauto. Qed.
Lemma line_ending_uP : uP line_ending. Proof. unfold line_ending. up. Qed.
#[export] Hint Resolve ws_comment_newline_uP line_ending_uP : up.
Lemma line_trailing_uP : uP line_trailing. Proof. unfold line_trailing. up. Qed.
#[export] Hint Resolve line_trailing_uP : up.

(* ---- strings -------------------------------------------------------------------------------------------------------- *)
Lemma hexescape_uP n : uP (hexescape n). Proof. unfold hexescape. up. Qed.
#[export] Hint Resolve hexescape_uP : up.

Lemma assoc_byte_ascii {A} (l : list (byte * A)) b v :
  forallb (fun p => ascii (fst p)) l = true -> assoc_byte l b = Some v -> ascii b = true.
Proof.
  induction l as [|[k x] l IH]; cbn [assoc_byte forallb fst]; [discriminate|]. intros H E.
  apply andb_true_iff in H as [H1 H2]. destruct (byte_eqb k b) eqn:B; [apply byte_eqb_eq in B; subst; exact H1|auto].
Qed.
Lemma escape_seq_char_uP : uP escape_seq_char.
Proof.
  intros i a i' V E. unfold escape_seq_char in E. apply bind_ok in E as (b & j & E0 & E).
  unfold any in E0. destruct (rest i) as [|b0 r] eqn:R; [discriminate|]. inversion E0; subst b j. clear E0.
  assert (Vj : ascii b0 = true -> vin (advance 1 i)).
  { intro Hb. unfold vin in *. unfold advance; cbn [rest]. rewrite R in *. cbn [skipn]. rewrite valid_cons_ascii in V by exact Hb. exact V. }
  destruct (assoc_byte ESCAPE_SIMPLE b0) as [c|] eqn:A1.
  - apply ret_ok in E as [_ ->]. apply Vj. eapply (assoc_byte_ascii ESCAPE_SIMPLE); [reflexivity|exact A1].
  - destruct (assoc_byte ESCAPE_HEX b0) as [n|] eqn:A2.
    + assert (U : uP (context (cut_err (hexescape n)))) by up. eapply U; [|exact E]. apply Vj.
      eapply (assoc_byte_ascii ESCAPE_HEX); [reflexivity|exact A2].
    + apply context_ok, cut_err_ok in E. discriminate.
Qed.
#[export] Hint Resolve escape_seq_char_uP : up.
Lemma escaped_uP : uP escaped. Proof. unfold escaped. up. Qed.
#[export] Hint Resolve escaped_uP : up.
Lemma basic_chars_uP : uP basic_chars.
Proof. unfold basic_chars. apply uP_alt; [apply uP_from_utf8, uP_take_while1_wide, BASIC_UNESCAPED_wide|up]. Qed.
#[export] Hint Resolve basic_chars_uP : up.

Lemma chunks_f_uP (p : parser bytes) : uP p -> forall fuel acc, uP (chunks_f fuel p acc).
Proof.
  intros Hp. induction fuel as [|f IH]; intros acc i l i' V H; cbn [chunks_f] in H; [discriminate|].
  destruct (p i) as [c i1|? ?|? ?|?] eqn:E; try discriminate.
  - destruct (Nat.eqb _ _); [discriminate|]. eapply IH; [|exact H]. eapply Hp; eauto.
  - inversion H; subst. exact V.
Qed.
Lemma uP_chunks p : uP p -> uP (chunks p).
Proof. intros Hp i l i' V H. eapply chunks_f_uP; eauto. Qed.
#[export] Hint Resolve uP_chunks : up.

Lemma basic_string_uP : uP basic_string. Proof. unfold basic_string. up. Qed.
#[export] Hint Resolve basic_string_uP : up.
Lemma mlb_escaped_nl_uP : uP mlb_escaped_nl. Proof. unfold mlb_escaped_nl. up. Qed.
#[export] Hint Resolve mlb_escaped_nl_uP : up.
Lemma mlb_content_uP : uP mlb_content.
Proof.
  unfold mlb_content. apply uP_alt; [apply uP_from_utf8, uP_take_while1_wide, MLB_UNESCAPED_wide|]. up.
Qed.
#[export] Hint Resolve mlb_content_uP : up.

Lemma quotes2_uP q term : ascii q = true -> uP (quotes2 q term).
Proof.
  intro Hq. rewrite quotes2_alt.
  apply uP_alt; apply uP_unchecked, uP_terminated; try apply uP_peek; apply uP_lit; cbn [forallb]; rewrite Hq; reflexivity.
Qed.
#[export] Hint Resolve quotes2_uP : up.

Lemma mlb_quote_loop_uP : forall fuel acc, uP (mlb_quote_loop fuel acc).
Proof.
  induction fuel as [|f IH]; intros acc i l i' V H; [discriminate|]. cbn [mlb_quote_loop] in H. fold mlb_q in H.
  assert (Uq : uP (opt mlb_q)) by (unfold mlb_q; up). assert (Uc : uP (opt mlb_content)) by up.
  destruct (opt mlb_q i) as [[qi|] i1|? ?|? ?|?] eqn:E1; try discriminate.
  - pose proof (Uq _ _ _ V E1) as V1.
    destruct (opt mlb_content i1) as [[ci|] i2|? ?|? ?|?] eqn:E2; try discriminate.
    + pose proof (Uc _ _ _ V1 E2) as V2.
      destruct (chunks mlb_content i2) as [more i3|? ?|? ?|?] eqn:E3; try discriminate.
      eapply IH; [|exact H]. eapply (uP_chunks _ mlb_content_uP); eauto.
    + inversion H; subst. eapply Uc; eauto.
  - inversion H; subst. eapply Uq; eauto.
Qed.
Lemma mlb_quote_p_uP c : uP (mlb_quote_p c).
Proof. intros i a i' V H. eapply mlb_quote_loop_uP; eauto. Qed.
#[export] Hint Resolve mlb_quote_p_uP : up.
Lemma ml_basic_body_uP : uP ml_basic_body. Proof. rewrite ml_basic_body_eq. up. Qed.
#[export] Hint Resolve ml_basic_body_uP : up.
Lemma ml_basic_string_uP : uP ml_basic_string. Proof. unfold ml_basic_string. up. Qed.
Lemma literal_string_uP : uP literal_string.
Proof.
  unfold literal_string. apply uP_context, uP_from_utf8. apply uP_bind; [up|]. intros _.
  apply uP_bind; [apply uP_cut_err, uP_take_while0_wide, LITERAL_CHAR_wide|]. intro c. up.
Qed.
Lemma ml_literal_body_uP : uP ml_literal_body.
Proof. unfold ml_literal_body. apply uP_from_utf8_hands, hands_taken. np. Qed.
#[export] Hint Resolve ml_basic_string_uP literal_string_uP ml_literal_body_uP : up.
Lemma ml_literal_string_uP : uP ml_literal_string. Proof. unfold ml_literal_string. up. Qed.
#[export] Hint Resolve ml_literal_string_uP : up.
Lemma string_uP : uP string_. Proof. unfold string_. up. Qed.
#[export] Hint Resolve string_uP : up.

(* ---- date-times --------------------------------------------------------------------------------------------------------- *)
Lemma unsigned_digits_uP m n : uP (unsigned_digits m n). Proof. unfold unsigned_digits. up. Qed.
#[export] Hint Resolve unsigned_digits_uP : up.
Lemma date_fullyear_uP : uP date_fullyear. Proof. unfold date_fullyear. up. Qed.
Lemma two_digit_field_uP lo hi : uP (two_digit_field lo hi). Proof. unfold two_digit_field. up. Qed.
#[export] Hint Resolve date_fullyear_uP two_digit_field_uP : up.
#[export] Hint Unfold date_month date_mday time_hour time_minute time_second : up.
Lemma full_date_day_uP y m : uP (full_date_day y m).
Proof. unfold full_date_day, date_mday. refine (uP_diag (fun j => _) _). intro j. up. Qed.
#[export] Hint Resolve full_date_day_uP : up.
Lemma full_date_tail_uP y : uP (full_date_tail y). Proof. unfold full_date_tail, date_month. up. Qed.
#[export] Hint Resolve full_date_tail_uP : up.
Lemma full_date_uP : uP full_date. Proof. rewrite full_date_eq. up. Qed.
Lemma time_secfrac_uP : uP time_secfrac. Proof. unfold time_secfrac. up. Qed.
#[export] Hint Resolve full_date_uP time_secfrac_uP : up.
Lemma partial_time_uP : uP partial_time. Proof. unfold partial_time, time_hour, time_minute, time_second. up. Qed.
#[export] Hint Resolve partial_time_uP : up.
Lemma time_offset_uP : uP time_offset. Proof. unfold time_offset, time_hour, time_minute. up. Qed.
Lemma time_delim_uP : uP time_delim. Proof. unfold time_delim. up. Qed.
#[export] Hint Resolve time_offset_uP time_delim_uP : up.
Lemma date_time_uP : uP date_time. Proof. unfold date_time. up. Qed.
#[export] Hint Resolve date_time_uP : up.

(* ---- numbers ---------------------------------------------------------------------------------------------------------------- *)
Lemma bool_lit_uP l v : forallb ascii l = true -> uP (bool_lit l v).
Proof. intro H. unfold bool_lit. destruct l as [|c l]; [apply uP_const_panic|]. up. Qed.
Lemma true_uP : uP true_. Proof. apply bool_lit_uP. reflexivity. Qed.
Lemma false_uP : uP false_. Proof. apply bool_lit_uP. reflexivity. Qed.
Lemma dec_int_uP : uP dec_int. Proof. apply uP_of_ascii, dec_int_monoC. Qed.
Lemma prefixed_int_uP w prefix d : forallb ascii prefix = true -> mono d -> uP (prefixed_int w prefix d).
Proof.
  intros Hp Hd. unfold prefixed_int. apply uP_context, uP_unchecked_hands, hands_preceded_lit; [exact Hp|].
  apply hands_taken. np.
Qed.
#[export] Hint Resolve true_uP false_uP dec_int_uP : up.
Lemma integer_uP : uP integer.
Proof.
  intros i a i' V H. destruct (integer_cases i) as [E|[E|[E|E]]]; rewrite E in H; revert V H;
    match goal with |- vin i -> ?p i = _ -> _ => assert (M : uP p); [|intros V H; eapply M; eauto] end.
  - apply uP_cut_err, uP_try_map, prefixed_int_uP; [reflexivity|np].
  - apply uP_cut_err, uP_try_map, prefixed_int_uP; [reflexivity|np].
  - apply uP_cut_err, uP_try_map, prefixed_int_uP; [reflexivity|np].
  - up.
Qed.
Lemma float__uP : uP float_. Proof. rewrite float_eq_. apply uP_unchecked_hands, hands_taken. unfold float_body. np. Qed.
Lemma inf_uP : uP inf. Proof. unfold inf. up. Qed.
Lemma nan_uP : uP nan. Proof. unfold nan. up. Qed.
#[export] Hint Resolve integer_uP float__uP inf_uP nan_uP : up.
Lemma special_float_uP : uP special_float. Proof. unfold special_float. up. Qed.
#[export] Hint Resolve special_float_uP : up.
Lemma float_uP : uP float. Proof. unfold float. up. Qed.
#[export] Hint Resolve float_uP : up.

(* ---- keys --------------------------------------------------------------------------------------------------------------------- *)
Lemma unquoted_key_uP : uP unquoted_key. Proof. unfold unquoted_key. up. Qed.
#[export] Hint Resolve unquoted_key_uP : up.
Lemma simple_key_uP : uP simple_key. Proof. unfold simple_key. up. Qed.
#[export] Hint Resolve simple_key_uP : up.
Lemma key_part_uP : uP key_part. Proof. unfold key_part. up. Qed.
#[export] Hint Resolve key_part_uP : up.
Lemma key_raw_uP : uP key_raw. Proof. unfold key_raw. up. Qed.
#[export] Hint Resolve key_raw_uP : up.
Lemma key_uP : uP key_. Proof. rewrite key_eq. up. Qed.
#[export] Hint Resolve key_uP : up.

(* ---- values --------------------------------------------------------------------------------------------------------------------- *)
Lemma uP_check_recursion {A} (p : parser A) : uP p -> uP (check_recursion p).
Proof.
  intros Hp i a i' V E. apply check_recursion_inv in E as (i2 & d & E & D & ->). unfold vin in *. cbn [set_depth rest].
  eapply (Hp (set_depth (S (depth i)) i)); [exact V|exact E].
Qed.
#[export] Hint Resolve uP_check_recursion : up.

Section Knot.
  Variable value_rec : parser value.
  Hypothesis Hu : uP value_rec.
  Lemma array_value_uP : uP (array_value value_rec). Proof. unfold array_value. up. Qed.
  Local Hint Resolve array_value_uP : up.
  Lemma array_values_uP : uP (array_values value_rec). Proof. unfold array_values. up. Qed.
  Local Hint Resolve array_values_uP : up.
  Lemma array_uP : uP (array value_rec). Proof. unfold array. up. Qed.
  Lemma inline_keyval_uP : uP (inline_keyval value_rec). Proof. unfold inline_keyval. up. Qed.
  Local Hint Resolve inline_keyval_uP : up.
  Lemma inline_table_uP : uP (inline_table value_rec). Proof. unfold inline_table. up. Qed.
  Local Hint Resolve array_uP inline_table_uP : up.
  Lemma value_body_uP : uP (value_body value_rec). Proof. unfold value_body. up. Qed.
  Local Hint Resolve value_body_uP : up.
  Lemma value_step_uP : uP (value_step value_rec). Proof. unfold value_step. up. Qed.
End Knot.
Lemma value_f_uP n : uP (value_f n).
Proof.
  induction n as [|n IH]; [cbn [value_f]; apply uP_const_panic|].
  change (value_f (S n)) with (value_step (value_f n)). apply value_step_uP, IH.
Qed.
Lemma value_uP : uP value_. Proof. intros i a i' V E. eapply value_f_uP; eauto. Qed.
#[export] Hint Resolve value_uP : up.

(* ---- document lines ----------------------------------------------------------------------------------------------------------------- *)
Lemma parse_keyval_uP : uP parse_keyval. Proof. unfold parse_keyval. up. Qed.
#[export] Hint Resolve parse_keyval_uP : up.
Lemma keyval_uP st : uP (keyval st). Proof. unfold keyval. up. Qed.
Lemma header_uP ia st : uP (header ia st). Proof. unfold header. destruct ia; up. Qed.
#[export] Hint Resolve keyval_uP header_uP : up.
Lemma table_uP st : uP (table st). Proof. unfold table. up. Qed.
Lemma parse_comment_uP st : uP (parse_comment st). Proof. unfold parse_comment. up. Qed.
Lemma parse_ws_uP st : uP (parse_ws st). Proof. unfold parse_ws. up. Qed.
Lemma parse_newline_uP st : uP (parse_newline st). Proof. unfold parse_newline. up. Qed.
#[export] Hint Resolve table_uP parse_comment_uP parse_ws_uP parse_newline_uP : up.
Lemma doc_line_uP st : uP (doc_line st). Proof. unfold doc_line. up. Qed.
Lemma doc_loop_uP : forall fuel st i st' i', vin i -> doc_loop fuel st i = Ok st' i' -> vin i'.
Proof.
  induction fuel as [|f IH]; intros st i st' i' V H; cbn [doc_loop] in H; [discriminate|].
  destruct (doc_line st i) as [s1 i1|? ?|? ?|?] eqn:E; try discriminate.
  - destruct (Nat.eqb _ _); [discriminate|]. eapply IH; [|exact H]. eapply doc_line_uP; eauto.
  - inversion H; subst. exact V.
Qed.
