(* Proofs/EditText.v — property C08, from identical reprs to identical PRINTED fragments.

   Part 1 (this file, sections A-C): what Model/Encode.v prints for one entry is a function of a
   small piece of data, the `frag` of the entry:
     FLine kp v     a key/value line of a table section: the key path kp inside the section (the keys
                    of the dotted tables above it and its own key, as STORED: repr + decor) and the whole
                    value v (repr, decor, and for arrays / inline tables everything inside)
     FHead hp d a   a [header] / [[header]] line: the keys from the root, the table's decor, is_array
   `frag_at p` reads the frag of the entry at path p off the tree, following exactly the rules by
   which Encode.v's table_values / nested_tables assign entries to sections (a non-dotted table, an
   array-of-tables element or the root starts a section; a dotted table extends the key path).
   `step_fragment`: an applicable operation leaves the frag of every entry it does not touch
   IDENTICAL — hence (entry_fragment / header_fragment below) the printed bytes of that entry.

   Part 2 (sections D-E): `display_document` is the concatenation, in visiting order, of header
   fragments and entry fragments (`display_document_sections`), and every FLine frag of the tree is
   printed: `entry_fragment kp v` occurs in `display_document` (`line_printed`). *)
From TV Require Import Base.Prelude Gen.Consts Spec.Ordered Model.Datetime Model.Numbers Model.Tree Model.Write Model.Encode.
From TV Require Import Spec.EditSpec Model.Edit Proofs.ContainersOrder Proofs.EditRefineBase Proofs.EditRefine Proofs.EditVerbatim.
Require Import Lia.

(* ==================================================================================== *)
(** * A. The fragment of an entry *)

Inductive frag : Set :=
| FLine (kp : list key) (v : value)
| FHead (hp : list key) (d : decor) (arr : bool).

Definition is_dotted_inline (v : value) : bool :=
  match v with VInline _ _ _ true _ _ => true | _ => false end.

(* k0: the key the current item is stored under (None: the root / an array-of-tables element);
   kp: the key path inside the current section down to (not including) the current item;
   hp: the keys from the root down to (not including) the current item *)
Fixpoint frag_at (p : path) (k0 : option key) (kp hp : list key) (it : item) : option frag :=
  match p with
  | [] =>
    match it with
    | IValue v =>
      match k0 with
      | Some k' => if is_dotted_inline v then None else Some (FLine (kp ++ [k']) v)
      | None => None
      end
    | ITable (Tbl _ d _ dotted _ _) =>
      if dotted then None else
      match k0 with
      | Some k' => Some (FHead (hp ++ [k']) d false)
      | None => match hp with [] => None | _ => Some (FHead hp d true) end
      end
    | _ => None
    end
  | SKey k :: p' =>
    match it with
    | ITable (Tbl items _ _ dotted _ _) =>
      match k0 with
      | Some k' =>
        match kv_get items k with
        | Some (k1, i) => frag_at p' (Some k1) (if dotted then kp ++ [k'] else []) (hp ++ [k']) i
        | None => None
        end
      | None =>
        if dotted then None else
        match kv_get items k with
        | Some (k1, i) => frag_at p' (Some k1) [] hp i
        | None => None
        end
      end
    | _ => None
    end
  | SIdx n :: p' =>
    match it with
    | IAot ts _ =>
      match k0 with
      | Some k' =>
        match nth_error ts n with
        | Some e => frag_at p' None [] (hp ++ [k']) (ITable e)
        | None => None
        end
      | None => None
      end
    | _ => None
    end
  end.

Definition doc_frag (t : tbl) (p : path) : option frag := frag_at p None [] [] (ITable t).

Definition is_head (e : frag) : bool := match e with FHead _ _ _ => true | FLine _ _ => false end.

(* an operation at a node: which relative paths keep their line (U) / their header (UH) *)
Definition keepsL (f : item -> option item) (U UH : path -> bool) (R : path -> path) : Prop :=
  forall i i', f i = Some i' ->
  forall q k0 kp hp e, frag_at q k0 kp hp i = Some e ->
    (if is_head e then UH q else U q) = true ->
    frag_at (R q) k0 kp hp i' = Some e.

Definition UL_at (P : path) (U : path -> bool) (p : path) : bool :=
  match path_strip P p with Some q => U q | None => negb (is_prefix p P) end.
Definition UH_at (P : path) (UH : path -> bool) (p : path) : bool :=
  match path_strip P p with Some q => UH q | None => true end.

(* ==================================================================================== *)
(** * B. Lifting along the path *)

Lemma own_tbl_inv i' m d im dt p sp :
  own i' = own (ITable (Tbl m d im dt p sp)) -> exists m', i' = ITable (Tbl m' d im dt p sp).
Proof.
  destruct i' as [|[| |]|[m' d' im' dt' p' sp']|]; simpl; intro H; try discriminate.
  injection H as -> -> -> -> ->. exists m'. reflexivity.
Qed.
Lemma own_aot_inv i' ts sp : own i' = own (IAot ts sp) -> exists ts', i' = IAot ts' sp.
Proof.
  destruct i' as [|[| |]|[m' d' im' dt' p' sp']|ts' sp']; simpl; intro H; try discriminate.
  injection H as ->. exists ts'. reflexivity.
Qed.

Lemma is_prefix_nil P : is_prefix [] P = true.
Proof. reflexivity. Qed.

Lemma at_path_keepsL P f U UH R :
  keepsL f U UH R -> keepsL (at_path P f) (UL_at P U) (UH_at P UH) (R_at P R).
Proof.
  intro Hf. induction P as [|s P IH].
  - intros i i' H q k0 kp hp e He Hu. unfold UL_at, UH_at, R_at in *. simpl in *. eapply Hf; eauto.
  - intros it it' H q k0 kp hp e He Hu.
    destruct q as [|s2 q].
    + (* the node is an ancestor of the place: only its header survives *)
      unfold R_at, UL_at, UH_at in *. simpl in He, Hu |- *.
      destruct it as [|v|[m d im dt pos sp]|]; try discriminate.
      * destruct k0; [|discriminate]. destruct (is_dotted_inline v); [discriminate|].
        injection He as <-. simpl in Hu. discriminate.
      * assert (O : own it' = own (ITable (Tbl m d im dt pos sp))).
        { destruct s as [k|n].
          - exact (proj1 (at_path_key_shape _ _ _ _ _ H)).
          - exact (proj1 (at_path_idx_shape _ _ _ _ _ H)). }
        destruct (own_tbl_inv _ _ _ _ _ _ _ O) as (m' & ->). exact He.
    + unfold UL_at, UH_at, R_at in *. simpl path_strip in *.
      destruct (seg_eqb s s2) eqn:Es.
      * apply seg_eqb_eq in Es. subst s2.
        assert (Hgoal : forall X, X = match path_strip P q with Some q0 => P ++ R q0 | None => q end ->
                                  frag_at (s :: X) k0 kp hp it' = Some e).
        { intros X ->.
          assert (Hu' : (if is_head e
                         then match path_strip P q with Some q0 => UH q0 | None => true end
                         else match path_strip P q with Some q0 => U q0 | None => negb (is_prefix q P) end) = true).
          { destruct (is_head e); [exact Hu|].
            destruct (path_strip P q); [exact Hu|].
            unfold is_prefix in *. simpl in Hu. rewrite seg_eqb_refl in Hu. exact Hu. }
          destruct s as [k|n].
          -- destruct (at_path_key_shape _ _ _ _ _ H) as (O & _ & _ & items & items' & K & K' & _ & k1 & i & i' & G & G' & A).
             destruct it as [|v|[m d im dt pos sp]|]; try discriminate.
             destruct (own_tbl_inv _ _ _ _ _ _ _ O) as (m' & ->).
             simpl in K, K'. injection K as <-. injection K' as <-.
             simpl in He |- *. rewrite G in He. rewrite G'.
             destruct k0 as [k'|].
             ++ apply (IH i i' A q (Some k1) _ _ e He Hu').
             ++ destruct dt; [discriminate|]. apply (IH i i' A q (Some k1) _ _ e He Hu').
          -- destruct (at_path_idx_shape _ _ _ _ _ H) as (O & _ & _ & l & l' & K & K' & _ & i & i' & G & G' & A).
             destruct it as [|v|[m d im dt pos sp]|ts sp]; try discriminate.
             destruct (own_aot_inv _ _ _ O) as (ts' & ->).
             simpl in K, K'. injection K as <-. injection K' as <-.
             rewrite nth_error_map_ITable in G, G'.
             simpl in He |- *. destruct k0 as [k'|]; [|discriminate].
             destruct (nth_error ts n) as [e0|]; [|discriminate]. simpl in G. injection G as <-.
             destruct (nth_error ts' n) as [e1|]; [|discriminate]. simpl in G'. injection G' as <-.
             apply (IH _ _ A q None _ _ e He Hu'). }
        destruct (path_strip P q); apply Hgoal; reflexivity.
      * (* another child: unchanged *)
        destruct s as [k|n].
        -- destruct (at_path_key_shape _ _ _ _ _ H) as (O & E1 & E2 & items & items' & K & K' & Oth & _).
           destruct s2 as [k2|n2].
           ++ destruct it as [|v|[m d im dt pos sp]|]; try discriminate.
              destruct (own_tbl_inv _ _ _ _ _ _ _ O) as (m' & ->).
              simpl in K, K'. injection K as <-. injection K' as <-.
              simpl in He |- *. rewrite (Oth k2 Es). exact He.
           ++ destruct it as [|v|[m d im dt pos sp]|ts sp]; try discriminate.
        -- destruct (at_path_idx_shape _ _ _ _ _ H) as (O & E1 & E2 & l & l' & K & K' & Oth & _).
           destruct s2 as [k2|n2].
           ++ destruct it as [|v|[m d im dt pos sp]|ts sp]; try discriminate.
           ++ destruct it as [|v|[m d im dt pos sp]|ts sp]; try discriminate.
              destruct (own_aot_inv _ _ _ O) as (ts' & ->).
              simpl in K, K'. injection K as <-. injection K' as <-.
              assert (N : n2 <> n) by (intro; subst; simpl in Es; rewrite Nat.eqb_refl in Es; discriminate).
              pose proof (Oth n2 N) as On. rewrite !nth_error_map_ITable in On.
              simpl in He |- *. destruct k0 as [k'|]; [|discriminate].
              destruct (nth_error ts n2) as [e0|]; [|discriminate].
              destruct (nth_error ts' n2) as [e1|]; simpl in On; [|discriminate].
              injection On as ->. exact He.
Qed.

(* ==================================================================================== *)
(** * C. The operations at their node *)

Definition okey (k : bytes) (q : path) : bool :=
  match q with SKey k2 :: _ => negb (bytes_eqb k k2) | _ => false end.
Definition okeyH (k : bytes) (q : path) : bool :=
  match q with [] => true | SKey k2 :: _ => negb (bytes_eqb k k2) | _ => false end.
Definition no_path (q : path) : bool := false.
Definition any_path (q : path) : bool := true.
Definition nonnil (q : path) : bool := match q with [] => false | _ => true end.
Definition oidx (n : nat) (q : path) : bool :=
  match q with SIdx m :: _ => negb (Nat.eqb n m) | _ => false end.
Definition isidx (q : path) : bool := match q with SIdx _ :: _ => true | _ => false end.

(* a value node has one fragment: its own line *)
Lemma frag_value_only q k0 kp hp v e (U UH : path -> bool) :
  frag_at q k0 kp hp (IValue v) = Some e -> U [] = false ->
  (if is_head e then UH q else U q) = true -> False.
Proof.
  intros He Hn Hu. destruct q as [|[k|n] q]; simpl in He; try discriminate.
  destruct k0; [|discriminate]. destruct (is_dotted_inline v); [discriminate|].
  injection He as <-. simpl in Hu. congruence.
Qed.

Lemma keepsL_value_node f R :
  (forall i i', f i = Some i' -> exists v, i = IValue v) -> keepsL f no_path any_path R.
Proof.
  intros Hv i i' H q k0 kp hp e He Hu. destruct (Hv _ _ H) as (v & ->).
  exfalso. eapply (frag_value_only q k0 kp hp v e no_path any_path); eauto.
Qed.

(* a function that rewrites the entries of a table node (and may also work on values) *)
Lemma keepsL_items (f : item -> option item) (g : kvs -> kvs) k :
  (forall i i', f i = Some i' ->
     (exists v, i = IValue v) \/
     (exists m d im dt p sp, i = ITable (Tbl m d im dt p sp) /\ i' = ITable (Tbl (g m) d im dt p sp))) ->
  (forall m k2, bytes_eqb k k2 = false -> kv_get (g m) k2 = kv_get m k2) ->
  keepsL f (okey k) (okeyH k) ident.
Proof.
  intros Hs Hg i i' H q k0 kp hp e He Hu. unfold ident.
  destruct (Hs _ _ H) as [(v & ->)|(m & d & im & dt & p & sp & -> & ->)].
  - exfalso. eapply (frag_value_only q k0 kp hp v e (okey k) (okeyH k)); eauto.
  - destruct q as [|[k2|n] q]; simpl in He |- *; [exact He| |discriminate].
    assert (N : bytes_eqb k k2 = false).
    { destruct (is_head e); simpl in Hu; destruct (bytes_eqb k k2); simpl in Hu; congruence. }
    rewrite (Hg m k2 N). exact He.
Qed.

Lemma op_insert_keepsL k v : keepsL (op_insert k v) (okey k) (okeyH k) ident.
Proof.
  apply (keepsL_items _ (fun m => items_insert m k (IValue (build_value v)))).
  - intros i i' H.
    destruct i as [|[| |items pre im dt d sp]|[items d im dt p sp]|]; simpl in H; try discriminate; injection H as <-.
    + left. eexists. reflexivity.
    + right. do 6 eexists. split; reflexivity.
  - intros. apply kv_get_items_insert_other. assumption.
Qed.

Lemma op_insert_item_keepsL k x : keepsL (op_insert_item k x) (okey k) (okeyH k) ident.
Proof.
  apply (keepsL_items _ (fun m => items_insert m k x)).
  - intros i i' H. destruct i as [| |[items d im dt p sp]|]; simpl in H; try discriminate. injection H as <-.
    right. do 6 eexists. split; reflexivity.
  - intros. apply kv_get_items_insert_other. assumption.
Qed.

Lemma op_remove_keepsL k : keepsL (op_remove k) (okey k) (okeyH k) ident.
Proof.
  apply (keepsL_items _ (fun m => kv_remove m k)).
  - intros i i' H.
    destruct i as [|[| |items pre im dt d sp]|[items d im dt p sp]|]; simpl in H; try discriminate; injection H as <-.
    + left. eexists. reflexivity.
    + right. do 6 eexists. split; reflexivity.
  - intros. apply kv_get_remove_other. assumption.
Qed.

Lemma op_slot_keepsL k conv : keepsL (op_slot k conv) (okey k) (okeyH k) ident.
Proof.
  intros i i' H q k0 kp hp e He Hu. unfold ident.
  destruct i as [| |[items d im dt p sp]|]; simpl in H; try discriminate.
  destruct (kv_upd k _ items) as [items'|] eqn:E; simpl in H; [|discriminate]. injection H as <-.
  destruct q as [|[k2|n] q]; simpl in He |- *; [exact He| |discriminate].
  assert (N : bytes_eqb k k2 = false).
  { destruct (is_head e); simpl in Hu; destruct (bytes_eqb k k2); simpl in Hu; congruence. }
  rewrite (kv_upd_get_other _ _ _ _ _ E N). exact He.
Qed.

(* -- arrays: nothing below an array is a line of its own -- *)
Lemma op_arr_push_keepsL v : keepsL (op_arr_push v) no_path any_path ident.
Proof.
  apply keepsL_value_node. intros i i' H.
  destruct i as [|[|vals tr c d sp|]| |]; simpl in H; try discriminate. eexists; reflexivity.
Qed.
Lemma op_arr_insert_keepsL n v : keepsL (op_arr_insert n v) no_path any_path ident.
Proof.
  apply keepsL_value_node. intros i i' H.
  destruct i as [|[|vals tr c d sp|]| |]; simpl in H; try discriminate. eexists; reflexivity.
Qed.
Lemma op_arr_replace_keepsL n v : keepsL (op_arr_replace n v) no_path any_path ident.
Proof.
  apply keepsL_value_node. intros i i' H.
  destruct i as [|[|vals tr c d sp|]| |]; simpl in H; try discriminate. eexists; reflexivity.
Qed.
Lemma op_arr_remove_keepsL n : keepsL (op_arr_remove n) no_path any_path ident.
Proof.
  apply keepsL_value_node. intros i i' H.
  destruct i as [|[|vals tr c d sp|]| |]; simpl in H; try discriminate. eexists; reflexivity.
Qed.

(* -- arrays of tables -- *)
Lemma op_aot_push_keepsL : keepsL op_aot_push isidx isidx ident.
Proof.
  intros i i' H q k0 kp hp e He Hu. unfold ident.
  destruct i as [| | |ts sp]; simpl in H; try discriminate. injection H as <-.
  destruct q as [|[k2|n] q]; simpl in He |- *; try discriminate.
  destruct k0 as [k'|]; [|discriminate].
  destruct (nth_error ts n) as [e0|] eqn:G; [|discriminate].
  rewrite nth_error_app1 by (apply nth_error_Some; congruence). rewrite G. exact He.
Qed.

Lemma op_aot_remove_keepsL n : keepsL (op_aot_remove n) (oidx n) (oidx n) (shift_down n).
Proof.
  intros i i' H q k0 kp hp e He Hu.
  destruct i as [| | |ts sp]; simpl in H; try discriminate.
  destruct (vec_remove n ts) as [[y ts']|] eqn:E; simpl in H; [|discriminate]. injection H as <-.
  destruct q as [|[k2|m] q]; simpl in He |- *; try discriminate.
  destruct k0 as [k'|]; [|discriminate].
  assert (N : m <> n).
  { intro; subst. destruct (is_head e); simpl in Hu; rewrite Nat.eqb_refl in Hu; discriminate. }
  rewrite (vec_remove_nth _ _ _ _ _ E N). exact He.
Qed.

(* -- sort -- *)
Lemma sort_frag : forall t q k0 kp hp,
  frag_at q k0 kp hp (ITable (tbl_sort_values t)) = frag_at q k0 kp hp (ITable t).
Proof.
  pose (Pt := fun t => forall q k0 kp hp,
                  frag_at q k0 kp hp (ITable (tbl_sort_values t)) = frag_at q k0 kp hp (ITable t)).
  pose (Pv := fun _ : value => True).
  pose (Pi := fun i => match i with ITable t => Pt t | _ => True end).
  apply (tbl_ind4 Pv Pi Pt); unfold Pv, Pi; try (intros; exact I); try (intros; assumption).
  intros items d im dt p sp IH q k0 kp hp.
  destruct q as [|[k|n] q]; [reflexivity| |reflexivity].
  simpl tbl_sort_values. simpl frag_at.
  rewrite kv_get_sort_keys, kv_get_map.
  destruct (kv_get items k) as [[k1 i]|] eqn:G; [|reflexivity].
  rewrite Forall_forall in IH. specialize (IH _ (kv_get_In _ _ _ _ G)). simpl in IH.
  assert (E : forall kp' hp',
             frag_at q (Some k1) kp' hp'
                     match i with
                     | ITable (Tbl _ _ _ true _ _ as sub) => ITable (tbl_sort_values sub)
                     | _ => i
                     end = frag_at q (Some k1) kp' hp' i).
  { intros kp' hp'.
    destruct i as [|v|[items0 d0 im0 dt0 p0 sp0]|]; try reflexivity.
    destruct dt0; [|reflexivity]. apply IH. }
  destruct k0 as [k'|]; [apply E|]. destruct dt; [reflexivity|apply E].
Qed.

Lemma op_sort_keepsL : keepsL op_sort nonnil any_path ident.
Proof.
  intros i i' H q k0 kp hp e He Hu. unfold ident.
  destruct i as [|[| |items pre im dt d sp]|t|]; unfold op_sort in H; try discriminate; injection H as <-.
  - exfalso. eapply (frag_value_only q k0 kp hp _ e nonnil any_path); eauto.
  - rewrite sort_frag. exact He.
Qed.

(* -- sort_by -- *)
Lemma sort_by_frag cm : forall t, tbl_is_map t = true -> forall q k0 kp hp,
  frag_at q k0 kp hp (ITable (tbl_sort_by cm t)) = frag_at q k0 kp hp (ITable t).
Proof.
  pose (Pt := fun t => tbl_is_map t = true -> forall q k0 kp hp,
                  frag_at q k0 kp hp (ITable (tbl_sort_by cm t)) = frag_at q k0 kp hp (ITable t)).
  pose (Pv := fun _ : value => True).
  pose (Pi := fun i => match i with ITable t => Pt t | _ => True end).
  apply (tbl_ind4 Pv Pi Pt); unfold Pv, Pi; try (intros; exact I); try (intros; assumption).
  intros items d im dt p sp IH Hm q k0 kp hp. rewrite tbl_is_map_eq in Hm. apply andb_true_iff in Hm as [Hd Hc].
  destruct q as [|[k|n] q]; [reflexivity| |reflexivity].
  simpl tbl_sort_by. simpl frag_at.
  rewrite kv_get_sort_by by (rewrite kkeys_b_map; exact Hd). rewrite kv_get_map.
  destruct (kv_get items k) as [[k1 i]|] eqn:G; [|reflexivity].
  rewrite Forall_forall in IH. specialize (IH _ (kv_get_In _ _ _ _ G)). simpl in IH.
  rewrite forallb_forall in Hc. specialize (Hc _ (kv_get_In _ _ _ _ G)). cbn [snd] in Hc.
  assert (E : forall kp' hp',
             frag_at q (Some k1) kp' hp'
                     match i with
                     | ITable (Tbl _ _ _ true _ _ as sub) => ITable (tbl_sort_by cm sub)
                     | _ => i
                     end = frag_at q (Some k1) kp' hp' i).
  { intros kp' hp'.
    destruct i as [|v|[items0 d0 im0 dt0 p0 sp0]|]; try reflexivity.
    destruct dt0; [|reflexivity]. apply IH. exact Hc. }
  destruct k0 as [k'|]; [apply E|]. destruct dt; [reflexivity|apply E].
Qed.

Lemma op_sort_by_keepsL cm : keepsL (op_sort_by cm) nonnil any_path ident.
Proof.
  intros i i' H q k0 kp hp e He Hu. unfold ident.
  destruct i as [|[| |items pre im dt d sp]|t|]; unfold op_sort_by in H; try discriminate.
  - exfalso. eapply (frag_value_only q k0 kp hp _ e nonnil any_path); eauto.
  - destruct (tbl_is_map t) eqn:Hm; [|discriminate]. injection H as <-. rewrite (sort_by_frag cm t Hm). exact He.
Qed.

(* -- fmt -- *)
Lemma kv_get_decorate_tbl m k :
  kv_get (decorate_items m) k
  = match kv_get m k with
    | Some (k', IValue v) => Some (mkKey (k_key k') (k_repr k') decor_default decor_default, IValue (value_clear_decor v))
    | x => x
    end.
Proof.
  induction m as [|[k1 i] m IH]; simpl; [reflexivity|].
  destruct i as [|v| |]; simpl; destruct (bytes_eqb (k_key k1) k); try reflexivity; exact IH.
Qed.

Lemma frag_value_deeper s q k0 kp hp v : frag_at (s :: q) k0 kp hp (IValue v) = None.
Proof. destruct s; reflexivity. Qed.

Lemma op_fmt_keepsL : keepsL op_fmt deeper any_path ident.
Proof.
  intros i i' H q k0 kp hp e He Hu. unfold ident.
  destruct i as [|[|vals tr c d sp|items pre im dt d sp]|[items d im dt p sp]|]; simpl in H; try discriminate;
    injection H as <-;
    try (exfalso; eapply (frag_value_only q k0 kp hp _ e deeper any_path); eauto; fail).
  destruct q as [|[k|n] q]; simpl in He |- *; [exact He| |discriminate].
  rewrite kv_get_decorate_tbl.
  destruct (kv_get items k) as [[k1 i]|]; [|destruct k0; [discriminate|destruct dt; discriminate]].
  destruct i as [|v|t|ts sp0]; try exact He.
  (* a direct value child: its line is reformatted; nothing deeper is a line *)
  destruct q as [|s q].
  - assert (Hl : is_head e = false).
    { destruct k0 as [k'|]; [|destruct dt; [discriminate|]]; simpl in He;
        destruct (is_dotted_inline v); try discriminate; injection He as <-; reflexivity. }
    rewrite Hl in Hu. discriminate.
  - destruct k0 as [k'|]; [|destruct dt; [discriminate|]]; rewrite frag_value_deeper in He; discriminate.
Qed.

(* -- IndexMut -- *)
Definition off_keys (ks : list bytes) (q : path) : bool :=
  negb (is_prefix (map SKey ks) q) && negb (is_prefix q (map SKey ks)).
Definition not_below (ks : list bytes) (q : path) : bool := negb (is_prefix (map SKey ks) q).

Lemma iset_keepsL ks x : forall it it',
  iset ks x it = Some it' ->
  forall q k0 kp hp e, frag_at q k0 kp hp it = Some e ->
    (if is_head e then not_below ks q else off_keys ks q) = true ->
    frag_at q k0 kp hp it' = Some e.
Proof.
  induction ks as [|k ks IH]; intros it it' H q k0 kp hp e He Hu.
  - destruct (is_head e); unfold not_below, off_keys in Hu; simpl in Hu; discriminate.
  - simpl in H.
    destruct it as [|[s r d|vals tr c d sp|items pre im dt d sp]|[items d im dt p sp]|ts sp]; try discriminate.
    + destruct q as [|[k2|n] q]; simpl in He; discriminate.
    + (* an inline table on the way: its own line contains the assignment *)
      destruct q as [|[k2|n] q]; simpl in He; try discriminate.
      destruct k0; [|discriminate]. destruct dt; simpl in He; [discriminate|]. injection He as <-.
      simpl in Hu. unfold off_keys, is_prefix in Hu. simpl in Hu. discriminate.
    + destruct (entry_or_none items k) as [m slot] eqn:EO.
      destruct (iset ks x slot) as [slot'|] eqn:E; simpl in H; [|discriminate]. injection H as <-.
      destruct q as [|[k2|n] q]; simpl in He |- *; [exact He| |discriminate].
      assert (Hstep : forall kp' hp',
                 match kv_get items k2 with Some (k1, i) => frag_at q (Some k1) kp' hp' i | None => None end = Some e ->
                 match kv_get (kv_set m k slot') k2 with Some (k1, i) => frag_at q (Some k1) kp' hp' i | None => None end = Some e).
      { intros kp' hp' He'. destruct (bytes_eqb k k2) eqn:Ek.
        - apply bytes_eqb_eq in Ek. subst k2.
          destruct (kv_get items k) as [[k1 i]|] eqn:G; [|discriminate].
          assert (Hi : i <> INone).
          { intro; subst i. destruct q as [|[k2|n] q]; simpl in He'; discriminate. }
          rewrite (entry_or_none_same _ _ _ _ G Hi) in EO. injection EO as <- <-.
          rewrite (kv_get_set_same _ _ _ _ _ G).
          apply (IH _ _ E q (Some k1) kp' hp' e He').
          destruct (is_head e); unfold not_below, off_keys, is_prefix in *; simpl in Hu;
            rewrite bytes_eqb_refl in Hu; exact Hu.
        - rewrite kv_get_set_other by exact Ek.
          replace m with (fst (entry_or_none items k)) by (rewrite EO; reflexivity).
          rewrite entry_or_none_fst_other by exact Ek. exact He'. }
      destruct k0 as [k'|]; [apply Hstep; exact He|]. destruct dt; [discriminate|apply Hstep; exact He].
Qed.

(* -- the step -- *)
(* where an operation works (P); which paths relative to P keep their line (U) / header (UH); where they go (R) *)
Definition op_regionL (o : op) : path * (path -> bool) * (path -> bool) * (path -> path) :=
  match o with
  | OInsert p k _ | OInsertTable p k | OInsertAot p k | ORemove p k
  | OMakeValue p k | OIntoTable p k | OIntoAot p k => (p, okey k, okeyH k, ident)
  | OArrPush p _ | OArrInsert p _ _ | OArrReplace p _ _ | OArrRemove p _ => (p, no_path, any_path, ident)
  | OAotPush p => (p, isidx, isidx, ident)
  | OAotRemove p i => (p, oidx i, oidx i, shift_down i)
  | OSort p | OSortBy p _ => (p, nonnil, any_path, ident)
  | OFmt p => (p, deeper, any_path, ident)
  | OISet ks _ => ([], off_keys ks, not_below ks, ident)
  end.

(* the entry at p (a key/value line if head = false, a header if head = true) is not touched by o:
   it is not the edited entry, not inside it, and — for a line — the edit is not inside its value *)
Definition untouched_frag (o : op) (p : path) (head : bool) : bool :=
  match op_regionL o with (P, U, UH, _) => if head then UH_at P UH p else UL_at P U p end.
Definition reloc_frag (o : op) (p : path) : path :=
  match op_regionL o with (P, _, _, R) => R_at P R p end.

Theorem step_fragment : forall t o t' p e,
  apply o t = Some t' -> doc_frag t p = Some e -> untouched_frag o p (is_head e) = true ->
  doc_frag t' (reloc_frag o p) = Some e.
Proof.
  intros t o t' p e H He Hu. unfold apply in H.
  destruct (op_fun o) as [P f] eqn:EO. apply as_tbl_abs in H.
  unfold doc_frag, untouched_frag, reloc_frag in *.
  assert (K : forall U UH R, keepsL f U UH R -> op_regionL o = (P, U, UH, R) ->
                             frag_at (match op_regionL o with (P, _, _, R) => R_at P R p end) None [] [] (ITable t') = Some e).
  { intros U UH R Hk Er. rewrite Er in *.
    apply (at_path_keepsL P f U UH R Hk _ _ H p None [] [] e He).
    destruct (is_head e); exact Hu. }
  destruct o as [q k v|q k|q k|q k|q v|q i v|q i v|q i|q|q i|q|q|q k|q k|q k|ks x|q cm];
    simpl in EO; injection EO as <- <-.
  - exact (K _ _ _ (op_insert_keepsL k v) eq_refl).
  - exact (K _ _ _ (op_insert_item_keepsL k _) eq_refl).
  - exact (K _ _ _ (op_insert_item_keepsL k _) eq_refl).
  - exact (K _ _ _ (op_remove_keepsL k) eq_refl).
  - exact (K _ _ _ (op_arr_push_keepsL v) eq_refl).
  - exact (K _ _ _ (op_arr_insert_keepsL i v) eq_refl).
  - exact (K _ _ _ (op_arr_replace_keepsL i v) eq_refl).
  - exact (K _ _ _ (op_arr_remove_keepsL i) eq_refl).
  - exact (K _ _ _ op_aot_push_keepsL eq_refl).
  - exact (K _ _ _ (op_aot_remove_keepsL i) eq_refl).
  - exact (K _ _ _ op_sort_keepsL eq_refl).
  - exact (K _ _ _ op_fmt_keepsL eq_refl).
  - exact (K _ _ _ (op_slot_keepsL k _) eq_refl).
  - exact (K _ _ _ (op_slot_keepsL k _) eq_refl).
  - exact (K _ _ _ (op_slot_keepsL k _) eq_refl).
  - apply (K (off_keys ks) (not_below ks) ident); [|reflexivity].
    intros i i' Hi q0 k0 kp hp e0 He0 Hu0. unfold ident.
    destruct ks as [|k ks]; [discriminate|]. exact (iset_keepsL _ _ _ _ Hi q0 k0 kp hp e0 He0 Hu0).
  - exact (K _ _ _ (op_sort_by_keepsL cm) eq_refl).
Qed.

(* along a history *)
Fixpoint untouched_frag_all (ops : list op) (p : path) (head : bool) : bool :=
  match ops with
  | [] => true
  | o :: tl => untouched_frag o p head && untouched_frag_all tl (reloc_frag o p) head
  end.
Fixpoint reloc_frag_all (ops : list op) (p : path) : path :=
  match ops with
  | [] => p
  | o :: tl => reloc_frag_all tl (reloc_frag o p)
  end.

Theorem history_fragment : forall ops t t' p e,
  apply_seq ops t = Some t' -> doc_frag t p = Some e -> untouched_frag_all ops p (is_head e) = true ->
  doc_frag t' (reloc_frag_all ops p) = Some e.
Proof.
  induction ops as [|o ops IH]; intros t t' p e H He Hu; simpl in *.
  - injection H as <-. exact He.
  - destruct (apply o t) as [t1|] eqn:E; [|discriminate].
    apply andb_true_iff in Hu as [Hu1 Hu2].
    apply (IH t1 t' (reloc_frag o p) e H); [|exact Hu2].
    exact (step_fragment _ _ _ _ _ E He Hu1).
Qed.

(* ==================================================================================== *)
(** * D. What Encode.v prints, fragment by fragment *)

(* one key/value line of a table section (the body loop of encode.rs: visit_table) *)
Definition entry_fragment (kp : list key) (v : value) : bytes :=
  encode_key_path kp DEFAULT_KEY_DECOR ++ [x3d]
  ++ encode_value (S (value_size v)) v DEFAULT_VALUE_DECOR ++ [x0a].

(* one [header] / [[header]] line; `first` = no table has been printed yet (default decor) *)
Definition header_text (hp : list key) (d : decor) (arr first : bool) : bytes :=
  let default := if first then ([], snd DEFAULT_TABLE_DECOR) else DEFAULT_TABLE_DECOR in
  decor_prefix d (fst default) ++ encode_key_comments hp ++ (if arr then [x5b; x5b] else [x5b])
  ++ encode_header_key_path hp DEFAULT_KEY_PATH_DECOR ++ (if arr then [x5d; x5d] else [x5d])
  ++ decor_suffix d (snd default) ++ [x0a].

(* the printed bytes of a fragment *)
Definition frag_text (e : frag) (first : bool) : bytes :=
  match e with
  | FLine kp v => entry_fragment kp v
  | FHead hp d arr => header_text hp d arr first
  end.

(* the key/value lines of a section, in printing order (Table::get_values) *)
Definition section_lines (t : tbl) : list (list key * value) := table_values (S (tbl_size t)) [] (t_items t).
Definition no_lines (t : tbl) : bool := match section_lines t with [] => true | _ => false end.

(* the header line of a section: none for the root and for an implicit table without lines *)
Definition header_fragment (t : tbl) (path : list key) (is_array first : bool) : bytes :=
  match path with
  | [] => []
  | _ => if is_array then header_text path (t_decor t) true first
         else if negb (t_implicit t && no_lines t) then header_text path (t_decor t) false first
         else []
  end.
Definition next_first (t : tbl) (path : list key) (is_array first : bool) : bool :=
  match path with
  | [] => if no_lines t then first else false
  | _ => if is_array then false else if negb (t_implicit t && no_lines t) then false else first
  end.
Definition section_text (t : tbl) (path : list key) (is_array first : bool) : bytes :=
  header_fragment t path is_array first
  ++ flat_map (fun x => entry_fragment (fst x) (snd x)) (section_lines t).

Lemma visit_table_eq t path is_array first :
  visit_table t path is_array first = (section_text t path is_array first, next_first t path is_array first).
Proof.
  unfold visit_table, section_text, header_fragment, next_first, no_lines, section_lines, header_text, entry_fragment.
  assert (E : forall l : list (list key * value),
             flat_map (fun '(kp, v) => encode_key_path kp DEFAULT_KEY_DECOR ++ [x3d]
                                       ++ encode_value (S (value_size v)) v DEFAULT_VALUE_DECOR ++ [x0a]) l
             = flat_map (fun x => encode_key_path (fst x) DEFAULT_KEY_DECOR ++ [x3d]
                                  ++ encode_value (S (value_size (snd x))) (snd x) DEFAULT_VALUE_DECOR ++ [x0a]) l).
  { intro l. apply flat_map_ext. intros [kp v]. reflexivity. }
  rewrite E. clear E.
  generalize (table_values (S (tbl_size t)) [] (t_items t)). intro ch.
  destruct path as [|k0 path]; [destruct ch; reflexivity|].
  destruct is_array; [reflexivity|].
  destruct (t_implicit t); destruct ch; reflexivity.
Qed.

(* the sections of a document in printing order: (position, (table, header path, is_array)) *)
Definition doc_sections (root : tbl) : list (N * (tbl * list key * bool)) :=
  Encode.stable_sort (assign_positions 0 (nested_tables (S (tbl_size root)) root [] false)).

Fixpoint sections_text (l : list (N * (tbl * list key * bool))) (first : bool) : bytes :=
  match l with
  | [] => []
  | (_, (t, p, a)) :: tl => section_text t p a first ++ sections_text tl (next_first t p a first)
  end.

Lemma visit_tables_eq l first : visit_tables l first = sections_text l first.
Proof.
  revert first. induction l as [|[pos [[t p] a]] l IH]; intro first; [reflexivity|].
  simpl. rewrite visit_table_eq. rewrite IH. reflexivity.
Qed.

(* (a): the printed document is the concatenation, section by section in printing order, of
   the header fragment and the entry fragments of the section *)
Theorem display_document_sections root trailing :
  display_document root trailing
  = decor_prefix (t_decor root) (fst DEFAULT_ROOT_DECOR)
    ++ sections_text (doc_sections root) true
    ++ decor_suffix (t_decor root) (snd DEFAULT_ROOT_DECOR)
    ++ raw_encode trailing [].
Proof. unfold display_document, doc_sections. rewrite visit_tables_eq. reflexivity. Qed.

(* ==================================================================================== *)
(** * E. Every line fragment of the tree is printed *)

Definition infix {A} (a b : list A) : Prop := exists pre post, b = pre ++ a ++ post.

Lemma infix_refl {A} (a : list A) : infix a a.
Proof. exists [], []. rewrite app_nil_r. reflexivity. Qed.
Lemma infix_app_r {A} (a b c : list A) : infix a b -> infix a (b ++ c).
Proof. intros (x & y & ->). exists x, (y ++ c). rewrite !app_assoc. reflexivity. Qed.
Lemma infix_app_l {A} (a b c : list A) : infix a b -> infix a (c ++ b).
Proof. intros (x & y & ->). exists (c ++ x), y. rewrite !app_assoc. reflexivity. Qed.
Lemma infix_trans {A} (a b c : list A) : infix a b -> infix b c -> infix a c.
Proof.
  intros (x & y & ->) (x' & y' & ->). exists (x' ++ x), (y ++ y'). rewrite !app_assoc. reflexivity.
Qed.
Lemma infix_flat_map {A B} (f : A -> list B) x l : In x l -> infix (f x) (flat_map f l).
Proof.
  induction l as [|y l IH]; simpl; [contradiction|]. intros [->|H].
  - apply infix_app_r, infix_refl.
  - apply infix_app_l, IH, H.
Qed.

(* -- the bodies of the two traversals of Encode.v -- *)
Definition contrib (f : nat) (parent : list key) (kv : key * item) : list (list key * value) :=
  let path := parent ++ [fst kv] in
  match snd kv with
  | ITable (Tbl sub _ _ true _ _) => table_values f path sub
  | IValue (VInline sub _ _ true _ _) => inline_values f path sub
  | IValue v => [(path, v)]
  | _ => []
  end.
Lemma table_values_S f parent items : table_values (S f) parent items = flat_map (contrib f parent) items.
Proof. reflexivity. Qed.

Definition ncontrib (f : nat) (path : list key) (kv : key * item) : list (tbl * list key * bool) :=
  match snd kv with
  | ITable sub => nested_tables f sub (path ++ [fst kv]) false
  | IAot ts _ => flat_map (fun sub => nested_tables f sub (path ++ [fst kv]) true) ts
  | _ => []
  end.
Lemma nested_tables_S f t path arr :
  nested_tables (S f) t path arr
  = (if t_dotted t then [] else [(t, path, arr)]) ++ flat_map (ncontrib f path) (t_items t).
Proof. reflexivity. Qed.

(* -- sizes -- *)
Definition isz (items : kvs) : nat :=
  fold_right (fun kv acc => match kv with (_, i0) => item_size i0 + acc end) 0 items.
Lemma tbl_size_eq items d im dt p sp : tbl_size (Tbl items d im dt p sp) = S (isz items).
Proof. reflexivity. Qed.
Lemma isz_In k i items : In (k, i) items -> item_size i <= isz items.
Proof.
  induction items as [|[k1 i1] items IH]; simpl; [contradiction|].
  intros [H|H]; [injection H as -> ->; lia|]. specialize (IH H). lia.
Qed.
Lemma tsz_In e ts : In e ts -> tbl_size e <= fold_right (fun t acc => tbl_size t + acc) 0 ts.
Proof.
  induction ts as [|t ts IH]; simpl; [contradiction|].
  intros [->|H]; [lia|]. specialize (IH H). lia.
Qed.

(* -- a line fragment belongs to the lines of some section of the traversal -- *)
Lemma frag_line_sound : forall p k0 kp hp it kp1 v,
  frag_at p k0 kp hp it = Some (FLine kp1 v) ->
  match k0 with
  | Some k' =>
    (forall f, item_size it <= f -> In (kp1, v) (contrib f kp (k', it))) \/
    (exists sec, In (kp1, v) (section_lines sec) /\
                 exists sp ar, forall f, item_size it <= f -> In (sec, sp, ar) (ncontrib f hp (k', it)))
  | None =>
    match it with
    | ITable cur =>
      forall arr, exists sec, In (kp1, v) (section_lines sec) /\
                  exists sp ar, forall f, S (tbl_size cur) <= f -> In (sec, sp, ar) (nested_tables f cur hp arr)
    | _ => False
    end
  end.
Proof.
  induction p as [|s p IH]; intros k0 kp hp it kp1 v He.
  - (* the value itself *)
    simpl in He. destruct it as [|v0|[m d im dt pos sp]|]; try discriminate.
    + destruct k0 as [k'|]; [|discriminate].
      destruct (is_dotted_inline v0) eqn:Ed; [discriminate|]. injection He as <- <-.
      left. intros f _. unfold contrib. simpl.
      destruct v0 as [| |sub pre im [|] d sp]; try (left; reflexivity). discriminate.
    + destruct dt; [discriminate|]. destruct k0; [discriminate|]. destruct hp; discriminate.
  - destruct s as [k|n]; simpl in He.
    + destruct it as [|v0|[m d im dt pos sp]|]; try discriminate.
      assert (Hchild : forall k1 i kp' hp',
                 kv_get m k = Some (k1, i) -> frag_at p (Some k1) kp' hp' i = Some (FLine kp1 v) ->
                 (* either a line of this table's own traversal, or a section below *)
                 (forall f, isz m <= f -> In (kp1, v) (flat_map (contrib f kp') m)) \/
                 (exists sec, In (kp1, v) (section_lines sec) /\
                              exists sp0 ar, forall f, isz m <= f -> In (sec, sp0, ar) (flat_map (ncontrib f hp') m))).
      { intros k1 i kp' hp' G Hf. pose proof (kv_get_In _ _ _ _ G) as Hin.
        pose proof (isz_In _ _ _ Hin) as Hsz.
        destruct (IH (Some k1) kp' hp' i kp1 v Hf) as [H1|(sec & Hl & sp0 & ar & H2)].
        - left. intros f Hle. apply in_flat_map. exists (k1, i). split; [exact Hin|]. apply H1. unfold isz. lia.
        - right. exists sec. split; [exact Hl|]. exists sp0, ar. intros f Hle.
          apply in_flat_map. exists (k1, i). split; [exact Hin|]. apply H2. unfold isz. lia. }
      destruct k0 as [k'|].
      * destruct (kv_get m k) as [[k1 i]|] eqn:G; [|discriminate].
        destruct (Hchild k1 i _ _ eq_refl He) as [H1|(sec & Hl & sp0 & ar & H2)].
        -- destruct dt.
           ++ (* a dotted table: its lines are lines of the enclosing section *)
              left. intros f Hle. unfold contrib. simpl. simpl in Hle.
              destruct f as [|f]; [lia|]. rewrite table_values_S. apply H1. unfold isz. lia.
           ++ (* a section of its own *)
              right. exists (Tbl m d im false pos sp). split.
              ** unfold section_lines. rewrite table_values_S. apply H1. unfold isz. simpl. lia.
              ** exists (hp ++ [k']), false. intros f Hle. unfold ncontrib. simpl. simpl in Hle.
                 destruct f as [|f]; [lia|]. rewrite nested_tables_S. simpl. left. reflexivity.
        -- right. exists sec. split; [exact Hl|]. exists sp0, ar. intros f Hle.
           unfold ncontrib. simpl. simpl in Hle. destruct f as [|f]; [lia|].
           rewrite nested_tables_S. apply in_or_app. right. apply H2. unfold isz. lia.
      * destruct dt; [discriminate|].
        destruct (kv_get m k) as [[k1 i]|] eqn:G; [|discriminate].
        intro arr.
        destruct (Hchild k1 i _ _ eq_refl He) as [H1|(sec & Hl & sp0 & ar & H2)].
        -- exists (Tbl m d im false pos sp). split.
           ++ unfold section_lines. rewrite table_values_S. apply H1. unfold isz. simpl. lia.
           ++ exists hp, arr. intros f Hle. destruct f as [|f]; [lia|].
              rewrite nested_tables_S. simpl. left. reflexivity.
        -- exists sec. split; [exact Hl|]. exists sp0, ar. intros f Hle. simpl in Hle.
           destruct f as [|f]; [lia|]. rewrite nested_tables_S. apply in_or_app. right. apply H2. unfold isz. lia.
    + destruct it as [|v0|[m d im dt pos sp]|ts sp]; try discriminate.
      destruct k0 as [k'|]; [|discriminate].
      destruct (nth_error ts n) as [e|] eqn:G; [|discriminate].
      specialize (IH None [] (hp ++ [k']) (ITable e) kp1 v He). simpl in IH.
      destruct (IH true) as (sec & Hl & sp0 & ar & H2).
      right. exists sec. split; [exact Hl|]. exists sp0, ar. intros f Hle.
      unfold ncontrib. simpl. apply in_flat_map. exists e. split; [eapply nth_error_In; eauto|].
      apply H2. pose proof (tsz_In e ts (nth_error_In _ _ G)). simpl in Hle. lia.
Qed.

(* -- from a section of the traversal to the text -- *)
Lemma assign_positions_In x l last : In x l -> exists pos, In (pos, x) (assign_positions last l).
Proof.
  revert last. induction l as [|[[t p] a] l IH]; intro last; simpl; [contradiction|].
  intros [<-|H].
  - eexists. left. reflexivity.
  - destruct (IH (match t_position t with Some q => q | None => last end) H) as (pos & Hp).
    exists pos. right. exact Hp.
Qed.

Lemma insert_sorted_In {A} (x y : N * A) l : In y (insert_sorted x l) <-> y = x \/ In y l.
Proof.
  induction l as [|z l IH]; simpl; [intuition congruence|].
  destruct (fst x <? fst z)%N; simpl; [intuition congruence|]. rewrite IH. intuition congruence.
Qed.
Lemma enc_stable_sort_In {A} (y : N * A) l : In y l -> In y (Encode.stable_sort l).
Proof.
  unfold Encode.stable_sort.
  assert (G : forall acc, In y l \/ In y acc -> In y (fold_left (fun acc x => insert_sorted x acc) l acc)).
  { induction l as [|x l IH]; intros acc H; simpl.
    - destruct H; [contradiction|assumption].
    - apply IH. destruct H as [[->|H]|H].
      + right. apply insert_sorted_In. left. reflexivity.
      + left. exact H.
      + right. apply insert_sorted_In. right. exact H. }
  intro H. apply G. left. exact H.
Qed.

Lemma sections_text_infix l pos t p a :
  In (pos, (t, p, a)) l -> forall first, exists first', infix (section_text t p a first') (sections_text l first).
Proof.
  induction l as [|[pos1 [[t1 p1] a1]] l IH]; simpl; [contradiction|].
  intros [H|H] first.
  - injection H as -> -> -> ->. exists first. apply infix_app_r, infix_refl.
  - destruct (IH H (next_first t1 p1 a1 first)) as (f' & Hi). exists f'. apply infix_app_l. exact Hi.
Qed.

Lemma section_line_infix t p a first kp v :
  In (kp, v) (section_lines t) -> infix (entry_fragment kp v) (section_text t p a first).
Proof.
  intro H. unfold section_text. apply infix_app_l.
  exact (infix_flat_map (fun x => entry_fragment (fst x) (snd x)) (kp, v) _ H).
Qed.

(* every key/value line the tree holds (`doc_frag t p = Some (FLine kp v)`) is in the printed text *)
Theorem line_printed : forall t p kp v trailing,
  doc_frag t p = Some (FLine kp v) -> infix (entry_fragment kp v) (display_document t trailing).
Proof.
  intros t p kp v trailing H. unfold doc_frag in H.
  pose proof (frag_line_sound p None [] [] (ITable t) kp v H false) as (sec & Hl & sp0 & ar & Hs).
  specialize (Hs (S (tbl_size t)) (Nat.le_refl _)).
  destruct (assign_positions_In _ _ 0%N Hs) as (pos & Hp).
  apply enc_stable_sort_In in Hp.
  destruct (sections_text_infix _ _ _ _ _ Hp true) as (first' & Hi).
  rewrite display_document_sections. apply infix_app_l, infix_app_r.
  eapply infix_trans; [|exact Hi]. apply section_line_infix. exact Hl.
Qed.

(* -- headers -- *)
Lemma frag_head_sound : forall p k0 kp hp it hp1 d arr,
  frag_at p k0 kp hp it = Some (FHead hp1 d arr) ->
  match k0 with
  | Some k' =>
    exists sec, t_decor sec = d /\ hp1 <> [] /\
                forall f, item_size it <= f -> In (sec, hp1, arr) (ncontrib f hp (k', it))
  | None =>
    match it with
    | ITable cur =>
      forall arr0, (p = [] -> arr0 = arr) ->
      exists sec, t_decor sec = d /\ hp1 <> [] /\
                  forall f, S (tbl_size cur) <= f -> In (sec, hp1, arr) (nested_tables f cur hp arr0)
    | _ => False
    end
  end.
Proof.
  induction p as [|s p IH]; intros k0 kp hp it hp1 d arr He.
  - simpl in He. destruct it as [|v0|[m d0 im dt pos sp]|]; try discriminate.
    + destruct k0; [|discriminate]. destruct (is_dotted_inline v0); discriminate.
    + destruct dt; [discriminate|]. destruct k0 as [k'|].
      * injection He as <- <- <-. exists (Tbl m d0 im false pos sp). split; [reflexivity|]. split.
        -- intro E. apply app_eq_nil in E as [_ E]. discriminate.
        -- intros f Hle. unfold ncontrib. simpl. simpl in Hle. destruct f as [|f]; [lia|].
           rewrite nested_tables_S. simpl. left. reflexivity.
      * destruct hp as [|h hp]; [discriminate|]. injection He as <- <- <-.
        intros arr0 Ha. rewrite (Ha eq_refl). exists (Tbl m d0 im false pos sp). split; [reflexivity|]. split; [discriminate|].
        intros f Hle. destruct f as [|f]; [lia|]. rewrite nested_tables_S. simpl. left. reflexivity.
  - destruct s as [k|n]; simpl in He.
    + destruct it as [|v0|[m d0 im dt pos sp]|]; try discriminate.
      assert (Hchild : forall k1 i kp' hp',
                 kv_get m k = Some (k1, i) -> frag_at p (Some k1) kp' hp' i = Some (FHead hp1 d arr) ->
                 exists sec, t_decor sec = d /\ hp1 <> [] /\
                             forall f, isz m <= f -> In (sec, hp1, arr) (flat_map (ncontrib f hp') m)).
      { intros k1 i kp' hp' G Hf. pose proof (kv_get_In _ _ _ _ G) as Hin.
        pose proof (isz_In _ _ _ Hin) as Hsz.
        destruct (IH (Some k1) kp' hp' i hp1 d arr Hf) as (sec & Hd & Hn & H2).
        exists sec. split; [exact Hd|]. split; [exact Hn|]. intros f Hle.
        apply in_flat_map. exists (k1, i). split; [exact Hin|]. apply H2. lia. }
      destruct k0 as [k'|].
      * destruct (kv_get m k) as [[k1 i]|] eqn:G; [|discriminate].
        destruct (Hchild k1 i _ _ eq_refl He) as (sec & Hd & Hn & H2).
        exists sec. split; [exact Hd|]. split; [exact Hn|]. intros f Hle.
        unfold ncontrib. simpl. simpl in Hle. destruct f as [|f]; [lia|].
        rewrite nested_tables_S. apply in_or_app. right. apply H2. unfold isz. lia.
      * destruct dt; [discriminate|].
        destruct (kv_get m k) as [[k1 i]|] eqn:G; [|discriminate].
        intros arr0 _.
        destruct (Hchild k1 i _ _ eq_refl He) as (sec & Hd & Hn & H2).
        exists sec. split; [exact Hd|]. split; [exact Hn|]. intros f Hle. simpl in Hle.
        destruct f as [|f]; [lia|]. rewrite nested_tables_S. apply in_or_app. right. apply H2. unfold isz. lia.
    + destruct it as [|v0|[m d0 im dt pos sp]|ts sp]; try discriminate.
      destruct k0 as [k'|]; [|discriminate].
      destruct (nth_error ts n) as [e|] eqn:G; [|discriminate].
      specialize (IH None [] (hp ++ [k']) (ITable e) hp1 d arr He). simpl in IH.
      assert (Ha : p = [] -> true = arr).
      { intros ->. simpl in He. destruct e as [m0 d1 im0 dt0 p0 sp0]. destruct dt0; [discriminate|].
        destruct (hp ++ [k']); [discriminate|]. injection He as _ _ <-. reflexivity. }
      destruct (IH true Ha) as (sec & Hd & Hn & H2).
      exists sec. split; [exact Hd|]. split; [exact Hn|]. intros f Hle.
      unfold ncontrib. simpl. apply in_flat_map. exists e. split; [eapply nth_error_In; eauto|].
      apply H2. pose proof (tsz_In e ts (nth_error_In _ _ G)). simpl in Hle. lia.
Qed.

Lemma section_header_infix t p a first :
  infix (header_fragment t p a first) (section_text t p a first).
Proof. unfold section_text. apply infix_app_r, infix_refl. Qed.

(* the header of every table the tree holds as a section (`doc_frag t p = Some (FHead hp d arr)`) is in
   the printed text, unless the table is implicit and has no key/value line (then no header is printed) *)
Theorem header_printed : forall t p hp d arr trailing,
  doc_frag t p = Some (FHead hp d arr) ->
  exists sec, t_decor sec = d /\
    (arr = true \/ t_implicit sec && no_lines sec = false ->
     exists first, infix (header_text hp d arr first) (display_document t trailing)).
Proof.
  intros t p hp d arr trailing H. unfold doc_frag in H.
  assert (Hp0 : p = [] -> false = arr) by (intros ->; simpl in H; destruct t as [? ? ? [|] ? ?]; discriminate).
  pose proof (frag_head_sound p None [] [] (ITable t) hp d arr H false Hp0) as (sec & Hd & Hn & Hs).
  exists sec. split; [exact Hd|]. intro Hv.
  specialize (Hs (S (tbl_size t)) (Nat.le_refl _)).
  destruct (assign_positions_In _ _ 0%N Hs) as (pos & Hp).
  apply enc_stable_sort_In in Hp.
  destruct (sections_text_infix _ _ _ _ _ Hp true) as (first' & Hi).
  exists first'. rewrite display_document_sections. apply infix_app_l, infix_app_r.
  eapply infix_trans; [|exact Hi].
  assert (E : header_fragment sec hp arr first' = header_text hp d arr first').
  { unfold header_fragment. destruct hp as [|h hp]; [contradiction Hn; reflexivity|]. rewrite Hd.
    destruct arr; [reflexivity|]. destruct Hv as [Hv|Hv]; [discriminate|]. rewrite Hv. reflexivity. }
  rewrite <- E. apply section_header_infix.
Qed.

(* ==================================================================================== *)
(** * F. Together: the printed text after an edit contains byte-identical lines for all untouched entries *)

Theorem verbatim_text : forall t o t' p kp v trailing trailing',
  apply o t = Some t' -> doc_frag t p = Some (FLine kp v) -> untouched_frag o p false = true ->
  infix (entry_fragment kp v) (display_document t trailing) /\
  infix (entry_fragment kp v) (display_document t' trailing').
Proof.
  intros t o t' p kp v tr tr' H He Hu. split.
  - eapply line_printed; eauto.
  - eapply line_printed. exact (step_fragment _ _ _ _ _ H He Hu).
Qed.

Theorem history_verbatim_text : forall ops t t' p kp v trailing trailing',
  apply_seq ops t = Some t' -> doc_frag t p = Some (FLine kp v) -> untouched_frag_all ops p false = true ->
  infix (entry_fragment kp v) (display_document t trailing) /\
  infix (entry_fragment kp v) (display_document t' trailing').
Proof.
  intros ops t t' p kp v tr tr' H He Hu. split.
  - eapply line_printed; eauto.
  - eapply line_printed. exact (history_fragment _ _ _ _ _ H He Hu).
Qed.

(* a header whose decor is explicit text (every header of a parsed document after into_mut) prints
   the same bytes wherever it stands *)
Definition explicit_raw (o : option raw) : bool :=
  match o with Some REmpty | Some (RExplicit _) => true | _ => false end.
Lemma header_text_explicit hp d arr first first' :
  explicit_raw (d_prefix d) = true -> explicit_raw (d_suffix d) = true ->
  header_text hp d arr first = header_text hp d arr first'.
Proof.
  intros Hp Hs. unfold header_text, decor_prefix, decor_suffix.
  destruct (d_prefix d) as [[| |]|]; try discriminate; destruct (d_suffix d) as [[| |]|]; try discriminate; reflexivity.
Qed.
