(* Proofs/PrintBackSort.v — C03, class (c): the order in which Display visits the tables of a document
   (Model/Encode.v: assign_positions, stable_sort, visit_tables) depends only on the multiset of the
   visible tables and their positions: filtering commutes with the stable insertion sort, and a list
   that is a permutation of a strictly sorted list sorts to it. *)
From TV Require Import Base.Prelude Base.Utf8 Base.Winnow Gen.Consts.
From TV Require Import Model.Datetime Model.Numbers Model.Tree Model.Write Model.Encode.
Require Import Lia ZifyBool ZifyN ZifyNat Sorting.Sorted Sorting.Permutation.

Section Sort.
  Context {A : Type}.
  Notation elt := (N * A)%type.
  Definition kle (a b : elt) : Prop := (fst a <= fst b)%N.
  Definition klt (a b : elt) : Prop := (fst a < fst b)%N.

  Lemma insert_sorted_perm (x : elt) l : Permutation (insert_sorted x l) (x :: l).
  Proof.
    induction l as [|y l IH]; cbn [insert_sorted]; [reflexivity|]. destruct (fst x <? fst y)%N; [reflexivity|].
    rewrite IH. apply perm_swap.
  Qed.

  Lemma insert_sorted_sorted (x : elt) l : StronglySorted kle l -> StronglySorted kle (insert_sorted x l).
  Proof.
    induction 1 as [|y l Hs IH Hy]; cbn [insert_sorted]; [repeat constructor|].
    destruct (fst x <? fst y)%N eqn:E.
    - constructor; [constructor; assumption|]. constructor; [unfold kle; lia|].
      eapply Forall_impl; [|exact Hy]. unfold kle. intros; lia.
    - constructor; [exact IH|]. apply (Permutation_Forall (Permutation_sym (insert_sorted_perm x l))).
      constructor; [unfold kle; lia|exact Hy].
  Qed.

  Lemma insert_sorted_filter (p : elt -> bool) (x : elt) l : StronglySorted kle l ->
    filter p (insert_sorted x l) = if p x then insert_sorted x (filter p l) else filter p l.
  Proof.
    induction 1 as [|y l Hs IH Hy]; cbn [insert_sorted filter]; [destruct (p x); reflexivity|].
    destruct (fst x <? fst y)%N eqn:E; cbn [filter].
    - destruct (p x) eqn:Px; [|reflexivity]. destruct (p y) eqn:Py; cbn [insert_sorted]; [rewrite E; reflexivity|].
      (* y is dropped: every later element is still above x *)
      clear IH Hs. induction l as [|z l IHl]; cbn [filter insert_sorted]; [reflexivity|].
      inversion Hy as [|? ? Hz Hl]; subst. destruct (p z); [|apply IHl; assumption].
      cbn [insert_sorted]. assert (Q : (fst x <? fst z)%N = true) by (unfold kle in Hz; lia). rewrite Q. reflexivity.
    - rewrite IH. destruct (p x), (p y); cbn [insert_sorted]; try rewrite E; reflexivity.
  Qed.

  Lemma fold_sorted l : forall acc, StronglySorted kle acc -> StronglySorted kle (fold_left (fun acc x => insert_sorted x acc) l acc).
  Proof. induction l as [|x l IH]; intros acc H; cbn [fold_left]; [exact H|]. apply IH, insert_sorted_sorted, H. Qed.

  Lemma stable_sort_sorted (l : list elt) : StronglySorted kle (stable_sort l).
  Proof. apply fold_sorted. constructor. Qed.

  Lemma stable_sort_perm (l : list elt) : Permutation (stable_sort l) l.
  Proof.
    unfold stable_sort. enough (H : forall acc, Permutation (fold_left (fun acc x => insert_sorted x acc) l acc) (acc ++ l))
      by (apply (H [])).
    induction l as [|x l IH]; intro acc; cbn [fold_left]; [rewrite app_nil_r; reflexivity|].
    rewrite IH, insert_sorted_perm. apply Permutation_middle.
  Qed.

  Lemma stable_sort_filter (p : elt -> bool) (l : list elt) : filter p (stable_sort l) = stable_sort (filter p l).
  Proof.
    unfold stable_sort.
    enough (H : forall acc, StronglySorted kle acc ->
               filter p (fold_left (fun acc x => insert_sorted x acc) l acc)
               = fold_left (fun acc x => insert_sorted x acc) (filter p l) (filter p acc))
      by (apply (H []); constructor).
    induction l as [|x l IH]; intros acc Hs; cbn [fold_left filter]; [reflexivity|].
    rewrite (IH _ (insert_sorted_sorted x acc Hs)), (insert_sorted_filter p x acc Hs).
    destruct (p x); reflexivity.
  Qed.

  (* a sorted list that is a permutation of a strictly sorted one is that list *)
  Lemma sorted_perm_unique : forall (S L : list elt), StronglySorted klt S -> StronglySorted kle L -> Permutation L S -> L = S.
  Proof.
    induction S as [|s S IH]; intros L HS HL P.
    - apply Permutation_nil. symmetry. exact P.
    - destruct L as [|a L]; [apply Permutation_nil_cons in P; destruct P|].
      inversion HS as [|? ? HS' Hs]; subst. inversion HL as [|? ? HL' Ha]; subst.
      assert (Ea : a = s).
      { assert (Ina : In a (s :: S)) by (apply (Permutation_in _ P); left; reflexivity).
        assert (Ins : In s (a :: L)) by (apply (Permutation_in _ (Permutation_sym P)); left; reflexivity).
        destruct Ina as [<- | Ina]; [reflexivity|]. destruct Ins as [-> | Ins]; [reflexivity|].
        rewrite Forall_forall in Hs, Ha. specialize (Hs _ Ina). specialize (Ha _ Ins). unfold klt, kle in *. lia. }
      subst a. f_equal. apply IH; [exact HS'|exact HL'|]. apply (Permutation_cons_inv P).
  Qed.

  Theorem stable_sort_unique (L S : list elt) : StronglySorted klt S -> Permutation L S -> stable_sort L = S.
  Proof.
    intros HS P. apply sorted_perm_unique; [exact HS|apply stable_sort_sorted|]. rewrite stable_sort_perm. exact P.
  Qed.
End Sort.

(* ---- visit_tables over a list in which only some entries print ---------------------------------------- *)
Definition entry : Type := (tbl * list key * bool)%type.
Definition on_snd {A B C} (f : B -> C) (x : A * B) : A * C := (fst x, f (snd x)).

Lemma insert_sorted_map {A B} (g : A -> B) (x : N * A) l :
  map (on_snd g) (insert_sorted x l) = insert_sorted (on_snd g x) (map (on_snd g) l).
Proof.
  induction l as [|y l IH]; [reflexivity|]. cbn [insert_sorted map].
  change (fst (on_snd g x)) with (fst x). change (fst (on_snd g y)) with (fst y).
  destruct (fst x <? fst y)%N; [reflexivity|]. cbn [map]. rewrite IH. reflexivity.
Qed.

Lemma stable_sort_map {A B} (g : A -> B) (l : list (N * A)) : map (on_snd g) (stable_sort l) = stable_sort (map (on_snd g) l).
Proof.
  unfold stable_sort.
  enough (H : forall acc, map (on_snd g) (fold_left (fun acc x => insert_sorted x acc) l acc)
                          = fold_left (fun acc x => insert_sorted x acc) (map (on_snd g) l) (map (on_snd g) acc)) by (apply (H [])).
  induction l as [|x l IH]; intro acc; [reflexivity|]. cbn [fold_left map]. rewrite IH, insert_sorted_map. reflexivity.
Qed.

Lemma visit_tables_filter (f : entry -> entry) (vis : N * entry -> bool) : forall l b,
  (forall q e b0, In (q, e) l -> vis (q, e) = false ->
     let '(t, p, a) := f e in visit_table t p a b0 = ([], b0)) ->
  visit_tables (map (on_snd f) l) b = visit_tables (map (on_snd f) (filter vis l)) b.
Proof.
  induction l as [|[q e] l IH]; intros b H; [reflexivity|]. cbn [map filter]. unfold on_snd at 1. cbn [fst snd].
  destruct (vis (q, e)) eqn:V.
  - cbn [map]. unfold on_snd at 2. cbn [fst snd]. destruct (f e) as [[t p] a] eqn:Ef. cbn [visit_tables].
    destruct (visit_table t p a b) as [txt b']. rewrite IH; [reflexivity|]. intros; eapply H; [right; eassumption|assumption].
  - pose proof (H q e b (or_introl eq_refl) V) as E. destruct (f e) as [[t p] a]. cbn [visit_tables]. rewrite E. cbn [app].
    apply IH. intros; eapply H; [right; eassumption|assumption].
Qed.

Lemma visit_tables_concat (f : entry -> entry) (txt : entry -> bytes) : forall l b,
  (forall q e b0, In (q, e) l -> let '(t, p, a) := f e in fst (visit_table t p a b0) = txt e) ->
  visit_tables (map (on_snd f) l) b = concat (map (fun x => txt (snd x)) l).
Proof.
  induction l as [|[q e] l IH]; intros b H; [reflexivity|]. cbn [map concat snd]. unfold on_snd at 1. cbn [fst snd].
  pose proof (H q e b (or_introl eq_refl)) as E. destruct (f e) as [[t p] a]. cbn [visit_tables].
  destruct (visit_table t p a b) as [tx b']. cbn [fst] in E. subst tx.
  rewrite (IH b'); [reflexivity|]. intros; eapply H; right; eassumption.
Qed.
