(* Proofs/FrontEndsReady.v — C01 / C02, the serde front ends: the value tree of a parsed document
   (Model/FrontEnds.v tree_of_doc: Extract/SpannedTree.v st_tbl, spans stripped) IS the data of the document
   (Proofs/GrammarBase.v abs_doc) written as a toml value, and it is `tree_ready`: the keys of every table are
   distinct and its date-times are in range.

   Facts about parsed documents used: no Item::None and unique keys in every table (the invariant of the
   state-machine simulation, Proofs/DefsEquivSim.v Inv); every value stored in the tree denotes the data of
   a `val` of the grammar and holds values only (Proofs/PrintBackDItems.v val_fact, carried by the loop
   invariant of Proofs/PrintBackDDoc.v); date-time tokens are in range (Proofs/LexEquivDatetime.v). *)
From TV Require Import Base.Prelude Base.Utf8 Base.Winnow Gen.Consts Spec.Abnf Spec.Lex.
From TV Require Import Model.Trivia Model.Strings Model.Datetime Model.Numbers Model.Tree Model.Parse Model.Document.
From TV Require Import Spec.DatetimeSpec Spec.SerdeData Model.SerdeSpanned Extract.SpannedTree Model.De Model.SerdeRoutes Model.FrontEnds.
From TV Require Import Spec.Defs Spec.Syntax.
From TV Require Import Proofs.ConstsOk Proofs.NoPanicBase Proofs.NoPanicLex Proofs.NoPanicValue.
From TV Require Import Proofs.DefsEquivBase Proofs.DefsEquivSpec Proofs.DefsEquivKv Proofs.DefsEquivSim Proofs.DefsEquivMain.
From TV Require Import Proofs.LexEquivBase Proofs.LexEquivTrivia Proofs.LexEquivKey Proofs.LexEquivDatetime Proofs.GrammarBase Proofs.GrammarParam
                       Proofs.GrammarValueBase Proofs.GrammarValueSound Proofs.GrammarDocBase Proofs.GrammarDocLine Proofs.GrammarDoc.
From TV Require Import Proofs.SpansDefs Proofs.PrintBackDAll Proofs.PrintBackDItems Proofs.PrintBackDTop.
From TV Require Proofs.FrontEnds Proofs.GrammarTop.
Require Import Lia Sorting.Permutation.

(* ================================================================================================================== *)
(* what every parsed document satisfies                                                                               *)
(* ================================================================================================================== *)
Definition pl_fact (x : pitem) : Prop := match x with PL _ v => val_fact v | PH _ _ _ _ => True end.

Lemma parse_document_swf s d : parse_document s = POk d ->
  mok_tbl (doc_root d) = true /\ swf_tree (abs_tbl (doc_root d)) = true.
Proof.
  unfold parse_document, parse_all. intro H.
  destruct ((a <- document ;; eof ;;; ret a) (new_input s)) as [st i|e j|e j|x] eqn:E; try discriminate.
  destruct (finalize_table st) as [st'| |] eqn:Ef; try discriminate. injection H as <-.
  apply bind_inv in E as (st0 & i0 & E & E'). apply bind_inv in E' as (u0 & i0' & _ & E'). apply ret_inv in E' as [-> _].
  rewrite document_unfold in E.
  apply bind_inv in E as (o & i1 & Eb & E). apply bind_inv in E as (stw & i2 & Ew & E).
  apply bind_inv in E as (stl & i3 & El & E). apply bind_inv in E as (u & i4 & Ee & E).
  apply eof_inv in Ee as [-> Rend]. apply ret_inv in E as [-> ->].
  apply parse_ws_inv in Ew as (w0 & sp & Hw0 & Sw & _ & ->).
  assert (D2 : depth i2 = 0).
  { rewrite (splits_depth _ _ _ Sw).
    apply opt_inv in Eb as [(x & -> & Eb) | (-> & -> & _)]; [|reflexivity].
    apply lit_inv in Eb as [_ Sb]. rewrite (splits_depth _ _ _ Sb). reflexivity. }
  destruct (doc_loop_sound _ _ _ _ _ sstate0 El D2 (Inv_on_ws _ _ sp Inv_init)) as (t & l & [T cp] & St & Hdl & HI & _).
  destruct (finalize_sim stl T cp HI) as (root' & Ef' & Ha & Hm). rewrite Ef' in Ef. injection Ef as <-.
  cbn [doc_root finalized st_root]. split; [exact Hm|]. rewrite Ha.
  destruct HI as (_ & _ & _ & _ & _ & HsT & _). exact HsT.
Qed.

Theorem parse_document_facts s d : parse_document s = POk d ->
  mok_tbl (doc_root d) = true /\ swf_tree (abs_tbl (doc_root d)) = true
  /\ Forall pl_fact (ALLI (t_items (doc_root d))).
Proof.
  intro Hp. destruct (parse_document_swf s d Hp) as [Hm Hs]. split; [exact Hm|]. split; [exact Hs|].
  destruct (doc_items s d Hp) as (w & t & l & o & items & _ & _ & _ & _ & _ & _ & _ & _ & Hperm & _ & _ & Hcj).
  apply Forall_forall. intros x Hx. apply (Permutation_in _ Hperm) in Hx. apply in_map_iff in Hx as ([x0 txt] & <- & Hit).
  rewrite Forall_forall in Hcj. specialize (Hcj _ Hit). cbn [fst]. destruct x0 as [st q a dd|k v]; [exact I|].
  cbn [sitem_cj] in Hcj. exact (proj1 Hcj).
Qed.

(* ================================================================================================================== *)
(* data as a toml value                                                                                               *)
(* ================================================================================================================== *)
(* None: a float inside (floats are symbolic decimals in the parser model; tomlval's floats are binary64 bit patterns) *)
Fixpoint tv_dval (v : dval) : option tomlval :=
  match v with
  | DStr x => Some (VStr x)
  | DInt z => Some (VInt z)
  | DFloat _ => None
  | DBool b => Some (VBool b)
  | DDate d => Some (VDatetime d)
  | DArr l => optmap VArr (opt_all (map tv_dval l))
  | DTab items => optmap VTab (opt_all (map (fun kv => optmap (pair (fst kv)) (tv_dval (snd kv))) items))
  end.

(* the tree the statements of a document denote (Spec/Defs.v, kinds forgotten: Spec/Syntax.v tree_dval) as a toml value *)
Definition value_tree (T : Defs.stree dval) : option tomlval := tv_dval (DTab (tree_dval T)).

Fixpoint has_float (v : dval) : bool :=
  match v with
  | DFloat _ => true
  | DArr l => existsb has_float l
  | DTab items => existsb (fun kv => has_float (snd kv)) items
  | _ => false
  end.

(* induction on data *)
Section DvalInd.
  Variable P : dval -> Prop.
  Hypothesis Hs : forall x, P (DStr x).
  Hypothesis Hi : forall z, P (DInt z).
  Hypothesis Hf : forall f, P (DFloat f).
  Hypothesis Hb : forall b, P (DBool b).
  Hypothesis Hd : forall d, P (DDate d).
  Hypothesis Ha : forall l, Forall P l -> P (DArr l).
  Hypothesis Ht : forall items, Forall (fun kv => P (snd kv)) items -> P (DTab items).
  Fixpoint dval_ind2 (v : dval) : P v :=
    match v with
    | DStr x => Hs x | DInt z => Hi z | DFloat f => Hf f | DBool b => Hb b | DDate d => Hd d
    | DArr l => Ha l ((fix go (l : list dval) : Forall P l := match l with [] => Forall_nil _ | x :: r => Forall_cons x (dval_ind2 x) (go r) end) l)
    | DTab items =>
      Ht items ((fix go (l : list (bytes * dval)) : Forall (fun kv => P (snd kv)) l :=
                   match l with [] => Forall_nil _ | kv :: r => Forall_cons kv (dval_ind2 (snd kv)) (go r) end) items)
    end.
End DvalInd.

(* ---- opt_all --------------------------------------------------------------------------------------------------- *)
Lemma opt_all_cons {A} (o : option A) l :
  opt_all (o :: l) = match o, opt_all l with Some a, Some r => Some (a :: r) | _, _ => None end.
Proof. reflexivity. Qed.

Lemma opt_all_map_optmap {A B C} (h : B -> C) (f : A -> option B) l :
  opt_all (map (fun a => optmap h (f a)) l) = optmap (map h) (opt_all (map f l)).
Proof.
  induction l as [|a l IH]; [reflexivity|]. cbn [map]. rewrite !opt_all_cons, IH.
  destruct (f a); [|reflexivity]. cbn [optmap]. destruct (opt_all (map f l)); reflexivity.
Qed.

Lemma opt_all_ext {A B} (f g : A -> option B) l : Forall (fun a => f a = g a) l -> opt_all (map f l) = opt_all (map g l).
Proof. induction 1 as [|a l H _ IH]; [reflexivity|]. cbn [map]. rewrite !opt_all_cons, H, IH. reflexivity. Qed.

Lemma opt_all_none_iff {A B} (f : A -> option B) l : opt_all (map f l) = None <-> Exists (fun a => f a = None) l.
Proof.
  induction l as [|a l IH]; [split; [discriminate|intro H; inversion H]|]. cbn [map]. rewrite opt_all_cons. split.
  - destruct (f a) eqn:E; [|intros _; left; exact E]. destruct (opt_all (map f l)); [discriminate|]. intros _. right. apply IH. reflexivity.
  - intro H. inversion H as [? ? E|? ? E]; subst; [rewrite E; reflexivity|]. apply IH in E. rewrite E. destruct (f a); reflexivity.
Qed.

Lemma optmap_optmap {A B C} (g : B -> C) (f : A -> B) o : optmap g (optmap f o) = optmap (fun a => g (f a)) o.
Proof. destruct o; reflexivity. Qed.

Lemma optmap_none {A B} (f : A -> B) o : optmap f o = None <-> o = None.
Proof. destruct o; split; intro H; try discriminate; reflexivity. Qed.

(* no value tree exactly when a float is inside *)
Theorem tv_dval_none v : tv_dval v = None <-> has_float v = true.
Proof.
  induction v as [x|z|f|b|d|l IH|items IH] using dval_ind2; cbn [tv_dval has_float]; try (split; discriminate); [split; reflexivity| |].
  - rewrite optmap_none, opt_all_none_iff, existsb_exists, Exists_exists. rewrite Forall_forall in IH.
    split; intros (x & Hx & H); exists x; (split; [exact Hx|apply (IH x Hx), H]).
  - rewrite optmap_none, opt_all_none_iff, existsb_exists, Exists_exists. rewrite Forall_forall in IH.
    split; intros (x & Hx & H); exists x; (split; [exact Hx|]); [apply (IH x Hx); apply optmap_none in H; exact H|apply optmap_none, (IH x Hx), H].
Qed.

(* ================================================================================================================== *)
(* the link: the span tree of a document, spans stripped, is its data as a toml value                                 *)
(* ================================================================================================================== *)
Definition pl_vwf (x : pitem) : Prop := match x with PL _ v => vwf v = true | PH _ _ _ _ => True end.

(* what an item contributes to the span tree *)
Definition st_item (it : item) : option SerdeSpanned.stree :=
  match it with
  | INone => None
  | IValue e => st_value e
  | ITable sub => st_tbl sub
  | IAot ts asp => optmap (SerdeSpanned.NArr asp) (opt_all (map st_tbl ts))
  end.
Definition st_entry (kv : key * item) : option (bytes * SerdeSpanned.ospan * SerdeSpanned.stree) :=
  optmap (fun x => (k_key (fst kv), key_span (fst kv), x)) (st_item (snd kv)).

Lemma st_tbl_eq t : mok_tbl t = true ->
  st_tbl t = optmap (SerdeSpanned.NTab (t_span t)) (opt_all (map st_entry (t_items t))).
Proof.
  rewrite mok_tbl_eq. destruct t as [items d im dt p sp]. cbn [t_items t_span st_tbl]. intro Hm. do 2 f_equal.
  unfold mok_items in Hm. induction items as [|[k it] tl IH]; [reflexivity|]. cbn [forallb snd] in Hm. apply andb_true_iff in Hm as [Hi Hm].
  cbn [flat_map map]. rewrite (IH Hm). unfold st_entry. cbn [fst snd].
  destruct it as [|e|sub|ts asp]; [discriminate| | |]; cbn [st_item app]; try reflexivity.
  f_equal. destruct (opt_all (map st_tbl ts)); reflexivity.
Qed.

Lemma st_inline_eq items pre im dt d sp : items_wf items = true ->
  st_value (VInline items pre im dt d sp) = optmap (SerdeSpanned.NTab sp) (opt_all (map st_entry items)).
Proof.
  cbn [st_value]. intro Hm. do 2 f_equal. unfold items_wf in Hm.
  induction items as [|[k it] tl IH]; [reflexivity|]. cbn [forallb snd] in Hm. apply andb_true_iff in Hm as [Hi Hm].
  cbn [flat_map map]. rewrite (IH Hm). unfold st_entry. cbn [fst snd]. destruct it; try discriminate. reflexivity.
Qed.

Lemma st_array_eq vals tr c d sp : forallb iwf vals = true ->
  st_value (VArray vals tr c d sp) = optmap (SerdeSpanned.NArr sp) (opt_all (map st_item vals)).
Proof.
  cbn [st_value]. intro Hm. do 2 f_equal.
  induction vals as [|it tl IH]; [reflexivity|]. cbn [forallb] in Hm. apply andb_true_iff in Hm as [Hi Hm].
  cbn [flat_map map]. rewrite (IH Hm). destruct it; try discriminate. reflexivity.
Qed.

Lemma strip_tab sp o :
  optmap strip (optmap (SerdeSpanned.NTab sp) o) = optmap VTab (optmap (map (fun e => (fst (fst e), strip (snd e)))) o).
Proof. destruct o; reflexivity. Qed.
Lemma strip_arr sp o : optmap strip (optmap (SerdeSpanned.NArr sp) o) = optmap VArr (optmap (map strip) o).
Proof. destruct o; reflexivity. Qed.

(* an entry: key and stripped item *)
Lemma strip_entries (m : list (key * item)) (g : key * item -> option tomlval) :
  Forall (fun kv => optmap strip (st_item (snd kv)) = g kv) m ->
  optmap (map (fun e : bytes * SerdeSpanned.ospan * SerdeSpanned.stree => (fst (fst e), strip (snd e)))) (opt_all (map st_entry m))
  = opt_all (map (fun kv => optmap (pair (k_key (fst kv))) (g kv)) m).
Proof.
  intro H. unfold st_entry. rewrite <- opt_all_map_optmap. apply opt_all_ext. eapply Forall_impl; [|exact H].
  intros [k it] E. cbn [fst snd] in *. rewrite <- E. destruct (st_item it); reflexivity.
Qed.

Definition Pv (v : value) : Prop := vwf v = true -> optmap strip (st_value v) = tv_dval (absv v).
Definition Pt (t : tbl) : Prop :=
  mok_tbl t = true -> Forall pl_vwf (ALLI (t_items t)) ->
  optmap strip (st_tbl t) = tv_dval (DTab (tree_dval (smap absv (abs_tbl t)))).
Definition Pi (it : item) : Prop :=
  match it with
  | INone => True
  | IValue v => Pv v
  | ITable t => Pt t
  | IAot ts _ => Forall Pt ts
  end.

(* an item of a table *)
Lemma item_link it k : Pi it -> mok_item it = true -> Forall pl_vwf (ALLit k it) ->
  optmap strip (st_item it) = tv_dval (node_dval (nmap absv (abs_item it))).
Proof.
  destruct it as [|v|t|ts asp]; intros HP Hm Ha; [discriminate| | |].
  - cbn [abs_item]. cbn [nmap node_dval st_item]. apply HP. inversion Ha; subst. assumption.
  - cbn [abs_item st_item]. rewrite nmap_tab. cbn [node_dval]. change (map (fun kn => (fst kn, node_dval (snd kn))) ?x) with (tree_dval x).
    apply HP; [exact Hm|]. cbn [ALLit] in Ha. rewrite ALL_eq in Ha. apply Forall_app in Ha as [_ Ha]. exact Ha.
  - rewrite abs_item_aot, nmap_aot. cbn [node_dval st_item tv_dval]. rewrite strip_arr. f_equal.
    rewrite <- opt_all_map_optmap, !map_map. apply opt_all_ext.
    rewrite mok_item_aot in Hm. rewrite ALLit_aot in Ha. cbn [Pi] in HP.
    induction ts as [|t ts IH]; [constructor|]. inversion HP as [|? ? H1 H2]; subst. cbn [forallb] in Hm. apply andb_true_iff in Hm as [Hm1 Hm2].
    cbn [flat_map] in Ha. apply Forall_app in Ha as [Ha1 Ha2]. constructor; [|apply IH; assumption].
    change (map (fun kn => (fst kn, node_dval (snd kn))) ?x) with (tree_dval x).
    unfold mok_elem in Hm1. apply andb_true_iff in Hm1 as [_ Hm1]. apply H1; [exact Hm1|].
    rewrite ALL_eq in Ha1. apply Forall_app in Ha1 as [_ Ha1]. exact Ha1.
Qed.

Theorem tree_link :
  (forall v, Pv v) /\ (forall it, Pi it) /\ (forall t, Pt t).
Proof.
  apply tree_ind3.
  - (* scalar *) intros x r d _. cbn [st_value absv]. destruct x; reflexivity.
  - (* array *) intros vals tr c d sp IH Hw. rewrite vwf_array in Hw. rewrite (st_array_eq vals tr c d sp Hw), absv_array, strip_arr.
    cbn [tv_dval]. f_equal. rewrite <- opt_all_map_optmap, map_map. apply opt_all_ext.
    rewrite forallb_forall in Hw. rewrite Forall_forall in IH |- *. intros it Hin. specialize (Hw it Hin). specialize (IH it Hin).
    destruct it as [|v| |]; try discriminate. cbn [st_item absi]. apply IH. exact Hw.
  - (* inline table *) intros items pre im dt d sp IH Hw. rewrite vwf_inline in Hw. rewrite (st_inline_eq items pre im dt d sp Hw), absv_inline, strip_tab.
    cbn [tv_dval]. f_equal. rewrite (strip_entries items (fun kv => tv_dval (absi (snd kv)))).
    + rewrite map_map. reflexivity.
    + unfold items_wf in Hw. rewrite forallb_forall in Hw. rewrite Forall_forall in IH |- *. intros [k it] Hin. specialize (Hw _ Hin). specialize (IH _ Hin).
      cbn [snd] in *. destruct it as [|v| |]; try discriminate. cbn [st_item absi]. apply IH. exact Hw.
  - exact I.
  - intros v H. exact H.
  - intros t H. exact H.
  - intros ts sp H. exact H.
  - (* table *) intros items d im dt p sp IH Hm Ha. rewrite (st_tbl_eq _ Hm), strip_tab. rewrite mok_tbl_eq in Hm. rewrite abs_tbl_eq. cbn [t_items t_span] in *.
    cbn [tv_dval]. f_equal. rewrite (strip_entries items (fun kv => tv_dval (node_dval (nmap absv (abs_item (snd kv)))))).
    + unfold tree_dval, smap, abs_items. rewrite !map_map. reflexivity.
    + unfold mok_items in Hm. rewrite forallb_forall in Hm. rewrite Forall_forall in IH |- *. intros [k it] Hin.
      cbn [snd]. apply (item_link it k); [apply (IH _ Hin)|apply (Hm _ Hin)|].
      unfold ALLI in Ha. rewrite Forall_forall in Ha |- *. intros x Hx. apply Ha. apply in_flat_map. exists (k, it). auto.
Qed.

Lemma pl_fact_vwf x : pl_fact x -> pl_vwf x.
Proof. destruct x as [st q a dd|k v]; [auto|]. intros (t & a & _ & _ & _ & H). exact H. Qed.

(* THE LINK: the value tree of a parsed document is the data of the document (abs_doc, Props/C02doc.v) as a toml value;
   in particular there is none exactly when the document holds a float *)
Theorem tree_of_doc_abs s d : parse_document s = POk d -> tree_of_doc d = value_tree (abs_doc d).
Proof.
  intro Hp. destruct (parse_document_facts s d Hp) as (Hm & _ & Hf). unfold tree_of_doc, value_tree, abs_doc.
  apply (proj2 (proj2 tree_link)); [exact Hm|]. eapply Forall_impl; [|exact Hf]. apply pl_fact_vwf.
Qed.

(* ================================================================================================================== *)
(* ready: distinct keys, date-times in range                                                                          *)
(* ================================================================================================================== *)
Fixpoint dready (v : dval) : bool :=
  match v with
  | DDate d => in_range d
  | DArr l => forallb dready l
  | DTab items => nodup_bytes (map fst items) && forallb (fun kv => dready (snd kv)) items
  | _ => true
  end.

Lemma opt_all_some {A B} (f : A -> option B) l r : opt_all (map f l) = Some r -> Forall2 (fun a b => f a = Some b) l r.
Proof.
  revert r. induction l as [|a l IH]; intros r H; [injection H as <-; constructor|]. cbn [map] in H. rewrite opt_all_cons in H.
  destruct (f a) eqn:E; [|discriminate]. destruct (opt_all (map f l)) eqn:E2; [|discriminate]. injection H as <-. constructor; [exact E|apply IH; reflexivity].
Qed.

Theorem tv_dval_ready v x : tv_dval v = Some x -> tree_ready x = dready v.
Proof.
  revert x. induction v as [y|z|f|b|d|l IH|items IH] using dval_ind2; intros x H; cbn [tv_dval] in H; try (injection H as <-; reflexivity); [discriminate| |].
  - destruct (opt_all (map tv_dval l)) as [r|] eqn:E; [|discriminate]. injection H as <-. cbn [tree_ready dready].
    apply opt_all_some in E. induction E as [|a b l r Hab _ IHE]; [reflexivity|]. inversion IH as [|? ? H1 H2]; subst.
    cbn [forallb]. rewrite (H1 _ Hab), (IHE H2). reflexivity.
  - destruct (opt_all _) as [r|] eqn:E; [|discriminate]. injection H as <-. cbn [tree_ready dready].
    apply opt_all_some in E. assert (Ek : map fst r = map fst items).
    { clear IH. induction E as [|a b l r Hab _ IHE]; [reflexivity|]. cbn [map]. rewrite IHE. destruct (tv_dval (snd a)); [|discriminate].
      injection Hab as <-. reflexivity. }
    rewrite Ek. f_equal. induction E as [|a b l r Hab _ IHE]; [reflexivity|]. inversion IH as [|? ? H1 H2]; subst.
    cbn [forallb]. cbn [map] in Ek. injection Ek as _ Ek. rewrite (IHE H2 Ek). f_equal.
    destruct (tv_dval (snd a)) as [y|] eqn:Ey; [|discriminate]. injection Hab as <-. cbn [snd]. apply H1. reflexivity.
Qed.

(* ---- leaves of a Spec/Defs.v tree ----------------------------------------------------------------------------- *)
Section Leaves.
  Context {V : Type}.
  Variable Q : V -> bool.
  Fixpoint nall (n : node V) : bool :=
    match n with
    | NVal v => Q v
    | NTab _ items => forallb (fun kn => nall (snd kn)) items
    | NAot es => forallb (forallb (fun kn => nall (snd kn))) es
    end.
  Definition tall (t : Defs.stree V) : bool := forallb (fun kn => nall (snd kn)) t.

  Lemma tall_sget t k n : tall t = true -> sget t k = Some n -> nall n = true.
  Proof.
    unfold tall. induction t as [|[k' n'] tl IH]; [discriminate|]. cbn [forallb sget snd]. intros H E. apply andb_true_iff in H as [H1 H2].
    destruct (bytes_eqb k' k); [injection E as <-; exact H1|apply IH; assumption].
  Qed.
  Lemma tall_spush t k n : tall t = true -> nall n = true -> tall (spush t k n) = true.
  Proof. unfold tall, spush. intros H1 H2. rewrite forallb_app, H1. cbn [forallb snd]. rewrite H2. reflexivity. Qed.
  Lemma tall_sset t k n : tall t = true -> nall n = true -> tall (sset t k n) = true.
  Proof.
    unfold tall. induction t as [|[k' n'] tl IH]; [reflexivity|]. cbn [forallb sset snd]. intros H Hn. apply andb_true_iff in H as [H1 H2].
    destruct (bytes_eqb k' k); cbn [forallb snd]; [rewrite Hn, H2; reflexivity|rewrite H1, (IH H2 Hn); reflexivity].
  Qed.

  Lemma insert_kv_tall s (v : V) p : Q v = true -> forall t t', tall t = true -> insert_kv s p v t = ROk t' -> tall t' = true.
  Proof.
    intro Hv. induction p as [|k p IH]; intros t t' Ht H; [discriminate|]. destruct p as [|k2 p''].
    - rewrite insert_kv_leaf in H. destruct (sget t k); [discriminate|]. injection H as <-. apply tall_spush; [exact Ht|exact Hv].
    - rewrite insert_kv_step in H. destruct (sget t k) as [[v0|kd c|es]|] eqn:E; try discriminate.
      + pose proof (tall_sget _ _ _ Ht E) as Hc. cbn [nall] in Hc.
        destruct kd; try discriminate.
        * destruct s; [discriminate|]. destruct p''; [discriminate|].
          destruct (insert_kv false (k2 :: b :: p'') v c) as [c'| |] eqn:E2; try discriminate. injection H as <-.
          apply tall_sset; [exact Ht|]. cbn [nall]. apply (IH c c' Hc E2).
        * destruct (insert_kv s (k2 :: p'') v c) as [c'| |] eqn:E2; try discriminate. injection H as <-.
          apply tall_sset; [exact Ht|]. cbn [nall]. apply (IH c c' Hc E2).
      + destruct (insert_kv s (k2 :: p'') v []) as [c'| |] eqn:E2; try discriminate. injection H as <-.
        apply tall_spush; [exact Ht|]. cbn [nall]. apply (IH [] c' eq_refl E2).
  Qed.

  Lemma inline_fold_facts s0 : forall (pairs : list (list bytes * V)) t t',
    forallb (fun pv => Q (snd pv)) pairs = true -> tall t = true -> swf_tree t = true ->
    (fix go (t : Defs.stree V) (pairs : list (list bytes * V)) : Defs.res (Defs.stree V) :=
       match pairs with [] => ROk t | (p, v) :: tl => match insert_kv s0 p v t with ROk t1 => go t1 tl | RInvalid => RInvalid | RUndecided => RUndecided end end) t pairs = ROk t' ->
    tall t' = true /\ swf_tree t' = true.
  Proof.
    induction pairs as [|[p v] tl IH]; intros t t' Hq Ht Hs H; [injection H as <-; auto|].
    cbn [forallb snd] in Hq. apply andb_true_iff in Hq as [Hv Hq].
    destruct (insert_kv s0 p v t) as [t1| |] eqn:E; try discriminate.
    apply (IH t1 t' Hq); [apply (insert_kv_tall s0 v p Hv t t1 Ht E)|apply (insert_kv_swf s0 v p t t1 Hs E)|exact H].
  Qed.
End Leaves.

Lemma inline_fold_ready {V} (Q : V -> bool) : forall (pairs : list (list bytes * V)) t t',
  forallb (fun pv => Q (snd pv)) pairs = true -> tall Q t = true -> swf_tree t = true ->
  inline_fold t pairs = ROk t' -> tall Q t' = true /\ swf_tree t' = true.
Proof.
  induction pairs as [|[p v] tl IH]; intros t t' Hq Ht Hs H; [injection H as <-; auto|].
  cbn [forallb snd] in Hq. apply andb_true_iff in Hq as [Hv Hq]. cbn [inline_fold] in H.
  destruct (insert_kv true p v t) as [t1| |] eqn:E; try discriminate. cbn [Defs.rbind] in H.
  apply (IH t1 t' Hq); [apply (insert_kv_tall Q true v p Hv t t1 Ht E)|apply (insert_kv_swf true v p t t1 Hs E)|exact H].
Qed.

Lemma forallb_map' {A B} (f : A -> B) (p : B -> bool) l : forallb p (map f l) = forallb (fun x => p (f x)) l.
Proof. induction l as [|a l IH]; [reflexivity|]. cbn [map forallb]. rewrite IH. reflexivity. Qed.

(* ---- unique keys ---------------------------------------------------------------------------------------------- *)
Lemma sget_mem {V} (t : Defs.stree V) k : sget t k = None -> mem_bytes k (map fst t) = false.
Proof.
  induction t as [|[k' n] tl IH]; [reflexivity|]. cbn [sget map fst mem_bytes]. rewrite (bytes_eqb_sym k k').
  destruct (bytes_eqb k' k); [discriminate|]. exact IH.
Qed.

Lemma snodup_nodup {V} (t : Defs.stree V) : snodup t = true -> nodup_bytes (map fst t) = true.
Proof.
  induction t as [|[k n] tl IH]; [reflexivity|]. cbn [snodup map fst nodup_bytes]. destruct (sget tl k) eqn:E; [discriminate|].
  intro H. rewrite (sget_mem tl k E), (IH H). reflexivity.
Qed.

(* a tree with unique keys whose leaves are ready is ready *)
Section ReadyTree.
  Context {V : Type}.
  Variable f : V -> dval.
  Let Q (v : V) : bool := dready (f v).

  Lemma tree_dval_keys (t : Defs.stree V) : map fst (tree_dval (smap f t)) = map fst t.
  Proof. unfold tree_dval, smap. rewrite !map_map. reflexivity. Qed.

  Lemma ready_items (t : Defs.stree V) :
    Forall (fun kn => swf_node (snd kn) = true -> nall Q (snd kn) = true -> dready (node_dval (nmap f (snd kn))) = true) t ->
    swf_tree t = true -> tall Q t = true -> dready (DTab (tree_dval (smap f t))) = true.
  Proof.
    intros IH Hs Ha. apply swf_split in Hs as [Hs Hn]. cbn [dready]. rewrite tree_dval_keys, (snodup_nodup t Hn). cbn [andb].
    unfold tree_dval, smap. rewrite map_map, forallb_map'. unfold tall in Ha.
    rewrite forallb_forall in Hs, Ha |- *. rewrite Forall_forall in IH. intros kn Hin. cbn [snd kmap]. apply (IH kn Hin); [apply Hs, Hin|apply Ha, Hin].
  Qed.

  Lemma ready_node (n : node V) : swf_node n = true -> nall Q n = true -> dready (node_dval (nmap f n)) = true.
  Proof.
    induction n as [v|kd items IH|es IH] using node_ind'; intros Hs Ha.
    - exact Ha.
    - rewrite swf_node_tab in Hs. cbn [nall] in Ha. rewrite nmap_tab. cbn [node_dval].
      change (map (fun kn => (fst kn, node_dval (snd kn))) ?x) with (tree_dval x). apply ready_items; assumption.
    - rewrite swf_node_aot in Hs. apply andb_true_iff in Hs as [_ Hs]. cbn [nall] in Ha. rewrite nmap_aot. cbn [node_dval dready].
      rewrite !forallb_map'. rewrite forallb_forall in Hs, Ha |- *. rewrite Forall_forall in IH. intros e Hin.
      change (map (fun kn => (fst kn, node_dval (snd kn))) ?x) with (tree_dval x). apply ready_items; [apply IH, Hin|apply Hs, Hin|apply Ha, Hin].
  Qed.

  Theorem ready_tree (t : Defs.stree V) : swf_tree t = true -> tall Q t = true -> dready (DTab (tree_dval (smap f t))) = true.
  Proof. apply ready_items. apply Forall_forall. intros kn _. apply ready_node. Qed.
End ReadyTree.

Lemma nmap_id {V} (n : node V) : nmap (fun v => v) n = n.
Proof.
  induction n as [v|kd items IH|es IH] using node_ind'; [reflexivity| |].
  - rewrite nmap_tab. f_equal. unfold smap. induction IH as [|[k n] l H _ IHl]; [reflexivity|]. cbn [map fst snd] in *. unfold kmap at 1. cbn [fst snd]. rewrite H, IHl. reflexivity.
  - rewrite nmap_aot. f_equal. induction IH as [|e l He _ IHl]; [reflexivity|]. cbn [map]. rewrite IHl. f_equal.
    unfold smap. induction He as [|[k n] l' H _ IHl']; [reflexivity|]. cbn [map fst snd] in *. unfold kmap at 1. cbn [fst snd]. rewrite H, IHl'. reflexivity.
Qed.
Lemma smap_id {V} (t : Defs.stree V) : smap (fun v => v) t = t.
Proof. unfold smap. induction t as [|[k n] tl IH]; [reflexivity|]. cbn [map]. unfold kmap at 1. cbn [fst snd]. rewrite nmap_id, IH. reflexivity. Qed.

(* ---- the data of a `val` of the grammar is ready ------------------------------------------------------------------ *)
Theorem val_tok_ready :
  (forall t a, val_tok t a -> aval_ok a = true -> dready (den a) = true)
  /\ (forall vs l, array_values_tok vs l -> forallb aval_ok l = true -> forallb dready (map den l) = true)
  /\ (forall kvs l, inline_keyvals_tok kvs l -> forallb (fun pv => aval_ok (snd pv)) l = true ->
                    forallb (fun pv => dready (den (snd pv))) l = true).
Proof.
  apply val_tok_mutind.
  - intros; reflexivity.
  - intros; reflexivity.
  - intros; reflexivity.
  - intros vs l w _ IH _ Hok. cbn [aval_ok] in Hok. cbn [den dready]. apply IH, Hok.
  - intros; reflexivity.
  - intros w1 kvs l w2 _ _ IH _ Hok. cbn [aval_ok] in Hok. apply andb_true_iff in Hok as [Hok _]. cbn [den].
    destruct (inline_run (map (fun pv => (fst pv, den (snd pv))) l)) as [t|] eqn:E; [|reflexivity].
    unfold inline_run in E. destruct (inline_fold [] (map (fun pv => (fst pv, den (snd pv))) l)) as [t0| |] eqn:E2; try discriminate. injection E as ->.
    destruct (inline_fold_ready dready (map (fun pv : list bytes * aval => (fst pv, den (snd pv))) l) [] t) as [Ha Hs]; [|reflexivity|reflexivity|exact E2|].
    + rewrite forallb_map'. cbn [snd]. apply IH, Hok.
    + rewrite <- (smap_id t). apply (ready_tree (fun v => v)); assumption.
  - intros t d H _. cbn [den dready]. apply (date_time_tok_in_range t d H).
  - intros; reflexivity.
  - intros; reflexivity.
  - intros w1 t a w2 c _ _ IH _ _ Hok. cbn [forallb map] in *. apply andb_true_iff in Hok as [Hok _]. rewrite (IH Hok). reflexivity.
  - intros w1 t a w2 u l _ _ IH _ _ IHl Hok. cbn [forallb map] in *. apply andb_true_iff in Hok as [H1 H2]. rewrite (IH H1), (IHl H2). reflexivity.
  - intros k p w1 w2 t a _ _ _ _ IH Hok. cbn [forallb snd] in *. apply andb_true_iff in Hok as [Hok _]. rewrite (IH Hok). reflexivity.
  - intros k p w1 w2 t a w3 w4 u l _ _ _ _ IH _ _ _ IHl Hok. cbn [forallb snd] in *. apply andb_true_iff in Hok as [H1 H2]. rewrite (IH H1), (IHl H2). reflexivity.
Qed.

Lemma val_fact_ready v : val_fact v -> dready (absv v) = true.
Proof. intros (t & a & Ht & Ea & Hok & _). rewrite Ea. apply (proj1 val_tok_ready t a Ht Hok). Qed.

(* ---- the leaves of the tree of a document ---------------------------------------------------------------------------- *)
Definition Lt (t : tbl) : Prop := Forall pl_fact (ALLI (t_items t)) -> tall (fun v => dready (absv v)) (abs_tbl t) = true.
Definition Li (it : item) : Prop :=
  match it with ITable t => Lt t | IAot ts _ => Forall Lt ts | _ => True end.

Theorem leaves_ready : (forall v : value, True) /\ (forall it, Li it) /\ (forall t, Lt t).
Proof.
  apply tree_ind3; try (intros; exact I).
  - intros t H. exact H.
  - intros ts sp H. exact H.
  - intros items d im dt p sp IH Ha. rewrite abs_tbl_eq. cbn [t_items] in *. unfold tall, abs_items. rewrite forallb_map'.
    apply forallb_forall. intros [k it] Hin. cbn [abs_kv snd]. rewrite Forall_forall in IH. specialize (IH _ Hin). cbn [snd] in IH.
    assert (Hit : Forall pl_fact (ALLit k it)).
    { unfold ALLI in Ha. rewrite Forall_forall in Ha |- *. intros x Hx. apply Ha. apply in_flat_map. exists (k, it). auto. }
    destruct it as [|v|t|ts asp].
    + reflexivity.
    + cbn [abs_item nall]. inversion Hit; subst. apply val_fact_ready. assumption.
    + cbn [abs_item nall]. apply IH. cbn [ALLit] in Hit. rewrite ALL_eq in Hit. apply Forall_app in Hit as [_ Hit]. exact Hit.
    + rewrite abs_item_aot. cbn [nall]. rewrite forallb_map'. rewrite ALLit_aot in Hit. cbn [Li] in IH.
      clear Hin. induction ts as [|t ts IHts]; [reflexivity|]. inversion IH as [|? ? H1 H2]; subst. cbn [flat_map] in Hit. apply Forall_app in Hit as [Hi1 Hi2].
      cbn [forallb]. rewrite (IHts H2 Hi2), andb_true_r. apply H1. rewrite ALL_eq in Hi1. apply Forall_app in Hi1 as [_ Hi1]. exact Hi1.
Qed.

(* ================================================================================================================== *)
(* the theorems                                                                                                       *)
(* ================================================================================================================== *)
(* 1. the value tree of a parsed document is ready: distinct keys in every table, date-times in range *)
Theorem abs_doc_ready s d : parse_document s = POk d -> dready (DTab (tree_dval (abs_doc d))) = true.
Proof.
  intro Hp. destruct (parse_document_facts s d Hp) as (_ & Hs & Hf). unfold abs_doc.
  apply (ready_tree absv); [exact Hs|]. apply (proj2 (proj2 leaves_ready)), Hf.
Qed.

Theorem parse_tree_ready s d x : parse_document s = POk d -> tree_of_doc d = Some x -> tree_ready x = true.
Proof.
  intros Hp Hx. rewrite (tree_of_doc_abs s d Hp) in Hx. unfold value_tree in Hx.
  rewrite (tv_dval_ready _ x Hx). apply (abs_doc_ready s d Hp).
Qed.

(* ================================================================================================================== *)
(* the private key and floats, on the data                                                                            *)
(* ================================================================================================================== *)
Fixpoint dprivate (v : dval) : bool :=
  match v with
  | DArr l => existsb dprivate l
  | DTab items => existsb (fun kv => bytes_eqb (fst kv) DT_FIELD || dprivate (snd kv)) items
  | _ => false
  end.
(* a table key of the document spells "$__toml_private_datetime": anywhere / anywhere but directly in the root table *)
Definition doc_private (T : Defs.stree dval) : bool := dprivate (DTab (tree_dval T)).
Definition doc_private_below_root (T : Defs.stree dval) : bool := existsb (fun kv => dprivate (snd kv)) (tree_dval T).
Definition doc_has_float (T : Defs.stree dval) : bool := has_float (DTab (tree_dval T)).

Lemma existsb_F2 {A B} (p : A -> bool) (q : B -> bool) l r : Forall2 (fun a b => q b = p a) l r -> existsb q r = existsb p l.
Proof. induction 1 as [|a b l r H _ IH]; [reflexivity|]. cbn [existsb]. rewrite H, IH. reflexivity. Qed.

Theorem tv_dval_private v x : tv_dval v = Some x -> has_private_key x = dprivate v.
Proof.
  revert x. induction v as [y|z|f|b|d|l IH|items IH] using dval_ind2; intros x H; cbn [tv_dval] in H; try (injection H as <-; reflexivity); [discriminate| |].
  - destruct (opt_all (map tv_dval l)) as [r|] eqn:E; [|discriminate]. injection H as <-. cbn [has_private_key dprivate].
    apply opt_all_some in E. apply existsb_F2. induction E as [|a b l r Hab _ IHE]; [constructor|]. inversion IH as [|? ? H1 H2]; subst.
    constructor; [apply (H1 _ Hab)|apply (IHE H2)].
  - destruct (opt_all _) as [r|] eqn:E; [|discriminate]. injection H as <-. cbn [has_private_key dprivate].
    apply opt_all_some in E. apply existsb_F2. induction E as [|a b l r Hab _ IHE]; [constructor|]. inversion IH as [|? ? H1 H2]; subst.
    constructor; [|apply (IHE H2)]. destruct (tv_dval (snd a)) as [y|] eqn:Ey; [|discriminate]. injection Hab as <-. cbn [fst snd]. rewrite (H1 y eq_refl). reflexivity.
Qed.

Lemma value_tree_private T x : value_tree T = Some x ->
  has_private_key x = doc_private T /\ has_private_key_below_root x = doc_private_below_root T.
Proof.
  intro H. split; [apply (tv_dval_private _ x H)|]. unfold value_tree in H. cbn [tv_dval] in H.
  destruct (opt_all _) as [r|] eqn:E; [|discriminate]. injection H as <-. cbn [has_private_key_below_root]. unfold doc_private_below_root.
  apply opt_all_some in E. apply existsb_F2. induction E as [|a b l r Hab _ IHE]; [constructor|]. constructor; [|exact IHE].
  destruct (tv_dval (snd a)) as [y|] eqn:Ey; [|discriminate]. injection Hab as <-. cbn [snd]. apply (tv_dval_private _ y Ey).
Qed.

Lemma value_tree_none T : value_tree T = None <-> doc_has_float T = true.
Proof. apply tv_dval_none. Qed.

(* ================================================================================================================== *)
(* 3. the front ends, without the hypothesis tree_ready                                                               *)
(* ================================================================================================================== *)
Import Proofs.FrontEnds.

Theorem frontends_accept s d x :
  parse_document s = POk d -> tree_of_doc d = Some x ->
  (has_private_key_below_root x = false ->
     toml_from_str_table s = FOk (canon_value true x) /\ edit_from_str_table s = FOk (canon_value true x) /\
     (utf8_valid_b s = true -> from_slice_table s = FOk (canon_value true x))) /\
  (has_private_key x = false -> toml_from_str_value s = FOk (canon_value true x)).
Proof. intros Hp Hx. apply (accepted_everywhere s d x Hp Hx (parse_tree_ready s d x Hp Hx)). Qed.

Theorem frontends_classifier s d x :
  parse_document s = POk d -> tree_of_doc d = Some x ->
  (toml_from_str_table s = FDeErr -> has_private_key_below_root x = true) /\
  (toml_from_str_value s = FDeErr -> has_private_key x = true).
Proof. intros Hp Hx. apply (refusal_means_private_key s d x Hp Hx (parse_tree_ready s d x Hp Hx)). Qed.

(* in terms of the data of the document only *)
Theorem frontends_accept_data s d :
  parse_document s = POk d -> doc_has_float (abs_doc d) = false ->
  exists x, value_tree (abs_doc d) = Some x /\
    (doc_private_below_root (abs_doc d) = false ->
       toml_from_str_table s = FOk (canon_value true x) /\ edit_from_str_table s = FOk (canon_value true x) /\
       (utf8_valid_b s = true -> from_slice_table s = FOk (canon_value true x))) /\
    (doc_private (abs_doc d) = false -> toml_from_str_value s = FOk (canon_value true x)).
Proof.
  intros Hp Hf. destruct (value_tree (abs_doc d)) as [x|] eqn:E.
  - exists x. split; [reflexivity|]. pose proof (tree_of_doc_abs s d Hp) as Hx. rewrite E in Hx.
    destruct (value_tree_private _ x E) as [P1 P2]. rewrite <- P1, <- P2. apply (frontends_accept s d x Hp Hx).
  - apply value_tree_none in E. congruence.
Qed.

(* C02: toml::from_str::<Value> decodes the tree the statements denote *)
Theorem serde_value_tree s d stmts T v :
  parse_document s = POk d -> toml_text s stmts -> verdict stmts = Valid T -> toml_from_str_value s = FOk v ->
  exists x, value_tree T = Some x /\ (doc_private T = false -> v = canon_value true x).
Proof.
  intros Hp Ht Hv E. pose proof (GrammarTop.c02_tree s d stmts T Hp Ht Hv) as Ea. pose proof (tree_of_doc_abs s d Hp) as Hx. rewrite Ea in Hx.
  destruct (value_tree T) as [x|] eqn:Ex.
  - exists x. split; [reflexivity|]. intro P. destruct (value_tree_private T x Ex) as [P1 _].
    apply (serde_value s d x v Hp Hx (parse_tree_ready s d x Hp Hx)); [rewrite P1; exact P|exact E].
  - exfalso. unfold toml_from_str_value, from_str_with in E. rewrite Hp, Hx in E. discriminate.
Qed.

Theorem serde_table_tree s d stmts T v :
  parse_document s = POk d -> toml_text s stmts -> verdict stmts = Valid T -> toml_from_str_table s = FOk v ->
  exists x, value_tree T = Some x /\ (doc_private_below_root T = false -> v = canon_value true x).
Proof.
  intros Hp Ht Hv E. pose proof (GrammarTop.c02_tree s d stmts T Hp Ht Hv) as Ea. pose proof (tree_of_doc_abs s d Hp) as Hx. rewrite Ea in Hx.
  destruct (value_tree T) as [x|] eqn:Ex.
  - exists x. split; [reflexivity|]. intro P. destruct (value_tree_private T x Ex) as [_ P2].
    apply (serde_table s d x v Hp Hx (parse_tree_ready s d x Hp Hx)); [rewrite P2; exact P|exact E].
  - exfalso. unfold toml_from_str_table, from_str_with in E. rewrite Hp, Hx in E. discriminate.
Qed.
